(* SqlSort.v — generic facts about ORDER BY created_at DESC + LIMIT as modelled
   in Sql.v ([sort_desc], [firstnZ], [apply_limit]) and about DISTINCT
   ([dedup] by key): a limited prefix of a descending list is a choice of the
   newest elements. *)
From Coq Require Import Permutation.
From Moc Require Import Base Sql SqlLemmas.
Open Scope Z_scope.

Lemma NoDup_app_l {A} (l1 l2 : list A) : NoDup (l1 ++ l2) -> NoDup l1.
Proof.
  induction l1 as [|x l1 IH]; simpl; intro H; [constructor|].
  inversion H; subst. constructor; [|now apply IH].
  intro X. apply H2. apply in_app_iff. now left.
Qed.

Section Sorting.
Context {A : Type} (ts : A -> Z).

Fixpoint dsorted (l : list A) : Prop :=
  match l with
  | [] => True
  | x :: l' => (forall y, In y l' -> ts y <= ts x) /\ dsorted l'
  end.

Lemma insert_desc_perm x l : Permutation (insert_desc ts x l) (x :: l).
Proof.
  induction l as [|y l IH]; simpl; [reflexivity|].
  destruct (ts y <=? ts x); [reflexivity|].
  rewrite IH. apply perm_swap.
Qed.

Lemma sort_desc_perm l : Permutation (sort_desc ts l) l.
Proof.
  induction l as [|x l IH]; simpl; [reflexivity|].
  unfold sort_desc in *. simpl. rewrite insert_desc_perm. now constructor.
Qed.

Lemma sort_desc_In l x : In x (sort_desc ts l) <-> In x l.
Proof.
  split; apply Permutation_in; [apply sort_desc_perm | symmetry; apply sort_desc_perm].
Qed.

Lemma insert_desc_sorted x l : dsorted l -> dsorted (insert_desc ts x l).
Proof.
  induction l as [|y l IH]; simpl; intro S.
  - split; [intros y [] | exact I].
  - destruct S as [S1 S2]. destruct (ts y <=? ts x) eqn:E.
    + apply Z.leb_le in E. simpl. split; [|split; assumption].
      intros z [<- |Hz]; [assumption|]. specialize (S1 z Hz). lia.
    + apply Z.leb_gt in E. simpl. split; [|now apply IH].
      intros z Hz. apply (Permutation_in _ (insert_desc_perm x l)) in Hz.
      destruct Hz as [<- |Hz]; [lia | now apply S1].
Qed.

Lemma sort_desc_sorted l : dsorted (sort_desc ts l).
Proof.
  induction l as [|x l IH]; simpl; [exact I|].
  unfold sort_desc in *. simpl. now apply insert_desc_sorted.
Qed.

Lemma dsorted_app l1 l2 : dsorted (l1 ++ l2) -> dsorted l1 /\ forall x y, In x l1 -> In y l2 -> ts y <= ts x.
Proof.
  induction l1 as [|a l1 IH]; simpl; intro S.
  - split; [exact I | intros x y []].
  - destruct S as [S1 S2]. destruct (IH S2) as [I1 I2]. split.
    + split; [|assumption]. intros y Hy. apply S1. apply in_app_iff. now left.
    + intros x y [<- |Hx] Hy; [apply S1; apply in_app_iff; now right | now apply I2].
Qed.

(** LIMIT n: a prefix; shorter than n only if it is everything *)
Lemma firstnZ_spec (n : Z) (l : list A) :
  0 <= n ->
  exists rest, l = firstnZ n l ++ rest /\ zlen (firstnZ n l) <= n /\ (rest <> [] -> zlen (firstnZ n l) = n).
Proof.
  revert n. induction l as [|x l IH]; intros n Hn; simpl.
  - exists []. unfold zlen. simpl. split; [reflexivity|]. split; [lia | intro H; now elim H].
  - destruct (0 <? n) eqn:E.
    + apply Z.ltb_lt in E. destruct (IH (n - 1)) as [rest [H1 [H2 H3]]]; [lia|].
      exists rest. split; [simpl; now rewrite <- H1|]. unfold zlen in *. simpl length.
      rewrite Nat2Z.inj_succ. split; [lia|]. intro R. specialize (H3 R). lia.
    + apply Z.ltb_ge in E. exists (x :: l). unfold zlen. simpl. split; [reflexivity|]. split; [lia|].
      intros _. lia.
Qed.

(** the model's ORDER BY ... DESC [LIMIT] over a duplicate-free candidate
    list selects the newest candidates *)
Lemma limit_sorted_top (lim : option Z) (l : list A) :
  NoDup l -> match lim with Some n => 0 <= n | None => True end ->
  let res := apply_limit lim (sort_desc ts l) in
  NoDup res /\ dsorted res /\ (forall x, In x res -> In x l) /\
  match lim with
  | None => forall x, In x l -> In x res
  | Some n =>
      zlen res <= n /\ (zlen res < n -> forall x, In x l -> In x res) /\
      (forall x y, In x res -> In y l -> ~ In y res -> ts y <= ts x)
  end.
Proof.
  intros ND Hn. simpl.
  pose proof (sort_desc_perm l) as P. pose proof (sort_desc_sorted l) as S.
  assert (NDs : NoDup (sort_desc ts l)). { eapply Permutation_NoDup; [symmetry; exact P | exact ND]. }
  destruct lim as [n|]; simpl.
  - destruct (firstnZ_spec n (sort_desc ts l) Hn) as [rest [E [L1 L2]]].
    set (res := firstnZ n (sort_desc ts l)) in *.
    rewrite E in S, NDs. apply dsorted_app in S. destruct S as [S1 S2].
    assert (In_l : forall x, In x l <-> In x res \/ In x rest).
    { intro x. rewrite <- (sort_desc_In l x), E, in_app_iff. tauto. }
    split; [now apply NoDup_app_l in NDs|]. split; [assumption|].
    split; [intros x Hx; apply In_l; now left|].
    split; [assumption|]. split.
    + intros Hlt x Hx. apply In_l in Hx. destruct Hx as [Hx|Hx]; [assumption|].
      assert (R : rest <> []) by (intro R; rewrite R in Hx; destruct Hx). specialize (L2 R). lia.
    + intros x y Hx Hy Ny. apply In_l in Hy. destruct Hy as [Hy|Hy]; [contradiction | now apply S2].
  - split; [assumption|]. split; [assumption|]. split; intros x; apply sort_desc_In.
Qed.

Lemma dsorted_map_iff {B} (g : A -> B) (ts' : B -> Z) l :
  (forall x, ts' (g x) = ts x) -> dsorted l ->
  (fix ds (l : list B) : Prop := match l with [] => True | x :: l' => (forall y, In y l' -> ts' y <= ts' x) /\ ds l' end)
    (List.map g l).
Proof.
  intro H. induction l as [|x l IH]; simpl; [auto|].
  intros [S1 S2]. split; [|now apply IH].
  intros y Hy. apply in_map_iff in Hy. destruct Hy as [z [<- Hz]]. rewrite !H. now apply S1.
Qed.

End Sorting.

Lemma insert_desc_map {A B} (g : A -> B) (ts1 : A -> Z) (ts2 : B -> Z) x l :
  (forall a, ts2 (g a) = ts1 a) ->
  List.map g (insert_desc ts1 x l) = insert_desc ts2 (g x) (List.map g l).
Proof.
  intro H. induction l as [|y l IH]; simpl; [reflexivity|].
  rewrite !H. destruct (ts1 y <=? ts1 x); simpl; [reflexivity | now rewrite IH].
Qed.

Lemma sort_desc_map {A B} (g : A -> B) (ts1 : A -> Z) (ts2 : B -> Z) l :
  (forall a, ts2 (g a) = ts1 a) -> List.map g (sort_desc ts1 l) = sort_desc ts2 (List.map g l).
Proof.
  intro H. induction l as [|x l IH]; simpl; [reflexivity|].
  unfold sort_desc in *. simpl. rewrite (insert_desc_map g ts1 ts2), IH; auto.
Qed.

Lemma firstnZ_map {A B} (g : A -> B) l : forall n, List.map g (firstnZ n l) = firstnZ n (List.map g l).
Proof.
  induction l as [|x l IH]; intro n; simpl; [reflexivity|].
  destruct (0 <? n); simpl; [now rewrite IH | reflexivity].
Qed.

Lemma apply_limit_map {A B} (g : A -> B) lim l : List.map g (apply_limit lim l) = apply_limit lim (List.map g l).
Proof. destruct lim; simpl; [apply firstnZ_map | reflexivity]. Qed.

(* ------------------------------------------------------------------ *)
(** * DISTINCT on a key *)

Section DedupKey.
Context {A K : Type} (key : A -> K) (keqb : K -> K -> bool).
Hypothesis keqb_eq : forall a b, keqb a b = true <-> a = b.

Let eqb (a b : A) := keqb (key a) (key b).

Lemma dedupk_sub l : forall seen x, In x (dedup eqb l seen) -> In x l.
Proof.
  induction l as [|y l IH]; intros seen x; simpl; [auto|].
  destruct (existsb (eqb y) seen); [intro H; right; eauto|].
  intros [<- |H]; [now left | right; eauto].
Qed.

Lemma dedupk_fresh l : forall seen x, In x (dedup eqb l seen) -> ~ In (key x) (List.map key seen).
Proof.
  induction l as [|y l IH]; intros seen x; simpl; [intros []|].
  destruct (existsb (eqb y) seen) eqn:E; [apply IH|].
  intros [<- |H].
  - intro H. apply in_map_iff in H. destruct H as [z [E1 H]].
    assert (existsb (eqb y) seen = true); [|congruence].
    apply existsb_exists. exists z. split; [assumption|]. unfold eqb. apply keqb_eq. congruence.
  - intro H'. apply (IH _ _ H). simpl. now right.
Qed.

Lemma dedupk_NoDup l : forall seen, NoDup (List.map key (dedup eqb l seen)).
Proof.
  induction l as [|y l IH]; intros seen; simpl; [constructor|].
  destruct (existsb (eqb y) seen); [apply IH|]. simpl. constructor; [|apply IH].
  intro H. apply in_map_iff in H. destruct H as [z [E H]].
  apply dedupk_fresh in H. apply H. simpl. left. congruence.
Qed.

Lemma dedupk_cover l : forall seen x, In x l -> ~ In (key x) (List.map key seen) ->
  exists y, In y (dedup eqb l seen) /\ key y = key x.
Proof.
  induction l as [|z l IH]; intros seen x; simpl; [intros []|].
  intros [-> |Hx] Nx.
  - destruct (existsb (eqb x) seen) eqn:E.
    + exfalso. apply existsb_exists in E. destruct E as [w [Hw E]]. unfold eqb in E. apply keqb_eq in E.
      apply Nx. rewrite E. now apply in_map.
    + exists x. split; [now left | reflexivity].
  - destruct (existsb (eqb z) seen) eqn:E; [now apply IH|].
    destruct (keqb (key z) (key x)) eqn:E2.
    + apply keqb_eq in E2. exists z. split; [now left | assumption].
    + destruct (IH (z :: seen) x Hx) as [y [H1 H2]].
      * simpl. intros [H|H]; [|contradiction]. rewrite H in E2.
        assert (keqb (key x) (key x) = true) by now apply keqb_eq. congruence.
      * exists y. split; [now right | assumption].
Qed.

End DedupKey.
