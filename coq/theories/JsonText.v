(* JsonText.v -- C10 extension: the text <-> value layer of Go's encoding/json
   (go1.24) on byte strings, as far as the repository's codec depends on it.
   Definitions only; proofs are in JsonTextProofs.v, statements in
   Properties/C10Text.v, the correspondence evaluator in Check/C10TextCheck.v.

   What is modelled (and compared with the real library on every run of
   ./check C10T):

   - [utf8_valid]   utf8.Valid: the first-byte table and accept ranges of
                    unicode/utf8 (shortest form, no surrogates, <= U+10FFFF).
   - [parse_json]   what json.Valid accepts and what a Decoder with UseNumber
                    delivers into [any]: the scanner's grammar (RFC 8259; white
                    space is space, \t, \n, \r; a control byte < 0x20 inside a
                    string is an error; the whole input must be one value;
                    more than 10000 open containers is an error), and
                    unquoteBytes for strings: the escapes \" \\ \/ \b \f \n \r
                    \t \uXXXX, a \u high surrogate followed by a \u low
                    surrogate is one code point, any other \u surrogate is
                    U+FFFD (consuming only its own six bytes), raw bytes are
                    coerced to well-formed UTF-8: a valid sequence is copied,
                    any other byte >= 0x80 is replaced, byte by byte, by U+FFFD.
                    Numbers are mapped to what Json.v keeps of a literal:
                    [NInt sign magnitude] for an integer literal, [NFrac] for a
                    literal with a fraction or an exponent.  Objects keep their
                    members in source order, duplicates included -- Json.v reads
                    them through obj_norm / obj_get (Go's map: last duplicate
                    wins) or in order (decoding into the COUNT struct).
   - [json_valid]   json.Valid = the parser accepts.
   - [label_match]  clientMsgRegexp.FindSubmatch on bytes (Go's \s is
                    [\t\n\f\r ], \w is [0-9A-Za-z_]); which of the two known
                    spellings of the pattern is in force comes from the
                    regenerated constant g_client_msg_regexp.
   - [print_json]   a compact printer whose strings are escaped as json.Marshal
                    escapes them with its default (HTML-safe) settings, which is
                    what every MarshalJSON of message.go uses: \" \\ \b \f \n \r
                    \t, \u00XX for the other controls and for < > &,
                    \u2028 \u2029, \ufffd for every byte that is not part of a valid
                    UTF-8 sequence; everything else is copied.

   - [utf8_wvalb]   protocol values all of whose strings are valid UTF-8 (the
                    hypothesis of the byte-level round trip).
   - [wjv], [wprint], [erase], [ws_okb]
                    values decorated with the white space written between
                    their tokens (statement of C10T_whitespace_irrelevant).

   Fuel.  The parser is a recursive-descent function on a fuel argument; every
   recursive call is preceded by the consumption of at least one byte, and
   [parse_json fuel b] runs the descent with [fuel + fuel], so that
   [length b + 1] always suffices (C10T_parse_total).  Running out of fuel is a
   third outcome [PFuel], distinct from rejection.  Nesting depth is a separate
   counter compared with Go's constant 10000. *)
From Moc Require Import Base Json CodecMsg Codec.
From Moc.Gen Require Import GenCodec.
Open Scope N_scope.

(* ------------------------------------------------------------------ *)
(** * UTF-8 (unicode/utf8: first[], acceptRanges[]) *)

Definition cont (b : N) : bool := (128 <=? b) && (b <=? 191).

(** a two-byte sequence: C2..DF, continuation *)
Definition is2 (a b : N) : bool := (194 <=? a) && (a <=? 223) && cont b.

(** a three-byte sequence: E0 A0..BF | E1..EC 80..BF | ED 80..9F | EE..EF 80..BF, continuation *)
Definition is3 (a b c : N) : bool :=
  ((a =? 224) && (160 <=? b) && (b <=? 191)
   || (225 <=? a) && (a <=? 236) && cont b
   || (a =? 237) && (128 <=? b) && (b <=? 159)
   || (238 <=? a) && (a <=? 239) && cont b) && cont c.

(** a four-byte sequence: F0 90..BF | F1..F3 80..BF | F4 80..8F, two continuations *)
Definition is4 (a b c d : N) : bool :=
  ((a =? 240) && (144 <=? b) && (b <=? 191)
   || (241 <=? a) && (a <=? 243) && cont b
   || (a =? 244) && (128 <=? b) && (b <=? 143)) && cont c && cont d.

(** utf8.Valid *)
Fixpoint utf8_valid (s : str) : bool :=
  match s with
  | [] => true
  | a :: t =>
      if a <? 128 then utf8_valid t else
      match t with
      | [] => false
      | b :: t2 =>
          if is2 a b then utf8_valid t2 else
          match t2 with
          | [] => false
          | c :: t3 =>
              if is3 a b c then utf8_valid t3 else
              match t3 with
              | [] => false
              | d :: t4 => if is4 a b c d then utf8_valid t4 else false
              end
          end
      end
  end.

(** utf8.EncodeRune on a code point that is not a surrogate and <= U+10FFFF *)
Definition enc_rune (c : N) : str :=
  if c <? 128 then [c]
  else if c <? 2048 then [192 + c / 64; 128 + c mod 64]
  else if c <? 65536 then [224 + c / 4096; 128 + (c / 64) mod 64; 128 + c mod 64]
  else [240 + c / 262144; 128 + (c / 4096) mod 64; 128 + (c / 64) mod 64; 128 + c mod 64].

Definition fffd : str := [239; 191; 189].    (* U+FFFD in UTF-8 *)

(* ------------------------------------------------------------------ *)
(** * Tokens *)

Definition is_ws (c : N) : bool := (c =? 32) || (c =? 9) || (c =? 10) || (c =? 13).

Fixpoint skip_ws (s : str) : str :=
  match s with
  | c :: t => if is_ws c then skip_ws t else s
  | [] => []
  end.

Definition is_digit (c : N) : bool := (48 <=? c) && (c <=? 57).

(** getu4's digit values *)
Definition hexval (c : N) : option N :=
  if (48 <=? c) && (c <=? 57) then Some (c - 48)
  else if (97 <=? c) && (c <=? 102) then Some (c - 87)
  else if (65 <=? c) && (c <=? 70) then Some (c - 55)
  else None.

Definition hex4 (a b c d : N) : option N :=
  match hexval a, hexval b, hexval c, hexval d with
  | Some w, Some x, Some y, Some z => Some (((w * 16 + x) * 16 + y) * 16 + z)
  | _, _, _, _ => None
  end.

Definition is_surr (c : N) : bool := (55296 <=? c) && (c <=? 57343).
Definition is_hi (c : N) : bool := (55296 <=? c) && (c <=? 56319).
Definition is_lo (c : N) : bool := (56320 <=? c) && (c <=? 57343).
Definition surr_pair (hi lo : N) : N := 65536 + (hi - 55296) * 1024 + (lo - 56320).

Definition pcons (x : str) (r : option (str * str)) : option (str * str) :=
  match r with
  | Some (s, rest) => Some (x ++ s, rest)
  | None => None
  end.

(** the body of a string literal, after the opening quote: the decoded bytes
    and the text after the closing quote (scanner's string states + unquoteBytes) *)
Fixpoint pstr (s : str) : option (str * str) :=
  match s with
  | [] => None
  | a :: t =>
      if a =? 34 then Some ([], t)
      else if a <? 32 then None
      else if a =? 92 then
        match t with
        | [] => None
        | e :: t2 =>
            if (e =? 34) || (e =? 92) || (e =? 47) then pcons [e] (pstr t2)
            else if e =? 98 then pcons [8] (pstr t2)
            else if e =? 102 then pcons [12] (pstr t2)
            else if e =? 110 then pcons [10] (pstr t2)
            else if e =? 114 then pcons [13] (pstr t2)
            else if e =? 116 then pcons [9] (pstr t2)
            else if e =? 117 then
              match t2 with
              | h1 :: h2 :: h3 :: h4 :: t6 =>
                  match hex4 h1 h2 h3 h4 with
                  | None => None
                  | Some cp =>
                      if is_surr cp then
                        match t6 with
                        | b1 :: u1 :: l1 :: l2 :: l3 :: l4 :: t12 =>
                            if (b1 =? 92) && (u1 =? 117) then
                              match hex4 l1 l2 l3 l4 with
                              | Some lo =>
                                  if is_hi cp && is_lo lo
                                  then pcons (enc_rune (surr_pair cp lo)) (pstr t12)
                                  else pcons fffd (pstr t6)
                              | None => pcons fffd (pstr t6)
                              end
                            else pcons fffd (pstr t6)
                        | _ => pcons fffd (pstr t6)
                        end
                      else pcons (enc_rune cp) (pstr t6)
                  end
              | _ => None
              end
            else None
        end
      else if a <? 128 then pcons [a] (pstr t)
      else
        match t with
        | [] => pcons fffd (pstr t)
        | b :: t2 =>
            if is2 a b then pcons [a; b] (pstr t2) else
            match t2 with
            | [] => pcons fffd (pstr t)
            | c :: t3 =>
                if is3 a b c then pcons [a; b; c] (pstr t3) else
                match t3 with
                | [] => pcons fffd (pstr t)
                | d :: t4 =>
                    if is4 a b c d then pcons [a; b; c; d] (pstr t4)
                    else pcons fffd (pstr t)
                end
            end
        end
  end.

(** digits: value so far, remaining text *)
Fixpoint read_digits (s : str) (acc : N) : N * str :=
  match s with
  | c :: t => if is_digit c then read_digits t (acc * 10 + (c - 48)) else (acc, s)
  | [] => (acc, [])
  end.

Definition hd_digit (s : str) : bool :=
  match s with c :: _ => is_digit c | [] => false end.

Definition hd_is (x : N) (s : str) : bool :=
  match s with c :: _ => c =? x | [] => false end.

(** a number literal: '-'? ( '0' | [1-9][0-9]* ) ( '.' [0-9]+ )? ( [eE] [+-]? [0-9]+ )? *)
Definition pnum (s : str) : option (jnum * str) :=
  let neg := hd_is 45 s in
  let s1 := if neg then tl s else s in
  match s1 with
  | [] => None
  | c :: t =>
      if is_digit c then
        let '(mag, r1) := if c =? 48 then (0, t) else read_digits s1 0 in
        (* fraction *)
        let fr :=
          if hd_is 46 r1 then
            if hd_digit (tl r1) then Some (true, snd (read_digits (tl r1) 0)) else None
          else Some (false, r1) in
        match fr with
        | None => None
        | Some (isf, r2) =>
            if hd_is 101 r2 || hd_is 69 r2 then
              let r3 := tl r2 in
              let r4 := if hd_is 43 r3 || hd_is 45 r3 then tl r3 else r3 in
              if hd_digit r4 then Some (NFrac, snd (read_digits r4 0)) else None
            else Some (if isf then NFrac else NInt neg mag, r2)
        end
      else None
  end.

Fixpoint strip_prefix (p s : str) : option str :=
  match p, s with
  | [], _ => Some s
  | x :: p', y :: s' => if x =? y then strip_prefix p' s' else None
  | _ :: _, [] => None
  end.

Definition lit_true : str := [116; 114; 117; 101].
Definition lit_false : str := [102; 97; 108; 115; 101].
Definition lit_null : str := [110; 117; 108; 108].

(* ------------------------------------------------------------------ *)
(** * Values *)

Inductive pres (A : Type) :=
| POk (a : A) (rest : str)   (* accepted; the text that follows *)
| PRej                       (* syntax error *)
| PFuel.                     (* out of fuel (never, with the fuel of [parse_json]) *)
Arguments POk {A} a rest.
Arguments PRej {A}.
Arguments PFuel {A}.

Definition pbind {A B} (r : pres A) (k : A -> str -> pres B) : pres B :=
  match r with
  | POk a s => k a s
  | PRej => PRej
  | PFuel => PFuel
  end.

(** scanner.go: maxNestingDepth *)
Definition max_depth : N := 10000.

(** The three mutually recursive parsers, written as non-recursive bodies over
    the parsers they call (so that proofs reason about each body once).
    [d] = number of containers open around the value. *)
Definition pval_body (pe : N -> str -> pres (list jv)) (pm : N -> str -> pres (list (str * jv)))
                     (d : N) (s : str) : pres jv :=
  match skip_ws s with
  | [] => PRej
  | c :: r =>
      if c =? 91 then                                   (* [ *)
        if max_depth <? d + 1 then PRej else
        let r1 := skip_ws r in
        if hd_is 93 r1 then POk (JArr []) (tl r1)
        else pbind (pe (d + 1) r1) (fun l r' => POk (JArr l) r')
      else if c =? 123 then                             (* { *)
        if max_depth <? d + 1 then PRej else
        let r1 := skip_ws r in
        if hd_is 125 r1 then POk (JObj []) (tl r1)
        else pbind (pm (d + 1) r1) (fun m r' => POk (JObj m) r')
      else if c =? 34 then                              (* string *)
        match pstr r with
        | Some (x, r') => POk (JStr x) r'
        | None => PRej
        end
      else if (c =? 45) || is_digit c then              (* number *)
        match pnum (c :: r) with
        | Some (n, r') => POk (JNum n) r'
        | None => PRej
        end
      else
        match strip_prefix lit_true (c :: r) with
        | Some r' => POk (JBool true) r'
        | None =>
            match strip_prefix lit_false (c :: r) with
            | Some r' => POk (JBool false) r'
            | None =>
                match strip_prefix lit_null (c :: r) with
                | Some r' => POk JNull r'
                | None => PRej
                end
            end
        end
  end.

(** the elements of a non-empty array, up to and including the bracket *)
Definition pelems_body (pv : N -> str -> pres jv) (pe : N -> str -> pres (list jv))
                       (d : N) (s : str) : pres (list jv) :=
  pbind (pv d s) (fun v r =>
    match skip_ws r with
    | [] => PRej
    | c :: r' =>
        if c =? 44 then pbind (pe d r') (fun vs r'' => POk (v :: vs) r'')
        else if c =? 93 then POk [v] r'
        else PRej
    end).

(** the members of a non-empty object, up to and including the brace;
    [s] starts (after white space) at a key *)
Definition pmembers_body (pv : N -> str -> pres jv) (pm : N -> str -> pres (list (str * jv)))
                         (d : N) (s : str) : pres (list (str * jv)) :=
  match skip_ws s with
  | [] => PRej
  | q :: r =>
      if q =? 34 then
        match pstr r with
        | None => PRej
        | Some (k, r1) =>
            match skip_ws r1 with
            | [] => PRej
            | c1 :: r2 =>
                if c1 =? 58 then
                  pbind (pv d r2) (fun v r3 =>
                    match skip_ws r3 with
                    | [] => PRej
                    | c3 :: r4 =>
                        if c3 =? 44 then pbind (pm d r4) (fun m r5 => POk ((k, v) :: m) r5)
                        else if c3 =? 125 then POk [(k, v)] r4
                        else PRej
                    end)
                else PRej
            end
        end
      else PRej
  end.

(** (the calls are eta-expanded so that call-by-value evaluation does not
    unfold the parsers before they are applied) *)
Fixpoint pval (f : nat) (d : N) (s : str) {struct f} : pres jv :=
  match f with
  | O => PFuel
  | S f' => pval_body (fun d' s' => pelems f' d' s') (fun d' s' => pmembers f' d' s') d s
  end
with pelems (f : nat) (d : N) (s : str) {struct f} : pres (list jv) :=
  match f with
  | O => PFuel
  | S f' => pelems_body (fun d' s' => pval f' d' s') (fun d' s' => pelems f' d' s') d s
  end
with pmembers (f : nat) (d : N) (s : str) {struct f} : pres (list (str * jv)) :=
  match f with
  | O => PFuel
  | S f' => pmembers_body (fun d' s' => pval f' d' s') (fun d' s' => pmembers f' d' s') d s
  end.

(** one value, white space around it, nothing else *)
Definition parse_json_res (fuel : nat) (b : str) : pres jv :=
  pbind (pval (fuel + fuel) 0 b) (fun v r =>
    match skip_ws r with
    | [] => POk v []
    | _ :: _ => PRej
    end).

Definition parse_json (fuel : nat) (b : str) : option jv :=
  match parse_json_res fuel b with
  | POk v _ => Some v
  | _ => None
  end.

Definition fuel_of (b : str) : nat := S (length b).

(** json.Valid *)
Definition json_valid (b : str) : bool :=
  match parse_json (fuel_of b) b with Some _ => true | None => false end.

(** the relay's gate on a text frame (relay.go: utf8.Valid && json.Valid) *)
Definition frame_ok (b : str) : bool := utf8_valid b && json_valid b.

(* ------------------------------------------------------------------ *)
(** * The label pattern on bytes *)

(** \s of Go's regexp: [\t\n\f\r ] *)
Definition is_re_space (c : N) : bool :=
  (c =? 9) || (c =? 10) || (c =? 12) || (c =? 13) || (c =? 32).

Fixpoint skip_re_space (s : str) : str :=
  match s with
  | c :: t => if is_re_space c then skip_re_space t else s
  | [] => []
  end.

(** the longest run of \w, and what follows *)
Fixpoint take_word (s : str) : str * str :=
  match s with
  | c :: t => if word_char c then let (w, r) := take_word t in (c :: w, r) else ([], s)
  | [] => ([], [])
  end.

(** clientMsgRegexp.FindSubmatch(b)[1]: caret, (white space star if the
    pattern has it,) bracket, white space star, quote, group of word
    characters star, quote.  All classes are disjoint from the literals that
    follow them, so greedy matching is deterministic. *)
Definition label_match (b : str) : option str :=
  let b1 := if lead_ws_allowed then skip_re_space b else b in
  match b1 with
  | [] => None
  | c :: r =>
      if c =? 91 then
        match skip_re_space r with
        | [] => None
        | q :: r2 =>
            if q =? 34 then
              let (w, r3) := take_word r2 in
              if hd_is 34 r3 then Some w else None
            else None
        end
      else None
  end.

(** the two token-level facts of [Codec.ctext], read off the bytes *)
Definition lead_ws (b : str) : bool :=
  match b with c :: _ => is_ws c | [] => false end.

Fixpoint bslash_before_quote (s : str) : bool :=
  match s with
  | c :: t => if c =? 34 then false else if c =? 92 then true else bslash_before_quote t
  | [] => false
  end.

(** the text's first token is a bracket, the second a string literal spelled
    with a backslash *)
Definition label_escaped (b : str) : bool :=
  match skip_ws b with
  | [] => false
  | c :: r =>
      if c =? 91 then
        match skip_ws r with
        | [] => false
        | q :: r2 => if q =? 34 then bslash_before_quote r2 else false
        end
      else false
  end.

Definition ctext_of_bytes (b : str) : option ctext :=
  match parse_json (fuel_of b) b with
  | Some j => Some (mkCText (lead_ws b) (label_escaped b) j)
  | None => None
  end.

(* ------------------------------------------------------------------ *)
(** * The decoders on bytes *)

(** json.Unmarshal(b, &x), x of the Go type [t]: checkValid, then the type's
    UnmarshalJSON (Codec.dec_as) *)
Definition decode_bytes (t : wty) (b : str) : res wval :=
  match parse_json (fuel_of b) b with
  | Some j => dec_as t j
  | None => Err
  end.

(** ParseClientMsg(b), as written: the pattern on the bytes, the label
    dispatch, then the message type's UnmarshalJSON on the same bytes (whose
    first json.Unmarshal rejects a text that is not valid JSON) *)
Definition parse_client_msg_bytes (b : str) : res cmsg :=
  match label_match b with
  | None => Err
  | Some l =>
      let run (dec : jv -> res cmsg) : res cmsg :=
        match parse_json (fuel_of b) b with Some j => dec j | None => Err end in
      if str_eqb l g_MsgLabelEvent then run dec_client_event
      else if str_eqb l g_MsgLabelReq then run dec_client_req
      else if str_eqb l g_MsgLabelClose then run dec_client_close
      else if str_eqb l g_MsgLabelAuth then run dec_client_auth
      else if str_eqb l g_MsgLabelCount then run dec_client_count
      else Err
  end.

(** the same through Codec's token-level view *)
Definition parse_client_msg_ctext (b : str) : res cmsg :=
  match ctext_of_bytes b with
  | Some t => parse_client_msg t
  | None => Err
  end.

(* ------------------------------------------------------------------ *)
(** * Printing *)

Definition hexd (n : N) : N := if n <? 10 then 48 + n else 87 + n.

(** encode.go appendString, one byte < 0x80, escapeHTML = true *)
Definition esc_byte (b : N) : str :=
  if b =? 34 then [92; 34]
  else if b =? 92 then [92; 92]
  else if b =? 8 then [92; 98]
  else if b =? 12 then [92; 102]
  else if b =? 10 then [92; 110]
  else if b =? 13 then [92; 114]
  else if b =? 9 then [92; 116]
  else if (b <? 32) || (b =? 60) || (b =? 62) || (b =? 38)
  then [92; 117; 48; 48; hexd (b / 16); hexd (b mod 16)]
  else [b].

Definition ufffd_esc : str := [92; 117; 102; 102; 102; 100].   (* \ufffd *)

(** U+2028 / U+2029 (E2 80 A8 / E2 80 A9) are written \u2028 / \u2029 *)
Definition seq3 (a b c : N) : str :=
  if (a =? 226) && (b =? 128) && ((c =? 168) || (c =? 169))
  then [92; 117; 50; 48; 50; hexd (c - 160)]
  else [a; b; c].

Fixpoint print_str_body (s : str) : str :=
  match s with
  | [] => []
  | a :: t =>
      if a <? 128 then esc_byte a ++ print_str_body t else
      match t with
      | [] => ufffd_esc ++ print_str_body t
      | b :: t2 =>
          if is2 a b then a :: b :: print_str_body t2 else
          match t2 with
          | [] => ufffd_esc ++ print_str_body t
          | c :: t3 =>
              if is3 a b c then seq3 a b c ++ print_str_body t3 else
              match t3 with
              | [] => ufffd_esc ++ print_str_body t
              | d :: t4 =>
                  if is4 a b c d then a :: b :: c :: d :: print_str_body t4
                  else ufffd_esc ++ print_str_body t
              end
          end
      end
  end.

Definition print_str (s : str) : str := 34 :: print_str_body s ++ [34].

(** decimal digits of a magnitude (strconv's %d): least significant digit
    first onto an accumulator; the number of bits bounds the number of digits *)
Fixpoint digits_of (f : nat) (n : N) (acc : str) : str :=
  match f with
  | O => acc
  | S f' =>
      let acc' := (48 + n mod 10) :: acc in
      if n <? 10 then acc' else digits_of f' (n / 10) acc'
  end.

Definition print_N (n : N) : str := digits_of (S (N.to_nat (N.size n))) n [].

(** [NFrac] stands for every literal with a fraction or an exponent; the
    printer picks one representative (no encoder of message.go emits one) *)
Definition lit_frac : str := [49; 46; 53].   (* 1.5 *)

Definition print_num (n : jnum) : str :=
  match n with
  | NInt neg mag => (if neg then [45] else []) ++ print_N mag
  | NFrac => lit_frac
  end.

(** elements / members after the opening bracket, closing bracket included *)
Definition print_elems (pj : jv -> str) : list jv -> str :=
  fix go (l : list jv) : str :=
    match l with
    | [] => [93]
    | x :: l' => match l' with [] => pj x ++ [93] | _ :: _ => pj x ++ 44 :: go l' end
    end.

Definition print_members (pj : jv -> str) : list (str * jv) -> str :=
  fix go (m : list (str * jv)) : str :=
    match m with
    | [] => [125]
    | kv :: m' =>
        match m' with
        | [] => print_str (fst kv) ++ 58 :: pj (snd kv) ++ [125]
        | _ :: _ => print_str (fst kv) ++ 58 :: pj (snd kv) ++ 44 :: go m'
        end
    end.

Fixpoint print_json (j : jv) : str :=
  match j with
  | JNull => lit_null
  | JBool true => lit_true
  | JBool false => lit_false
  | JNum n => print_num n
  | JStr s => print_str s
  | JArr l => 91 :: print_elems print_json l
  | JObj m => 123 :: print_members print_json m
  end.

(* ------------------------------------------------------------------ *)
(** * Well-formedness for the round trip: every string and member name is
      valid UTF-8 and no value sits under more than 10000 containers *)

Fixpoint jdepth (j : jv) : N :=
  match j with
  | JArr l => 1 + fold_right (fun x acc => N.max (jdepth x) acc) 0 l
  | JObj m => 1 + fold_right (fun kv acc => N.max (jdepth (snd kv)) acc) 0 m
  | _ => 0
  end.

Fixpoint jv_utf8 (j : jv) : bool :=
  match j with
  | JStr s => utf8_valid s
  | JArr l => forallb jv_utf8 l
  | JObj m => forallb (fun kv => utf8_valid (fst kv) && jv_utf8 (snd kv)) m
  | _ => true
  end.

Definition text_ok (j : jv) : bool := jv_utf8 j && (jdepth j <=? max_depth).

(** structural equality of JSON values (member order and duplicates count) *)
Fixpoint jv_eqb (a b : jv) {struct a} : bool :=
  match a, b with
  | JNull, JNull => true
  | JBool x, JBool y => Bool.eqb x y
  | JNum x, JNum y => jnum_eqb x y
  | JStr x, JStr y => str_eqb x y
  | JArr la, JArr lb =>
      (fix go (la lb : list jv) {struct la} : bool :=
         match la, lb with
         | [], [] => true
         | x :: la', y :: lb' => jv_eqb x y && go la' lb'
         | _, _ => false
         end) la lb
  | JObj ma, JObj mb =>
      (fix go (ma mb : list (str * jv)) {struct ma} : bool :=
         match ma, mb with
         | [], [] => true
         | (k, x) :: ma', (k', y) :: mb' => str_eqb k k' && jv_eqb x y && go ma' mb'
         | _, _ => false
         end) ma mb
  | _, _ => false
  end.

(* ------------------------------------------------------------------ *)
(** * Protocol values whose strings are all valid UTF-8 (json.Marshal replaces
      any other byte by U+FFFD, so only these can come back unchanged) *)

Definition utf8_strsb (l : list str) : bool := forallb utf8_valid l.

Definition utf8_eventb (e : gevent) : bool :=
  utf8_valid (ge_id e) && utf8_valid (ge_pk e) && utf8_valid (ge_content e) && utf8_valid (ge_sig e) &&
  opt_all (forallb (opt_all utf8_strsb)) (ge_tags e).

Definition utf8_filterb (f : gfilter) : bool :=
  opt_all utf8_strsb (gf_ids f) && opt_all utf8_strsb (gf_authors f) &&
  opt_all (forallb (fun kv : str * option (list str) => utf8_valid (fst kv) && opt_all utf8_strsb (snd kv))) (gf_tags f).

Definition utf8_filtersb (fs : list (option gfilter)) : bool := forallb (opt_all utf8_filterb) fs.

Definition utf8_cmsgb (m : cmsg) : bool :=
  match m with
  | CEvent e | CAuth e => opt_all utf8_eventb e
  | CReq sub fs | CCount sub fs => utf8_valid sub && utf8_filtersb fs
  | CClose sub => utf8_valid sub
  end.

Definition utf8_smsgb (m : smsg) : bool :=
  match m with
  | SEose sub => utf8_valid sub
  | SEvent sub e => utf8_valid sub && opt_all utf8_eventb e
  | SNotice s => utf8_valid s
  | SOk id _ msg pfx => utf8_valid id && utf8_valid msg && utf8_valid pfx
  | SAuth c => utf8_valid c
  | SCount sub _ _ => utf8_valid sub
  | SClosed sub msg pfx => utf8_valid sub && utf8_valid msg && utf8_valid pfx
  end.

Definition utf8_wvalb (v : wval) : bool :=
  match v with
  | WEvent e => utf8_eventb e
  | WFilter f => utf8_filterb f
  | WC m => utf8_cmsgb m
  | WS m => utf8_smsgb m
  end.

(* ------------------------------------------------------------------ *)
(** * Values decorated with the white space written between their tokens *)

Inductive wjv :=
| WAtom (j : jv)          (* a value in the printer's compact spelling *)
| WArr (w0 : str) (l : list (str * wjv * str))
      (* bracket, w0, then per element: white space, the element, white space; commas between; bracket *)
| WObj (w0 : str) (m : list (str * str * str * str * wjv * str)).
      (* brace, w0, then per member: white space, the name, white space, colon, white space, the value,
         white space; commas between; brace *)

Definition all_ws (w : str) : bool := forallb is_ws w.

Definition wprint_elems (pw : wjv -> str) : list (str * wjv * str) -> str :=
  fix go (l : list (str * wjv * str)) : str :=
    match l with
    | [] => [93]
    | (wb, x, wa) :: l' =>
        match l' with
        | [] => wb ++ pw x ++ wa ++ [93]
        | _ :: _ => wb ++ pw x ++ wa ++ 44 :: go l'
        end
    end.

Definition wprint_members (pw : wjv -> str) : list (str * str * str * str * wjv * str) -> str :=
  fix go (m : list (str * str * str * str * wjv * str)) : str :=
    match m with
    | [] => [125]
    | (wb, k, wk, wc, v, wa) :: m' =>
        match m' with
        | [] => wb ++ print_str k ++ wk ++ 58 :: wc ++ pw v ++ wa ++ [125]
        | _ :: _ => wb ++ print_str k ++ wk ++ 58 :: wc ++ pw v ++ wa ++ 44 :: go m'
        end
    end.

Fixpoint wprint (d : wjv) : str :=
  match d with
  | WAtom j => print_json j
  | WArr w0 l => 91 :: w0 ++ wprint_elems wprint l
  | WObj w0 m => 123 :: w0 ++ wprint_members wprint m
  end.

(** the value spelled *)
Fixpoint erase (d : wjv) : jv :=
  match d with
  | WAtom j => j
  | WArr _ l => JArr (List.map (fun e : str * wjv * str => erase (snd (fst e))) l)
  | WObj _ m => JObj (List.map (fun e : str * str * str * str * wjv * str =>
                                  match e with (_, k, _, _, v, _) => (k, erase v) end) m)
  end.

(** every decoration is JSON white space *)
Fixpoint ws_okb (d : wjv) : bool :=
  match d with
  | WAtom _ => true
  | WArr w0 l => all_ws w0 && forallb (fun e : str * wjv * str =>
                                         match e with (wb, x, wa) => all_ws wb && ws_okb x && all_ws wa end) l
  | WObj w0 m => all_ws w0 && forallb (fun e : str * str * str * str * wjv * str =>
                                         match e with (wb, _, wk, wc, v, wa) =>
                                           all_ws wb && all_ws wk && all_ws wc && ws_okb v && all_ws wa end) m
  end.
