(* SystemProofs.v — SYS: proofs about the composed relay of System.v.

   Plan.  A run of the composed system induces a history of inputs of the
   merge session ([a_trace]); the client-side sequence is what [Merge.outs]
   makes of that history (section 2).  Every step either reads a client
   message, delivers a pending reply of one child, or does nothing visible
   (section 1, [step_kind]).  What each child has produced so far is, per
   child, [del i t ++ pending] (section 3) — conserved by deliveries and
   extended by reads; from this the hypotheses of the C08/C09 theorems
   (gated history, every child answers each request once and in order) are
   derived for EVERY schedule (sections 4, 5), and the system-level theorems
   follow from C08/C09/C16/C19 (sections 6 ...). *)
From Coq Require Import List ZArith Lia Bool Permutation.
From Moc Require Import Base Match MatchProofs Msg Cache Handlers System.
From Moc Require Merge MergeProofs MergeAggProofs Router RouterLemmas.
Import ListNotations.
Open Scope Z_scope.

(* ------------------------------------------------------------------ *)
(** * 0. Small facts *)

Lemma from_to_m m : (forall c, m <> SAuth c) -> from_m (to_m m) = m.
Proof. destruct m; intro H; try reflexivity. exfalso. now apply (H challenge). Qed.

Lemma to_from_m m : to_m (from_m m) = m.
Proof. destruct m as [| |[]|[]| |]; reflexivity. Qed.

Lemma vis_app a b : vis (a ++ b) = vis a ++ vis b.
Proof. unfold vis. apply flat_map_app. Qed.

Lemma vis_cons o r : vis (o :: r) = out_list o ++ vis r.
Proof. reflexivity. Qed.

Lemma count_occ_b_vis (p : smsg -> bool) (q : option Merge.smsg -> bool) os :
  (forall m, p (from_m m) = q (Some m)) -> q None = false ->
  count_occ_b p (vis os) = count_occ_b q os.
Proof.
  intros H HN. induction os as [|o os IH]; [reflexivity|].
  rewrite vis_cons, count_occ_b_app, IH. destruct o as [m|]; cbn [out_list count_occ_b].
  - rewrite <- H. destruct (p (from_m m)); reflexivity.
  - now rewrite HN.
Qed.

Lemma is_ok_id_from id m : is_ok_id id (from_m m) = Merge.is_ok_out id (Some m).
Proof. destruct m; reflexivity. Qed.
Lemma is_cnt_sub_from sub m : is_cnt_sub sub (from_m m) = Merge.is_count_out sub (Some m).
Proof. destruct m; reflexivity. Qed.
Lemma is_eose_sub_from sub m : is_eose_sub sub (from_m m) = Merge.is_eose_out sub (Some m).
Proof. destruct m; reflexivity. Qed.

Lemma events_for_app sub a b : events_for sub (a ++ b) = events_for sub a ++ events_for sub b.
Proof.
  induction a as [|m a IH]; [reflexivity|]. destruct m; cbn [app events_for]; try exact IH.
  destruct (str_eqb sub0 sub); [cbn; now rewrite IH | exact IH].
Qed.

Lemma events_for_vis sub os : events_for sub (vis os) = Merge.forwarded sub os.
Proof.
  induction os as [|o os IH]; [reflexivity|]. rewrite vis_cons, events_for_app, IH.
  destruct o as [[s|s e|m|c|t|s p t]|]; cbn; try reflexivity.
  destruct (str_eqb s sub); reflexivity.
Qed.

Lemma In_vis m os : In m (vis os) <-> exists x, In (Some x) os /\ from_m x = m.
Proof.
  unfold vis. rewrite in_flat_map. split.
  - intros [[x|] [Hx Hm]]; cbn in Hm; [|contradiction]. destruct Hm as [<-|[]]. eauto.
  - intros [x [Hx <-]]. exists (Some x). split; [exact Hx | now left].
Qed.

(** [Router.visit_loop] in closed form (C07: visit_loop_spec,
    matching_subs_keys; restated here so that this file does not depend on the
    proof files of the router's multi-connection transition system) *)
Definition matching_subs (e : event) (m : Router.submap) : list str :=
  List.map fst (filter (fun kv => Router.sub_matches e (snd kv)) m).

Lemma visit_loop_spec buf e t m : forall q,
  Router.visit_loop buf e t m q =
  q ++ List.map (fun sub => Router.MEvent sub e t) (firstn (buf - length q) (matching_subs e m)).
Proof.
  induction m as [|[sub fs] m IH]; intro q; cbn [Router.visit_loop matching_subs filter List.map snd].
  - rewrite firstn_nil. cbn. now rewrite app_nil_r.
  - fold (matching_subs e m). destruct (Router.sub_matches e fs) eqn:Hm.
    + destruct (Nat.ltb (length q) buf) eqn:Hlt.
      * apply Nat.ltb_lt in Hlt. rewrite IH, app_length. cbn [length List.map fst].
        destruct (buf - length q)%nat as [|k] eqn:Ek; [lia|].
        replace (buf - (length q + 1))%nat with k by lia. cbn [firstn List.map]. now rewrite <- app_assoc.
      * apply Nat.ltb_ge in Hlt. rewrite IH. replace (buf - length q)%nat with 0%nat by lia. reflexivity.
    + apply IH.
Qed.

Lemma matching_subs_keys e m k : In k (matching_subs e m) -> In k (List.map fst m).
Proof.
  unfold matching_subs. intro H. apply in_map_iff in H as [[k' v] [E H]]. apply filter_In in H as [H _].
  cbn in E. subst. change k with (fst (k, v)). now apply in_map.
Qed.

(* ------------------------------------------------------------------ *)
(** * 1. One step *)

Section Proofs.
  Variable db : Type.
  Variable query : db -> list rfilter -> option (list event).
  Variable insert_batch : db -> list event -> db.
  Variable bulk : nat.
  Variable buflen : nat.
  (** an invariant of the store under which its answers are gated (for the
      relational model of Sql.v: "every stored event has no empty tag") *)
  Variable dbok : db -> Prop.

  Notation sysT := (sys db).
  Notation step := (sys_step db query insert_batch bulk buflen).
  Notation exec_from := (sys_exec_from db query insert_batch bulk buflen).

  (** merge_step on a client input emits nothing *)
  Lemma client_step_silent ms m inp : client_input m = Some inp -> snd (Merge.merge_step ms inp) = None.
  Proof.
    intro H. unfold Merge.merge_step. destruct (Merge.st_dead ms); [reflexivity|].
    destruct m; cbn in H; inversion H; subst; reflexivity.
  Qed.

  Definition opt_list {A} (o : option A) : list A := match o with Some x => [x] | None => [] end.

  Definition pend (s : sysT) (i : nat) : list smsg :=
    match i with O => y_p0 s | S O => y_p1 s | S (S O) => y_p2 s | _ => [] end.

  (** what a step is, without the structure of [sys_step] *)
  Inductive step_kind (s : sysT) (x : label) (s' : sysT) (t1 : list Merge.input) (o1 : list smsg) : Prop :=
  | SK_idle :
      t1 = [] -> o1 = [] -> y_merge s' = y_merge s -> y_cache s' = y_cache s -> y_subs s' = y_subs s ->
      y_p0 s' = y_p0 s -> y_p1 s' = y_p1 s -> y_p2 s' = y_p2 s -> y_in s' = y_in s -> y_done s' = y_done s ->
      y_dead s' = y_dead s ->
      (y_sq s' = y_sq s \/ exists b, x = LBg b /\ y_sq s' = bg_step db insert_batch bulk (y_sq s) b) ->
      step_kind s x s' t1 o1
  | SK_read ord m rest c' ch0 sq' ch2 :
      x = LNext ord -> y_dead s = false -> y_in s = m :: rest ->
      cache_base (y_cache s) m = Ok (c', ch0) -> sqlite_reply db query (y_sq s) m = (sq', ch2) ->
      t1 = opt_list (client_input m) -> o1 = [] ->
      y_merge s' = Merge.final (y_merge s) t1 ->
      y_cache s' = c' -> y_subs s' = router_subs_step (y_subs s) m -> y_sq s' = sq' ->
      y_p0 s' = y_p0 s ++ chan_items ch0 ->
      y_p1 s' = y_p1 s ++ router_live buflen ord (y_subs s) (queued s) m ++ router_main m ->
      y_p2 s' = y_p2 s ++ chan_items ch2 ->
      y_in s' = rest -> y_done s' = y_done s ++ [m] -> y_dead s' = false ->
      step_kind s x s' t1 o1
  | SK_del src m r :
      x = LDel src -> y_dead s = false -> pop s src = Some (m, r) ->
      t1 = [Merge.Child (child_of src) (to_m m)] ->
      o1 = out_list (snd (Merge.merge_step (y_merge s) (Merge.Child (child_of src) (to_m m)))) ->
      y_merge s' = fst (Merge.merge_step (y_merge s) (Merge.Child (child_of src) (to_m m))) ->
      y_cache s' = y_cache s -> y_subs s' = y_subs s -> y_sq s' = y_sq s ->
      (forall i, pend s' i = if Nat.eqb i (child_of src) then r else pend s i) ->
      y_in s' = y_in s -> y_done s' = y_done s -> y_dead s' = false ->
      step_kind s x s' t1 o1
  | SK_panic ord m rest :
      x = LNext ord -> y_dead s = false -> y_in s = m :: rest -> cache_base (y_cache s) m = Panic ->
      y_in s' = rest -> y_done s' = y_done s ++ [m] -> y_dead s' = true -> step_kind s x s' t1 o1.

  Lemma step_cases s x s' t1 o1 : step s x = (s', t1, o1) -> step_kind s x s' t1 o1.
  Proof.
    unfold sys_step. destruct (y_dead s) eqn:Hd.
    { intro E; inversion E; subst. apply SK_idle; auto. }
    destruct x as [ord|src|b].
    - destruct (y_in s) as [|m rest] eqn:Hin.
      { intro E; inversion E; subst. apply SK_idle; auto. }
      destruct (cache_base (y_cache s) m) as [[c' ch0]|] eqn:Hc.
      + destruct (sqlite_reply db query (y_sq s) m) as [sq' ch2] eqn:Hq.
        destruct (client_input m) as [inp|] eqn:Hi.
        * intro E; inversion E; subst. clear E.
          eapply (SK_read s (LNext ord) _ _ _ ord m rest c' ch0 sq' ch2); cbn; eauto; rewrite ?Hi; cbn.
          -- reflexivity.
          -- now rewrite (client_step_silent (y_merge s) m inp Hi).
          -- unfold Merge.final. cbn. now destruct (Merge.merge_step (y_merge s) inp).
        * intro E; inversion E; subst. clear E.
          eapply (SK_read s (LNext ord) _ _ _ ord m rest c' ch0 sq' ch2); cbn; eauto; rewrite ?Hi; reflexivity.
      + destruct (client_input m) as [inp|]; intro E; inversion E; subst;
          eapply (SK_panic s (LNext ord) _ _ _ ord m rest); cbn; eauto.
    - destruct (pop s src) as [[m r]|] eqn:Hp.
      + intro E; inversion E; subst. clear E.
        eapply (SK_del s (LDel src) _ _ _ src m r); eauto.
        * destruct src; reflexivity.
        * destruct src; reflexivity.
        * destruct src; reflexivity.
        * intro i. destruct src; destruct i as [|[|[|i]]]; reflexivity.
        * destruct src; reflexivity.
        * destruct src; reflexivity.
        * destruct src; cbn; exact Hd.
      + intro E; inversion E; subst. apply SK_idle; auto.
    - intro E; inversion E; subst. apply SK_idle; cbn; eauto.
  Qed.

  (** a dead system stays dead *)
  Lemma step_dead s x : y_dead s = true -> step s x = (s, [], []).
  Proof. intro H. unfold sys_step. now rewrite H. Qed.

  (* ---------------------------------------------------------------- *)
  (** * 2. Runs *)

  Notation step_acc := (sys_step_acc db query insert_batch bulk buflen).

  Lemma exec_snoc s l x : exec_from s (l ++ [x]) = step_acc (exec_from s l) x.
  Proof. unfold sys_exec_from. now rewrite fold_left_app. Qed.

  Lemma exec_nil s : exec_from s [] = (s, [], []).
  Proof. reflexivity. Qed.

  (** a run from [s] continued: the second part starts in the state the first reached *)
  Lemma fold_acc_shift l : forall s t o,
    fold_left step_acc l (s, t, o) =
    (a_sys (fold_left step_acc l (s, [], [])),
     t ++ a_trace (fold_left step_acc l (s, [], [])),
     o ++ a_outs (fold_left step_acc l (s, [], []))).
  Proof.
    induction l as [|x l IH]; intros s t o; cbn [fold_left].
    - unfold a_sys, a_trace, a_outs; cbn. now rewrite !app_nil_r.
    - unfold sys_step_acc at 2 4 6 8. destruct (step s x) as [[s' t1] o1] eqn:E. cbn [app].
      rewrite (IH s' (t ++ t1) (o ++ o1)), (IH s' t1 o1). unfold a_sys, a_trace, a_outs; cbn.
      now rewrite !app_assoc.
  Qed.

  Lemma exec_app s l1 l2 :
    exec_from s (l1 ++ l2) =
    (a_sys (exec_from (a_sys (exec_from s l1)) l2),
     a_trace (exec_from s l1) ++ a_trace (exec_from (a_sys (exec_from s l1)) l2),
     a_outs (exec_from s l1) ++ a_outs (exec_from (a_sys (exec_from s l1)) l2)).
  Proof.
    unfold sys_exec_from at 1. rewrite fold_left_app. fold (exec_from s l1).
    destruct (exec_from s l1) as [[s1 t1] o1] eqn:E. rewrite fold_acc_shift. reflexivity.
  Qed.

  Lemma exec_cons s x l :
    exec_from s (x :: l) =
    (a_sys (exec_from (fst (fst (step s x))) l),
     snd (fst (step s x)) ++ a_trace (exec_from (fst (fst (step s x))) l),
     snd (step s x) ++ a_outs (exec_from (fst (fst (step s x))) l)).
  Proof.
    unfold sys_exec_from at 1. cbn [fold_left]. unfold sys_step_acc at 2.
    destruct (step s x) as [[s' t1] o1]. cbn [app fst snd]. rewrite fold_acc_shift. reflexivity.
  Qed.

  Lemma exec_dead l : forall s, y_dead s = true -> exec_from s l = (s, [], []).
  Proof.
    induction l as [|x l IH]; intros s H; [reflexivity|].
    rewrite exec_cons, (step_dead s x H). cbn. now rewrite (IH s H).
  Qed.

  (** if the run ends alive it was alive all the way *)
  Lemma alive_prefix s l1 l2 :
    y_dead (a_sys (exec_from s (l1 ++ l2))) = false -> y_dead (a_sys (exec_from s l1)) = false.
  Proof.
    rewrite exec_app. unfold a_sys at 1. cbn [fst].
    destruct (y_dead (a_sys (exec_from s l1))) eqn:E; [|reflexivity].
    rewrite (exec_dead l2 _ E). unfold a_sys at 1. cbn. now rewrite E.
  Qed.

  (** the merge session inside the system has seen exactly [a_trace], and the
      client has received exactly what [Merge.outs] makes of it *)
  Lemma step_merge s x s' t1 o1 :
    step s x = (s', t1, o1) -> y_dead s' = false ->
    y_merge s' = Merge.final (y_merge s) t1 /\ o1 = vis (Merge.outs (y_merge s) t1).
  Proof.
    intros E Hd. destruct (step_cases _ _ _ _ _ E) as [-> -> Hm|ord m rest c' ch0 sq' ch2 _ _ _ _ _ -> -> Hm|
                                                       src m r _ _ _ -> -> Hm|? ? ? _ _ _ _ Hx].
    - split; [exact Hm | reflexivity].
    - split; [exact Hm|]. destruct (client_input m) as [inp|] eqn:Hi; cbn [opt_list]; [|reflexivity].
      unfold Merge.outs. cbn. destruct (Merge.merge_step (y_merge s) inp) as [ms o] eqn:Es. cbn.
      pose proof (client_step_silent (y_merge s) m inp Hi) as Hs. rewrite Es in Hs. cbn in Hs. now subst o.
    - split.
      + rewrite Hm. unfold Merge.final. cbn. now destruct (Merge.merge_step _ _).
      + unfold Merge.outs. cbn. destruct (Merge.merge_step _ _) as [ms o]. cbn. now rewrite app_nil_r.
    - congruence.
  Qed.

  Lemma exec_merge l : forall s,
    y_dead (a_sys (exec_from s l)) = false ->
    y_merge (a_sys (exec_from s l)) = Merge.final (y_merge s) (a_trace (exec_from s l)) /\
    a_outs (exec_from s l) = vis (Merge.outs (y_merge s) (a_trace (exec_from s l))).
  Proof.
    induction l as [|x l IH] using rev_ind; intros s Hd.
    - split; reflexivity.
    - pose proof (alive_prefix s l [x] Hd) as Hd1. destruct (IH s Hd1) as [IH1 IH2].
      rewrite exec_snoc in *. destruct (exec_from s l) as [[s1 t] o] eqn:E1.
      unfold sys_step_acc in *. destruct (step s1 x) as [[s' t1] o1] eqn:E2.
      unfold a_sys, a_trace, a_outs in *. cbn [fst snd] in *.
      destruct (step_merge s1 x s' t1 o1 E2 Hd) as [M1 M2]. split.
      + rewrite MergeProofs.final_app, <- IH1. exact M1.
      + rewrite MergeProofs.outs_app, vis_app, <- IH1, <- IH2, <- M2. reflexivity.
  Qed.

  (* ---------------------------------------------------------------- *)
  (** * 3. What each child has produced: delivered ++ pending *)

  (** the messages of child [i] in a history *)
  Fixpoint del (i : nat) (t : list Merge.input) : list Merge.smsg :=
    match t with
    | [] => []
    | Merge.Child j m :: r => if Nat.eqb j i then m :: del i r else del i r
    | _ :: r => del i r
    end.

  Lemma del_app i a b : del i (a ++ b) = del i a ++ del i b.
  Proof.
    induction a as [|x a IH]; [reflexivity|]. destruct x; cbn [app del]; try exact IH.
    destruct (Nat.eqb i0 i); [cbn; now rewrite IH | exact IH].
  Qed.

  Lemma del_client i m : del i (opt_list (client_input m)) = [].
  Proof. destruct m; reflexivity. Qed.

  Lemma In_del i t m : In m (del i t) <-> In (Merge.Child i m) t.
  Proof.
    induction t as [|x t IH]; [split; intros []|]. destruct x as [| | | |j m']; cbn [del]; try (rewrite IH; split; [now right | intros [H|H]; [discriminate | exact H]]).
    destruct (Nat.eqb j i) eqn:E.
    - apply Nat.eqb_eq in E. subst j. cbn [In]. rewrite IH. split; intros [H|H]; auto; [left; now subst | left; now inversion H].
    - apply Nat.eqb_neq in E. rewrite IH. split; [now right | intros [H|H]; [inversion H; congruence | exact H]].
  Qed.

  Definition P (s : sysT) (i : nat) : list Merge.smsg := List.map to_m (pend s i).

  Definition m_is_event (m : Merge.smsg) : bool := match m with Merge.SEvent _ _ => true | _ => false end.

  Lemma m_is_event_to_m m : m_is_event (to_m m) = smsg_is_event m.
  Proof. destruct m; reflexivity. Qed.

  (** selectors that never pick a direct reply and an event at once *)
  Definition sel_ok (p : Merge.smsg -> bool) : Prop :=
    (forall m, m_is_event m = true -> p m = false) \/ (forall m, m_is_event m = false -> p m = false).

  Lemma pop_main_spec l m r :
    pop_main l = Some (m, r) ->
    exists a b, l = a ++ m :: b /\ r = a ++ b /\ Forall (fun x => smsg_is_event x = true) a /\ smsg_is_event m = false.
  Proof.
    revert m r. induction l as [|x l IH]; intros m r H; [discriminate|]. cbn in H.
    destruct (smsg_is_event x) eqn:Ex.
    - destruct (pop_main l) as [[y r']|] eqn:Ep; [|discriminate]. inversion H; subst.
      destruct (IH m r' eq_refl) as [a [b [E1 [E2 [F N]]]]]. exists (x :: a), b. subst. repeat split; auto.
    - inversion H; subst. exists [], r. repeat split; auto.
  Qed.

  Lemma filter_events_only (p : Merge.smsg -> bool) a :
    (forall m, m_is_event m = true -> p m = false) ->
    Forall (fun x => smsg_is_event x = true) a -> filter p (List.map to_m a) = [].
  Proof.
    intros Hp F. induction F as [|x a Hx F IH]; [reflexivity|]. cbn.
    rewrite Hp by (now rewrite m_is_event_to_m). exact IH.
  Qed.

  (** a delivery moves one message from pending to delivered; under a selector
      the order is kept even when a direct reply of the router child overtakes
      queued live events *)
  Lemma del_conserve s x s' t1 o1 src m r :
    step_kind s x s' t1 o1 -> x = LDel src -> pop s src = Some (m, r) -> y_dead s' = false ->
    forall i p, sel_ok p ->
      filter p (del i t1) ++ filter p (P s' i) = filter p (P s i).
  Proof.
    intros K Ex Hp Hd i p Hsel. subst x.
    destruct K as [E1 _ _ _ _ H0 H1 H2 _ _ _ _|? ? ? ? ? ? ? E|src' m' r' E _ Hp' Et _ _ _ _ _ Hpe _ _ _|? ? ? E]; subst.
    - (* idle is impossible: the pop succeeded, but harmless *)
      unfold P. destruct i as [|[|[|i]]]; cbn [pend del]; rewrite ?H0, ?H1, ?H2; reflexivity.
    - discriminate.
    - inversion E; subst src'. rewrite Hp in Hp'. inversion Hp'; subst m' r'. clear Hp' E.
      unfold P. rewrite Hpe. cbn [del]. destruct (Nat.eqb (child_of src) i) eqn:Ei.
      + apply Nat.eqb_eq in Ei. subst i. rewrite Nat.eqb_refl.
        destruct src; cbn [pop child_of pend] in *.
        * destruct (y_p0 s) as [|z q]; [discriminate|]. inversion Hp; subst. cbn [List.map filter]. destruct (p (to_m m)); reflexivity.
        * destruct (y_p1 s) as [|z q]; [discriminate|]. inversion Hp; subst. cbn [List.map filter]. destruct (p (to_m m)); reflexivity.
        * destruct (pop_main_spec _ _ _ Hp) as [a [b [E1 [E2 [F N]]]]]. rewrite E1, E2.
          rewrite !map_app, !filter_app. cbn [List.map filter].
          destruct Hsel as [Hs|Hs].
          -- rewrite (filter_events_only p a Hs F). destruct (p (to_m m)); reflexivity.
          -- rewrite (Hs (to_m m)) by (now rewrite m_is_event_to_m). reflexivity.
        * destruct (y_p2 s) as [|z q]; [discriminate|]. inversion Hp; subst. cbn [List.map filter]. destruct (p (to_m m)); reflexivity.
      + rewrite Nat.eqb_sym, Ei. reflexivity.
    - discriminate.
  Qed.

  (** membership: a delivery neither loses nor invents a message *)
  Lemma del_members s x s' t1 o1 src m r :
    step_kind s x s' t1 o1 -> x = LDel src -> pop s src = Some (m, r) -> y_dead s' = false ->
    forall i z, In z (del i t1 ++ P s' i) <-> In z (P s i).
  Proof.
    intros K Ex Hp Hd i z. subst x.
    destruct K as [E1 _ _ _ _ H0 H1 H2 _ _ _ _|? ? ? ? ? ? ? E|src' m' r' E _ Hp' Et _ _ _ _ _ Hpe _ _ _|? ? ? E]; subst.
    - unfold P. destruct i as [|[|[|i]]]; cbn [pend del app]; rewrite ?H0, ?H1, ?H2; reflexivity.
    - discriminate.
    - inversion E; subst src'. rewrite Hp in Hp'. inversion Hp'; subst m' r'. clear Hp' E.
      unfold P. rewrite Hpe. cbn [del]. destruct (Nat.eqb (child_of src) i) eqn:Ei.
      + apply Nat.eqb_eq in Ei. subst i. rewrite Nat.eqb_refl.
        destruct src; cbn [pop child_of pend] in *.
        * destruct (y_p0 s) as [|z0 q]; [discriminate|]. inversion Hp; subst. reflexivity.
        * destruct (y_p1 s) as [|z0 q]; [discriminate|]. inversion Hp; subst. reflexivity.
        * destruct (pop_main_spec _ _ _ Hp) as [a [b [E1 [E2 _]]]]. rewrite E1, E2.
          cbn [app In]. rewrite !map_app, !in_app_iff. cbn [List.map In]. tauto.
        * destruct (y_p2 s) as [|z0 q]; [discriminate|]. inversion Hp; subst. reflexivity.
      + rewrite Nat.eqb_sym, Ei. reflexivity.
    - discriminate.
  Qed.

  (** what was popped was pending *)
  Lemma pop_In (s : sysT) src m r : pop s src = Some (m, r) -> In m (pend s (child_of src)).
  Proof.
    destruct src; cbn [pop child_of pend]; intro H.
    - destruct (y_p0 s); [discriminate|]. inversion H; subst. now left.
    - destruct (y_p1 s); [discriminate|]. inversion H; subst. now left.
    - destruct (pop_main_spec _ _ _ H) as [a [b [E _]]]. rewrite E. apply in_or_app. right. now left.
    - destruct (y_p2 s); [discriminate|]. inversion H; subst. now left.
  Qed.

  Lemma pop_sub (s : sysT) src m r z : pop s src = Some (m, r) -> In z r -> In z (pend s (child_of src)).
  Proof.
    destruct src; cbn [pop child_of pend]; intros H Hz.
    - destruct (y_p0 s); [discriminate|]. inversion H; subst. now right.
    - destruct (y_p1 s); [discriminate|]. inversion H; subst. now right.
    - destruct (pop_main_spec _ _ _ H) as [a [b [E [E2 _]]]]. rewrite E. subst r.
      apply in_app_or in Hz. apply in_or_app. destruct Hz; [now left | right; now right].
    - destruct (y_p2 s); [discriminate|]. inversion H; subst. now right.
  Qed.

  (* ---------------------------------------------------------------- *)
  (** * 4. What the children reply (C16's cache base, the router, the SQLite base) *)

  Definition reply_gated (m : smsg) : Prop :=
    match m with SEvent _ e => tags_nonempty e | _ => True end.

  (** the store keeps [dbok] when gated events are inserted, and a store that
      satisfies it returns only events without an empty tag *)
  Definition store_ok : Prop :=
    (forall d b, dbok d -> Forall tags_nonempty b -> dbok (insert_batch d b)) /\
    (forall d fs evs, dbok d -> query d fs = Some evs -> Forall tags_nonempty evs).

  (** the SQLite handler: database, channel and batch buffer hold gated events *)
  Definition sq_ok (q : sqstate db) : Prop :=
    dbok (sq_db q) /\ Forall tags_nonempty (sq_queue q) /\ Forall tags_nonempty (sq_buf q).

  (** the cache child never answers with an event that has an empty tag, along
      the messages still to come (discharged from the gate in section 9) *)
  Fixpoint cache_gated_from (c : cstate) (msgs : list cmsg) : Prop :=
    match msgs with
    | [] => True
    | m :: r =>
        match cache_base c m with
        | Panic => True
        | Ok (c', ch) => Forall reply_gated (chan_items ch) /\ cache_gated_from c' r
        end
    end.

  (** the shape of a child's reply list to one message *)
  Definition ok_of (id : str) (l : list smsg) : list smsg := filter (is_ok_id id) l.
  Definition cnt_of (sub : str) (l : list smsg) : list smsg := filter (is_cnt_sub sub) l.

  Definition one_if (b : bool) : nat := if b then 1%nat else 0%nat.

  Lemma filter_map_events (p : smsg -> bool) sub evs :
    (forall e, p (SEvent sub e) = false) -> filter p (List.map (SEvent sub) evs) = [].
  Proof. intro H. induction evs as [|x evs IH]; [reflexivity|]. cbn. now rewrite H. Qed.

  Lemma cache_reply_shape c m c' ch :
    cache_base c m = Ok (c', ch) ->
    (forall id, length (ok_of id (chan_items ch)) = one_if (is_event_id id m)) /\
    (forall sub, length (cnt_of sub (chan_items ch)) = one_if (is_count_sub sub m)) /\
    (forall z, In z (chan_items ch) ->
       match z with
       | SOk i a p t => (a = true /\ p = [] /\ t = []) \/ (a = false /\ p = dup_prefix /\ t = already_have)
       | SCount _ n ap => n = 0 /\ ap = None
       | SEvent sub _ | SEose sub => is_req_sub sub m = true
       | _ => False
       end).
  Proof.
    destruct m as [e|sub fs|sub|e|sub fs]; cbn [cache_base].
    - destruct (c_add c e) as [s' added]. intro H; inversion H; subst. cbn [chan_items].
      split; [|split].
      + intro id. unfold ok_of. destruct added; cbn; destruct (str_eqb (ev_id e) id); reflexivity.
      + intro s0. destruct added; reflexivity.
      + intros z [<-|[]]. destruct added; auto.
    - destruct (c_find c fs) as [evs|]; [|discriminate]. intro H; inversion H; subst. cbn [chan_items].
      split; [|split].
      + intro id. unfold ok_of. rewrite filter_app, filter_map_events by reflexivity. reflexivity.
      + intro s0. unfold cnt_of. rewrite filter_app, filter_map_events by reflexivity. reflexivity.
      + intros z Hz. apply in_app_or in Hz as [Hz|[<-|[]]].
        * apply in_map_iff in Hz as [x [<- _]]. cbn. apply str_eqb_refl.
        * cbn. apply str_eqb_refl.
    - intro H; inversion H; subst. cbn. repeat split; intros; try reflexivity; contradiction.
    - intro H; inversion H; subst. cbn. repeat split; intros; try reflexivity; contradiction.
    - intro H; inversion H; subst. cbn [chan_items]. split; [|split].
      + intro id. reflexivity.
      + intro s0. unfold cnt_of. cbn. destruct (str_eqb sub s0); reflexivity.
      + intros z [<-|[]]. auto.
  Qed.

  Lemma sqlite_reply_shape sq m sq' ch :
    sqlite_reply db query sq m = (sq', ch) ->
    (forall id, length (ok_of id (chan_items ch)) = one_if (is_event_id id m)) /\
    (forall sub, length (cnt_of sub (chan_items ch)) = one_if (is_count_sub sub m)) /\
    (forall z, In z (chan_items ch) ->
       match z with
       | SOk i a p t => a = true /\ p = [] /\ t = []
       | SCount _ n ap => n = 0 /\ ap = None
       | SEvent sub _ | SEose sub => is_req_sub sub m = true
       | _ => False
       end).
  Proof.
    destruct m as [e|sub fs|sub|e|sub fs]; cbn [sqlite_reply default_reply]; intro H; inversion H; subst; cbn [chan_items].
    - split; [|split].
      + intro id. unfold ok_of. cbn. destruct (str_eqb (ev_id e) id); reflexivity.
      + intro s0. reflexivity.
      + intros z [<-|[]]. auto.
    - assert (G : forall evs : list event,
                (forall id, length (ok_of id (List.map (SEvent sub) evs ++ [SEose sub])) = 0%nat) /\
                (forall s0, length (cnt_of s0 (List.map (SEvent sub) evs ++ [SEose sub])) = 0%nat) /\
                (forall z, In z (List.map (SEvent sub) evs ++ [SEose sub]) ->
                   match z with SEvent s1 _ | SEose s1 => str_eqb s1 sub = true | _ => False end)).
      { intro evs. split; [|split].
        - intro id. unfold ok_of. rewrite filter_app, filter_map_events by reflexivity. reflexivity.
        - intro s0. unfold cnt_of. rewrite filter_app, filter_map_events by reflexivity. reflexivity.
        - intros z Hz. apply in_app_or in Hz as [Hz|[<-|[]]].
          + apply in_map_iff in Hz as [x [<- _]]. apply str_eqb_refl.
          + apply str_eqb_refl. }
      destruct (query _ fs) as [evs|].
      + destruct (G evs) as [G1 [G2 G3]]. split; [exact G1|]. split; [exact G2|].
        intros z Hz. specialize (G3 z Hz). destruct z; try contradiction; cbn; now rewrite str_eqb_sym.
      + destruct (G []) as [G1 [G2 G3]]. split; [exact G1|]. split; [exact G2|].
        intros z Hz. specialize (G3 z Hz). destruct z; try contradiction; cbn; now rewrite str_eqb_sym.
    - repeat split; intros; try reflexivity; contradiction.
    - repeat split; intros; try reflexivity; contradiction.
    - split; [|split].
      + intro id. reflexivity.
      + intro s0. unfold cnt_of. cbn. destruct (str_eqb sub s0); reflexivity.
      + intros z [<-|[]]. auto.
  Qed.

  Lemma firstn_In_local {A} (n : nat) : forall (l : list A) x, In x (firstn n l) -> In x l.
  Proof.
    induction n as [|n IH]; intros [|y l] x H; cbn in H; try contradiction.
    destruct H as [<-|H]; [now left | right; now apply IH].
  Qed.

  Lemma live_copies_shape e m qlen z :
    In z (live_copies buflen e m qlen) -> exists sub, z = SEvent sub e /\ In sub (List.map fst m).
  Proof.
    unfold live_copies. rewrite visit_loop_spec.
    rewrite skipn_app, repeat_length, Nat.sub_diag, skipn_all2 by (rewrite repeat_length; lia).
    cbn [app skipn]. rewrite map_map. intro H. apply in_map_iff in H as [sub [<- Hs]].
    exists sub. split; [reflexivity|].
    eapply matching_subs_keys. eapply firstn_In_local. exact Hs.
  Qed.

  Lemma filter_none_in {A} (p : A -> bool) l : (forall z, In z l -> p z = false) -> filter p l = [].
  Proof.
    induction l as [|x l IH]; intro H; [reflexivity|]. cbn. rewrite (H x (or_introl eq_refl)).
    apply IH. intros z Hz. apply H. now right.
  Qed.

  Lemma router_reply_shape ord subs q m :
    let l := router_live buflen ord subs q m ++ router_main m in
    (forall id, length (ok_of id l) = one_if (is_event_id id m)) /\
    (forall sub, length (cnt_of sub l) = one_if (is_count_sub sub m)) /\
    (forall z, In z l ->
       match z with
       | SOk i a p t => a = true /\ p = [] /\ t = []
       | SCount _ n ap => n = 0 /\ ap = None
       | SEose sub => is_req_sub sub m = true
       | SEvent sub e => m = CEvent e /\ In sub (List.map fst subs)
       | _ => False
       end).
  Proof.
    destruct m as [e|sub fs|sub|e|sub fs]; cbn [router_live router_main router_op Router.reply_of List.map of_router app].
    - assert (L : forall z, In z (live_copies buflen e (Router.reorder ord subs) q) ->
                  exists sub, z = SEvent sub e /\ In sub (List.map fst subs)).
      { intros z Hz. destruct (live_copies_shape _ _ _ _ Hz) as [sub [E Hs]]. exists sub. split; [exact E|].
        eapply RouterLemmas.reorder_keys_In. exact Hs. }
      split; [|split].
      + intro id. unfold ok_of. rewrite filter_app, filter_none_in.
        * cbn. destruct (str_eqb (ev_id e) id); reflexivity.
        * intros z Hz. destruct (L z Hz) as [sub [-> _]]. reflexivity.
      + intro s0. unfold cnt_of. rewrite filter_app, filter_none_in; [reflexivity|].
        intros z Hz. destruct (L z Hz) as [sub [-> _]]. reflexivity.
      + intros z Hz. apply in_app_or in Hz as [Hz|[<-|[]]]; [|auto].
        destruct (L z Hz) as [sub [-> Hs]]. auto.
    - split; [|split]; [intro; reflexivity | intro; reflexivity |]. intros z [<-|[]]. cbn. apply str_eqb_refl.
    - split; [|split]; [intro; reflexivity | intro; reflexivity |]. intros z [].
    - split; [|split]; [intro; reflexivity | intro; reflexivity |]. intros z [].
    - split; [|split]; [intro; reflexivity | |].
      + intro s0. unfold cnt_of. cbn. destruct (str_eqb sub s0); reflexivity.
      + intros z [<-|[]]. auto.
  Qed.

  Lemma sqlite_reply_gated sq m sq' ch :
    store_ok -> sq_ok sq -> sqlite_reply db query sq m = (sq', ch) -> Forall reply_gated (chan_items ch).
  Proof.
    intros [_ Hq] [Hdb _]. destruct m as [e|sub fs|sub|e|sub fs]; cbn [sqlite_reply default_reply]; intro H; inversion H; subst; cbn [chan_items];
      try (repeat constructor; fail).
    destruct (query _ fs) as [evs|] eqn:Eq; [|repeat constructor].
    apply Forall_app. split; [|repeat constructor]. apply Forall_forall. intros z Hz.
    apply in_map_iff in Hz as [x [<- Hx]]. cbn. specialize (Hq _ _ _ Hdb Eq). rewrite Forall_forall in Hq. now apply Hq.
  Qed.

  Lemma sqlite_reply_ok sq m sq' ch :
    sq_ok sq -> cmsg_gate m -> sqlite_reply db query sq m = (sq', ch) -> sq_ok sq'.
  Proof.
    intros [H1 [H2 H3]] Gm. destruct m as [e|sub fs|sub|e|sub fs]; cbn [sqlite_reply default_reply]; intro H; inversion H; subst; cbn;
      try (split; [|split]; assumption).
    split; [exact H1|]. split; [|exact H3]. apply Forall_app. split; [exact H2|]. constructor; [exact Gm | constructor].
  Qed.

  Lemma bg_step_ok q b : store_ok -> sq_ok q -> sq_ok (bg_step db insert_batch bulk q b).
  Proof.
    intros [Hins _] Hok. pose proof Hok as [H1 [H2 H3]]. destruct b; cbn [bg_step].
    - unfold recv_step. destruct (sq_queue q) as [|e qq] eqn:Eq; [exact Hok|].
      inversion H2 as [|? ? He Hqq]; subst.
      destruct (mem_str (ev_id e) (sq_seen q)); [split; [|split]; assumption|].
      destruct (Nat.leb bulk (length (sq_buf q ++ [e]))); cbn.
      + split; [|split]; [|exact Hqq|constructor]. apply Hins; [exact H1|].
        apply Forall_app. split; [exact H3|]. constructor; [exact He|constructor].
      + split; [exact H1|]. split; [exact Hqq|]. apply Forall_app. split; [exact H3|]. constructor; [exact He|constructor].
    - unfold tick_step. destruct (sq_buf q) as [|e bb] eqn:Eb; [exact Hok|]. cbn.
      split; [|split]; [|exact H2|constructor]. apply Hins; [exact H1 | exact H3].
  Qed.

  (* ---------------------------------------------------------------- *)
  (** * 5. The invariant of a run *)

  Definition sel_okid (id : str) (m : Merge.smsg) : bool :=
    match m with Merge.SOk o => str_eqb (Merge.ok_id o) id | _ => false end.
  Definition sel_cnt (sub : str) (m : Merge.smsg) : bool :=
    match m with Merge.SCount c => str_eqb (Merge.c_sub c) sub | _ => false end.

  Lemma sel_okid_ok id : sel_ok (sel_okid id).
  Proof. left. intros [] H; try discriminate; reflexivity. Qed.
  Lemma sel_cnt_ok sub : sel_ok (sel_cnt sub).
  Proof. left. intros [] H; try discriminate; reflexivity. Qed.

  Lemma filter_sel_okid id l : length (filter (sel_okid id) (List.map to_m l)) = length (ok_of id l).
  Proof.
    unfold ok_of. induction l as [|m l IH]; [reflexivity|]. cbn [List.map filter].
    assert (E : sel_okid id (to_m m) = is_ok_id id m) by (destruct m; reflexivity).
    rewrite E. destruct (is_ok_id id m); cbn; now rewrite IH.
  Qed.
  Lemma filter_sel_cnt sub l : length (filter (sel_cnt sub) (List.map to_m l)) = length (cnt_of sub l).
  Proof.
    unfold cnt_of. induction l as [|m l IH]; [reflexivity|]. cbn [List.map filter].
    assert (E : sel_cnt sub (to_m m) = is_cnt_sub sub m) by (destruct m; reflexivity).
    rewrite E. destruct (is_cnt_sub sub m); cbn; now rewrite IH.
  Qed.

  Lemma ok_replies_del id i t :
    List.map Merge.SOk (Merge.ok_replies_of id i t) = filter (sel_okid id) (del i t).
  Proof.
    unfold Merge.ok_replies_of. induction t as [|x t IH]; [reflexivity|].
    destruct x as [| | | |j m]; cbn [Merge.replies_of Merge.ok_reply del]; try exact IH.
    destruct m as [| |o| | |]; cbn [Merge.ok_reply];
      try (destruct (Nat.eqb j i); cbn [filter sel_okid]; exact IH).
    destruct (Nat.eqb j i); cbn [andb filter sel_okid].
    - destruct (str_eqb (Merge.ok_id o) id); cbn [List.map]; now rewrite IH.
    - exact IH.
  Qed.

  Lemma cnt_replies_del sub i t :
    List.map Merge.SCount (Merge.cnt_replies_of sub i t) = filter (sel_cnt sub) (del i t).
  Proof.
    unfold Merge.cnt_replies_of. induction t as [|x t IH]; [reflexivity|].
    destruct x as [| | | |j m]; cbn [Merge.replies_of Merge.cnt_reply del]; try exact IH.
    destruct m as [| | |c| |]; cbn [Merge.cnt_reply];
      try (destruct (Nat.eqb j i); cbn [filter sel_cnt]; exact IH).
    destruct (Nat.eqb j i); cbn [andb filter sel_cnt].
    - destruct (str_eqb (Merge.c_sub c) sub); cbn [List.map]; now rewrite IH.
    - exact IH.
  Qed.

  (** the shapes of the children's OK and COUNT replies, on the merge side *)
  Definition shape_plain (z : Merge.smsg) : Prop :=
    match z with
    | Merge.SOk o => Merge.ok_acc o = true /\ Merge.ok_prefix o = [] /\ Merge.ok_text o = []
    | Merge.SCount c => Merge.c_count c = 0 /\ Merge.c_approx c = None
    | _ => True
    end.
  Definition shape_cache (z : Merge.smsg) : Prop :=
    match z with
    | Merge.SOk o => (Merge.ok_acc o = true /\ Merge.ok_prefix o = [] /\ Merge.ok_text o = []) \/
                     (Merge.ok_acc o = false /\ Merge.ok_prefix o = dup_prefix /\ Merge.ok_text o = already_have)
    | Merge.SCount c => Merge.c_count c = 0 /\ Merge.c_approx c = None
    | _ => True
    end.
  Definition shape_of (i : nat) : Merge.smsg -> Prop := match i with O => shape_cache | _ => shape_plain end.

  Definition client_part (t : list Merge.input) : list Merge.input :=
    filter (fun x => match x with Merge.Child _ _ => false | _ => true end) t.

  Definition clients_of (done : list cmsg) : list Merge.input := flat_map (fun m => opt_list (client_input m)) done.

  Lemma simple_session_app {St} (b : @sbase St) : forall l1 l2 s,
    simple_session b s (l1 ++ l2) =
    match simple_session b s l1 with
    | Panic => Panic
    | Ok (s1, o1) => match simple_session b s1 l2 with
                     | Panic => Panic
                     | Ok (s2, o2) => Ok (s2, o1 ++ o2)
                     end
    end.
  Proof.
    induction l1 as [|m l1 IH]; intros l2 s; cbn [app simple_session].
    - destruct (simple_session b s l2) as [[s2 o2]|]; reflexivity.
    - destruct (b s m) as [[s1 ch]|]; [|reflexivity]. rewrite IH.
      destruct (simple_session b s1 l1) as [[s2 o2]|]; [|reflexivity].
      destruct (simple_session b s2 l2) as [[s3 o3]|]; [|reflexivity]. now rewrite app_assoc.
  Qed.

  Section Run.
    Variable cap : Z.
    Variable d0 : db.
    Variable msgs : list cmsg.

    Record Inv (a : acc db) : Prop := mkInv {
      i_io : y_done (a_sys a) ++ y_in (a_sys a) = msgs;
      i_G : forall i z, In z (pend (a_sys a) i) -> reply_gated z;
      i_CG : cache_gated_from (y_cache (a_sys a)) (y_in (a_sys a));
      i_sq : sq_ok (y_sq (a_sys a));
      i_tok : Merge.trace_ok 3 (a_trace a);
      i_nok : forall i id, (i < 3)%nat ->
        (length (filter (sel_okid id) (del i (a_trace a))) + length (ok_of id (pend (a_sys a) i)))%nat =
        count_occ_b (Merge.is_cevent_of id) (a_trace a);
      i_ncnt : forall i sub, (i < 3)%nat ->
        (length (filter (sel_cnt sub) (del i (a_trace a))) + length (cnt_of sub (pend (a_sys a) i)))%nat =
        count_occ_b (Merge.is_ccount_of sub) (a_trace a);
      i_aio : Merge.answers_in_order (a_trace a);
      i_shape : forall i z, (i < 3)%nat -> In z (del i (a_trace a) ++ P (a_sys a) i) -> shape_of i z;
      i_subs : y_subs (a_sys a) = router_subs (y_done (a_sys a));
      i_clients : client_part (a_trace a) = clients_of (y_done (a_sys a));
      i_cs : exists R0, cache_session (c_empty cap) (y_done (a_sys a)) = Ok (y_cache (a_sys a), R0) /\
                        List.map to_m R0 = del 0 (a_trace a) ++ P (a_sys a) 0
    }.

    Hypothesis Hgate : gated msgs.
    Hypothesis Hq : store_ok.
    Hypothesis Hd0 : dbok d0.

    Lemma snoc_split {A} (h h1 h2 : list A) x y :
      h ++ [x] = h1 ++ y :: h2 ->
      (h2 = [] /\ h = h1 /\ x = y) \/ exists h2', h2 = h2' ++ [x] /\ h = h1 ++ y :: h2'.
    Proof.
      intro E. induction h2 as [|z h2 _] using rev_ind.
      - left. apply app_inj_tail in E as [E1 E2]. auto.
      - right. exists h2.
        assert (E' : h ++ [x] = (h1 ++ y :: h2) ++ [z]) by (rewrite E, <- app_assoc; reflexivity).
        apply app_inj_tail in E' as [E1 E2]. subst. auto.
    Qed.

    Lemma aio_ev_snoc t x :
      Merge.answers_in_order_ev t ->
      (forall i m, x = Merge.Child i (Merge.SOk m) ->
         (length (Merge.ok_replies_of (Merge.ok_id m) i t) < count_occ_b (Merge.is_cevent_of (Merge.ok_id m)) t)%nat) ->
      Merge.answers_in_order_ev (t ++ [x]).
    Proof.
      intros H Hx pre i m rest E. destruct (snoc_split _ _ _ _ _ E) as [[_ [<- Ex]]|[r' [-> Et]]].
      - now apply Hx.
      - eapply H. exact Et.
    Qed.

    Lemma aio_cnt_snoc t x :
      Merge.answers_in_order_cnt t ->
      (forall i m, x = Merge.Child i (Merge.SCount m) ->
         (length (Merge.cnt_replies_of (Merge.c_sub m) i t) < count_occ_b (Merge.is_ccount_of (Merge.c_sub m)) t)%nat) ->
      Merge.answers_in_order_cnt (t ++ [x]).
    Proof.
      intros H Hx pre i m rest E. destruct (snoc_split _ _ _ _ _ E) as [[_ [<- Ex]]|[r' [-> Et]]].
      - now apply Hx.
      - eapply H. exact Et.
    Qed.

    Lemma aio_client t m : Merge.answers_in_order t -> Merge.answers_in_order (t ++ opt_list (client_input m)).
    Proof.
      intros [H1 H2]. destruct (client_input m) as [inp|] eqn:E; cbn [opt_list]; [|now rewrite app_nil_r].
      split; [apply aio_ev_snoc | apply aio_cnt_snoc]; auto; intros i o Ex; subst inp; destruct m; discriminate.
    Qed.

    Lemma count_client_ev id m :
      count_occ_b (Merge.is_cevent_of id) (opt_list (client_input m)) = one_if (is_event_id id m).
    Proof. destruct m; reflexivity. Qed.

    Lemma count_client_cnt sub m :
      count_occ_b (Merge.is_ccount_of sub) (opt_list (client_input m)) = one_if (is_count_sub sub m).
    Proof. destruct m; reflexivity. Qed.

    Lemma client_part_app a b : client_part (a ++ b) = client_part a ++ client_part b.
    Proof. unfold client_part. apply filter_app. Qed.

    Lemma client_part_client m : client_part (opt_list (client_input m)) = opt_list (client_input m).
    Proof. destruct m; reflexivity. Qed.

    Lemma clients_of_snoc done m : clients_of (done ++ [m]) = clients_of done ++ opt_list (client_input m).
    Proof. unfold clients_of. rewrite flat_map_app. cbn. now rewrite app_nil_r. Qed.

    Lemma router_subs_snoc done m : router_subs (done ++ [m]) = router_subs_step (router_subs done) m.
    Proof. unfold router_subs. now rewrite fold_left_app. Qed.

    Lemma ok_of_app id a b : ok_of id (a ++ b) = ok_of id a ++ ok_of id b.
    Proof. apply filter_app. Qed.
    Lemma cnt_of_app sub a b : cnt_of sub (a ++ b) = cnt_of sub a ++ cnt_of sub b.
    Proof. apply filter_app. Qed.

    (** the replies of child [i] to message [m] in state [s] *)
    Definition new_of (s : sysT) (ord : list str) (m : cmsg) (ch0 ch2 : option (list smsg)) (i : nat) : list smsg :=
      match i with
      | O => chan_items ch0
      | S O => router_live buflen ord (y_subs s) (queued s) m ++ router_main m
      | S (S O) => chan_items ch2
      | _ => []
      end.

    Lemma shape_to_m_plain z :
      match z with
      | SOk i a p t => a = true /\ p = [] /\ t = []
      | SCount _ n ap => n = 0 /\ ap = None
      | SAuth _ | SNotice _ | SClosed _ _ _ => False
      | _ => True
      end -> shape_plain (to_m z).
    Proof. destruct z; cbn; tauto. Qed.

    Lemma shape_to_m_cache z :
      match z with
      | SOk i a p t => (a = true /\ p = [] /\ t = []) \/ (a = false /\ p = dup_prefix /\ t = already_have)
      | SCount _ n ap => n = 0 /\ ap = None
      | SAuth _ | SNotice _ | SClosed _ _ _ => False
      | _ => True
      end -> shape_cache (to_m z).
    Proof. destruct z; cbn; tauto. Qed.

    Lemma inv_init : cache_gated_from (c_empty cap) msgs -> Inv (sys_init db cap d0 msgs, [], []).
    Proof.
      intro HC. constructor; unfold a_sys, a_trace; cbn [fst snd sys_init y_done y_in y_cache y_subs].
      - reflexivity.
      - intros [|[|[|i]]] z H; contradiction.
      - exact HC.
      - split; [exact Hd0|]. split; constructor.
      - constructor.
      - intros i id _. destruct i as [|[|[|i]]]; reflexivity.
      - intros i sub _. destruct i as [|[|[|i]]]; reflexivity.
      - split; intros pre i m rest E; destruct pre; discriminate.
      - intros i z _ H. destruct i as [|[|[|i]]]; contradiction.
      - reflexivity.
      - reflexivity.
      - exists []. split; reflexivity.
    Qed.

    Lemma inv_step a x :
      Inv a -> y_dead (a_sys (sys_step_acc db query insert_batch bulk buflen a x)) = false ->
      Inv (sys_step_acc db query insert_batch bulk buflen a x).
    Proof.
      destruct a as [[s t] o]. intros I Hd. unfold sys_step_acc in *.
      destruct (step s x) as [[s' t1] o1] eqn:E. unfold a_sys, a_trace in *. cbn [fst snd] in *.
      pose proof (step_cases _ _ _ _ _ E) as K.
      destruct I as [Iio IG ICG Isq Itok Inok Incnt Iaio Ishape Isubs Icl Ics].
      unfold a_sys, a_trace in *. cbn [fst snd] in *.
      destruct K as [Et Eo Hm Hc Hs H0 H1 H2 Hin Hdone Hdd Hsq
                    |ord m rest c' ch0 sq' ch2 Ex Hal Hin Hcb Hsr Et Eo Hm Hc Hs Hsq H0 H1 H2 Hin' Hdone Hdd
                    |src m r Ex Hal Hpop Et Eo Hm Hc Hs Hsq Hpe Hin Hdone Hdd
                    |ord m rest Ex Hal Hin Hcb Hdd].
      - (* nothing visible happened *)
        subst t1 o1. rewrite !app_nil_r.
        assert (Hp : forall i, pend s' i = pend s i) by (intros [|[|[|i]]]; cbn [pend]; congruence).
        constructor; unfold a_sys, a_trace, P; cbn [fst snd];
          rewrite ?Hdone, ?Hin, ?Hc, ?Hs; auto.
        + intros i z. rewrite Hp. apply IG.
        + destruct Hsq as [->|[b [_ ->]]]; [exact Isq | now apply bg_step_ok].
        + intros i id Hi. rewrite Hp. now apply Inok.
        + intros i sub Hi. rewrite Hp. now apply Incnt.
        + intros i z Hi. rewrite Hp. now apply Ishape.
        + destruct Ics as [R0 [C1 C2]]. exists R0. split; [exact C1|]. unfold P in C2. now rewrite Hp.
      - (* a client message was read *)
        subst t1 o1.
        assert (Hmsg : In m msgs) by (rewrite <- Iio, Hin; apply in_or_app; right; now left).
        assert (Gm : cmsg_gate m) by (unfold gated in Hgate; rewrite Forall_forall in Hgate; now apply Hgate).
        assert (Hp : forall i, pend s' i = pend s i ++ new_of s ord m ch0 ch2 i).
        { intros [|[|[|i]]]; cbn [pend new_of]; rewrite ?app_nil_r; auto. }
        rewrite Hin in ICG. cbn [cache_gated_from] in ICG. rewrite Hcb in ICG. destruct ICG as [ICG0 ICG'].
        destruct (cache_reply_shape _ _ _ _ Hcb) as [Sc1 [Sc2 Sc3]].
        destruct (sqlite_reply_shape _ _ _ _ Hsr) as [Ss1 [Ss2 Ss3]].
        destruct (router_reply_shape ord (y_subs s) (queued s) m) as [Sr1 [Sr2 Sr3]].
        assert (Nok : forall i id, (i < 3)%nat -> length (ok_of id (new_of s ord m ch0 ch2 i)) = one_if (is_event_id id m)).
        { intros [|[|[|i]]] id Hi; cbn [new_of]; auto; lia. }
        assert (Ncnt : forall i sub, (i < 3)%nat -> length (cnt_of sub (new_of s ord m ch0 ch2 i)) = one_if (is_count_sub sub m)).
        { intros [|[|[|i]]] sub Hi; cbn [new_of]; auto; lia. }
        constructor; unfold a_sys, a_trace; cbn [fst snd].
        + rewrite Hdone, Hin', <- app_assoc. cbn. now rewrite <- Hin.
        + intros i z. rewrite Hp. intro Hz. apply in_app_or in Hz as [Hz|Hz]; [now apply (IG i)|].
          destruct i as [|[|[|i]]]; cbn [new_of] in Hz; [| | |contradiction].
          * rewrite Forall_forall in ICG0. now apply ICG0.
          * specialize (Sr3 z Hz). destruct z; cbn; auto. destruct Sr3 as [-> _]. exact Gm.
          * pose proof (sqlite_reply_gated _ _ _ _ Hq Isq Hsr) as F. rewrite Forall_forall in F. now apply F.
        + rewrite Hc, Hin'. exact ICG'.
        + rewrite Hsq. now apply (sqlite_reply_ok _ _ _ _ Isq Gm Hsr).
        + unfold Merge.trace_ok. apply Forall_app. split; [exact Itok|].
          destruct m; cbn [client_input opt_list]; repeat constructor. exact Gm.
        + intros i id Hi. rewrite del_app, del_client, app_nil_r, Hp, ok_of_app, app_length, (Nok i id Hi),
            count_occ_b_app, count_client_ev, Nat.add_assoc, (Inok i id Hi). reflexivity.
        + intros i sub Hi. rewrite del_app, del_client, app_nil_r, Hp, cnt_of_app, app_length, (Ncnt i sub Hi),
            count_occ_b_app, count_client_cnt, Nat.add_assoc, (Incnt i sub Hi). reflexivity.
        + now apply aio_client.
        + intros i z Hi. rewrite del_app, del_client, app_nil_r. unfold P. rewrite Hp, map_app, app_assoc.
          intro Hz. apply in_app_or in Hz as [Hz|Hz]; [now apply (Ishape i z Hi)|].
          apply in_map_iff in Hz as [z0 [<- Hz0]].
          destruct i as [|[|[|i]]]; cbn [new_of shape_of] in *; [| | |lia].
          * apply shape_to_m_cache. specialize (Sc3 z0 Hz0). destruct z0; auto.
          * apply shape_to_m_plain. specialize (Sr3 z0 Hz0). destruct z0; auto.
          * apply shape_to_m_plain. specialize (Ss3 z0 Hz0). destruct z0; auto.
        + now rewrite Hs, Hdone, router_subs_snoc, Isubs.
        + now rewrite client_part_app, client_part_client, Hdone, clients_of_snoc, Icl.
        + destruct Ics as [R0 [C1 C2]]. exists (R0 ++ chan_items ch0). split.
          * rewrite Hdone. unfold cache_session in *. rewrite simple_session_app, C1. cbn [simple_session].
            rewrite Hcb, Hc, app_nil_r. reflexivity.
          * rewrite map_app, C2, del_app, del_client, app_nil_r. unfold P. rewrite (Hp 0%nat), map_app. cbn [new_of].
            now rewrite app_assoc.
      - (* a reply of one child was delivered *)
        subst t1 o1.
        assert (Hsub : forall i z, In z (pend s' i) -> In z (pend s i)).
        { intros i z. rewrite Hpe. destruct (Nat.eqb i (child_of src)) eqn:Ei; [|auto].
          apply Nat.eqb_eq in Ei. subst i. now apply (pop_sub s src m r). }
        assert (Hmem : In m (pend s (child_of src))) by (now apply (pop_In s src m r)).
        assert (Hi0 : (child_of src < 3)%nat) by (destruct src; cbn; lia).
        pose proof (SK_del s x s' _ _ src m r Ex Hal Hpop eq_refl eq_refl Hm Hc Hs Hsq Hpe Hin Hdone Hdd) as K.
        constructor; unfold a_sys, a_trace; cbn [fst snd].
        + now rewrite Hdone, Hin.
        + intros i z Hz. apply (IG i). now apply Hsub.
        + now rewrite Hc, Hin.
        + now rewrite Hsq.
        + unfold Merge.trace_ok. apply Forall_app. split; [exact Itok|]. constructor; [|constructor].
          specialize (IG _ _ Hmem). destruct m; cbn [to_m Merge.input_ok reply_gated] in *; auto.
        + intros i id Hi. rewrite del_app, filter_app, app_length, count_occ_b_app. cbn [count_occ_b Merge.is_cevent_of].
          rewrite Nat.add_0_r, <- (Inok i id Hi), <- !filter_sel_okid.
          pose proof (del_conserve _ _ _ _ _ src m r K Ex Hpop Hdd i (sel_okid id) (sel_okid_ok id)) as C.
          unfold P in C. rewrite <- C, app_length. lia.
        + intros i sub Hi. rewrite del_app, filter_app, app_length, count_occ_b_app. cbn [count_occ_b Merge.is_ccount_of].
          rewrite Nat.add_0_r, <- (Incnt i sub Hi), <- !filter_sel_cnt.
          pose proof (del_conserve _ _ _ _ _ src m r K Ex Hpop Hdd i (sel_cnt sub) (sel_cnt_ok sub)) as C.
          unfold P in C. rewrite <- C, app_length. lia.
        + destruct Iaio as [A1 A2]. split.
          * apply aio_ev_snoc; [exact A1|]. intros i oo Eoo. inversion Eoo as [[Ei Em]]. subst i.
            assert (Hlen : length (Merge.ok_replies_of (Merge.ok_id oo) (child_of src) t) =
                           length (filter (sel_okid (Merge.ok_id oo)) (del (child_of src) t))).
            { rewrite <- ok_replies_del. now rewrite map_length. }
            rewrite Hlen, <- (Inok _ (Merge.ok_id oo) Hi0).
            assert (Hpos : (1 <= length (ok_of (Merge.ok_id oo) (pend s (child_of src))))%nat).
            { unfold ok_of. assert (Hin1 : In m (filter (is_ok_id (Merge.ok_id oo)) (pend s (child_of src)))).
              { apply filter_In. split; [exact Hmem|]. destruct m; try discriminate. cbn in Em. inversion Em; subst. cbn. apply str_eqb_refl. }
              revert Hin1. generalize (filter (is_ok_id (Merge.ok_id oo)) (pend s (child_of src))). intros [|? ?] Hin1; [contradiction | cbn; lia]. }
            lia.
          * apply aio_cnt_snoc; [exact A2|]. intros i c Ec. inversion Ec as [[Ei Em]]. subst i.
            assert (Hlen : length (Merge.cnt_replies_of (Merge.c_sub c) (child_of src) t) =
                           length (filter (sel_cnt (Merge.c_sub c)) (del (child_of src) t))).
            { rewrite <- cnt_replies_del. now rewrite map_length. }
            rewrite Hlen, <- (Incnt _ (Merge.c_sub c) Hi0).
            assert (Hpos : (1 <= length (cnt_of (Merge.c_sub c) (pend s (child_of src))))%nat).
            { unfold cnt_of. assert (Hin1 : In m (filter (is_cnt_sub (Merge.c_sub c)) (pend s (child_of src)))).
              { apply filter_In. split; [exact Hmem|]. destruct m; try discriminate. cbn in Em. inversion Em; subst. cbn. apply str_eqb_refl. }
              revert Hin1. generalize (filter (is_cnt_sub (Merge.c_sub c)) (pend s (child_of src))). intros [|? ?] Hin1; [contradiction | cbn; lia]. }
            lia.
        + intros i z Hi Hz. rewrite del_app, <- app_assoc in Hz. apply in_app_or in Hz as [Hz|Hz].
          * apply (Ishape i z Hi). apply in_or_app. now left.
          * apply (del_members _ _ _ _ _ src m r K Ex Hpop Hdd i z) in Hz. apply (Ishape i z Hi). apply in_or_app. now right.
        + now rewrite Hs, Hdone.
        + rewrite client_part_app, Hdone, <- Icl. cbn. now rewrite app_nil_r.
        + destruct Ics as [R0 [C1 C2]]. exists R0. split; [now rewrite Hdone, Hc|].
          rewrite C2, del_app, <- app_assoc. f_equal. unfold P. rewrite Hpe. cbn [del].
          destruct src; cbn [child_of Nat.eqb pend pop] in *; try reflexivity.
          destruct (y_p0 s) as [|z0 q]; [discriminate|]. inversion Hpop; subst. reflexivity.
      - congruence.
    Qed.

    Hypothesis Hcache : cache_gated_from (c_empty cap) msgs.

    Notation run l := (exec_from (sys_init db cap d0 msgs) l).

    (** the invariant holds along every schedule that does not kill the process *)
    Lemma inv_run l : y_dead (a_sys (run l)) = false -> Inv (run l).
    Proof.
      induction l as [|x l IH] using rev_ind; intro Hd.
      - apply inv_init. exact Hcache.
      - rewrite exec_snoc in *. apply inv_step; [|exact Hd].
        apply IH. apply (alive_prefix _ l [x]). now rewrite exec_snoc.
    Qed.

    Lemma run_outs l :
      y_dead (a_sys (run l)) = false ->
      a_outs (run l) = vis (Merge.outs (Merge.init 3) (a_trace (run l))).
    Proof. intro Hd. now destruct (exec_merge l _ Hd) as [_ H]. Qed.

    Lemma run_merge l :
      y_dead (a_sys (run l)) = false ->
      y_merge (a_sys (run l)) = Merge.final (Merge.init 3) (a_trace (run l)).
    Proof. intro Hd. now destruct (exec_merge l _ Hd) as [H _]. Qed.

    (* -------------------------------------------------------------- *)
    (** * 6. Counting requests in the history *)

    Lemma count_client_part (p : Merge.input -> bool) t :
      (forall i m, p (Merge.Child i m) = false) -> count_occ_b p t = count_occ_b p (client_part t).
    Proof.
      intro H. induction t as [|x t IH]; [reflexivity|]. destruct x; cbn [client_part filter count_occ_b]; try (now rewrite IH).
      rewrite H. exact IH.
    Qed.

    Lemma count_clients_ev id done :
      count_occ_b (Merge.is_cevent_of id) (clients_of done) = count_occ_b (is_event_id id) done.
    Proof.
      induction done as [|m done IH]; [reflexivity|]. unfold clients_of in *. cbn [flat_map].
      rewrite count_occ_b_app, IH, count_client_ev. cbn [count_occ_b]. destruct (is_event_id id m); reflexivity.
    Qed.

    Lemma count_clients_cnt sub done :
      count_occ_b (Merge.is_ccount_of sub) (clients_of done) = count_occ_b (is_count_sub sub) done.
    Proof.
      induction done as [|m done IH]; [reflexivity|]. unfold clients_of in *. cbn [flat_map].
      rewrite count_occ_b_app, IH, count_client_cnt. cbn [count_occ_b]. destruct (is_count_sub sub m); reflexivity.
    Qed.

    Lemma trace_events a id : Inv a ->
      count_occ_b (Merge.is_cevent_of id) (a_trace a) = count_occ_b (is_event_id id) (y_done (a_sys a)).
    Proof. intro I. rewrite count_client_part by reflexivity. now rewrite (i_clients _ I), count_clients_ev. Qed.

    Lemma trace_counts a sub : Inv a ->
      count_occ_b (Merge.is_ccount_of sub) (a_trace a) = count_occ_b (is_count_sub sub) (y_done (a_sys a)).
    Proof. intro I. rewrite count_client_part by reflexivity. now rewrite (i_clients _ I), count_clients_cnt. Qed.

    Lemma quiet_done a : Inv a -> quiet (a_sys a) -> y_done (a_sys a) = msgs.
    Proof. intros I [Q _]. rewrite <- (i_io _ I), Q. symmetry. apply app_nil_r. Qed.

    Lemma quiet_pend a i : quiet (a_sys a) -> pend (a_sys a) i = [].
    Proof. intros [_ [Q0 [Q1 Q2]]]. destruct i as [|[|[|i]]]; auto. Qed.

    (** an output of the merge session sits at a step of the history *)
    Lemma In_outs_split s0 t o :
      In (Some o) (Merge.outs s0 t) ->
      exists w1 y w2, t = w1 ++ y :: w2 /\ nth_error (Merge.outs s0 (w1 ++ y :: w2)) (length w1) = Some (Some o).
    Proof.
      intro H. apply In_nth_error in H as [n Hn].
      assert (Hl : (n < length t)%nat).
      { rewrite <- (MergeProofs.outs_length s0 t). apply nth_error_Some. congruence. }
      destruct (nth_error t n) as [y|] eqn:Ey; [|apply nth_error_None in Ey; lia].
      apply nth_error_split in Ey as [w1 [w2 [Et El]]]. exists w1, y, w2. subst t n. split; [reflexivity | exact Hn].
    Qed.

    Lemma column_member {A} (key : A -> str) reply_of n k j t a :
      In (Some a) (Merge.column key reply_of n k j t) ->
      exists i, (i < n)%nat /\ In a (Merge.replies_of key reply_of k i t).
    Proof.
      unfold Merge.column. intro H. apply in_map_iff in H as [i [E Hi]]. apply in_seq in Hi.
      exists i. split; [lia|]. now apply nth_error_In in E.
    Qed.

    Lemma del_prefix_In i w1 w2 z : In z (del i w1) -> In z (del i (w1 ++ w2)).
    Proof. intro H. rewrite del_app. apply in_or_app. now left. Qed.

    (* -------------------------------------------------------------- *)
    (** * 7. SYS_count_zero *)

    Theorem count_zero l sub :
      y_dead (a_sys (run l)) = false ->
      (count_occ_b (is_cnt_sub sub) (a_outs (run l)) <= count_occ_b (is_count_sub sub) (y_done (a_sys (run l))))%nat /\
      (quiet (a_sys (run l)) ->
         count_occ_b (is_cnt_sub sub) (a_outs (run l)) = count_occ_b (is_count_sub sub) msgs) /\
      (forall m, In m (a_outs (run l)) -> is_cnt_sub sub m = true -> m = SCount sub 0 None).
    Proof.
      intro Hd. pose proof (inv_run l Hd) as I. pose proof (run_outs l Hd) as Eo.
      set (a := run l) in *. set (t := a_trace a) in *.
      assert (Ht : Merge.trace_ok 3 t) by exact (i_tok _ I).
      assert (Ha : Merge.answers_in_order t) by exact (i_aio _ I).
      assert (Ec : count_occ_b (is_cnt_sub sub) (a_outs a) = count_occ_b (Merge.is_count_out sub) (Merge.outs (Merge.init 3) t)).
      { rewrite Eo. apply count_occ_b_vis; [apply is_cnt_sub_from | reflexivity]. }
      split; [|split].
      - rewrite Ec, <- (trace_counts a sub I). destruct Ha as [_ Ha].
        apply MergeAggProofs.cnt_le_requests; auto.
      - intro Q. rewrite Ec, <- (quiet_done a I Q), <- (trace_counts a sub I). destruct Ha as [_ Ha].
        apply MergeAggProofs.count_exactly_one; auto.
        intros i Hi. pose proof (i_ncnt _ I i sub Hi) as N. rewrite (quiet_pend a i Q) in N. cbn in N.
        rewrite Nat.add_0_r in N. rewrite <- N, <- cnt_replies_del. now rewrite map_length.
      - intros m Hm Hs. rewrite Eo in Hm. apply In_vis in Hm as [z [Hz <-]].
        destruct z as [| | |r| |]; try discriminate. cbn in Hs. apply str_eqb_eq in Hs.
        destruct (In_outs_split _ _ _ Hz) as [w1 [y [w2 [Et Hn]]]].
        assert (Ht' : Merge.trace_ok 3 (w1 ++ y :: w2)) by (rewrite <- Et; exact Ht).
        assert (Ha' : Merge.answers_in_order_cnt (w1 ++ y :: w2)) by (rewrite <- Et; apply Ha).
        destruct (MergeAggProofs.count_at 3 w1 y w2 r ltac:(lia) Ht' Ha' Hn) as [_ [xs [Hcol [_ [Hmerge Hnz]]]]].
        destruct (MergeAggProofs.cnt_merge_max _ xs r Hmerge Hnz) as [_ [Hin _]].
        assert (Hcm : In (Some r) (Merge.cnt_column 3 (Merge.c_sub r) (count_occ_b (Merge.is_count_out (Merge.c_sub r)) (Merge.outs (Merge.init 3) w1)) (w1 ++ [y]))).
        { rewrite Hcol. now apply in_map. }
        destruct (column_member _ _ _ _ _ _ _ Hcm) as [i [Hi Hr]].
        assert (Hd1 : In (Merge.SCount r) (del i t)).
        { rewrite Et. change (w1 ++ y :: w2) with (w1 ++ [y] ++ w2). rewrite app_assoc. apply del_prefix_In.
          assert (H1 : In (Merge.SCount r) (List.map Merge.SCount (Merge.cnt_replies_of (Merge.c_sub r) i (w1 ++ [y])))) by now apply in_map.
          rewrite cnt_replies_del in H1. now apply filter_In in H1. }
        assert (Hsh : shape_of i (Merge.SCount r)).
        { apply (i_shape _ I i _ Hi). apply in_or_app. now left. }
        destruct r as [rs rc ra]. cbn in Hs. subst rs.
        destruct i as [|i]; cbn in Hsh; destruct Hsh as [-> ->]; reflexivity.
    Qed.

    (* -------------------------------------------------------------- *)
    (** * 8. SYS_event_one_ok *)

    Lemma nth_filter_split {A} (p : A -> bool) : forall l j r,
      nth_error (filter p l) j = Some r ->
      exists l1 l2, l = l1 ++ r :: l2 /\ p r = true /\ length (filter p l1) = j.
    Proof.
      induction l as [|x l IH]; intros j r H; [destruct j; discriminate|]. cbn [filter] in H.
      destruct (p x) eqn:Ex.
      - destruct j as [|j]; cbn in H.
        + inversion H; subst. exists [], l. auto.
        + destruct (IH j r H) as [l1 [l2 [E [Hp Hl]]]]. exists (x :: l1), l2. subst l. cbn. rewrite Ex. cbn. auto.
      - destruct (IH j r H) as [l1 [l2 [E [Hp Hl]]]]. exists (x :: l1), l2. subst l. cbn. rewrite Ex. auto.
    Qed.

    Lemma vis_split : forall os a m b,
      vis os = a ++ m :: b -> exists w1 o w2, os = w1 ++ Some o :: w2 /\ vis w1 = a /\ from_m o = m /\ vis w2 = b.
    Proof.
      induction os as [|x os IH]; intros a m b H; [destruct a; discriminate|].
      rewrite vis_cons in H. destruct x as [o|]; cbn [out_list app] in H.
      - destruct a as [|a0 a]; cbn in H; inversion H; subst.
        + exists [], o, os. auto.
        + destruct (IH a m b H2) as [w1 [o' [w2 [E [E1 [E2 E3]]]]]]. exists (Some o :: w1), o', w2.
          subst os. rewrite vis_cons. cbn. rewrite E1. auto.
      - destruct (IH a m b H) as [w1 [o' [w2 [E [E1 [E2 E3]]]]]]. exists (None :: w1), o', w2.
        subst os. rewrite vis_cons. cbn. auto.
    Qed.

    Lemma outs_split s0 t u o v :
      Merge.outs s0 t = u ++ Some o :: v ->
      exists w1 y w2, t = w1 ++ y :: w2 /\ Merge.outs s0 w1 = u /\
                      nth_error (Merge.outs s0 (w1 ++ y :: w2)) (length w1) = Some (Some o).
    Proof.
      intro H.
      assert (Hl : (length u < length t)%nat).
      { rewrite <- (MergeProofs.outs_length s0 t), H, app_length. cbn. lia. }
      destruct (nth_error t (length u)) as [y|] eqn:Ey; [|apply nth_error_None in Ey; lia].
      apply nth_error_split in Ey as [w1 [w2 [Et El]]]. exists w1, y, w2. split; [exact Et|].
      subst t. rewrite MergeProofs.outs_app in H.
      assert (Eu : Merge.outs s0 w1 = u).
      { apply (f_equal (firstn (length u))) in H. rewrite firstn_app in H.
        rewrite (MergeProofs.outs_length s0 w1), El, Nat.sub_diag in H. cbn [firstn] in H.
        rewrite app_nil_r, firstn_all2 in H by (rewrite MergeProofs.outs_length; lia).
        rewrite firstn_app, Nat.sub_diag, firstn_all in H. cbn [firstn] in H. now rewrite app_nil_r in H. }
      split; [exact Eu|]. rewrite MergeProofs.outs_app, H, El. apply MergeProofs.nth_error_mid.
    Qed.

    Lemma filter_sel_okid_map id l : filter (sel_okid id) (List.map to_m l) = List.map to_m (ok_of id l).
    Proof.
      unfold ok_of. induction l as [|m l IH]; [reflexivity|]. cbn [List.map filter].
      assert (E : sel_okid id (to_m m) = is_ok_id id m) by (destruct m; reflexivity).
      rewrite E. destruct (is_ok_id id m); cbn; now rewrite IH.
    Qed.

    Theorem event_one_ok l id :
      y_dead (a_sys (run l)) = false ->
      (count_occ_b (is_ok_id id) (a_outs (run l)) <= count_occ_b (is_event_id id) (y_done (a_sys (run l))))%nat /\
      (quiet (a_sys (run l)) ->
         count_occ_b (is_ok_id id) (a_outs (run l)) = count_occ_b (is_event_id id) msgs) /\
      (forall sc R0, cache_session (c_empty cap) (y_done (a_sys (run l))) = Ok (sc, R0) ->
         forall j r, nth_error (ok_of id (a_outs (run l))) j = Some r ->
           exists c, nth_error (ok_of id R0) j = Some c /\
                     ok_acc_of r = ok_acc_of c /\
                     (ok_acc_of r = false -> exists tail, ok_text_of r = dup_prefix ++ already_have ++ tail)).
    Proof.
      intro Hd. pose proof (inv_run l Hd) as I. pose proof (run_outs l Hd) as Eo.
      set (a := run l) in *. set (t := a_trace a) in *.
      assert (Ht : Merge.trace_ok 3 t) by exact (i_tok _ I).
      assert (Ha : Merge.answers_in_order t) by exact (i_aio _ I).
      assert (Ec : count_occ_b (is_ok_id id) (a_outs a) = count_occ_b (Merge.is_ok_out id) (Merge.outs (Merge.init 3) t)).
      { rewrite Eo. apply count_occ_b_vis; [apply is_ok_id_from | reflexivity]. }
      split; [|split].
      - rewrite Ec, <- (trace_events a id I). destruct Ha as [Ha _]. apply MergeAggProofs.ok_le_events; auto.
      - intro Q. rewrite Ec, <- (quiet_done a I Q), <- (trace_events a id I). destruct Ha as [Ha _].
        apply MergeAggProofs.ok_exactly_one; auto.
        intros i Hi. pose proof (i_nok _ I i id Hi) as N. rewrite (quiet_pend a i Q) in N. cbn in N.
        rewrite Nat.add_0_r in N. rewrite <- N, <- ok_replies_del. now rewrite map_length.
      - intros sc R0 Hcs j r Hj.
        destruct (i_cs _ I) as [R0' [C1 C2]]. rewrite Hcs in C1. inversion C1; subst R0' sc. clear C1.
        unfold ok_of in Hj. destruct (nth_filter_split _ _ _ _ Hj) as [a1 [a2 [Ea [Hr Hlen]]]].
        rewrite Eo in Ea. destruct (vis_split _ _ _ _ Ea) as [u [o [v [Eu [Ea1 [Eor _]]]]]].
        destruct (outs_split _ _ _ _ _ Eu) as [w1 [y [w2 [Et [Ew1 Hn]]]]].
        destruct o as [| |ro| | |]; subst r; try discriminate. cbn in Hr. apply str_eqb_eq in Hr.
        assert (Ht' : Merge.trace_ok 3 (w1 ++ y :: w2)) by (rewrite <- Et; exact Ht).
        assert (Ha' : Merge.answers_in_order_ev (w1 ++ y :: w2)) by (rewrite <- Et; apply Ha).
        destruct (MergeAggProofs.ok_at 3 w1 y w2 ro ltac:(lia) Ht' Ha' Hn) as [_ [xs [Hcol [Hlen3 [Hmerge Hids]]]]].
        rewrite Hr in Hcol, Hids.
        assert (Ej : count_occ_b (Merge.is_ok_out id) (Merge.outs (Merge.init 3) w1) = j).
        { rewrite Ew1, <- Hlen, <- Ea1, <- count_occ_b_filter. symmetry.
          apply count_occ_b_vis; [apply is_ok_id_from | reflexivity]. }
        rewrite Ej in Hcol.
        destruct xs as [|c0 [|c1 [|c2 [|c3 xs]]]]; try discriminate. clear Hlen3.
        unfold Merge.ok_column, Merge.column in Hcol. cbn [seq List.map] in Hcol.
        inversion Hcol as [[H0 H1 H2]]. clear Hcol.
        assert (Hplain : forall i c, (i = 1 \/ i = 2)%nat ->
                  nth_error (Merge.replies_of Merge.ok_id Merge.ok_reply id i (w1 ++ [y])) j = Some c -> Merge.ok_acc c = true).
        { intros i c Hi Hc. apply nth_error_In in Hc.
          assert (H3 : In (Merge.SOk c) (del i t)).
          { rewrite Et. change (w1 ++ y :: w2) with (w1 ++ [y] ++ w2). rewrite app_assoc. apply del_prefix_In.
            assert (H4 : In (Merge.SOk c) (List.map Merge.SOk (Merge.ok_replies_of id i (w1 ++ [y])))) by now apply in_map.
            rewrite ok_replies_del in H4. now apply filter_In in H4. }
          assert (Hsh : shape_of i (Merge.SOk c)).
          { apply (i_shape _ I i); [lia|]. apply in_or_app. now left. }
          destruct Hi as [-> | ->]; cbn in Hsh; tauto. }
        pose proof (Hplain 1%nat c1 (or_introl eq_refl) H1) as A1.
        pose proof (Hplain 2%nat c2 (or_intror eq_refl) H2) as A2.
        destruct (MergeAggProofs.ok_merge_verdict id [c0; c1; c2] ro Hmerge Hids) as [_ [Hiff Hrej]].
        (* the cache's own j-th OK for this id *)
        assert (Hc0 : nth_error (filter (sel_okid id) (List.map to_m R0)) j = Some (Merge.SOk c0)).
        { rewrite C2, filter_app. fold t. rewrite Et. change (w1 ++ y :: w2) with (w1 ++ [y] ++ w2).
          rewrite app_assoc, del_app, filter_app, <- app_assoc.
          assert (H5 : nth_error (List.map Merge.SOk (Merge.ok_replies_of id 0 (w1 ++ [y]))) j = Some (Merge.SOk c0)).
          { rewrite nth_error_map. unfold Merge.ok_replies_of. now rewrite H0. }
          rewrite ok_replies_del in H5. rewrite nth_error_app1; [exact H5|].
          apply nth_error_Some. congruence. }
        rewrite filter_sel_okid_map, nth_error_map in Hc0.
        destruct (nth_error (ok_of id R0) j) as [c|] eqn:Ecj; [|discriminate]. cbn in Hc0. inversion Hc0 as [Hc0'].
        exists c. split; [reflexivity|].
        assert (Eacc : ok_acc_of c = Merge.ok_acc c0) by (destruct c; cbn in Hc0'; inversion Hc0'; reflexivity).
        cbn [from_m ok_acc_of ok_text_of]. split.
        + rewrite Eacc. destruct (Merge.ok_acc ro) eqn:Er, (Merge.ok_acc c0) eqn:E0; try reflexivity.
          * destruct Hiff as [Hiff _]. specialize (Hiff eq_refl c0 (or_introl eq_refl)). congruence.
          * destruct Hiff as [_ Hiff]. enough (false = true) by discriminate. apply Hiff.
            intros x [<-|[<-|[<-|[]]]]; auto.
        + intro Er. destruct (Hrej Er) as [before [c' [after [tail [Exs [Hb [Hc' Hmsg]]]]]]].
          assert (Ec' : c' = c0).
          { destruct before as [|b0 [|b1 [|b2 before]]]; cbn in Exs; inversion Exs; subst; auto; try congruence.
            destruct before; discriminate. }
          subst c'.
          assert (Hsh : shape_of 0 (Merge.SOk c0)).
          { apply (i_shape _ I 0%nat); [lia|]. rewrite <- C2. apply in_map_iff.
            exists c. split; [exact Hc0'|]. apply nth_error_In in Ecj. unfold ok_of in Ecj. now apply filter_In in Ecj. }
          cbn in Hsh. destruct Hsh as [[Hs _]|[_ [Hs1 Hs2]]]; [congruence|].
          exists tail. change (Merge.ok_prefix ro ++ Merge.ok_text ro) with (Merge.ok_message ro).
          rewrite Hmsg. unfold Merge.ok_message. rewrite Hs1, Hs2. now rewrite app_assoc.
    Qed.

    (* -------------------------------------------------------------- *)
    (** * 9. Segments of a run; what is labelled with a subscription id *)

    Lemma seg_ind (Phi : sysT -> list Merge.input -> Prop) s0 :
      Phi s0 [] ->
      (forall s w x s' t1 o1, Phi s w -> step s x = (s', t1, o1) -> y_dead s' = false -> Phi s' (w ++ t1)) ->
      forall l, y_dead (a_sys (exec_from s0 l)) = false ->
                Phi (a_sys (exec_from s0 l)) (a_trace (exec_from s0 l)).
    Proof.
      intros H0 Hs l. induction l as [|x l IH] using rev_ind; intro Hd; [exact H0|].
      pose proof (alive_prefix s0 l [x] Hd) as Hd1. specialize (IH Hd1).
      rewrite exec_snoc in *. destruct (exec_from s0 l) as [[s t] o]. unfold sys_step_acc in *.
      destruct (step s x) as [[s' t1] o1] eqn:E. unfold a_sys, a_trace in *. cbn [fst snd] in *.
      eapply Hs; eauto.
    Qed.

    (** the input queue only shrinks, from the front; what was read only grows *)
    Lemma step_in s x s' t1 o1 : step s x = (s', t1, o1) -> forall m, In m (y_in s') -> In m (y_in s).
    Proof.
      intro E. destruct (step_cases _ _ _ _ _ E) as [_ _ _ _ _ _ _ _ Hin _ _ _
                                                   |ord m0 rest c' ch0 sq' ch2 _ _ Hin _ _ _ _ _ _ _ _ _ _ _ Hin' _ _
                                                   |src m0 r _ _ _ _ _ _ _ _ _ _ Hin _ _
                                                   |ord m0 rest _ _ Hin _ Hin' _ _]; intros m Hm.
      - now rewrite <- Hin.
      - rewrite Hin. right. now rewrite <- Hin'.
      - now rewrite <- Hin.
      - rewrite Hin. right. now rewrite <- Hin'.
    Qed.

    Lemma step_done s x s' t1 o1 : step s x = (s', t1, o1) -> forall m, In m (y_done s) -> In m (y_done s').
    Proof.
      intro E. destruct (step_cases _ _ _ _ _ E) as [_ _ _ _ _ _ _ _ _ Hd _ _
                                                   |ord m0 rest c' ch0 sq' ch2 _ _ _ _ _ _ _ _ _ _ _ _ _ _ _ Hd _
                                                   |src m0 r _ _ _ _ _ _ _ _ _ _ _ Hd _
                                                   |ord m0 rest _ _ _ _ _ Hd _]; intros m Hm; rewrite Hd; auto;
        apply in_or_app; now left.
    Qed.

    Definition labelled (sub : str) (z : smsg) : bool :=
      match z with SEvent s _ | SEose s => str_eqb s sub | _ => false end.
    Definition m_labelled (sub : str) (z : Merge.smsg) : bool :=
      match z with Merge.SEvent s _ | Merge.SEose s => str_eqb s sub | _ => false end.

    Lemma m_labelled_to_m sub z : m_labelled sub (to_m z) = labelled sub z.
    Proof. destruct z; reflexivity. Qed.

    (** nothing labelled [sub] is pending or was delivered in [w], and the
        router child has no subscription [sub] *)
    Definition clean (sub : str) (s : sysT) (w : list Merge.input) : Prop :=
      (forall i z, In z (pend s i) -> labelled sub z = false) /\
      (forall i z, In z (del i w) -> m_labelled sub z = false) /\
      ~ In sub (List.map fst (y_subs s)).

    (** if this step reads a message, it is not a REQ for [sub] *)
    Definition reads_no_req (sub : str) (s : sysT) (x : label) : Prop :=
      forall ord m rest, x = LNext ord -> y_dead s = false -> y_in s = m :: rest -> is_req_sub sub m = false.

    Lemma not_req_label sub sub' m : is_req_sub sub m = false -> is_req_sub sub' m = true -> str_eqb sub' sub = false.
    Proof.
      destruct m; cbn; try discriminate. intros H1 H2. apply str_eqb_eq in H2. subst sub'. exact H1.
    Qed.

    Lemma clean_step sub s w x s' t1 o1 :
      clean sub s w -> reads_no_req sub s x -> step s x = (s', t1, o1) -> y_dead s' = false -> clean sub s' (w ++ t1).
    Proof.
      intros [C1 [C2 C3]] Hn E Hd. pose proof (step_cases _ _ _ _ _ E) as K.
      destruct K as [Et Eo Hm Hc Hs H0 H1 H2 Hin Hdone Hdd Hsq
                    |ord m rest c' ch0 sq' ch2 Ex Hal Hin Hcb Hsr Et Eo Hm Hc Hs Hsq H0 H1 H2 Hin' Hdone Hdd
                    |src m r Ex Hal Hpop Et Eo Hm Hc Hs Hsq Hpe Hin Hdone Hdd
                    |ord m rest Ex Hal Hin Hcb Hin' Hdone Hdd]; [| | |congruence].
      - subst t1. rewrite app_nil_r. split; [|split]; [|exact C2|now rewrite Hs].
        intros [|[|[|i]]] z; cbn [pend]; rewrite ?H0, ?H1, ?H2; [apply (C1 0%nat)|apply (C1 1%nat)|apply (C1 2%nat)|intros []].
      - subst t1. specialize (Hn ord m rest Ex Hal Hin).
        destruct (cache_reply_shape _ _ _ _ Hcb) as [_ [_ Sc3]].
        destruct (sqlite_reply_shape _ _ _ _ Hsr) as [_ [_ Ss3]].
        destruct (router_reply_shape ord (y_subs s) (queued s) m) as [_ [_ Sr3]].
        split; [|split].
        + intros [|[|[|i]]] z; cbn [pend]; rewrite ?H0, ?H1, ?H2; try (intros []); intro Hz; apply in_app_or in Hz as [Hz|Hz].
          * now apply (C1 0%nat).
          * specialize (Sc3 z Hz). destruct z; try reflexivity; cbn; now apply (not_req_label sub _ m).
          * now apply (C1 1%nat).
          * specialize (Sr3 z Hz). destruct z; try reflexivity; cbn.
            -- now apply (not_req_label sub _ m).
            -- destruct Sr3 as [_ Hk]. apply str_eqb_neq. intro; subst. contradiction.
          * now apply (C1 2%nat).
          * specialize (Ss3 z Hz). destruct z; try reflexivity; cbn; now apply (not_req_label sub _ m).
        + intros i z. rewrite del_app, del_client, app_nil_r. apply C2.
        + rewrite Hs. destruct m as [e|s0 fs|s0|e|s0 fs]; cbn [router_subs_step]; auto.
          * cbn in Hn. rewrite RouterLemmas.sm_set_keys. destruct (assoc s0 (y_subs s)); [exact C3|].
            intro Hk. apply in_app_or in Hk as [Hk|[Hk|[]]]; [contradiction|]. subst s0. now rewrite str_eqb_refl in Hn.
          * intro Hk. apply RouterLemmas.sm_del_keys_In in Hk. tauto.
      - subst t1. split; [|split]; [| |now rewrite Hs].
        + intros i z Hz. rewrite Hpe in Hz. destruct (Nat.eqb i (child_of src)) eqn:Ei; [|now apply (C1 i)].
          apply Nat.eqb_eq in Ei. subst i. apply (C1 (child_of src)). now apply (pop_sub s src m r).
        + intros i z. rewrite del_app. intro Hz. apply in_app_or in Hz as [Hz|Hz]; [now apply (C2 i)|].
          cbn [del] in Hz. destruct (Nat.eqb (child_of src) i); [|contradiction]. destruct Hz as [<-|[]].
          rewrite m_labelled_to_m. apply (C1 (child_of src)). now apply (pop_In s src m r).
    Qed.

    (** reading a message records it *)
    Lemma read_recorded s ord s' t1 o1 m rest :
      step s (LNext ord) = (s', t1, o1) -> y_dead s = false -> y_in s = m :: rest -> In m (y_done s').
    Proof.
      intros E Hal Hin. unfold sys_step in E. rewrite Hal, Hin in E.
      destruct (cache_base (y_cache s) m) as [[? ?]|].
      - destruct (sqlite_reply db query (y_sq s) m). destruct (client_input m); inversion E; subst; cbn;
          apply in_or_app; right; now left.
      - destruct (client_input m); inversion E; subst; cbn; apply in_or_app; right; now left.
    Qed.

    (** a subscription id that no REQ has used yet is nowhere in the system *)
    Lemma fresh_run l sub :
      y_dead (a_sys (run l)) = false ->
      (forall m, In m (y_done (a_sys (run l))) -> is_req_sub sub m = false) ->
      clean sub (a_sys (run l)) (a_trace (run l)).
    Proof.
      intro Hd.
      apply (seg_ind (fun s w => (forall m, In m (y_done s) -> is_req_sub sub m = false) -> clean sub s w)
                     (sys_init db cap d0 msgs)); [| |exact Hd].
      - intros _. split; [|split].
        + intros [|[|[|i]]] z H; cbn in H; contradiction.
        + intros i z H. cbn in H. contradiction.
        + cbn. auto.
      - intros s w x s' t1 o1 IH E Hd' Hdone.
        apply (clean_step sub s w x s' t1 o1); auto.
        + apply IH. intros m Hm. apply Hdone. now apply (step_done _ _ _ _ _ E).
        + intros ord m rest Ex Hal Hin. subst x. apply Hdone. now apply (read_recorded s ord s' t1 o1 m rest).
    Qed.

    (** where the events labelled [sub] come from, once its only REQ has been
        read: the cache's answer [A0], the store's answer [A2]; and the router
        child's EOSE for [sub] is delivered before any of its live events *)
    Definition prov (sub : str) (A0 A2 : list event) (s : sysT) (w : list Merge.input) : Prop :=
      (forall e, In (SEvent sub e) (pend s 0) \/ In (Merge.SEvent sub e) (del 0 w) -> In e A0) /\
      (forall e, In (SEvent sub e) (pend s 2) \/ In (Merge.SEvent sub e) (del 2 w) -> In e A2) /\
      (forall wa e wb, w = wa ++ Merge.Child 1 (Merge.SEvent sub e) :: wb -> In (Merge.Child 1 (Merge.SEose sub)) wa) /\
      (In (Merge.SEose sub) (del 1 w) \/
       exists p q, y_p1 s = p ++ SEose sub :: q /\ forall e, ~ In (SEvent sub e) p).

    Lemma two_splits {A} (x m : A) : forall p q a b,
      p ++ x :: q = a ++ m :: b ->
      (p = a /\ x = m /\ q = b) \/ (exists c, p = a ++ m :: c /\ b = c ++ x :: q) \/
      (exists c, a = p ++ x :: c /\ q = c ++ m :: b).
    Proof.
      induction p as [|z p IH]; intros q a b H.
      - destruct a as [|a0 a]; cbn in H; inversion H; subst.
        + left. auto.
        + right. right. exists a. auto.
      - destruct a as [|a0 a]; cbn in H; inversion H; subst.
        + right. left. exists p. auto.
        + destruct (IH q a b H2) as [[-> [-> ->]]|[[c [-> ->]]|[c [-> ->]]]].
          * left. auto.
          * right. left. exists c. auto.
          * right. right. exists c. auto.
    Qed.

    Lemma to_m_event z sub e : to_m z = Merge.SEvent sub e -> z = SEvent sub e.
    Proof. destruct z; cbn; intro H; inversion H; reflexivity. Qed.
    Lemma to_m_eose z sub : to_m z = Merge.SEose sub -> z = SEose sub.
    Proof. destruct z; cbn; intro H; inversion H; reflexivity. Qed.

    Lemma prov_step sub A0 A2 s w x s' t1 o1 :
      prov sub A0 A2 s w -> reads_no_req sub s x -> step s x = (s', t1, o1) -> y_dead s' = false ->
      prov sub A0 A2 s' (w ++ t1).
    Proof.
      intros [P0 [P2 [P3 P4]]] Hn E Hd. pose proof (step_cases _ _ _ _ _ E) as K.
      destruct K as [Et Eo Hm Hc Hs H0 H1 H2 Hin Hdone Hdd Hsq
                    |ord m rest c' ch0 sq' ch2 Ex Hal Hin Hcb Hsr Et Eo Hm Hc Hs Hsq H0 H1 H2 Hin' Hdone Hdd
                    |src m r Ex Hal Hpop Et Eo Hm Hc Hs Hsq Hpe Hin Hdone Hdd
                    |ord m rest Ex Hal Hin Hcb Hin' Hdone Hdd]; [| | |congruence].
      - subst t1. rewrite app_nil_r. unfold prov. cbn [pend]. rewrite H0, H1, H2. auto.
      - subst t1. specialize (Hn ord m rest Ex Hal Hin).
        destruct (cache_reply_shape _ _ _ _ Hcb) as [_ [_ Sc3]].
        destruct (sqlite_reply_shape _ _ _ _ Hsr) as [_ [_ Ss3]].
        assert (Hnl : forall z sub', In z (opt_list (client_input m)) -> z <> Merge.Child 1 (Merge.SEvent sub' (mkEvent [] [] 0 0 [] [] [])) -> True) by auto.
        split; [|split; [|split]].
        + intros e [He|He].
          * cbn [pend] in He. rewrite H0 in He. apply in_app_or in He as [He|He]; [apply P0; now left|].
            specialize (Sc3 _ He). cbn in Sc3. rewrite Sc3 in Hn. discriminate.
          * rewrite del_app, del_client, app_nil_r in He. apply P0. now right.
        + intros e [He|He].
          * cbn [pend] in He. rewrite H2 in He. apply in_app_or in He as [He|He]; [apply P2; now left|].
            specialize (Ss3 _ He). cbn in Ss3. rewrite Ss3 in Hn. discriminate.
          * rewrite del_app, del_client, app_nil_r in He. apply P2. now right.
        + intros wa e wb Ew. destruct (client_input m) as [inp|] eqn:Ei; cbn [opt_list] in Ew.
          * destruct (snoc_split _ _ _ _ _ Ew) as [[_ [_ Ex1]]|[wb' [-> Ew']]].
            -- subst inp. destruct m; discriminate.
            -- now apply (P3 wa e wb').
          * rewrite app_nil_r in Ew. now apply (P3 wa e wb).
        + rewrite del_app, del_client, app_nil_r. destruct P4 as [P4|[p [q [Ep Hp]]]]; [now left|].
          right. exists p, (q ++ router_live buflen ord (y_subs s) (queued s) m ++ router_main m).
          split; [|exact Hp]. rewrite H1, Ep, <- app_assoc. reflexivity.
      - subst t1.
        assert (Hsub : forall i z, In z (pend s' i) -> In z (pend s i)).
        { intros i z. rewrite Hpe. destruct (Nat.eqb i (child_of src)) eqn:Ei; [|auto].
          apply Nat.eqb_eq in Ei. subst i. now apply (pop_sub s src m r). }
        assert (Hmem : In m (pend s (child_of src))) by (now apply (pop_In s src m r)).
        split; [|split; [|split]].
        + intros e [He|He]; [apply P0; left; now apply Hsub|].
          rewrite del_app in He. apply in_app_or in He as [He|He]; [apply P0; now right|].
          cbn [del] in He. destruct (Nat.eqb (child_of src) 0) eqn:Ei; [|contradiction]. destruct He as [He|[]].
          apply Nat.eqb_eq in Ei. rewrite Ei in Hmem. apply to_m_event in He. subst m. apply P0. now left.
        + intros e [He|He]; [apply P2; left; now apply Hsub|].
          rewrite del_app in He. apply in_app_or in He as [He|He]; [apply P2; now right|].
          cbn [del] in He. destruct (Nat.eqb (child_of src) 2) eqn:Ei; [|contradiction]. destruct He as [He|[]].
          apply Nat.eqb_eq in Ei. rewrite Ei in Hmem. apply to_m_event in He. subst m. apply P2. now left.
        + intros wa e wb Ew. destruct (snoc_split _ _ _ _ _ Ew) as [[_ [<- Ex1]]|[wb' [-> Ew']]]; [|now apply (P3 wa e wb')].
          injection Ex1 as Ec Em. apply to_m_event in Em. subst m.
          destruct P4 as [P4|[p [q [Ep Hp]]]]; [now apply In_del in P4|]. exfalso.
          destruct src; cbn [child_of] in Ec; try discriminate; cbn [pop] in Hpop.
          * rewrite Ep in Hpop. destruct p as [|z p]; cbn in Hpop; inversion Hpop; subst.
            apply (Hp e). now left.
          * destruct (pop_main_spec _ _ _ Hpop) as [_ [_ [_ [_ [_ N]]]]]. discriminate.
        + destruct (Nat.eqb (child_of src) 1) eqn:Ei.
          * destruct P4 as [P4|[p [q [Ep Hp]]]]; [left; rewrite del_app; apply in_or_app; now left|].
            destruct src; cbn [child_of] in Ei; try discriminate; cbn [pop] in Hpop.
            -- rewrite Ep in Hpop. destruct p as [|z p]; cbn in Hpop; inversion Hpop; subst.
               ++ left. rewrite del_app. apply in_or_app. right. cbn. now left.
               ++ right. exists p, q. split; [exact (Hpe 1%nat)|]. intros e He. apply (Hp e). now right.
            -- destruct (pop_main_spec _ _ _ Hpop) as [a [b [E1 [E2 [F N]]]]]. rewrite Ep in E1.
               destruct (two_splits _ _ _ _ _ _ E1) as [[-> [<- ->]]|[[c [-> ->]]|[c [-> ->]]]].
               ++ left. rewrite del_app. apply in_or_app. right. cbn. now left.
               ++ right. exists (a ++ c), q. split.
                  ** specialize (Hpe 1%nat). cbn in Hpe. rewrite Hpe, E2, <- app_assoc. reflexivity.
                  ** intros e He. apply (Hp e). apply in_app_or in He. apply in_or_app. destruct He; [now left | right; now right].
               ++ exfalso. rewrite Forall_forall in F. specialize (F (SEose sub)). cbn in F.
                  assert (false = true) by (apply F; apply in_or_app; right; now left). discriminate.
          * rewrite del_app. cbn [del]. rewrite Ei, app_nil_r.
            destruct P4 as [P4|[p [q [Ep Hp]]]]; [now left|]. right. exists p, q. split; [|exact Hp].
            specialize (Hpe 1%nat). cbn [pend] in Hpe. rewrite Hpe. rewrite Nat.eqb_sym, Ei. exact Ep.
    Qed.

    (* -------------------------------------------------------------- *)
    (** * 10. Facts about one REQ window of the merge session (from MergeProofs) *)

    Lemma eosed_In sub w i : Merge.eosed sub w i = true <-> In (Merge.Child i (Merge.SEose sub)) w.
    Proof.
      unfold Merge.eosed. rewrite existsb_exists. split.
      - intros [x [Hx Hp]]. destruct x as [| | | |j [s0| | | | |]]; try discriminate. cbn in Hp.
        apply andb_true_iff in Hp as [H1 H2]. apply Nat.eqb_eq in H1. apply str_eqb_eq in H2. now subst.
      - intro H. exists (Merge.Child i (Merge.SEose sub)). split; [exact H|]. cbn.
        now rewrite Nat.eqb_refl, str_eqb_refl.
    Qed.

    Lemma all_eosed_app_mono n sub w1 w2 :
      Merge.all_eosed n sub w1 = true -> Merge.all_eosed n sub (w1 ++ w2) = true.
    Proof.
      intro H. induction w2 as [|x w2 IH] using rev_ind; [now rewrite app_nil_r|].
      rewrite app_assoc. now apply MergeProofs.all_eosed_mono.
    Qed.

    Lemma all_eosed_In n sub w :
      Merge.all_eosed n sub w = true <-> forall i, (i < n)%nat -> In (Merge.Child i (Merge.SEose sub)) w.
    Proof.
      unfold Merge.all_eosed. rewrite forallb_forall. split.
      - intros H i Hi. apply eosed_In. apply H. apply in_seq. lia.
      - intros H i Hi. apply in_seq in Hi. apply eosed_In. apply H. lia.
    Qed.

    Lemma fwd_pos sub s0 e : forall w,
      In e (Merge.forwarded sub (Merge.outs s0 w)) ->
      exists wa x wb, w = wa ++ x :: wb /\ snd (Merge.merge_step (Merge.final s0 wa) x) = Some (Merge.SEvent sub e).
    Proof.
      induction w as [|x w IH] using rev_ind; intro H; [contradiction|].
      rewrite MergeProofs.outs_snoc, MergeProofs.forwarded_app in H. apply in_app_or in H as [H|H].
      - destruct (IH H) as [wa [y [wb [-> Hy]]]]. exists wa, y, (wb ++ [x]). split; [|exact Hy].
        now rewrite <- app_assoc.
      - exists w, x, []. split; [reflexivity|]. cbn [Merge.forwarded] in H.
        destruct (snd (Merge.merge_step (Merge.final s0 w) x)) as [[s1|s1 e1|m|c|t0|s1 p0 t0]|]; try contradiction.
        destruct (str_eqb s1 sub) eqn:Es; [|contradiction]. destruct H as [<-|[]]. apply str_eqb_eq in Es. now subst.
    Qed.

    (** before the merged EOSE, an event of child [i] is forwarded only if child
        [i] has not sent its own EOSE yet *)
    Lemma fwd_needs_open ms sub fs wa i e :
      MergeProofs.state_ok 3 ms -> Forall filter_wf fs ->
      Merge.trace_ok 3 (wa ++ [Merge.Child i (Merge.SEvent sub e)]) ->
      Merge.no_reset sub wa ->
      Merge.all_eosed 3 sub wa = false ->
      snd (Merge.merge_step (Merge.final (fst (Merge.merge_step ms (Merge.CReq sub fs))) wa)
                            (Merge.Child i (Merge.SEvent sub e))) = Some (Merge.SEvent sub e) ->
      Merge.eosed sub wa i = false.
    Proof.
      intros Hs Hfs Ht Hnr Ha Hout.
      set (s0 := fst (Merge.merge_step ms (Merge.CReq sub fs))) in *.
      assert (Hs0 : MergeProofs.state_ok 3 s0) by (apply MergeProofs.step_ok; assumption).
      destruct (MergeProofs.trace_ok_snoc _ _ _ Ht) as [Ht1 Hx].
      destruct (MergeProofs.run_sim 3 sub wa s0 Hs0 Ht1 Hnr) as [Hph _].
      unfold s0 in Hph at 2. rewrite (MergeProofs.phase_after_req 3 ms sub fs Hs) in Hph.
      pose proof (MergeProofs.window_inv 3 sub fs wa ltac:(lia) Ht1) as W. unfold MergeProofs.window_state in W.
      rewrite Ha in W. destruct W as [la [se [ms' [Ew _]]]]. rewrite Ew in Hph.
      assert (Hsf : MergeProofs.state_ok 3 (Merge.final s0 wa)) by (now apply MergeProofs.exec_ok).
      destruct (MergeProofs.step_sim 3 sub (Merge.final s0 wa) _ Hsf Hx eq_refl eq_refl) as [_ Hproj].
      rewrite Hout, Hph in Hproj. cbn [MergeProofs.proj_sub MergeProofs.wstep] in Hproj.
      rewrite str_eqb_refl in Hproj. cbn [MergeProofs.w_event] in Hproj.
      rewrite MergeProofs.all_true_eo_of, Ha in Hproj.
      destruct Hx as [Hi _]. unfold MergeProofs.eo_of in Hproj.
      rewrite (MergeAggProofs.nth_error_map_seq (Merge.eosed sub wa) 3 0 i Hi) in Hproj. cbn [plus] in Hproj.
      destruct (Merge.eosed sub wa i); [cbn in Hproj; discriminate | reflexivity].
    Qed.

    (* -------------------------------------------------------------- *)
    (** * 11. Segments: which client inputs occur, what gets delivered *)

    Lemma seg_clients s0 l :
      y_dead (a_sys (exec_from s0 l)) = false ->
      (forall m, In m (y_in (a_sys (exec_from s0 l))) -> In m (y_in s0)) /\
      forall x, In x (a_trace (exec_from s0 l)) ->
        (exists i z, x = Merge.Child i z) \/ exists m, In m (y_in s0) /\ client_input m = Some x.
    Proof.
      apply (seg_ind (fun s w => (forall m, In m (y_in s) -> In m (y_in s0)) /\
                                 forall x, In x w -> (exists i z, x = Merge.Child i z) \/
                                                     exists m, In m (y_in s0) /\ client_input m = Some x) s0).
      - split; [auto | intros x []].
      - intros s w x s' t1 o1 [H1 H2] E Hd. split.
        + intros m Hm. apply H1. now apply (step_in _ _ _ _ _ E).
        + intros z Hz. apply in_app_or in Hz as [Hz|Hz]; [now apply H2|].
          destruct (step_cases _ _ _ _ _ E) as [Et _ _ _ _ _ _ _ _ _ _ _
                                               |ord m rest c' ch0 sq' ch2 _ _ Hin _ _ Et _ _ _ _ _ _ _ _ _ _ _
                                               |src m r _ _ _ Et _ _ _ _ _ _ _ _ _
                                               |ord m rest _ _ _ _ _ _ Hdd]; [| | |congruence]; subst t1.
          * contradiction.
          * right. exists m. split; [apply H1; rewrite Hin; now left|].
            destruct (client_input m); cbn in Hz; [destruct Hz as [<-|[]]; reflexivity | contradiction].
          * left. destruct Hz as [<-|[]]. eauto.
    Qed.

    Lemma seg_prov sub A0 A2 s0 l :
      prov sub A0 A2 s0 [] -> (forall m, In m (y_in s0) -> is_req_sub sub m = false) ->
      y_dead (a_sys (exec_from s0 l)) = false ->
      prov sub A0 A2 (a_sys (exec_from s0 l)) (a_trace (exec_from s0 l)).
    Proof.
      intros Hp Hr Hd.
      apply (seg_ind (fun s w => (forall m, In m (y_in s) -> In m (y_in s0)) /\ prov sub A0 A2 s w) s0); [| |exact Hd].
      - split; auto.
      - intros s w x s' t1 o1 [H1 H2] E Hd'. split.
        + intros m Hm. apply H1. now apply (step_in _ _ _ _ _ E).
        + apply (prov_step sub A0 A2 s w x s' t1 o1); auto.
          intros ord m rest _ _ Hin. apply Hr, H1. rewrite Hin. now left.
    Qed.

    Lemma pop_cases (s : sysT) src m r z :
      pop s src = Some (m, r) -> In z (pend s (child_of src)) -> z = m \/ In z r.
    Proof.
      destruct src; cbn [pop child_of pend]; intros H Hz.
      - destruct (y_p0 s); [discriminate|]. inversion H; subst. destruct Hz; auto.
      - destruct (y_p1 s); [discriminate|]. inversion H; subst. destruct Hz; auto.
      - destruct (pop_main_spec _ _ _ H) as [a [b [E [E2 _]]]]. rewrite E in Hz. subst r.
        apply in_app_or in Hz as [Hz|[Hz|Hz]]; auto; right; apply in_or_app; auto.
      - destruct (y_p2 s); [discriminate|]. inversion H; subst. destruct Hz; auto.
    Qed.

    (** what is pending is delivered or stays pending *)
    Lemma seg_delivered s0 l :
      y_dead (a_sys (exec_from s0 l)) = false ->
      forall i z, In z (pend s0 i) ->
        In (to_m z) (del i (a_trace (exec_from s0 l))) \/ In z (pend (a_sys (exec_from s0 l)) i).
    Proof.
      apply (seg_ind (fun s w => forall i z, In z (pend s0 i) -> In (to_m z) (del i w) \/ In z (pend s i)) s0).
      - auto.
      - intros s w x s' t1 o1 IH E Hd i z Hz. rewrite del_app. specialize (IH i z Hz).
        destruct IH as [IH|IH]; [left; apply in_or_app; now left|].
        pose proof (step_cases _ _ _ _ _ E) as K.
        destruct K as [Et Eo Hm Hc Hs H0 H1 H2 Hin Hdone Hdd Hsq
                      |ord m rest c' ch0 sq' ch2 Ex Hal Hin Hcb Hsr Et Eo Hm Hc Hs Hsq H0 H1 H2 Hin' Hdone Hdd
                      |src m r Ex Hal Hpop Et Eo Hm Hc Hs Hsq Hpe Hin Hdone Hdd
                      |ord m rest Ex Hal Hin Hcb Hin' Hdone Hdd]; [| | |congruence].
        + right. destruct i as [|[|[|i]]]; cbn [pend] in *; congruence.
        + right. destruct i as [|[|[|i]]]; cbn [pend] in *; rewrite ?H0, ?H1, ?H2; auto; apply in_or_app; now left.
        + subst t1. rewrite Hpe. cbn [del]. destruct (Nat.eqb i (child_of src)) eqn:Ei.
          * apply Nat.eqb_eq in Ei. subst i. rewrite Nat.eqb_refl.
            destruct (pop_cases s src m r z Hpop IH) as [->|Hr]; [left; apply in_or_app; right; now left | now right].
          * now right.
    Qed.

    (* -------------------------------------------------------------- *)
    (** * 12. SYS_req_stream *)

    Lemma count_pos {A} (p : A -> bool) l x : In x l -> p x = true -> (1 <= count_occ_b p l)%nat.
    Proof.
      induction l as [|y l IH]; [intros []|]. intros [->|H] Hp; cbn; [rewrite Hp; lia|].
      destruct (p y); [lia | now apply IH].
    Qed.

    (** the step that reads a REQ, spelled out *)
    Lemma read_req s ord sub fs rest s' t1 o1 :
      y_dead s = false -> y_in s = CReq sub fs :: rest ->
      step s (LNext ord) = (s', t1, o1) -> y_dead s' = false ->
      exists A0, c_find (y_cache s) fs = Ok A0 /\
        t1 = [Merge.CReq sub fs] /\
        y_merge s' = fst (Merge.merge_step (y_merge s) (Merge.CReq sub fs)) /\
        y_in s' = rest /\
        y_p0 s' = y_p0 s ++ List.map (SEvent sub) A0 ++ [SEose sub] /\
        y_p1 s' = y_p1 s ++ [SEose sub] /\
        y_p2 s' = y_p2 s ++ List.map (SEvent sub) (match query (sq_db (y_sq s)) fs with Some evs => evs | None => [] end)
                        ++ [SEose sub].
    Proof.
      intros Hal Hin E Hd. unfold sys_step in E. rewrite Hal, Hin in E. cbn [cache_base client_input] in E.
      destruct (c_find (y_cache s) fs) as [A0|] eqn:Ef.
      - cbn [sqlite_reply] in E. inversion E; subst. clear E. exists A0. cbn.
        repeat split; try reflexivity.
        destruct (query (sq_db (y_sq s)) fs); reflexivity.
      - inversion E; subst. cbn in Hd. discriminate.
    Qed.

    Theorem req_stream l1 ord l2 sub fs rest :
      y_dead (a_sys (run (l1 ++ LNext ord :: l2))) = false ->
      y_in (a_sys (run l1)) = CReq sub fs :: rest ->
      (forall m, In m (y_done (a_sys (run l1))) -> is_req_sub sub m = false) ->
      (forall m, In m rest -> is_req_sub sub m = false /\ is_close_sub sub m = false) ->
      exists A0, c_find (y_cache (a_sys (run l1))) fs = Ok A0 /\
        let A2 := match query (sq_db (y_sq (a_sys (run l1)))) fs with Some evs => evs | None => [] end in
        let a2 := exec_from (a_sys (run l1)) (LNext ord :: l2) in
        (count_occ_b (is_eose_sub sub) (a_outs a2) <= 1)%nat /\
        (In (SEose sub) (a_outs a2) ->
           forall i, (i < 3)%nat -> In (Merge.Child i (Merge.SEose sub)) (a_trace a2)) /\
        (quiet (a_sys a2) -> count_occ_b (is_eose_sub sub) (a_outs a2) = 1%nat) /\
        (count_occ_b (is_eose_sub sub) (a_outs a2) = 0%nat ->
           (forall e, In e (events_for sub (a_outs a2)) -> matches_spec e fs) /\
           NoDup (List.map MergeProofs.ev_key (events_for sub (a_outs a2))) /\
           Merge.ts_noninc (events_for sub (a_outs a2)) /\
           (forall e, In e (events_for sub (a_outs a2)) -> In e A0 \/ In e A2)).
    Proof.
      intros Hd Hin Hfresh Hrest.
      pose proof (alive_prefix _ l1 (LNext ord :: l2) Hd) as Hd1.
      pose proof (inv_run l1 Hd1) as I1. pose proof (inv_run _ Hd) as Iall.
      set (s1 := a_sys (run l1)) in *.
      assert (Hd2 : y_dead (a_sys (exec_from s1 (LNext ord :: l2))) = false).
      { rewrite exec_app in Hd. exact Hd. }
      assert (Etr : a_trace (run (l1 ++ LNext ord :: l2)) = a_trace (run l1) ++ a_trace (exec_from s1 (LNext ord :: l2))).
      { rewrite exec_app. reflexivity. }
      destruct (step s1 (LNext ord)) as [[s1' t1r] o1r] eqn:Es.
      assert (Hd1' : y_dead s1' = false).
      { pose proof (alive_prefix s1 [LNext ord] l2 Hd2) as H. rewrite exec_cons, Es in H. exact H. }
      destruct (read_req s1 ord sub fs rest s1' t1r o1r Hd1 Hin Es Hd1') as [A0 [Ef [Et1 [Hm' [Hin' [Hp0 [Hp1 Hp2]]]]]]].
      exists A0. split; [exact Ef|]. intros A2 a2.
      assert (Ea2 : a2 = (a_sys (exec_from s1' l2), Merge.CReq sub fs :: a_trace (exec_from s1' l2),
                          o1r ++ a_outs (exec_from s1' l2))).
      { unfold a2. rewrite exec_cons, Es. cbn [fst snd]. now rewrite Et1. }
      assert (Hd3 : y_dead (a_sys (exec_from s1' l2)) = false).
      { unfold a2 in Ea2. rewrite Ea2 in Hd2. exact Hd2. }
      set (w := a_trace (exec_from s1' l2)) in *.
      set (ms1 := y_merge s1) in *.
      (* the client-side sequence of the window *)
      assert (Eo : a_outs a2 = vis (Merge.win_outs ms1 sub fs w)).
      { destruct (exec_merge (LNext ord :: l2) s1 Hd2) as [_ H]. fold a2 in H. rewrite H.
        rewrite Ea2. unfold a_trace. cbn [fst snd]. rewrite MergeProofs.outs_cons.
        rewrite (client_step_silent (y_merge s1) (CReq sub fs) _ eq_refl). reflexivity. }
      (* what MergeProofs needs *)
      assert (Ems1 : ms1 = Merge.final (Merge.init 3) (a_trace (run l1))) by (apply run_merge; exact Hd1).
      assert (Hs1 : MergeProofs.state_ok 3 ms1).
      { rewrite Ems1. apply MergeProofs.reach_ok. exact (i_tok _ I1). }
      assert (HT : Merge.trace_ok 3 (a_trace (run l1) ++ Merge.CReq sub fs :: w)).
      { pose proof (i_tok _ Iall) as H. rewrite Etr in H. fold a2 in H. rewrite Ea2 in H. exact H. }
      destruct (MergeProofs.trace_ok_window _ _ _ _ HT) as [_ [Hfs Hw]]. cbn in Hfs.
      assert (Hnr : Merge.no_reset sub w).
      { destruct (seg_clients s1' l2 Hd3) as [_ Hc]. intros x Hx. fold w in Hc.
        destruct (Hc x Hx) as [[i [z ->]]|[m [Hm Ex]]]; [split; reflexivity|].
        rewrite Hin' in Hm. destruct (Hrest m Hm) as [R1 R2].
        destruct m; cbn in Ex; inversion Ex; subst; cbn in *; auto. }
      pose proof (MergeProofs.eose_exactly_once 3 ms1 sub fs w ltac:(lia) Hs1 Hfs Hw Hnr) as Once.
      assert (Ec : count_occ_b (is_eose_sub sub) (a_outs a2) =
                   count_occ_b (Merge.is_eose_out sub) (Merge.win_outs ms1 sub fs w)).
      { rewrite Eo. apply count_occ_b_vis; [apply is_eose_sub_from | reflexivity]. }
      (* freshness: nothing labelled [sub] before the REQ *)
      pose proof (fresh_run l1 sub Hd1 Hfresh) as [C1 [_ _]]. fold s1 in C1.
      (* provenance *)
      assert (Hprov0 : prov sub A0 A2 s1' []).
      { split; [|split; [|split]].
        - intros e [He|[]]. cbn [pend] in He. rewrite Hp0 in He.
          apply in_app_or in He as [He|He]; [specialize (C1 0%nat _ He); cbn in C1; now rewrite str_eqb_refl in C1|].
          apply in_app_or in He as [He|[He|[]]]; [|discriminate].
          apply in_map_iff in He as [x [Ex Hx]]. now inversion Ex; subst.
        - intros e [He|[]]. cbn [pend] in He. rewrite Hp2 in He.
          apply in_app_or in He as [He|He]; [specialize (C1 2%nat _ He); cbn in C1; now rewrite str_eqb_refl in C1|].
          apply in_app_or in He as [He|[He|[]]]; [|discriminate].
          apply in_map_iff in He as [x [Ex Hx]]. now inversion Ex; subst.
        - intros wa e wb Ew. destruct wa; discriminate.
        - right. exists (y_p1 s1), []. split; [exact Hp1|]. intros e He.
          specialize (C1 1%nat _ He). cbn in C1. now rewrite str_eqb_refl in C1. }
      assert (Hprov : prov sub A0 A2 (a_sys (exec_from s1' l2)) w).
      { apply seg_prov; auto. intros m Hm. rewrite Hin' in Hm. now destruct (Hrest m Hm). }
      split; [|split; [|split]].
      - rewrite Ec, Once. destruct (Merge.all_eosed 3 sub w); lia.
      - intros HIn i Hi.
        assert (H1 : (1 <= count_occ_b (is_eose_sub sub) (a_outs a2))%nat).
        { apply (count_pos _ _ (SEose sub) HIn). cbn. apply str_eqb_refl. }
        rewrite Ec, Once in H1. destruct (Merge.all_eosed 3 sub w) eqn:Ea; [|lia].
        rewrite Ea2. unfold a_trace. cbn [fst snd]. right. now apply (all_eosed_In 3 sub w).
      - intro Q. rewrite Ec, Once.
        assert (Ea : Merge.all_eosed 3 sub w = true).
        { apply all_eosed_In. intros i Hi. apply In_del.
          assert (Hpi : In (SEose sub) (pend s1' i)).
          { destruct i as [|[|[|i]]]; cbn [pend]; [rewrite Hp0|rewrite Hp1|rewrite Hp2|lia];
              repeat (apply in_or_app; right); now left. }
          destruct (seg_delivered s1' l2 Hd3 i _ Hpi) as [H|H]; [exact H|].
          exfalso. rewrite Ea2 in Q. unfold a_sys in Q. cbn [fst] in Q.
          assert (Hqp := quiet_pend (exec_from s1' l2) i Q). rewrite Hqp in H. contradiction. }
        now rewrite Ea.
      - intro Hz. rewrite Ec, Once in Hz. destruct (Merge.all_eosed 3 sub w) eqn:Ea; [discriminate|].
        rewrite Eo, events_for_vis.
        split; [|split; [|split]].
        + apply (MergeProofs.pre_eose_match 3 ms1 sub fs w); auto; lia.
        + apply (MergeProofs.pre_eose_distinct 3 ms1 sub fs w); auto; lia.
        + apply (MergeProofs.pre_eose_sorted 3 ms1 sub fs w); auto; lia.
        + intros e He. unfold Merge.win_outs in He.
          destruct (fwd_pos sub _ e w He) as [wa [x [wb [Ew Hx]]]].
          destruct (MergeProofs.subid_preserved _ _ _ Hx) as [i [m0 [Ex Hm0]]]. subst x.
          assert (Em0 : m0 = Merge.SEvent sub e).
          { destruct m0; try (symmetry; exact Hm0); destruct Hm0 as [r Hr]; discriminate. }
          subst m0.
          assert (Hw' : Merge.trace_ok 3 (wa ++ [Merge.Child i (Merge.SEvent sub e)])).
          { rewrite Ew in Hw. now apply (MergeProofs.trace_ok_mid 3 wa _ wb). }
          assert (Hnr' : Merge.no_reset sub wa).
          { rewrite Ew in Hnr. now destruct (MergeProofs.no_reset_app sub wa _ Hnr). }
          assert (Ea' : Merge.all_eosed 3 sub wa = false).
          { destruct (Merge.all_eosed 3 sub wa) eqn:E1; [|reflexivity].
            rewrite Ew, (all_eosed_app_mono 3 sub wa _ E1) in Ea. discriminate. }
          pose proof (fwd_needs_open ms1 sub fs wa i e Hs1 Hfs Hw' Hnr' Ea' Hx) as Hopen.
          destruct (MergeProofs.trace_ok_snoc _ _ _ Hw') as [_ [Hi _]].
          destruct Hprov as [P0 [P2 [P3 _]]].
          assert (Hin_w : In (Merge.Child i (Merge.SEvent sub e)) w) by (rewrite Ew; apply in_or_app; right; now left).
          destruct i as [|[|[|i]]]; [| | |lia].
          * left. apply P0. right. now apply In_del.
          * exfalso. specialize (P3 wa e wb Ew). apply eosed_In in P3. congruence.
          * right. apply P2. right. now apply In_del.
    Qed.

    (* -------------------------------------------------------------- *)
    (** * 13. SYS_live_after_eose *)

    Lemma router_subs_NoDup done : NoDup (List.map fst (router_subs done)).
    Proof.
      induction done as [|m done IH] using rev_ind; [constructor|].
      rewrite router_subs_snoc. destruct m; cbn [router_subs_step]; auto.
      - now apply RouterLemmas.sm_set_NoDup.
      - now apply RouterLemmas.sm_del_NoDup.
    Qed.

    (** the step that reads an EVENT, spelled out *)
    Lemma read_event s ord e rest s' t1 o1 :
      y_dead s = false -> y_in s = CEvent e :: rest ->
      step s (LNext ord) = (s', t1, o1) -> y_dead s' = false ->
      t1 = [Merge.CEvent (ev_id e)] /\ y_in s' = rest /\
      y_p1 s' = y_p1 s ++ live_copies buflen e (Router.reorder ord (y_subs s)) (queued s) ++ [SOk (ev_id e) true [] []].
    Proof.
      intros Hal Hin E Hd. unfold sys_step in E. rewrite Hal, Hin in E. cbn [cache_base client_input] in E.
      destruct (c_add (y_cache s) e) as [c' added]. cbn [sqlite_reply] in E. inversion E; subst. cbn. auto.
    Qed.

    Lemma live_has e subs ord q sub fs :
      assoc sub subs = Some fs -> Router.sub_matches e fs = true ->
      (q + length subs <= buflen)%nat ->
      In (SEvent sub e) (live_copies buflen e (Router.reorder ord subs) q).
    Proof.
      intros Ha Hm Hroom. unfold live_copies. rewrite visit_loop_spec.
      rewrite skipn_app, repeat_length, Nat.sub_diag, skipn_all2 by (rewrite repeat_length; lia).
      cbn [app skipn]. rewrite map_map.
      assert (Hin : In sub (matching_subs e (Router.reorder ord subs))).
      { unfold matching_subs. apply in_map_iff. exists (sub, fs). split; [reflexivity|].
        apply filter_In. split; [now apply RouterLemmas.reorder_In_assoc | exact Hm]. }
      rewrite firstn_all2.
      - apply in_map_iff. exists sub. split; [reflexivity | exact Hin].
      - unfold matching_subs. rewrite map_length.
        pose proof (RouterLemmas.reorder_length ord subs).
        assert (length (filter (fun kv => Router.sub_matches e (snd kv)) (Router.reorder ord subs)) <=
                length (Router.reorder ord subs))%nat.
        { generalize (Router.reorder ord subs). intro l0. induction l0 as [|y l0 IH]; cbn; [lia|].
          destruct (Router.sub_matches e (snd y)); cbn; lia. }
        lia.
    Qed.

    (** a subscription stays as the REQ made it while no REQ / CLOSE for it is read *)
    Lemma seg_subs sub fs s0 l :
      assoc sub (y_subs s0) = Some fs ->
      (forall m, In m (y_in s0) -> is_req_sub sub m = false /\ is_close_sub sub m = false) ->
      y_dead (a_sys (exec_from s0 l)) = false ->
      assoc sub (y_subs (a_sys (exec_from s0 l))) = Some fs.
    Proof.
      intros Ha Hr Hd.
      apply (seg_ind (fun s w => (forall m, In m (y_in s) -> In m (y_in s0)) /\ assoc sub (y_subs s) = Some fs) s0);
        [| |exact Hd]; [auto|].
      intros s w x s' t1 o1 [H1 H2] E Hd'. split.
      - intros m Hm. apply H1. now apply (step_in _ _ _ _ _ E).
      - destruct (step_cases _ _ _ _ _ E) as [_ _ _ _ Hs _ _ _ _ _ _ _
                                             |ord m rest c' ch0 sq' ch2 _ _ Hin _ _ _ _ _ _ Hs _ _ _ _ _ _ _
                                             |src m r _ _ _ _ _ _ _ Hs _ _ _ _ _
                                             |ord m rest _ _ _ _ _ _ Hdd]; [| | |congruence]; rewrite Hs; auto.
        assert (Hm : In m (y_in s0)) by (apply H1; rewrite Hin; now left).
        destruct (Hr m Hm) as [R1 R2].
        destruct m as [e|s1 fs1|s1|e|s1 fs1]; cbn [router_subs_step]; auto; cbn in R1, R2.
        + rewrite RouterLemmas.assoc_sm_set_other; [exact H2|]. intro; subst. now rewrite str_eqb_refl in R1.
        + rewrite RouterLemmas.assoc_sm_del_other; [exact H2|]. intro; subst. now rewrite str_eqb_refl in R2.
    Qed.

    Lemma read_req_subs s ord sub fs rest s' t1 o1 :
      y_dead s = false -> y_in s = CReq sub fs :: rest ->
      step s (LNext ord) = (s', t1, o1) -> y_dead s' = false ->
      assoc sub (y_subs s') = Some fs.
    Proof.
      intros Hal Hin E Hd. unfold sys_step in E. rewrite Hal, Hin in E. cbn [cache_base client_input] in E.
      destruct (c_find (y_cache s) fs) as [A0|]; [|inversion E; subst; cbn in Hd; discriminate].
      cbn [sqlite_reply] in E. inversion E; subst. cbn. apply RouterLemmas.assoc_sm_set_same.
    Qed.

    Theorem live_after_eose l0 ord0 l1 ord l2 sub fs e rest0 rest1 :
      let s0 := a_sys (run l0) in
      let a1 := exec_from s0 (LNext ord0 :: l1) in
      let a2 := exec_from (a_sys a1) (LNext ord :: l2) in
      y_dead (a_sys (run (l0 ++ (LNext ord0 :: l1) ++ LNext ord :: l2))) = false ->
      y_in s0 = CReq sub fs :: rest0 ->
      (forall m, In m rest0 -> is_req_sub sub m = false /\ is_close_sub sub m = false) ->
      In (SEose sub) (a_outs a1) ->
      y_in (a_sys a1) = CEvent e :: rest1 ->
      Router.sub_matches e fs = true ->
      (queued (a_sys a1) + length (y_subs (a_sys a1)) <= buflen)%nat ->
      filter smsg_is_event (y_p1 (a_sys a2)) = [] ->
      In (SEvent sub e) (a_outs a2).
    Proof.
      intros s0 a1 a2 Hd Hin0 Hrest HEose Hin1 Hmatch Hroom Hdrained.
      (* aliveness of the pieces *)
      pose proof (alive_prefix _ l0 _ Hd) as Hdl0.
      assert (Hd01 : y_dead (a_sys (run (l0 ++ LNext ord0 :: l1))) = false).
      { rewrite app_assoc in Hd. exact (alive_prefix _ _ _ Hd). }
      pose proof (inv_run l0 Hdl0) as I0. pose proof (inv_run _ Hd) as Iall.
      fold s0 in I0.
      assert (Ha1 : y_dead (a_sys a1) = false) by (rewrite exec_app in Hd01; exact Hd01).
      assert (E01 : run (l0 ++ LNext ord0 :: l1) = (a_sys a1, a_trace (run l0) ++ a_trace a1, a_outs (run l0) ++ a_outs a1)).
      { rewrite exec_app. reflexivity. }
      assert (Ha2 : y_dead (a_sys a2) = false).
      { rewrite app_assoc, exec_app, E01 in Hd. exact Hd. }
      assert (ETr : a_trace (run (l0 ++ (LNext ord0 :: l1) ++ LNext ord :: l2)) = a_trace (run l0) ++ a_trace a1 ++ a_trace a2).
      { rewrite app_assoc, exec_app, E01. unfold a_trace, a_sys. cbn [fst snd]. now rewrite <- app_assoc. }
      (* the REQ is read *)
      destruct (step s0 (LNext ord0)) as [[s0' t0r] o0r] eqn:Es0.
      assert (Hd0' : y_dead s0' = false).
      { pose proof (alive_prefix s0 [LNext ord0] l1 Ha1) as H. rewrite exec_cons, Es0 in H. exact H. }
      destruct (read_req s0 ord0 sub fs rest0 s0' t0r o0r Hdl0 Hin0 Es0 Hd0') as [A0 [_ [Et0 [_ [Hin0' _]]]]].
      pose proof (read_req_subs s0 ord0 sub fs rest0 s0' t0r o0r Hdl0 Hin0 Es0 Hd0') as Hsub0.
      assert (Ea1 : a1 = (a_sys (exec_from s0' l1), Merge.CReq sub fs :: a_trace (exec_from s0' l1),
                          o0r ++ a_outs (exec_from s0' l1))).
      { unfold a1. rewrite exec_cons, Es0. cbn [fst snd]. now rewrite Et0. }
      assert (Hd1s : y_dead (a_sys (exec_from s0' l1)) = false) by (rewrite Ea1 in Ha1; exact Ha1).
      set (w1 := a_trace (exec_from s0' l1)) in *.
      set (ms0 := y_merge s0) in *.
      set (s1 := a_sys a1) in *.
      assert (Es1 : s1 = a_sys (exec_from s0' l1)) by (unfold s1; now rewrite Ea1).
      (* the EVENT is read *)
      destruct (step s1 (LNext ord)) as [[s1' t1r] o1r] eqn:Es1r.
      assert (Hd1' : y_dead s1' = false).
      { pose proof (alive_prefix s1 [LNext ord] l2 Ha2) as H. rewrite exec_cons, Es1r in H. exact H. }
      destruct (read_event s1 ord e rest1 s1' t1r o1r Ha1 Hin1 Es1r Hd1') as [Et1 [Hin1' Hp1]].
      assert (Ea2 : a2 = (a_sys (exec_from s1' l2), Merge.CEvent (ev_id e) :: a_trace (exec_from s1' l2),
                          o1r ++ a_outs (exec_from s1' l2))).
      { unfold a2. fold s1. rewrite exec_cons, Es1r. cbn [fst snd]. now rewrite Et1. }
      assert (Hd2s : y_dead (a_sys (exec_from s1' l2)) = false) by (rewrite Ea2 in Ha2; exact Ha2).
      set (w2 := a_trace (exec_from s1' l2)) in *.
      (* the subscription is still what the REQ made it *)
      assert (Hrest0' : forall m, In m (y_in s0') -> is_req_sub sub m = false /\ is_close_sub sub m = false).
      { intros m Hm. rewrite Hin0' in Hm. now apply Hrest. }
      assert (Hsub1 : assoc sub (y_subs s1) = Some fs).
      { rewrite Es1. now apply seg_subs. }
      destruct (seg_clients s0' l1 Hd1s) as [Hin_s1 Hcl1]. rewrite <- Es1 in Hin_s1.
      assert (Hrest1 : forall m, In m rest1 -> is_req_sub sub m = false /\ is_close_sub sub m = false).
      { intros m Hm. apply Hrest0', Hin_s1. rewrite Hin1. now right. }
      (* the live copy is queued, and delivered during l2 *)
      assert (Hqd : In (SEvent sub e) (pend s1' 1)).
      { cbn [pend]. rewrite Hp1. apply in_or_app. right. apply in_or_app. left. now apply (live_has e _ ord _ sub fs). }
      assert (Hdel : In (Merge.Child 1 (Merge.SEvent sub e)) w2).
      { destruct (seg_delivered s1' l2 Hd2s 1%nat _ Hqd) as [H|H]; [now apply In_del in H|]. exfalso.
        assert (Hf : In (SEvent sub e) (filter smsg_is_event (y_p1 (a_sys a2)))).
        { apply filter_In. split; [|reflexivity]. rewrite Ea2. exact H. }
        rewrite Hdrained in Hf. contradiction. }
      apply in_split in Hdel as [wa [wb Ew2]].
      (* the merge session: the window of the REQ *)
      assert (Ems0 : ms0 = Merge.final (Merge.init 3) (a_trace (run l0))) by (apply run_merge; exact Hdl0).
      assert (Hs0 : MergeProofs.state_ok 3 ms0).
      { rewrite Ems0. apply MergeProofs.reach_ok. exact (i_tok _ I0). }
      assert (HT : Merge.trace_ok 3 (a_trace (run l0) ++ Merge.CReq sub fs :: w1 ++ Merge.CEvent (ev_id e) :: w2)).
      { pose proof (i_tok _ Iall) as H. rewrite ETr, Ea1, Ea2 in H. unfold a_trace in H. cbn [fst snd] in H. exact H. }
      destruct (MergeProofs.trace_ok_window _ _ _ _ HT) as [_ [Hfs HW]]. cbn in Hfs.
      assert (Hnr1 : Merge.no_reset sub w1).
      { intros x Hx. destruct (Hcl1 x Hx) as [[i [z ->]]|[m [Hm Ex]]]; [split; reflexivity|].
        destruct (Hrest0' m Hm) as [R1 R2]. destruct m; cbn in Ex; inversion Ex; subst; cbn in *; auto. }
      destruct (seg_clients s1' l2 Hd2s) as [_ Hcl2].
      assert (Hnr2 : Merge.no_reset sub w2).
      { intros x Hx. destruct (Hcl2 x Hx) as [[i [z ->]]|[m [Hm Ex]]]; [split; reflexivity|].
        rewrite Hin1' in Hm. destruct (Hrest1 m Hm) as [R1 R2]. destruct m; cbn in Ex; inversion Ex; subst; cbn in *; auto. }
      assert (HnrW : Merge.no_reset sub (w1 ++ Merge.CEvent (ev_id e) :: w2)).
      { intros x Hx. apply in_app_or in Hx as [Hx|[<-|Hx]]; [now apply Hnr1 | split; reflexivity | now apply Hnr2]. }
      (* the merged EOSE came during l1 *)
      assert (Eo1 : a_outs a1 = vis (Merge.win_outs ms0 sub fs w1)).
      { destruct (exec_merge (LNext ord0 :: l1) s0 Ha1) as [_ H]. fold a1 in H. rewrite H.
        rewrite Ea1. unfold a_trace. cbn [fst snd]. rewrite MergeProofs.outs_cons.
        rewrite (client_step_silent (y_merge s0) (CReq sub fs) _ eq_refl). reflexivity. }
      assert (Hw1 : Merge.trace_ok 3 w1) by (now apply MergeProofs.trace_ok_app in HW as [H _]).
      assert (Ea : Merge.all_eosed 3 sub w1 = true).
      { pose proof (MergeProofs.eose_exactly_once 3 ms0 sub fs w1 ltac:(lia) Hs0 Hfs Hw1 Hnr1) as Once.
        assert (H1 : (1 <= count_occ_b (is_eose_sub sub) (a_outs a1))%nat).
        { apply (count_pos _ _ (SEose sub) HEose). cbn. apply str_eqb_refl. }
        rewrite Eo1 in H1. rewrite (count_occ_b_vis (is_eose_sub sub) (Merge.is_eose_out sub)) in H1;
          [|apply is_eose_sub_from|reflexivity].
        rewrite Once in H1. destruct (Merge.all_eosed 3 sub w1); [reflexivity | lia]. }
      (* pass-through *)
      assert (EW : w1 ++ Merge.CEvent (ev_id e) :: w2 =
                   (w1 ++ Merge.CEvent (ev_id e) :: wa) ++ Merge.Child 1 (Merge.SEvent sub e) :: wb).
      { rewrite Ew2, <- app_assoc. reflexivity. }
      rewrite EW in HW, HnrW.
      pose proof (MergeProofs.post_eose_passthrough 3 ms0 sub fs _ 1%nat e wb ltac:(lia) Hs0 Hfs HW HnrW
                    (all_eosed_app_mono 3 sub w1 _ Ea)) as Hpass.
      rewrite <- EW in Hpass. unfold Merge.win_outs in Hpass.
      set (sr := fst (Merge.merge_step ms0 (Merge.CReq sub fs))) in *.
      rewrite MergeProofs.outs_app in Hpass.
      rewrite nth_error_app2 in Hpass by (rewrite MergeProofs.outs_length, app_length; lia).
      apply nth_error_In in Hpass.
      (* ... which is part of what the client receives during LNext :: l2 *)
      assert (Em1 : y_merge s1 = Merge.final sr w1).
      { destruct (exec_merge (LNext ord0 :: l1) s0 Ha1) as [H _]. fold a1 in H. fold s1 in H. rewrite H.
        rewrite Ea1. unfold a_trace. cbn [fst snd]. unfold Merge.final at 1. rewrite MergeProofs.exec_cons.
        cbn [fst]. reflexivity. }
      destruct (exec_merge (LNext ord :: l2) s1 Ha2) as [_ Ho2]. fold a2 in Ho2. rewrite Ho2.
      rewrite Ea2. unfold a_trace. cbn [fst snd]. rewrite Em1.
      apply In_vis. exists (Merge.SEvent sub e). split; [exact Hpass | reflexivity].
    Qed.

    (* -------------------------------------------------------------- *)
    (** * 14. SYS_close_silent *)

    Lemma seg_clean sub s0 l :
      clean sub s0 [] -> (forall m, In m (y_in s0) -> is_req_sub sub m = false) ->
      y_dead (a_sys (exec_from s0 l)) = false ->
      clean sub (a_sys (exec_from s0 l)) (a_trace (exec_from s0 l)).
    Proof.
      intros Hc Hr Hd.
      apply (seg_ind (fun s w => (forall m, In m (y_in s) -> In m (y_in s0)) /\ clean sub s w) s0); [| |exact Hd].
      - split; auto.
      - intros s w x s' t1 o1 [H1 H2] E Hd'. split.
        + intros m Hm. apply H1. now apply (step_in _ _ _ _ _ E).
        + apply (clean_step sub s w x s' t1 o1); auto.
          intros ord m rest _ _ Hin. apply Hr, H1. rewrite Hin. now left.
    Qed.

    (** the step that reads a CLOSE, spelled out: no child replies *)
    Lemma read_close s ord sub rest s' t1 o1 :
      y_dead s = false -> y_in s = CClose sub :: rest ->
      step s (LNext ord) = (s', t1, o1) ->
      t1 = [Merge.CClose sub] /\ o1 = [] /\ y_dead s' = false /\
      y_merge s' = fst (Merge.merge_step (y_merge s) (Merge.CClose sub)) /\
      y_in s' = rest /\ y_subs s' = Router.sm_del sub (y_subs s) /\
      y_p0 s' = y_p0 s /\ y_p1 s' = y_p1 s /\ y_p2 s' = y_p2 s.
    Proof.
      intros Hal Hin E. unfold sys_step in E. rewrite Hal, Hin in E.
      cbn [cache_base client_input sqlite_reply default_reply chan_items router_live router_main router_op
           Router.reply_of List.map app router_subs_step] in E.
      rewrite !app_nil_r in E. inversion E; subst. cbn.
      rewrite (client_step_silent (y_merge s) (CClose sub) _ eq_refl). auto 10.
    Qed.

    Theorem close_silent l1 ord l2 sub rest :
      y_dead (a_sys (run (l1 ++ LNext ord :: l2))) = false ->
      y_in (a_sys (run l1)) = CClose sub :: rest ->
      (forall m, In m rest -> is_req_sub sub m = false) ->
      let s1 := a_sys (run l1) in
      let a2 := exec_from s1 (LNext ord :: l2) in
      (* reading the CLOSE: nothing to the client, no reply from any child *)
      (forall s' t1 o1, step s1 (LNext ord) = (s', t1, o1) ->
         o1 = [] /\ y_p0 s' = y_p0 s1 /\ y_p1 s' = y_p1 s1 /\ y_p2 s' = y_p2 s1) /\
      (* no merged EOSE for the subscription from then on *)
      count_occ_b (is_eose_sub sub) (a_outs a2) = 0%nat /\
      (* and, if nothing labelled with it was still on its way, no event either *)
      ((forall i z, In z (pend s1 i) -> labelled sub z = false) -> events_for sub (a_outs a2) = []).
    Proof.
      intros Hd Hin Hrest s1 a2.
      pose proof (alive_prefix _ l1 (LNext ord :: l2) Hd) as Hd1.
      pose proof (inv_run l1 Hd1) as I1. pose proof (inv_run _ Hd) as Iall. fold s1 in I1, Hd1, Hin.
      assert (Hd2 : y_dead (a_sys a2) = false) by (rewrite exec_app in Hd; exact Hd).
      assert (Etr : a_trace (run (l1 ++ LNext ord :: l2)) = a_trace (run l1) ++ a_trace a2).
      { rewrite exec_app. reflexivity. }
      destruct (step s1 (LNext ord)) as [[s1' t1r] o1r] eqn:Es.
      destruct (read_close s1 ord sub rest s1' t1r o1r Hd1 Hin Es) as [Et1 [Eo1 [Hd1' [Hm' [Hin' [Hsubs [Hp0 [Hp1 Hp2]]]]]]]].
      assert (Ea2 : a2 = (a_sys (exec_from s1' l2), Merge.CClose sub :: a_trace (exec_from s1' l2),
                          a_outs (exec_from s1' l2))).
      { unfold a2. rewrite exec_cons, Es. cbn [fst snd]. now rewrite Et1, Eo1. }
      assert (Hd3 : y_dead (a_sys (exec_from s1' l2)) = false) by (rewrite Ea2 in Hd2; exact Hd2).
      set (w := a_trace (exec_from s1' l2)) in *.
      set (ms1 := y_merge s1) in *.
      assert (Eo : a_outs a2 = vis (Merge.outs (fst (Merge.merge_step ms1 (Merge.CClose sub))) w)).
      { destruct (exec_merge (LNext ord :: l2) s1 Hd2) as [_ H]. fold a2 in H. rewrite H.
        rewrite Ea2. unfold a_trace. cbn [fst snd]. rewrite MergeProofs.outs_cons.
        rewrite (client_step_silent (y_merge s1) (CClose sub) _ eq_refl). reflexivity. }
      assert (Ems1 : ms1 = Merge.final (Merge.init 3) (a_trace (run l1))) by (apply run_merge; exact Hd1).
      assert (Hs1 : MergeProofs.state_ok 3 ms1).
      { rewrite Ems1. apply MergeProofs.reach_ok. exact (i_tok _ I1). }
      assert (HT : Merge.trace_ok 3 (a_trace (run l1) ++ Merge.CClose sub :: w)).
      { pose proof (i_tok _ Iall) as H. rewrite Etr, Ea2 in H. exact H. }
      destruct (MergeProofs.trace_ok_window _ _ _ _ HT) as [_ [_ Hw]].
      destruct (seg_clients s1' l2 Hd3) as [_ Hc]. fold w in Hc.
      assert (Hnq : MergeProofs.no_req sub w).
      { intros x Hx. destruct (Hc x Hx) as [[i [z ->]]|[m [Hm Ex]]]; [reflexivity|].
        rewrite Hin' in Hm. specialize (Hrest m Hm). destruct m; cbn in Ex; inversion Ex; subst; cbn in *; auto. }
      split; [|split].
      - intros s' t1 o1 E'. injection E' as <- <- <-. repeat split; assumption.
      - rewrite Eo. rewrite (count_occ_b_vis (is_eose_sub sub) (Merge.is_eose_out sub));
          [|apply is_eose_sub_from|reflexivity].
        now apply (MergeProofs.eose_none_after_close 3).
      - intro Hnone.
        assert (Hclean0 : clean sub s1' []).
        { split; [|split].
          - intros [|[|[|i]]] z; cbn [pend]; rewrite ?Hp0, ?Hp1, ?Hp2; [apply (Hnone 0%nat)|apply (Hnone 1%nat)|apply (Hnone 2%nat)|intros []].
          - intros i z [].
          - rewrite Hsubs. intro Hk. apply RouterLemmas.sm_del_keys_In in Hk. tauto. }
        assert (Hclean : clean sub (a_sys (exec_from s1' l2)) w).
        { apply seg_clean; auto. intros m Hm. rewrite Hin' in Hm. now apply Hrest. }
        destruct Hclean as [_ [C2 _]].
        rewrite Eo, events_for_vis.
        destruct (Merge.forwarded sub (Merge.outs (fst (Merge.merge_step ms1 (Merge.CClose sub))) w)) as [|e l0] eqn:Ef; [reflexivity|].
        exfalso.
        assert (He : In e (Merge.forwarded sub (Merge.outs (fst (Merge.merge_step ms1 (Merge.CClose sub))) w))) by (rewrite Ef; now left).
        destruct (fwd_pos sub _ e w He) as [wa [x [wb [Ew Hx]]]].
        destruct (MergeProofs.subid_preserved _ _ _ Hx) as [i [m0 [Ex Hm0]]]. subst x.
        assert (Em0 : m0 = Merge.SEvent sub e).
        { destruct m0; try (symmetry; exact Hm0); destruct Hm0 as [r Hr]; discriminate. }
        subst m0.
        assert (Hin_w : In (Merge.SEvent sub e) (del i w)).
        { apply In_del. rewrite Ew. apply in_or_app. right. now left. }
        specialize (C2 i _ Hin_w). cbn in C2. now rewrite str_eqb_refl in C2.
    Qed.
  End Run.

  (* ---------------------------------------------------------------- *)
  (** * 15. SYS_prom_transparent *)

  Lemma prom_wrap_one {A} (l : list A) : prom_wrap 1 l = l.
  Proof. unfold prom_wrap. induction l as [|x l IH]; [reflexivity|]. cbn [flat_map]. rewrite IH. reflexivity. Qed.
End Proofs.
