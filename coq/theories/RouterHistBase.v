(* RouterHistBase.v — C07: basic facts about the instrumented run of
   RouterHist.v: how the list of operations and the stamped outputs evolve
   in one step, and the bookkeeping invariant that ties them to the model's
   state. *)
From Moc Require Import Base Match Router RouterSpec RouterHist RouterLemmas RouterFrame RouterTrans RouterData
  RouterMust RouterEnv RouterInv RouterDataInv.
From Coq Require Import Sorted.
Open Scope Z_scope.

(* ------------------------------------------------------------------ *)
(** * close1 / close_hop *)

Lemma close1_c c k h : h_c (close1 c k h) = h_c h.
Proof. unfold close1. destruct (_ && _ && _); reflexivity. Qed.
Lemma close1_o c k h : h_o (close1 c k h) = h_o h.
Proof. unfold close1. destruct (_ && _ && _); reflexivity. Qed.
Lemma close1_b c k h : h_b (close1 c k h) = h_b h.
Proof. unfold close1. destruct (_ && _ && _); reflexivity. Qed.

Lemma close1_d c k h :
  h_d (close1 c k h) = h_d h \/
  (h_d h = None /\ h_d (close1 c k h) = Some k /\ h_c h = c /\ is_close (h_o h) = false).
Proof.
  unfold close1. destruct (Nat.eqb (h_c h) c) eqn:E1; [|now left].
  destruct (h_d h) eqn:E2; [now left|]. destruct (is_close (h_o h)) eqn:E3; [now left|].
  right. apply Nat.eqb_eq in E1. cbn. auto.
Qed.

Lemma close1_other c k h : h_c h <> c -> close1 c k h = h.
Proof. intro N. unfold close1. apply Nat.eqb_neq in N. now rewrite N. Qed.

Lemma close1_some c k h d : h_d h = Some d -> close1 c k h = h.
Proof. intro E. unfold close1. rewrite E. cbn. now rewrite andb_false_r. Qed.

Lemma close1_open c k h :
  h_c h = c -> h_d h = None -> is_close (h_o h) = false -> h_d (close1 c k h) = Some k.
Proof. intros E1 E2 E3. unfold close1. rewrite E1, E2, E3, Nat.eqb_refl. reflexivity. Qed.

Lemma close1_isclose c k h : is_close (h_o h) = true -> close1 c k h = h.
Proof. intro E. unfold close1. rewrite E. cbn. now rewrite andb_false_r. Qed.

(** two hops are the same operation (possibly seen at different times) *)
Definition same_op (h h' : hop) : Prop := h_c h' = h_c h /\ h_o h' = h_o h /\ h_b h' = h_b h.

Lemma same_op_refl h : same_op h h.
Proof. repeat split. Qed.

Lemma same_op_close1 c k h : same_op h (close1 c k h).
Proof. unfold same_op. now rewrite close1_c, close1_o, close1_b. Qed.

Lemma same_op_trans a b c : same_op a b -> same_op b c -> same_op a c.
Proof. unfold same_op. intros (A1 & A2 & A3) (B1 & B2 & B3). repeat split; congruence. Qed.

(* ------------------------------------------------------------------ *)
(** * How the list of operations changes in one step *)

Inductive hchange (now : Z) (H H' : list hop) : Prop :=
| HC_same : H' = H -> hchange now H H'
| HC_open c o : H' = H ++ [mkHop c o now None] -> hchange now H H'
| HC_close c : H' = close_hop c now H -> hchange now H H'.

(** the end stamp of an operation is set once, to the current time *)
Definition d_evolves (now : Z) (h h' : hop) : Prop :=
  h_d h' = h_d h \/ (h_d h = None /\ h_d h' = Some now /\ is_close (h_o h) = false).

Lemma hchange_fwd now H H' h :
  hchange now H H' -> In h H -> exists h', In h' H' /\ same_op h h' /\ d_evolves now h h'.
Proof.
  intros [->| c o ->| c ->] Hin.
  - exists h. repeat split; auto. now left.
  - exists h. split; [apply in_or_app; now left|]. split; [apply same_op_refl | now left].
  - exists (close1 c now h). split; [now apply in_map|]. split; [apply same_op_close1|].
    destruct (close1_d c now h) as [E|(E1 & E2 & _ & E4)]; [now left | right; auto].
Qed.

Lemma hchange_bwd now H H' h' :
  hchange now H H' -> In h' H' ->
  (exists h, In h H /\ same_op h h' /\ d_evolves now h h') \/
  (exists c o, h' = mkHop c o now None /\ H' = H ++ [h']).
Proof.
  intros [->| c o ->| c ->] Hin.
  - left. exists h'. repeat split; auto. now left.
  - apply in_app_iff in Hin as [Hin|[<-|[]]].
    + left. exists h'. repeat split; auto. now left.
    + right. eauto.
  - apply in_map_iff in Hin as [h [<- Hin]]. left. exists h. split; [assumption|]. split; [apply same_op_close1|].
    destruct (close1_d c now h) as [E|(E1 & E2 & _ & E4)]; [now left | right; auto].
Qed.

(* ------------------------------------------------------------------ *)
(** * Publications of one connection, in order *)

Definition is_pub_op (o : op) : bool := match o with OEvent _ => true | _ => false end.

Definition pubs_of (p : conn) (H : list hop) : list hop :=
  filter (fun h => Nat.eqb (h_c h) p && is_pub_op (h_o h)) H.

(** hop [P] is publication number [n] of connection [p] *)
Definition pub_nth (H : list hop) (p : conn) (n : nat) (P : hop) : Prop := nth_error (pubs_of p H) n = Some P.

Lemma filter_map_commute {A} (f : A -> bool) (g : A -> A) l :
  (forall a, f (g a) = f a) -> filter f (List.map g l) = List.map g (filter f l).
Proof.
  intro Hfg. induction l as [|a l IH]; cbn; [reflexivity|]. rewrite Hfg. destruct (f a); cbn; now rewrite IH.
Qed.

Lemma pubs_of_close p c k H : pubs_of p (close_hop c k H) = List.map (close1 c k) (pubs_of p H).
Proof. apply filter_map_commute. intro a. now rewrite close1_c, close1_o. Qed.

Lemma pubs_of_app p H1 H2 : pubs_of p (H1 ++ H2) = pubs_of p H1 ++ pubs_of p H2.
Proof. apply filter_app. Qed.

Lemma pub_nth_In H p n P : pub_nth H p n P -> In P H /\ h_c P = p /\ is_pub_op (h_o P) = true.
Proof.
  intro E. apply nth_error_In in E. apply filter_In in E as [E1 E2]. apply andb_true_iff in E2 as [E2 E3].
  apply Nat.eqb_eq in E2. auto.
Qed.

Lemma pub_nth_hchange now H H' p n P :
  hchange now H H' -> pub_nth H p n P -> exists P', pub_nth H' p n P' /\ same_op P P' /\ d_evolves now P P'.
Proof.
  intros [->| c o ->| c ->] E; unfold pub_nth in *.
  - exists P. repeat split; auto. now left.
  - exists P. split; [|split; [apply same_op_refl | now left]].
    rewrite pubs_of_app, nth_error_app1; [assumption|]. apply nth_error_Some. congruence.
  - exists (close1 c now P). split; [|split; [apply same_op_close1|]].
    + rewrite pubs_of_close. now apply map_nth_error.
    + destruct (close1_d c now P) as [E1|(E1 & E2 & _ & E4)]; [now left | right; auto].
Qed.

Lemma pub_nth_hchange_bwd now H H' p n P' :
  hchange now H H' -> pub_nth H' p n P' ->
  (exists P, pub_nth H p n P /\ same_op P P' /\ d_evolves now P P') \/
  (n = length (pubs_of p H) /\ exists e, P' = mkHop p (OEvent e) now None /\ H' = H ++ [P']).
Proof.
  intros [->| c o ->| c ->] E; unfold pub_nth in *.
  - left. exists P'. repeat split; auto. now left.
  - rewrite pubs_of_app in E. destruct (Nat.lt_ge_cases n (length (pubs_of p H))) as [L|G].
    + rewrite nth_error_app1 in E by assumption. left. exists P'. split; [assumption|]. split; [apply same_op_refl | now left].
    + rewrite nth_error_app2 in E by assumption. right.
      assert (E0 : pubs_of p [mkHop c o now None] = if Nat.eqb c p && is_pub_op o then [mkHop c o now None] else []) by reflexivity.
      rewrite E0 in E. clear E0.
      destruct (Nat.eqb c p && is_pub_op o) eqn:B; [|destruct (n - length (pubs_of p H))%nat; cbn in E; discriminate E].
      apply andb_true_iff in B as [B1 B2]. apply Nat.eqb_eq in B1. subst c.
      destruct o; try discriminate.
      destruct (n - length (pubs_of p H))%nat as [|m] eqn:Em; [|destruct m; cbn in E; discriminate].
      cbn in E. inversion E; subst P'. split; [lia|]. eauto.
  - rewrite pubs_of_close, nth_error_map in E.
    destruct (nth_error (pubs_of p H) n) as [P|] eqn:E1; [|discriminate]. cbn in E. inversion E as [E2]. left. exists P. split; [reflexivity|]. split; [apply same_op_close1|].
    destruct (close1_d c now P) as [E9|(E3 & E4 & _ & E5)]; [now left | right; auto].
Qed.

(* ------------------------------------------------------------------ *)
(** * effect_known as a function of the list of operations *)

Definition effk (H : list hop) (k : hop) : option Z := effect_known (mkHist 0 H [] []) k.

Lemma effect_known_effk h k : effect_known h k = effk (hi_ops h) k.
Proof. destruct h. reflexivity. Qed.

Definition xops (x : conn) (H : list hop) : list hop := filter (fun o => Nat.eqb (h_c o) x) H.

Lemma ops_of_xops h x : ops_of h x = xops x (hi_ops h).
Proof. reflexivity. Qed.

Lemma effk_unfold H k :
  effk H k = match h_o k with OClose _ => first_end_after (xops (h_c k) H) (h_b k) | _ => h_d k end.
Proof. reflexivity. Qed.

Lemma xops_app x H1 H2 : xops x (H1 ++ H2) = xops x H1 ++ xops x H2.
Proof. apply filter_app. Qed.

Lemma xops_close x c k H : xops x (close_hop c k H) = List.map (close1 c k) (xops x H).
Proof. apply filter_map_commute. intro a. now rewrite close1_c. Qed.

Lemma xops_In x H h : In h (xops x H) <-> In h H /\ h_c h = x.
Proof. unfold xops. rewrite filter_In, Nat.eqb_eq. tauto. Qed.

Lemma fea_snoc_none l b h : h_d h = None -> first_end_after (l ++ [h]) b = first_end_after l b.
Proof.
  intro E. unfold first_end_after. rewrite fold_right_app. cbn. rewrite E. now destruct (b <? h_b h).
Qed.

Lemma fea_close l b c k d :
  first_end_after (List.map (close1 c k) l) b = Some d -> first_end_after l b = Some d \/ d = k.
Proof.
  induction l as [|a l IH]; cbn; [discriminate|]. rewrite close1_b.
  destruct (b <? h_b a); [|exact IH].
  destruct (close1_d c k a) as [E|(E1 & E2 & _)].
  - rewrite E. destruct (h_d a); [auto | exact IH].
  - rewrite E2, E1. intro X. inversion X. now right.
Qed.

Lemma fea_none_last l b : (forall o, In o l -> h_b o <= b) -> first_end_after l b = None.
Proof.
  induction l as [|a l IH]; intro Hl; cbn; [reflexivity|].
  assert (E : b <? h_b a = false) by (apply Z.ltb_ge, Hl; now left). rewrite E.
  apply IH. intros o Ho. apply Hl. now right.
Qed.

Lemma fea_some l b d : first_end_after l b = Some d -> exists o, In o l /\ b < h_b o /\ h_d o = Some d.
Proof.
  induction l as [|a l IH]; cbn; [discriminate|].
  destruct (b <? h_b a) eqn:E.
  - destruct (h_d a) as [d0|] eqn:Ed.
    + intro X. inversion X; subst d0. exists a. apply Z.ltb_lt in E. auto.
    + intro X. destruct (IH X) as (o & Ho & H1 & H2). exists o. auto.
  - intro X. destruct (IH X) as (o & Ho & H1 & H2). exists o. auto.
Qed.

Lemma effk_same_op H k k' : same_op k k' -> h_d k' = h_d k -> effk H k' = effk H k.
Proof. intros (E1 & E2 & E3) E4. rewrite !effk_unfold, E1, E2, E3, E4. reflexivity. Qed.

(** an end stamp that becomes known during a step is the current time *)
Lemma effk_hchange now H H' k k' d :
  hchange now H H' -> same_op k k' -> d_evolves now k k' ->
  effk H' k' = Some d -> effk H k = Some d \/ d = now.
Proof.
  intros HC (E1 & E2 & E3) Ev. rewrite !effk_unfold, E1, E2, E3.
  destruct (h_o k) eqn:Eo;
    try (destruct Ev as [Ev|(Ev1 & Ev2 & _)]; [rewrite Ev; auto | rewrite Ev2; intro X; inversion X; auto]).
  destruct HC as [->| c o ->| c ->].
  - auto.
  - rewrite xops_app. unfold xops at 2. cbn [filter h_c].
    destruct (Nat.eqb c (h_c k)); [|rewrite app_nil_r; auto].
    rewrite fea_snoc_none by reflexivity. auto.
  - rewrite xops_close. apply fea_close.
Qed.

Lemma effk_last_none H k :
  (forall h', In h' H -> h_c h' = h_c k -> h_b h' <= h_b k) -> h_d k = None -> effk H k = None.
Proof.
  intros Hl Hd. rewrite effk_unfold. destruct (h_o k); try assumption.
  apply fea_none_last. intros o Ho. apply xops_In in Ho as [Ho1 Ho2]. now apply Hl.
Qed.



(* ------------------------------------------------------------------ *)
(** * Views of a transition *)

Ltac upd_x x :=
  match goal with |- context [upd ?f ?k ?v x] => destruct (upd_cases f k v x) as [[-> ->]|[_ ->]] end.

Lemma trans_actor s l s' :
  trans s l s' ->
  match l with
  | LOp c _ => c_pc (r_cs s c) = [] /\ c_dead (r_cs s c) = false
  | LRun c | LVisit c _ _ => c_pc (r_cs s c) <> []
  | _ => True
  end.
Proof.
  intro T. inversion T; subst; cbn; try (split; assumption); try congruence; try exact Logic.I.
  destruct H1 as [->|[-> _]]; congruence.
Qed.

Lemma od_upd_pc f c pc x :
  c_ops (upd f c (set_pc (f c) pc) x) = c_ops (f x) /\ c_dead (upd f c (set_pc (f c) pc) x) = c_dead (f x).
Proof. destruct (upd_cases f c (set_pc (f c) pc) x) as [[-> ->]|[_ ->]]; split; reflexivity. Qed.

(** accepted operations and the session's liveness change only when an
    operation is accepted *)
Lemma trans_ops s l s' x :
  trans s l s' ->
  (c_ops (r_cs s' x) = c_ops (r_cs s x) /\ c_dead (r_cs s' x) = c_dead (r_cs s x)) \/
  (exists o, l = LOp x o /\ c_ops (r_cs s' x) = c_ops (r_cs s x) ++ [o] /\ c_dead (r_cs s' x) = is_disc o /\
             c_pc (r_cs s' x) = program s x o).
Proof.
  intro T. inversion T; subst; cbn [r_cs with_cs].
  - destruct (Nat.eq_dec x c) as [->|N].
    + right. exists o. rewrite upd_same. cbn. auto.
    + left. rewrite upd_other by auto. auto.
  - left. apply od_upd_pc.
  - left. apply od_upd_pc.
  - left. apply od_upd_pc.
  - left. apply od_upd_pc.
  - left. apply od_upd_pc.
  - left. upd_x x; split; reflexivity.
  - left. upd_x x; split; reflexivity.
  - left. apply od_upd_pc.
  - left. unfold start_visit. cbn [r_cs with_cs].
    rewrite (ops_upd2 _ _ _ _ (fun st => set_rd st (c :: c_rd st))) by (intro; reflexivity).
    rewrite (dead_upd2 _ _ _ _ (fun st => set_rd st (c :: c_rd st))) by (intro; reflexivity). apply od_upd_pc.
  - left.
    rewrite (ops_upd2 _ _ _ _ (fun st => set_rd st (remove_conn c (c_rd st)))) by (intro; reflexivity).
    rewrite (dead_upd2 _ _ _ _ (fun st => set_rd st (remove_conn c (c_rd st)))) by (intro; reflexivity). apply od_upd_pc.
  - left.
    rewrite (ops_upd2 _ _ _ _ (send_if_match (r_buf s) e t sub fs)) by (intro; apply ctl_send_if_match).
    rewrite (dead_upd2 _ _ _ _ (send_if_match (r_buf s) e t sub fs)) by (intro; apply ctl_send_if_match). apply od_upd_pc.
  - left. upd_x x; split; reflexivity.
  - left. upd_x x; split; reflexivity.
  - left. upd_x x; split; reflexivity.
Qed.

(** the output of a connection grows by at most one message per step: a
    reply of its own goroutine or a live event from its forwarder *)
Lemma trans_out s l s' x :
  trans s l s' ->
  c_out (r_cs s' x) = c_out (r_cs s x) \/
  (exists m, c_out (r_cs s' x) = c_out (r_cs s x) ++ [m] /\
             ((l = LRun x /\ is_event_msg m = false) \/ (l = LDeliver x /\ c_hand (r_cs s x) = Some m))).
Proof.
  intro T. destruct (dat_trans s l s' x T)
    as [E|m Hl Hm Ho Hq Hh Hdr|c e t sub fs todo rest Hl Hpc E|rest Hl Hpc Hq' Hh' Ho Hdr|m q' Hl Hh Hq Hq' Hh' Ho Hdr|m Hl Hh Hq Hh' Ho Hdr].
  - left. apply dat_eq in E. tauto.
  - right. exists m. auto.
  - left. apply dat_eq in E as (_ & _ & E3 & _). now rewrite E3, send_if_match_out.
  - now left.
  - now left.
  - right. exists m. auto.
Qed.

(* ------------------------------------------------------------------ *)
(** * One instrumented step *)

Lemma istep_s st l : i_s (istep st l) = step (i_s st) l.
Proof. reflexivity. Qed.

Lemma istep_now st l : i_now (istep st l) = i_now st + 1.
Proof. reflexivity. Qed.

Lemma irun_cons st l tr : irun st (l :: tr) = irun (istep st l) tr.
Proof. reflexivity. Qed.

Lemma irun_app st tr1 tr2 : irun st (tr1 ++ tr2) = irun (irun st tr1) tr2.
Proof. unfold irun. apply fold_left_app. Qed.

Lemma irun_s st tr : i_s (irun st tr) = run (i_s st) tr.
Proof.
  revert st. induction tr as [|l tr IH]; intro st; [reflexivity|]. rewrite irun_cons, IH, istep_s. reflexivity.
Qed.

Lemma is_nil_true {A} (l : list A) : is_nil l = true <-> l = [].
Proof. destruct l; cbn; split; congruence. Qed.

Lemma is_nil_false {A} (l : list A) : is_nil l = false <-> l <> [].
Proof. destruct l; cbn; split; congruence. Qed.

Lemma accepted_step s c o :
  accepted s c = true -> c_ops (r_cs (step s (LOp c o)) c) = c_ops (r_cs s c) ++ [o].
Proof.
  unfold accepted. intro A. apply andb_true_iff in A as [A1 A2]. apply is_nil_true in A1. apply negb_true_iff in A2.
  unfold step. cbn [enabled step_enabled]. rewrite A1, A2. cbn [r_cs with_cs]. rewrite upd_same. reflexivity.
Qed.

Lemma istep_outs st l x :
  i_outs (istep st l) x =
  i_outs st x ++ List.map (fun m => (m, i_now st))
                   (skipn (length (c_out (r_cs (i_s st) x))) (c_out (r_cs (step (i_s st) l) x))).
Proof. reflexivity. Qed.

Lemma skipn_app_exact {A} (l r : list A) : skipn (length l) (l ++ r) = r.
Proof. induction l; cbn; auto. Qed.

Lemma istep_stutter st l :
  step (i_s st) l = i_s st ->
  i_hops (istep st l) = i_hops st /\ (forall x, i_outs (istep st l) x = i_outs st x).
Proof.
  intro E. split.
  - unfold istep. cbn [i_hops]. rewrite E. destruct l as [c o|c|c c' ord|c|c]; try reflexivity.
    + destruct (accepted (i_s st) c) eqn:A; [|reflexivity].
      exfalso. pose proof (accepted_step (i_s st) c o A) as X. rewrite E in X.
      apply (f_equal (@length op)) in X. rewrite app_length in X. cbn in X. lia.
    + destruct (c_pc (r_cs (i_s st) c)); reflexivity.
  - intro x. rewrite istep_outs, E, skipn_all. cbn. apply app_nil_r.
Qed.

Lemma istep_hops_trans st l :
  trans (i_s st) l (step (i_s st) l) ->
  i_hops (istep st l) =
  match l with
  | LOp c o => i_hops st ++ [mkHop c o (i_now st) None]
  | LRun c => if is_nil (c_pc (r_cs (step (i_s st) l) c)) then close_hop c (i_now st) (i_hops st) else i_hops st
  | _ => i_hops st
  end.
Proof.
  intro T. pose proof (trans_actor _ _ _ T) as A. unfold istep. cbn [i_hops].
  destruct l as [c o|c|c c' ord|c|c]; try reflexivity.
  - destruct A as [A1 A2]. unfold accepted. now rewrite A1, A2.
  - apply is_nil_false in A. now rewrite A.
Qed.

Lemma istep_hchange st l : hchange (i_now st) (i_hops st) (i_hops (istep st l)).
Proof.
  destruct (step_trans (i_s st) l) as [E|T].
  - apply HC_same. now apply istep_stutter.
  - rewrite (istep_hops_trans st l T). destruct l as [c o|c|c c' ord|c|c]; try (now apply HC_same).
    + now apply (HC_open _ _ _ c o).
    + destruct (is_nil _); [now apply (HC_close _ _ _ c) | now apply HC_same].
Qed.

Lemma istep_outs_trans st l x :
  trans (i_s st) l (step (i_s st) l) ->
  (i_outs (istep st l) x = i_outs st x /\ c_out (r_cs (step (i_s st) l) x) = c_out (r_cs (i_s st) x)) \/
  (exists m, i_outs (istep st l) x = i_outs st x ++ [(m, i_now st)] /\
             c_out (r_cs (step (i_s st) l) x) = c_out (r_cs (i_s st) x) ++ [m] /\
             ((l = LRun x /\ is_event_msg m = false) \/ (l = LDeliver x /\ c_hand (r_cs (i_s st) x) = Some m))).
Proof.
  intro T. rewrite istep_outs. destruct (trans_out _ _ _ x T) as [E|(m & E & Hm)]; rewrite E.
  - left. rewrite skipn_all. cbn. split; [apply app_nil_r | reflexivity].
  - right. exists m. rewrite skipn_app_exact. cbn. auto.
Qed.

(* ------------------------------------------------------------------ *)
(** * The bookkeeping invariant *)

Record HInv (st : istate) : Prop := mkHInv {
  h_now : 0 <= i_now st;
  h_time : forall h, In h (i_hops st) ->
             0 <= h_b h < i_now st /\ (forall d, h_d h = Some d -> h_b h < d < i_now st);
  h_sorted : StronglySorted (fun a b => h_b a < h_b b) (i_hops st);
  h_ops : forall x, List.map h_o (xops x (i_hops st)) = c_ops (r_cs (i_s st) x);
  (* an operation without end stamp (other than a CLOSE) is the last one of its connection, which is busy *)
  h_open : forall h, In h (i_hops st) -> h_d h = None -> is_close (h_o h) = false ->
             c_pc (r_cs (i_s st) (h_c h)) <> [] /\
             (forall h', In h' (i_hops st) -> h_c h' = h_c h -> h_b h' <= h_b h);
  (* the last operation of a busy connection has no end stamp *)
  h_busy : forall x, c_pc (r_cs (i_s st) x) <> [] ->
             exists h, In h (i_hops st) /\ h_c h = x /\ h_d h = None /\
                       (forall h', In h' (i_hops st) -> h_c h' = x -> h_b h' <= h_b h);
  h_outs : forall x, List.map fst (i_outs st x) = c_out (r_cs (i_s st) x) /\
                     Forall (fun mr : smsg * Z => 0 <= snd mr < i_now st) (i_outs st x)
}.

Lemma HInv_init buf : HInv (i_init buf).
Proof.
  constructor; cbn; intros; try contradiction; try (now constructor); try lia; try reflexivity; try congruence.
Qed.

Lemma SSorted_snoc_gen {A} (R : A -> A -> Prop) l x :
  StronglySorted R l -> Forall (fun a => R a x) l -> StronglySorted R (l ++ [x]).
Proof.
  induction l as [|a l IH]; cbn; intros S F; [repeat constructor|].
  inversion S as [|? ? S1 S2]; subst. inversion F as [|? ? F1 F2]; subst.
  constructor; [now apply IH|]. apply Forall_app. split; [assumption | now constructor].
Qed.

Lemma SSorted_map_gen {A} (R : A -> A -> Prop) (f : A -> A) l :
  (forall a b, R a b -> R (f a) (f b)) -> StronglySorted R l -> StronglySorted R (List.map f l).
Proof.
  intros Hf S. induction S as [|a l S IH F]; cbn; constructor; [assumption|].
  apply Forall_map. eapply Forall_impl; [|exact F]. intros b. apply Hf.
Qed.

Lemma hop_eq_of_b H a b :
  StronglySorted (fun a b => h_b a < h_b b) H -> In a H -> In b H -> h_b a = h_b b -> a = b.
Proof.
  intro S. induction S as [|h l S IH F]; cbn; [contradiction|].
  rewrite Forall_forall in F.
  intros [->|Ha] [->|Hb] E; auto.
  - specialize (F _ Hb). lia.
  - specialize (F _ Ha). lia.
Qed.

Lemma program_nonnil s c o : is_close o = false -> program s c o <> [].
Proof. destruct o; cbn; try discriminate; destruct (reg_get c (r_reg s)); discriminate. Qed.

Lemma trans_visit_pc s c c' ord s' : trans s (LVisit c c' ord) s' -> c_pc (r_cs s' c) <> [].
Proof.
  intro T. inversion T; subst.
  unfold start_visit. cbn [r_cs with_cs].
  rewrite (pc_upd2 _ _ _ _ (fun st => set_rd st (c0 :: c_rd st))) by (intro; reflexivity).
  destruct H1 as [E|[E _]]; [inversion E; subst | discriminate].
  rewrite upd_same. discriminate.
Qed.

Lemma trans_pc_other s l s' x : trans s l s' -> label_of_conn x l = false -> c_pc (r_cs s' x) = c_pc (r_cs s x).
Proof. intros T Hl. now destruct (ctl_fields _ _ (trans_ctl_other s l s' x T Hl)). Qed.

(** except for the acceptance of an operation and for the last step of a
    program, a transition keeps every connection busy or idle as it was *)
Lemma trans_idle_iff s l s' :
  trans s l s' -> (forall c o, l <> LOp c o) -> (forall c, l = LRun c -> c_pc (r_cs s' c) <> []) ->
  forall x, c_pc (r_cs s' x) = [] <-> c_pc (r_cs s x) = [].
Proof.
  intros T Hno Hrun x. destruct (label_of_conn x l) eqn:Hl.
  - pose proof (trans_actor _ _ _ T) as A.
    destruct l as [c o|c|c c' ord|c|c]; cbn in Hl; try discriminate.
    + exfalso. eapply Hno. reflexivity.
    + apply Nat.eqb_eq in Hl. subst c. specialize (Hrun x eq_refl). split; intro; contradiction.
    + apply Nat.eqb_eq in Hl. subst c. pose proof (trans_visit_pc _ _ _ _ _ T). split; intro; contradiction.
  - now rewrite (trans_pc_other _ _ _ _ T Hl).
Qed.

Theorem HInv_step st l : HInv st -> HInv (istep st l).
Proof.
  intro I. destruct (step_trans (i_s st) l) as [E|T].
  - (* stutter *)
    destruct (istep_stutter st l E) as [EH EO].
    constructor; rewrite ?istep_now, ?istep_s, ?EH, ?E.
    + pose proof (h_now st I). lia.
    + intros h Hin. destruct (h_time st I h Hin) as [H1 H2]. split; [lia|]. intros d Hd. specialize (H2 d Hd). lia.
    + apply I.
    + apply I.
    + apply I.
    + apply I.
    + intro x. rewrite EO. destruct (h_outs st I x) as [H1 H2]. split; [assumption|].
      eapply Forall_impl; [|exact H2]. cbn. intros; lia.
  - (* a transition *)
    pose proof (h_now st I) as Hnow.
    assert (Hout : forall x, List.map fst (i_outs (istep st l) x) = c_out (r_cs (i_s (istep st l)) x) /\
                   Forall (fun mr : smsg * Z => 0 <= snd mr < i_now (istep st l)) (i_outs (istep st l) x)).
    { intro x. rewrite istep_now, istep_s. destruct (h_outs st I x) as [H1 H2].
      destruct (istep_outs_trans st l x T) as [[E1 E2]|(m & E1 & E2 & _)]; rewrite E1, E2.
      - split; [assumption|]. eapply Forall_impl; [|exact H2]. cbn. intros; lia.
      - rewrite map_app, H1. split; [reflexivity|]. apply Forall_app. split.
        + eapply Forall_impl; [|exact H2]. cbn. intros; lia.
        + constructor; [cbn; lia | constructor]. }
    pose proof (trans_actor _ _ _ T) as A.
    pose proof (istep_hops_trans st l T) as EH.
    assert (Time_old : forall h, In h (i_hops st) ->
              0 <= h_b h < i_now st + 1 /\ (forall d, h_d h = Some d -> h_b h < d < i_now st + 1)).
    { intros h Hin. destruct (h_time st I h Hin) as [H1 H2]. split; [lia|]. intros d Hd. specialize (H2 d Hd). lia. }
    assert (Same : i_hops (istep st l) = i_hops st ->
                   (forall x, c_pc (r_cs (step (i_s st) l) x) = [] <-> c_pc (r_cs (i_s st) x) = []) ->
                   (forall x, c_ops (r_cs (step (i_s st) l) x) = c_ops (r_cs (i_s st) x)) ->
                   HInv (istep st l)).
    { intros EH' Hidle Hops. constructor; rewrite ?istep_now, ?istep_s, ?EH'; try assumption; try lia.
      - apply I.
      - intro x. rewrite Hops. apply I.
      - intros h Hin Hd Hc. destruct (h_open st I h Hin Hd Hc) as [H1 H2]. split; [|assumption].
        intro X. apply H1. now apply Hidle.
      - intros x Hx. apply (h_busy st I x). intro X. apply Hx. now apply Hidle. }
    assert (Ops_noop : (forall c o, l <> LOp c o) -> forall x, c_ops (r_cs (step (i_s st) l) x) = c_ops (r_cs (i_s st) x)).
    { intros Hno x. destruct (trans_ops _ _ _ x T) as [[E _]|(o & El & _)]; [assumption | exfalso; eapply Hno; eassumption]. }
    destruct l as [c o|c|c c' ord|c|c].
    + (* an operation is accepted *)
      destruct A as [Apc Ad].
      assert (Acc : accepted (i_s st) c = true) by (unfold accepted; now rewrite Apc, Ad).
      assert (Pc_other : forall x, x <> c -> c_pc (r_cs (step (i_s st) (LOp c o)) x) = c_pc (r_cs (i_s st) x)).
      { intros x N. apply (trans_pc_other _ _ _ _ T). cbn. now apply Nat.eqb_neq. }
      assert (Pc_c : c_pc (r_cs (step (i_s st) (LOp c o)) c) = program (i_s st) c o).
      { destruct (trans_ops _ _ _ c T) as [[E _]|(o' & El & _ & _ & Ep)].
        - exfalso. rewrite (accepted_step _ _ o Acc) in E. apply (f_equal (@length op)) in E. rewrite app_length in E. cbn in E. lia.
        - inversion El; subst o'. exact Ep. }
      constructor; rewrite ?istep_now, ?istep_s, ?EH; try assumption; try lia.
      * intros h Hin. apply in_app_iff in Hin as [Hin|[<-|[]]]; [now apply Time_old|].
        cbn. split; [lia | discriminate].
      * apply SSorted_snoc_gen; [apply I|]. apply Forall_forall. intros h Hin. cbn.
        destruct (h_time st I h Hin). lia.
      * intro x. rewrite xops_app, map_app, (h_ops st I x). unfold xops at 1. cbn [filter h_c].
        destruct (Nat.eqb c x) eqn:Ec.
        -- apply Nat.eqb_eq in Ec. subst x. rewrite (accepted_step _ _ o Acc). reflexivity.
        -- cbn [List.map]. rewrite app_nil_r. apply Nat.eqb_neq in Ec.
           destruct (trans_ops _ _ _ x T) as [[E _]|(o' & El & _)]; [now rewrite E | inversion El; congruence].
      * intros h Hin Hd Hc. apply in_app_iff in Hin as [Hin|[<-|[]]].
        -- destruct (h_open st I h Hin Hd Hc) as [H1 H2].
           assert (N : h_c h <> c) by (intro X; rewrite X in H1; contradiction).
           rewrite (Pc_other _ N). split; [assumption|].
           intros h' Hin' Ec'. apply in_app_iff in Hin' as [Hin'|[<-|[]]]; [now apply H2|]. cbn in Ec'. congruence.
        -- cbn [h_c h_b]. rewrite Pc_c. split; [now apply program_nonnil|].
           intros h' Hin' _. apply in_app_iff in Hin' as [Hin'|[<-|[]]]; [|cbn; lia].
           destruct (h_time st I h' Hin'). lia.
      * intros x Hx. destruct (Nat.eq_dec x c) as [->|N].
        -- exists (mkHop c o (i_now st) None). split; [apply in_or_app; right; now left|]. repeat split.
           intros h' Hin' _. apply in_app_iff in Hin' as [Hin'|[<-|[]]]; [|cbn; lia].
           destruct (h_time st I h' Hin'). cbn. lia.
        -- rewrite (Pc_other _ N) in Hx. destruct (h_busy st I x Hx) as (h & Hin & Ec & Hd & Hl).
           exists h. split; [apply in_or_app; now left|]. repeat split; auto.
           intros h' Hin' Ec'. apply in_app_iff in Hin' as [Hin'|[<-|[]]]; [now apply Hl|]. cbn in Ec'. congruence.
    + (* a step of c's goroutine *)
      assert (Hno : forall c0 o, LRun c <> LOp c0 o) by discriminate.
      assert (Pc_other : forall x, x <> c -> c_pc (r_cs (step (i_s st) (LRun c)) x) = c_pc (r_cs (i_s st) x)).
      { intros x N. apply (trans_pc_other _ _ _ _ T). cbn. now apply Nat.eqb_neq. }
      destruct (is_nil (c_pc (r_cs (step (i_s st) (LRun c)) c))) eqn:En.
      * (* its program ends *)
        apply is_nil_true in En.
        constructor; rewrite ?istep_now, ?istep_s, ?EH; try assumption; try lia.
        -- intros h' Hin. apply in_map_iff in Hin as [h [<- Hin]]. rewrite close1_b.
           destruct (Time_old h Hin) as [H1 H2]. split; [assumption|].
           destruct (close1_d c (i_now st) h) as [Ed|(_ & Ed & _)]; rewrite Ed; [assumption|].
           intros d Hd. inversion Hd; subst d. destruct (h_time st I h Hin). lia.
        -- apply SSorted_map_gen; [|apply I]. intros a b. now rewrite !close1_b.
        -- intro x. rewrite xops_close, map_map. rewrite (Ops_noop Hno x), <- (h_ops st I x).
           apply map_ext. intro a. apply close1_o.
        -- intros h' Hin Hd Hc. apply in_map_iff in Hin as [h [<- Hin]].
           rewrite close1_o in Hc. rewrite close1_c.
           assert (Hd0 : h_d h = None).
           { destruct (close1_d c (i_now st) h) as [Ed|(Ed & Ed' & _)]; [now rewrite <- Ed | assumption]. }
           assert (N : h_c h <> c).
           { intro X. rewrite (close1_open c _ h X Hd0 Hc) in Hd. discriminate. }
           destruct (h_open st I h Hin Hd0 Hc) as [H1 H2]. rewrite (Pc_other _ N). split; [assumption|].
           intros h2' Hin2 Ec2. apply in_map_iff in Hin2 as [h2 [<- Hin2]].
           rewrite close1_c in Ec2. rewrite !close1_b. now apply H2.
        -- intros x Hx. assert (N : x <> c) by (intro; subst; contradiction).
           rewrite (Pc_other _ N) in Hx. destruct (h_busy st I x Hx) as (h & Hin & Ec & Hd & Hl).
           exists h. split; [|repeat split; auto].
           ++ apply in_map_iff. exists h. split; [apply close1_other; congruence | assumption].
           ++ intros h2' Hin2 Ec2. apply in_map_iff in Hin2 as [h2 [<- Hin2]].
              rewrite close1_c in Ec2. rewrite close1_b. now apply Hl.
      * apply is_nil_false in En. apply Same; [assumption | | now apply Ops_noop].
        apply (trans_idle_iff _ _ _ T Hno). intros c0 E0. now inversion E0; subst.
    + apply Same; [assumption | | apply Ops_noop; discriminate].
      apply (trans_idle_iff _ _ _ T); discriminate.
    + apply Same; [assumption | | apply Ops_noop; discriminate].
      apply (trans_idle_iff _ _ _ T); discriminate.
    + apply Same; [assumption | | apply Ops_noop; discriminate].
      apply (trans_idle_iff _ _ _ T); discriminate.
Qed.

Theorem HInv_irun st tr : HInv st -> HInv (irun st tr).
Proof.
  revert st. induction tr as [|l tr IH]; intros st I; [assumption|]. rewrite irun_cons. apply IH. now apply HInv_step.
Qed.
