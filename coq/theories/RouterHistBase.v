(* RouterHistBase.v — C07: basic facts about the instrumented run of
   RouterHist.v: how the list of operations and the stamped outputs evolve
   in one step, and the bookkeeping invariant that ties them to the model's
   state. *)
From Moc Require Import Base Match Router RouterSpec RouterHist RouterLemmas RouterFrame RouterTrans RouterData
  RouterMust RouterEnv RouterInv RouterDataInv.
From Coq Require Import Sorted.
Open Scope Z_scope.

(* ------------------------------------------------------------------ *)
(** * close1 / close_hop *)

Lemma close1_c d c k h : h_c (close1 d c k h) = h_c h.
Proof. unfold close1. destruct (_ && _ && _ && _); reflexivity. Qed.
Lemma close1_o d c k h : h_o (close1 d c k h) = h_o h.
Proof. unfold close1. destruct (_ && _ && _ && _); reflexivity. Qed.
Lemma close1_b d c k h : h_b (close1 d c k h) = h_b h.
Proof. unfold close1. destruct (_ && _ && _ && _); reflexivity. Qed.

Lemma close1_d d c k h :
  h_d (close1 d c k h) = h_d h \/
  (h_d h = None /\ h_d (close1 d c k h) = Some k /\ h_c h = c /\ is_close (h_o h) = false /\ is_disc (h_o h) = d).
Proof.
  unfold close1. destruct (Nat.eqb (h_c h) c) eqn:E1; [|now left].
  destruct (h_d h) eqn:E2; [now left|]. destruct (is_close (h_o h)) eqn:E3; [now left|].
  destruct (Bool.eqb (is_disc (h_o h)) d) eqn:E4; [|now left].
  right. apply Nat.eqb_eq in E1. apply Bool.eqb_prop in E4. cbn. auto.
Qed.

Lemma close1_other d c k h : h_c h <> c -> close1 d c k h = h.
Proof. intro N. unfold close1. apply Nat.eqb_neq in N. now rewrite N. Qed.

Lemma close1_some d c k h dd : h_d h = Some dd -> close1 d c k h = h.
Proof. intro E. unfold close1. rewrite E. cbn. now rewrite andb_false_r. Qed.

Lemma close1_open d c k h :
  h_c h = c -> h_d h = None -> is_close (h_o h) = false -> is_disc (h_o h) = d -> h_d (close1 d c k h) = Some k.
Proof. intros E1 E2 E3 E4. unfold close1. rewrite E1, E2, E3, E4, Nat.eqb_refl, Bool.eqb_reflx. reflexivity. Qed.

Lemma close1_isclose d c k h : is_close (h_o h) = true -> close1 d c k h = h.
Proof. intro E. unfold close1. rewrite E. cbn. now rewrite andb_false_r. Qed.

Lemma close1_kind d c k h : is_disc (h_o h) = negb d -> close1 d c k h = h.
Proof. intro E. unfold close1. rewrite E. destruct d; cbn; now rewrite andb_false_r. Qed.

(** two hops are the same operation (possibly seen at different times) *)
Definition same_op (h h' : hop) : Prop := h_c h' = h_c h /\ h_o h' = h_o h /\ h_b h' = h_b h.

Lemma same_op_refl h : same_op h h.
Proof. repeat split. Qed.

Lemma same_op_close1 d c k h : same_op h (close1 d c k h).
Proof. unfold same_op. now rewrite close1_c, close1_o, close1_b. Qed.

Lemma same_op_trans a b c : same_op a b -> same_op b c -> same_op a c.
Proof. unfold same_op. intros (A1 & A2 & A3) (B1 & B2 & B3). repeat split; congruence. Qed.

(* ------------------------------------------------------------------ *)
(** * How the list of operations changes in one step *)

Inductive hchange (now : Z) (H H' : list hop) : Prop :=
| HC_same : H' = H -> hchange now H H'
| HC_open c o : H' = H ++ [mkHop c o now None] -> hchange now H H'
| HC_close d c : H' = close_hop d c now H -> hchange now H H'.

(** the end stamp of an operation is set once, to the current time *)
Definition d_evolves (now : Z) (h h' : hop) : Prop :=
  h_d h' = h_d h \/ (h_d h = None /\ h_d h' = Some now /\ is_close (h_o h) = false).

Lemma hchange_fwd now H H' h :
  hchange now H H' -> In h H -> exists h', In h' H' /\ same_op h h' /\ d_evolves now h h'.
Proof.
  intros [->| c o ->| d c ->] Hin.
  - exists h. repeat split; auto. now left.
  - exists h. split; [apply in_or_app; now left|]. split; [apply same_op_refl | now left].
  - exists (close1 d c now h). split; [now apply in_map|]. split; [apply same_op_close1|].
    destruct (close1_d d c now h) as [E|(E1 & E2 & _ & E4 & _)]; [now left | right; auto].
Qed.

Lemma hchange_bwd now H H' h' :
  hchange now H H' -> In h' H' ->
  (exists h, In h H /\ same_op h h' /\ d_evolves now h h') \/
  (exists c o, h' = mkHop c o now None /\ H' = H ++ [h']).
Proof.
  intros [->| c o ->| d c ->] Hin.
  - left. exists h'. repeat split; auto. now left.
  - apply in_app_iff in Hin as [Hin|[<-|[]]].
    + left. exists h'. repeat split; auto. now left.
    + right. eauto.
  - apply in_map_iff in Hin as [h [<- Hin]]. left. exists h. split; [assumption|]. split; [apply same_op_close1|].
    destruct (close1_d d c now h) as [E|(E1 & E2 & _ & E4 & _)]; [now left | right; auto].
Qed.

(* ------------------------------------------------------------------ *)
(** * Publications of one connection, in order *)

Definition is_pub_op (o : op) : bool := match o with OEvent _ => true | _ => false end.

Definition pubs_of (p : conn) (H : list hop) : list hop :=
  filter (fun h => Nat.eqb (h_c h) p && is_pub_op (h_o h)) H.

(** hop [P] is publication number [n] of connection [p] *)
Definition pub_nth (H : list hop) (p : conn) (n : nat) (P : hop) : Prop := nth_error (pubs_of p H) n = Some P.

Lemma filter_map_commute {A} (f : A -> bool) (g : A -> A) l :
  (forall a, f (g a) = f a) -> filter f (List.map g l) = List.map g (filter f l).
Proof.
  intro Hfg. induction l as [|a l IH]; cbn; [reflexivity|]. rewrite Hfg. destruct (f a); cbn; now rewrite IH.
Qed.

Lemma pubs_of_close p d c k H : pubs_of p (close_hop d c k H) = List.map (close1 d c k) (pubs_of p H).
Proof. apply filter_map_commute. intro a. now rewrite close1_c, close1_o. Qed.

Lemma pubs_of_app p H1 H2 : pubs_of p (H1 ++ H2) = pubs_of p H1 ++ pubs_of p H2.
Proof. apply filter_app. Qed.

Lemma pub_nth_In H p n P : pub_nth H p n P -> In P H /\ h_c P = p /\ is_pub_op (h_o P) = true.
Proof.
  intro E. apply nth_error_In in E. apply filter_In in E as [E1 E2]. apply andb_true_iff in E2 as [E2 E3].
  apply Nat.eqb_eq in E2. auto.
Qed.

Lemma pub_nth_hchange now H H' p n P :
  hchange now H H' -> pub_nth H p n P -> exists P', pub_nth H' p n P' /\ same_op P P' /\ d_evolves now P P'.
Proof.
  intros [->| c o ->| d c ->] E; unfold pub_nth in *.
  - exists P. repeat split; auto. now left.
  - exists P. split; [|split; [apply same_op_refl | now left]].
    rewrite pubs_of_app, nth_error_app1; [assumption|]. apply nth_error_Some. congruence.
  - exists (close1 d c now P). split; [|split; [apply same_op_close1|]].
    + rewrite pubs_of_close. now apply map_nth_error.
    + destruct (close1_d d c now P) as [E1|(E1 & E2 & _ & E4 & _)]; [now left | right; auto].
Qed.

Lemma pub_nth_hchange_bwd now H H' p n P' :
  hchange now H H' -> pub_nth H' p n P' ->
  (exists P, pub_nth H p n P /\ same_op P P' /\ d_evolves now P P') \/
  (n = length (pubs_of p H) /\ exists e, P' = mkHop p (OEvent e) now None /\ H' = H ++ [P']).
Proof.
  intros [->| c o ->| d c ->] E; unfold pub_nth in *.
  - left. exists P'. repeat split; auto. now left.
  - rewrite pubs_of_app in E. destruct (Nat.lt_ge_cases n (length (pubs_of p H))) as [L|G].
    + rewrite nth_error_app1 in E by assumption. left. exists P'. split; [assumption|]. split; [apply same_op_refl | now left].
    + rewrite nth_error_app2 in E by assumption. right.
      assert (E0 : pubs_of p [mkHop c o now None] = if Nat.eqb c p && is_pub_op o then [mkHop c o now None] else []) by reflexivity.
      rewrite E0 in E. clear E0.
      destruct (Nat.eqb c p && is_pub_op o) eqn:B; [|destruct (n - length (pubs_of p H))%nat; cbn in E; discriminate E].
      apply andb_true_iff in B as [B1 B2]. apply Nat.eqb_eq in B1. subst c.
      destruct o; try discriminate.
      destruct (n - length (pubs_of p H))%nat as [|m] eqn:Em; [|destruct m; cbn in E; discriminate].
      cbn in E. inversion E; subst P'. split; [lia|]. eauto.
  - rewrite pubs_of_close, nth_error_map in E.
    destruct (nth_error (pubs_of p H) n) as [P|] eqn:E1; [|discriminate]. cbn in E. inversion E as [E2]. left. exists P. split; [reflexivity|]. split; [apply same_op_close1|].
    destruct (close1_d d c now P) as [E9|(E3 & E4 & _ & E5 & _)]; [now left | right; auto].
Qed.

(* ------------------------------------------------------------------ *)
(** * effect_known as a function of the list of operations *)

Definition effk (H : list hop) (k : hop) : option Z := effect_known (mkHist 0 H [] []) k.

Lemma effect_known_effk h k : effect_known h k = effk (hi_ops h) k.
Proof. destruct h. reflexivity. Qed.

Definition xops (x : conn) (H : list hop) : list hop := filter (fun o => Nat.eqb (h_c o) x) H.

Lemma ops_of_xops h x : ops_of h x = xops x (hi_ops h).
Proof. reflexivity. Qed.

Lemma effk_unfold H k :
  effk H k = match h_o k with OClose _ => first_end_after (xops (h_c k) H) (h_b k) | _ => h_d k end.
Proof. reflexivity. Qed.

Lemma xops_app x H1 H2 : xops x (H1 ++ H2) = xops x H1 ++ xops x H2.
Proof. apply filter_app. Qed.

Lemma xops_close x d c k H : xops x (close_hop d c k H) = List.map (close1 d c k) (xops x H).
Proof. apply filter_map_commute. intro a. now rewrite close1_c. Qed.

Lemma xops_In x H h : In h (xops x H) <-> In h H /\ h_c h = x.
Proof. unfold xops. rewrite filter_In, Nat.eqb_eq. tauto. Qed.

Lemma fea_snoc_none l b h : h_d h = None -> first_end_after (l ++ [h]) b = first_end_after l b.
Proof.
  intro E. unfold first_end_after. rewrite fold_right_app. cbn. rewrite E. now destruct (b <? h_b h).
Qed.

Lemma fea_close l b dd c k d :
  first_end_after (List.map (close1 dd c k) l) b = Some d -> first_end_after l b = Some d \/ d = k.
Proof.
  induction l as [|a l IH]; cbn; [discriminate|]. rewrite close1_b.
  destruct (b <? h_b a); [|exact IH].
  destruct (close1_d dd c k a) as [E|(E1 & E2 & _)].
  - rewrite E. destruct (h_d a); [auto | exact IH].
  - rewrite E2, E1. intro X. inversion X. now right.
Qed.

Lemma fea_none_last l b : (forall o, In o l -> h_b o <= b) -> first_end_after l b = None.
Proof.
  induction l as [|a l IH]; intro Hl; cbn; [reflexivity|].
  assert (E : b <? h_b a = false) by (apply Z.ltb_ge, Hl; now left). rewrite E.
  apply IH. intros o Ho. apply Hl. now right.
Qed.

Lemma fea_some l b d : first_end_after l b = Some d -> exists o, In o l /\ b < h_b o /\ h_d o = Some d.
Proof.
  induction l as [|a l IH]; cbn; [discriminate|].
  destruct (b <? h_b a) eqn:E.
  - destruct (h_d a) as [d0|] eqn:Ed.
    + intro X. inversion X; subst d0. exists a. apply Z.ltb_lt in E. auto.
    + intro X. destruct (IH X) as (o & Ho & H1 & H2). exists o. auto.
  - intro X. destruct (IH X) as (o & Ho & H1 & H2). exists o. auto.
Qed.

Lemma effk_same_op H k k' : same_op k k' -> h_d k' = h_d k -> effk H k' = effk H k.
Proof. intros (E1 & E2 & E3) E4. rewrite !effk_unfold, E1, E2, E3, E4. reflexivity. Qed.

(** an end stamp that becomes known during a step is the current time *)
Lemma effk_hchange now H H' k k' d :
  hchange now H H' -> same_op k k' -> d_evolves now k k' ->
  effk H' k' = Some d -> effk H k = Some d \/ d = now.
Proof.
  intros HC (E1 & E2 & E3) Ev. rewrite !effk_unfold, E1, E2, E3.
  destruct (h_o k) eqn:Eo;
    try (destruct Ev as [Ev|(Ev1 & Ev2 & _)]; [rewrite Ev; auto | rewrite Ev2; intro X; inversion X; auto]).
  destruct HC as [->| c o ->| dd c ->].
  - auto.
  - rewrite xops_app. unfold xops at 2. cbn [filter h_c].
    destruct (Nat.eqb c (h_c k)); [|rewrite app_nil_r; auto].
    rewrite fea_snoc_none by reflexivity. auto.
  - rewrite xops_close. apply fea_close.
Qed.

Lemma effk_last_none H k :
  (forall h', In h' H -> h_c h' = h_c k -> h_b h' <= h_b k) -> h_d k = None -> effk H k = None.
Proof.
  intros Hl Hd. rewrite effk_unfold. destruct (h_o k); try assumption.
  apply fea_none_last. intros o Ho. apply xops_In in Ho as [Ho1 Ho2]. now apply Hl.
Qed.



(* ------------------------------------------------------------------ *)
(** * Views of a transition *)

Ltac upd_x x :=
  match goal with |- context [upd ?f ?k ?v x] => destruct (upd_cases f k v x) as [[-> ->]|[_ ->]] end.

Lemma trans_actor s l s' :
  trans s l s' ->
  match l with
  | LOp c o => c_dead (r_cs s c) = false /\ ~ In c (r_cancel s) /\ (c_pc (r_cs s c) = [] \/ (o = ODisc /\ c_pc (r_cs s c) <> []))
  | LRun c => c_pc (r_cs s c) <> [] \/ In c (r_cancel s)
  | LVisit c _ _ => c_pc (r_cs s c) <> []
  | LSkip c => c_pc (r_cs s c) <> [] /\ In c (r_cancel s)
  | _ => True
  end.
Proof.
  intro T. inversion T; subst; cbn; auto; try (left; congruence); try exact Logic.I.
  - destruct H1 as [->|[-> _]]; [congruence | left; congruence].
  - split; [congruence | assumption].
Qed.

Lemma od_upd_pc f c pc x :
  c_ops (upd f c (set_pc (f c) pc) x) = c_ops (f x) /\ c_dead (upd f c (set_pc (f c) pc) x) = c_dead (f x).
Proof. destruct (upd_cases f c (set_pc (f c) pc) x) as [[-> ->]|[_ ->]]; split; reflexivity. Qed.

(** accepted operations and the session's liveness change only when an
    operation is accepted by an idle recv loop, or when a cancelled session's
    loop returns (which is the disconnect of an idle connection) *)
Lemma trans_ops s l s' x :
  trans s l s' ->
  (c_ops (r_cs s' x) = c_ops (r_cs s x) /\ c_dead (r_cs s' x) = c_dead (r_cs s x)) \/
  (exists o, (l = LOp x o \/ (l = LRun x /\ o = ODisc /\ In x (r_cancel s))) /\
             c_pc (r_cs s x) = [] /\
             c_ops (r_cs s' x) = c_ops (r_cs s x) ++ [o] /\ c_dead (r_cs s' x) = is_disc o /\
             c_pc (r_cs s' x) = program s x o).
Proof.
  intro T. inversion T; subst; cbn [r_cs with_cs].
  - destruct (Nat.eq_dec x c) as [->|N].
    + right. exists o. rewrite upd_same. cbn. auto 6.
    + left. rewrite upd_other by auto. auto.
  - left. apply od_upd_pc.
  - left. apply od_upd_pc.
  - left. apply od_upd_pc.
  - left. apply od_upd_pc.
  - left. apply od_upd_pc.
  - left. upd_x x; split; reflexivity.
  - left. upd_x x; split; reflexivity.
  - left. apply od_upd_pc.
  - left. unfold start_visit. cbn [r_cs with_cs].
    rewrite (ops_upd2 _ _ _ _ (fun st => set_rd st (c :: c_rd st))) by (intro; reflexivity).
    rewrite (dead_upd2 _ _ _ _ (fun st => set_rd st (c :: c_rd st))) by (intro; reflexivity). apply od_upd_pc.
  - left.
    rewrite (ops_upd2 _ _ _ _ (fun st => set_rd st (remove_conn c (c_rd st)))) by (intro; reflexivity).
    rewrite (dead_upd2 _ _ _ _ (fun st => set_rd st (remove_conn c (c_rd st)))) by (intro; reflexivity). apply od_upd_pc.
  - left.
    rewrite (ops_upd2 _ _ _ _ (send_if_match (r_buf s) e t sub fs)) by (intro; apply ctl_send_if_match).
    rewrite (dead_upd2 _ _ _ _ (send_if_match (r_buf s) e t sub fs)) by (intro; apply ctl_send_if_match). apply od_upd_pc.
  - left. upd_x x; split; reflexivity.
  - left. upd_x x; split; reflexivity.
  - left. upd_x x; split; reflexivity.
  - left. auto.
  - left. apply od_upd_pc.
  - destruct (Nat.eq_dec x c) as [->|N].
    + right. exists ODisc. rewrite upd_same. cbn. auto 8.
    + left. rewrite upd_other by auto. auto.
Qed.

(** the list of cancelled sessions *)
Lemma trans_cancel s l s' :
  trans s l s' ->
  r_cancel s' = r_cancel s \/
  (exists c, l = LOp c ODisc /\ c_pc (r_cs s c) <> [] /\ r_cancel s' = c :: r_cancel s /\ r_cs s' = r_cs s /\ r_reg s' = r_reg s) \/
  (exists c, l = LRun c /\ c_pc (r_cs s c) = [] /\ In c (r_cancel s) /\ r_cancel s' = remove_conn c (r_cancel s)).
Proof.
  intro T. inversion T; subst; cbn [r_cancel with_cs start_visit]; auto.
  - right; left. exists c. auto.
  - right; right. exists c. auto.
Qed.

(** the output of a connection grows by at most one message per step: a
    reply of its own goroutine or a live event from its forwarder *)
Lemma trans_out s l s' x :
  trans s l s' ->
  c_out (r_cs s' x) = c_out (r_cs s x) \/
  (exists m, c_out (r_cs s' x) = c_out (r_cs s x) ++ [m] /\
             ((l = LRun x /\ is_event_msg m = false) \/ (l = LDeliver x /\ c_hand (r_cs s x) = Some m))).
Proof.
  intro T. destruct (dat_trans s l s' x T)
    as [E|m Hl Hm Ho Hq Hh Hdr|c e t sub fs todo rest Hl Hpc E|rest Hl Hpc Hq' Hh' Ho Hdr|m q' Hl Hh Hq Hq' Hh' Ho Hdr|m Hl Hh Hq Hh' Ho Hdr].
  - left. apply dat_eq in E. tauto.
  - right. exists m. auto.
  - left. apply dat_eq in E as (_ & _ & E3 & _). now rewrite E3, send_if_match_out.
  - now left.
  - now left.
  - right. exists m. auto.
Qed.

(* ------------------------------------------------------------------ *)
(** * One instrumented step *)

Lemma istep_s st l : i_s (istep st l) = step (i_s st) l.
Proof. reflexivity. Qed.

Lemma istep_now st l : i_now (istep st l) = i_now st + 1.
Proof. reflexivity. Qed.

Lemma irun_cons st l tr : irun st (l :: tr) = irun (istep st l) tr.
Proof. reflexivity. Qed.

Lemma irun_app st tr1 tr2 : irun st (tr1 ++ tr2) = irun (irun st tr1) tr2.
Proof. unfold irun. apply fold_left_app. Qed.

Lemma irun_s st tr : i_s (irun st tr) = run (i_s st) tr.
Proof.
  revert st. induction tr as [|l tr IH]; intro st; [reflexivity|]. rewrite irun_cons, IH, istep_s. reflexivity.
Qed.

Lemma is_nil_true {A} (l : list A) : is_nil l = true <-> l = [].
Proof. destruct l; cbn; split; congruence. Qed.

Lemma is_nil_false {A} (l : list A) : is_nil l = false <-> l <> [].
Proof. destruct l; cbn; split; congruence. Qed.

Lemma accepted_true s c :
  accepted s c = true <-> c_pc (r_cs s c) = [] /\ c_dead (r_cs s c) = false /\ ~ In c (r_cancel s).
Proof.
  unfold accepted. rewrite !andb_true_iff, is_nil_true, !negb_true_iff, mem_conn_false. tauto.
Qed.

(** a label that is taken changes the state *)
Lemma op_taken_step s c o : op_taken s c o = true -> step s (LOp c o) <> s.
Proof.
  unfold op_taken. intro A. apply andb_true_iff in A as [A A3]. apply andb_true_iff in A as [A1 A2].
  apply negb_true_iff in A1, A2. unfold step. cbn [enabled step_enabled]. rewrite A1, A2. cbn [orb negb andb].
  destruct (c_pc (r_cs s c)) eqn:Hpc.
  - intro E. apply (f_equal (fun s0 => length (c_ops (r_cs s0 c)))) in E. cbn [r_cs with_cs] in E.
    rewrite upd_same in E. cbn in E. rewrite app_length in E. cbn in E. lia.
  - cbn in A3. rewrite A3. cbn. intro E. apply (f_equal (fun s0 => length (r_cancel s0))) in E. cbn in E. lia.
Qed.

Lemma istep_outs st l x :
  i_outs (istep st l) x =
  i_outs st x ++ List.map (fun m => (m, i_now st))
                   (skipn (length (c_out (r_cs (i_s st) x))) (c_out (r_cs (step (i_s st) l) x))).
Proof. reflexivity. Qed.

Lemma skipn_app_exact {A} (l r : list A) : skipn (length l) (l ++ r) = r.
Proof. induction l; cbn; auto. Qed.

Lemma istep_stutter st l :
  step (i_s st) l = i_s st ->
  i_hops (istep st l) = i_hops st /\ (forall x, i_outs (istep st l) x = i_outs st x).
Proof.
  intro E. split.
  - unfold istep. cbn [i_hops]. rewrite E. destruct l as [c o|c|c c' ord|c|c|c]; try reflexivity.
    + destruct (op_taken (i_s st) c o) eqn:A; [|reflexivity].
      exfalso. now apply (op_taken_step _ _ _ A).
    + destruct (c_pc (r_cs (i_s st) c)); reflexivity.
  - intro x. rewrite istep_outs, E, skipn_all. cbn. apply app_nil_r.
Qed.

Lemma istep_hops_trans st l :
  trans (i_s st) l (step (i_s st) l) ->
  i_hops (istep st l) =
  match l with
  | LOp c o => i_hops st ++ [mkHop c o (i_now st) None]
  | LRun c =>
      if negb (is_nil (c_pc (r_cs (i_s st) c))) && is_nil (c_pc (r_cs (step (i_s st) l) c))
      then close_hop (is_unsub_head (c_pc (r_cs (i_s st) c))) c (i_now st) (i_hops st) else i_hops st
  | _ => i_hops st
  end.
Proof.
  intro T. pose proof (trans_actor _ _ _ T) as A. unfold istep. cbn [i_hops].
  destruct l as [c o|c|c c' ord|c|c|c]; try reflexivity.
  destruct A as (A1 & A2 & A3). unfold op_taken. apply mem_conn_false in A2. rewrite A1, A2. cbn [negb andb].
  destruct A3 as [->|[-> _]]; [reflexivity | cbn; now rewrite orb_true_r].
Qed.

Lemma istep_hchange st l : hchange (i_now st) (i_hops st) (i_hops (istep st l)).
Proof.
  destruct (step_trans (i_s st) l) as [E|T].
  - apply HC_same. now apply istep_stutter.
  - rewrite (istep_hops_trans st l T). destruct l as [c o|c|c c' ord|c|c|c]; try (now apply HC_same).
    + now apply (HC_open _ _ _ c o).
    + destruct (_ && _); [now eapply HC_close | now apply HC_same].
Qed.

Lemma istep_outs_trans st l x :
  trans (i_s st) l (step (i_s st) l) ->
  (i_outs (istep st l) x = i_outs st x /\ c_out (r_cs (step (i_s st) l) x) = c_out (r_cs (i_s st) x)) \/
  (exists m, i_outs (istep st l) x = i_outs st x ++ [(m, i_now st)] /\
             c_out (r_cs (step (i_s st) l) x) = c_out (r_cs (i_s st) x) ++ [m] /\
             ((l = LRun x /\ is_event_msg m = false) \/ (l = LDeliver x /\ c_hand (r_cs (i_s st) x) = Some m))).
Proof.
  intro T. rewrite istep_outs. destruct (trans_out _ _ _ x T) as [E|(m & E & Hm)]; rewrite E.
  - left. rewrite skipn_all. cbn. split; [apply app_nil_r | reflexivity].
  - right. exists m. rewrite skipn_app_exact. cbn. auto.
Qed.

(* ------------------------------------------------------------------ *)
(** * The bookkeeping invariant *)

(** a session whose context was cancelled in flight: the client's disconnect
    is an operation of the history, but the recv loop has not taken it yet *)
Definition cancel_tail (s : rstate) (x : conn) : list op := if mem_conn x (r_cancel s) then [ODisc] else [].

Record HInv (st : istate) : Prop := mkHInv {
  h_now : 0 <= i_now st;
  h_time : forall h, In h (i_hops st) ->
             0 <= h_b h < i_now st /\ (forall d, h_d h = Some d -> h_b h < d < i_now st);
  h_sorted : StronglySorted (fun a b => h_b a < h_b b) (i_hops st);
  h_ops : forall x, List.map h_o (xops x (i_hops st)) = c_ops (r_cs (i_s st) x) ++ cancel_tail (i_s st) x;
  (* an operation other than CLOSE / disconnect without end stamp is the last such operation of its
     connection; the connection is busy, or its context was cancelled while the operation was in flight *)
  h_open : forall h, In h (i_hops st) -> h_d h = None -> is_close (h_o h) = false -> is_disc (h_o h) = false ->
             (forall h', In h' (i_hops st) -> h_c h' = h_c h -> is_disc (h_o h') = false -> h_b h' <= h_b h) /\
             (c_pc (r_cs (i_s st) (h_c h)) <> [] \/ In (h_c h) (r_cancel (i_s st)) \/ c_dead (r_cs (i_s st) (h_c h)) = true);
  (* a disconnect is the last operation of its connection; it ends with the end of the session *)
  h_disc : forall k, In k (i_hops st) -> is_disc (h_o k) = true ->
             (forall h', In h' (i_hops st) -> h_c h' = h_c k -> h_b h' <= h_b k) /\
             (In (h_c k) (r_cancel (i_s st)) \/ c_dead (r_cs (i_s st) (h_c k)) = true) /\
             (h_d k <> None -> c_pc (r_cs (i_s st) (h_c k)) = [] /\ c_dead (r_cs (i_s st) (h_c k)) = true);
  (* the operation a live recv loop is working on has no end stamp *)
  h_busy : forall x, c_pc (r_cs (i_s st) x) <> [] -> c_dead (r_cs (i_s st) x) = false ->
             exists h, In h (i_hops st) /\ h_c h = x /\ is_disc (h_o h) = false /\ h_d h = None /\
                       (forall h', In h' (i_hops st) -> h_c h' = x -> is_disc (h_o h') = false -> h_b h' <= h_b h);
  h_outs : forall x, List.map fst (i_outs st x) = c_out (r_cs (i_s st) x) /\
                     Forall (fun mr : smsg * Z => 0 <= snd mr < i_now st) (i_outs st x)
}.

Lemma HInv_init buf : HInv (i_init buf).
Proof.
  constructor; cbn; intros; try contradiction; try (now constructor); try lia; try reflexivity; try congruence.
Qed.

Lemma SSorted_snoc_gen {A} (R : A -> A -> Prop) l x :
  StronglySorted R l -> Forall (fun a => R a x) l -> StronglySorted R (l ++ [x]).
Proof.
  induction l as [|a l IH]; cbn; intros S F; [repeat constructor|].
  inversion S as [|? ? S1 S2]; subst. inversion F as [|? ? F1 F2]; subst.
  constructor; [now apply IH|]. apply Forall_app. split; [assumption | now constructor].
Qed.

Lemma SSorted_map_gen {A} (R : A -> A -> Prop) (f : A -> A) l :
  (forall a b, R a b -> R (f a) (f b)) -> StronglySorted R l -> StronglySorted R (List.map f l).
Proof.
  intros Hf S. induction S as [|a l S IH F]; cbn; constructor; [assumption|].
  apply Forall_map. eapply Forall_impl; [|exact F]. intros b. apply Hf.
Qed.

Lemma hop_eq_of_b H a b :
  StronglySorted (fun a b => h_b a < h_b b) H -> In a H -> In b H -> h_b a = h_b b -> a = b.
Proof.
  intro S. induction S as [|h l S IH F]; cbn; [contradiction|].
  rewrite Forall_forall in F.
  intros [->|Ha] [->|Hb] E; auto.
  - specialize (F _ Hb). lia.
  - specialize (F _ Ha). lia.
Qed.

Lemma program_nonnil s c o : is_close o = false -> program s c o <> [].
Proof. destruct o; cbn; try discriminate; destruct (reg_get c (r_reg s)); discriminate. Qed.

Lemma trans_visit_pc s c c' ord s' : trans s (LVisit c c' ord) s' -> c_pc (r_cs s' c) <> [].
Proof.
  intro T. inversion T; subst.
  unfold start_visit. cbn [r_cs with_cs].
  rewrite (pc_upd2 _ _ _ _ (fun st => set_rd st (c0 :: c_rd st))) by (intro; reflexivity).
  destruct H1 as [E|[E _]]; [inversion E; subst | discriminate].
  rewrite upd_same. discriminate.
Qed.

Lemma trans_pc_other s l s' x : trans s l s' -> label_of_conn x l = false -> c_pc (r_cs s' x) = c_pc (r_cs s x).
Proof. intros T Hl. now destruct (ctl_fields _ _ (trans_ctl_other s l s' x T Hl)). Qed.

Lemma trans_dead_other s l s' x : trans s l s' -> label_of_conn x l = false -> c_dead (r_cs s' x) = c_dead (r_cs s x).
Proof. intros T Hl. now destruct (ctl_fields _ _ (trans_ctl_other s l s' x T Hl)) as (_ & E & _). Qed.

Lemma mem_conn_remove_other x c r : x <> c -> mem_conn x (remove_conn c r) = mem_conn x r.
Proof.
  intro N. destruct (mem_conn x r) eqn:E.
  - apply mem_conn_In. apply remove_conn_In. split; [assumption | now apply mem_conn_In].
  - apply mem_conn_false. intro X. apply remove_conn_In in X as [_ X]. apply mem_conn_false in E. contradiction.
Qed.

Lemma mem_conn_remove_same c r : mem_conn c (remove_conn c r) = false.
Proof. apply mem_conn_false. intro X. apply remove_conn_In in X as [X _]. now apply X. Qed.

(** the states of a connection in which an operation of it may stay without
    end stamp, resp. in which its disconnect is under way *)
Definition busyish (s : rstate) (x : conn) : Prop :=
  c_pc (r_cs s x) <> [] \/ In x (r_cancel s) \/ c_dead (r_cs s x) = true.
Definition leaving (s : rstate) (x : conn) : Prop := In x (r_cancel s) \/ c_dead (r_cs s x) = true.
Definition gone (s : rstate) (x : conn) : Prop := c_pc (r_cs s x) = [] /\ c_dead (r_cs s x) = true.

(** a step that neither opens nor closes an operation *)
Lemma HInv_same st l :
  HInv st ->
  i_hops (istep st l) = i_hops st ->
  (forall x, c_ops (r_cs (step (i_s st) l) x) ++ cancel_tail (step (i_s st) l) x = c_ops (r_cs (i_s st) x) ++ cancel_tail (i_s st) x) ->
  (forall x, busyish (i_s st) x -> busyish (step (i_s st) l) x) ->
  (forall x, leaving (i_s st) x -> leaving (step (i_s st) l) x) ->
  (forall x, gone (i_s st) x -> gone (step (i_s st) l) x) ->
  (forall x, c_pc (r_cs (step (i_s st) l) x) <> [] -> c_dead (r_cs (step (i_s st) l) x) = false ->
             c_pc (r_cs (i_s st) x) <> [] /\ c_dead (r_cs (i_s st) x) = false) ->
  (forall x, List.map fst (i_outs (istep st l) x) = c_out (r_cs (step (i_s st) l) x) /\
             Forall (fun mr : smsg * Z => 0 <= snd mr < i_now st + 1) (i_outs (istep st l) x)) ->
  HInv (istep st l).
Proof.
  intros I EH Hops Hb Hl Hg Hbusy Hout. pose proof (h_now st I).
  constructor; rewrite ?istep_now, ?istep_s, ?EH; try assumption; try lia.
  - intros h Hin. destruct (h_time st I h Hin) as [H1 H2]. split; [lia|]. intros d Hd. specialize (H2 d Hd). lia.
  - apply I.
  - intro x. rewrite Hops. apply I.
  - intros h Hin Hd Hc Hk. destruct (h_open st I h Hin Hd Hc Hk) as [H1 H2]. split; [assumption|]. now apply Hb.
  - intros k Hin Hk. destruct (h_disc st I k Hin Hk) as (H1 & H2 & H3). split; [assumption|]. split; [now apply Hl|].
    intro Hd. now apply Hg, H3.
  - intros x Hx Hd. destruct (Hbusy x Hx Hd) as [A B]. now apply (h_busy st I x).
Qed.

Theorem HInv_step buf st l : reachable buf (i_s st) -> HInv st -> HInv (istep st l).
Proof.
  intros R I. pose proof (Inv_reachable buf _ R) as IV.
  destruct (step_trans (i_s st) l) as [E|T].
  - (* stutter *)
    destruct (istep_stutter st l E) as [EH EO].
    apply HInv_same; rewrite ?E; auto.
    intro x. rewrite EO. destruct (h_outs st I x) as [H1 H2]. split; [assumption|].
    eapply Forall_impl; [|exact H2]. cbn. intros; lia.
  - (* a transition *)
    pose proof (h_now st I) as Hnow.
    assert (Hout : forall x, List.map fst (i_outs (istep st l) x) = c_out (r_cs (step (i_s st) l) x) /\
                   Forall (fun mr : smsg * Z => 0 <= snd mr < i_now st + 1) (i_outs (istep st l) x)).
    { intro x. destruct (h_outs st I x) as [H1 H2].
      destruct (istep_outs_trans st l x T) as [[E1 E2]|(m & E1 & E2 & _)]; rewrite E1, E2.
      - split; [assumption|]. eapply Forall_impl; [|exact H2]. cbn. intros; lia.
      - rewrite map_app, H1. split; [reflexivity|]. apply Forall_app. split.
        + eapply Forall_impl; [|exact H2]. cbn. intros; lia.
        + constructor; [cbn; lia | constructor]. }
    pose proof (trans_actor _ _ _ T) as A.
    pose proof (istep_hops_trans st l T) as EH.
    set (s := i_s st) in *. set (s' := step s l) in *.
    assert (Time_old : forall h, In h (i_hops st) ->
              0 <= h_b h < i_now st + 1 /\ (forall d, h_d h = Some d -> h_b h < d < i_now st + 1)).
    { intros h Hin. destruct (h_time st I h Hin) as [H1 H2]. split; [lia|]. intros d Hd. specialize (H2 d Hd). lia. }
    (* what happens to a connection that is not the acting goroutine *)
    assert (Other : forall x, label_of_conn x l = false ->
              c_pc (r_cs s' x) = c_pc (r_cs s x) /\ c_dead (r_cs s' x) = c_dead (r_cs s x) /\
              c_ops (r_cs s' x) = c_ops (r_cs s x) /\ (In x (r_cancel s') <-> In x (r_cancel s))).
    { intros x Hl. destruct (ctl_fields _ _ (trans_ctl_other _ _ _ x T Hl)) as (E1 & E2 & E3 & _).
      repeat split; auto.
      - destruct (trans_cancel _ _ _ T) as [E|[(c & El & _ & E & _)|(c & El & _ & _ & E)]]; fold s' in E; rewrite E; auto.
        + intros [<-|X]; [|assumption]. subst l. cbn in Hl. now rewrite Nat.eqb_refl in Hl.
        + intro X. apply remove_conn_In in X. tauto.
      - destruct (trans_cancel _ _ _ T) as [E|[(c & El & _ & E & _)|(c & El & _ & _ & E)]]; fold s' in E; rewrite E; auto.
        + intro X. now right.
        + intro X. apply remove_conn_In. split; [|assumption]. intros ->. subst l. cbn in Hl. now rewrite Nat.eqb_refl in Hl. }
    assert (Tail_other : forall x, label_of_conn x l = false -> cancel_tail s' x = cancel_tail s x).
    { intros x Hl. destruct (Other x Hl) as (_ & _ & _ & E). unfold cancel_tail.
      destruct (mem_conn x (r_cancel s')) eqn:E1, (mem_conn x (r_cancel s)) eqn:E2; try reflexivity.
      - apply mem_conn_In, E in E1. apply mem_conn_false in E2. contradiction.
      - apply mem_conn_In, E in E2. apply mem_conn_false in E1. contradiction. }
    destruct l as [c o|c|c c' ord|c|c|c].
    + (* an operation is accepted, or a busy session's context is cancelled *)
      destruct A as (Ad & Ac & Apc).
      assert (Lo : forall x, x <> c -> label_of_conn x (LOp c o) = false) by (intros x N; cbn; now apply Nat.eqb_neq).
      assert (Tail0 : cancel_tail s c = []) by (unfold cancel_tail; apply mem_conn_false in Ac; now rewrite Ac).
      (* the two ways *)
      assert (Ways : (c_pc (r_cs s c) = [] /\ c_ops (r_cs s' c) = c_ops (r_cs s c) ++ [o] /\ cancel_tail s' c = [] /\
                      c_pc (r_cs s' c) = program s c o /\ c_dead (r_cs s' c) = is_disc o) \/
                     (o = ODisc /\ c_pc (r_cs s c) <> [] /\ c_ops (r_cs s' c) = c_ops (r_cs s c) /\ cancel_tail s' c = [ODisc] /\
                      In c (r_cancel s') /\ c_pc (r_cs s' c) = c_pc (r_cs s c) /\ c_dead (r_cs s' c) = c_dead (r_cs s c))).
      { destruct (trans_cancel _ _ _ T) as [E|[(c1 & El & Hne & E & Ecs & _)|(c1 & El & _)]]; [| |discriminate].
        - left. destruct (trans_ops _ _ _ c T) as [[E1 E2]|(o' & [El|[El _]] & Hpc & E1 & E2 & E3)]; [|inversion El; subst o'|discriminate].
          + exfalso. (* neither accepted nor cancelled: the state would be unchanged in ops and cancel list *)
            destruct Apc as [Apc|[-> Apc]].
            * assert (X : accepted s c = true) by (apply accepted_true; auto).
              assert (Y : op_taken s c o = true).
              { unfold op_taken. apply mem_conn_false in Ac. rewrite Ad, Ac, Apc. reflexivity. }
              unfold s' in E1. unfold step in E1. cbn [enabled step_enabled] in E1. rewrite Apc, Ad in E1.
              apply mem_conn_false in Ac. rewrite Ac in E1. cbn [orb r_cs with_cs] in E1. rewrite upd_same in E1. cbn in E1.
              apply (f_equal (@length op)) in E1. rewrite app_length in E1. cbn in E1. lia.
            * unfold s' in E. unfold step in E. cbn [enabled step_enabled] in E.
              destruct (c_pc (r_cs s c)) eqn:Hpc; [contradiction|]. apply mem_conn_false in Ac. rewrite Ad, Ac in E. cbn in E.
              apply (f_equal (@length conn)) in E. cbn in E. lia.
          + fold s' in E1, E2, E3. repeat split; auto. unfold cancel_tail. fold s' in E. rewrite E. apply mem_conn_false in Ac. now rewrite Ac.
        - inversion El; subst c1 o. right. fold s' in E, Ecs. repeat split; auto.
          + now rewrite Ecs.
          + unfold cancel_tail. rewrite E. cbn. now rewrite Nat.eqb_refl.
          + rewrite E. now left.
          + now rewrite Ecs.
          + now rewrite Ecs. }
      constructor; rewrite ?istep_now, ?istep_s, ?EH; fold s; fold s'; try assumption; try lia.
      * intros h Hin. apply in_app_iff in Hin as [Hin|[<-|[]]]; [now apply Time_old|].
        cbn. split; [lia | discriminate].
      * apply SSorted_snoc_gen; [apply I|]. apply Forall_forall. intros h Hin. cbn.
        destruct (h_time st I h Hin). lia.
      * intro x. rewrite xops_app, map_app, (h_ops st I x). fold s. unfold xops at 1. cbn [filter h_c].
        destruct (Nat.eqb c x) eqn:Ec.
        -- apply Nat.eqb_eq in Ec. subst x. cbn [List.map h_o]. rewrite Tail0, app_nil_r.
           destruct Ways as [(_ & E1 & E2 & _)|(-> & _ & E1 & E2 & _)]; rewrite E1, E2; [now rewrite app_nil_r | reflexivity].
        -- cbn [List.map]. rewrite app_nil_r. apply Nat.eqb_neq in Ec.
           assert (N : x <> c) by congruence. destruct (Other x (Lo x N)) as (_ & _ & E1 & _).
           now rewrite E1, (Tail_other x (Lo x N)).
      * (* open operations *)
        intros h Hin Hd Hc Hk. apply in_app_iff in Hin as [Hin|[<-|[]]].
        -- destruct (h_open st I h Hin Hd Hc Hk) as [H1 H2]. fold s in H2.
           destruct (Nat.eq_dec (h_c h) c) as [Ec|N].
           ++ (* an open operation of c: c was busy, so this is a cancellation *)
              destruct Ways as [(Hpc & _)|(-> & _ & _ & _ & Hin' & _)].
              ** exfalso. rewrite Ec in H2. destruct H2 as [X|[X|X]]; [contradiction | contradiction | congruence].
              ** split; [|rewrite Ec; right; now left].
                 intros h' Hin2 Ec2 Hk2. apply in_app_iff in Hin2 as [Hin2|[<-|[]]]; [now apply H1 | discriminate].
           ++ destruct (Other _ (Lo _ N)) as (E1 & E2 & _ & E4). split.
              ** intros h' Hin2 Ec2 Hk2. apply in_app_iff in Hin2 as [Hin2|[<-|[]]]; [now apply H1|]. cbn in Ec2. congruence.
              ** rewrite E1, E2. destruct H2 as [X|[X|X]]; auto. right; left. now apply E4.
        -- cbn [h_c h_b h_o] in *. destruct Ways as [(_ & _ & _ & Ep & _)|(-> & _)]; [|discriminate]. split.
           ++ intros h' Hin2 _ _. apply in_app_iff in Hin2 as [Hin2|[<-|[]]]; [|cbn; lia].
              destruct (h_time st I h' Hin2). lia.
           ++ left. rewrite Ep. now apply program_nonnil.
      * (* disconnects *)
        intros k Hin Hk. apply in_app_iff in Hin as [Hin|[<-|[]]].
        -- destruct (h_disc st I k Hin Hk) as (H1 & H2 & H3). fold s in H2, H3.
           assert (N : h_c k <> c).
           { intro Ec. rewrite Ec in H2. destruct H2 as [X|X]; [contradiction | congruence]. }
           destruct (Other _ (Lo _ N)) as (E1 & E2 & _ & E4). split; [|split].
           ++ intros h' Hin2 Ec2. apply in_app_iff in Hin2 as [Hin2|[<-|[]]]; [now apply H1|]. cbn in Ec2. congruence.
           ++ destruct H2 as [X|X]; [left; now apply E4 | right; congruence].
           ++ intro Hd. rewrite E1, E2. now apply H3.
        -- cbn [h_c h_b h_o h_d] in *. destruct o; try discriminate. split; [|split].
           ++ intros h' Hin2 _. apply in_app_iff in Hin2 as [Hin2|[<-|[]]]; [|cbn; lia].
              destruct (h_time st I h' Hin2). lia.
           ++ destruct Ways as [(_ & _ & _ & _ & Ed)|(_ & _ & _ & _ & Hin' & _)]; [right; exact Ed | now left].
           ++ intro X. now contradiction X.
      * (* the operation a live loop works on *)
        intros x Hx Hdx. destruct (Nat.eq_dec x c) as [->|N].
        -- destruct Ways as [(_ & _ & _ & Ep & Ed)|(-> & Hne & _ & _ & _ & Ep & Ed)].
           ++ exists (mkHop c o (i_now st) None). split; [apply in_or_app; right; now left|]. cbn [h_c h_o h_d h_b].
              split; [reflexivity|]. split; [congruence|]. split; [reflexivity|].
              intros h' Hin2 _ _. apply in_app_iff in Hin2 as [Hin2|[<-|[]]]; [|cbn; lia]. destruct (h_time st I h' Hin2). lia.
           ++ destruct (h_busy st I c Hne Ad) as (h & Hh & Hch & Hkh & Hdh & Lh).
              exists h. split; [apply in_or_app; now left|]. repeat split; auto.
              intros h' Hin2 Ec2 Hk2. apply in_app_iff in Hin2 as [Hin2|[<-|[]]]; [now apply Lh | discriminate].
        -- destruct (Other x (Lo x N)) as (E1 & E2 & _). rewrite E1 in Hx. rewrite E2 in Hdx.
           destruct (h_busy st I x Hx Hdx) as (h & Hh & Hch & Hkh & Hdh & Lh).
           exists h. split; [apply in_or_app; now left|]. repeat split; auto.
           intros h' Hin2 Ec2 Hk2. apply in_app_iff in Hin2 as [Hin2|[<-|[]]]; [now apply Lh|]. cbn in Ec2. congruence.
    + (* a step of c's goroutine *)
      assert (Lo : forall x, x <> c -> label_of_conn x (LRun c) = false) by (intros x N; cbn; now apply Nat.eqb_neq).
      destruct (c_pc (r_cs s c)) as [|i0 rest0] eqn:Hpc.
      * (* the cancelled session's loop returns *)
        cbn [is_nil negb andb] in EH.
        destruct A as [A|A]; [contradiction|].
        destruct (trans_ops _ _ _ c T) as [[E1 E2]|(o & [El|(_ & -> & _)] & _ & E1 & E2 & E3)]; [|discriminate|].
        { exfalso. destruct (trans_cancel _ _ _ T) as [E|[(c1 & El & _)|(c1 & El & _ & _ & E)]]; [|discriminate|].
          - unfold s' in E1. unfold step in E1. cbn [enabled step_enabled] in E1. unfold run_instr in E1. fold s in E1. rewrite Hpc in E1.
            apply mem_conn_In in A. rewrite A in E1. cbn [r_cs] in E1. rewrite upd_same in E1. cbn in E1.
            apply (f_equal (@length op)) in E1. rewrite app_length in E1. cbn in E1. lia.
          - unfold s' in E1. unfold step in E1. cbn [enabled step_enabled] in E1. unfold run_instr in E1. fold s in E1. rewrite Hpc in E1.
            apply mem_conn_In in A. rewrite A in E1. cbn [r_cs] in E1. rewrite upd_same in E1. cbn in E1.
            apply (f_equal (@length op)) in E1. rewrite app_length in E1. cbn in E1. lia. }
        fold s' in E1, E2, E3. cbn in E2, E3.
        assert (Ecan : r_cancel s' = remove_conn c (r_cancel s)).
        { destruct (trans_cancel _ _ _ T) as [E|[(c1 & El & _)|(c1 & El & _ & _ & E)]]; [|discriminate|inversion El; subst; exact E].
          exfalso. unfold s' in E. unfold step in E. cbn [enabled step_enabled] in E. unfold run_instr in E. fold s in E. rewrite Hpc in E.
          pose proof A as A'. apply mem_conn_In in A'. rewrite A' in E. cbn in E.
          assert (X : In c (remove_conn c (r_cancel s))) by (rewrite E; exact A). apply remove_conn_In in X. tauto. }
        apply HInv_same; fold s s'; auto.
        -- intro x. destruct (Nat.eq_dec x c) as [->|N].
           ++ rewrite E1. unfold cancel_tail. rewrite Ecan, mem_conn_remove_same. apply mem_conn_In in A. rewrite A. now rewrite <- app_assoc.
           ++ destruct (Other x (Lo x N)) as (_ & _ & E & _). now rewrite E, (Tail_other x (Lo x N)).
        -- intros x [X|[X|X]]; destruct (Nat.eq_dec x c) as [->|N]; try (right; right; exact E2).
           ++ destruct (Other x (Lo x N)) as (E & _). left. now rewrite E.
           ++ right; left. now apply (Other x (Lo x N)).
           ++ right; right. destruct (Other x (Lo x N)) as (_ & E & _). now rewrite E.
        -- intros x [X|X]; destruct (Nat.eq_dec x c) as [->|N]; try (right; exact E2).
           ++ left. now apply (Other x (Lo x N)).
           ++ right. destruct (Other x (Lo x N)) as (_ & E & _). now rewrite E.
        -- intros x [X1 X2]. destruct (Nat.eq_dec x c) as [->|N].
           ++ exfalso. rewrite (inv_cancel _ IV c A) in X2. discriminate.
           ++ destruct (Other x (Lo x N)) as (Ea & Eb & _). unfold gone. now rewrite Ea, Eb.
        -- intros x Hx Hdx. destruct (Nat.eq_dec x c) as [->|N]; [congruence|].
           destruct (Other x (Lo x N)) as (Ea & Eb & _). now rewrite <- Ea, <- Eb.
      * (* an instruction *)
        cbn [is_nil negb andb] in EH.
        assert (Eops : forall x, c_ops (r_cs s' x) = c_ops (r_cs s x) /\ c_dead (r_cs s' x) = c_dead (r_cs s x)).
        { intro x. destruct (trans_ops _ _ _ x T) as [E|(o & [El|(_ & _ & _)] & Hp & _)]; [assumption|discriminate|].
          destruct (Nat.eq_dec x c) as [->|N]; [fold s in Hp; congruence|]. destruct (Other x (Lo x N)) as (_ & Ea & Eb & _). auto. }
        assert (Ecan : r_cancel s' = r_cancel s).
        { destruct (trans_cancel _ _ _ T) as [E|[(c1 & El & _)|(c1 & El & Hp & _)]]; [assumption|discriminate|].
          inversion El; subst c1. fold s in Hp. congruence. }
        assert (Etail : forall x, c_ops (r_cs s' x) ++ cancel_tail s' x = c_ops (r_cs s x) ++ cancel_tail s x).
        { intro x. destruct (Eops x) as [-> _]. unfold cancel_tail. now rewrite Ecan. }
        destruct (is_nil (c_pc (r_cs s' c))) eqn:En.
        -- (* the program ends *)
           apply is_nil_true in En.
           set (d := is_unsub_head (i0 :: rest0)) in *.
           assert (Hd_true : d = true -> c_dead (r_cs s c) = true).
           { intro X. unfold d in X. destruct i0; try discriminate. pose proof (inv_pc _ IV c) as P. fold s in P. rewrite Hpc in P.
             now destruct (pc_ok_inv_unsuball _ _ _ P). }
           constructor; rewrite ?istep_now, ?istep_s, ?EH; fold s; fold s'; try assumption; try lia.
           ++ intros h' Hin. apply in_map_iff in Hin as [h [<- Hin]]. rewrite close1_b.
              destruct (Time_old h Hin) as [H1 H2]. split; [assumption|].
              destruct (close1_d d c (i_now st) h) as [Ed|(_ & Ed & _)]; rewrite Ed; [assumption|].
              intros d0 Hd0. inversion Hd0; subst d0. destruct (h_time st I h Hin). lia.
           ++ apply SSorted_map_gen; [|apply I]. intros a b. now rewrite !close1_b.
           ++ intro x. pose proof (h_ops st I x) as Ho. fold s in Ho. rewrite xops_close, map_map, Etail, <- Ho.
              apply map_ext. intro a. apply close1_o.
           ++ (* open operations *)
              intros h' Hin Hd Hc Hk. apply in_map_iff in Hin as [h [<- Hin]].
              rewrite close1_o in Hc, Hk. rewrite close1_c.
              assert (Hd0 : h_d h = None).
              { destruct (close1_d d c (i_now st) h) as [Ed|(Ed & Ed' & _)]; [now rewrite <- Ed | assumption]. }
              destruct (h_open st I h Hin Hd0 Hc Hk) as [H1 H2]. fold s in H2. split.
              ** intros h2' Hin2 Ec2 Hk2. apply in_map_iff in Hin2 as [h2 [<- Hin2]].
                 rewrite close1_c in Ec2. rewrite close1_o in Hk2. rewrite !close1_b. now apply H1.
              ** destruct (Nat.eq_dec (h_c h) c) as [Ec|N].
                 --- (* an operation of c stays open: only if its disconnect ended, or it was cancelled *)
                     destruct d eqn:Ed.
                     +++ right; right. rewrite Ec. destruct (Eops c) as [_ ->]. now apply Hd_true.
                     +++ exfalso. rewrite (close1_open false c _ h Ec Hd0 Hc Hk) in Hd. discriminate.
                 --- destruct (Other _ (Lo _ N)) as (E1 & E2 & _ & E4). rewrite E1, E2.
                     destruct H2 as [X|[X|X]]; auto. right; left. now apply E4.
           ++ (* disconnects *)
              intros k' Hin Hk. apply in_map_iff in Hin as [k [<- Hin]].
              rewrite close1_o in Hk. rewrite close1_c.
              destruct (h_disc st I k Hin Hk) as (H1 & H2 & H3). fold s in H2, H3. split; [|split].
              ** intros h2' Hin2 Ec2. apply in_map_iff in Hin2 as [h2 [<- Hin2]].
                 rewrite close1_c in Ec2. rewrite !close1_b. now apply H1.
              ** rewrite Ecan. destruct (Eops (h_c k)) as [_ ->]. exact H2.
              ** intro Hd. destruct (Eops (h_c k)) as [_ ->].
                 destruct (close1_d d c (i_now st) k) as [Ed|(Ed1 & Ed2 & Ec & _ & Ek)].
                 --- rewrite Ed in Hd. destruct (H3 Hd) as [X1 X2]. split; [|assumption].
                     destruct (Nat.eq_dec (h_c k) c) as [Ec|N]; [rewrite Ec; exact En|].
                     now rewrite (proj1 (Other _ (Lo _ N))).
                 --- rewrite Ec. split; [exact En|]. apply Hd_true. congruence.
           ++ intros x Hx Hdx. assert (N : x <> c) by (intro; subst; contradiction).
              destruct (Other x (Lo x N)) as (E1 & E2 & _). rewrite E1 in Hx. rewrite E2 in Hdx.
              destruct (h_busy st I x Hx Hdx) as (h & Hh & Hch & Hkh & Hdh & Lh).
              exists h. split; [apply in_map_iff; exists h; split; [apply close1_other; congruence | assumption]|].
              repeat split; auto. intros h2' Hin2 Ec2 Hk2. apply in_map_iff in Hin2 as [h2 [<- Hin2]].
              rewrite close1_c in Ec2. rewrite close1_o in Hk2. rewrite close1_b. now apply Lh.
        -- (* the program goes on *)
           apply is_nil_false in En.
           apply HInv_same; fold s s'; auto.
           ++ intros x [X|[X|X]]; destruct (Nat.eq_dec x c) as [->|N]; try (left; exact En).
              ** left. now rewrite (proj1 (Other x (Lo x N))).
              ** right; left. now rewrite Ecan.
              ** right; right. now rewrite (proj2 (Eops x)).
           ++ intros x [X|X]; [left; now rewrite Ecan | right; now rewrite (proj2 (Eops x))].
           ++ intros x [X1 X2]. destruct (Nat.eq_dec x c) as [->|N]; [congruence|].
              unfold gone. now rewrite (proj1 (Other x (Lo x N))), (proj2 (Eops x)).
           ++ intros x Hx Hdx. rewrite (proj2 (Eops x)) in Hdx. split; [|assumption].
              destruct (Nat.eq_dec x c) as [->|N]; [congruence|]. now rewrite <- (proj1 (Other x (Lo x N))).
    + (* a visit starts *)
      assert (Lo : forall x, x <> c -> label_of_conn x (LVisit c c' ord) = false) by (intros x N; cbn; now apply Nat.eqb_neq).
      pose proof (trans_visit_pc _ _ _ _ _ T) as Hne. fold s' in Hne.
      assert (Eops : forall x, c_ops (r_cs s' x) = c_ops (r_cs s x) /\ c_dead (r_cs s' x) = c_dead (r_cs s x)).
      { intro x. destruct (trans_ops _ _ _ x T) as [E|(o & [El|(El & _)] & _)]; [assumption|discriminate|discriminate]. }
      assert (Ecan : r_cancel s' = r_cancel s).
      { destruct (trans_cancel _ _ _ T) as [E|[(c1 & El & _)|(c1 & El & _)]]; [assumption|discriminate|discriminate]. }
      apply HInv_same; fold s s'; auto.
      * intro x. destruct (Eops x) as [-> _]. unfold cancel_tail. now rewrite Ecan.
      * intros x [X|[X|X]]; destruct (Nat.eq_dec x c) as [->|N]; try (left; exact Hne).
        -- left. now rewrite (proj1 (Other x (Lo x N))).
        -- right; left. now rewrite Ecan.
        -- right; right. now rewrite (proj2 (Eops x)).
      * intros x [X|X]; [left; now rewrite Ecan | right; now rewrite (proj2 (Eops x))].
      * intros x [X1 X2]. destruct (Nat.eq_dec x c) as [->|N]; [fold s in A; congruence|].
        unfold gone. now rewrite (proj1 (Other x (Lo x N))), (proj2 (Eops x)).
      * intros x Hx Hdx. rewrite (proj2 (Eops x)) in Hdx. split; [|assumption].
        destruct (Nat.eq_dec x c) as [->|N]; [exact A|]. now rewrite <- (proj1 (Other x (Lo x N))).
    + (* take *)
      apply HInv_same; fold s s'; auto.
      * intro x. destruct (Other x eq_refl) as (_ & _ & E & _). now rewrite E, (Tail_other x eq_refl).
      * intros x [X|[X|X]]; destruct (Other x eq_refl) as (E1 & E2 & _ & E4); [left; now rewrite E1 | right; left; now apply E4 | right; right; now rewrite E2].
      * intros x [X|X]; destruct (Other x eq_refl) as (E1 & E2 & _ & E4); [left; now apply E4 | right; now rewrite E2].
      * intros x [X1 X2]. destruct (Other x eq_refl) as (E1 & E2 & _). unfold gone. now rewrite E1, E2.
      * intros x Hx Hdx. destruct (Other x eq_refl) as (E1 & E2 & _). now rewrite <- E1, <- E2.
    + (* deliver *)
      apply HInv_same; fold s s'; auto.
      * intro x. destruct (Other x eq_refl) as (_ & _ & E & _). now rewrite E, (Tail_other x eq_refl).
      * intros x [X|[X|X]]; destruct (Other x eq_refl) as (E1 & E2 & _ & E4); [left; now rewrite E1 | right; left; now apply E4 | right; right; now rewrite E2].
      * intros x [X|X]; destruct (Other x eq_refl) as (E1 & E2 & _ & E4); [left; now apply E4 | right; now rewrite E2].
      * intros x [X1 X2]. destruct (Other x eq_refl) as (E1 & E2 & _). unfold gone. now rewrite E1, E2.
      * intros x Hx Hdx. destruct (Other x eq_refl) as (E1 & E2 & _). now rewrite <- E1, <- E2.
    + (* a reply is given up *)
      assert (Lo : forall x, x <> c -> label_of_conn x (LSkip c) = false) by (intros x N; cbn; now apply Nat.eqb_neq).
      destruct A as [Apc Ac].
      assert (Eops : forall x, c_ops (r_cs s' x) = c_ops (r_cs s x) /\ c_dead (r_cs s' x) = c_dead (r_cs s x)).
      { intro x. destruct (trans_ops _ _ _ x T) as [E|(o & [El|(El & _)] & _)]; [assumption|discriminate|discriminate]. }
      assert (Ecan : r_cancel s' = r_cancel s).
      { destruct (trans_cancel _ _ _ T) as [E|[(c1 & El & _)|(c1 & El & _)]]; [assumption|discriminate|discriminate]. }
      apply HInv_same; fold s s'; auto.
      * intro x. destruct (Eops x) as [-> _]. unfold cancel_tail. now rewrite Ecan.
      * intros x [X|[X|X]]; destruct (Nat.eq_dec x c) as [->|N]; try (right; left; now rewrite Ecan).
        -- left. now rewrite (proj1 (Other x (Lo x N))).
        -- right; right. now rewrite (proj2 (Eops x)).
      * intros x [X|X]; [left; now rewrite Ecan | right; now rewrite (proj2 (Eops x))].
      * intros x [X1 X2]. destruct (Nat.eq_dec x c) as [->|N]; [fold s in Apc; congruence|].
        unfold gone. now rewrite (proj1 (Other x (Lo x N))), (proj2 (Eops x)).
      * intros x Hx Hdx. rewrite (proj2 (Eops x)) in Hdx. split; [|assumption].
        destruct (Nat.eq_dec x c) as [->|N]; [exact Apc|]. now rewrite <- (proj1 (Other x (Lo x N))).
Qed.

Theorem HInv_irun buf st tr : reachable buf (i_s st) -> HInv st -> HInv (irun st tr).
Proof.
  revert st. induction tr as [|l tr IH]; intros st R I; [assumption|]. rewrite irun_cons.
  apply IH; [rewrite istep_s; now constructor | now apply (HInv_step buf)].
Qed.
