(* MergeMulti.v — C08/C09: several sessions of ONE MergeHandler value.

   handler.go: MergeHandler.ServeNostr does [newMergeHandlerSession(h)] for
   every call; the handler value itself holds nothing but the list of children.
   Every piece of state the merge logic has (the REQ, OK and COUNT tables) is
   allocated by [newMergeHandlerSession] and owned by that session.  The model
   of a handler that serves k connections is therefore the product of k
   session models of Merge.v: a step of session j reads and writes component j
   and nothing else.

   The properties C08/C09 speak about one client and its requests; for a
   handler with several sessions they are required of every session on its
   own: the oracle of a k-session history judges the projection of the history
   onto each session with the single-session oracle, so a reply that appears
   on the wrong connection, or an aggregate that mixes the children's replies
   of two connections, is rejected.

   Definitions only; proofs in MergeMultiProofs.v. *)
From Moc Require Import Base Match Merge.
Open Scope Z_scope.

(** an observed history of a handler with several sessions: every step with
    the session it belongs to and what THAT session's client received before
    the session was quiescent again *)
Definition mtrace := list (nat * (input * list smsg)).

(** [l[j] = v] (nothing happens beyond the end) *)
Fixpoint set_nth {A} (j : nat) (v : A) (l : list A) : list A :=
  match l, j with
  | [], _ => []
  | _ :: r, O => v :: r
  | x :: r, S j' => x :: set_nth j' v r
  end.

(** NewMergeHandler, then k calls of ServeNostr *)
Definition new_handler (n k : nat) : option (list state) :=
  match new_session n with
  | Some s => Some (repeat s k)
  | None => None
  end.

(** the product model reproduces the observation, step by step *)
Fixpoint multi_agrees (ss : list state) (t : mtrace) : bool :=
  match t with
  | [] => true
  | (j, (x, obs)) :: t' =>
      match nth_error ss j with
      | None => false
      | Some s =>
          let '(s1, o) := merge_step s x in
          negb (st_dead s1) && list_eqb smsg_eqb (out_list o) obs && multi_agrees (set_nth j s1 ss) t'
      end
  end.

(** what session [j] saw of the history *)
Definition project (j : nat) (t : mtrace) : otrace :=
  List.map snd (List.filter (fun p => Nat.eqb (fst p) j) t).

Definition sessions_in_range (k : nat) (t : mtrace) : bool :=
  forallb (fun p => Nat.ltb (fst p) k) t.

(** the property, session by session *)
Definition c08_multi_oracle (n k : nat) (t : mtrace) : bool :=
  sessions_in_range k t && forallb (fun j => c08_oracle n (project j t)) (seq 0 k).

Definition c09_multi_oracle (n k : nat) (t : mtrace) : bool :=
  sessions_in_range k t && forallb (fun j => c09_oracle n (project j t)) (seq 0 k).
