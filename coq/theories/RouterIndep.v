(* RouterIndep.v — C07: the control part of the router (registry, lock
   holders, every connection's program, counters and accepted operations)
   evolves as a function of the schedule alone: it does not depend on the
   contents of any queue, forwarder slot or output, nor on buflen.  In
   particular no step of a publisher is ever influenced by a subscriber's
   queue. *)
From Moc Require Import Base Match Router RouterLemmas RouterFrame.
From Moc.Gen Require Import GenRouter.
Open Scope Z_scope.

Definition ctlv (st : cst) := (c_pc st, c_rd st, c_ctr st, c_dead st, c_ops st).

Definition sim (s1 s2 : rstate) : Prop :=
  r_reg s1 = r_reg s2 /\ r_pubs s1 = r_pubs s2 /\ r_cancel s1 = r_cancel s2 /\ forall c, ctlv (r_cs s1 c) = ctlv (r_cs s2 c).

Lemma ctlv_fields a b :
  ctlv a = ctlv b -> c_pc a = c_pc b /\ c_rd a = c_rd b /\ c_ctr a = c_ctr b /\ c_dead a = c_dead b /\ c_ops a = c_ops b.
Proof. unfold ctlv. intro E. inversion E. auto. Qed.

Lemma ctlv_upd f1 f2 c v1 v2 :
  (forall x, ctlv (f1 x) = ctlv (f2 x)) -> ctlv v1 = ctlv v2 ->
  forall x, ctlv (upd f1 c v1 x) = ctlv (upd f2 c v2 x).
Proof. intros H Hv x. unfold upd. destruct (Nat.eqb x c); auto. Qed.

Lemma ctlv_send_if_match b1 b2 e t sub fs st1 st2 :
  ctlv st1 = ctlv st2 -> ctlv (send_if_match b1 e t sub fs st1) = ctlv (send_if_match b2 e t sub fs st2).
Proof.
  intro E. apply ctlv_fields in E as (E1 & E2 & E3 & E4 & E5). unfold send_if_match.
  destruct (sub_matches e fs); [|unfold ctlv; congruence].
  destruct (Nat.ltb (length (c_q st1)) b1); destruct (Nat.ltb (length (c_q st2)) b2); unfold ctlv; cbn; congruence.
Qed.

Lemma sim_enabled s1 s2 l : sim s1 s2 -> enabled s1 l = enabled s2 l.
Proof.
  intros (_ & Hp & _ & Hc). destruct l as [c o|c|c c' ord|c|c|c]; try reflexivity.
  unfold enabled. destruct (ctlv_fields _ _ (Hc c)) as (E1 & E2 & _). rewrite <- E1, <- E2, <- Hp.
  destruct (c_pc (r_cs s1 c)) as [|i rest]; [reflexivity|]. destruct i; try reflexivity.
  all: destruct todo as [|[sub fs] todo]; [reflexivity|]; try rewrite trysend_has_default; reflexivity.
Qed.

Lemma sim_start_visit s1 s2 c c' ord e t rem rest1 rest2 :
  sim s1 s2 -> rest1 = rest2 ->
  sim (start_visit s1 c c' ord e t rem rest1) (start_visit s2 c c' ord e t rem rest2).
Proof.
  intros (Hr & Hp & Hk & Hc) ->. unfold start_visit, sim. cbn [r_reg r_pubs r_cancel r_cs with_cs]. repeat split; auto.
  rewrite Hr. apply ctlv_upd.
  - apply ctlv_upd; [assumption|]. destruct (ctlv_fields _ _ (Hc c)) as (E1 & E2 & E3 & E4 & E5). unfold ctlv; cbn; congruence.
  - assert (H : ctlv (upd (r_cs s1) c (set_pc (r_cs s1 c)
        (IVisit e t c' (reorder ord match reg_get c' (r_reg s2) with Some m => m | None => [] end)
           :: IPub e t (remove_conn c' rem) :: rest2)) c') =
      ctlv (upd (r_cs s2) c (set_pc (r_cs s2 c)
        (IVisit e t c' (reorder ord match reg_get c' (r_reg s2) with Some m => m | None => [] end)
           :: IPub e t (remove_conn c' rem) :: rest2)) c')).
    { apply ctlv_upd; [assumption|]. destruct (ctlv_fields _ _ (Hc c)) as (E1 & E2 & E3 & E4 & E5). unfold ctlv; cbn; congruence. }
    destruct (ctlv_fields _ _ H) as (E1 & E2 & E3 & E4 & E5). unfold ctlv; cbn; congruence.
Qed.

Theorem sim_step s1 s2 l : sim s1 s2 -> sim (step s1 l) (step s2 l).
Proof.
  intro S. unfold step. rewrite <- (sim_enabled s1 s2 l S). destruct (enabled s1 l); [|assumption].
  destruct S as (Hr & Hp & Hk & Hc).
  assert (S : sim s1 s2) by (repeat split; assumption).
  destruct l as [c o|c|c c' ord|c|c|c]; cbn [step_enabled];
    destruct (ctlv_fields _ _ (Hc c)) as (E1 & E2 & E3 & E4 & E5).
  - (* op *)
    rewrite <- E1, <- E4, <- Hk. destruct (c_pc (r_cs s1 c)).
    + destruct (c_dead (r_cs s1 c) || mem_conn c (r_cancel s1)); [assumption|].
      unfold sim. cbn [r_reg r_pubs r_cancel r_cs with_cs]. repeat split; auto.
      apply ctlv_upd; [assumption|]. unfold ctlv, program. cbn. rewrite Hr. congruence.
    + destruct (is_disc o && negb (c_dead (r_cs s1 c)) && negb (mem_conn c (r_cancel s1))); [|assumption].
      unfold sim. cbn [r_reg r_pubs r_cancel r_cs]. repeat split; auto; congruence.
  - (* run *)
    unfold run_instr. rewrite <- E1, <- Hk. destruct (c_pc (r_cs s1 c)) as [|i rest].
    { destruct (mem_conn c (r_cancel s1)); [|assumption].
      unfold sim. cbn [r_reg r_pubs r_cancel r_cs]. repeat split; auto.
      apply ctlv_upd; [assumption | unfold ctlv; cbn; congruence]. }
    destruct i.
    + unfold sim. cbn. repeat split; [congruence | assumption|]. apply ctlv_upd; [assumption | unfold ctlv; cbn; congruence].
    + rewrite <- Hr. destruct (reg_get c (r_reg s1)); unfold sim; cbn [r_reg r_pubs r_cs with_cs]; repeat split; auto; try congruence;
        (apply ctlv_upd; [assumption | unfold ctlv; cbn; congruence]).
    + unfold sim. cbn [r_reg r_pubs r_cs with_cs]. repeat split; auto. apply ctlv_upd; [assumption | unfold ctlv; cbn; congruence].
    + rewrite <- Hr. destruct (reg_get c (r_reg s1)); unfold sim; cbn [r_reg r_pubs r_cs with_cs]; repeat split; auto; try congruence;
        (apply ctlv_upd; [assumption | unfold ctlv; cbn; congruence]).
    + unfold sim. cbn [r_reg r_pubs r_cs with_cs]. repeat split; auto. apply ctlv_upd; [assumption | unfold ctlv; cbn; congruence].
    + unfold sim. cbn [r_reg r_pubs r_cs]. repeat split; [assumption | congruence|].
      apply ctlv_upd; [assumption | unfold ctlv; cbn; rewrite Hr; congruence].
    + destruct rem as [|c1 rem].
      * unfold sim. cbn [r_reg r_pubs r_cs]. repeat split; [assumption | congruence|].
        apply ctlv_upd; [assumption | unfold ctlv; cbn; congruence].
      * now apply sim_start_visit.
    + destruct todo as [|[sub fs] todo].
      * unfold sim. cbn [r_reg r_pubs r_cs with_cs]. repeat split; auto.
        assert (H : forall x, ctlv (upd (r_cs s1) c (set_pc (r_cs s1 c) rest) x) = ctlv (upd (r_cs s2) c (set_pc (r_cs s2 c) rest) x)).
        { apply ctlv_upd; [assumption | unfold ctlv; cbn; congruence]. }
        apply ctlv_upd; [exact H|]. destruct (ctlv_fields _ _ (H c')) as (F1 & F2 & F3 & F4 & F5). unfold ctlv; cbn; congruence.
      * unfold sim. cbn [r_reg r_pubs r_cs with_cs]. repeat split; auto.
        assert (H : forall x, ctlv (upd (r_cs s1) c (set_pc (r_cs s1 c) (IVisit e t c' todo :: rest)) x) =
                              ctlv (upd (r_cs s2) c (set_pc (r_cs s2 c) (IVisit e t c' todo :: rest)) x)).
        { apply ctlv_upd; [assumption | unfold ctlv; cbn; congruence]. }
        apply ctlv_upd; [exact H|]. apply ctlv_send_if_match. apply H.
    + unfold sim. cbn [r_reg r_pubs r_cs with_cs]. repeat split; auto. apply ctlv_upd; [assumption | unfold ctlv; cbn; congruence].
    + unfold sim. cbn [r_reg r_pubs r_cs]. repeat split; [congruence | assumption|].
      apply ctlv_upd; [assumption | unfold ctlv; cbn; congruence].
  - (* visit *)
    rewrite <- E1. destruct (c_pc (r_cs s1 c)) as [|i rest]; [assumption|]. destruct i; try assumption.
    destruct (mem_conn c' rem); [|assumption]. now apply sim_start_visit.
  - (* take *)
    rewrite <- E4. destruct (c_dead (r_cs s1 c)) eqn:Ed; [assumption|].
    destruct (c_hand (r_cs s1 c)), (c_hand (r_cs s2 c)); try destruct (c_q (r_cs s1 c)); try destruct (c_q (r_cs s2 c));
      try assumption; unfold sim; cbn [r_reg r_pubs r_cs with_cs]; repeat split; auto; intro x.
    all: try (apply ctlv_upd; [assumption | unfold ctlv; cbn; congruence]).
    all: unfold upd; destruct (Nat.eqb x c) eqn:Ex; [apply Nat.eqb_eq in Ex; subst x; unfold ctlv; cbn; congruence | apply Hc].
  - (* deliver *)
    rewrite <- E4. destruct (c_dead (r_cs s1 c)) eqn:Ed; [assumption|].
    destruct (c_hand (r_cs s1 c)), (c_hand (r_cs s2 c)); try assumption;
      unfold sim; cbn [r_reg r_pubs r_cs with_cs]; repeat split; auto; intro x.
    all: try (apply ctlv_upd; [assumption | unfold ctlv; cbn; congruence]).
    all: unfold upd; destruct (Nat.eqb x c) eqn:Ex; [apply Nat.eqb_eq in Ex; subst x; unfold ctlv; cbn; congruence | apply Hc].
  - (* skip *)
    rewrite <- E1, <- Hk. destruct (c_pc (r_cs s1 c)) as [|i rest]; [assumption|].
    destruct (mem_conn c (r_cancel s1) && is_reply_instrb i); [|assumption].
    unfold sim. cbn [r_reg r_pubs r_cancel r_cs with_cs]. repeat split; auto.
    apply ctlv_upd; [assumption | unfold ctlv; cbn; congruence].
Qed.

Theorem sim_run tr : forall s1 s2, sim s1 s2 -> sim (run s1 tr) (run s2 tr).
Proof.
  induction tr as [|l tr IH]; intros s1 s2 S; [assumption|]. rewrite !run_cons. apply IH. now apply sim_step.
Qed.

(** two routers that differ in buflen and in what is queued, held or already
    sent, run under the same schedule, agree at every point on every
    connection's program, on the accepted operations, on the registry and on
    who holds which lock *)
Theorem control_independent_of_queues s1 s2 tr c :
  sim s1 s2 ->
  c_pc (r_cs (run s1 tr) c) = c_pc (r_cs (run s2 tr) c) /\
  c_ops (r_cs (run s1 tr) c) = c_ops (r_cs (run s2 tr) c) /\
  r_reg (run s1 tr) = r_reg (run s2 tr).
Proof.
  intro S. destruct (sim_run tr s1 s2 S) as (Hr & _ & _ & Hc).
  destruct (ctlv_fields _ _ (Hc c)) as (E1 & _ & _ & _ & E5). auto.
Qed.
