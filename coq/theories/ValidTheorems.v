(* ValidTheorems.v — C11: the admission theorems.  validKind is
   [0 <= kind && kind <= 65535], validNaddr cuts with
   strings.SplitN(naddr, ":", 3), the label pattern tolerates white space
   before the opening bracket (repairs of the defects F1, F2, F10 that this
   check reported; see ValidHistory.v).  The three lemmas [g_valid_kind_spec],
   [naddr_split_is_3] and [lead_ws_is_allowed] are where a regression of one of
   the repairs breaks: they are proved against the guards regenerated from
   the source. *)
From Moc Require Import Base Json CodecMsg Codec CodecProofs Valid ValidProofs ValidJsonProofs.
From Moc.Gen Require Import GenMsg GenCodec.
Open Scope Z_scope.

(** the kind guard is the range 0..65535 *)
Lemma g_valid_kind_spec k : g_valid_kind k = kind_specb k.
Proof.
  unfold g_valid_kind, kind_specb. apply bool_ext.
  rewrite ?andb_true_iff, ?orb_true_iff, ?Z.leb_le, ?Z.ltb_lt, ?Z.geb_le, ?Z.gtb_lt. lia.
Qed.

(** the address is cut in at most three parts *)
Lemma naddr_split_is_3 : g_naddr_split_n = 3.
Proof. reflexivity. Qed.

Lemma naddr_okb_ext (kp kp' : Z -> bool) s : (forall k, kp k = kp' k) -> naddr_okb kp s = naddr_okb kp' s.
Proof.
  intro H. apply bool_ext. split; apply naddr_okb_mono; intros k E; [rewrite <- H | rewrite H]; exact E.
Qed.

(** validNaddr decides the declarative address predicate: kind:pubkey:d for any d *)
Theorem valid_naddr_spec s : valid_naddr s = naddr_specb s.
Proof.
  rewrite (valid_naddr_split3 naddr_split_is_3). unfold naddr_specb.
  apply naddr_okb_ext. exact g_valid_kind_spec.
Qed.

Corollary valid_naddr_iff s : valid_naddr s = true <-> naddr_spec s.
Proof. rewrite valid_naddr_spec. apply naddr_specb_spec. Qed.

(** ValidClientMsg decides NIP-01 well-formedness exactly *)
Theorem valid_is_wf m : valid_client_msg m = wf_nip01b m.
Proof.
  rewrite valid_char. unfold wf_nip01b. apply bool_ext. split.
  - apply cmsg_okb_mono;
      [ intros k H; rewrite <- g_valid_kind_spec; exact H
      | intros s H; rewrite <- valid_naddr_spec; exact H
      | auto ].
  - apply cmsg_okb_mono;
      [ intros k H; rewrite g_valid_kind_spec; exact H
      | intros s H; rewrite valid_naddr_spec; exact H
      | auto ].
Qed.

(** no false rejection *)
Theorem valid_complete m : wf_nip01 m -> valid_client_msg m = true.
Proof. unfold wf_nip01. now rewrite valid_is_wf. Qed.

(** no unsound acceptance *)
Theorem valid_sound m : valid_client_msg m = true -> constraints m.
Proof. rewrite valid_is_wf. apply wf_nip01_constraints. Qed.

(** the gate as a whole, on the canonical encoding of a well-formed message:
    it is parsed (to itself) and judged valid *)
Theorem admit_complete m : wf_nip01 m -> wf_cmsg m -> gate_admits (plain_text (enc_cmsg m)) = true.
Proof.
  intros Hn Hw. unfold gate_admits. rewrite (parse_enc_cmsg m Hw). now apply valid_complete.
Qed.

(** whatever passes the gate is a filled value with the label of the text
    that breaks none of the constraints *)
Theorem gate_sound t :
  gate_admits t = true ->
  exists m, parse_client_msg t = Val m /\ wf_cmsg m /\
            first_label (ct_json t) = Some (label_of_cmsg m) /\ constraints m.
Proof.
  intro H. destruct (admit_inv t H) as [m [Hp [Hw [Hl Hc]]]]. exists m. repeat split; try assumption.
  apply valid_sound. now rewrite valid_char.
Qed.

(** the property's first sentence, on the JSON value of the text: every client
    message that is well-formed under NIP-01 (members in any order) is parsed
    and judged valid *)
Theorem gate_complete j : wf_json_cmsg false j = true -> gate_admits (plain_text j) = true.
Proof.
  intro H. destruct (wf_json_parse j H) as [m [Hp Hw]]. unfold gate_admits. rewrite Hp.
  now apply valid_complete.
Qed.

(* ------------------------------------------------------------------ *)
(** White space before the opening bracket *)

Lemma lead_ws_is_allowed : lead_ws_allowed = true.
Proof. reflexivity. Qed.

(** insignificant white space before the opening bracket does not matter *)
Theorem parse_leading_ws_irrelevant esc j :
  parse_client_msg (mkCText true esc j) = parse_client_msg (mkCText false esc j).
Proof. rewrite parse_leading_ws. now rewrite lead_ws_is_allowed. Qed.

Theorem admit_leading_ws_irrelevant esc j : gate_admits (mkCText true esc j) = gate_admits (mkCText false esc j).
Proof. rewrite admit_leading_ws. now rewrite lead_ws_is_allowed. Qed.

(** every well-formed client message text passes the gate, whether or not
    white space precedes the opening bracket *)
Theorem gate_complete_any_ws lead j :
  wf_json_cmsg false j = true -> gate_admits (mkCText lead false j) = true.
Proof.
  intro H. destruct lead; [rewrite admit_leading_ws_irrelevant|]; exact (gate_complete j H).
Qed.
