(* Router.v — C07: model of RouterHandler (handler.go), subscribers, safeMap
   (data_structure.go) and trySendCtx/sendCtx (utils.go) as a labelled
   transition system.  Definitions only; proofs are in RouterProofs.v.

   Granularity.  An atomic step of the model is exactly one critical section
   the code serialises, or one channel operation:

     outer map  subs.subs : safeMap[reqID]*safeMap   (RWMutex: [r_pubs] = its readers)
     inner map  per connection : safeMap[subID]*subscriber (RWMutex: [c_rd] = its readers)
     subCh      per connection, capacity buflen            ([c_q])
     forwarder  per connection, holds at most one message  ([c_hand])
     send       the connection's outbound channel          ([c_out] = what was sent)

   Publish takes the outer read lock for the whole publish ([IPubBegin] ..
   [IPub _ _ []]); inside, each connection's inner map is visited under that
   connection's inner read lock ([LVisit] .. [IVisit _ _ _ []]); inside the
   visit every subscriber is one [SendIfMatch] = one matcher call plus one
   non-blocking channel send.  Channel operations are not covered by the
   locks: the forwarder's receive ([LTake]) and another publisher's sends to
   the same connection interleave with a visit at per-message granularity, and
   the model allows exactly that.  Writers of the outer map (first REQ of a
   connection: [IRegAdd]; end of session: [IUnsubAll]) wait for [r_pubs = []];
   writers of an inner map ([ISubAdd], [ISubDel]) wait for [c_rd = []].  (The
   reader sets are kept as lists of connections rather than counts; the
   mutex's reader count is their length.)  Steps
   that are not enabled leave the state unchanged (the goroutine waits), so
   every list of labels is a schedule and the theorems quantify over all of
   them.  Go's writer preference (a waiting writer holds back new readers)
   only removes schedules; it is not modelled. *)
From Moc Require Import Base Match.
From Moc.Gen Require Import GenRouter.
Open Scope Z_scope.

Definition conn := nat.

(** a publication: the publishing connection and its per-connection sequence
    number.  Ghost: it labels the copies of one [Publish] call so that "once"
    and "in publication order" can be stated; the wire message has no such
    field (see [erase]). *)
Definition ptag := (conn * nat)%type.

Inductive smsg :=
| MEose (sub : str)
| MOk (id : str)                    (* OK id true "" *)
| MCount (sub : str)                (* COUNT sub 0 *)
| MEvent (sub : str) (e : event) (t : ptag).

Inductive op :=
| OReq (sub : str) (fs : list rfilter)
| OClose (sub : str)
| OCount (sub : str)
| OEvent (e : event)
| ODisc.

Definition submap := list (str * list rfilter).

Inductive instr :=
| IRegAdd                                        (* subs.subs.Add(reqID, newSafeMap()) *)
| ISubAdd (sub : str) (fs : list rfilter)        (* m.Add(subID, sub) *)
| IEose (sub : str)                              (* sendServerMsgCtx(EOSE) *)
| ISubDel (sub : str)                            (* m.Delete(subID) *)
| ICount (sub : str)                             (* sendServerMsgCtx(COUNT 0) *)
| IPubBegin (e : event)                          (* subs.subs.Loop: RLock *)
| IPub (e : event) (t : ptag) (rem : list conn)  (* inside the outer Loop: connections still to visit *)
| IVisit (e : event) (t : ptag) (c' : conn) (todo : submap) (* inside m.Loop of c' *)
| IOk (id : str)                                 (* sendServerMsgCtx(OK) *)
| IUnsubAll.                                     (* deferred subs.UnsubscribeAll(reqID) *)

Record cst := mkC {
  c_pc : list instr;        (* what the connection's recv goroutine still has to do *)
  c_q : list smsg;          (* subCh, oldest first *)
  c_hand : option smsg;     (* taken from subCh by the forwarder, not yet sent *)
  c_out : list smsg;        (* messages sent on [send], oldest first *)
  c_rd : list conn;         (* publishers inside the connection's inner map (read lock holders) *)
  c_ctr : nat;              (* ghost: publications begun by this connection *)
  c_dead : bool;            (* the session's context is cancelled *)
  c_ops : list op;          (* ghost: operations accepted, oldest first *)
  c_drops : list (str * event * ptag)  (* ghost: copies dropped on a full queue *)
}.

Definition c_init : cst := mkC [] [] None [] [] 0 false [] [].

Record rstate := mkR {
  r_buf : nat;                        (* buflen *)
  r_reg : list (conn * submap);       (* the registry *)
  r_pubs : list conn;                 (* read lock holders of the outer map = publishes in progress *)
  r_cancel : list conn;               (* sessions whose context was cancelled while their recv loop was
                                         inside router.recv / sendServerMsgCtx: the loop has not returned yet *)
  r_cs : conn -> cst
}.

Definition r_init (buf : nat) : rstate := mkR buf [] [] [] (fun _ => c_init).

(** NewRouterHandler: panics unless buflen is positive *)
Definition new_router (buflen : Z) : option rstate :=
  if g_router_buflen_bad buflen then None else Some (r_init (Z.to_nat buflen)).

(* ------------------------------------------------------------------ *)
(** * Maps *)

Fixpoint reg_get (c : conn) (r : list (conn * submap)) : option submap :=
  match r with
  | [] => None
  | (c', m) :: r' => if Nat.eqb c c' then Some m else reg_get c r'
  end.

Fixpoint reg_set (c : conn) (m : submap) (r : list (conn * submap)) : list (conn * submap) :=
  match r with
  | [] => [(c, m)]
  | (c', m') :: r' => if Nat.eqb c c' then (c, m) :: r' else (c', m') :: reg_set c m r'
  end.

Fixpoint reg_del (c : conn) (r : list (conn * submap)) : list (conn * submap) :=
  match r with
  | [] => []
  | (c', m') :: r' => if Nat.eqb c c' then reg_del c r' else (c', m') :: reg_del c r'
  end.

Fixpoint sm_set (k : str) (v : list rfilter) (m : submap) : submap :=
  match m with
  | [] => [(k, v)]
  | (k', v') :: m' => if str_eqb k k' then (k, v) :: m' else (k', v') :: sm_set k v m'
  end.

Fixpoint sm_del (k : str) (m : submap) : submap :=
  match m with
  | [] => []
  | (k', v') :: m' => if str_eqb k k' then sm_del k m' else (k', v') :: sm_del k m'
  end.

(** Go iterates a map in an unspecified order: a visit walks the entries named
    in [ord] first, in that order, then the others.  For a map with distinct
    keys every iteration order is [reorder ord m] for some [ord]. *)
Fixpoint reorder (ord : list str) (m : submap) : submap :=
  match ord with
  | [] => m
  | k :: ord' =>
      match assoc k m with
      | Some v => (k, v) :: reorder ord' (sm_del k m)
      | None => reorder ord' m
      end
  end.

Definition upd (f : conn -> cst) (c : conn) (v : cst) : conn -> cst :=
  fun x => if Nat.eqb x c then v else f x.

Fixpoint remove_conn (c : conn) (l : list conn) : list conn :=
  match l with
  | [] => []
  | x :: l' => if Nat.eqb c x then remove_conn c l' else x :: remove_conn c l'
  end.

Definition mem_conn (c : conn) (l : list conn) : bool := existsb (Nat.eqb c) l.

(* ------------------------------------------------------------------ *)
(** * SendIfMatch *)

Definition s_Match : str := [77; 97; 116; 99; 104]%N.

(** the structure facts the model relies on, as read from the source by the
    translator; [RouterProofs.model_applicable_true] pins them *)
Definition s_recv_req : list str :=
  [[110;101;119;83;117;98;115;99;114;105;98;101;114]%N;
   [114;111;117;116;101;114;46;115;117;98;115;46;83;117;98;115;99;114;105;98;101]%N;
   [78;101;119;83;101;114;118;101;114;69;79;83;69;77;115;103]%N].
Definition s_recv_event : list str :=
  [[114;111;117;116;101;114;46;115;117;98;115;46;80;117;98;108;105;115;104]%N;
   [78;101;119;83;101;114;118;101;114;79;75;77;115;103]%N].
Definition s_recv_close : list str :=
  [[114;111;117;116;101;114;46;115;117;98;115;46;85;110;115;117;98;115;99;114;105;98;101]%N].
Definition s_subscribe : list str :=
  [[115;117;98;115;46;115;117;98;115;46;84;114;121;71;101;116]%N;
   [110;101;119;83;97;102;101;77;97;112;91;115;116;114;105;110;103;44;32;42;115;117;98;115;99;114;105;98;101;114;93]%N;
   [115;117;98;115;46;115;117;98;115;46;65;100;100]%N;
   [109;46;65;100;100]%N].
Definition s_unsubscribe : list str :=
  [[115;117;98;115;46;115;117;98;115;46;84;114;121;71;101;116]%N; [109;46;68;101;108;101;116;101]%N].
Definition s_unsuball : list str := [[115;117;98;115;46;115;117;98;115;46;68;101;108;101;116;101]%N].
Definition s_publish : list str :=
  [[115;117;98;115;46;115;117;98;115;46;76;111;111;112]%N; [109;46;76;111;111;112]%N;
   [109;109;46;83;101;110;100;73;102;77;97;116;99;104]%N].

Definition s_trysend_cases : list str :=
  [[60;45;99;116;120;46;68;111;110;101;40;41]%N; [99;104;32;60;45;32;118]%N; [100;101;102;97;117;108;116]%N].

Definition strs_eqb : list str -> list str -> bool := list_eqb str_eqb.

Definition lock_row_ok (r : str * (bool * bool * bool)) : bool :=
  match r with (_, (excl, deferred, writes)) => deferred && (negb writes || excl) end.

Definition lock_of (name : str) : option (bool * bool * bool) := assoc name g_safemap_locks.

Definition s_Add : str := [65;100;100]%N.
Definition s_Delete : str := [68;101;108;101;116;101]%N.
Definition s_TryGet : str := [84;114;121;71;101;116]%N.
Definition s_Loop : str := [76;111;111;112]%N.

Definition model_applicable : bool :=
  str_eqb g_sendifmatch_method s_Match &&
  g_sendifmatch_trysend &&
  g_trysend_has_default &&
  strs_eqb g_trysend_cases s_trysend_cases &&
  g_serve_defers_unsuball &&
  g_serve_queue_cap_is_buflen &&
  strs_eqb g_recv_req_shape s_recv_req &&
  strs_eqb g_recv_event_shape s_recv_event &&
  strs_eqb g_recv_close_shape s_recv_close &&
  strs_eqb g_subs_subscribe_calls s_subscribe &&
  strs_eqb g_subs_unsubscribe_calls s_unsubscribe &&
  strs_eqb g_subs_unsuball_calls s_unsuball &&
  strs_eqb g_subs_publish_calls s_publish &&
  forallb lock_row_ok g_safemap_locks &&
  match lock_of s_Add, lock_of s_Delete, lock_of s_TryGet, lock_of s_Loop with
  | Some (true, true, true), Some (true, true, true), Some (false, true, false), Some (false, true, false) => true
  | _, _, _, _ => false
  end.

(** [sub.Matcher.Match(event)]: the plain list form of C02 (no counting).  A
    panic of [Match] (event with an empty tag; excluded by the admission
    gate, C11) is not modelled: it counts as "no match". *)
Definition sub_matches (e : event) (fs : list rfilter) : bool :=
  match lms_match (lms_new fs) e with
  | Ok b => b
  | Panic => false
  end.

(** one SendIfMatch on a connection state: the result and whether a matching
    copy was dropped *)
Definition send_if_match (buf : nat) (e : event) (t : ptag) (sub : str) (fs : list rfilter) (st : cst) : cst :=
  if sub_matches e fs then
    if Nat.ltb (length (c_q st)) buf
    then mkC (c_pc st) (c_q st ++ [MEvent sub e t]) (c_hand st) (c_out st) (c_rd st) (c_ctr st) (c_dead st) (c_ops st) (c_drops st)
    else mkC (c_pc st) (c_q st) (c_hand st) (c_out st) (c_rd st) (c_ctr st) (c_dead st) (c_ops st) (c_drops st ++ [(sub, e, t)])
  else st.

(** an uninterrupted visit, as a function on the queue (used for
    [C07_visit_exact] and by the deterministic correspondence) *)
Fixpoint visit_loop (buf : nat) (e : event) (t : ptag) (m : submap) (q : list smsg) : list smsg :=
  match m with
  | [] => q
  | (sub, fs) :: m' =>
      if sub_matches e fs
      then if Nat.ltb (length q) buf then visit_loop buf e t m' (q ++ [MEvent sub e t]) else visit_loop buf e t m' q
      else visit_loop buf e t m' q
  end.

(* ------------------------------------------------------------------ *)
(** * Steps *)

Inductive label :=
| LOp (c : conn) (o : op)                   (* the client's message is taken from [recv] *)
| LRun (c : conn)                           (* the recv goroutine of c executes its next atomic step *)
| LVisit (c c' : conn) (ord : list str)     (* publisher c enters the inner map of c' (iteration order ord) *)
| LTake (c : conn)                          (* forwarder of c: msg := <-subCh *)
| LDeliver (c : conn)                       (* forwarder of c: send <- msg *)
| LSkip (c : conn).                         (* recv goroutine of c, context cancelled: sendServerMsgCtx takes the
                                               ctx.Done() case, the reply is not sent *)

Definition set_pc (st : cst) (pc : list instr) : cst :=
  mkC pc (c_q st) (c_hand st) (c_out st) (c_rd st) (c_ctr st) (c_dead st) (c_ops st) (c_drops st).
Definition set_rd (st : cst) (n : list conn) : cst :=
  mkC (c_pc st) (c_q st) (c_hand st) (c_out st) n (c_ctr st) (c_dead st) (c_ops st) (c_drops st).
Definition push_out (st : cst) (m : smsg) : cst :=
  mkC (c_pc st) (c_q st) (c_hand st) (c_out st ++ [m]) (c_rd st) (c_ctr st) (c_dead st) (c_ops st) (c_drops st).

Definition with_cs (s : rstate) (f : conn -> cst) : rstate := mkR (r_buf s) (r_reg s) (r_pubs s) (r_cancel s) f.

(** the program of one client operation.  TryGet only reads, and only the
    connection's own goroutine ever adds or removes its entry, so its result
    is fixed when the operation starts. *)
Definition program (s : rstate) (c : conn) (o : op) : list instr :=
  match o with
  | OReq sub fs =>
      match reg_get c (r_reg s) with
      | None => [IRegAdd; ISubAdd sub fs; IEose sub]
      | Some _ => [ISubAdd sub fs; IEose sub]
      end
  | OClose sub =>
      match reg_get c (r_reg s) with
      | None => []
      | Some _ => [ISubDel sub]
      end
  | OCount sub => [ICount sub]
  | OEvent e => [IPubBegin e; IOk (ev_id e)]
  | ODisc => [IUnsubAll]
  end.

Definition is_disc (o : op) : bool := match o with ODisc => true | _ => false end.

Definition is_reply_instrb (i : instr) : bool :=
  match i with IEose _ | ICount _ | IOk _ => true | _ => false end.

(** which steps have to wait *)
Definition enabled (s : rstate) (l : label) : bool :=
  match l with
  | LRun c =>
      match c_pc (r_cs s c) with
      | IRegAdd :: _ | IUnsubAll :: _ => match r_pubs s with [] => true | _ => false end
      | ISubAdd _ _ :: _ | ISubDel _ :: _ => match c_rd (r_cs s c) with [] => true | _ => false end
      | IVisit e _ c' ((_, fs) :: _) :: _ =>
          (* a blocking send would wait for room here; trySendCtx has a default clause *)
          g_trysend_has_default || negb (sub_matches e fs) || Nat.ltb (length (c_q (r_cs s c'))) (r_buf s)
      | _ => true
      end
  | _ => true
  end.

Definition start_visit (s : rstate) (c c' : conn) (ord : list str) (e : event) (t : ptag)
           (rem : list conn) (rest : list instr) : rstate :=
  let m := match reg_get c' (r_reg s) with Some m => m | None => [] end in
  let cs1 := upd (r_cs s) c (set_pc (r_cs s c) (IVisit e t c' (reorder ord m) :: IPub e t (remove_conn c' rem) :: rest)) in
  let st' := cs1 c' in
  with_cs s (upd cs1 c' (set_rd st' (c :: c_rd st'))).

Definition run_instr (s : rstate) (c : conn) : rstate :=
  let st := r_cs s c in
  match c_pc st with
  | [] =>
      (* the loop's select sees ctx.Done(): ServeNostr returns, its deferred calls run.  From here on
         this is the disconnect of an idle connection. *)
      if mem_conn c (r_cancel s)
      then mkR (r_buf s) (r_reg s) (r_pubs s) (remove_conn c (r_cancel s))
               (upd (r_cs s) c (mkC [IUnsubAll] (c_q st) (c_hand st) (c_out st) (c_rd st) (c_ctr st)
                                    true (c_ops st ++ [ODisc]) (c_drops st)))
      else s
  | IRegAdd :: rest =>
      mkR (r_buf s) (reg_set c [] (r_reg s)) (r_pubs s) (r_cancel s) (upd (r_cs s) c (set_pc st rest))
  | ISubAdd sub fs :: rest =>
      match reg_get c (r_reg s) with
      | Some m => mkR (r_buf s) (reg_set c (sm_set sub fs m) (r_reg s)) (r_pubs s) (r_cancel s) (upd (r_cs s) c (set_pc st rest))
      | None => with_cs s (upd (r_cs s) c (set_pc st rest))   (* unreachable: the entry exists, see [Inv] *)
      end
  | ISubDel sub :: rest =>
      match reg_get c (r_reg s) with
      | Some m => mkR (r_buf s) (reg_set c (sm_del sub m) (r_reg s)) (r_pubs s) (r_cancel s) (upd (r_cs s) c (set_pc st rest))
      | None => with_cs s (upd (r_cs s) c (set_pc st rest))
      end
  | IEose sub :: rest => with_cs s (upd (r_cs s) c (push_out (set_pc st rest) (MEose sub)))
  | ICount sub :: rest => with_cs s (upd (r_cs s) c (push_out (set_pc st rest) (MCount sub)))
  | IOk id :: rest => with_cs s (upd (r_cs s) c (push_out (set_pc st rest) (MOk id)))
  | IPubBegin e :: rest =>
      let t := (c, c_ctr st) in
      let st' := mkC (IPub e t (List.map fst (r_reg s)) :: rest) (c_q st) (c_hand st) (c_out st) (c_rd st)
                     (S (c_ctr st)) (c_dead st) (c_ops st) (c_drops st) in
      mkR (r_buf s) (r_reg s) (c :: r_pubs s) (r_cancel s) (upd (r_cs s) c st')
  | IPub e t [] :: rest =>
      mkR (r_buf s) (r_reg s) (remove_conn c (r_pubs s)) (r_cancel s) (upd (r_cs s) c (set_pc st rest))
  | IPub e t (c' :: rem) :: rest => start_visit s c c' [] e t (c' :: rem) rest
  | IVisit e t c' [] :: rest =>
      let cs1 := upd (r_cs s) c (set_pc st rest) in
      let st' := cs1 c' in
      with_cs s (upd cs1 c' (set_rd st' (remove_conn c (c_rd st'))))
  | IVisit e t c' ((sub, fs) :: todo) :: rest =>
      let cs1 := upd (r_cs s) c (set_pc st (IVisit e t c' todo :: rest)) in
      with_cs s (upd cs1 c' (send_if_match (r_buf s) e t sub fs (cs1 c')))
  | IUnsubAll :: rest =>
      let st' := mkC rest [] None (c_out st) (c_rd st) (c_ctr st) (c_dead st) (c_ops st) (c_drops st) in
      mkR (r_buf s) (reg_del c (r_reg s)) (r_pubs s) (r_cancel s) (upd (r_cs s) c st')
  end.

Definition step_enabled (s : rstate) (l : label) : rstate :=
  match l with
  | LOp c o =>
      let st := r_cs s c in
      match c_pc st with
      | [] =>
          if c_dead st || mem_conn c (r_cancel s) then s
          else with_cs s (upd (r_cs s) c
                 (mkC (program s c o) (c_q st) (c_hand st) (c_out st) (c_rd st) (c_ctr st)
                      (is_disc o) (c_ops st ++ [o]) (c_drops st)))
      | _ :: _ =>
          (* the recv loop is busy: a client message waits in recv (the label has no effect); the
             cancellation of the session's context, however, happens at once and is noticed later *)
          if is_disc o && negb (c_dead st) && negb (mem_conn c (r_cancel s))
          then mkR (r_buf s) (r_reg s) (r_pubs s) (c :: r_cancel s) (r_cs s)
          else s
      end
  | LRun c => run_instr s c
  | LVisit c c' ord =>
      match c_pc (r_cs s c) with
      | IPub e t rem :: rest => if mem_conn c' rem then start_visit s c c' ord e t rem rest else s
      | _ => s
      end
  | LTake c =>
      let st := r_cs s c in
      if c_dead st then s else
      match c_hand st, c_q st with
      | None, m :: q' =>
          with_cs s (upd (r_cs s) c (mkC (c_pc st) q' (Some m) (c_out st) (c_rd st) (c_ctr st) (c_dead st) (c_ops st) (c_drops st)))
      | _, _ => s
      end
  | LDeliver c =>
      let st := r_cs s c in
      if c_dead st then s else
      match c_hand st with
      | Some m =>
          with_cs s (upd (r_cs s) c (mkC (c_pc st) (c_q st) None (c_out st ++ [m]) (c_rd st) (c_ctr st) (c_dead st) (c_ops st) (c_drops st)))
      | None => s
      end
  | LSkip c =>
      let st := r_cs s c in
      match c_pc st with
      | i :: rest =>
          if mem_conn c (r_cancel s) && is_reply_instrb i then with_cs s (upd (r_cs s) c (set_pc st rest)) else s
      | [] => s
      end
  end.

Definition step (s : rstate) (l : label) : rstate :=
  if enabled s l then step_enabled s l else s.

Definition run (s : rstate) (tr : list label) : rstate := fold_left step tr s.

Inductive reachable (buf : nat) : rstate -> Prop :=
| reach_init : reachable buf (r_init buf)
| reach_step s l : reachable buf s -> reachable buf (step s l).

(* ------------------------------------------------------------------ *)
(** * Observations *)

Definition hand_list (st : cst) : list smsg := match c_hand st with Some m => [m] | None => [] end.

(** everything that was enqueued for the connection and not dropped, in
    channel order: sent, in the forwarder's hand, still queued *)
Definition flow (st : cst) : list smsg := c_out st ++ hand_list st ++ c_q st.

(** the wire view of a message (no publication tag) *)
Inductive wmsg := WEose (sub : str) | WOk (id : str) | WCount (sub : str) | WEvent (sub : str) (e : event).
Definition erase (m : smsg) : wmsg :=
  match m with
  | MEose s => WEose s | MOk i => WOk i | MCount s => WCount s | MEvent s e _ => WEvent s e
  end.

Definition is_event_msg (m : smsg) : bool := match m with MEvent _ _ _ => true | _ => false end.
Definition replies (l : list smsg) : list smsg := filter (fun m => negb (is_event_msg m)) l.

Definition reply_of (o : op) : list smsg :=
  match o with
  | OReq sub _ => [MEose sub]
  | OClose _ => []
  | OCount sub => [MCount sub]
  | OEvent e => [MOk (ev_id e)]
  | ODisc => []
  end.

Definition reply_of_instr (i : instr) : list smsg :=
  match i with
  | IEose sub => [MEose sub]
  | ICount sub => [MCount sub]
  | IOk id => [MOk id]
  | _ => []
  end.

Definition ptag_eqb (a b : ptag) : bool := Nat.eqb (fst a) (fst b) && Nat.eqb (snd a) (snd b).

Definition tag_of (m : smsg) : option ptag := match m with MEvent _ _ t => Some t | _ => None end.

(** the sequence numbers of publisher [p]'s copies in a message list *)
Fixpoint pub_seq (p : conn) (l : list smsg) : list nat :=
  match l with
  | [] => []
  | MEvent _ _ (p', n) :: l' => if Nat.eqb p p' then n :: pub_seq p l' else pub_seq p l'
  | _ :: l' => pub_seq p l'
  end.

Definition is_copy (sub : str) (t : ptag) (m : smsg) : bool :=
  match m with
  | MEvent sub' _ t' => str_eqb sub sub' && ptag_eqb t t'
  | _ => false
  end.

(** labels that end the subscription [sub] of connection [c'] (or may): the
    client's CLOSE, a REQ with the same id, the end of the session *)
Definition ends_sub (c' : conn) (sub : str) (l : label) : bool :=
  match l with
  | LOp c (OClose sub') => Nat.eqb c c' && str_eqb sub sub'
  | LOp c (OReq sub' _) => Nat.eqb c c' && str_eqb sub sub'
  | LOp c ODisc => Nat.eqb c c'
  | _ => false
  end.

Definition is_req_of (c' : conn) (sub : str) (l : label) : bool :=
  match l with
  | LOp c (OReq sub' _) => Nat.eqb c c' && str_eqb sub sub'
  | _ => false
  end.

Definition sub_of (s : rstate) (c : conn) (sub : str) : option (list rfilter) :=
  match reg_get c (r_reg s) with
  | Some m => assoc sub m
  | None => None
  end.

(** labels of the goroutines of connection [c] (its recv loop) *)
Definition label_of_conn (c : conn) (l : label) : bool :=
  match l with
  | LOp c' _ | LRun c' | LVisit c' _ _ | LSkip c' => Nat.eqb c c'
  | _ => false
  end.
