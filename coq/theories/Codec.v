(* Codec.v — C10: model of the wire codec of message.go on the JSON AST of
   Json.v, branch for branch, plus the well-formedness predicates of the
   round-trip theorems.  Definitions only; proofs are in CodecProofs.v.

   What is modelled: every UnmarshalJSON / MarshalJSON of message.go,
   ParseClientMsg (regexp pre-check on the token level, label dispatch),
   parseMachineReadablePrefixMsg, anySliceAs.  Arity tests, label tests, the
   member-count test of Event, the key dispatch of ReqFilter, all labels and
   machine-readable prefixes and the regexp text come from Gen/GenCodec.v,
   i.e. from the current source.

   What is encoding/json and therefore only mirrored, not derived: the
   behaviour of json.Unmarshal on typed targets (JSON null leaves a string /
   bool / slice / struct field at its zero value without error; a JSON value of
   another type is an error), map[string]any semantics for duplicate members,
   case-insensitive member matching and member-by-member assignment when
   decoding into a struct, DisallowUnknownFields, omitempty. *)
From Moc Require Import Base Json CodecMsg.
From Moc.Gen Require Import GenCodec.
Open Scope Z_scope.

(* ------------------------------------------------------------------ *)
(** * Member names *)

Definition k_id : str := [105; 100]%N.  (* "id" *)
Definition k_pubkey : str := [112; 117; 98; 107; 101; 121]%N.  (* "pubkey" *)
Definition k_created_at : str := [99; 114; 101; 97; 116; 101; 100; 95; 97; 116]%N.  (* "created_at" *)
Definition k_kind : str := [107; 105; 110; 100]%N.  (* "kind" *)
Definition k_tags : str := [116; 97; 103; 115]%N.  (* "tags" *)
Definition k_content : str := [99; 111; 110; 116; 101; 110; 116]%N.  (* "content" *)
Definition k_sig : str := [115; 105; 103]%N.  (* "sig" *)
Definition k_ids : str := [105; 100; 115]%N.  (* "ids" *)
Definition k_authors : str := [97; 117; 116; 104; 111; 114; 115]%N.  (* "authors" *)
Definition k_kinds : str := [107; 105; 110; 100; 115]%N.  (* "kinds" *)
Definition k_since : str := [115; 105; 110; 99; 101]%N.  (* "since" *)
Definition k_until : str := [117; 110; 116; 105; 108]%N.  (* "until" *)
Definition k_limit : str := [108; 105; 109; 105; 116]%N.  (* "limit" *)
Definition k_count : str := [99; 111; 117; 110; 116]%N.  (* "count" *)
Definition k_approximate : str := [97; 112; 112; 114; 111; 120; 105; 109; 97; 116; 101]%N.  (* "approximate" *)
Definition hash : N := 35%N.   (* '#' *)

(* ------------------------------------------------------------------ *)
(** * json.Unmarshal into typed targets (encoding/json, mirrored) *)

(** [json.Unmarshal(raw, &s)], s a zero string: null leaves it "" *)
Definition un_string (j : jv) : res str :=
  match j with
  | JStr s => Val s
  | JNull => Val []
  | _ => Err
  end.

Definition un_bool (j : jv) : res bool :=
  match j with
  | JBool b => Val b
  | JNull => Val false
  | _ => Err
  end.

(** [var elems []json.RawMessage; json.Unmarshal(b, &elems)] *)
Definition un_raw_array (j : jv) : res (list jv) :=
  match j with
  | JArr l => Val l
  | JNull => Val []
  | _ => Err
  end.

(** [var elems []string; json.Unmarshal(b, &elems)]: a null element is "" *)
Definition un_string_array (j : jv) : res (list str) :=
  match j with
  | JArr l => rmapM un_string l
  | JNull => Val []
  | _ => Err
  end.

(** [dec.Decode(&obj)] with [obj map[string]any]: the member list (source
    order, duplicates kept; read through obj_get / obj_len / obj_norm) *)
Definition un_object (j : jv) : res (list (str * jv)) :=
  match j with
  | JObj m => Val m
  | JNull => Val []        (* nil map *)
  | _ => Err
  end.

(* ------------------------------------------------------------------ *)
(** * anySliceAs and the typed reads of map[string]any members *)

(** [v.(string)] on a map member *)
Definition as_string (v : jv) : res str :=
  match v with JStr s => Val s | _ => Err end.

(** [v.(json.Number)] then [.Int64()] *)
Definition as_int64 (v : jv) : res Z :=
  match v with
  | JNum n => match int64_of n with Some z => Val z | None => Err end
  | _ => Err
  end.

(** [v.([]any)] then [anySliceAs[string]] (the decoder never yields a nil
    []any for a JSON array, so the nil branch of anySliceAs is not reached) *)
Definition as_strings (v : jv) : res (list str) :=
  match v with JArr l => rmapM as_string l | _ => Err end.

Definition as_int64s (v : jv) : res (list Z) :=
  match v with JArr l => rmapM as_int64 l | _ => Err end.

(* ------------------------------------------------------------------ *)
(** * Event.UnmarshalJSON *)

Definition get_member (k : str) (obj : list (str * jv)) : res jv :=
  match obj_get k obj with Some v => Val v | None => Err end.

Definition dec_event (j : jv) : res gevent :=
  obj <- un_object j ;;
  if g_event_nfields_bad (obj_len obj) then Err else
  id <- (v <- get_member k_id obj ;; as_string v) ;;
  pk <- (v <- get_member k_pubkey obj ;; as_string v) ;;
  ts <- (v <- get_member k_created_at obj ;; as_int64 v) ;;
  kind <- (v <- get_member k_kind obj ;; as_int64 v) ;;
  tags <- (v <- get_member k_tags obj ;;
           match v with
           | JArr l => rmapM (fun t => match t with
                                       | JArr l' => ss <- rmapM as_string l' ;; Val (Some ss)
                                       | _ => Err
                                       end) l
           | _ => Err
           end) ;;
  content <- (v <- get_member k_content obj ;; as_string v) ;;
  sig <- (v <- get_member k_sig obj ;; as_string v) ;;
  Val (mkGEvent id pk ts kind (Some tags) content sig).

(* ------------------------------------------------------------------ *)
(** * ReqFilter.UnmarshalJSON *)

Definition byte_at (i : nat) (k : str) : Z := Z.of_N (nth i k 0%N).

(** [ret.Tags[k] = vs] on a Go map kept as an association list *)
Fixpoint tags_set (k : str) (v : option (list str)) (m : list (str * option (list str)))
  : list (str * option (list str)) :=
  match m with
  | [] => [(k, v)]
  | (k', v') :: m' => if str_eqb k k' then (k, v) :: m' else (k', v') :: tags_set k v m'
  end.

Definition filter_step (f : gfilter) (kv : str * jv) : res gfilter :=
  let (k, v) := kv in
  if g_fkey_ids k then
    l <- as_strings v ;;
    Val (mkGFilter (Some l) (gf_authors f) (gf_kinds f) (gf_tags f) (gf_since f) (gf_until f) (gf_limit f))
  else if g_fkey_authors k then
    l <- as_strings v ;;
    Val (mkGFilter (gf_ids f) (Some l) (gf_kinds f) (gf_tags f) (gf_since f) (gf_until f) (gf_limit f))
  else if g_fkey_kinds k then
    l <- as_int64s v ;;
    Val (mkGFilter (gf_ids f) (gf_authors f) (Some l) (gf_tags f) (gf_since f) (gf_until f) (gf_limit f))
  else if g_fkey_tag (zlen k) (byte_at 0 k) (byte_at 1 k) then
    vs <- as_strings v ;;
    match k with
    | _ :: c :: _ =>     (* k[1:2] *)
        let m := match gf_tags f with None => [] | Some m => m end in
        Val (mkGFilter (gf_ids f) (gf_authors f) (gf_kinds f) (Some (tags_set [c] (Some vs) m))
                       (gf_since f) (gf_until f) (gf_limit f))
    | _ => Panic
    end
  else if g_fkey_since k then
    z <- as_int64 v ;;
    Val (mkGFilter (gf_ids f) (gf_authors f) (gf_kinds f) (gf_tags f) (Some z) (gf_until f) (gf_limit f))
  else if g_fkey_until k then
    z <- as_int64 v ;;
    Val (mkGFilter (gf_ids f) (gf_authors f) (gf_kinds f) (gf_tags f) (gf_since f) (Some z) (gf_limit f))
  else if g_fkey_limit k then
    z <- as_int64 v ;;
    Val (mkGFilter (gf_ids f) (gf_authors f) (gf_kinds f) (gf_tags f) (gf_since f) (gf_until f) (Some z))
  else Err.

(** [for k, v := range obj]: Go visits the members in an unspecified order.
    Whether a member is refused does not depend on the filter built so far and
    distinct keys write distinct parts, so every order gives the same outcome
    (up to which of several errors is reported and the order of the Tags
    association list); the model walks the de-duplicated members in source
    order. *)
Fixpoint filter_fold (m : list (str * jv)) (f : gfilter) : res gfilter :=
  match m with
  | [] => Val f
  | kv :: m' => f' <- filter_step f kv ;; filter_fold m' f'
  end.

Definition dec_filter (j : jv) : res gfilter :=
  match j with
  | JNull => Val empty_gfilter                 (* bytes.Equal(b, nullJSON) *)
  | JObj m => filter_fold (obj_norm m) empty_gfilter
  | _ => Err
  end.

(* ------------------------------------------------------------------ *)
(** * parseMachineReadablePrefixMsg *)

Fixpoint has_prefix (p s : str) : bool :=
  match p, s with
  | [], _ => true
  | x :: p', y :: s' => N.eqb x y && has_prefix p' s'
  | _ :: _, [] => false
  end.

Definition parse_prefix (msg : str) : str * str :=
  if has_prefix g_MachineReadablePrefixPoW msg
  then (g_MachineReadablePrefixPoW, skipn (length g_MachineReadablePrefixPoW) msg)
  else if has_prefix g_MachineReadablePrefixDuplicate msg
  then (g_MachineReadablePrefixDuplicate, skipn (length g_MachineReadablePrefixDuplicate) msg)
  else if has_prefix g_MachineReadablePrefixBlocked msg
  then (g_MachineReadablePrefixBlocked, skipn (length g_MachineReadablePrefixBlocked) msg)
  else if has_prefix g_MachineReadablePrefixRateLimited msg
  then (g_MachineReadablePrefixRateLimited, skipn (length g_MachineReadablePrefixRateLimited) msg)
  else if has_prefix g_MachineReadablePrefixInvalid msg
  then (g_MachineReadablePrefixInvalid, skipn (length g_MachineReadablePrefixInvalid) msg)
  else if has_prefix g_MachineReadablePrefixError msg
  then (g_MachineReadablePrefixError, skipn (length g_MachineReadablePrefixError) msg)
  else ([], msg).

(* ------------------------------------------------------------------ *)
(** * The five client decoders.  [JNull] is the early return of
      [bytes.Equal(b, nullJSON)]: the receiver is left untouched (zero). *)

Definition dec_filters (l : list jv) : res (list (option gfilter)) :=
  rmapM (fun j => f <- dec_filter j ;; Val (Some f)) l.

Definition dec_client_event (j : jv) : res cmsg :=
  match j with
  | JNull => Val (CEvent None)
  | _ =>
      elems <- un_raw_array j ;;
      if g_cevent_arity_bad (zlen elems) then Err else
      e0 <- idx 0 elems ;;
      label <- un_string e0 ;;
      if g_cevent_label_bad label then Err else
      e1 <- idx 1 elems ;;
      ev <- dec_event e1 ;;
      Val (CEvent (Some ev))
  end.

Definition dec_client_req (j : jv) : res cmsg :=
  match j with
  | JNull => Val (CReq [] [])
  | _ =>
      elems <- un_raw_array j ;;
      if g_creq_arity_bad (zlen elems) then Err else
      e0 <- idx 0 elems ;;
      label <- un_string e0 ;;
      if g_creq_label_bad label then Err else
      e1 <- idx 1 elems ;;
      sub <- un_string e1 ;;
      fs <- dec_filters (skipn 2 elems) ;;
      Val (CReq sub fs)
  end.

Definition dec_client_close (j : jv) : res cmsg :=
  match j with
  | JNull => Val (CClose [])
  | _ =>
      elems <- un_string_array j ;;
      if g_cclose_arity_bad (zlen elems) then Err else
      label <- idx 0 elems ;;
      if g_cclose_label_bad label then Err else
      sub <- idx 1 elems ;;
      Val (CClose sub)
  end.

Definition dec_client_auth (j : jv) : res cmsg :=
  match j with
  | JNull => Val (CAuth None)
  | _ =>
      elems <- un_raw_array j ;;
      if g_cauth_arity_bad (zlen elems) then Err else
      e0 <- idx 0 elems ;;
      label <- un_string e0 ;;
      if g_cauth_label_bad label then Err else
      e1 <- idx 1 elems ;;
      ev <- dec_event e1 ;;
      Val (CAuth (Some ev))
  end.

Definition dec_client_count (j : jv) : res cmsg :=
  match j with
  | JNull => Val (CCount [] [])
  | _ =>
      elems <- un_raw_array j ;;
      if g_ccount_arity_bad (zlen elems) then Err else
      e0 <- idx 0 elems ;;
      label <- un_string e0 ;;
      if g_ccount_label_bad label then Err else
      e1 <- idx 1 elems ;;
      sub <- un_string e1 ;;
      fs <- dec_filters (skipn 2 elems) ;;
      Val (CCount sub fs)
  end.

(* ------------------------------------------------------------------ *)
(** * The seven server decoders *)

Definition dec_server_eose (j : jv) : res smsg :=
  match j with
  | JNull => Val (SEose [])
  | _ =>
      elems <- un_string_array j ;;
      if g_seose_arity_bad (zlen elems) then Err else
      label <- idx 0 elems ;;
      if g_seose_label_bad label then Err else
      sub <- idx 1 elems ;;
      Val (SEose sub)
  end.

Definition dec_server_event (j : jv) : res smsg :=
  match j with
  | JNull => Val (SEvent [] None)
  | _ =>
      elems <- un_raw_array j ;;
      if g_sevent_arity_bad (zlen elems) then Err else
      e0 <- idx 0 elems ;;
      label <- un_string e0 ;;
      if g_sevent_label_bad label then Err else
      e1 <- idx 1 elems ;;
      sub <- un_string e1 ;;
      e2 <- idx 2 elems ;;
      ev <- dec_event e2 ;;
      Val (SEvent sub (Some ev))
  end.

Definition dec_server_notice (j : jv) : res smsg :=
  match j with
  | JNull => Val (SNotice [])
  | _ =>
      elems <- un_string_array j ;;
      if g_snotice_arity_bad (zlen elems) then Err else
      label <- idx 0 elems ;;
      if g_snotice_label_bad label then Err else
      m <- idx 1 elems ;;
      Val (SNotice m)
  end.

Definition dec_server_ok (j : jv) : res smsg :=
  match j with
  | JNull => Val (SOk [] false [] [])
  | _ =>
      elems <- un_raw_array j ;;
      if g_sok_arity_bad (zlen elems) then Err else
      e0 <- idx 0 elems ;;
      label <- un_string e0 ;;
      if g_sok_label_bad label then Err else
      e1 <- idx 1 elems ;;
      id <- un_string e1 ;;
      e2 <- idx 2 elems ;;
      acc <- un_bool e2 ;;
      e3 <- idx 3 elems ;;
      raw <- un_string e3 ;;
      let (pfx, msg) := parse_prefix raw in
      Val (SOk id acc msg pfx)
  end.

Definition dec_server_auth (j : jv) : res smsg :=
  match j with
  | JNull => Val (SAuth [])
  | _ =>
      elems <- un_string_array j ;;
      if g_sauth_arity_bad (zlen elems) then Err else
      label <- idx 0 elems ;;
      if g_sauth_label_bad label then Err else
      c <- idx 1 elems ;;
      Val (SAuth c)
  end.

(** decoding the COUNT payload into
      struct{ Count uint64 `json:"count"`; Approximate *bool `json:"approximate,omitempty"` }
    with DisallowUnknownFields: members are assigned one by one in source
    order; names match case-insensitively; null leaves a uint64 unchanged and
    resets a pointer to nil. *)
Definition ascii_lower (c : N) : N :=
  if ((65 <=? c) && (c <=? 90))%N then (c + 32)%N else c.

Definition fold_eq (k name : str) : bool := str_eqb (List.map ascii_lower k) name.

Fixpoint count_payload (m : list (str * jv)) (cnt : N) (ap : option bool) : res (N * option bool) :=
  match m with
  | [] => Val (cnt, ap)
  | (k, v) :: m' =>
      if fold_eq k k_count then
        match v with
        | JNull => count_payload m' cnt ap
        | JNum n => match uint64_of n with Some c => count_payload m' c ap | None => Err end
        | _ => Err
        end
      else if fold_eq k k_approximate then
        match v with
        | JNull => count_payload m' cnt None
        | JBool b => count_payload m' cnt (Some b)
        | _ => Err
        end
      else Err
  end.

Definition dec_count_payload (j : jv) : res (N * option bool) :=
  match j with
  | JNull => Val (0%N, None)
  | JObj m => count_payload m 0%N None
  | _ => Err
  end.

Definition dec_server_count (j : jv) : res smsg :=
  match j with
  | JNull => Val (SCount [] 0%N None)
  | _ =>
      elems <- un_raw_array j ;;
      if g_scount_arity_bad (zlen elems) then Err else
      e0 <- idx 0 elems ;;
      label <- un_string e0 ;;
      if g_scount_label_bad label then Err else
      e1 <- idx 1 elems ;;
      sub <- un_string e1 ;;
      e2 <- idx 2 elems ;;
      p <- dec_count_payload e2 ;;
      Val (SCount sub (fst p) (snd p))
  end.

Definition dec_server_closed (j : jv) : res smsg :=
  match j with
  | JNull => Val (SClosed [] [] [])
  | _ =>
      elems <- un_string_array j ;;
      if g_sclosed_arity_bad (zlen elems) then Err else
      label <- idx 0 elems ;;
      if g_sclosed_label_bad label then Err else
      sub <- idx 1 elems ;;
      raw <- idx 2 elems ;;
      let (pfx, msg) := parse_prefix raw in
      Val (SClosed sub msg pfx)
  end.

(* ------------------------------------------------------------------ *)
(** * ParseClientMsg *)

(** What the label regexp looks at is below the AST: a text is given as its
    JSON value plus two token-level facts. *)
Record ctext := mkCText {
  ct_lead_ws : bool;        (* white space before the first token *)
  ct_label_escaped : bool;  (* the first array element, if a string, is spelled with a backslash escape *)
  ct_json : jv
}.

Definition plain_text (j : jv) : ctext := mkCText false false j.

(** the two spellings of the pattern the model can interpret *)
Definition re_anchored : str :=       (* caret, bracket, \s star, quote, group of \w star, quote *)
  [94; 92; 91; 92; 115; 42; 34; 40; 92; 119; 42; 41; 34]%N.
Definition re_lead_ws : str :=        (* the same with \s star between caret and bracket *)
  [94; 92; 115; 42; 92; 91; 92; 115; 42; 34; 40; 92; 119; 42; 41; 34]%N.

Definition regexp_known : bool :=
  str_eqb g_client_msg_regexp re_anchored || str_eqb g_client_msg_regexp re_lead_ws.
Definition lead_ws_allowed : bool := str_eqb g_client_msg_regexp re_lead_ws.

(** \w of Go's regexp: [0-9A-Za-z_] *)
Definition word_char (c : N) : bool :=
  ((48 <=? c) && (c <=? 57) || (65 <=? c) && (c <=? 90) || (c =? 95) || (97 <=? c) && (c <=? 122))%N.

(** [clientMsgRegexp.FindSubmatch(b)] on a text that is valid JSON: the first
    byte must be '[' (no leading white space unless the pattern allows it, and
    the value is an array), the next token a string spelled with word
    characters only (so no escapes); the capture is that string. *)
Definition label_precheck (t : ctext) : option str :=
  if ct_lead_ws t && negb lead_ws_allowed then None else
  match ct_json t with
  | JArr (JStr l :: _) =>
      if ct_label_escaped t then None
      else if forallb word_char l then Some l else None
  | _ => None
  end.

Definition parse_client_msg (t : ctext) : res cmsg :=
  match label_precheck t with
  | None => Err
  | Some l =>
      if str_eqb l g_MsgLabelEvent then dec_client_event (ct_json t)
      else if str_eqb l g_MsgLabelReq then dec_client_req (ct_json t)
      else if str_eqb l g_MsgLabelClose then dec_client_close (ct_json t)
      else if str_eqb l g_MsgLabelAuth then dec_client_auth (ct_json t)
      else if str_eqb l g_MsgLabelCount then dec_client_count (ct_json t)
      else Err
  end.

(* ------------------------------------------------------------------ *)
(** * Encoders (MarshalJSON; Event through its struct tags) *)

Definition enc_strs (l : list str) : jv := JArr (List.map JStr l).

Definition enc_tag (t : gtag) : jv :=
  match t with None => JNull | Some l => enc_strs l end.

Definition enc_event (e : gevent) : jv :=
  JObj [ (k_id, JStr (ge_id e)); (k_pubkey, JStr (ge_pk e));
         (k_created_at, JInt (ge_ts e)); (k_kind, JInt (ge_kind e));
         (k_tags, match ge_tags e with None => JNull | Some l => JArr (List.map enc_tag l) end);
         (k_content, JStr (ge_content e)); (k_sig, JStr (ge_sig e)) ].

Definition enc_event_ptr (e : option gevent) : jv :=
  match e with None => JNull | Some e => enc_event e end.

Definition opt_member {A} (k : str) (o : option A) (f : A -> jv) : list (str * jv) :=
  match o with None => [] | Some x => [(k, f x)] end.

Definition enc_filter (f : gfilter) : jv :=
  JObj (opt_member k_ids (gf_ids f) enc_strs ++
        opt_member k_authors (gf_authors f) enc_strs ++
        opt_member k_kinds (gf_kinds f) (fun l => JArr (List.map JInt l)) ++
        match gf_tags f with
        | None => []
        | Some m => List.map (fun kv => (hash :: fst kv,
                                         match snd kv with None => JNull | Some l => enc_strs l end)) m
        end ++
        opt_member k_since (gf_since f) JInt ++
        opt_member k_until (gf_until f) JInt ++
        opt_member k_limit (gf_limit f) JInt).

Definition enc_filter_ptr (f : option gfilter) : jv :=
  match f with None => JNull | Some f => enc_filter f end.

Definition enc_cmsg (m : cmsg) : jv :=
  match m with
  | CEvent e => JArr [JStr g_MsgLabelEvent; enc_event_ptr e]
  | CReq sub fs => JArr (JStr g_MsgLabelReq :: JStr sub :: List.map enc_filter_ptr fs)
  | CClose sub => JArr [JStr g_MsgLabelClose; JStr sub]
  | CAuth e => JArr [JStr g_MsgLabelAuth; enc_event_ptr e]
  | CCount sub fs => JArr (JStr g_MsgLabelCount :: JStr sub :: List.map enc_filter_ptr fs)
  end.

Definition enc_smsg (m : smsg) : jv :=
  match m with
  | SEose sub => JArr [JStr g_MsgLabelEOSE; JStr sub]
  | SEvent sub e => JArr [JStr g_MsgLabelEvent; JStr sub; enc_event_ptr e]
  | SNotice s => JArr [JStr g_MsgLabelNotice; JStr s]
  | SOk id acc msg pfx => JArr [JStr g_MsgLabelOK; JStr id; JBool acc; JStr (pfx ++ msg)]
  | SAuth c => JArr [JStr g_MsgLabelAuth; JStr c]
  | SCount sub n ap =>
      JArr [JStr g_MsgLabelCount; JStr sub;
            JObj ((k_count, JNum (num_of_N n)) :: opt_member k_approximate ap JBool)]
  | SClosed sub msg pfx => JArr [JStr g_MsgLabelClosed; JStr sub; JStr (pfx ++ msg)]
  end.

(* ------------------------------------------------------------------ *)
(** * Dispatch on the Go target type (what the harness names) *)

Definition dec_as (t : wty) (j : jv) : res wval :=
  match t with
  | TEvent => rmap WEvent (dec_event j)
  | TFilter => rmap WFilter (dec_filter j)
  | TCEvent => rmap WC (dec_client_event j)
  | TCReq => rmap WC (dec_client_req j)
  | TCClose => rmap WC (dec_client_close j)
  | TCAuth => rmap WC (dec_client_auth j)
  | TCCount => rmap WC (dec_client_count j)
  | TSEose => rmap WS (dec_server_eose j)
  | TSEvent => rmap WS (dec_server_event j)
  | TSNotice => rmap WS (dec_server_notice j)
  | TSOk => rmap WS (dec_server_ok j)
  | TSAuth => rmap WS (dec_server_auth j)
  | TSCount => rmap WS (dec_server_count j)
  | TSClosed => rmap WS (dec_server_closed j)
  end.

Definition enc_wval (v : wval) : jv :=
  match v with
  | WEvent e => enc_event e
  | WFilter f => enc_filter f
  | WC m => enc_cmsg m
  | WS m => enc_smsg m
  end.

Definition ty_of (v : wval) : wty :=
  match v with
  | WEvent _ => TEvent
  | WFilter _ => TFilter
  | WC (CEvent _) => TCEvent
  | WC (CReq _ _) => TCReq
  | WC (CClose _) => TCClose
  | WC (CAuth _) => TCAuth
  | WC (CCount _ _) => TCCount
  | WS (SEose _) => TSEose
  | WS (SEvent _ _) => TSEvent
  | WS (SNotice _) => TSNotice
  | WS (SOk _ _ _ _) => TSOk
  | WS (SAuth _) => TSAuth
  | WS (SCount _ _ _) => TSCount
  | WS (SClosed _ _ _) => TSClosed
  end.

(* ------------------------------------------------------------------ *)
(** * Specification side: labels and well-formed ("completely filled",
      re-encodable) values, written from the property text.  The label and
      prefix texts below are literals of the specification, not the generated
      constants. *)

Definition L_EVENT : str := [69; 86; 69; 78; 84]%N.
Definition L_REQ : str := [82; 69; 81]%N.
Definition L_CLOSE : str := [67; 76; 79; 83; 69]%N.
Definition L_AUTH : str := [65; 85; 84; 72]%N.
Definition L_COUNT : str := [67; 79; 85; 78; 84]%N.
Definition L_EOSE : str := [69; 79; 83; 69]%N.
Definition L_NOTICE : str := [78; 79; 84; 73; 67; 69]%N.
Definition L_OK : str := [79; 75]%N.
Definition L_CLOSED : str := [67; 76; 79; 83; 69; 68]%N.

Definition label_of_cmsg (m : cmsg) : str :=
  match m with
  | CEvent _ => L_EVENT | CReq _ _ => L_REQ | CClose _ => L_CLOSE
  | CAuth _ => L_AUTH | CCount _ _ => L_COUNT
  end.

Definition label_of_smsg (m : smsg) : str :=
  match m with
  | SEose _ => L_EOSE | SEvent _ _ => L_EVENT | SNotice _ => L_NOTICE | SOk _ _ _ _ => L_OK
  | SAuth _ => L_AUTH | SCount _ _ _ => L_COUNT | SClosed _ _ _ => L_CLOSED
  end.

(** the six machine-readable prefixes of NIP-01 *)
Definition mr_prefixes : list str :=
  [ [112; 111; 119; 58; 32]%N;                                              (* "pow: " *)
    [100; 117; 112; 108; 105; 99; 97; 116; 101; 58; 32]%N;                  (* "duplicate: " *)
    [98; 108; 111; 99; 107; 101; 100; 58; 32]%N;                            (* "blocked: " *)
    [114; 97; 116; 101; 45; 108; 105; 109; 105; 116; 101; 100; 58; 32]%N;   (* "rate-limited: " *)
    [105; 110; 118; 97; 108; 105; 100; 58; 32]%N;                           (* "invalid: " *)
    [101; 114; 114; 111; 114; 58; 32]%N ].                                  (* "error: " *)

(** a (prefix, message) pair is normalised when the prefix is one of the six,
    or is empty and the message itself does not begin with one of them *)
Definition reason_normalb (pfx msg : str) : bool :=
  mem_str pfx mr_prefixes ||
  (match pfx with [] => true | _ => false end) && negb (existsb (fun p => has_prefix p msg) mr_prefixes).

Definition is_letter (c : N) : bool :=
  ((65 <=? c) && (c <=? 90) || (97 <=? c) && (c <=? 122))%N.

Fixpoint nodup_strb (l : list str) : bool :=
  match l with
  | [] => true
  | x :: l' => negb (mem_str x l') && nodup_strb l'
  end.

Definition is_some {A} (o : option A) : bool := match o with Some _ => true | None => false end.
Definition opt_all {A} (p : A -> bool) (o : option A) : bool := match o with None => true | Some x => p x end.

(** an event value is filled: int64 numbers, Tags a non-nil list of non-nil tags *)
Definition wf_eventb (e : gevent) : bool :=
  int64_okb (ge_ts e) && int64_okb (ge_kind e) &&
  match ge_tags e with
  | None => false
  | Some l => forallb is_some l
  end.

(** a filter value the codec can carry: int64 numbers; Tags nil or a non-empty
    map from one-letter names to non-nil value lists (an empty map encodes as
    nothing and comes back nil) *)
Definition wf_filterb (f : gfilter) : bool :=
  opt_all (forallb int64_okb) (gf_kinds f) &&
  opt_all int64_okb (gf_since f) && opt_all int64_okb (gf_until f) && opt_all int64_okb (gf_limit f) &&
  match gf_tags f with
  | None => true
  | Some m =>
      negb (Nat.eqb (length m) 0) &&
      nodup_strb (List.map fst m) &&
      forallb (fun kv => match fst kv with [c] => is_letter c | _ => false end && is_some (snd kv)) m
  end.

Definition wf_filtersb (fs : list (option gfilter)) : bool :=
  negb (Nat.eqb (length fs) 0) && forallb (fun f => match f with Some f => wf_filterb f | None => false end) fs.

Definition wf_cmsgb (m : cmsg) : bool :=
  match m with
  | CEvent (Some e) => wf_eventb e
  | CEvent None => false
  | CReq _ fs => wf_filtersb fs
  | CClose _ => true
  | CAuth (Some e) => wf_eventb e
  | CAuth None => false
  | CCount _ fs => wf_filtersb fs
  end.

Definition wf_smsgb (m : smsg) : bool :=
  match m with
  | SEose _ => true
  | SEvent _ (Some e) => wf_eventb e
  | SEvent _ None => false
  | SNotice _ => true
  | SOk _ _ msg pfx => reason_normalb pfx msg
  | SAuth _ => true
  | SCount _ n _ => uint64_okb n
  | SClosed _ msg pfx => reason_normalb pfx msg
  end.

Definition wf_wvalb (v : wval) : bool :=
  match v with
  | WEvent e => wf_eventb e
  | WFilter f => wf_filterb f
  | WC m => wf_cmsgb m
  | WS m => wf_smsgb m
  end.

Definition wf_event (e : gevent) : Prop := wf_eventb e = true.
Definition wf_filter (f : gfilter) : Prop := wf_filterb f = true.
Definition wf_cmsg (m : cmsg) : Prop := wf_cmsgb m = true.
Definition wf_smsg (m : smsg) : Prop := wf_smsgb m = true.
Definition wf_wval (v : wval) : Prop := wf_wvalb v = true.

(** the first element of a JSON array, if it is a string *)
Definition first_label (j : jv) : option str :=
  match j with JArr (JStr l :: _) => Some l | _ => None end.
