(* RouterHistOracle.v — C07: the boolean oracles of RouterSpec.v accept the
   timed history of every schedule of the model that ends quiescent. *)
From Moc Require Import Base Match MatchProofs Router RouterSpec RouterHist RouterLemmas RouterFrame RouterTrans RouterData
  RouterMust RouterEnv RouterInv RouterDataInv RouterOnce RouterOrder RouterReplies RouterProofs
  RouterHistBase RouterHistInv RouterHistCopy RouterHistReplies.
From Coq Require Import Sorted.
Open Scope Z_scope.

(* ------------------------------------------------------------------ *)
(** * All invariants together *)

Record AllInv (buf : nat) (st : istate) : Prop := mkAll {
  a_reach : reachable buf (i_s st);
  a_h : HInv st;
  a_p : PubInv st;
  a_a : AInv st;
  a_k : KInv st;
  a_m : MInv st;
  a_c : CopyInv st;
  a_o : OutInv st;
  a_f : FullInv st;
  a_r : RHInv st
}.

Lemma AllInv_init buf : AllInv buf (i_init buf).
Proof.
  constructor; [constructor | apply HInv_init | apply PubInv_init | apply AInv_init | apply KInv_init | apply MInv_init
               | apply CopyInv_init | intro x; constructor | apply FullInv_init | apply RHInv_init].
Qed.

Lemma AllInv_step buf st l : AllInv buf st -> AllInv buf (istep st l).
Proof.
  intros [R HI PI AI KI MI CI OI FI RH]. constructor.
  - rewrite istep_s. now constructor.
  - now apply (HInv_step buf).
  - eapply PubInv_step; eassumption.
  - eapply AInv_step; eassumption.
  - eapply KInv_step; eassumption.
  - eapply MInv_step; eassumption.
  - eapply CopyInv_step; eassumption.
  - eapply OutInv_step; eassumption.
  - eapply FullInv_step; eassumption.
  - eapply RHInv_step; eassumption.
Qed.

Lemma AllInv_irun buf st tr : AllInv buf st -> AllInv buf (irun st tr).
Proof.
  revert st. induction tr as [|l tr IH]; intros st A; [assumption|]. rewrite irun_cons. apply IH. now apply AllInv_step.
Qed.

(* ------------------------------------------------------------------ *)
(** * Where the operations of the history come from *)

Definition wf_op (o : op) : Prop :=
  match o with
  | OEvent e => tags_nonempty e
  | OReq _ fs => Forall filter_wf fs
  | _ => True
  end.

Lemma istep_hops_origin st l h :
  In h (i_hops (istep st l)) ->
  (exists h0, In h0 (i_hops st) /\ h_c h0 = h_c h /\ h_o h0 = h_o h) \/ l = LOp (h_c h) (h_o h).
Proof.
  intro Hin. destruct (hchange_bwd _ _ _ h (istep_hchange st l) Hin) as [(h0 & Hin0 & (S1 & S2 & _) & _)|(c & o & -> & E)].
  - left. exists h0. auto.
  - right. destruct (step_trans (i_s st) l) as [Es|T].
    + destruct (istep_stutter st l Es) as [EH _]. rewrite EH in E.
      apply (f_equal (@length hop)) in E. rewrite app_length in E. cbn in E. lia.
    + destruct (istep_new_inv st l _ T E) as [El _]. exact El.
Qed.

Lemma irun_hops_origin (Pc : conn -> Prop) (Po : op -> Prop) tr : forall st,
  (forall h, In h (i_hops st) -> Pc (h_c h) /\ Po (h_o h)) ->
  Forall (fun l => match l with LOp c o => Pc c /\ Po o | _ => True end) tr ->
  forall h, In h (i_hops (irun st tr)) -> Pc (h_c h) /\ Po (h_o h).
Proof.
  induction tr as [|l tr IH]; intros st H0 F; [assumption|].
  inversion F as [|? ? Hl F']; subst. rewrite irun_cons. apply IH; [|assumption].
  intros h Hin. destruct (istep_hops_origin st l h Hin) as [(h0 & Hin0 & E1 & E2)|El].
  - rewrite <- E1, <- E2. now apply H0.
  - subst l. exact Hl.
Qed.

Lemma hops_conns_wf buf N tr h :
  conns_below N tr -> Forall wf_label tr ->
  In h (i_hops (irun (i_init buf) tr)) -> (h_c h < N)%nat /\ wf_op (h_o h).
Proof.
  intros HN Hwf. apply (irun_hops_origin (fun c => (c < N)%nat) wf_op).
  { intros h0 Hin0. cbn in Hin0. contradiction. }
  unfold conns_below in HN. rewrite Forall_forall in *. intros l Hl. specialize (HN l Hl). specialize (Hwf l Hl).
  destruct l as [c o| | | | |]; auto.
Qed.

(* ------------------------------------------------------------------ *)
(** * Projections of the history *)

Definition xout (mr : smsg * Z) : xmsg * Z := (xmsg_of (fst mr), snd mr).

Lemma hist_ops N st : hi_ops (hist_of N st) = i_hops st.
Proof. reflexivity. Qed.

Lemma hist_outs_len N st : length (hi_outs (hist_of N st)) = N.
Proof. cbn. now rewrite map_length, seq_length. Qed.

Lemma outs_of_hist N st x : (x < N)%nat -> outs_of (hist_of N st) x = List.map xout (i_outs st x).
Proof.
  intro Hx. unfold outs_of, hist_of. cbn [hi_outs].
  set (f := fun x0 => List.map (fun mr : smsg * Z => (xmsg_of (fst mr), snd mr)) (i_outs st x0)).
  rewrite (nth_indep _ [] (f 0%nat)) by (now rewrite map_length, seq_length).
  rewrite map_nth, seq_nth by assumption. reflexivity.
Qed.

Lemma ops_of_hist N st x : ops_of (hist_of N st) x = xops x (i_hops st).
Proof. reflexivity. Qed.

Lemma is_xevent_xmsg m : is_xevent (xmsg_of m) = is_event_msg m.
Proof. destruct m; reflexivity. Qed.

Lemma In_pubs h P e : In (P, e) (pubs h) <-> In P (hi_ops h) /\ h_o P = OEvent e.
Proof.
  unfold pubs. rewrite in_flat_map. split.
  - intros (o & Hin & Hp). unfold is_pub in Hp. destruct (h_o o) eqn:Eo; try contradiction.
    destruct Hp as [Hp|[]]. inversion Hp; subst. auto.
  - intros [Hin Ho]. exists P. split; [assumption|]. unfold is_pub. rewrite Ho. now left.
Qed.

Lemma has_disc_spec N st x :
  HInv st -> has_disc (hist_of N st) x = true <-> In ODisc (c_ops (r_cs (i_s st) x)) \/ In x (r_cancel (i_s st)).
Proof.
  intro HI. unfold has_disc. rewrite ops_of_hist.
  assert (E : existsb (fun o : hop => match h_o o with ODisc => true | _ => false end) (xops x (i_hops st)) = true <->
              In ODisc (List.map h_o (xops x (i_hops st)))).
  { rewrite existsb_exists, in_map_iff. split.
    - intros (o & Hin & Ho). exists o. split; [|assumption]. destruct (h_o o); try discriminate. reflexivity.
    - intros (o & Ho & Hin). exists o. split; [assumption|]. now rewrite Ho. }
  rewrite E, (h_ops st HI x), in_app_iff. unfold cancel_tail.
  destruct (mem_conn x (r_cancel (i_s st))) eqn:Ec.
  - apply mem_conn_In in Ec. split; [intros [H|H]; auto | intros [H|H]; [now left | right; now left]].
  - apply mem_conn_false in Ec. split; [intros [H|[]]; auto | intros [H|H]; [now left | contradiction]].
Qed.

(* ------------------------------------------------------------------ *)
(** * Replies *)

Lemma replies_match_expected ops :
  replies_match (List.map xmsg_of (expected_replies ops)) (filter wants_reply ops) = true.
Proof.
  induction ops as [|o ops IH]; [reflexivity|]. unfold expected_replies in *. cbn [flat_map].
  rewrite map_app. destruct o; cbn; rewrite ?str_eqb_refl; cbn; exact IH.
Qed.

Lemma filter_xevent_map l :
  filter (fun m => negb (is_xevent m)) (List.map xmsg_of l) = List.map xmsg_of (replies l).
Proof.
  unfold replies. induction l as [|m l IH]; [reflexivity|]. cbn. rewrite is_xevent_xmsg.
  destruct (is_event_msg m); cbn; now rewrite IH.
Qed.

Lemma filter_map_swap {A B} (f : B -> bool) (g : A -> B) l : filter f (List.map g l) = List.map g (filter (fun a => f (g a)) l).
Proof. induction l as [|a l IH]; [reflexivity|]. cbn. destruct (f (g a)); cbn; now rewrite IH. Qed.

Lemma filter_filter_comm {A} (f g : A -> bool) l : filter f (filter g l) = filter g (filter f l).
Proof.
  induction l as [|a l IH]; [reflexivity|]. cbn. destruct (g a) eqn:Eg, (f a) eqn:Ef; cbn; rewrite ?Eg, ?Ef, IH; reflexivity.
Qed.

Lemma rep_hops_expected L : rep_hops L = expected_replies (List.map h_o (filter (fun h => is_some (h_d h)) L)).
Proof.
  induction L as [|a L IH]; [reflexivity|]. unfold rep_hops, expected_replies in *. cbn [flat_map filter].
  unfold contrib at 1. destruct (is_some (h_d a)); cbn [List.map flat_map]; now rewrite IH.
Qed.

Lemma replies_ok_model buf N st :
  AllInv buf st -> quiescent (i_s st) -> replies_ok (hist_of N st) = true.
Proof.
  intros A Qs. pose proof (a_h _ _ A) as HI. unfold replies_ok. apply forallb_forall. intros x Hx.
  rewrite hist_outs_len in Hx. apply in_seq in Hx. assert (Hx' : (x < N)%nat) by lia.
  rewrite ops_of_hist, (outs_of_hist _ _ _ Hx'). apply andb_true_iff. split.
  - (* an operation without end stamp was in flight when the client disconnected *)
    apply forallb_forall. intros o Ho. apply filter_In in Ho as [Ho Hw]. apply xops_In in Ho as [Ho Hc].
    destruct (h_d o) eqn:Ed; [reflexivity|]. cbn [is_some orb].
    assert (Hcl : is_close (h_o o) = false) by (destruct (h_o o); try discriminate; reflexivity).
    assert (Hk : is_disc (h_o o) = false) by (destruct (h_o o); try discriminate; reflexivity).
    destruct (h_open st HI o Ho Ed Hcl Hk) as [Last Hb]. destruct Qs as [Qc Qs].
    destruct Hb as [Hb|[Hb|Hb]]; [exfalso; apply Hb; apply Qs | rewrite Qc in Hb; contradiction|].
    (* the connection is dead: its disconnect is an operation after o *)
    pose proof (DDInv_reachable buf _ (a_reach _ _ A) _ Hb) as Hd.
    rewrite <- (app_nil_r (c_ops _)) in Hd.
    assert (Hd' : In ODisc (List.map h_o (xops (h_c o) (i_hops st)))).
    { rewrite (h_ops st HI (h_c o)). apply in_app_iff in Hd as [Hd|[]]. apply in_or_app. now left. }
    apply in_map_iff in Hd' as (kd & Hokd & Hkd). apply xops_In in Hkd as [Hkd Hckd].
    unfold disc_after. rewrite ops_of_hist. apply existsb_exists. exists kd. split; [apply xops_In; split; congruence|].
    rewrite Hokd. apply Z.ltb_lt.
    assert (Hkdd : is_disc (h_o kd) = true) by (now rewrite Hokd).
    destruct (h_disc st HI kd Hkd Hkdd) as (Lastd & _).
    assert (A1 : h_b o <= h_b kd) by (apply Lastd; [assumption | congruence]).
    destruct (Z.eq_dec (h_b o) (h_b kd)) as [Eq|Nq]; [|lia]. exfalso.
    assert (o = kd) by (eapply hop_eq_of_b; [apply HI | assumption | assumption | assumption]). subst kd. congruence.
  - rewrite map_map.
    assert (E : List.map (fun x0 : smsg * Z => fst (xout x0)) (i_outs st x) = List.map xmsg_of (c_out (r_cs (i_s st) x))).
    { destruct (h_outs st HI x) as [<- _]. rewrite map_map. reflexivity. }
    rewrite E, filter_xevent_map, (a_r _ _ A x), rep_hops_expected.
    rewrite filter_filter_comm.
    replace (List.map h_o (filter (fun o => wants_reply (h_o o)) (filter (fun o => is_some (h_d o)) (xops x (i_hops st)))))
      with (filter wants_reply (List.map h_o (filter (fun o => is_some (h_d o)) (xops x (i_hops st))))) by (apply filter_map_swap).
    apply replies_match_expected.
Qed.

Lemma nth_repeat_true N : forall x, (x < N)%nat -> nth x (repeat true N) false = true.
Proof. induction N as [|N IH]; intros x Hx; [lia|]. destruct x; cbn; [reflexivity | apply IH; lia]. Qed.

Lemma drained_ok_model N st : drained_ok (hist_of N st) = true.
Proof.
  unfold drained_ok. apply forallb_forall. intros x Hx. rewrite hist_outs_len in Hx. apply in_seq in Hx.
  apply orb_true_iff. right. cbn [hi_drained hist_of]. apply nth_repeat_true. lia.
Qed.

(* ------------------------------------------------------------------ *)
(** * Publications are identified by their event id *)

Lemma NoDup_map_inj_in {A B} (f : A -> B) l a b :
  NoDup (List.map f l) -> In a l -> In b l -> f a = f b -> a = b.
Proof.
  induction l as [|x l IH]; cbn; [contradiction|]. intro ND. inversion ND as [|? ? Hn ND']; subst.
  intros [->|Ha] [->|Hb] E; auto.
  - exfalso. apply Hn. rewrite E. now apply in_map.
  - exfalso. apply Hn. rewrite <- E. now apply in_map.
Qed.

Lemma uniq_same_hop h P P2 e e2 :
  uniq_pub_ids h -> In P (hi_ops h) -> In P2 (hi_ops h) -> h_o P = OEvent e -> h_o P2 = OEvent e2 ->
  ev_id e = ev_id e2 -> P = P2 /\ e = e2.
Proof.
  intros U H1 H2 E1 E2 Ei.
  assert (X : (P, e) = (P2, e2)).
  { apply (NoDup_map_inj_in (fun pe : hop * event => ev_id (snd pe)) (pubs h)); [exact U | | | exact Ei]; apply In_pubs; auto. }
  inversion X. auto.
Qed.

Lemma first_match {A B} (test : A -> bool) (g : A -> B) l :
  (exists a, In a l /\ test a = true) ->
  exists a, In a l /\ test a = true /\ fold_right (fun a acc => if test a then Some (g a) else acc) None l = Some (g a).
Proof.
  induction l as [|x l IH]; intros (a & Hin & Ht); [contradiction|]. cbn.
  destruct (test x) eqn:Ex.
  - exists x. split; [now left | auto].
  - destruct Hin as [->|Hin]; [congruence|].
    destruct IH as (b & Hb & Hb1 & Hb2); [eauto|]. exists b. split; [now right | auto].
Qed.

Lemma pub_of_uniq h P e :
  uniq_pub_ids h -> In P (hi_ops h) -> h_o P = OEvent e -> pub_of h (ev_id e) = Some (h_c P, h_b P).
Proof.
  intros U Hin Ho. unfold pub_of.
  destruct (first_match (fun pe : hop * event => str_eqb (ev_id (snd pe)) (ev_id e))
                        (fun pe : hop * event => (h_c (fst pe), h_b (fst pe))) (pubs h))
    as ([P2 e2] & Hin2 & Ht & Ef).
  { exists (P, e). split; [apply In_pubs; auto | apply str_eqb_refl]. }
  rewrite Ef. cbn in Ht |- *. apply str_eqb_eq in Ht. apply In_pubs in Hin2 as [Hin2 Ho2].
  destruct (uniq_same_hop h P2 P e2 e U Hin2 Hin Ho2 Ho Ht) as [-> _]. reflexivity.
Qed.

Lemma pubs_of_sorted st p : HInv st -> StronglySorted (fun a b => h_b a < h_b b) (pubs_of p (i_hops st)).
Proof. intro HI. unfold pubs_of. apply SSorted_filter_gen. apply HI. Qed.

Lemma SSorted_nth_lt {A} (R : A -> A -> Prop) l : StronglySorted R l ->
  forall i j a b, (i < j)%nat -> nth_error l i = Some a -> nth_error l j = Some b -> R a b.
Proof.
  intro S. induction S as [|x l S IH F]; intros i j a b Hij Hi Hj; [destruct i; discriminate|].
  destruct j as [|j]; [lia|]. cbn in Hj. destruct i as [|i].
  - cbn in Hi. inversion Hi; subst. rewrite Forall_forall in F. apply F. eapply nth_error_In; eassumption.
  - cbn in Hi. eapply IH; [|eassumption|eassumption]. lia.
Qed.

Lemma pub_nth_inj st p n n' P : HInv st -> pub_nth (i_hops st) p n P -> pub_nth (i_hops st) p n' P -> n = n'.
Proof.
  intros HI H1 H2. pose proof (pubs_of_sorted st p HI) as S. unfold pub_nth in *.
  destruct (Nat.lt_trichotomy n n') as [L|[E|L]]; [|assumption|].
  - pose proof (SSorted_nth_lt _ _ S _ _ _ _ L H1 H2) as X. cbn in X. lia.
  - pose proof (SSorted_nth_lt _ _ S _ _ _ _ L H2 H1) as X. cbn in X. lia.
Qed.

Lemma count_two {A} (f : A -> bool) l : forall i j a b,
  (i < j)%nat -> nth_error l i = Some a -> nth_error l j = Some b -> f a = true -> f b = true ->
  (2 <= count_occ_b f l)%nat.
Proof.
  induction l as [|x l IH]; intros i j a b Hij Hi Hj Ha Hb; [destruct i; discriminate|].
  destruct j as [|j]; [lia|]. cbn in Hj. destruct i as [|i].
  - cbn in Hi. inversion Hi; subst x. cbn. rewrite Ha.
    assert (1 <= count_occ_b f l)%nat; [|lia].
    apply nth_error_In in Hj. clear -Hj Hb. induction l as [|y l IH]; [contradiction|].
    cbn. destruct Hj as [->|Hj]; [rewrite Hb; lia|]. specialize (IH Hj). destruct (f y); lia.
  - cbn in Hi. assert (2 <= count_occ_b f l)%nat by (eapply (IH i j); eauto; lia). cbn. destruct (f x); lia.
Qed.

(** two positions of a connection's stamped output *)
Lemma nth_outs st x i m r :
  HInv st -> nth_error (i_outs st x) i = Some (m, r) -> nth_error (c_out (r_cs (i_s st) x)) i = Some m.
Proof.
  intros HI E. destruct (h_outs st HI x) as [<- _]. rewrite nth_error_map, E. reflexivity.
Qed.

Lemma nth_xout_event outs i sub e r :
  nth_error (List.map xout outs) i = Some (XEvent sub e, r) -> exists t, nth_error outs i = Some (MEvent sub e t, r).
Proof.
  rewrite nth_error_map. destruct (nth_error outs i) as [[m r']|]; [|discriminate]. cbn. unfold xout. cbn.
  intro E. inversion E. destruct m; try discriminate. cbn in H0. inversion H0; subst. eauto.
Qed.

(** two copies with the same label in one connection's output belong to
    different publications, hence (ids being unique) to different events *)
Lemma two_copies buf N st x i j sub e t r e' t' r' :
  AllInv buf st -> uniq_pub_ids (hist_of N st) ->
  (i < j)%nat -> nth_error (i_outs st x) i = Some (MEvent sub e t, r) ->
  nth_error (i_outs st x) j = Some (MEvent sub e' t', r') ->
  exists P P', pub_nth (i_hops st) (fst t) (snd t) P /\ h_o P = OEvent e /\
               pub_nth (i_hops st) (fst t') (snd t') P' /\ h_o P' = OEvent e' /\
               t <> t' /\ ev_id e <> ev_id e'.
Proof.
  intros A U Hij Hi Hj. pose proof (a_h _ _ A) as HI.
  pose proof (a_o _ _ A x) as O. rewrite Forall_forall in O.
  pose proof (O _ (nth_error_In _ _ Hi)) as (P & HP & HoP & _).
  pose proof (O _ (nth_error_In _ _ Hj)) as (P' & HP' & HoP' & _). cbn [fst] in *.
  exists P, P'. repeat split; auto.
  - intro Et. subst t'.
    pose proof (deliver_at_most_once buf _ x sub t (a_reach _ _ A)) as L.
    pose proof (count_two (is_copy sub t) _ i j _ _ Hij (nth_outs _ _ _ _ _ HI Hi) (nth_outs _ _ _ _ _ HI Hj)) as C.
    cbn in C. rewrite str_eqb_refl, ptag_eqb_refl in C. specialize (C eq_refl eq_refl). lia.
  - intro Ei.
    destruct (pub_nth_In _ _ _ _ HP) as (HPin & HPc & _). destruct (pub_nth_In _ _ _ _ HP') as (HPin' & HPc' & _).
    destruct (uniq_same_hop _ P P' e e' U HPin HPin' HoP HoP' Ei) as [-> _].
    assert (Ef : fst t = fst t') by congruence.
    assert (En : snd t = snd t') by (eapply pub_nth_inj; [exact HI | | exact HP']; rewrite <- Ef; exact HP).
    assert (Et : t = t') by (destruct t, t'; cbn in *; congruence). subst t'.
    pose proof (deliver_at_most_once buf _ x sub t (a_reach _ _ A)) as L.
    pose proof (count_two (is_copy sub t) _ i j _ _ Hij (nth_outs _ _ _ _ _ HI Hi) (nth_outs _ _ _ _ _ HI Hj)) as C.
    cbn in C. rewrite str_eqb_refl, ptag_eqb_refl in C. specialize (C eq_refl eq_refl). lia.
Qed.

(* ------------------------------------------------------------------ *)
(** * At most once *)

Lemma once_list_intro l :
  (forall i j sub e r sub' e' r', (i < j)%nat ->
     nth_error l i = Some (XEvent sub e, r) -> nth_error l j = Some (XEvent sub' e', r') ->
     sub = sub' -> ev_id e = ev_id e' -> False) ->
  once_list l = true.
Proof.
  induction l as [|[m r] l IH]; intro H; [reflexivity|]. cbn [once_list fst]. apply andb_true_iff. split.
  - destruct m as [| | |sub e|]; try reflexivity. apply negb_true_iff.
    destruct (existsb _ l) eqn:Ex; [|reflexivity]. exfalso.
    apply existsb_exists in Ex as ([m' r'] & Hin & Hm). cbn [fst] in Hm. destruct m' as [| | |sub' e'|]; try discriminate.
    destruct (str_eqb sub sub') eqn:E1; [|discriminate]. apply str_eqb_eq in E1. apply str_eqb_eq in Hm.
    apply In_nth_error in Hin as [j Hj]. apply (H 0%nat (S j) sub e r sub' e' r'); auto. lia.
  - apply IH. intros i j sub e r0 sub' e' r' Hij Hi Hj. apply (H (S i) (S j) sub e r0 sub' e' r'); auto. lia.
Qed.

Lemma once_ok_model buf N st :
  AllInv buf st -> uniq_pub_ids (hist_of N st) -> once_ok (hist_of N st) = true.
Proof.
  intros A U. unfold once_ok. apply forallb_forall. intros l Hl. cbn [hi_outs hist_of] in Hl.
  apply in_map_iff in Hl as (x & <- & _). fold xout. apply once_list_intro.
  intros i j sub e r sub' e' r' Hij Hi Hj Es Ee. subst sub'.
  destruct (nth_xout_event _ _ _ _ _ Hi) as [t Hi']. destruct (nth_xout_event _ _ _ _ _ Hj) as [t' Hj'].
  destruct (two_copies buf N st x i j sub e t r e' t' r' A U Hij Hi' Hj') as (_ & _ & _ & _ & _ & _ & _ & Hne). contradiction.
Qed.

(* ------------------------------------------------------------------ *)
(** * Publication order *)

Lemma order_list_intro h l :
  (forall i j sub e r sub' e' r', (i < j)%nat ->
     nth_error l i = Some (XEvent sub e, r) -> nth_error l j = Some (XEvent sub' e', r') ->
     sub = sub' ->
     match pub_of h (ev_id e), pub_of h (ev_id e') with
     | Some (p1, b1), Some (p2, b2) => p1 = p2 -> b1 < b2
     | _, _ => True
     end) ->
  order_list h l = true.
Proof.
  induction l as [|[m r] l IH]; intro H; [reflexivity|]. cbn [order_list fst]. apply andb_true_iff. split.
  - destruct m as [| | |sub e|]; try reflexivity. apply forallb_forall. intros [m' r'] Hin. cbn [fst].
    destruct m' as [| | |sub' e'|]; try reflexivity.
    destruct (str_eqb sub sub') eqn:E1; [|reflexivity]. cbn [negb]. apply str_eqb_eq in E1.
    apply In_nth_error in Hin as [j Hj].
    assert (Hij : (0 < S j)%nat) by lia.
    specialize (H 0%nat (S j) sub e r sub' e' r' Hij eq_refl Hj E1).
    destruct (pub_of h (ev_id e)) as [[p1 b1]|]; [|reflexivity].
    destruct (pub_of h (ev_id e')) as [[p2 b2]|]; [|reflexivity].
    destruct (Nat.eqb p1 p2) eqn:Ep; [|reflexivity]. cbn [negb]. apply Nat.eqb_eq in Ep. apply Z.ltb_lt. auto.
  - apply IH. intros i j sub e r0 sub' e' r' Hij Hi Hj. apply (H (S i) (S j) sub e r0 sub' e' r'); auto. lia.
Qed.

Lemma SSorted_app_r {A} (R : A -> A -> Prop) l1 l2 : StronglySorted R (l1 ++ l2) -> StronglySorted R l2.
Proof. induction l1 as [|a l1 IH]; cbn; intro H; [assumption|]. inversion H; subst. now apply IH. Qed.

Lemma pub_seq_le p l : StronglySorted le (pub_seq p l) ->
  forall i j s1 e1 n1 s2 e2 n2, (i < j)%nat ->
    nth_error l i = Some (MEvent s1 e1 (p, n1)) -> nth_error l j = Some (MEvent s2 e2 (p, n2)) -> (n1 <= n2)%nat.
Proof.
  intros SS i j s1 e1 n1 s2 e2 n2 Hij Hi Hj.
  destruct (nth_error_split _ _ Hi) as (l1 & l2 & -> & Hlen).
  assert (Hj2 : nth_error l2 (j - S i) = Some (MEvent s2 e2 (p, n2))).
  { rewrite nth_error_app2 in Hj by lia. rewrite Hlen in Hj.
    replace (j - i)%nat with (S (j - S i)) in Hj by lia. exact Hj. }
  destruct (nth_error_split _ _ Hj2) as (l3 & l4 & -> & _).
  rewrite pub_seq_app in SS. cbn [pub_seq] in SS. rewrite Nat.eqb_refl in SS.
  apply SSorted_app_r in SS. inversion SS as [|? ? _ F]; subst.
  rewrite pub_seq_app in F. cbn [pub_seq] in F. rewrite Nat.eqb_refl in F.
  apply Forall_app in F as [_ F]. now inversion F.
Qed.

Lemma order_ok_model buf N st :
  AllInv buf st -> uniq_pub_ids (hist_of N st) -> order_ok (hist_of N st) = true.
Proof.
  intros A U. pose proof (a_h _ _ A) as HI. unfold order_ok. apply forallb_forall. intros l Hl. cbn [hi_outs hist_of] in Hl.
  apply in_map_iff in Hl as (x & <- & _). fold xout. apply order_list_intro.
  intros i j sub e r sub' e' r' Hij Hi Hj Es. subst sub'.
  destruct (nth_xout_event _ _ _ _ _ Hi) as [t Hi']. destruct (nth_xout_event _ _ _ _ _ Hj) as [t' Hj'].
  destruct (two_copies buf N st x i j sub e t r e' t' r' A U Hij Hi' Hj') as (P & P' & HP & HoP & HP' & HoP' & Hnt & _).
  destruct (pub_nth_In _ _ _ _ HP) as (HPin & HPc & _). destruct (pub_nth_In _ _ _ _ HP') as (HPin' & HPc' & _).
  rewrite (pub_of_uniq _ P e U HPin HoP), (pub_of_uniq _ P' e' U HPin' HoP'). intro Ep.
  destruct t as [p n1], t' as [p' n2]. cbn [fst snd] in *.
  assert (Epp : p' = p) by congruence. rewrite Epp in *. clear Epp.
  assert (Hle : (n1 <= n2)%nat).
  { apply (pub_seq_le p (c_out (r_cs (i_s st) x)) (publisher_order_preserved buf _ x p (a_reach _ _ A)) i j sub e n1 sub e' n2 Hij).
    - exact (nth_outs _ _ _ _ _ HI Hi').
    - exact (nth_outs _ _ _ _ _ HI Hj'). }
  assert (Hlt : (n1 < n2)%nat).
  { destruct (Nat.eq_dec n1 n2) as [->|Nn]; [contradiction Hnt; reflexivity | lia]. }
  exact (SSorted_nth_lt _ _ (pubs_of_sorted st p HI) _ _ _ _ Hlt HP HP').
Qed.

(* ------------------------------------------------------------------ *)
(** * MUST NOT *)

Lemma andl_true (a b : bool) : (a &&& b) = true <-> a = true /\ b = true.
Proof. destruct a, b; cbn; intuition congruence. Qed.

Lemma must_not_ok_model buf N st :
  AllInv buf st -> (forall h, In h (i_hops st) -> wf_op (h_o h)) -> must_not_ok (hist_of N st) = true.
Proof.
  intros A Wf. pose proof (a_h _ _ A) as HI. unfold must_not_ok. apply forallb_forall. intros x Hx.
  rewrite hist_outs_len in Hx. apply in_seq in Hx. assert (Hx' : (x < N)%nat) by lia.
  rewrite (outs_of_hist _ _ _ Hx'), ops_of_hist. apply forallb_forall. intros ms Hms.
  apply in_map_iff in Hms as ([m r] & <- & Hin). unfold xout. cbn [fst snd].
  destruct m as [| | |sub e t]; try reflexivity. cbn [xmsg_of].
  (* the copy and its justification *)
  pose proof (a_o _ _ A x) as O. rewrite Forall_forall in O. destruct (O _ Hin) as (P0 & HP0 & _ & Hbr). cbn [fst snd] in *.
  assert (Hev : In (MEvent sub e t) (evs (r_cs (i_s st) x))).
  { apply evs_out_incl. apply filter_In. split; [|reflexivity]. destruct (h_outs st HI x) as [<- _].
    change (MEvent sub e t) with (fst (MEvent sub e t, r)). now apply in_map. }
  destruct (a_c _ _ A x sub e t (or_introl Hev)) as (P & q & fs & HP & HoP & Hq & Hcq & Hoq & Hm & Hlt & Hk).
  assert (P0 = P) by (unfold pub_nth in *; congruence). subst P0.
  destruct (pub_nth_In _ _ _ _ HP) as (HPin & _ & _).
  unfold justified. apply existsb_exists. exists (P, e). split; [apply In_pubs; auto|].
  rewrite str_eqb_refl. assert (Ee : event_eqb e e = true) by (now apply event_eqb_eq). rewrite Ee.
  assert (Er : h_b P <? r = true) by (now apply Z.ltb_lt). rewrite Er.
  apply existsb_exists. exists q. split; [apply xops_In; auto|]. rewrite Hoq, str_eqb_refl, Hlt.
  assert (Ems : matches_specb e fs = true).
  { rewrite <- Hm. symmetry. apply sub_matches_spec.
    - pose proof (Wf P HPin) as W. now rewrite HoP in W.
    - pose proof (Wf q Hq) as W. now rewrite Hoq in W. }
  rewrite Ems. apply negb_true_iff. destruct (existsb _ (xops x (i_hops st))) eqn:Ex; [|reflexivity]. exfalso.
  apply existsb_exists in Ex as (k & Hkin & Hc). apply xops_In in Hkin as [Hkin Hck].
  apply andl_true in Hc as [Hc Hc3]. apply andl_true in Hc as [Hc1 Hc2]. apply Z.ltb_lt in Hc1.
  rewrite effect_known_effk, hist_ops in Hc3. rewrite (Hk k Hkin Hck Hc1 Hc2) in Hc3. discriminate.
Qed.

(* ------------------------------------------------------------------ *)
(** * MUST *)

Lemma or3_intro (c d m : bool) : (c = true -> d = true \/ m = true) -> (negb c ||| d ||| m) = true.
Proof. destruct c, d, m; cbn; intuition congruence. Qed.

Lemma count_occ_b_map {A B} (f : B -> bool) (g : A -> B) l : count_occ_b f (List.map g l) = count_occ_b (fun a => f (g a)) l.
Proof. induction l as [|a l IH]; cbn; [reflexivity|]. now rewrite IH. Qed.

Lemma count_occ_b_ext {A} (f g : A -> bool) l : (forall a, f a = g a) -> count_occ_b f l = count_occ_b g l.
Proof. intro E. induction l as [|a l IH]; cbn; [reflexivity|]. now rewrite E, IH. Qed.

(** the core of MUST: a REQ that had ended before the publication began,
    whose filters match and which the client left alone until the
    publication ended, got its copy — or the connection's queue was full, or
    the connection has disconnected since *)
Lemma must_core buf N st P e q sub fs qd pd :
  AllInv buf st -> quiescent (i_s st) ->
  (forall h, In h (i_hops st) -> (h_c h < N)%nat /\ wf_op (h_o h)) ->
  In P (i_hops st) -> h_o P = OEvent e -> h_d P = Some pd ->
  In q (i_hops st) -> h_o q = OReq sub fs -> h_d q = Some qd -> qd < h_b P ->
  matches_specb e fs = true ->
  (forall k, In k (i_hops st) -> h_c k = h_c q -> h_b q < h_b k -> op_ends (h_o k) sub = true ->
             lt_opt (h_b k) (Some pd) = false) ->
  has_disc (hist_of N st) (h_c q) = true \/ delivered (hist_of N st) (h_c q) sub e = true \/
  may_be_full (hist_of N st) (h_c q) P = true.
Proof.
  intros A Qs Wf HPin HoP HdP Hq Hoq Hdq C1 C2 Prem.
  pose proof (a_h _ _ A) as HI. pose proof (a_reach _ _ A) as R.
  destruct (Wf q Hq) as [HxN Wq]. rewrite Hoq in Wq. destruct (Wf P HPin) as [_ WP]. rewrite HoP in WP.
  assert (Hm : sub_matches e fs = true) by (rewrite <- C2; now apply sub_matches_spec).
  assert (HPp : In P (pubs_of (h_c P) (i_hops st))).
  { apply filter_In. split; [assumption|]. now rewrite Nat.eqb_refl, HoP. }
  apply In_nth_error in HPp as [n HP].
  rewrite <- HdP in Prem.
  destruct (a_m _ _ A P q (h_c P) n e sub fs qd HP HoP Hq Hoq Hdq C1 Hm Prem) as [_ C].
  destruct (has_disc (hist_of N st) (h_c q)) eqn:Hdisc; [now left | right].
  assert (Nd : ~ In ODisc (c_ops (r_cs (i_s st) (h_c q)))).
  { intro X. assert (Y : has_disc (hist_of N st) (h_c q) = true) by (apply (has_disc_spec N st (h_c q) HI); now left). congruence. }
  assert (Alive : c_dead (r_cs (i_s st) (h_c q)) = false).
  { destruct (c_dead (r_cs (i_s st) (h_c q))) eqn:Ed; [|reflexivity]. exfalso. apply Nd.
    now apply (DDInv_reachable buf _ R). }
  destruct (proj2 Qs (h_c q)) as [_ Hq0]. destruct (Hq0 Alive) as [Hq1 Hh1].
  destruct C as [[G|G]|G]; [congruence | | | contradiction].
  - (* the copy is in the flow, hence received *)
    left. apply In_flow in G. rewrite Hq1, Hh1 in G. destruct G as [G|[G|[]]]; [|discriminate].
    destruct (h_outs st HI (h_c q)) as [Eo _]. rewrite <- Eo in G. apply in_map_iff in G as ([m r] & Em & Gin). cbn in Em. subst m.
    unfold delivered. rewrite (outs_of_hist _ _ _ HxN). apply existsb_exists.
    exists (xout (MEvent sub e (h_c P, n), r)). split; [now apply in_map|]. cbn. now rewrite !str_eqb_refl.
  - (* the copy was dropped: buflen others were waiting *)
    right. destruct (a_f _ _ A (h_c q) sub e (h_c P, n) Alive G) as (P2 & HP2 & _ & Hcnt). cbn [fst snd] in HP2.
    assert (P2 = P) by (unfold pub_nth in *; congruence). subst P2.
    unfold may_be_full. rewrite HdP. apply Z.leb_le. cbn [hi_buf hist_of]. apply Nat2Z.inj_le.
    unfold cntf in Hcnt. unfold hand_list in Hcnt. rewrite Hq1, Hh1 in Hcnt. cbn [app count_occ_b] in Hcnt.
    rewrite Nat.add_0_r in Hcnt. eapply Nat.le_trans; [exact Hcnt|].
    rewrite (outs_of_hist _ _ _ HxN), count_occ_b_map. apply Nat.eq_le_incl. apply count_occ_b_ext.
    intros [m r]. unfold xout. cbn [fst snd]. destruct m as [| | |s2 e2 t2]; try reflexivity.
    cbn [xmsg_of fullpred]. rewrite HdP, pub_begin_eq, hist_ops. cbn [lt_opt].
    destruct (h_b P <? r); reflexivity.
Qed.

Lemma must_ok_model buf N st :
  AllInv buf st -> quiescent (i_s st) ->
  (forall h, In h (i_hops st) -> (h_c h < N)%nat /\ wf_op (h_o h)) ->
  must_ok (hist_of N st) = true.
Proof.
  intros A Qs Wf.
  unfold must_ok. apply forallb_forall. intros [P e] Hin. apply In_pubs in Hin as [HPin HoP]. rewrite hist_ops in HPin.
  destruct (h_d P) as [pd|] eqn:HdP; [|reflexivity].
  destruct (is_sentinel e); [reflexivity|].
  apply forallb_forall. intros q Hq. rewrite hist_ops in Hq.
  destruct (h_o q) as [sub fs| | | |] eqn:Hoq; try reflexivity. destruct (h_d q) as [qd|] eqn:Hdq; [|reflexivity].
  apply or3_intro. intro C.
  apply andl_true in C as [C C4]. apply andl_true in C as [C C3]. apply andl_true in C as [C1 C2].
  apply Z.ltb_lt in C1. apply negb_true_iff in C3. apply negb_true_iff in C4.
  assert (Prem : forall k, In k (i_hops st) -> h_c k = h_c q -> h_b q < h_b k -> op_ends (h_o k) sub = true ->
                 lt_opt (h_b k) (Some pd) = false).
  { intros k Hk Hck Hb He. cbn.
    rewrite ops_of_hist in C4.
    destruct (h_b k <? pd) eqn:Ek; [|reflexivity]. exfalso.
    assert (X : existsb (fun k0 : hop => (h_b q <? h_b k0) &&& op_ends (h_o k0) sub &&& (h_b k0 <? pd)) (xops (h_c q) (i_hops st)) = true).
    { apply existsb_exists. exists k. split; [apply xops_In; auto|].
      apply Z.ltb_lt in Hb. now rewrite Hb, He, Ek. }
    congruence. }
  destruct (must_core buf N st P e q sub fs qd pd A Qs Wf HPin HoP HdP Hq Hoq Hdq C1 C2 Prem) as [D|[D|D]]; [congruence | now left | now right].
Qed.

(* ------------------------------------------------------------------ *)
(** * The oracle never raises a false alarm on the model *)

Theorem model_satisfies_timed_oracle buf N tr :
  conns_below N tr -> Forall wf_label tr ->
  quiescent (i_s (irun (i_init buf) tr)) ->
  uniq_pub_ids (model_history buf N tr) ->
  timed_oracle (model_history buf N tr) = true.
Proof.
  intros HN Hwf Qs U. unfold model_history in *.
  pose proof (AllInv_irun buf _ tr (AllInv_init buf)) as A.
  assert (Wf : forall h, In h (i_hops (irun (i_init buf) tr)) -> (h_c h < N)%nat /\ wf_op (h_o h))
    by (intros h Hin; eapply hops_conns_wf; eassumption).
  unfold timed_oracle.
  rewrite (replies_ok_model buf N _ A Qs), (drained_ok_model N _).
  rewrite (must_not_ok_model buf N _ A (fun h Hin => proj2 (Wf h Hin))).
  rewrite (must_ok_model buf N _ A Qs Wf).
  rewrite (once_ok_model buf N _ A U), (order_ok_model buf N _ A U). reflexivity.
Qed.
