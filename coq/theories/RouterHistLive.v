(* RouterHistLive.v — C07: the canonical schedule of the deterministic layer
   ([det_schedule], RouterHist.v) runs every operation to its end, ends
   quiescent and is a one-operation-at-a-time schedule; hence [det_oracle]
   accepts the model's history of every script. *)
From Moc Require Import Base Match MatchProofs Router RouterSpec RouterHist RouterLemmas RouterFrame RouterTrans RouterData
  RouterMust RouterEnv RouterInv RouterDataInv RouterOnce RouterOrder RouterReplies RouterProofs
  RouterHistBase RouterHistInv RouterHistCopy RouterHistOracle RouterHistDet.
From Moc.Gen Require Import GenRouter.
From Coq Require Import Sorted.
Open Scope Z_scope.

Ltac upd_y y :=
  match goal with |- context [upd ?f ?k ?v y] => destruct (upd_cases f k v y) as [[-> ->]|[_ ->]] end.

(* ------------------------------------------------------------------ *)
(** * Lock holders are publishers at work *)

Definition visiting (pc : list instr) (y : conn) : Prop := exists e t todo rest, pc = IVisit e t y todo :: rest.
Definition inpub (pc : list instr) : Prop := exists e t rem, In (IPub e t rem) pc.

Record LockInv (s : rstate) : Prop := mkLock {
  lk_pubs : forall p, In p (r_pubs s) -> inpub (c_pc (r_cs s p));
  lk_rd : forall y p, In p (c_rd (r_cs s y)) -> visiting (c_pc (r_cs s p)) y
}.

Lemma inpub_tail i rest : inpub (i :: rest) -> (forall e t rem, i <> IPub e t rem) -> inpub rest.
Proof. intros (e & t & rem & [H|H]) N; [exfalso; eapply N; eauto | exists e, t, rem; assumption]. Qed.

Lemma pc_upd_pc f c pc x : c_pc (upd f c (set_pc (f c) pc) x) = if Nat.eqb x c then pc else c_pc (f x).
Proof. unfold upd. destruct (Nat.eqb x c); reflexivity. Qed.

Lemma LockInv_reachable buf s : reachable buf s -> LockInv s.
Proof.
  intro R. induction R as [|s l R IH]; [constructor; cbn; intros; contradiction|].
  destruct (step_trans s l) as [E|T]; [now rewrite E|].
  pose proof (Inv_reachable buf s R) as I. destruct IH as [LP LR].
  assert (Other : forall p, label_of_conn p l = false -> c_pc (r_cs (step s l) p) = c_pc (r_cs s p))
    by (intros p Hl; now apply (trans_pc_other _ _ _ _ T)).
  remember (step s l) as s' eqn:Es'. clear Es'.
  constructor.
  - (* outer read lock *)
    intros p Hin.
    inversion T; subst; cbn [r_pubs r_cs with_cs start_visit] in *;
      try (destruct (Nat.eq_dec p c) as [->|N];
           [ specialize (LP c Hin); rewrite ?upd_same; cbn [c_pc set_pc push_out]
           | rewrite (Other p) by (cbn; now apply Nat.eqb_neq); now apply LP ]).
    + rewrite H in LP. destruct LP as (? & ? & ? & []).
    + rewrite H in LP. apply (inpub_tail _ _ LP). discriminate.
    + rewrite H in LP. apply (inpub_tail _ _ LP). discriminate.
    + rewrite H in LP. apply (inpub_tail _ _ LP). discriminate.
    + rewrite H in LP. apply (inpub_tail _ _ LP). discriminate.
    + rewrite H in LP. apply (inpub_tail _ _ LP). discriminate.
    + rewrite H in LP. apply (inpub_tail _ _ LP). intros e t rem ->. cbn in H0. contradiction.
    + (* pubbegin *)
      destruct (Nat.eq_dec p c) as [->|N].
      * rewrite upd_same. cbn. eexists _, _, _. now left.
      * rewrite (Other p) by (cbn; now apply Nat.eqb_neq). apply LP. destruct Hin as [Hin|Hin]; [congruence | assumption].
    + (* pubend *)
      apply remove_conn_In in Hin as [N Hin]. rewrite (Other p) by (cbn; now apply Nat.eqb_neq). now apply LP.
    + (* visit *)
      destruct (Nat.eq_dec p c) as [->|N].
      * rewrite (pc_upd2 _ _ _ _ (fun st => set_rd st (c :: c_rd st))) by (intro; reflexivity). rewrite upd_same. cbn.
        eexists _, _, _. right. now left.
      * rewrite (Other p); [now apply LP|]. destruct H1 as [->|[-> _]]; cbn; now apply Nat.eqb_neq.
    + (* visitend *)
      rewrite (pc_upd2 _ _ _ _ (fun st => set_rd st (remove_conn c (c_rd st)))) by (intro; reflexivity). rewrite upd_same. cbn.
      rewrite H in LP. apply (inpub_tail _ _ LP). discriminate.
    + (* send *)
      rewrite (pc_upd2 _ _ _ _ (send_if_match (r_buf s) e t sub fs)) by (intro; apply ctl_send_if_match). rewrite upd_same. cbn.
      rewrite H in LP. apply inpub_tail in LP; [|discriminate]. destruct LP as (e1 & t1 & rem1 & Hin1). exists e1, t1, rem1. now right.
    + rewrite H in LP. apply (inpub_tail _ _ LP). discriminate.
    + (* take *) rewrite (Other p) by reflexivity. now apply LP.
    + (* deliver *) rewrite (Other p) by reflexivity. now apply LP.
    + (* cancel *) now apply LP.
    + (* skip *) rewrite H in LP. apply (inpub_tail _ _ LP). intros e t rem ->. cbn in H0. contradiction.
    + (* defer *) rewrite H in LP. destruct LP as (? & ? & ? & []).
  - (* inner read locks *)
    intros y p Hin.
    assert (Keep : In p (c_rd (r_cs s y)) -> label_of_conn p l = false -> visiting (c_pc (r_cs s' p)) y).
    { intros H0 Hl. rewrite (Other p Hl). now apply LR. }
    assert (Bad : forall c i rest, p = c -> In c (c_rd (r_cs s y)) -> c_pc (r_cs s c) = i :: rest ->
                  (forall e t c' todo, i <> IVisit e t c' todo) -> False).
    { intros c i rest -> H0 Hpc Hi. destruct (LR y c H0) as (e & t & todo & rest' & E). rewrite Hpc in E. inversion E. eapply Hi. eassumption. }
    inversion T; subst; cbn [r_cs with_cs start_visit] in *.
    + (* op *)
      assert (Hin0 : In p (c_rd (r_cs s y))) by (revert Hin; upd_y y; auto).
      destruct (Nat.eq_dec p c) as [->|N]; [|apply Keep; [assumption | cbn; now apply Nat.eqb_neq]].
      exfalso. destruct (LR y c Hin0) as (e & t & todo & rest' & E). rewrite H in E. discriminate.
    + assert (Hin0 : In p (c_rd (r_cs s y))) by (now rewrite rd_upd_pc in Hin).
      destruct (Nat.eq_dec p c) as [->|N]; [|apply Keep; [assumption | cbn; now apply Nat.eqb_neq]].
      exfalso. eapply (Bad c); eauto. discriminate.
    + assert (Hin0 : In p (c_rd (r_cs s y))) by (now rewrite rd_upd_pc in Hin).
      destruct (Nat.eq_dec p c) as [->|N]; [|apply Keep; [assumption | cbn; now apply Nat.eqb_neq]].
      exfalso. eapply (Bad c); eauto. discriminate.
    + assert (Hin0 : In p (c_rd (r_cs s y))) by (now rewrite rd_upd_pc in Hin).
      destruct (Nat.eq_dec p c) as [->|N]; [|apply Keep; [assumption | cbn; now apply Nat.eqb_neq]].
      exfalso. eapply (Bad c); eauto. discriminate.
    + assert (Hin0 : In p (c_rd (r_cs s y))) by (now rewrite rd_upd_pc in Hin).
      destruct (Nat.eq_dec p c) as [->|N]; [|apply Keep; [assumption | cbn; now apply Nat.eqb_neq]].
      exfalso. eapply (Bad c); eauto. discriminate.
    + assert (Hin0 : In p (c_rd (r_cs s y))) by (now rewrite rd_upd_pc in Hin).
      destruct (Nat.eq_dec p c) as [->|N]; [|apply Keep; [assumption | cbn; now apply Nat.eqb_neq]].
      exfalso. eapply (Bad c); eauto. discriminate.
    + assert (Hin0 : In p (c_rd (r_cs s y))) by (revert Hin; upd_y y; auto).
      destruct (Nat.eq_dec p c) as [->|N]; [|apply Keep; [assumption | cbn; now apply Nat.eqb_neq]].
      exfalso. eapply (Bad c); eauto. intros e t c' todo ->. cbn in H0. contradiction.
    + assert (Hin0 : In p (c_rd (r_cs s y))) by (revert Hin; upd_y y; auto).
      destruct (Nat.eq_dec p c) as [->|N]; [|apply Keep; [assumption | cbn; now apply Nat.eqb_neq]].
      exfalso. eapply (Bad c); eauto. discriminate.
    + assert (Hin0 : In p (c_rd (r_cs s y))) by (now rewrite rd_upd_pc in Hin).
      destruct (Nat.eq_dec p c) as [->|N]; [|apply Keep; [assumption | cbn; now apply Nat.eqb_neq]].
      exfalso. eapply (Bad c); eauto. discriminate.
    + (* visit *)
      assert (Lc : label_of_conn c l = true) by (destruct H1 as [->|[-> _]]; cbn; apply Nat.eqb_refl).
      assert (Lo : forall q, q <> c -> label_of_conn q l = false) by (intros q Nq; destruct H1 as [->|[-> _]]; cbn; now apply Nat.eqb_neq).
      destruct (Nat.eq_dec y c') as [->|Ny].
      * rewrite upd_same in Hin. cbn in Hin. rewrite rd_upd_pc in Hin. destruct Hin as [<-|Hin0].
        -- rewrite (pc_upd2 _ _ _ _ (fun st => set_rd st (c :: c_rd st))) by (intro; reflexivity). rewrite upd_same. cbn.
           eexists _, _, _, _. reflexivity.
        -- destruct (Nat.eq_dec p c) as [->|N]; [|apply Keep; [assumption | now apply Lo]].
           exfalso. eapply (Bad c); eauto. discriminate.
      * rewrite upd_other, rd_upd_pc in Hin by auto.
        destruct (Nat.eq_dec p c) as [->|N]; [|apply Keep; [assumption | now apply Lo]].
        exfalso. eapply (Bad c); eauto. discriminate.
    + (* visitend *)
      destruct (Nat.eq_dec y c') as [->|Ny].
      * rewrite upd_same in Hin. cbn in Hin. rewrite rd_upd_pc in Hin. apply remove_conn_In in Hin as [N Hin0].
        apply Keep; [assumption | cbn; now apply Nat.eqb_neq].
      * rewrite upd_other, rd_upd_pc in Hin by auto.
        destruct (Nat.eq_dec p c) as [->|N]; [|apply Keep; [assumption | cbn; now apply Nat.eqb_neq]].
        exfalso. destruct (LR y c Hin) as (e1 & t1 & todo1 & rest1 & E). rewrite H in E. inversion E. congruence.
    + (* send *)
      assert (Hin0 : In p (c_rd (r_cs s y))).
      { revert Hin. upd_y y; [rewrite send_if_match_rd|]; now rewrite rd_upd_pc. }
      destruct (Nat.eq_dec p c) as [->|N]; [|apply Keep; [assumption | cbn; now apply Nat.eqb_neq]].
      rewrite (pc_upd2 _ _ _ _ (send_if_match (r_buf s) e t sub fs)) by (intro; apply ctl_send_if_match). rewrite upd_same. cbn.
      destruct (LR y c Hin0) as (e1 & t1 & todo1 & rest1 & E). rewrite H in E. inversion E; subst.
      eexists _, _, _, _. reflexivity.
    + assert (Hin0 : In p (c_rd (r_cs s y))) by (revert Hin; upd_y y; auto).
      destruct (Nat.eq_dec p c) as [->|N]; [|apply Keep; [assumption | cbn; now apply Nat.eqb_neq]].
      exfalso. eapply (Bad c); eauto. discriminate.
    + assert (Hin0 : In p (c_rd (r_cs s y))) by (revert Hin; upd_y y; auto).
      apply Keep; [assumption | reflexivity].
    + assert (Hin0 : In p (c_rd (r_cs s y))) by (revert Hin; upd_y y; auto).
      apply Keep; [assumption | reflexivity].
    + (* cancel *) now apply LR.
    + (* skip *)
      assert (Hin0 : In p (c_rd (r_cs s y))) by (now rewrite rd_upd_pc in Hin).
      destruct (Nat.eq_dec p c) as [->|N]; [|apply Keep; [assumption | cbn; now apply Nat.eqb_neq]].
      exfalso. eapply (Bad c); eauto. intros e t c' todo ->. cbn in H0. contradiction.
    + (* defer *)
      assert (Hin0 : In p (c_rd (r_cs s y))) by (revert Hin; upd_y y; auto).
      destruct (Nat.eq_dec p c) as [->|N]; [|apply Keep; [assumption | cbn; now apply Nat.eqb_neq]].
      exfalso. destruct (LR y c Hin0) as (e & t & todo & rest' & E). rewrite H in E. discriminate.
Qed.

(* ------------------------------------------------------------------ *)
(** * Progress of a goroutine that runs alone *)

Definition msize (reg : list (conn * submap)) (c' : conn) : nat :=
  length (match reg_get c' reg with Some m => m | None => [] end).

Definition wreg (reg : list (conn * submap)) (rem : list conn) : nat :=
  fold_right (fun c' acc => (2 + msize reg c' + acc)%nat) 0%nat rem.

Definition wi (reg : list (conn * submap)) (i : instr) : nat :=
  match i with
  | IPubBegin _ => (2 + wreg reg (List.map fst reg))%nat
  | IPub _ _ rem => (1 + wreg reg rem)%nat
  | IVisit _ _ _ todo => (1 + length todo)%nat
  | _ => 1%nat
  end.

Definition wpc (reg : list (conn * submap)) (pc : list instr) : nat :=
  fold_right (fun i acc => (wi reg i + acc)%nat) 0%nat pc.

Definition mu (s : rstate) (c : conn) : nat := wpc (r_reg s) (c_pc (r_cs s c)).

Lemma wreg_remove_le reg c' rem : (wreg reg (remove_conn c' rem) <= wreg reg rem)%nat.
Proof.
  induction rem as [|x rem IH]; [cbn; lia|]. cbn [remove_conn].
  destruct (Nat.eqb c' x); unfold wreg in *; cbn [fold_right]; lia.
Qed.

Lemma wi_pos reg i : (1 <= wi reg i)%nat.
Proof. destruct i; cbn; lia. Qed.

Lemma mu_zero s c : mu s c = 0%nat -> c_pc (r_cs s c) = [].
Proof.
  unfold mu. destruct (c_pc (r_cs s c)) as [|i rest]; [reflexivity|]. cbn [wpc fold_right]. intro H. exfalso. pose proof (wi_pos (r_reg s) i). lia.
Qed.

Definition others_idle (s : rstate) (c : conn) : Prop := forall y, y <> c -> c_pc (r_cs s y) = [].

Lemma solo_pubs_nil s c :
  LockInv s -> others_idle s c -> ~ inpub (c_pc (r_cs s c)) -> r_pubs s = [].
Proof.
  intros L O Hn. destruct (r_pubs s) as [|p ps] eqn:E; [reflexivity|]. exfalso.
  assert (Hin : In p (r_pubs s)) by (rewrite E; now left).
  pose proof (lk_pubs s L p Hin) as Hp. destruct (Nat.eq_dec p c) as [->|N]; [contradiction|].
  rewrite (O p N) in Hp. destruct Hp as (? & ? & ? & []).
Qed.

Lemma solo_rd_nil s c :
  LockInv s -> others_idle s c -> (forall y, ~ visiting (c_pc (r_cs s c)) y) -> c_rd (r_cs s c) = [].
Proof.
  intros L O Hn. destruct (c_rd (r_cs s c)) as [|p ps] eqn:E; [reflexivity|]. exfalso.
  assert (Hin : In p (c_rd (r_cs s c))) by (rewrite E; now left).
  pose proof (lk_rd s L c p Hin) as Hp. destruct (Nat.eq_dec p c) as [->|N]; [now apply (Hn c)|].
  rewrite (O p N) in Hp. destruct Hp as (? & ? & ? & ? & X). discriminate.
Qed.

Lemma reorder_nil_ord m : reorder [] m = m.
Proof. reflexivity. Qed.

Lemma solo_step_dec buf s c :
  reachable buf s -> others_idle s c -> c_pc (r_cs s c) <> [] ->
  (mu (step s (LRun c)) c < mu s c)%nat.
Proof.
  intros R O Hne. pose proof (Inv_reachable buf s R) as I. pose proof (LockInv_reachable buf s R) as L.
  pose proof (inv_pc s I c) as P.
  assert (NoPub : forall i rest, c_pc (r_cs s c) = i :: rest ->
            (forall e t rem, ~ In (IPub e t rem) (i :: rest)) -> r_pubs s = []).
  { intros i rest E Hn. apply (solo_pubs_nil s c L O). rewrite E. intros (e & t & rem & Hin). eapply Hn. eassumption. }
  assert (NoVis : forall i rest, c_pc (r_cs s c) = i :: rest ->
            (forall e t c' todo, i <> IVisit e t c' todo) -> c_rd (r_cs s c) = []).
  { intros i rest E Hn. apply (solo_rd_nil s c L O). intros y (e & t & todo & rest' & E'). rewrite E in E'. inversion E'. eapply Hn. eassumption. }
  unfold mu, step.
  inversion P as [E|sub fs Hg Ho Hl E|sub fs Hg Ho Hl E|sub fs Hs Hl E|sub E|sub E|e E|e n rem id Hn Hp ND E
                  |e n c' todo rem id Hn Hp ND Hnin Hrd NDt Htodo E|id E|Hd E]; symmetry in E.
  - contradiction.
  - assert (Hp : r_pubs s = []) by (eapply NoPub; [eassumption|]; intros e t rem [X|[X|[X|[]]]]; discriminate).
    unfold enabled. rewrite E, Hp. cbn [step_enabled]. unfold run_instr. rewrite E. cbn [r_cs r_reg]. rewrite upd_same. cbn. lia.
  - assert (Hr : c_rd (r_cs s c) = []) by (eapply NoVis; [eassumption|]; discriminate).
    unfold enabled. rewrite E, Hr. cbn [step_enabled]. unfold run_instr. rewrite E.
    destruct (reg_get c (r_reg s)); cbn [r_cs r_reg with_cs]; rewrite upd_same; cbn; lia.
  - unfold enabled. rewrite E. cbn [step_enabled]. unfold run_instr. rewrite E. cbn [r_cs r_reg with_cs]. rewrite upd_same. cbn. lia.
  - assert (Hr : c_rd (r_cs s c) = []) by (eapply NoVis; [eassumption|]; discriminate).
    unfold enabled. rewrite E, Hr. cbn [step_enabled]. unfold run_instr. rewrite E.
    destruct (reg_get c (r_reg s)); cbn [r_cs r_reg with_cs]; rewrite upd_same; cbn; lia.
  - unfold enabled. rewrite E. cbn [step_enabled]. unfold run_instr. rewrite E. cbn [r_cs r_reg with_cs]. rewrite upd_same. cbn. lia.
  - unfold enabled. rewrite E. cbn [step_enabled]. unfold run_instr. rewrite E. cbn [r_cs r_reg]. rewrite upd_same. cbn. lia.
  - (* IPub *)
    unfold enabled. rewrite E. cbn [step_enabled]. unfold run_instr. rewrite E.
    destruct rem as [|c1 rem1].
    + cbn [r_cs r_reg]. rewrite upd_same. cbn. lia.
    + unfold start_visit. cbn [r_cs r_reg with_cs].
      rewrite (pc_upd2 _ _ _ _ (fun st => set_rd st (c :: c_rd st))) by (intro; reflexivity). rewrite upd_same.
      cbn [c_pc set_pc wpc fold_right wi wreg reorder remove_conn]. rewrite Nat.eqb_refl.
      pose proof (wreg_remove_le (r_reg s) c1 rem1) as Hw.
      match goal with |- (1 + length ?M + _ < _)%nat => change (length M) with (msize (r_reg s) c1) end.
      fold (wreg (r_reg s) (remove_conn c1 rem1)). fold (wreg (r_reg s) rem1).
      generalize dependent (wreg (r_reg s) (remove_conn c1 rem1)). generalize (wreg (r_reg s) rem1). generalize (msize (r_reg s) c1).
      intros. lia.
  - (* IVisit *)
    assert (En : enabled s (LRun c) = true) by (apply publisher_never_blocked; now rewrite E).
    rewrite En. cbn [step_enabled]. unfold run_instr. rewrite E.
    destruct todo as [|[sub fs] todo1].
    + cbn [r_cs r_reg with_cs].
      rewrite (pc_upd2 _ _ _ _ (fun st => set_rd st (remove_conn c (c_rd st)))) by (intro; reflexivity). rewrite upd_same. cbn. lia.
    + cbn [r_cs r_reg with_cs].
      rewrite (pc_upd2 _ _ _ _ (send_if_match (r_buf s) e (c, n) sub fs)) by (intro; apply ctl_send_if_match). rewrite upd_same. cbn. lia.
  - unfold enabled. rewrite E. cbn [step_enabled]. unfold run_instr. rewrite E. cbn [r_cs r_reg with_cs]. rewrite upd_same. cbn. lia.
  - assert (Hp : r_pubs s = []) by (eapply NoPub; [eassumption|]; intros e t rem [X|[]]; discriminate).
    unfold enabled. rewrite E, Hp. cbn [step_enabled]. unfold run_instr. rewrite E. cbn [r_cs r_reg]. rewrite upd_same. cbn. lia.
Qed.

(* ------------------------------------------------------------------ *)
(** * The runners of the canonical schedule *)

(** the measure of a goroutine that may have been cancelled: the deferred
    UnsubscribeAll is still to come *)
Definition mu2 (s : rstate) (c : conn) : nat := (mu s c + if mem_conn c (r_cancel s) then 2 else 0)%nat.

Lemma run_keeps_cancel s c : c_pc (r_cs s c) <> [] -> r_cancel (step s (LRun c)) = r_cancel s.
Proof.
  intro Hne. destruct (step_trans s (LRun c)) as [E|T]; [now rewrite E|].
  destruct (trans_cancel _ _ _ T) as [E|[(c1 & El & _)|(c1 & El & Hp & _)]]; [assumption | discriminate|].
  inversion El; subst. contradiction.
Qed.

Lemma skip_step s c i rest :
  c_pc (r_cs s c) = i :: rest -> In c (r_cancel s) -> is_reply_instrb i = true ->
  step s (LSkip c) = with_cs s (upd (r_cs s) c (set_pc (r_cs s c) rest)).
Proof.
  intros Hpc Hc Hi. unfold step. cbn [enabled step_enabled]. rewrite Hpc. apply mem_conn_In in Hc. now rewrite Hc, Hi.
Qed.

Lemma defer_step s c :
  c_pc (r_cs s c) = [] -> In c (r_cancel s) ->
  step s (LRun c) =
  mkR (r_buf s) (r_reg s) (r_pubs s) (remove_conn c (r_cancel s))
      (upd (r_cs s) c (mkC [IUnsubAll] (c_q (r_cs s c)) (c_hand (r_cs s c)) (c_out (r_cs s c)) (c_rd (r_cs s c))
                           (c_ctr (r_cs s c)) true (c_ops (r_cs s c) ++ [ODisc]) (c_drops (r_cs s c)))).
Proof.
  intros Hpc Hc. unfold step. cbn [enabled]. rewrite Hpc. cbn [step_enabled]. unfold run_instr. rewrite Hpc.
  apply mem_conn_In in Hc. now rewrite Hc.
Qed.

Definition drive_label (c : conn) (l : label) : Prop := l = LRun c \/ l = LSkip c.

Lemma drive_c_spec buf giveup : forall fuel st c,
  reachable buf (i_s st) -> others_idle (i_s st) c -> (forall y, In y (r_cancel (i_s st)) -> y = c) ->
  (mu2 (i_s st) c <= fuel)%nat ->
  fst (drive_c fuel st c giveup) = irun st (snd (drive_c fuel st c giveup)) /\
  Forall (drive_label c) (snd (drive_c fuel st c giveup)) /\
  all_idle (i_s (fst (drive_c fuel st c giveup))) /\
  r_cancel (i_s (fst (drive_c fuel st c giveup))) = [].
Proof.
  assert (NoCancel : forall s c, (forall y, In y (r_cancel s) -> y = c) -> ~ In c (r_cancel s) -> r_cancel s = []).
  { intros s c Hall Hn. destruct (r_cancel s) as [|y r] eqn:E; [reflexivity|]. exfalso. apply Hn.
    rewrite <- (Hall y (or_introl eq_refl)). now left. }
  induction fuel as [|f IH]; intros st c R O Hcan Hmu.
  - cbn. unfold mu2 in Hmu.
    assert (Hc : mem_conn c (r_cancel (i_s st)) = false) by (destruct (mem_conn c (r_cancel (i_s st))); [lia | reflexivity]).
    rewrite Hc in Hmu. split; [reflexivity|]. split; [constructor|]. split.
    + intro y. destruct (Nat.eq_dec y c) as [->|N]; [apply mu_zero; lia | now apply O].
    + apply (NoCancel _ c Hcan). now apply mem_conn_false.
  - cbn [drive_c]. destruct (c_pc (r_cs (i_s st) c)) as [|i rest] eqn:Hpc.
    + destruct (mem_conn c (r_cancel (i_s st))) eqn:Hc.
      * (* the loop notices the cancellation *)
        apply mem_conn_In in Hc.
        assert (Es : i_s (istep st (LRun c)) = _) by (rewrite istep_s; apply (defer_step _ _ Hpc Hc)).
        assert (R1 : reachable buf (i_s (istep st (LRun c)))) by (rewrite istep_s; now constructor).
        assert (O1 : others_idle (i_s (istep st (LRun c))) c).
        { intros y N. rewrite Es. cbn [r_cs]. rewrite upd_other by auto. now apply O. }
        assert (C1 : forall y, In y (r_cancel (i_s (istep st (LRun c)))) -> y = c).
        { intros y Hy. rewrite Es in Hy. cbn in Hy. apply remove_conn_In in Hy as [_ Hy]. now apply Hcan. }
        assert (M1 : (mu2 (i_s (istep st (LRun c))) c <= f)%nat).
        { unfold mu2 in *. rewrite Es. unfold mu. cbn [r_cs r_reg r_cancel]. rewrite upd_same, mem_conn_remove_same. cbn.
          apply mem_conn_In in Hc. rewrite Hc in Hmu. lia. }
        destruct (IH (istep st (LRun c)) c R1 O1 C1 M1) as (E1 & E2 & E3 & E4).
        destruct (drive_c f (istep st (LRun c)) c giveup) as [st' tr]. cbn [fst snd] in *.
        split; [rewrite irun_cons; exact E1|]. split; [constructor; [now left | exact E2] | auto].
      * cbn. split; [reflexivity|]. split; [constructor|]. split.
        -- intro y. destruct (Nat.eq_dec y c) as [->|N]; [assumption | now apply O].
        -- apply (NoCancel _ c Hcan). now apply mem_conn_false.
    + assert (Hne : c_pc (r_cs (i_s st) c) <> []) by (rewrite Hpc; discriminate).
      set (l := if giveup && mem_conn c (r_cancel (i_s st)) && is_reply_instrb i then LSkip c else LRun c).
      assert (Step : reachable buf (i_s (istep st l)) /\ others_idle (i_s (istep st l)) c /\
                     (forall y, In y (r_cancel (i_s (istep st l))) -> y = c) /\ (mu2 (i_s (istep st l)) c <= f)%nat /\ drive_label c l).
      { unfold l. destruct (giveup && mem_conn c (r_cancel (i_s st)) && is_reply_instrb i) eqn:Eg.
        - (* the reply is given up *)
          apply andb_true_iff in Eg as [Eg Ei]. apply andb_true_iff in Eg as [_ Ec]. apply mem_conn_In in Ec.
          rewrite istep_s, (skip_step _ _ _ _ Hpc Ec Ei). split; [rewrite <- (skip_step _ _ _ _ Hpc Ec Ei); now constructor|].
          split; [intros y N; cbn [r_cs with_cs]; rewrite upd_other by auto; now apply O|].
          split; [exact Hcan|]. split; [|now right].
          unfold mu2, mu in *. cbn [r_cs r_reg r_cancel with_cs]. rewrite upd_same. cbn [c_pc set_pc].
          rewrite Hpc in Hmu. cbn [wpc fold_right] in Hmu. pose proof (wi_pos (r_reg (i_s st)) i). fold (wpc (r_reg (i_s st)) rest) in Hmu. lia.
        - rewrite istep_s. split; [now constructor|].
          split; [intros y N; rewrite step_pc_other; [now apply O | cbn; now apply Nat.eqb_neq]|].
          split; [rewrite (run_keeps_cancel _ _ Hne); exact Hcan|]. split; [|now left].
          pose proof (solo_step_dec buf _ c R O Hne) as Hdec. unfold mu2 in *. rewrite (run_keeps_cancel _ _ Hne). lia. }
      destruct Step as (R1 & O1 & C1 & M1 & Dl).
      destruct (IH (istep st l) c R1 O1 C1 M1) as (E1 & E2 & E3 & E4).
      destruct (drive_c f (istep st l) c giveup) as [st' tr]. cbn [fst snd] in *.
      split; [rewrite irun_cons; exact E1|]. split; [constructor; [exact Dl | exact E2] | auto].
Qed.

Definition rneed (s : rstate) (x : conn) : nat :=
  (2 * length (c_q (r_cs s x)) + match c_hand (r_cs s x) with Some _ => 1 | None => 0 end)%nat.

Definition drained (s : rstate) (x : conn) : Prop :=
  c_dead (r_cs s x) = false -> c_q (r_cs s x) = [] /\ c_hand (r_cs s x) = None.

Definition reader_of (x : conn) (l : label) : Prop := l = LTake x \/ l = LDeliver x.

Lemma drain_c_spec : forall fuel st x,
  (rneed (i_s st) x <= fuel)%nat ->
  fst (drain_c fuel st x) = irun st (snd (drain_c fuel st x)) /\
  Forall (reader_of x) (snd (drain_c fuel st x)) /\
  drained (i_s (fst (drain_c fuel st x))) x.
Proof.
  induction fuel as [|f IH]; intros st x Hn.
  - cbn. split; [reflexivity|]. split; [constructor|]. intros _. unfold rneed in Hn.
    destruct (c_q (r_cs (i_s st) x)); [|cbn in Hn; lia]. destruct (c_hand (r_cs (i_s st) x)); [lia | auto].
  - cbn [drain_c]. destruct (c_dead (r_cs (i_s st) x)) eqn:Hd.
    { cbn. split; [reflexivity|]. split; [constructor|]. intro X. congruence. }
    destruct (c_hand (r_cs (i_s st) x)) as [m|] eqn:Hh.
    + destruct (step_deliver (i_s st) x m Hd Hh) as (D1 & D2 & D3 & D4).
      assert (Hn1 : (rneed (i_s (istep st (LDeliver x))) x <= f)%nat).
      { rewrite istep_s. unfold rneed in *. rewrite D2, D3. rewrite Hh in Hn. lia. }
      destruct (IH (istep st (LDeliver x)) x Hn1) as (E1 & E2 & E3).
      destruct (drain_c f (istep st (LDeliver x)) x) as [st' tr]. cbn [fst snd] in *.
      split; [rewrite irun_cons; exact E1|]. split; [constructor; [now right | exact E2] | exact E3].
    + destruct (c_q (r_cs (i_s st) x)) as [|m q'] eqn:Hq.
      * cbn. split; [reflexivity|]. split; [constructor|]. intros _. auto.
      * destruct (step_take (i_s st) x m q' Hd Hh Hq) as (D1 & D2 & D3 & D4).
        assert (Hn1 : (rneed (i_s (istep st (LTake x))) x <= f)%nat).
        { rewrite istep_s. unfold rneed in *. rewrite D2, D3. rewrite Hh, Hq in Hn. cbn [length] in Hn. lia. }
        destruct (IH (istep st (LTake x)) x Hn1) as (E1 & E2 & E3).
        destruct (drain_c f (istep st (LTake x)) x) as [st' tr]. cbn [fst snd] in *.
        split; [rewrite irun_cons; exact E1|]. split; [constructor; [now left | exact E2] | exact E3].
Qed.

(** a reader's steps touch nothing but its own connection's data *)
Lemma reader_step_frame s x l :
  reader_of x l ->
  (forall y, c_pc (r_cs (step s l) y) = c_pc (r_cs s y)) /\ (forall y, y <> x -> r_cs (step s l) y = r_cs s y).
Proof.
  intros [->| ->]; (split; [intro y; now apply step_pc_other|]); intros y N; unfold step; cbn [enabled step_enabled].
  - destruct (c_dead (r_cs s x)); [reflexivity|]. destruct (c_hand (r_cs s x)); [reflexivity|].
    destruct (c_q (r_cs s x)); [reflexivity|]. cbn [r_cs with_cs]. now apply upd_other.
  - destruct (c_dead (r_cs s x)); [reflexivity|]. destruct (c_hand (r_cs s x)); [|reflexivity].
    cbn [r_cs with_cs]. now apply upd_other.
Qed.

Lemma reader_run_frame x tr : forall s,
  Forall (reader_of x) tr ->
  (forall y, c_pc (r_cs (run s tr) y) = c_pc (r_cs s y)) /\ (forall y, y <> x -> r_cs (run s tr) y = r_cs s y).
Proof.
  induction tr as [|l tr IH]; intros s F; [auto|]. inversion F as [|? ? Hl F']; subst.
  destruct (reader_step_frame s x l Hl) as [A1 A2]. destruct (IH (step s l) F') as [B1 B2]. rewrite run_cons. split.
  - intro y. now rewrite B1, A1.
  - intros y N. now rewrite B2, A2.
Qed.

Lemma drain_all_spec : forall xs st paused,
  fst (drain_all st xs paused) = irun st (snd (drain_all st xs paused)) /\
  Forall (fun l => exists x, In x xs /\ reader_of x l) (snd (drain_all st xs paused)) /\
  (forall y, c_pc (r_cs (i_s (fst (drain_all st xs paused))) y) = c_pc (r_cs (i_s st) y)) /\
  (forall y, ~ In y xs -> r_cs (i_s (fst (drain_all st xs paused))) y = r_cs (i_s st) y) /\
  (forall x, In x xs -> mem_conn x paused = false -> drained (i_s (fst (drain_all st xs paused))) x).
Proof.
  induction xs as [|x xs IH]; intros st paused.
  - cbn. split; [reflexivity|]. split; [constructor|]. split; [reflexivity|]. split; [reflexivity|]. intros x0 [].
  - cbn [drain_all]. destruct (mem_conn x paused) eqn:Hp.
    + destruct (IH st paused) as (E1 & E2 & E3 & E4 & E5). split; [assumption|]. split; [|split; [assumption|split]].
      * eapply Forall_impl; [|exact E2]. intros l (y & Hy & Hr). exists y. split; [now right | assumption].
      * intros y Hn. apply E4. intro X. apply Hn. now right.
      * intros y [<-|Hy] Hm; [congruence | now apply E5].
    + pose proof (drain_c_spec (2 * length (c_q (r_cs (i_s st) x)) + 2) st x) as D.
      destruct D as (D1 & D2 & D3). { unfold rneed. destruct (c_hand (r_cs (i_s st) x)); lia. }
      destruct (drain_c (2 * length (c_q (r_cs (i_s st) x)) + 2) st x) as [st1 tr1]. cbn [fst snd] in *.
      destruct (IH st1 paused) as (E1 & E2 & E3 & E4 & E5).
      destruct (drain_all st1 xs paused) as [st2 tr2]. cbn [fst snd] in *.
      assert (F1 : (forall y, c_pc (r_cs (i_s st1) y) = c_pc (r_cs (i_s st) y)) /\ (forall y, y <> x -> r_cs (i_s st1) y = r_cs (i_s st) y)).
      { rewrite D1, irun_s. now apply reader_run_frame. }
      destruct F1 as [F1 F2].
      split; [rewrite irun_app, <- D1; exact E1|]. split; [|split; [|split]].
      * apply Forall_app. split.
        -- eapply Forall_impl; [|exact D2]. intros l Hr. exists x. split; [now left | assumption].
        -- eapply Forall_impl; [|exact E2]. intros l (y & Hy & Hr). exists y. split; [now right | assumption].
      * intro y. now rewrite E3, F1.
      * intros y Hn. rewrite E4 by (intro X; apply Hn; now right). apply F2. intro X. apply Hn. now left.
      * intros y Hy Hm. destruct (in_dec Nat.eq_dec y xs) as [Hin|Hnin]; [now apply E5|].
        destruct Hy as [<-|Hy]; [|contradiction]. unfold drained. rewrite (E4 x Hnin). exact D3.
Qed.

(* ------------------------------------------------------------------ *)
(** * The canonical schedule *)

Definition script_ok (N : nat) (script : list sitem) : Prop :=
  Forall (fun it => match it with SOp c o | SCut c o _ => (c < N)%nat /\ wf_op o | _ => True end) script.

(** no disconnect while an operation is in flight *)
Definition no_cut (script : list sitem) : Prop :=
  Forall (fun it => match it with SCut _ _ _ => False | _ => True end) script.

Lemma solo_sched_app tr1 : forall s tr2,
  solo_sched s tr1 -> solo_sched (run s tr1) tr2 -> solo_sched s (tr1 ++ tr2).
Proof.
  induction tr1 as [|l tr1 IH]; intros s tr2 H1 H2; [assumption|]. destruct H1 as [H1 H1']. cbn [app solo_sched].
  split; [assumption|]. apply IH; [assumption|]. now rewrite run_cons in H2.
Qed.

Definition not_op (l : label) : Prop := match l with LOp _ _ => False | _ => True end.

Lemma solo_sched_noop tr : forall s, Forall not_op tr -> solo_sched s tr.
Proof.
  induction tr as [|l tr IH]; intros s F; [exact Logic.I|]. inversion F as [|? ? Hl F']; subst. cbn.
  split; [destruct l; [contradiction | | | | |]; exact Logic.I | now apply IH].
Qed.

Lemma wreg_ext reg1 reg2 rem : (forall x, In x rem -> msize reg1 x = msize reg2 x) -> wreg reg1 rem = wreg reg2 rem.
Proof.
  induction rem as [|x rem IH]; intro H; [reflexivity|]. unfold wreg in *. cbn [fold_right].
  rewrite (H x (or_introl eq_refl)), IH; [reflexivity|].
  intros y Hy. apply H. now right.
Qed.

Lemma wreg_keys reg :
  NoDup (List.map fst reg) ->
  wreg reg (List.map fst reg) = fold_right (fun cm acc => (2 + length (snd cm) + acc)%nat) 0%nat reg.
Proof.
  induction reg as [|[c' m] reg IH]; intro ND; [reflexivity|]. cbn [List.map fst wreg fold_right snd] in *.
  inversion ND as [|? ? Hn ND']; subst.
  assert (E1 : msize ((c', m) :: reg) c' = length m) by (unfold msize; cbn; now rewrite Nat.eqb_refl).
  rewrite E1. f_equal. f_equal. rewrite <- (IH ND'). apply wreg_ext.
  intros x Hx. unfold msize. cbn. destruct (Nat.eqb x c') eqn:Ex; [|reflexivity].
  apply Nat.eqb_eq in Ex. subst. contradiction.
Qed.

Lemma wpc_program_le buf s c o :
  reachable buf s -> (wpc (r_reg s) (program s c o) + 2 <= drive_fuel s)%nat.
Proof.
  intro R. pose proof (Inv_reachable buf s R) as I. unfold drive_fuel.
  destruct o; cbn [program]; try (destruct (reg_get c (r_reg s))); cbn [wpc fold_right wi]; try lia.
  all: rewrite (wreg_keys _ (inv_reg_nodup s I)); lia.
Qed.

(** after the client's message (and possibly its disconnect) only [c] is busy,
    and the fuel suffices *)
Lemma after_op buf s c o :
  reachable buf s -> all_idle s -> r_cancel s = [] ->
  let s1 := step s (LOp c o) in
  others_idle s1 c /\ r_cancel s1 = [] /\ (mu2 s1 c <= drive_fuel s1)%nat /\
  (c_pc (r_cs s1 c) = [] \/ (c_pc (r_cs s1 c) = program s c o /\ r_reg s1 = r_reg s)) /\ r_reg s1 = r_reg s.
Proof.
  intros R Idle Hcan s1. unfold others_idle, s1, step. cbn [enabled step_enabled]. rewrite (Idle c), Hcan. cbn [mem_conn existsb orb].
  rewrite orb_false_r.
  destruct (c_dead (r_cs s c)) eqn:Hd.
  - split; [intros y _; apply Idle|]. split; [assumption|]. split; [|auto].
    unfold mu2, mu. rewrite (Idle c), Hcan. cbn. unfold drive_fuel. lia.
  - cbn [r_cs r_reg r_cancel with_cs]. split; [intros y N; rewrite upd_other by auto; apply Idle|]. split; [assumption|].
    split; [|rewrite upd_same; cbn; auto].
    unfold mu2, mu, drive_fuel. cbn [r_cs r_reg r_cancel with_cs]. rewrite upd_same, Hcan. cbn [c_pc mem_conn existsb].
    pose proof (wpc_program_le buf s c o R). unfold drive_fuel in H. lia.
Qed.

Lemma after_cut buf s c o :
  reachable buf s -> all_idle s -> r_cancel s = [] ->
  let s2 := step (step s (LOp c o)) (LOp c ODisc) in
  others_idle s2 c /\ (forall y, In y (r_cancel s2) -> y = c) /\ (mu2 s2 c <= drive_fuel s2)%nat.
Proof.
  intros R Idle Hcan s2. destruct (after_op buf s c o R Idle Hcan) as (O1 & C1 & M1 & P1 & Rg1).
  set (s1 := step s (LOp c o)) in *. unfold others_idle in *.
  unfold s2, step. cbn [enabled step_enabled]. rewrite C1. cbn [mem_conn existsb orb negb andb]. rewrite orb_false_r, andb_true_r.
  destruct (c_pc (r_cs s1 c)) as [|i rest] eqn:Hpc.
  - (* idle: the disconnect of an idle connection *)
    destruct (c_dead (r_cs s1 c)) eqn:Hd.
    + cbn [r_cs r_reg r_cancel with_cs]. split; [exact O1|]. split; [intros y Hy; rewrite C1 in Hy; contradiction|]. exact M1.
    + cbn [r_cs r_reg r_cancel with_cs]. split; [intros y N; rewrite upd_other by auto; now apply O1|].
      split; [intros y Hy; rewrite C1 in Hy; contradiction|].
      unfold mu2, mu, drive_fuel. cbn [r_cs r_reg r_cancel with_cs]. rewrite upd_same, C1. cbn. lia.
  - destruct (c_dead (r_cs s1 c)) eqn:Hd; cbn [negb andb is_disc].
    + cbn [r_cs r_reg r_cancel with_cs]. split; [exact O1|]. split; [intros y Hy; rewrite C1 in Hy; contradiction|]. exact M1.
    + cbn [r_cs r_reg r_cancel]. split; [exact O1|]. split; [intros y [<-|[]]; reflexivity|].
      unfold mu2 in *. unfold mu, drive_fuel in *. cbn [r_cs r_reg r_cancel]. rewrite C1 in M1. cbn [mem_conn existsb] in M1 |- *.
      rewrite Nat.eqb_refl. cbn [orb].
      destruct P1 as [P1|[P1 _]]; [discriminate|].
      pose proof (wpc_program_le buf s c o R) as W. unfold drive_fuel in W. rewrite Rg1, Hpc, P1. lia.
Qed.

Lemma det_run_spec buf N : forall script st paused,
  reachable buf (i_s st) -> all_idle (i_s st) -> r_cancel (i_s st) = [] -> script_ok N script ->
  fst (det_run N st script paused) = irun st (snd (det_run N st script paused)) /\
  conns_below N (snd (det_run N st script paused)) /\
  Forall wf_label (snd (det_run N st script paused)) /\
  (no_cut script -> solo_sched (i_s st) (snd (det_run N st script paused))) /\
  all_idle (i_s (fst (det_run N st script paused))) /\
  r_cancel (i_s (fst (det_run N st script paused))) = [] /\
  (forall x, (x < N)%nat -> drained (i_s (fst (det_run N st script paused))) x).
Proof.
  assert (Readers : forall tr, Forall (fun l => exists x, In x (seq 0 N) /\ reader_of x l) tr ->
            conns_below N tr /\ Forall wf_label tr /\ Forall not_op tr).
  { intros tr F. unfold conns_below. repeat split; eapply Forall_impl; try exact F;
      intros l (x & Hx & [->| ->]); cbn; try exact Logic.I; apply in_seq in Hx; lia. }
  assert (ReadCancel : forall x tr s, Forall (reader_of x) tr -> r_cancel (run s tr) = r_cancel s).
  { intros x tr. induction tr as [|l tr IH]; intros s F; [reflexivity|]. inversion F as [|? ? Hl F']; subst.
    rewrite run_cons, (IH _ F'). destruct Hl as [->| ->]; unfold step; cbn [enabled step_enabled].
    - destruct (c_dead (r_cs s x)); [reflexivity|]. destruct (c_hand (r_cs s x)); [reflexivity|]. destruct (c_q (r_cs s x)); reflexivity.
    - destruct (c_dead (r_cs s x)); [reflexivity|]. destruct (c_hand (r_cs s x)); reflexivity. }
  assert (ReadersCancel : forall tr s, Forall (fun l => exists x, In x (seq 0 N) /\ reader_of x l) tr -> r_cancel (run s tr) = r_cancel s).
  { intros tr. induction tr as [|l tr IH]; intros s F; [reflexivity|]. inversion F as [|? ? (x & _ & Hl) F']; subst.
    rewrite run_cons, (IH _ F'). apply (ReadCancel x [l] s). now constructor. }
  assert (Drives : forall c tr, Forall (drive_label c) tr -> (c < N)%nat ->
            conns_below N tr /\ Forall wf_label tr /\ Forall not_op tr).
  { intros c tr F Hc. unfold conns_below. repeat split; eapply Forall_impl; try exact F; intros l [->| ->]; cbn; auto. }
  induction script as [|it script IH]; intros st paused R Idle Hcan Hok.
  - cbn [det_run]. destruct (drain_all_spec (seq 0 N) st []) as (E1 & E2 & E3 & _ & E5).
    destruct (Readers _ E2) as (A1 & A2 & A3).
    split; [assumption|]. split; [assumption|]. split; [assumption|]. split; [intros _; now apply solo_sched_noop|].
    split; [intro y; rewrite E3; apply Idle|].
    split; [rewrite E1, irun_s, (ReadersCancel _ _ E2); exact Hcan|].
    intros x Hx. apply E5; [apply in_seq; lia | reflexivity].
  - inversion Hok as [|? ? Hit Hok']; subst. destruct it as [c o|c|c|c o giveup]; cbn [det_run].
    + (* an operation *)
      destruct Hit as [HcN Hwo].
      destruct (after_op buf _ c o R Idle Hcan) as (O0 & C0 & M0 & _).
      set (st0 := istep st (LOp c o)).
      assert (R0 : reachable buf (i_s st0)) by (unfold st0; rewrite istep_s; now constructor).
      assert (Hcc : forall y, In y (r_cancel (i_s st0)) -> y = c) by (unfold st0; rewrite istep_s, C0; intros y []).
      destruct (drive_c_spec buf false (drive_fuel (i_s st0)) st0 c R0 O0 Hcc M0) as (D1 & D2 & D3 & D4).
      destruct (drive_c (drive_fuel (i_s st0)) st0 c false) as [st1 tr1]. cbn [fst snd] in *.
      destruct (drain_all_spec (seq 0 N) st1 paused) as (E1 & E2 & E3 & _ & _).
      destruct (Readers _ E2) as (A1 & A2 & A3). destruct (Drives c _ D2 HcN) as (B1 & B2 & B3).
      pose proof (ReadersCancel _ (i_s st1) E2) as RC.
      destruct (drain_all st1 (seq 0 N) paused) as [st2 tr2]. cbn [fst snd] in *.
      assert (R2 : reachable buf (i_s st2)).
      { rewrite E1, irun_s, D1, irun_s. now apply reachable_run, reachable_run. }
      assert (I2 : all_idle (i_s st2)) by (intro y; rewrite E3; apply D3).
      assert (C2 : r_cancel (i_s st2) = []) by (rewrite E1, irun_s, RC; exact D4).
      destruct (IH st2 paused R2 I2 C2 Hok') as (F1 & F2 & F3 & F4 & F5 & F6 & F7).
      destruct (det_run N st2 script paused) as [st3 tr3]. cbn [fst snd] in *.
      split; [|split; [|split; [|split; [|split; [|split]]]]]; try assumption.
      * rewrite irun_cons. fold st0. rewrite !irun_app, <- D1, <- E1. exact F1.
      * constructor; [exact HcN|]. apply Forall_app. split; [exact B1|]. apply Forall_app. split; assumption.
      * constructor; [exact Hwo|]. apply Forall_app. split; [exact B2|]. apply Forall_app. split; assumption.
      * intro Hnc. pose proof (Forall_inv_tail Hnc) as Hnc'. cbn [solo_sched]. split; [intros _; exact Idle|].
        change (step (i_s st) (LOp c o)) with (i_s st0).
        apply solo_sched_app; [now apply solo_sched_noop|]. apply solo_sched_app; [now apply solo_sched_noop|].
        rewrite <- irun_s, <- D1, <- irun_s, <- E1. now apply F4.
    + (* pause *)
      destruct (IH st (c :: paused) R Idle Hcan Hok') as (F1 & F2 & F3 & F4 & F5 & F6 & F7).
      split; [|split; [|split; [|split; [|split; [|split]]]]]; try assumption.
      intro Hnc. apply F4. exact (Forall_inv_tail Hnc).
    + (* resume *)
      destruct (drain_all_spec (seq 0 N) st (remove_conn c paused)) as (E1 & E2 & E3 & _ & _).
      destruct (Readers _ E2) as (A1 & A2 & A3). pose proof (ReadersCancel _ (i_s st) E2) as RC.
      destruct (drain_all st (seq 0 N) (remove_conn c paused)) as [st1 tr1]. cbn [fst snd] in *.
      assert (R1 : reachable buf (i_s st1)) by (rewrite E1, irun_s; now apply reachable_run).
      assert (I1 : all_idle (i_s st1)) by (intro y; rewrite E3; apply Idle).
      assert (C1 : r_cancel (i_s st1) = []) by (rewrite E1, irun_s, RC; exact Hcan).
      destruct (IH st1 (remove_conn c paused) R1 I1 C1 Hok') as (F1 & F2 & F3 & F4 & F5 & F6 & F7).
      destruct (det_run N st1 script (remove_conn c paused)) as [st2 tr2]. cbn [fst snd] in *.
      split; [|split; [|split; [|split; [|split; [|split]]]]]; try assumption.
      * rewrite irun_app, <- E1. exact F1.
      * apply Forall_app. split; assumption.
      * apply Forall_app. split; assumption.
      * intro Hnc. pose proof (Forall_inv_tail Hnc) as Hnc'.
        apply solo_sched_app; [now apply solo_sched_noop|]. rewrite <- irun_s, <- E1. now apply F4.
    + (* an operation cut short by a disconnect *)
      destruct Hit as [HcN Hwo].
      destruct (after_cut buf _ c o R Idle Hcan) as (O0 & Hcc & M0).
      set (st0 := istep (istep st (LOp c o)) (LOp c ODisc)).
      assert (R0 : reachable buf (i_s st0)) by (unfold st0; rewrite !istep_s; constructor; now constructor).
      destruct (drive_c_spec buf giveup (drive_fuel (i_s st0)) st0 c R0 O0 Hcc M0) as (D1 & D2 & D3 & D4).
      destruct (drive_c (drive_fuel (i_s st0)) st0 c giveup) as [st1 tr1]. cbn [fst snd] in *.
      destruct (drain_all_spec (seq 0 N) st1 paused) as (E1 & E2 & E3 & _ & _).
      destruct (Readers _ E2) as (A1 & A2 & A3). destruct (Drives c _ D2 HcN) as (B1 & B2 & B3).
      pose proof (ReadersCancel _ (i_s st1) E2) as RC.
      destruct (drain_all st1 (seq 0 N) paused) as [st2 tr2]. cbn [fst snd] in *.
      assert (R2 : reachable buf (i_s st2)).
      { rewrite E1, irun_s, D1, irun_s. now apply reachable_run, reachable_run. }
      assert (I2 : all_idle (i_s st2)) by (intro y; rewrite E3; apply D3).
      assert (C2 : r_cancel (i_s st2) = []) by (rewrite E1, irun_s, RC; exact D4).
      destruct (IH st2 paused R2 I2 C2 Hok') as (F1 & F2 & F3 & F4 & F5 & F6 & F7).
      destruct (det_run N st2 script paused) as [st3 tr3]. cbn [fst snd] in *.
      split; [|split; [|split; [|split; [|split; [|split]]]]]; try assumption.
      * rewrite !irun_cons. fold st0. rewrite !irun_app, <- D1, <- E1. exact F1.
      * constructor; [exact HcN|]. constructor; [exact HcN|]. apply Forall_app. split; [exact B1|]. apply Forall_app. split; assumption.
      * constructor; [exact Hwo|]. constructor; [exact Logic.I|]. apply Forall_app. split; [exact B2|]. apply Forall_app. split; assumption.
      * intro Hnc. pose proof (Forall_inv Hnc) as X. contradiction.
Qed.

(** a connection that never issued an operation has nothing queued *)
Lemma silent_conn_empty buf st x :
  AllInv buf st -> (forall h, In h (i_hops st) -> h_c h <> x) ->
  c_q (r_cs (i_s st) x) = [] /\ c_hand (r_cs (i_s st) x) = None.
Proof.
  intros A Hno. pose proof (a_h _ _ A) as HI. pose proof (a_reach _ _ A) as R.
  pose proof (DInv_reachable buf _ R) as D. destruct (QInv_reachable buf _ R x) as [Qq Qh].
  assert (Eops : c_ops (r_cs (i_s st) x) = []).
  { pose proof (h_ops st HI x) as E. destruct (xops x (i_hops st)) as [|h l] eqn:Ex.
    - cbn in E. symmetry in E. now apply app_eq_nil in E.
    - exfalso. assert (Hin : In h (xops x (i_hops st))) by (rewrite Ex; now left). apply xops_In in Hin as [Hin Hc]. now apply (Hno h). }
  assert (NoEv : forall m, is_event_msg m = true -> In m (flow (r_cs (i_s st) x)) -> False).
  { intros m He Hin. destruct m as [| | |sub e t]; try discriminate.
    destruct (d_just _ D x sub e t) as [(fs & Ho & _) _]; [apply filter_In; auto|]. rewrite Eops in Ho. contradiction. }
  split.
  - destruct (c_q (r_cs (i_s st) x)) as [|m q] eqn:E; [reflexivity|]. exfalso.
    inversion Qq as [|? ? Hm _]; subst. apply (NoEv m Hm). apply In_flow. right; right. rewrite E. now left.
  - destruct (c_hand (r_cs (i_s st) x)) as [m|] eqn:E; [|reflexivity]. exfalso.
    apply (NoEv m (Qh m eq_refl)). apply In_flow. right; left. assumption.
Qed.

Theorem det_schedule_ok buf N script :
  script_ok N script ->
  det_history buf N script = model_history buf N (det_schedule buf N script) /\
  conns_below N (det_schedule buf N script) /\ Forall wf_label (det_schedule buf N script) /\
  (no_cut script -> solo_sched (r_init buf) (det_schedule buf N script)) /\
  quiescent (run (r_init buf) (det_schedule buf N script)).
Proof.
  intro Hok. unfold det_history, det_schedule, model_history.
  destruct (det_run_spec buf N script (i_init buf) [] (reach_init buf) (fun x => eq_refl) eq_refl Hok)
    as (E1 & E2 & E3 & E4 & E5 & E6 & E7).
  rewrite <- E1. change (r_init buf) with (i_s (i_init buf)). rewrite <- irun_s, <- E1.
  split; [reflexivity|]. split; [assumption|]. split; [assumption|]. split; [assumption|].
  split; [exact E6|]. intro x. split; [apply E5|]. intro Hd.
  destruct (Nat.lt_ge_cases x N) as [L|G]; [now apply E7|].
  assert (A : AllInv buf (fst (det_run N (i_init buf) script []))) by (rewrite E1; apply AllInv_irun, AllInv_init).
  apply (silent_conn_empty buf _ x A). intros h Hin Hc.
  rewrite E1 in Hin. destruct (hops_conns_wf buf N _ h E2 E3 Hin) as [Hlt _]. lia.
Qed.

(** every script, cuts included: the timed oracle accepts the model's history *)
Theorem model_satisfies_timed_oracle_script buf N script :
  script_ok N script ->
  uniq_pub_ids (det_history buf N script) ->
  timed_oracle (det_history buf N script) = true.
Proof.
  intros Hok U. destruct (det_schedule_ok buf N script Hok) as (E & A1 & A2 & _ & A4).
  rewrite E in *. apply model_satisfies_timed_oracle; try assumption. now rewrite irun_s.
Qed.

(** DETERMINISTIC LAYER: for every script without a disconnect in flight, run
    on the canonical schedule, the deterministic oracle accepts the model's
    history. *)
Theorem model_satisfies_det_oracle_script buf N script :
  script_ok N script -> no_cut script ->
  uniq_pub_ids (det_history buf N script) ->
  det_oracle (det_history buf N script) = true.
Proof.
  intros Hok Hnc U. destruct (det_schedule_ok buf N script Hok) as (E & A1 & A2 & A3 & A4).
  rewrite E in *. apply model_satisfies_det_oracle; try assumption; [now apply A3 | now rewrite irun_s].
Qed.
