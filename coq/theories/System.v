(* System.v — SYS: the relay that cmd/mocrelay/main.go assembles,

       NewMergeHandler(NewCacheHandler(100), NewRouterHandler(100), sqliteHandler)

   (wrapped in the Prometheus middleware), for ONE connection, as a transition
   system obtained by COMPOSING the component models:

     child 0  cache handler    Handlers.cache_base (Cache.c_add / Cache.c_find)
     child 1  router handler   Router.reply_of / Router.visit_loop / Router.reorder
                               restricted to the connection's own subscriptions
     child 2  SQLite handler   Handlers.sqlite_reply / Handlers.bg_step over an
                               abstract store (query, insert_batch: Sql.v, C06)
     merge    mergeHandlerSession   Merge.merge_step (n = 3)

   Definitions only; proofs are in SystemProofs.v, statements in
   Properties/System.v.

   Granularity.  A step of the system is one of
     LNext ord  the merge session reads the next client message: the critical
                section of handleRecvMsg, then broadcastRecvs hands the message
                to child 0, child 1, child 2 in this order.  Each child's
                replies are a function of its own state and of the message (a
                child is a sequential handler); they are appended to that
                child's pending list (what the child has to send, in its own
                order).  [ord] is the iteration order of the router's Go map
                during Publish.
     LDel x     one message of child [x] reaches handleSend: one critical
                section of the merge session ([Merge.Child i m]); what it
                returns goes to the client.
     LBg b      one step of the SQLite handler's background inserter.
   Every list of labels is a schedule; a step that is not enabled leaves the
   state unchanged.  Replies of ONE child reach the merge session in the order
   the child sent them (one forwarder goroutine per child reads an unbuffered
   channel); replies of different children interleave arbitrarily.

   The router child has two senders on its channel: the session loop (EOSE, OK,
   COUNT) and the goroutine that forwards the subscription queue (live
   events).  A live event was queued by a Publish that the session loop ran
   AFTER it had sent all its replies to earlier messages, so a live event never
   overtakes a direct reply that is older than itself, while a direct reply may
   overtake queued live events (the forwarder may lag).  The pending list of
   child 1 is kept in production order (for an EVENT: the copies, then the OK)
   and has two delivery rules: [Src1] its head, [Src1M] its first direct reply
   (the first message that is not an EVENT).

   Over-approximations (more interleavings than the code has, so a theorem
   about all schedules covers the code):  a child's replies are computed when
   the message is read, not when the child gets round to it (the children's
   states are private, so this commutes with everything else); pending lists
   are unbounded (the code's channels are unbuffered: a child with undelivered
   replies does not take the next message); the forwarder's one-message hand is
   part of the pending list (so the queue capacity test counts it). *)
From Moc Require Import Base Match Msg Cache Handlers.
From Moc Require Merge Router.
Open Scope Z_scope.

(* ------------------------------------------------------------------ *)
(** * Messages: Msg.v on the outside, Merge.v's own types inside *)

(** a server message as the merge session sees it.  Merge.v has no AUTH
    constructor; no child of this composition ever sends AUTH
    ([SystemProofs.child_replies_no_auth]), the image below is never used. *)
Definition to_m (m : smsg) : Merge.smsg :=
  match m with
  | SEose s => Merge.SEose s
  | SEvent s e => Merge.SEvent s e
  | SNotice t => Merge.SNotice t
  | SOk i a p t => Merge.SOk (Merge.mkOk i a p t)
  | SCount s c a => Merge.SCount (Merge.mkCnt s c a)
  | SClosed s p t => Merge.SClosed s p t
  | SAuth c => Merge.SNotice c
  end.

Definition from_m (m : Merge.smsg) : smsg :=
  match m with
  | Merge.SEose s => SEose s
  | Merge.SEvent s e => SEvent s e
  | Merge.SNotice t => SNotice t
  | Merge.SOk o => SOk (Merge.ok_id o) (Merge.ok_acc o) (Merge.ok_prefix o) (Merge.ok_text o)
  | Merge.SCount c => SCount (Merge.c_sub c) (Merge.c_count c) (Merge.c_approx c)
  | Merge.SClosed s p t => SClosed s p t
  end.

(** handleRecvMsg: the four message types the session inspects; AUTH falls to
    the default clause (no critical section) *)
Definition client_input (m : cmsg) : option Merge.input :=
  match m with
  | CEvent e => Some (Merge.CEvent (ev_id e))
  | CReq sub fs => Some (Merge.CReq sub fs)
  | CClose sub => Some (Merge.CClose sub)
  | CCount sub _ => Some (Merge.CCount sub)
  | CAuth _ => None
  end.

Definition out_list (o : option Merge.smsg) : list smsg :=
  match o with Some m => [from_m m] | None => [] end.

(** what the client sees of a list of per-step outputs *)
Definition vis (os : list (option Merge.smsg)) : list smsg := flat_map out_list os.

(* ------------------------------------------------------------------ *)
(** * Child 1: RouterHandler, one connection *)

Definition router_op (m : cmsg) : option Router.op :=
  match m with
  | CReq sub fs => Some (Router.OReq sub fs)
  | CClose sub => Some (Router.OClose sub)
  | CCount sub _ => Some (Router.OCount sub)
  | CEvent e => Some (Router.OEvent e)
  | CAuth _ => None
  end.

Definition of_router (m : Router.smsg) : smsg :=
  match m with
  | Router.MEose s => SEose s
  | Router.MOk id => SOk id true [] []
  | Router.MCount s => SCount s 0 None
  | Router.MEvent s e _ => SEvent s e
  end.

(** router.recv: Subscribe (add or replace) / Unsubscribe *)
Definition router_subs_step (subs : Router.submap) (m : cmsg) : Router.submap :=
  match m with
  | CReq sub fs => Router.sm_set sub fs subs
  | CClose sub => Router.sm_del sub subs
  | _ => subs
  end.

(** the direct reply of router.recv *)
Definition router_main (m : cmsg) : list smsg :=
  match router_op m with
  | Some o => List.map of_router (Router.reply_of o)
  | None => []
  end.

(** Publish on the connection's own entry: [Router.visit_loop] over the
    subscriptions in iteration order, with [qlen] messages already queued *)
Definition live_copies (buf : nat) (e : event) (m : Router.submap) (qlen : nat) : list smsg :=
  List.map of_router
    (skipn qlen (Router.visit_loop buf e (0%nat, 0%nat) m (repeat (Router.MOk []) qlen))).

Definition router_live (buf : nat) (ord : list str) (subs : Router.submap) (qlen : nat) (m : cmsg) : list smsg :=
  match m with
  | CEvent e => live_copies buf e (Router.reorder ord subs) qlen
  | _ => []
  end.

(** the subscriptions of the connection after a list of client messages *)
Definition router_subs (done : list cmsg) : Router.submap := fold_left router_subs_step done [].

(** the first message of a pending list that is not an EVENT, and the rest *)
Fixpoint pop_main (l : list smsg) : option (smsg * list smsg) :=
  match l with
  | [] => None
  | m :: r =>
      if smsg_is_event m
      then match pop_main r with Some (x, r') => Some (x, m :: r') | None => None end
      else Some (m, r)
  end.

(* ------------------------------------------------------------------ *)
(** * The composed system *)

Inductive src := Src0 | Src1 | Src1M | Src2.

Definition child_of (x : src) : nat :=
  match x with Src0 => 0%nat | Src1 | Src1M => 1%nat | Src2 => 2%nat end.

Inductive label :=
| LNext (ord : list str)
| LDel (x : src)
| LBg (b : bg).

Definition schedule := list label.

Section Sys.
  Variable db : Type.
  Variable query : db -> list rfilter -> option (list event).
  Variable insert_batch : db -> list event -> db.
  Variable bulk : nat.        (* EventBulkInsertNum *)
  Variable buflen : nat.      (* NewRouterHandler(buflen) *)

  Record sys := mkSys {
    y_merge : Merge.state;        (* the merge session: OK / REQ / COUNT state *)
    y_cache : cstate;             (* child 0: the event cache *)
    y_subs : Router.submap;       (* child 1: this connection's subscriptions *)
    y_sq : sqstate db;            (* child 2: database, eventCh, batch buffer, LRU *)
    y_p0 : list smsg;             (* replies child 0 still has to deliver *)
    y_p1 : list smsg;             (* ... child 1 (direct replies and queued live events) *)
    y_p2 : list smsg;             (* ... child 2 *)
    y_in : list cmsg;             (* client messages not read yet *)
    y_done : list cmsg;           (* ghost: client messages read, oldest first *)
    y_dead : bool                 (* a goroutine panicked: the process is gone *)
  }.

  Definition sys_init (cap : Z) (d0 : db) (msgs : list cmsg) : sys :=
    mkSys (Merge.init 3) (c_empty cap) [] (mkSq d0 [] [] []) [] [] [] msgs [] false.

  Definition with_merge (s : sys) (ms : Merge.state) : sys :=
    mkSys ms (y_cache s) (y_subs s) (y_sq s) (y_p0 s) (y_p1 s) (y_p2 s) (y_in s) (y_done s) (y_dead s).

  Definition with_pending (s : sys) (x : src) (l : list smsg) : sys :=
    match x with
    | Src0 => mkSys (y_merge s) (y_cache s) (y_subs s) (y_sq s) l (y_p1 s) (y_p2 s) (y_in s) (y_done s) (y_dead s)
    | Src1 | Src1M => mkSys (y_merge s) (y_cache s) (y_subs s) (y_sq s) (y_p0 s) l (y_p2 s) (y_in s) (y_done s) (y_dead s)
    | Src2 => mkSys (y_merge s) (y_cache s) (y_subs s) (y_sq s) (y_p0 s) (y_p1 s) l (y_in s) (y_done s) (y_dead s)
    end.

  (** which message source [x] would deliver next, and what stays pending *)
  Definition pop (s : sys) (x : src) : option (smsg * list smsg) :=
    match x with
    | Src0 => match y_p0 s with m :: r => Some (m, r) | [] => None end
    | Src1 => match y_p1 s with m :: r => Some (m, r) | [] => None end
    | Src1M => pop_main (y_p1 s)
    | Src2 => match y_p2 s with m :: r => Some (m, r) | [] => None end
    end.

  (** the number of live events queued for the connection *)
  Definition queued (s : sys) : nat := length (filter smsg_is_event (y_p1 s)).

  (** one step: the new state, the merge inputs it fed (at most one), and what
      the client receives *)
  Definition sys_step (s : sys) (x : label) : sys * list Merge.input * list smsg :=
    if y_dead s then (s, [], []) else
    match x with
    | LNext ord =>
        match y_in s with
        | [] => (s, [], [])
        | m :: rest =>
            let '(ms1, t1, o1) :=
              match client_input m with
              | Some inp => let r := Merge.merge_step (y_merge s) inp in (fst r, [inp], out_list (snd r))
              | None => (y_merge s, [], [])
              end in
            match cache_base (y_cache s) m with
            | Panic =>
                (mkSys ms1 (y_cache s) (y_subs s) (y_sq s) (y_p0 s) (y_p1 s) (y_p2 s) rest (y_done s ++ [m]) true,
                 t1, o1)
            | Ok (c', ch0) =>
                let '(sq', ch2) := sqlite_reply db query (y_sq s) m in
                (mkSys ms1 c' (router_subs_step (y_subs s) m) sq'
                       (y_p0 s ++ chan_items ch0)
                       (y_p1 s ++ router_live buflen ord (y_subs s) (queued s) m ++ router_main m)
                       (y_p2 s ++ chan_items ch2)
                       rest (y_done s ++ [m]) false,
                 t1, o1)
            end
        end
    | LDel x =>
        match pop s x with
        | None => (s, [], [])
        | Some (m, r) =>
            let inp := Merge.Child (child_of x) (to_m m) in
            let res := Merge.merge_step (y_merge s) inp in
            (with_merge (with_pending s x r) (fst res), [inp], out_list (snd res))
        end
    | LBg b =>
        (mkSys (y_merge s) (y_cache s) (y_subs s) (bg_step db insert_batch bulk (y_sq s) b)
               (y_p0 s) (y_p1 s) (y_p2 s) (y_in s) (y_done s) (y_dead s), [], [])
    end.

  (** a run: the state, the history of merge inputs, the client-side sequence *)
  Definition acc := (sys * list Merge.input * list smsg)%type.

  Definition sys_step_acc (a : acc) (x : label) : acc :=
    let '(s, t, o) := a in
    let '(s', t1, o1) := sys_step s x in
    (s', t ++ t1, o ++ o1).

  Definition sys_exec_from (s : sys) (l : schedule) : acc := fold_left sys_step_acc l (s, [], []).

  Definition sys_exec (cap : Z) (d0 : db) (l : schedule) (msgs : list cmsg) : acc :=
    sys_exec_from (sys_init cap d0 msgs) l.

  Definition a_sys (a : acc) : sys := fst (fst a).
  Definition a_trace (a : acc) : list Merge.input := snd (fst a).
  Definition a_outs (a : acc) : list smsg := snd a.

  (** what the client receives under schedule [l] *)
  Definition sys_run (cap : Z) (d0 : db) (l : schedule) (msgs : list cmsg) : list smsg :=
    a_outs (sys_exec cap d0 l msgs).

  (** everything was read and every reply was delivered *)
  Definition quiet (s : sys) : Prop :=
    y_in s = [] /\ y_p0 s = [] /\ y_p1 s = [] /\ y_p2 s = [].

  Definition quietb (s : sys) : bool :=
    match y_in s, y_p0 s, y_p1 s, y_p2 s with [], [], [], [] => true | _, _, _, _ => false end.

  (** the Prometheus middleware around the handler: it forwards every client
      message [g_prom_client_forward] times and every server message
      [g_prom_server_forward] times (Prom.emits; both are 1, C19) *)
  Definition prom_wrap {A} (k : Z) (l : list A) : list A := flat_map (fun m => repeat m (Z.to_nat k)) l.
End Sys.

Arguments y_merge {db}.
Arguments y_cache {db}.
Arguments y_subs {db}.
Arguments y_sq {db}.
Arguments y_p0 {db}.
Arguments y_p1 {db}.
Arguments y_p2 {db}.
Arguments y_in {db}.
Arguments y_done {db}.
Arguments y_dead {db}.
Arguments mkSys {db}.
Arguments a_sys {db}.
Arguments a_trace {db}.
Arguments a_outs {db}.
Arguments quiet {db}.
Arguments quietb {db}.
Arguments queued {db}.
Arguments pop {db}.
Arguments with_merge {db}.
Arguments with_pending {db}.

(* ------------------------------------------------------------------ *)
(** * What the admission gate guarantees about the client's messages *)

Definition cmsg_gate (m : cmsg) : Prop :=
  match m with
  | CEvent e => tags_nonempty e
  | CReq _ fs => Forall filter_wf fs
  | _ => True
  end.

Definition gated (msgs : list cmsg) : Prop := Forall cmsg_gate msgs.

(** selectors on client messages and on the client-side sequence *)
Definition is_event_id (id : str) (m : cmsg) : bool :=
  match m with CEvent e => str_eqb (ev_id e) id | _ => false end.
Definition is_count_sub (sub : str) (m : cmsg) : bool :=
  match m with CCount s _ => str_eqb s sub | _ => false end.
Definition is_req_sub (sub : str) (m : cmsg) : bool :=
  match m with CReq s _ => str_eqb s sub | _ => false end.
Definition is_close_sub (sub : str) (m : cmsg) : bool :=
  match m with CClose s => str_eqb s sub | _ => false end.

Definition is_ok_id (id : str) (m : smsg) : bool :=
  match m with SOk i _ _ _ => str_eqb i id | _ => false end.
Definition is_cnt_sub (sub : str) (m : smsg) : bool :=
  match m with SCount s _ _ => str_eqb s sub | _ => false end.
Definition is_eose_sub (sub : str) (m : smsg) : bool :=
  match m with SEose s => str_eqb s sub | _ => false end.

(** the events labelled [sub] in a client-side sequence *)
Fixpoint events_for (sub : str) (l : list smsg) : list event :=
  match l with
  | [] => []
  | SEvent s e :: r => if str_eqb s sub then e :: events_for sub r else events_for sub r
  | _ :: r => events_for sub r
  end.

(** the text of an OK as the client reads it: prefix then message *)
Definition ok_text_of (m : smsg) : str :=
  match m with SOk _ _ p t => p ++ t | _ => [] end.
Definition ok_acc_of (m : smsg) : bool :=
  match m with SOk _ a _ _ => a | _ => false end.
