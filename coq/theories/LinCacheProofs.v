(* LinCacheProofs.v — C15: the lock table extracted from the source satisfies the
   lock discipline; hence every concurrent history of the cache (and of safeMap)
   is linearizable, and sequential invariants of query answers hold of every
   response of every concurrent history. *)
From Coq Require Import List Arith Lia.
From Moc Require Import Base Match Cache CacheSpec Lin LinProofs LinCache.
From Moc.Gen Require Import GenMsg GenCache GenLocks.
Import ListNotations.
Open Scope Z_scope.

(* ------------------------------------------------------------------ *)
(** * What the regenerated lock table says (each lemma breaks alone when the
      corresponding method changes its locking) *)

Lemma lock_table_add : eff_lock m_Add = 2 /\ lt_writes m_Add = true.
Proof. vm_compute. split; reflexivity. Qed.

Lemma lock_table_find : eff_lock m_Find = 1 /\ lt_writes m_Find = false.
Proof. vm_compute. split; reflexivity. Qed.

Lemma lock_table_len : eff_lock m_Len = 1 /\ lt_writes m_Len = false.
Proof. vm_compute. split; reflexivity. Qed.

(** Find does its work in exactly one critical section, the one of findNeedLock *)
Lemma lock_table_find_delegates :
  lt_lock m_Find = 0 /\ lf_touches m_Find = false /\ lt_calls m_Find = [m_findNeedLock] /\
  lt_lock m_findNeedLock = 1 /\ lt_deferred m_findNeedLock = true /\ lf_leaks m_findNeedLock = false.
Proof. vm_compute. repeat split; reflexivity. Qed.

(** the early return of Add happens before anything of the receiver is touched *)
Lemma lock_table_add_prefix : lf_unprot m_Add = false /\ lt_deferred m_Add = true.
Proof. vm_compute. split; reflexivity. Qed.

(** every exported method that stores takes Lock, every lock is released by a
    deferred unlock, nothing is touched outside a critical section, helpers that
    store are reached only with Lock held, no reference escapes, the private
    fields are mentioned nowhere else *)
Lemma cache_lock_discipline : lock_discipline_ok = true.
Proof. vm_compute. reflexivity. Qed.

(* ------------------------------------------------------------------ *)
(** * The cache is disciplined *)

Lemma add_ephemeral_sem s e : add_is_ephemeral e = true -> c_add s e = (s, true).
Proof. unfold add_is_ephemeral, c_add. intros ->. reflexivity. Qed.

Lemma cache_disciplined : disciplined cstate cop cres cache_sem cache_mode cache_wr.
Proof.
  destruct lock_table_add as [La Wa]. destruct lock_table_find as [Lf Wf]. destruct lock_table_len as [Ll Wl].
  split.
  - (* wr is faithful *)
    intros [e|fs|] Hw s; simpl in *; try reflexivity.
    destruct (add_is_ephemeral e) eqn:He.
    + rewrite (add_ephemeral_sem s e He). reflexivity.
    + rewrite Wa in Hw. discriminate.
  - intros [e|fs|]; unfold disciplined_op; simpl.
    + destruct (add_is_ephemeral e) eqn:He.
      * right. right. split; [reflexivity|]. split; [reflexivity|].
        intros s s'. simpl. rewrite !(add_ephemeral_sem _ e He). reflexivity.
      * left. rewrite La. reflexivity.
    + right. left. rewrite Lf, Wf. split; reflexivity.
    + right. left. rewrite Ll, Wl. split; reflexivity.
Qed.

(** ** C15: every concurrent history of the cache is linearizable *)
Theorem cache_linearizable cap tr c :
  steps cstate cop cres cache_sem cache_mode cache_wr (init cstate cop cres (c_empty cap)) tr c ->
  linearizable cstate cop cres cache_sem (c_empty cap) (hist cop cres tr).
Proof. apply rw_lock_linearizable. exact cache_disciplined. Qed.

Theorem cache_linearizable_pts cap tr c :
  steps cstate cop cres cache_sem cache_mode cache_wr (init cstate cop cres (c_empty cap)) tr c ->
  exists L, linearization cstate cop cres cache_sem (c_empty cap) (hist cop cres tr) L /\
            map (l_id cop cres) L = linpts cop cres cache_wr tr.
Proof. apply rw_lock_linearizable_pts. exact cache_disciplined. Qed.

(* ------------------------------------------------------------------ *)
(** * Sequential runs of cache operations are histories of insertions *)

Lemma seq_run_adds s ops :
  seq_run cstate cop cres cache_sem s ops = fold_left (fun s e => fst (c_add s e)) (adds_of ops) s.
Proof.
  revert s. induction ops as [|o ops IH]; intros s; [reflexivity|].
  unfold seq_run in *. simpl fold_left at 1. rewrite IH. destruct o as [e|fs|]; simpl.
  - destruct (c_add s e); reflexivity.
  - reflexivity.
  - reflexivity.
Qed.

Lemma seq_run_c_run cap ops :
  seq_run cstate cop cres cache_sem (c_empty cap) ops = c_run cap (adds_of ops).
Proof. apply seq_run_adds. Qed.

Lemma adds_of_invoked (H : list (hev cop cres)) ops :
  (forall o, In o ops -> exists i t, In (HInv i t o) H) -> incl (adds_of ops) (hist_adds H).
Proof.
  intros Hops e He. unfold adds_of in He. apply in_flat_map in He. destruct He as (o & Ho & He).
  destruct o as [e'|fs|]; simpl in He; try contradiction. destruct He as [<- | []].
  destruct (Hops _ Ho) as (i & t & Hin). unfold hist_adds. apply in_flat_map.
  exists (HInv i t (OAdd e')). split; [exact Hin | left; reflexivity].
Qed.

(* ------------------------------------------------------------------ *)
(** * The three "in particular" claims, lifted to every concurrent history

    The sequential facts are hypotheses here, in the form in which the cache
    group states them (C04 capacity bound, C04 one event per address, C05
    closedness of the retained set under retained deletion requests), relative to
    a hypothesis [hyp] on the inserted events that is inherited by sub-collections
    (functional ids, well-formed keys: properties of the SET of events offered). *)

Section Lifted.
  Variable hyp : list event -> Prop.
  Hypothesis hyp_incl : forall h h', hyp h -> incl h' h -> hyp h'.
  (** condition on the filters of a query under which the sequential facts are stated
      (filters the decoder can produce) *)
  Variable fok : rfilter -> Prop.

  (** the sequential facts, for every state reached by a sequence of insertions *)
  Hypothesis C04_cap_bound : forall cap h fs out,
    hyp h -> 1 <= cap -> Forall fok fs -> c_find (c_run cap h) fs = Ok out -> Z.of_nat (length out) <= cap.
  Hypothesis C04_one_per_address : forall cap h fs out,
    hyp h -> 1 <= cap -> Forall fok fs -> c_find (c_run cap h) fs = Ok out -> one_per_address out = true.
  Hypothesis C05_closed : forall cap h fs out,
    hyp h -> 1 <= cap -> Forall fok fs -> c_find (c_run cap h) fs = Ok out -> no_deleted_pair out.

  Theorem cache_find_invariants_lin cap (H : list (hev cop cres)) :
    1 <= cap ->
    linearizable cstate cop cres cache_sem (c_empty cap) H ->
    hyp (hist_adds H) ->
    (forall i t fs, In (HInv i t (OFind fs)) H -> Forall fok fs) ->
    forall i t out, In (HResp i t (RFound (Ok out))) H -> find_answer_ok cap out.
  Proof.
    intros Hcap Hlin Hh Hf i t out Hin.
    destruct (lin_transfer cstate cop cres cache_sem (c_empty cap) H
                (fun o r => forall out, r = RFound (Ok out) -> find_answer_ok cap out) Hlin) with (i := i) (t := t) (r := RFound (Ok out))
      as (o & t' & _ & HP); [| exact Hin | apply HP; reflexivity].
    intros ops o Hops out' Hr.
    assert (Hh' : hyp (adds_of ops)).
    { apply (hyp_incl (hist_adds H)); [exact Hh|]. apply adds_of_invoked.
      intros o' Ho'. apply Hops. apply in_or_app. left. exact Ho'. }
    rewrite seq_run_c_run in Hr. destruct o as [e|fs|]; simpl in Hr.
    - destruct (c_add (c_run cap (adds_of ops)) e); discriminate.
    - injection Hr as Hr.
      assert (Hfs : Forall fok fs).
      { destruct (Hops (OFind fs)) as (i' & t'' & Hi'); [apply in_or_app; right; left; reflexivity|].
        eapply Hf; eassumption. }
      repeat split.
      + eapply C04_cap_bound; eassumption.
      + eapply C04_one_per_address; eassumption.
      + eapply C05_closed; eassumption.
    - discriminate.
  Qed.

  (** ... and therefore of every Find response of every trace of the concurrent semantics *)
  Theorem cache_find_invariants cap tr c :
    1 <= cap ->
    steps cstate cop cres cache_sem cache_mode cache_wr (init cstate cop cres (c_empty cap)) tr c ->
    hyp (hist_adds (hist cop cres tr)) ->
    (forall i t fs, In (HInv i t (OFind fs)) (hist cop cres tr) -> Forall fok fs) ->
    forall i t out, In (HResp i t (RFound (Ok out))) (hist cop cres tr) -> find_answer_ok cap out.
  Proof.
    intros Hcap Hs. apply cache_find_invariants_lin; [exact Hcap|]. eapply cache_linearizable; eassumption.
  Qed.
End Lifted.

(* ------------------------------------------------------------------ *)
(** * safeMap *)

Lemma safemap_disciplined : disciplined sm_state sm_op sm_res sm_sem sm_mode sm_wr.
Proof.
  split.
  - intros [k|k|k v|k|] Hw s; simpl; try reflexivity; vm_compute in Hw; discriminate.
  - intros [k|k|k v|k|]; unfold disciplined_op.
    + right. left. vm_compute. split; reflexivity.
    + right. left. vm_compute. split; reflexivity.
    + left. vm_compute. reflexivity.
    + left. vm_compute. reflexivity.
    + right. left. vm_compute. split; reflexivity.
Qed.

Theorem safemap_linearizable m0 tr c :
  steps sm_state sm_op sm_res sm_sem sm_mode sm_wr (init sm_state sm_op sm_res m0) tr c ->
  linearizable sm_state sm_op sm_res sm_sem m0 (hist sm_op sm_res tr).
Proof. apply rw_lock_linearizable. exact safemap_disciplined. Qed.

