(* AdmissionProofs.v — proofs about the composed admission path of Admission.v.

   Nothing is re-proved about the parts: the decision chain comes from
   GateProofs.v (C12), the decoder facts from CodecProofs.v (C10), the
   validator facts from ValidTheorems.v (C11: the lemmas C11_gate_complete,
   C11_gate_sound, C11_valid_is_wf are [exact] of), authenticity and the
   tamper lemmas from SerProofs.v (C01).

   Layout: (1) the tree's serializer; (2) the instantiated fields; (3) the
   forward decision; (4) JSON-level completeness / soundness; (5) one frame of
   a session; (6) whole sessions; (7) tampering; (8) examples. *)
From Moc Require Import Base Json CodecMsg Codec CodecProofs Valid ValidProofs ValidJsonProofs ValidTheorems
  Ser SerProofs Gate GateProofs Admission.
From Moc.Gen Require Import GenSer.
Import String.StringSyntax.
Open Scope Z_scope.

(* ------------------------------------------------------------------ *)
(** * 1. The serializer of the tree under test *)

(** read off message.go by /verif/gen on every run: Event.Serialize is the
    hand-written NIP-01 serializer (this lemma does not compile on a tree
    whose Serialize goes through json.Marshal; same obligation as
    C01_tree_uses_canonical_serializer) *)
Lemma adm_tree_uses_canonical_serializer : g_serialize_uses_json_marshal = false.
Proof. reflexivity. Qed.

Lemma verify_tree_is_verify H PK SG V e : verify_tree H PK SG V e = verify H PK SG V e.
Proof.
  unfold verify_tree, verify, verify_with, serialize.
  rewrite adm_tree_uses_canonical_serializer. reflexivity.
Qed.

Lemma gate_vo_true r : gate_vo r = Gate.VOk true <-> r = Ser.VOk true.
Proof. destruct r as [[|]|]; cbn; split; intro E; try discriminate; reflexivity. Qed.

(* ------------------------------------------------------------------ *)
(** * 2. The instantiated fields *)

Lemma parsed_Some f m :
  parsed f = Some m <-> exists p u t, f = Text p u (Some t) /\ parse_client_msg t = Val m.
Proof.
  unfold parsed, frame_text. split.
  - destruct f as [p|p u [t|]]; try discriminate.
    destruct (parse_client_msg t) as [m'| |] eqn:E; try discriminate.
    intro X; inversion X; subst. eauto.
  - intros (p & u & t & -> & E). rewrite E. reflexivity.
Qed.

(** ParseClientMsg never panics on a frame's text, so mapping the codec
    model's third outcome to "error" in [parsed] loses nothing *)
Lemma parsed_never_panics f t : frame_text f = Some t -> parse_client_msg t <> Panic.
Proof. intros _. apply parse_never_panics. Qed.

(** C10: what ParseClientMsg yields is filled and carries the label of the text *)
Lemma parsed_filled f m :
  parsed f = Some m ->
  exists t, frame_text f = Some t /\ parse_client_msg t = Val m /\
            wf_cmsg m /\ first_label (ct_json t) = Some (label_of_cmsg m).
Proof.
  intro P. apply parsed_Some in P as (p & u & t & -> & E).
  destruct (parse_label_sound t m E) as (L & W). exists t. cbn. auto.
Qed.

Lemma unwrap_somes (l : list gtag) :
  forallb Codec.is_some l = true ->
  List.map (@Some _) (List.map (fun t : gtag => match t with None => [] | Some t' => t' end) l) = l.
Proof.
  induction l as [|[t|] l IH]; cbn; [reflexivity| |discriminate].
  intro E. now rewrite (IH E).
Qed.

Lemma wf_event_view_lossless e : wf_eventb e = true -> gevent_of_event (event_of_gevent e) = e.
Proof.
  unfold wf_eventb. intro W. apply andb_true_iff in W as [_ W].
  destruct e as [id pk ts kind tags content sig]. cbn in *.
  destruct tags as [l|]; [|discriminate].
  unfold gevent_of_event, event_of_gevent. cbn. do 2 f_equal. exact (unwrap_somes l W).
Qed.

(** the event of every parsed EVENT has non-nil Tags without nil tags: the
    view in Base.event used for Verify loses nothing, and the event pointer is
    not nil *)
Lemma parsed_event_view_lossless f e :
  parsed f = Some (CEvent e) ->
  exists e', e = Some e' /\ gevent_of_event (event_of_gevent e') = e'.
Proof.
  intro P. destruct (parsed_filled f _ P) as (t & _ & _ & W & _).
  unfold wf_cmsg in W. cbn in W. destruct e as [e'|]; [|discriminate].
  exists e'. split; [reflexivity|]. now apply wf_event_view_lossless.
Qed.

Lemma wf_nip01_event_some e : wf_nip01 (CEvent e) -> exists e', e = Some e'.
Proof. destruct e as [e'|]; [eauto|]. unfold wf_nip01. cbn. discriminate. Qed.

Section AdmissionProofs.
  Variable H : str -> str.
  Variable PK : str -> bool.
  Variable SG : str -> bool.
  Variable V : str -> str -> str -> bool.

  Notation frame_outcomes := (frame_outcomes H PK SG V).
  Notation admit_frame := (admit_frame H PK SG V).
  Notation forwarded := (forwarded H PK SG V).
  Notation relay_session := (relay_session H PK SG V).
  Notation handler_msgs := (handler_msgs H PK SG V).
  Notation number := (number H PK SG V).
  Notation admissible := (admissible H PK SG V).
  Notation authentic_if_event_msg := (authentic_if_event_msg H PK SG V).
  Notation delivers := (delivers H PK SG V).
  Notation verify_cmsg := (verify_cmsg H PK SG V).

  (** the message id is carried through and decides nothing *)
  Lemma gate_id_irrelevant i f :
    gate (frame_outcomes i f) =
    match admit_frame f with Forward _ => Forward i | Reject c => Reject c end.
  Proof.
    unfold Admission.admit_frame. rewrite !gate_unfold.
    cbn [fr_text fr_utf8 fr_json fr_parse fr_valid fr_verify fr_msg Admission.frame_outcomes].
    destruct (negb match f with Text _ _ _ => true | Binary _ => false end); [reflexivity|].
    destruct (negb (match f with Text _ u _ => u | Binary _ => false end
                    && match f with Text _ _ (Some _) => true | _ => false end)); [reflexivity|].
    destruct (option_map kind_of_cmsg (parsed f)) as [k|]; [|reflexivity].
    destruct (negb (valid_client_msg_opt (parsed f))); [reflexivity|].
    destruct k; try reflexivity.
    destruct (match parsed f with Some m => verify_cmsg m | None => Gate.VErr end) as [[|]|]; reflexivity.
  Qed.

  Lemma forwardable_id_irrelevant i f :
    forwardable_spec (frame_outcomes i f) = forwardable_spec (frame_outcomes 0 f).
  Proof. reflexivity. Qed.

  Lemma notice_id_irrelevant c i f :
    notice_text c (frame_outcomes i f) = notice_text c (frame_outcomes 0 f).
  Proof. reflexivity. Qed.

  Lemma admit_forward_is_0 f m : admit_frame f = Forward m -> m = 0.
  Proof. intro A. apply gate_forward_only_own in A. exact A. Qed.

  Lemma forwarded_parsed f m : forwarded f = Some m -> parsed f = Some m.
  Proof. unfold Admission.forwarded. destruct (admit_frame f); [auto|discriminate]. Qed.

  (* ---------------------------------------------------------------- *)
  (** * 3. The forward decision *)

  Lemma verify_cmsg_authentic e :
    verify_cmsg (CEvent (Some e)) = Gate.VOk true <-> authentic_spec H PK SG V (event_of_gevent e).
  Proof.
    cbn [Admission.verify_cmsg]. rewrite gate_vo_true, verify_tree_is_verify. apply authentic_iff.
  Qed.

  Theorem forwarded_iff f m : forwarded f = Some m <-> admissible f m.
  Proof.
    split.
    - intro F. pose proof (forwarded_parsed f m F) as P.
      unfold Admission.forwarded in F. destruct (admit_frame f) as [m0|c] eqn:A; [|discriminate].
      pose proof (admit_forward_is_0 f m0 A) as ->.
      unfold Admission.admit_frame in A.
      change 0 with (fr_msg (frame_outcomes 0 f)) in A at 2.
      apply gate_forward_iff in A as (T & U & J & _ & Vd & Au).
      cbn [fr_text fr_utf8 fr_json fr_parse fr_valid fr_verify Admission.frame_outcomes] in T, U, J, Vd, Au.
      rewrite P in Vd, Au. cbn [valid_client_msg_opt option_map] in Vd, Au.
      destruct f as [p|p u [t|]]; try discriminate. subst u.
      apply parsed_Some in P as (p' & u' & t' & X & E). inversion X; subst p' u' t'.
      exists p, t. repeat split; try assumption.
      + unfold wf_nip01. now rewrite <- valid_is_wf.
      + intros e ->. apply verify_cmsg_authentic. apply Au. reflexivity.
    - intros (p & t & -> & E & W & Au).
      assert (P : parsed (Text p true (Some t)) = Some m) by (apply parsed_Some; eauto).
      unfold Admission.forwarded.
      assert (A : admit_frame (Text p true (Some t)) = Forward 0).
      { unfold Admission.admit_frame.
        change 0 with (fr_msg (frame_outcomes 0 (Text p true (Some t)))) at 2.
        apply gate_forward_iff.
        cbn [fr_text fr_utf8 fr_json fr_parse fr_valid fr_verify Admission.frame_outcomes].
        rewrite P. cbn [valid_client_msg_opt option_map].
        repeat split; try reflexivity.
        - eauto.
        - now apply valid_complete.
        - intro K. destruct m as [e| | |e|]; try discriminate.
          destruct (wf_nip01_event_some e W) as (e' & ->).
          apply verify_cmsg_authentic. now apply Au. }
      rewrite A. exact P.
  Qed.

  (** for ALL frames: forwarded (with the message m) iff text, valid UTF-8,
      valid JSON, the text decodes to m, m is well-formed under NIP-01, and —
      when m is an EVENT — authentic *)
  Corollary admit_forward_iff f :
    admit_frame f = Forward 0 <-> exists m, admissible f m.
  Proof.
    split.
    - intro A.
      assert (F : exists m, forwarded f = Some m).
      { unfold Admission.forwarded. rewrite A.
        unfold Admission.admit_frame in A. change 0 with (fr_msg (frame_outcomes 0 f)) in A at 2.
        apply gate_forward_iff in A as (_ & _ & _ & (k & K) & _).
        cbn [fr_parse Admission.frame_outcomes] in K.
        destruct (parsed f) as [m|]; [eauto|discriminate]. }
      destruct F as (m & F). exists m. now apply forwarded_iff.
    - intros (m & Ad). apply forwarded_iff in Ad. unfold Admission.forwarded in Ad.
      destruct (admit_frame f) as [m0|c] eqn:A; [|discriminate].
      now rewrite (admit_forward_is_0 f m0 A).
  Qed.

  Lemma admissible_functional f m m' : admissible f m -> admissible f m' -> m = m'.
  Proof. intros A A'. apply forwarded_iff in A, A'. congruence. Qed.

  (* ---------------------------------------------------------------- *)
  (** * 4. On the JSON value of the text (C11's completeness and soundness) *)

  (** completeness: a text frame of valid UTF-8 whose JSON value is a
      well-formed NIP-01 client message in the sense of [wf_json_cmsg] — with
      or without white space before the bracket — decodes to some m that is
      well-formed under NIP-01, and is forwarded provided m, if an EVENT, is
      authentic *)
  Theorem forward_complete_json p lead j :
    wf_json_cmsg false j = true ->
    exists m, parse_client_msg (mkCText lead false j) = Val m /\ wf_nip01 m /\ wf_cmsg m /\
              first_label j = Some (label_of_cmsg m) /\
              (authentic_if_event_msg m ->
               forwarded (Text p true (Some (mkCText lead false j))) = Some m).
  Proof.
    intro W. pose proof (gate_complete_any_ws lead j W) as G.
    destruct (gate_sound _ G) as (m & E & Wc & L & _).
    exists m. unfold gate_admits in G. rewrite E in G.
    assert (Wn : wf_nip01 m) by (unfold wf_nip01; now rewrite <- valid_is_wf).
    repeat split; try assumption.
    intro Au. apply forwarded_iff. exists p, (mkCText lead false j). auto.
  Qed.

  (** soundness: what is forwarded is the decoded text, filled, with the label
      of the text, breaks none of the NIP-01 constraints, and is authentic if
      it is an EVENT *)
  Theorem forward_sound f m :
    forwarded f = Some m ->
    exists p t, f = Text p true (Some t) /\ parse_client_msg t = Val m /\
                wf_cmsg m /\ first_label (ct_json t) = Some (label_of_cmsg m) /\
                wf_nip01 m /\ constraints m /\ authentic_if_event_msg m.
  Proof.
    intro F. apply forwarded_iff in F as (p & t & -> & E & W & Au).
    assert (G : gate_admits t = true) by (unfold gate_admits; rewrite E; now apply valid_complete).
    destruct (gate_sound t G) as (m' & E' & Wc & L & C).
    assert (m' = m) by congruence. subst m'.
    exists p, t. repeat split; assumption.
  Qed.

  (** C10: what reaches the handler is exactly ParseClientMsg of the frame's
      text, is filled, and carries the label of the text *)
  Theorem forwarded_message_is_parsed f m :
    forwarded f = Some m ->
    parsed f = Some m /\
    exists t, frame_text f = Some t /\ parse_client_msg t = Val m /\
              wf_cmsg m /\ first_label (ct_json t) = Some (label_of_cmsg m).
  Proof.
    intro F. pose proof (forwarded_parsed f m F) as P. split; [exact P|]. now apply parsed_filled.
  Qed.

  (* ---------------------------------------------------------------- *)
  (** * 5. One frame of a session *)

  Lemma forwardable_outcomes i f :
    forwardable_spec (frame_outcomes i f) = match forwarded f with Some _ => true | None => false end.
  Proof.
    rewrite forwardable_id_irrelevant. unfold Admission.forwarded, Admission.admit_frame.
    destruct (forwardable_spec (frame_outcomes 0 f)) eqn:F.
    - rewrite (gate_forward_spec _ F).
      apply forwardable_spec_iff in F as (_ & _ & _ & (k & K) & _).
      cbn [fr_parse Admission.frame_outcomes] in K.
      destruct (parsed f); [reflexivity|discriminate].
    - destruct (gate_reject_spec _ F) as (c & ->). reflexivity.
  Qed.

  (** a frame that is not admissible: exactly one rejection, for this frame,
      of the class the gate names, and nothing for the handler; the read loop
      goes on *)
  Theorem rejected_gets_one_notice s i f :
    live s = true -> forwarded f = None ->
    handler_input (step s (frame_outcomes i f)) = handler_input s /\
    live (step s (frame_outcomes i f)) = true /\
    exists r, rejections (step s (frame_outcomes i f)) = rejections s ++ [r] /\
              rj_msg r = i /\ admit_frame f = Reject (rj_class r) /\
              rj_text r = notice_text (rj_class r) (frame_outcomes i f).
  Proof.
    intros L F.
    destruct (step_exactly_one s (frame_outcomes i f) L) as [(Fw & _)|(_ & Hh & r & Hr & Hm & Hc & Ht)].
    - rewrite forwardable_outcomes, F in Fw. discriminate.
    - split; [exact Hh|]. split; [now apply step_live|].
      exists r. repeat split; try assumption.
      rewrite gate_id_irrelevant in Hc. destruct (admit_frame f); [discriminate|exact Hc].
  Qed.

  (** an admissible frame: its message id goes to the handler, no rejection *)
  Theorem forwarded_step s i f m :
    live s = true -> forwarded f = Some m ->
    handler_input (step s (frame_outcomes i f)) = handler_input s ++ [i] /\
    rejections (step s (frame_outcomes i f)) = rejections s /\
    live (step s (frame_outcomes i f)) = true.
  Proof.
    intros L F.
    destruct (step_exactly_one s (frame_outcomes i f) L) as [(_ & Hh & Hr)|(Fw & _)].
    - repeat split; try assumption. now apply step_live.
    - rewrite forwardable_outcomes, F in Fw. discriminate.
  Qed.

  (* ---------------------------------------------------------------- *)
  (** * 6. Sessions *)

  (** positions (counted from i) of the frames that are forwarded *)
  Fixpoint fwd_idx (i : Z) (fs : list wsframe) : list Z :=
    match fs with
    | [] => []
    | f :: r => match forwarded f with
                | Some _ => i :: fwd_idx (i + 1) r
                | None => fwd_idx (i + 1) r
                end
    end.

  Lemma forwardable_number i fs : filter_map forwardable (number i fs) = fwd_idx i fs.
  Proof.
    revert i. induction fs as [|f fs IH]; intro i; [reflexivity|].
    cbn [Admission.number filter_map fwd_idx]. unfold forwardable at 1.
    rewrite forwardable_outcomes, IH. destruct (forwarded f); reflexivity.
  Qed.

  Lemma fwd_idx_ge i fs j : In j (fwd_idx i fs) -> i <= j.
  Proof.
    revert i. induction fs as [|f fs IH]; intro i; cbn [fwd_idx]; [intros []|].
    destruct (forwarded f); [intros [<-|X]; [lia|]|intro X]; specialize (IH _ X); lia.
  Qed.

  Lemma msg_at_cons f fs k : 0 < k -> msg_at (f :: fs) k = msg_at fs (k - 1).
  Proof.
    intro K. unfold msg_at.
    destruct (k <? 0) eqn:E1; [apply Z.ltb_lt in E1; lia|].
    destruct (k - 1 <? 0) eqn:E2; [apply Z.ltb_lt in E2; lia|].
    replace (Z.to_nat k) with (S (Z.to_nat (k - 1))) by lia. reflexivity.
  Qed.

  Lemma msg_at_fwd_idx fs : forall i,
    List.map (fun j => msg_at fs (j - i)) (fwd_idx i fs) = List.map Some (filter_map forwarded fs).
  Proof.
    induction fs as [|f fs IH]; intro i; [reflexivity|].
    cbn [fwd_idx filter_map].
    assert (T : List.map (fun j => msg_at (f :: fs) (j - i)) (fwd_idx (i + 1) fs)
                = List.map Some (filter_map forwarded fs)).
    { rewrite <- (IH (i + 1)). apply map_ext_in. intros j Hj. apply fwd_idx_ge in Hj.
      rewrite msg_at_cons by lia. f_equal. lia. }
    destruct (forwarded f) as [m|] eqn:F; [|exact T].
    cbn [List.map]. rewrite T. f_equal.
    rewrite Z.sub_diag. unfold msg_at. cbn. now apply forwarded_parsed.
  Qed.

  Lemma count_rejected_number i fs :
    count_occ_b (fun f => negb (forwardable_spec f)) (number i fs) =
    count_occ_b (fun f => match forwarded f with None => true | Some _ => false end) fs.
  Proof.
    revert i. induction fs as [|f fs IH]; intro i; [reflexivity|].
    cbn [Admission.number count_occ_b]. rewrite forwardable_outcomes, IH.
    destruct (forwarded f); reflexivity.
  Qed.

  Lemma rejected_number i fs :
    List.map fr_msg (rejected_frames (number i fs)) =
    filter_map (fun p => match forwarded (snd p) with None => Some (fst p) | Some _ => None end)
               (combine (List.map (fun k => i + Z.of_nat k) (seq 0 (length fs))) fs).
  Proof.
    revert i. induction fs as [|f fs IH]; intro i; [reflexivity|].
    unfold rejected_frames in *.
    cbn [Admission.number filter length seq List.map combine filter_map fst snd].
    rewrite forwardable_outcomes, Z.add_0_r.
    assert (T : List.map fr_msg (filter (fun f0 => negb (forwardable_spec f0)) (number (i + 1) fs)) =
                filter_map (fun p => match forwarded (snd p) with None => Some (fst p) | Some _ => None end)
                  (combine (List.map (fun k => i + Z.of_nat k) (seq 1 (length fs))) fs)).
    { rewrite (IH (i + 1)). f_equal. f_equal. rewrite <- seq_shift, map_map.
      apply map_ext. intro k. lia. }
    destruct (forwarded f); cbn [negb List.map fr_msg Admission.frame_outcomes]; rewrite T; reflexivity.
  Qed.

  (** the declarative delivery relation is decided by [forwarded] *)
  Lemma delivers_filter_map fs : delivers fs (filter_map forwarded fs).
  Proof.
    induction fs as [|f fs IH]; [constructor|]. cbn [filter_map].
    destruct (forwarded f) as [m|] eqn:F.
    - apply dl_admit; [now apply forwarded_iff|exact IH].
    - apply dl_reject; [|exact IH]. intros m Ad. apply forwarded_iff in Ad. congruence.
  Qed.

  Lemma delivers_unique fs ms : delivers fs ms -> ms = filter_map forwarded fs.
  Proof.
    induction 1 as [|f m fs ms Ad _ IH|f fs ms N _ IH]; [reflexivity| |]; cbn [filter_map].
    - apply forwarded_iff in Ad. rewrite Ad, IH. reflexivity.
    - destruct (forwarded f) as [m|] eqn:F; [|exact IH].
      exfalso. apply (N m). now apply forwarded_iff.
  Qed.

  (** for every frame sequence: the handler receives exactly the messages of
      the admissible frames, once each, in the order sent; every other frame
      draws one rejection (naming that frame), in the order sent; the read loop
      survives *)
  Theorem session_delivers fs :
    handler_msgs fs = List.map Some (filter_map forwarded fs) /\
    (forall ms, delivers fs ms <-> handler_msgs fs = List.map Some ms) /\
    List.map rj_msg (rejections (relay_session fs)) =
      filter_map (fun p => match forwarded (snd p) with None => Some (fst p) | Some _ => None end)
                 (combine (List.map Z.of_nat (seq 0 (length fs))) fs) /\
    length (rejections (relay_session fs)) =
      count_occ_b (fun f => match forwarded f with None => true | Some _ => false end) fs /\
    live (relay_session fs) = true.
  Proof.
    unfold Admission.handler_msgs, Admission.relay_session.
    destruct (session_order (number 0 fs)) as (Hh & Hr & Hn).
    assert (E : List.map (msg_at fs) (handler_input (session (number 0 fs)))
                = List.map Some (filter_map forwarded fs)).
    { rewrite Hh, forwardable_number, <- (msg_at_fwd_idx fs 0).
      apply map_ext. intro j. now rewrite Z.sub_0_r. }
    split; [exact E|]. split; [|split; [|split]].
    - intro ms. rewrite E. split.
      + intro D. now rewrite (delivers_unique fs ms D).
      + intro X. assert (ms = filter_map forwarded fs).
        { clear -X. revert X. generalize (filter_map forwarded fs) as l.
          induction ms as [|a ms IH]; intros [|b l] X; try discriminate; [reflexivity|].
          cbn in X. inversion X. f_equal. now apply IH. }
        subst ms. apply delivers_filter_map.
    - rewrite Hr, rejected_number. reflexivity.
    - rewrite Hn. apply count_rejected_number.
    - apply session_live.
  Qed.

  (* ---------------------------------------------------------------- *)
  (** * 7. Tampering, through the gate *)

  Lemma forwarded_event_verified f g :
    forwarded f = Some (CEvent (Some g)) -> verify H PK SG V (event_of_gevent g) = Ser.VOk true.
  Proof.
    intro F. apply forwarded_iff in F as (p & t & _ & _ & _ & Au).
    apply authentic_iff. now apply Au.
  Qed.

  (** a forwarded EVENT and a second EVENT frame that differs from it in a
      signed field under the same id bytes: if the second is forwarded too,
      the two canonical serializations are different texts with one hash *)
  Theorem tamper_through_gate f f' g g' :
    forwarded f = Some (CEvent (Some g)) ->
    parsed f' = Some (CEvent (Some g')) ->
    bytes_ok_event (event_of_gevent g) -> bytes_ok_event (event_of_gevent g') ->
    id_bytes (event_of_gevent g') = id_bytes (event_of_gevent g) ->
    signed_fields (event_of_gevent g') <> signed_fields (event_of_gevent g) ->
    forwarded f' <> None ->
    canonical (event_of_gevent g) <> canonical (event_of_gevent g') /\
    H (canonical (event_of_gevent g)) = H (canonical (event_of_gevent g')).
  Proof.
    intros F P B B' I S F'.
    destruct (forwarded f') as [m'|] eqn:E; [|congruence].
    pose proof (forwarded_parsed f' m' E) as P'. rewrite P in P'. inversion P'; subst m'.
    rewrite <- !serialize_canonical.
    apply (tamper_signed_field H PK SG V); try assumption;
      eapply forwarded_event_verified; eassumption.
  Qed.

  (** the same, read the other way: no collision, no admission *)
  Corollary tamper_rejected f f' g g' :
    forwarded f = Some (CEvent (Some g)) ->
    parsed f' = Some (CEvent (Some g')) ->
    bytes_ok_event (event_of_gevent g) -> bytes_ok_event (event_of_gevent g') ->
    id_bytes (event_of_gevent g') = id_bytes (event_of_gevent g) ->
    signed_fields (event_of_gevent g') <> signed_fields (event_of_gevent g) ->
    (canonical (event_of_gevent g) <> canonical (event_of_gevent g') ->
     H (canonical (event_of_gevent g)) <> H (canonical (event_of_gevent g'))) ->
    forwarded f' = None /\ exists c, admit_frame f' = Reject c.
  Proof.
    intros F P B B' I S NC.
    assert (N : forwarded f' = None).
    { destruct (forwarded f') as [m|] eqn:E; [exfalso|reflexivity].
      destruct (tamper_through_gate f f' g g' F P B B' I S) as (D & C); [congruence|].
      now apply NC. }
    split; [exact N|].
    unfold Admission.forwarded in N. destruct (admit_frame f') as [m0|c]; [congruence|eauto].
  Qed.

  (** changing the id bytes of a forwarded EVENT, signed fields unchanged: not forwarded *)
  Theorem tamper_id_through_gate f f' g g' :
    forwarded f = Some (CEvent (Some g)) ->
    parsed f' = Some (CEvent (Some g')) ->
    signed_fields (event_of_gevent g') = signed_fields (event_of_gevent g) ->
    id_bytes (event_of_gevent g') <> id_bytes (event_of_gevent g) ->
    forwarded f' = None.
  Proof.
    intros F P S I.
    destruct (forwarded f') as [m'|] eqn:E; [exfalso|reflexivity].
    pose proof (forwarded_parsed f' m' E) as P'. rewrite P in P'. inversion P'; subst m'.
    apply (tamper_id H PK SG V _ _ (forwarded_event_verified f g F) S I).
    now apply (forwarded_event_verified f').
  Qed.
End AdmissionProofs.

(* ------------------------------------------------------------------ *)
(** * 8. Non-vacuity: concrete frames, computable oracles *)

(** a well-formed REQ is admitted whatever the crypto oracles are *)
Example ex_req_admitted H PK SG V :
  wf_json_cmsg false ex_req_ast = true /\
  forwarded H PK SG V (text_frame "[""REQ"",...]" ex_req_ast) =
  Some (CReq (gtxt "sub1")
          [ Some (mkGFilter None None (Some [1]) (Some [(gtxt "t", Some [gtxt "x"])]) None None (Some 10));
            Some empty_gfilter ]).
Proof. split; vm_compute; reflexivity. Qed.

Notation toy_forwarded := (forwarded toy_H toy_PK toy_SG toy_V).
Notation toy_admit := (admit_frame toy_H toy_PK toy_SG toy_V).

Definition ex_gevent (id pk content sig : str) : gevent :=
  mkGEvent id pk 1700000000 1 (Some [Some [gtxt "t"; gtxt "x"]]) content sig.

(** the id of the example, as text *)
Example ex_id_literal :
  ex_id = hex_encode (toy_H (canonical (event_of_gevent (ex_gevent [] ex_pk (gtxt "hi") [])))) /\
  length ex_id = 64%nat /\ length ex_sig = 128%nat.
Proof. vm_compute. auto. Qed.

(** a well-formed, correctly "hashed" and "signed" EVENT is admitted ... *)
Example ex_event_admitted :
  wf_json_cmsg false ex_event_ast = true /\
  toy_forwarded (text_frame "[""EVENT"",...]" ex_event_ast)
  = Some (CEvent (Some (ex_gevent ex_id ex_pk (gtxt "hi") ex_sig))) /\
  authentic_spec toy_H toy_PK toy_SG toy_V (event_of_gevent (ex_gevent ex_id ex_pk (gtxt "hi") ex_sig)).
Proof.
  split; [vm_compute; reflexivity|]. split; [vm_compute; reflexivity|].
  apply authentic_iff. vm_compute. reflexivity.
Qed.

(** ... its copy with another content under the same id and signature is
    well-formed and parses, but is rejected as not authentic, the notice
    quoting the id; so is its copy with another signature; a key that does not
    parse is an internal error; the same altered event inside AUTH passes
    (serveRead verifies *ClientEventMsg only) *)
Example ex_event_altered_rejected :
  wf_json_cmsg false ex_event_ast_content_altered = true /\
  parsed (text_frame "[""EVENT"",...]" ex_event_ast_content_altered)
  = Some (CEvent (Some (ex_gevent ex_id ex_pk (gtxt "ho") ex_sig))) /\
  toy_admit (text_frame "[""EVENT"",...]" ex_event_ast_content_altered) = Reject NNotAuthentic /\
  toy_forwarded (text_frame "[""EVENT"",...]" ex_event_ast_content_altered) = None /\
  toy_admit (text_frame "[""EVENT"",...]" ex_event_ast_sig_altered) = Reject NNotAuthentic /\
  toy_admit (text_frame "[""EVENT"",...]" ex_event_ast_bad_pubkey) = Reject NInternal /\
  toy_forwarded (text_frame "[""AUTH"",...]" ex_auth_ast)
  = Some (CAuth (Some (ex_gevent ex_id ex_pk (gtxt "ho") ex_sig))).
Proof. repeat split; vm_compute; reflexivity. Qed.

(** the hypotheses of the tamper theorem are met by that pair, and the toy
    hash separates them *)
Example ex_tamper_hypotheses :
  let g := ex_gevent ex_id ex_pk (gtxt "hi") ex_sig in
  let g' := ex_gevent ex_id ex_pk (gtxt "ho") ex_sig in
  toy_forwarded (text_frame "e" ex_event_ast) = Some (CEvent (Some g)) /\
  parsed (text_frame "e'" ex_event_ast_content_altered) = Some (CEvent (Some g')) /\
  bytes_ok_event (event_of_gevent g) /\ bytes_ok_event (event_of_gevent g') /\
  id_bytes (event_of_gevent g') = id_bytes (event_of_gevent g) /\
  signed_fields (event_of_gevent g') <> signed_fields (event_of_gevent g) /\
  toy_H (canonical (event_of_gevent g)) <> toy_H (canonical (event_of_gevent g')).
Proof.
  cbv zeta. split; [vm_compute; reflexivity|]. split; [vm_compute; reflexivity|].
  split; [|split; [|split; [vm_compute; reflexivity|split; vm_compute; discriminate]]].
  - unfold bytes_ok_event, bytes_ok. repeat split.
    + apply Forall_forall. intros b Hb. apply repeat_spec in Hb. subst b. reflexivity.
    + repeat constructor.
    + repeat constructor.
  - unfold bytes_ok_event, bytes_ok. repeat split.
    + apply Forall_forall. intros b Hb. apply repeat_spec in Hb. subst b. reflexivity.
    + repeat constructor.
    + repeat constructor.
Qed.

(** a whole session over every kind of frame *)
Example ex_session_adm :
  handler_input (relay_session toy_H toy_PK toy_SG toy_V ex_frames_adm) = [0; 6; 10; 11] /\
  List.map (fun r => (rj_msg r, rj_class r)) (rejections (relay_session toy_H toy_PK toy_SG toy_V ex_frames_adm))
  = [(1, NBinary); (2, NBadJson); (3, NBadJson); (4, NParse); (5, NInvalid);
     (7, NNotAuthentic); (8, NNotAuthentic); (9, NInternal)] /\
  List.map (option_map label_of_cmsg) (handler_msgs toy_H toy_PK toy_SG toy_V ex_frames_adm)
  = [Some L_REQ; Some L_EVENT; Some L_AUTH; Some L_CLOSE].
Proof. repeat split; vm_compute; reflexivity. Qed.

(** the two notices that quote something: the payload, the event id *)
Example ex_notice_texts_adm :
  List.map rj_text
    (filter (fun r => (rj_msg r =? 5) || (rj_msg r =? 7))
       (rejections (relay_session toy_H toy_PK toy_SG toy_V ex_frames_adm)))
  = [ fmt1 (nth 3 GenGate.g_gate_notice_fmts []) (gtxt "<req kinds 70000>");
      fmt1 (nth 5 GenGate.g_gate_notice_fmts []) ex_id ].
Proof. vm_compute. reflexivity. Qed.
