(* SqlHashed.v — C06: the store as the implementation keeps it, with the
   64-bit event keys and the MD5 tag hashes in place of their pre-images.
   Definitions only; the refinement proof is in SqlHashedProofs.v.

   Sql.v keys rows by the strings that are hashed ([ekey]); here every key is
   the number [key64 xx k] and every tag hash is [md5 s], for arbitrary
   functions [xx] (xxHash32 with a seed) and [md5].  A 64-bit key [n] is
   represented by the [ekey] that carries this number and nothing else,
   [KReg 0 n []], so that the table type [db] and the statements of Sql.v that
   only COMPARE keys ([upsert], the triggers, [set_add], the joins, [tomb_free])
   are reused as they are: on such keys [ekey_eqb] is equality of the numbers
   ([hk_eqb], SqlHashedProofs.v).  The places that COMPUTE a key or a tag hash
   are restated: getEventKey, the a-tag tombstone key, the tag rows of an
   event, and the tag hashes of a filter. *)
From Moc Require Import Base Match Sql SqlSpec.
From Moc.Gen Require Import GenMsg GenSql.
Open Scope Z_scope.

Section Hashed.
Variable xx : Z -> str -> Z.
Variable md5 : str -> str.

(** the stored key of the pre-image [k] *)
Definition hk (k : ekey) : ekey := KReg 0 (key64 xx k) [].

Definition hkp (kp : ekey * str) : ekey * str := (hk (fst kp), snd kp).

(* ------------------------------------------------------------------ *)
(** * insertion *)

Definition insert_params_h (seed : Z) (e : event) : option (ekey * event) :=
  match insert_params seed e with
  | Some (k, e') => Some (hk k, e')
  | None => None
  end.

(** buildInsertEventsParamsTags with md5.Sum *)
Definition tag_row_h (k : ekey) (ts : Z) (t : tag) : list trow :=
  List.map (fun r => mkTRow (md5 (t_hash r)) ts k) (tag_row k ts t).

Definition tag_rows_of_h (k : ekey) (e : event) : list trow :=
  dedup trow_eqb (flat_map (tag_row_h k (ev_ts e)) (ev_tags e)) [].

Definition k5_dkeys_h (seed : Z) (e : event) : list (ekey * str) := List.map hkp (k5_dkeys seed e).

(** the loop body of insertEvents, as [insert_event] *)
Definition insert_event_h (seed : Z) (s : db) (ke : ekey * event) : db * nat :=
  let '(k, e) := ke in
  let '(evs, u) := upsert (d_events s) (row_of k e) in
  let pls := match u with
             | UUpdated old => filter (fun p => negb (ekey_eqb (p_key p) (r_key old))) (d_payloads s)
             | _ => d_payloads s
             end in
  let tgs := match u with
             | UUpdated old => filter (fun t => negb (ekey_eqb (t_key t) (r_key old))) (d_tags s)
             | _ => d_tags s
             end in
  let affected := match u with UNone => 0 | _ => 1 end in
  if g_sql_unaffected affected then (mkDb (d_seed s) evs pls tgs (d_dkeys s) (d_dids s), 1%nat)
  else
    let trs := tag_rows_of_h k e in
    let dks := k5_dkeys_h seed e in
    let dis := k5_dids e in
    (mkDb (d_seed s) evs (pls ++ [prow_of k e]) (tgs ++ trs)
          (fold_left (fun l x => set_add dkey_eqb x l) dks (d_dkeys s))
          (fold_left (fun l x => set_add did_eqb x l) dis (d_dids s)),
     (2 + length trs + length dks + length dis)%nat).

Definition insert_events_h (seed : Z) (s : db) (ps : list (ekey * event)) : db * nat :=
  fold_left (fun (acc : db * nat) ke =>
               let '(s', n) := insert_event_h seed (fst acc) ke in (s', (snd acc + n)%nat))
            ps (s, 0%nat).

Definition insert_batch_h (seed : Z) (s : db) (b : list event) : db :=
  let ps := filter_map (insert_params_h seed) b in
  if g_sql_no_params (zlen ps) then s else fst (insert_events_h seed s ps).

Definition run_h (seed : Z) (s : db) (h : list (list event)) : db :=
  fold_left (insert_batch_h seed) h s.

(* ------------------------------------------------------------------ *)
(** * queries *)

Definition sub_mult_h (s : db) (f : rfilter) (ids authors : option (list str)) (r : erow) : nat :=
  (opt_count ids (fun l => self_join_count s r (fun r' => mem_str (r_id r') l)) *
   opt_count authors (fun l => self_join_count s r (fun r' => mem_str (r_pk r') l)) *
   opt_count (f_kinds f) (fun l => self_join_count s r (fun r' => mem_Z (r_kind r') l)) *
   opt_count (f_tags f) (fun m =>
      fold_right (fun nv acc => (tag_join_count s r (List.map (fun v => md5 (fst nv ++ v)) (snd nv)) * acc)%nat) 1%nat m))%nat.

Definition sub_rows_h (s : db) (f : rfilter) (ids authors : option (list str)) : list erow :=
  flat_map (fun r => if since_ok f (r_ts r) &&& until_ok f (r_ts r) &&& tomb_free s r
                     then repeat r (sub_mult_h s f ids authors r) else [])
           (d_events s).

Definition sub_candidates_h (s : db) (f : rfilter) : option (list erow) :=
  match decode_all (f_ids f), decode_all (f_authors f) with
  | Some ids, Some authors =>
      let rows := sub_rows_h s f ids authors in
      Some (if isSome (f_tags f) then dedup erow_key_eqb rows [] else rows)
  | _, _ => None
  end.

Definition sub_select_h (s : db) (maxLimit : Z) (f : rfilter) : option (list ekey) :=
  match sub_candidates_h s f with
  | None => None
  | Some rows =>
      Some (List.map r_key (apply_limit (sub_limit_of (f_limit f) maxLimit) (sort_desc r_ts rows)))
  end.

Definition query_h (s : db) (fs : list rfilter) (maxLimit : Z) : option (list event) :=
  match all_some (List.map (sub_select_h s maxLimit) fs) with
  | None => None
  | Some subs =>
      let rows := match fs with
                  | [] => d_events s
                  | _ => filter (fun r => existsb (mem_key (r_key r)) subs) (d_events s)
                  end in
      let joined := sort_desc (fun rp => r_ts (fst rp)) (join_payloads s rows) in
      let lim := goqu_limit_of (Some (to_int64 maxLimit)) maxLimit in
      Some (List.map (fun rp => event_of_row (fst rp) (snd rp)) (apply_limit lim joined))
  end.

(* ------------------------------------------------------------------ *)
(** * the image of a pre-image store *)

Definition h_erow (r : erow) : erow := mkERow (hk (r_key r)) (r_id r) (r_pk r) (r_ts r) (r_kind r).
Definition h_prow (p : prow) : prow := mkPRow (hk (p_key p)) (p_tags p) (p_content p) (p_sig p).
Definition h_trow (t : trow) : trow := mkTRow (md5 (t_hash t)) (t_ts t) (hk (t_key t)).

Definition hash_db (s : db) : db :=
  mkDb (d_seed s) (List.map h_erow (d_events s)) (List.map h_prow (d_payloads s)) (List.map h_trow (d_tags s))
       (List.map hkp (d_dkeys s)) (d_dids s).

End Hashed.
