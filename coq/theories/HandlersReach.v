(* HandlersReach.v — C16: dump/restore for the states a history reaches.
   Combines HandlersProofs.v (dump/restore under the representation invariant)
   with CacheInvProofs.v (every reachable state satisfies the invariant). *)
From Moc Require Import Base Match Msg Cache CacheSpec CacheInv Handlers HandlersProofs CacheInvProofs.
Open Scope Z_scope.

Lemma run_cap cap h : c_cap (c_run cap h) = cap.
Proof.
  unfold c_run.
  assert (G : forall s, c_cap (fold_left (fun s e => fst (c_add s e)) h s) = c_cap s).
  { induction h as [|e h IH]; intro s; cbn [fold_left]; [reflexivity|]. rewrite IH. apply add_cap. }
  now rewrite G.
Qed.

Theorem dump_restore_reachable cap h : hist_ok h -> 1 <= cap ->
  forall fs, c_find (restore (c_empty cap) (dump (c_run cap h))) fs = c_find (c_run cap h) fs.
Proof.
  intros H Hc fs. pose proof (inv_reachable cap h H) as I.
  pose proof (dump_restore (c_run cap h) I) as D. rewrite run_cap in D. now apply D.
Qed.

Theorem restore_registry_reachable cap h : hist_ok h -> 1 <= cap ->
  forall k pk, c_is_deleted (restore (c_empty cap) (dump (c_run cap h))) k pk = c_is_deleted (c_run cap h) k pk.
Proof.
  intros H Hc k pk. pose proof (inv_reachable cap h H) as I.
  pose proof (restore_registry (c_run cap h) I) as D. rewrite run_cap in D. now apply D.
Qed.

(* ------------------------------------------------------------------ *)
(** * A cache session behind the admission gate never panics *)
From Moc Require Import CacheFindProofs.

Definition events_of (msgs : list cmsg) : list event :=
  flat_map (fun m => match m with CEvent e => [e] | _ => [] end) msgs.

(** the filters of every REQ are ones the decoder can produce *)
Definition msg_ok (m : cmsg) : Prop :=
  match m with CReq _ fs => Forall filter_ok fs | _ => True end.

Lemma hist_ok_prefix h l : hist_ok (h ++ l) -> hist_ok h.
Proof.
  intros [F W]. split.
  - intros a b Ha Hb. apply F; apply in_or_app; now left.
  - apply Forall_app in W. tauto.
Qed.

Lemma run_snoc cap h e : c_run cap (h ++ [e]) = fst (c_add (c_run cap h) e).
Proof. unfold c_run. now rewrite fold_left_app. Qed.

Theorem cache_session_total_reachable cap : forall msgs h,
  hist_ok (h ++ events_of msgs) -> Forall msg_ok msgs ->
  exists s' out, cache_session (c_run cap h) msgs = Ok (s', out).
Proof.
  unfold cache_session.
  induction msgs as [|m rest IH]; intros h H OK; cbn [simple_session].
  - eauto.
  - inversion OK as [|? ? Hm OK']; subst.
    assert (Step : forall ch, (exists s' out, simple_session cache_base (c_run cap h) rest = Ok (s', out)) ->
              exists s' out,
                match simple_session cache_base (c_run cap h) rest with
                | Ok (s2, out0) => Ok (s2, chan_items ch ++ out0)
                | Panic => Panic
                end = Ok (s', out)).
    { intros ch [s' [out E]]. rewrite E. eauto. }
    destruct m as [e|sub fs|sub|e|sub fs]; cbn [cache_base events_of flat_map app] in *.
    + destruct (c_add (c_run cap h) e) as [sa added] eqn:Ha.
      assert (Es : sa = c_run cap (h ++ [e])) by (rewrite run_snoc, Ha; reflexivity).
      subst sa. destruct (IH (h ++ [e])) as [s' [out E]]; [|exact OK'|].
      * rewrite <- app_assoc. exact H.
      * rewrite E. eauto.
    + rewrite (c_find_closed_form _ (inv_reachable cap h (hist_ok_prefix _ _ H)) fs Hm).
      apply Step. now apply IH.
    + apply Step. now apply IH.
    + apply Step. now apply IH.
    + apply Step. now apply IH.
Qed.

(** hence, behind the gate, the session exists and has the stated shape *)
Theorem cache_session_reachable cap msgs h :
  hist_ok (h ++ events_of msgs) -> Forall msg_ok msgs ->
  exists s' out, cache_session (c_run cap h) msgs = Ok (s', out) /\
                 cache_session_shape (c_run cap h) msgs out.
Proof.
  intros H OK. destruct (cache_session_total_reachable cap msgs h H OK) as [s' [out E]].
  exists s', out. split; [exact E|]. eapply cache_session_shape_holds. exact E.
Qed.
