(* SqlMerge.v — C06: the merge test of the oracle, [union_topn_ok] (SqlSpec.v),
   reflects the declarative statement [union_spec] - the very statement
   [query_spec] makes about a query, read over explicit candidate lists:

     union_topn_ok cands outer out = true  <->  union_spec cands outer out

   for duplicate-free candidate lists and non-negative limits, whether or not
   the outer limit cuts the merged answer.  Consequently
   [query_specb_spec : query_specb es fs ml out = true <-> query_spec es fs ml out].

   Parts: counting; [top_sel] over a list characterised by sure / cut-level
   candidates ([top_sel_char]); the back-tracking search [assign] is a
   capacity-respecting cover ([assign_sound], [assign_complete]); the merge. *)
From Coq Require Import Permutation.
From Moc Require Import Base Match MatchProofs Sql SqlSpec SqlLemmas SqlInv SqlSort SqlOracle.
Open Scope Z_scope.

(* ------------------------------------------------------------------ *)
(** * counting *)

Section Count.
Context {A : Type}.

Lemma count_b_nonneg (p : A -> bool) l : 0 <= count_b p l.
Proof. unfold count_b, zlen. lia. Qed.

Lemma count_b_le_zlen (p : A -> bool) l : count_b p l <= zlen l.
Proof.
  unfold count_b, zlen. induction l as [|x l IH]; [simpl; lia|].
  cbn [filter]. destruct (p x); cbn [length]; lia.
Qed.

Lemma count_b_le (p q : A -> bool) l :
  (forall x, In x l -> p x = true -> q x = true) -> count_b p l <= count_b q l.
Proof.
  unfold count_b, zlen. induction l as [|x l IH]; intro H; [simpl; lia|].
  assert (IH' : Z.of_nat (length (filter p l)) <= Z.of_nat (length (filter q l))).
  { apply IH. intros y Hy. apply H. now right. }
  cbn [filter]. destruct (p x) eqn:P.
  - rewrite (H x (or_introl eq_refl) P). cbn [length]. lia.
  - destruct (q x); cbn [length]; lia.
Qed.

Lemma count_b_ext_in (p q : A -> bool) l : (forall x, In x l -> p x = q x) -> count_b p l = count_b q l.
Proof. intro H. unfold count_b. now rewrite (filter_ext_in _ _ _ H). Qed.

Lemma count_b_split (p q : A -> bool) l :
  count_b p l = count_b (fun x => p x && q x) l + count_b (fun x => p x && negb (q x)) l.
Proof.
  unfold count_b, zlen. induction l as [|x l IH]; [reflexivity|].
  cbn [filter]. destruct (p x), (q x); cbn [andb negb length]; lia.
Qed.

Lemma count_b_pos (p : A -> bool) l x : In x l -> p x = true -> 1 <= count_b p l.
Proof.
  intros Hx Px. unfold count_b, zlen.
  assert (H : In x (filter p l)) by (apply filter_In; auto).
  destruct (filter p l); [destruct H | cbn [length]; lia].
Qed.

Lemma count_b_filter (p q : A -> bool) l : count_b p (filter q l) = count_b (fun x => q x && p x) l.
Proof.
  unfold count_b. f_equal. induction l as [|x l IH]; [reflexivity|].
  cbn [filter]. destruct (q x); cbn [filter andb]; [destruct (p x); now rewrite IH | assumption].
Qed.

Lemma count_b_nil (p : A -> bool) : count_b p [] = 0.
Proof. reflexivity. Qed.

Lemma zlen_incl (l m : list A) : NoDup l -> incl l m -> zlen l <= zlen m.
Proof. intros N I. unfold zlen. apply Nat2Z.inj_le. now apply NoDup_incl_length. Qed.

Lemma zlen_cons (x : A) l : zlen (x :: l) = zlen l + 1.
Proof. unfold zlen. cbn [length]. lia. Qed.

Lemma zlen_app (l m : list A) : zlen (l ++ m) = zlen l + zlen m.
Proof. unfold zlen. rewrite app_length. lia. Qed.

Lemma zlen_nonneg (l : list A) : 0 <= zlen l.
Proof. unfold zlen. lia. Qed.

Lemma filter_true (l : list A) : filter (fun _ => true) l = l.
Proof. induction l as [|x l IH]; [reflexivity | cbn [filter]; now rewrite IH]. Qed.

End Count.

Lemma zlen_eq_count res C : NoDup res -> NoDup C -> incl res C ->
  zlen res = count_b (fun x => mem_event x res) C.
Proof.
  intros Nr Nc I. unfold count_b, zlen. f_equal. apply Permutation_length.
  apply NoDup_Permutation; [assumption | now apply NoDup_filter |].
  intro x. rewrite filter_In, mem_event_In. split; [intro H; split; auto | tauto].
Qed.

Lemma exists_min_ts (l : list event) : l <> [] -> exists x, In x l /\ forall y, In y l -> ev_ts x <= ev_ts y.
Proof.
  induction l as [|a l IH]; intro H; [now elim H|].
  destruct l as [|b l].
  - exists a. split; [now left|]. intros y [<- |[]]. lia.
  - destruct IH as [m [Hm Hmin]]; [discriminate|].
    destruct (Z_le_gt_dec (ev_ts a) (ev_ts m)) as [L|L].
    + exists a. split; [now left|]. intros y [<- |Hy]; [lia|]. specialize (Hmin y Hy). lia.
    + exists m. split; [now right|]. intros y [<- |Hy]; [lia | now apply Hmin].
Qed.

Lemma exists_max_ts (l : list event) : l <> [] -> exists x, In x l /\ forall y, In y l -> ev_ts y <= ev_ts x.
Proof.
  induction l as [|a l IH]; intro H; [now elim H|].
  destruct l as [|b l].
  - exists a. split; [now left|]. intros y [<- |[]]. lia.
  - destruct IH as [m [Hm Hmax]]; [discriminate|].
    destruct (Z_le_gt_dec (ev_ts m) (ev_ts a)) as [L|L].
    + exists a. split; [now left|]. intros y [<- |Hy]; [lia|]. specialize (Hmax y Hy). lia.
    + exists m. split; [now right|]. intros y [<- |Hy]; [lia | now apply Hmax].
Qed.

(* ------------------------------------------------------------------ *)
(** * a top-[lim] choice over a duplicate-free list *)

Section Top.
Variable C : list event.
Hypothesis NC : NoDup C.

Lemma n_geq_mono x z : ev_ts x <= ev_ts z -> n_geq C z <= n_geq C x.
Proof. intro H. apply count_b_le. intros y _ Hy. apply Z.leb_le in Hy. apply Z.leb_le. lia. Qed.

Lemma n_geq_above x z : ev_ts x < ev_ts z -> n_geq C z <= n_above C x.
Proof. intro H. apply count_b_le. intros y _ Hy. apply Z.leb_le in Hy. apply Z.ltb_lt. lia. Qed.

Lemma n_above_eq x z : ev_ts x = ev_ts z -> n_above C x = n_above C z.
Proof. intro H. unfold n_above. now rewrite H. Qed.

Lemma n_geq_eq x z : ev_ts x = ev_ts z -> n_geq C x = n_geq C z.
Proof. intro H. unfold n_geq. now rewrite H. Qed.

(** n_geq = n_above + the size of the level *)
Definition on_level (x y : event) : bool := (ev_ts x <=? ev_ts y) && negb (ev_ts x <? ev_ts y).

Lemma n_geq_split x : n_geq C x = n_above C x + count_b (on_level x) C.
Proof.
  unfold n_geq. rewrite (count_b_split _ (fun y => ev_ts x <? ev_ts y)). f_equal.
  apply count_b_ext_in. intros y _.
  destruct (ev_ts x <? ev_ts y) eqn:E; [|now rewrite andb_false_r].
  apply Z.ltb_lt in E. rewrite andb_true_r. apply Z.leb_le. lia.
Qed.

Lemma on_level_iff x y : on_level x y = true <-> ev_ts y = ev_ts x.
Proof.
  unfold on_level. rewrite andb_true_iff, negb_true_iff, Z.leb_le, Z.ltb_ge. lia.
Qed.

Lemma n_above_lt_geq x : In x C -> n_above C x < n_geq C x.
Proof.
  intro Hx. rewrite n_geq_split.
  assert (1 <= count_b (on_level x) C); [|lia].
  apply (count_b_pos _ _ x Hx). now apply on_level_iff.
Qed.

Lemma sure_In n x : In x (sure_of (C, Some n)) <-> In x C /\ n_geq C x <= n.
Proof. unfold sure_of. cbn [fst snd]. rewrite filter_In. unfold is_sure. now rewrite Z.leb_le. Qed.

Lemma ties_In n x : In x (ties_of (C, Some n)) <-> In x C /\ n_above C x < n /\ n < n_geq C x.
Proof.
  unfold ties_of. cbn [fst snd]. rewrite filter_In. unfold is_tie. rewrite andb_true_iff, !Z.ltb_lt. tauto.
Qed.

Lemma sure_None : sure_of (C, None) = C.
Proof. unfold sure_of. cbn [fst snd is_sure]. apply filter_true. Qed.

Lemma ties_None : ties_of (C, None) = [].
Proof.
  unfold ties_of. cbn [fst snd]. generalize C at 2. intro l.
  induction l as [|x l IH]; [reflexivity | cbn [filter is_tie]; assumption].
Qed.

Lemma sure_sub lim x : In x (sure_of (C, lim)) -> In x C.
Proof. unfold sure_of. rewrite filter_In. tauto. Qed.

Lemma ties_sub lim x : In x (ties_of (C, lim)) -> In x C.
Proof. unfold ties_of. rewrite filter_In. tauto. Qed.

Lemma sure_NoDup lim : NoDup (sure_of (C, lim)).
Proof. unfold sure_of. now apply NoDup_filter. Qed.

Lemma ties_NoDup lim : NoDup (ties_of (C, lim)).
Proof. unfold ties_of. now apply NoDup_filter. Qed.

Lemma sure_not_tie lim x : In x (sure_of (C, lim)) -> ~ In x (ties_of (C, lim)).
Proof.
  destruct lim as [n|]; [|rewrite ties_None; auto].
  rewrite sure_In, ties_In. lia.
Qed.

(** the limit cuts through at most one created_at level *)
Lemma ties_level lim x y : In x (ties_of (C, lim)) -> In y (ties_of (C, lim)) -> ev_ts x = ev_ts y.
Proof.
  destruct lim as [n|]; [|rewrite ties_None; intros []].
  rewrite !ties_In. intros [_ [A1 A2]] [_ [B1 B2]].
  destruct (Z.lt_trichotomy (ev_ts x) (ev_ts y)) as [H|[H|H]]; [|assumption|].
  - pose proof (n_geq_above x y H). lia.
  - pose proof (n_geq_above y x H). lia.
Qed.

Lemma tie_room_nil lim : ties_of (C, lim) = [] -> tie_room (C, lim) = 0.
Proof. intro H. unfold tie_room. now rewrite H. Qed.

Lemma tie_room_cons n y0 r : ties_of (C, Some n) = y0 :: r -> tie_room (C, Some n) = n - n_above C y0.
Proof. intro H. unfold tie_room. now rewrite H. Qed.

Lemma ties_cons_Some lim y0 r : ties_of (C, lim) = y0 :: r -> exists n, lim = Some n.
Proof. destruct lim as [n|]; [eauto | rewrite ties_None; discriminate]. Qed.

(** the cut level is a whole level of [C] *)
Lemma is_tie_level n y0 z : In y0 (ties_of (C, Some n)) -> In z C ->
  is_tie C (Some n) z = on_level y0 z.
Proof.
  intros H0 Hz. destruct (on_level y0 z) eqn:L.
  - apply on_level_iff in L. apply ties_In in H0. destruct H0 as [_ [A1 A2]].
    unfold is_tie. rewrite (n_above_eq z y0 L), (n_geq_eq z y0 L).
    apply andb_true_iff. rewrite !Z.ltb_lt. lia.
  - destruct (is_tie C (Some n) z) eqn:T; [|reflexivity].
    assert (Hz' : In z (ties_of (C, Some n))) by (unfold ties_of; cbn [fst snd]; apply filter_In; auto).
    pose proof (ties_level _ _ _ H0 Hz') as E. symmetry in E. apply on_level_iff in E. congruence.
Qed.

Lemma ties_zlen n y0 : In y0 (ties_of (C, Some n)) ->
  zlen (ties_of (C, Some n)) = n_geq C y0 - n_above C y0.
Proof.
  intro H0. rewrite n_geq_split.
  replace (zlen (ties_of (C, Some n))) with (count_b (is_tie C (Some n)) C) by reflexivity.
  rewrite (count_b_ext_in _ (on_level y0)); [lia|]. intros z Hz. now apply is_tie_level.
Qed.

(** the room on the cut level is positive and smaller than the level *)
Lemma tie_room_bounds lim y0 r : ties_of (C, lim) = y0 :: r ->
  0 < tie_room (C, lim) < zlen (ties_of (C, lim)).
Proof.
  intro H. destruct (ties_cons_Some _ _ _ H) as [n ->].
  assert (H0 : In y0 (ties_of (C, Some n))) by (rewrite H; now left).
  rewrite (tie_room_cons _ _ _ H), (ties_zlen n y0 H0).
  apply ties_In in H0. lia.
Qed.

Lemma tie_room_nonneg lim : 0 <= tie_room (C, lim).
Proof.
  destruct (ties_of (C, lim)) as [|y0 r] eqn:H.
  - rewrite (tie_room_nil _ H). lia.
  - pose proof (tie_room_bounds _ _ _ H). lia.
Qed.

(** above the cut level everything is sure, and nothing else is *)
Lemma sure_iff_above n y0 z : In y0 (ties_of (C, Some n)) -> In z C ->
  is_sure C (Some n) z = (ev_ts y0 <? ev_ts z).
Proof.
  intros H0 Hz. apply ties_In in H0. destruct H0 as [_ [A1 A2]]. unfold is_sure.
  destruct (ev_ts y0 <? ev_ts z) eqn:E.
  - apply Z.ltb_lt in E. apply Z.leb_le. pose proof (n_geq_above y0 z E). lia.
  - apply Z.ltb_ge in E. apply Z.leb_gt. pose proof (n_geq_mono z y0 E). lia.
Qed.

Lemma sure_zlen_small n : 0 <= n -> zlen (sure_of (C, Some n)) <= n.
Proof.
  intro Hn. destruct (sure_of (C, Some n)) as [|a l] eqn:E; [unfold zlen; simpl; lia|].
  destruct (exists_min_ts (a :: l)) as [x [Hx Hmin]]; [discriminate|].
  rewrite <- E in Hx, Hmin |- *. pose proof Hx as Hx'. apply sure_In in Hx'. destruct Hx' as [_ Hg].
  assert (zlen (sure_of (C, Some n)) <= n_geq C x); [|lia].
  unfold n_geq, count_b. apply zlen_incl; [apply sure_NoDup|].
  intros y Hy. apply filter_In. split; [now apply sure_sub in Hy|]. apply Z.leb_le. now apply Hmin.
Qed.

(** (=>) a choice contains the sure candidates, *)
Lemma top_sel_sure lim res : top_sel (fun x => In x C) lim res -> incl (sure_of (C, lim)) res.
Proof.
  intros [Nr [Sub T]] x Hx. destruct lim as [n|].
  - destruct T as [T1 [T2 T3]]. apply sure_In in Hx. destruct Hx as [Hc Hg].
    destruct (mem_event x res) eqn:M; [now apply mem_event_In in M|]. apply mem_event_false in M.
    exfalso.
    assert (L : zlen (x :: res) <= n_geq C x).
    { unfold n_geq, count_b. apply zlen_incl.
      - now constructor.
      - intros y [<- |Hy]; apply filter_In.
        + split; [assumption | apply Z.leb_le; lia].
        + split; [now apply Sub|]. apply Z.leb_le. now apply (T3 y x). }
    rewrite zlen_cons in L. apply M, T2; [lia | assumption].
  - rewrite sure_None in Hx. now apply T.
Qed.

(** consists of sure candidates and candidates on the cut level, *)
Lemma top_sel_sub lim res : top_sel (fun x => In x C) lim res ->
  forall x, In x res -> In x (sure_of (C, lim)) \/ In x (ties_of (C, lim)).
Proof.
  intros [Nr [Sub T]] x Hx. destruct lim as [n|].
  - destruct T as [T1 [T2 T3]]. pose proof (Sub x Hx) as Hc.
    assert (A : n_above C x < n).
    { destruct (Z_lt_ge_dec (n_above C x) n) as [L|L]; [assumption|]. exfalso.
      assert (L' : zlen (x :: filter (fun y => ev_ts x <? ev_ts y) C) <= zlen res).
      { apply zlen_incl.
        - constructor; [|now apply NoDup_filter]. rewrite filter_In, Z.ltb_lt. lia.
        - intros y [<- |Hy]; [assumption|]. apply filter_In in Hy. destruct Hy as [Hy Hlt]. apply Z.ltb_lt in Hlt.
          destruct (mem_event y res) eqn:M; [now apply mem_event_In in M|]. apply mem_event_false in M.
          specialize (T3 x y Hx Hy M). lia. }
      rewrite zlen_cons in L'. unfold n_above, count_b in L. lia. }
    destruct (Z_le_gt_dec (n_geq C x) n) as [L|L].
    + left. apply sure_In. auto.
    + right. apply ties_In. split; [assumption|]. lia.
  - left. rewrite sure_None. now apply Sub.
Qed.

(** and takes from the cut level exactly what the limit leaves room for *)
Lemma top_sel_room lim res : top_sel (fun x => In x C) lim res ->
  count_b (fun x => mem_event x res) (ties_of (C, lim)) = tie_room (C, lim).
Proof.
  intro T. destruct (ties_of (C, lim)) as [|y0 r] eqn:Ht.
  - rewrite (tie_room_nil _ Ht). reflexivity.
  - destruct (ties_cons_Some _ _ _ Ht) as [n ->]. rewrite <- Ht.
    assert (H0 : In y0 (ties_of (C, Some n))) by (rewrite Ht; now left).
    rewrite (tie_room_cons _ _ _ Ht).
    pose proof (top_sel_sure _ _ T) as Sure. pose proof (top_sel_sub _ _ T) as SubST.
    destruct T as [Nr [Sub [T1 [T2 T3]]]].
    pose proof H0 as H0'. apply ties_In in H0'. destruct H0' as [Hc0 [A1 A2]].
    assert (Ln : zlen res = n).
    { destruct (Z.eq_dec (zlen res) n) as [E|E]; [assumption|]. exfalso.
      assert (I : incl C res) by (intros x Hx; apply T2; [lia | assumption]).
      pose proof (zlen_incl _ _ NC I). pose proof (count_b_le_zlen (fun y => ev_ts y0 <=? ev_ts y) C).
      unfold n_geq in A2. lia. }
    rewrite (zlen_eq_count res C Nr NC Sub) in Ln.
    rewrite (count_b_split _ (fun y => ev_ts y0 <? ev_ts y)) in Ln.
    assert (E1 : count_b (fun x => mem_event x res && (ev_ts y0 <? ev_ts x)) C = n_above C y0).
    { apply count_b_ext_in. intros z Hz. destruct (ev_ts y0 <? ev_ts z) eqn:E; [|now rewrite andb_false_r].
      rewrite andb_true_r. apply mem_event_In. apply Sure.
      unfold sure_of. cbn [fst snd]. apply filter_In. split; [assumption|].
      now rewrite (sure_iff_above n y0 z H0 Hz). }
    assert (E2 : count_b (fun x => mem_event x res && negb (ev_ts y0 <? ev_ts x)) C
                 = count_b (fun x => mem_event x res) (ties_of (C, Some n))).
    { unfold ties_of at 1. cbn [fst snd]. rewrite count_b_filter. apply count_b_ext_in. intros z Hz.
      destruct (mem_event z res) eqn:M; [|now rewrite andb_false_r].
      rewrite andb_true_r. cbn [andb]. apply mem_event_In in M.
      rewrite (is_tie_level n y0 z H0 Hz).
      destruct (SubST z M) as [S|S].
      - (* sure: above the cut level *)
        assert (X : is_sure C (Some n) z = true).
        { unfold sure_of in S. cbn [fst snd] in S. apply filter_In in S. tauto. }
        rewrite (sure_iff_above n y0 z H0 Hz) in X. rewrite X. cbn [negb]. symmetry.
        unfold on_level. rewrite X. now rewrite andb_false_r.
      - pose proof (ties_level _ _ _ H0 S) as E. symmetry in E. pose proof E as E'. apply on_level_iff in E'. rewrite E'.
        apply negb_true_iff, Z.ltb_ge. lia. }
    lia.
Qed.

(** (<=) and every such list is a choice *)
Lemma top_sel_intro lim res :
  match lim with Some n => 0 <= n | None => True end ->
  NoDup res -> incl (sure_of (C, lim)) res ->
  (forall x, In x res -> In x (sure_of (C, lim)) \/ In x (ties_of (C, lim))) ->
  count_b (fun x => mem_event x res) (ties_of (C, lim)) = tie_room (C, lim) ->
  top_sel (fun x => In x C) lim res.
Proof.
  intros Hn Nr Sure SubST Room.
  assert (Sub : forall x, In x res -> In x C).
  { intros x Hx. destruct (SubST x Hx) as [H|H]; [now apply sure_sub in H | now apply ties_sub in H]. }
  split; [assumption|]. split; [assumption|].
  destruct lim as [n|].
  2:{ intros x Hx. apply Sure. now rewrite sure_None. }
  (* |res| = |sure| + room *)
  assert (Len : zlen res = zlen (sure_of (C, Some n)) + tie_room (C, Some n)).
  { rewrite (zlen_eq_count res C Nr NC Sub), (count_b_split _ (is_sure C (Some n))), <- Room.
    change (zlen (sure_of (C, Some n))) with (count_b (is_sure C (Some n)) C). f_equal.
    - apply count_b_ext_in. intros z Hz. destruct (is_sure C (Some n) z) eqn:S; [|now rewrite andb_false_r].
      rewrite andb_true_r. apply mem_event_In, Sure. unfold sure_of. cbn [fst snd]. apply filter_In. auto.
    - unfold ties_of at 1. cbn [fst snd]. rewrite count_b_filter. apply count_b_ext_in. intros z Hz.
      destruct (mem_event z res) eqn:M; [|now rewrite andb_false_r].
      rewrite andb_true_r. cbn [andb]. apply mem_event_In in M. destruct (SubST z M) as [S|S].
      + pose proof (sure_not_tie _ _ S) as NT.
        unfold sure_of in S. cbn [fst snd] in S. apply filter_In in S. destruct S as [_ S]. rewrite S. cbn [negb].
        destruct (is_tie C (Some n) z) eqn:T; [|reflexivity].
        exfalso. apply NT. unfold ties_of. cbn [fst snd]. apply filter_In. auto.
      + assert (NS : is_sure C (Some n) z = false).
        { destruct (is_sure C (Some n) z) eqn:S'; [|reflexivity]. exfalso.
          apply (sure_not_tie (Some n) z); [|assumption]. unfold sure_of. cbn [fst snd]. apply filter_In. auto. }
        rewrite NS. cbn [negb]. unfold ties_of in S. cbn [fst snd] in S. apply filter_In in S. now destruct S as [_ ->]. }
  (* everything a member of [res] is not newer than is sure *)
  assert (Below : forall x, In x res -> n_above C x < n).
  { intros x Hx. destruct (SubST x Hx) as [S|S].
    - apply sure_In in S. destruct S as [Hc Hg]. pose proof (n_above_lt_geq x Hc). lia.
    - apply ties_In in S. lia. }
  destruct (ties_of (C, Some n)) as [|y0 r] eqn:Ht.
  - rewrite (tie_room_nil _ Ht) in Len.
    pose proof (sure_zlen_small n Hn) as Small.
    split; [lia|]. split.
    + intros Lt x Hx.
      destruct (Z_le_gt_dec (n_geq C x) n) as [L|L]; [apply Sure, sure_In; auto|]. exfalso.
      assert (Ex : n <= n_above C x).
      { destruct (Z_le_gt_dec n (n_above C x)) as [L'|L']; [assumption|]. exfalso.
        assert (In x (ties_of (C, Some n))) by (apply ties_In; split; [assumption | lia]).
        rewrite Ht in H. destruct H. }
      set (E := filter (fun x => n <=? n_above C x) C).
      destruct (exists_max_ts E) as [m [Hm Hmax]].
      { intro H. assert (X : In x E) by (apply filter_In; split; [assumption | now apply Z.leb_le]).
        rewrite H in X. destruct X. }
      apply filter_In in Hm. destruct Hm as [Hmc Hm]. apply Z.leb_le in Hm.
      assert (n_above C m <= zlen (sure_of (C, Some n))); [|lia].
      unfold n_above, count_b. apply zlen_incl; [now apply NoDup_filter|].
      intros z Hz. apply filter_In in Hz. destruct Hz as [Hzc Hz]. apply Z.ltb_lt in Hz.
      apply sure_In. split; [assumption|].
      destruct (Z_le_gt_dec (n_geq C z) n) as [Lz|Lz]; [assumption|]. exfalso.
      destruct (Z_le_gt_dec n (n_above C z)) as [Lz'|Lz'].
      * assert (X : In z E) by (apply filter_In; split; [assumption | now apply Z.leb_le]).
        specialize (Hmax z X). lia.
      * assert (X : In z (ties_of (C, Some n))) by (apply ties_In; split; [assumption | lia]).
        rewrite Ht in X. destruct X.
    + intros x y Hx Hy Ny. destruct (Z_le_gt_dec (ev_ts y) (ev_ts x)) as [L|L]; [assumption|]. exfalso.
      apply Ny, Sure, sure_In. split; [assumption|].
      assert (ev_ts x < ev_ts y) as L' by lia.
      pose proof (n_geq_above x y L'). specialize (Below x Hx). lia.
  - assert (H0 : In y0 (ties_of (C, Some n))) by (rewrite Ht; now left).
    rewrite (tie_room_cons _ _ _ Ht) in Len.
    assert (Es : zlen (sure_of (C, Some n)) = n_above C y0).
    { replace (zlen (sure_of (C, Some n))) with (count_b (is_sure C (Some n)) C) by reflexivity.
      apply count_b_ext_in. intros z Hz. now apply sure_iff_above. }
    split; [lia|]. split; [intro; lia|].
    intros x y Hx Hy Ny. destruct (Z_le_gt_dec (ev_ts y) (ev_ts x)) as [L|L]; [assumption|]. exfalso.
    apply Ny, Sure, sure_In. split; [assumption|].
    assert (ev_ts x < ev_ts y) as L' by lia.
    pose proof (n_geq_above x y L'). specialize (Below x Hx). lia.
Qed.

Theorem top_sel_char lim res :
  match lim with Some n => 0 <= n | None => True end ->
  (top_sel (fun x => In x C) lim res <->
   NoDup res /\ incl (sure_of (C, lim)) res /\
   (forall x, In x res -> In x (sure_of (C, lim)) \/ In x (ties_of (C, lim))) /\
   count_b (fun x => mem_event x res) (ties_of (C, lim)) = tie_room (C, lim)).
Proof.
  intro Hn. split.
  - intro T. split; [apply T|]. split; [now apply top_sel_sure|]. split; [now apply top_sel_sub | now apply top_sel_room].
  - intros [A [B [D E]]]. now apply top_sel_intro.
Qed.

End Top.

(* ------------------------------------------------------------------ *)
(** * the back-tracking search [assign] *)

Lemma Forall2_weaken {A B} (R1 R2 : A -> B -> Prop) l1 l2 :
  (forall a b, R1 a b -> R2 a b) -> Forall2 R1 l1 l2 -> Forall2 R2 l1 l2.
Proof. intros H F. induction F; constructor; auto. Qed.

(** [A] is charged to a filter with cut level [fst tc] and room [snd tc] *)
Definition cap_ok (tc : list event * Z) (A : list event) : Prop := incl A (fst tc) /\ zlen A <= snd tc.

Lemma dec_nth_split caps1 T c caps2 :
  dec_nth (caps1 ++ (T, c) :: caps2) (length caps1) = caps1 ++ (T, c - 1) :: caps2.
Proof.
  induction caps1 as [|[T' c'] l IH]; [reflexivity|].
  cbn [app length dec_nth]. now rewrite IH.
Qed.

(** a successful search yields, per filter, the events charged to it *)
Lemma assign_sound extras : NoDup extras -> forall caps, Forall (fun tc => 0 <= snd tc) caps ->
  assign extras caps = true ->
  exists As, Forall2 (fun tc A => NoDup A /\ incl A extras /\ cap_ok tc A) caps As /\
             forall x, In x extras -> In x (concat As).
Proof.
  induction extras as [|x rest IH]; intros ND caps Pos H.
  - exists (List.map (fun _ => []) caps). split; [|intros x []].
    clear H. induction Pos as [|tc caps P Pos' IHc]; cbn [List.map]; [constructor|]. constructor; [|assumption].
    split; [constructor|]. split; [intros y []|]. split; [intros y [] | unfold zlen; simpl; lia].
  - cbn [assign] in H. apply existsb_exists in H. destruct H as [j [Hj H]].
    destruct (nth_error caps j) as [[T c]|] eqn:Nj; [|discriminate].
    apply land_true in H. destruct H as [H H3]. apply land_true in H. destruct H as [H1 H2].
    apply Z.ltb_lt in H1. apply mem_event_In in H2.
    destruct (nth_error_split _ _ Nj) as [caps1 [caps2 [Ec Lj]]]. subst caps j.
    rewrite dec_nth_split in H3.
    inversion ND as [|? ? Nx ND']; subst.
    assert (Pos' : Forall (fun tc => 0 <= snd tc) (caps1 ++ (T, c - 1) :: caps2)).
    { apply Forall_app in Pos. destruct Pos as [P1 P2]. apply Forall_app. split; [assumption|].
      inversion P2; subst. constructor; [cbn [snd]; lia | assumption]. }
    destruct (IH ND' _ Pos' H3) as [As' [F Cov]].
    apply Forall2_app_inv_l in F. destruct F as [As1 [As2' [F1 [F2 ->]]]].
    inversion F2 as [|? A' ? As2 PA F2']; subst.
    assert (W : forall tc A, (NoDup A /\ incl A rest /\ cap_ok tc A) -> NoDup A /\ incl A (x :: rest) /\ cap_ok tc A).
    { intros tc A [N [I K]]. split; [assumption|]. split; [|assumption]. intros y Hy. right. now apply I. }
    exists (As1 ++ (x :: A') :: As2). split.
    + apply Forall2_app; [exact (Forall2_weaken _ _ _ _ W F1)|].
      constructor; [|exact (Forall2_weaken _ _ _ _ W F2')].
      destruct PA as [N [I [I2 L]]]. cbn [fst snd] in *. split.
      { constructor; [|assumption]. intro Hx. apply Nx. now apply I. }
      split.
      { intros y [<- |Hy]; [now left | right; now apply I]. }
      split; cbn [fst snd].
      { intros y [<- |Hy]; [assumption | now apply I2]. }
      rewrite zlen_cons. lia.
    + intros y [<- |Hy].
      * rewrite concat_app, in_app_iff. right. cbn [concat]. rewrite in_app_iff. left. now left.
      * specialize (Cov y Hy). rewrite concat_app, in_app_iff in *. cbn [concat] in *. rewrite in_app_iff in *.
        destruct Cov as [C1|[C2|C3]]; auto. right. left. now right.
Qed.

(** and any capacity-respecting cover is found *)
Lemma assign_complete extras : NoDup extras -> forall caps As,
  Forall2 cap_ok caps As -> (forall x, In x extras -> In x (concat As)) -> assign extras caps = true.
Proof.
  induction extras as [|x rest IH]; intros ND caps As F Cov; [reflexivity|].
  inversion ND as [|? ? Nx ND']; subst.
  destruct (proj1 (in_concat As x) (Cov x (or_introl eq_refl))) as [A [HA Hx]].
  apply in_split in HA. destruct HA as [As1 [As2 ->]].
  apply Forall2_app_inv_r in F. destruct F as [caps1 [caps2' [F1 [F2 ->]]]].
  inversion F2 as [|[T c] ? caps2 ? PA F2']; subst.
  cbn [assign]. apply existsb_exists. exists (length caps1). split.
  - apply in_seq. rewrite app_length. cbn [length]. lia.
  - rewrite nth_error_app2 by lia. rewrite Nat.sub_diag. cbn [nth_error].
    destruct PA as [I L]. cbn [fst snd] in *.
    assert (1 <= zlen A).
    { destruct A as [|a A]; [destruct Hx | rewrite zlen_cons; pose proof (zlen_nonneg A); lia]. }
    apply land_true. split.
    { apply land_true. split; [apply Z.ltb_lt; lia | apply mem_event_In; now apply I]. }
    rewrite dec_nth_split. apply (IH ND' _ (As1 ++ remove event_dec x A :: As2)).
    + apply Forall2_app; [assumption|]. constructor; [|assumption]. split; cbn [fst snd].
      * intros y Hy. apply in_remove in Hy. now apply I.
      * pose proof (remove_length_lt event_dec A x Hx). unfold zlen in *. lia.
    + intros y Hy. assert (y <> x) by (intro; subst; contradiction).
      specialize (Cov y (or_intror Hy)). rewrite concat_app, in_app_iff in *. cbn [concat] in *. rewrite in_app_iff in *.
      destruct Cov as [C1|[C2|C3]]; auto. right. left. now apply in_in_remove.
Qed.

(* ------------------------------------------------------------------ *)
(** * lists in step *)

Lemma Forall2_combine_In {A B} (R : A -> B -> Prop) l1 l2 a b :
  Forall2 R l1 l2 -> In (a, b) (combine l1 l2) -> R a b.
Proof.
  intro F. induction F as [|x y l1 l2 Rxy F IH]; cbn [combine]; [intros []|].
  intros [E|H]; [now inversion E; subst | now apply IH].
Qed.

Lemma Forall2_In_l {A B} (R : A -> B -> Prop) l1 l2 a :
  Forall2 R l1 l2 -> In a l1 -> exists b, In (a, b) (combine l1 l2).
Proof.
  intro F. induction F as [|x y l1 l2 Rxy F IH]; [intros []|].
  intros [<- |H]; [exists y; now left|]. destruct (IH H) as [b Hb]. exists b. now right.
Qed.

Lemma Forall2_In_r {A B} (R : A -> B -> Prop) l1 l2 b :
  Forall2 R l1 l2 -> In b l2 -> exists a, In (a, b) (combine l1 l2).
Proof.
  intro F. induction F as [|x y l1 l2 Rxy F IH]; [intros []|].
  intros [<- |H]; [exists x; now left|]. destruct (IH H) as [a Ha]. exists a. now right.
Qed.

Lemma Forall2_combine_map {A B D} (R : A -> B -> Prop) (Q : A -> D -> Prop) (g : A * B -> D) l1 l2 :
  Forall2 R l1 l2 -> (forall a b, In a l1 -> R a b -> Q a (g (a, b))) ->
  Forall2 Q l1 (List.map g (combine l1 l2)).
Proof.
  intro F. induction F as [|x y l1 l2 Rxy F IH]; intro H; cbn [combine List.map]; constructor.
  - apply H; [now left | assumption].
  - apply IH. intros a b Ha. apply H. now right.
Qed.

Lemma Forall2_map_left {A B D} (f : A -> D) (Q : D -> B -> Prop) l1 l2 :
  Forall2 Q (List.map f l1) l2 <-> Forall2 (fun a b => Q (f a) b) l1 l2.
Proof.
  revert l2. induction l1 as [|a l1 IH]; intro l2; cbn [List.map]; split; intro F; inversion F; subst; constructor;
    try assumption; now apply IH.
Qed.

(* ------------------------------------------------------------------ *)
(** * the merge *)

Definition cands_ok (cands : list (list event * option Z)) : Prop :=
  Forall (fun cl => NoDup (fst cl) /\ match snd cl with Some n => 0 <= n | None => True end) cands.

Definition fullb (outer : option Z) (out : list event) : bool :=
  match outer with Some m => zlen out <? m | None => true end.

(** a member of the merge must appear in [out] *)
Definition mustb (outer : option Z) (out : list event) (y : event) : bool :=
  fullb outer out ||| existsb (fun x => ev_ts x <? ev_ts y) out.

Lemma union_topn_ok_unfold cands outer out :
  union_topn_ok cands outer out =
  nodupb out &&& desc_sortedb out &&&
  match outer with Some m => zlen out <=? m | None => true end &&&
  forallb (fun x => negb (mustb outer out x) ||| mem_event x out) (flat_map sure_of cands) &&&
  forallb (fun cl => match ties_of cl with
                     | [] => true
                     | y :: _ => negb (mustb outer out y) |||
                                 (tie_room cl <=? count_b (fun x => mem_event x out) (ties_of cl))
                     end) cands &&&
  assign (filter (fun x => negb (mem_event x (flat_map sure_of cands))) out)
         (List.map (fun cl => (ties_of cl, tie_room cl)) cands).
Proof. reflexivity. Qed.

Lemma mustb_ts outer out y z : ev_ts y = ev_ts z -> mustb outer out y = mustb outer out z.
Proof. intro E. unfold mustb. now rewrite E. Qed.

(** the outer cut, read through [mustb] *)
Lemma top_sel_must (U : event -> Prop) outer out :
  top_sel U outer out <->
  NoDup out /\ (forall x, In x out -> U x) /\
  match outer with Some m => zlen out <= m | None => True end /\
  (forall y, U y -> mustb outer out y = true -> In y out).
Proof.
  unfold top_sel. split.
  - intros [Nd [Sub T]]. split; [assumption|]. split; [assumption|].
    destruct outer as [m|].
    + destruct T as [T1 [T2 T3]]. split; [assumption|]. intros y Uy M.
      unfold mustb, fullb in M. apply lor_true in M. destruct M as [M|M].
      * apply Z.ltb_lt in M. now apply T2.
      * apply existsb_exists in M. destruct M as [x [Hx Lt]]. apply Z.ltb_lt in Lt.
        destruct (mem_event y out) eqn:My; [now apply mem_event_In in My|]. apply mem_event_false in My.
        specialize (T3 x y Hx Uy My). lia.
    + split; [exact I|]. intros y Uy _. now apply T.
  - intros [Nd [Sub [Len M]]]. split; [assumption|]. split; [assumption|].
    destruct outer as [m|].
    + split; [assumption|]. split.
      * intros Lt y Uy. apply M; [assumption|]. unfold mustb, fullb. apply lor_true. left. now apply Z.ltb_lt.
      * intros x y Hx Uy Ny. destruct (Z_le_gt_dec (ev_ts y) (ev_ts x)) as [L|L]; [assumption|]. exfalso.
        apply Ny, M; [assumption|]. unfold mustb. apply lor_true. right.
        apply existsb_exists. exists x. split; [assumption|]. apply Z.ltb_lt. lia.
    + intros y Uy. apply M; [assumption | reflexivity].
Qed.

Lemma mem_event_app x a b : mem_event x (a ++ b) = mem_event x a || mem_event x b.
Proof. unfold mem_event. apply existsb_app. Qed.

Lemma filter_notin_length (pool A : list event) : NoDup pool ->
  zlen pool <= zlen (filter (fun x => negb (mem_event x A)) pool) + zlen A.
Proof.
  intro Np.
  assert (E : zlen pool = count_b (fun x => mem_event x A) pool + count_b (fun x => negb (mem_event x A)) pool).
  { transitivity (count_b (fun _ => true) pool); [unfold count_b; now rewrite filter_true|].
    rewrite (count_b_split _ (fun x => mem_event x A)). reflexivity. }
  assert (L : count_b (fun x => mem_event x A) pool <= zlen A).
  { unfold count_b. apply zlen_incl; [now apply NoDup_filter|].
    intros x Hx. apply filter_In in Hx. now apply mem_event_In. }
  unfold count_b in *. lia.
Qed.

Lemma NoDup_firstn {A} n (l : list A) : NoDup l -> NoDup (firstn n l).
Proof. intro N. rewrite <- (firstn_skipn n l) in N. now apply NoDup_app_l in N. Qed.

Lemma In_firstn {A} n (l : list A) x : In x (firstn n l) -> In x l.
Proof. intro H. rewrite <- (firstn_skipn n l). apply in_app_iff. now left. Qed.

Section Merge.
Variable cands : list (list event * option Z).
Hypothesis CO : cands_ok cands.
Variable outer : option Z.
Variable out : list event.

Lemma cands_ok_In cl : In cl cands ->
  NoDup (fst cl) /\ match snd cl with Some n => 0 <= n | None => True end.
Proof. intro H. unfold cands_ok in CO. rewrite Forall_forall in CO. now apply CO. Qed.

(** from which events the choice of a filter is completed: members of [out]
    if its cut level must appear, any members of the cut level otherwise *)
Definition pool_of (cl : list event * option Z) : list event :=
  match ties_of cl with
  | [] => []
  | y :: _ => if mustb outer out y then filter (fun x => mem_event x out) (ties_of cl) else ties_of cl
  end.

Definition fill (cl : list event * option Z) (A : list event) : list event :=
  A ++ firstn (Z.to_nat (tie_room cl) - length A) (filter (fun x => negb (mem_event x A)) (pool_of cl)).

Definition res_of (clA : (list event * option Z) * list event) : list event :=
  sure_of (fst clA) ++ fill (fst clA) (snd clA).

Lemma pool_sub cl x : In x (pool_of cl) -> In x (ties_of cl).
Proof.
  unfold pool_of. destruct (ties_of cl) as [|y r]; [intros []|].
  destruct (mustb outer out y); [rewrite filter_In; tauto | auto].
Qed.

Lemma pool_NoDup cl : NoDup (fst cl) -> NoDup (pool_of cl).
Proof.
  intro N. destruct cl as [C lim]. pose proof (ties_NoDup C N lim) as Nt.
  unfold pool_of. destruct (ties_of (C, lim)) as [|y r]; [constructor|].
  destruct (mustb outer out y); [now apply NoDup_filter | assumption].
Qed.

Lemma fill_ok cl A : NoDup (fst cl) -> NoDup A -> incl A (ties_of cl) -> zlen A <= tie_room cl ->
  tie_room cl <= zlen (pool_of cl) ->
  NoDup (fill cl A) /\ incl (fill cl A) (ties_of cl) /\ zlen (fill cl A) = tie_room cl /\
  (forall y, In y (fill cl A) -> In y A \/ In y (pool_of cl)).
Proof.
  intros N NA IA LA LP. unfold fill.
  set (P := filter (fun x => negb (mem_event x A)) (pool_of cl)).
  set (k := (Z.to_nat (tie_room cl) - length A)%nat).
  assert (NP : NoDup P) by (apply NoDup_filter; now apply pool_NoDup).
  assert (PA : forall y, In y P -> In y (pool_of cl) /\ ~ In y A).
  { intros y Hy. apply filter_In in Hy. destruct Hy as [H1 H2]. split; [assumption|].
    apply negb_true_iff in H2. now apply mem_event_false in H2. }
  split.
  { apply NoDup_app_intro; [assumption | now apply NoDup_firstn|].
    intros x H1 H2. apply In_firstn, PA in H2. tauto. }
  split.
  { intros y Hy. apply in_app_iff in Hy. destruct Hy as [Hy|Hy]; [now apply IA|].
    apply In_firstn, PA in Hy. now apply pool_sub. }
  split.
  { rewrite zlen_app. unfold zlen at 2. rewrite firstn_length.
    pose proof (filter_notin_length (pool_of cl) A (pool_NoDup cl N)) as FL. fold P in FL.
    unfold zlen in *. subst k. lia. }
  intros y Hy. apply in_app_iff in Hy. destruct Hy as [Hy|Hy]; [now left|].
  right. now apply In_firstn, PA in Hy.
Qed.

(** the completed choice of a filter is a top-[lim] choice *)
Lemma res_of_sel cl A : In cl cands -> NoDup A -> incl A (ties_of cl) -> zlen A <= tie_room cl ->
  tie_room cl <= zlen (pool_of cl) -> sel_spec cl (res_of (cl, A)).
Proof.
  intros Hc NA IA LA LP. destruct (cands_ok_In cl Hc) as [N Hn].
  destruct (fill_ok cl A N NA IA LA LP) as [NF [IF [LF _]]].
  unfold sel_spec, res_of. cbn [fst snd]. destruct cl as [C lim]. cbn [fst snd] in *.
  apply (top_sel_intro C N lim); [assumption| | | |].
  - apply NoDup_app_intro; [now apply sure_NoDup | assumption|].
    intros x H1 H2. apply (sure_not_tie C lim x H1). now apply IF.
  - intros x Hx. apply in_app_iff. now left.
  - intros x Hx. apply in_app_iff in Hx. destruct Hx as [Hx|Hx]; [now left | right; now apply IF].
  - rewrite <- LF.
    rewrite (zlen_eq_count (fill (C, lim) A) (ties_of (C, lim)) NF (ties_NoDup C N lim) IF).
    apply count_b_ext_in. intros z Hz. rewrite mem_event_app.
    destruct (mem_event z (sure_of (C, lim))) eqn:M; [|reflexivity].
    apply mem_event_In in M. exfalso. now apply (sure_not_tie C lim z M).
Qed.

Lemma pool_big cl :
  In cl cands ->
  match ties_of cl with
  | [] => true
  | y :: _ => negb (mustb outer out y) ||| (tie_room cl <=? count_b (fun x => mem_event x out) (ties_of cl))
  end = true ->
  tie_room cl <= zlen (pool_of cl).
Proof.
  intros Hc H. destruct (cands_ok_In cl Hc) as [N _]. destruct cl as [C lim]. cbn [fst] in N.
  unfold pool_of. destruct (ties_of (C, lim)) as [|y r] eqn:Ht.
  - rewrite (tie_room_nil C lim Ht). unfold zlen. simpl. lia.
  - destruct (mustb outer out y) eqn:M.
    + cbn [negb] in H. apply Z.leb_le in H. exact H.
    + pose proof (tie_room_bounds C lim y r Ht) as B. rewrite Ht in B. lia.
Qed.

(** soundness: an accepted answer is a merge *)
Theorem union_topn_ok_sound : union_topn_ok cands outer out = true -> union_spec cands outer out.
Proof.
  rewrite union_topn_ok_unfold. intro H.
  apply land_true in H. destruct H as [H Hassign]. apply land_true in H. destruct H as [H Hties].
  apply land_true in H. destruct H as [H Hsure]. apply land_true in H. destruct H as [H Hlen].
  apply land_true in H. destruct H as [Hnd Hsort].
  apply nodupb_spec in Hnd. apply desc_sortedb_spec in Hsort.
  rewrite forallb_forall in Hsure, Hties.
  set (sures := flat_map sure_of cands) in *.
  set (extras := filter (fun x => negb (mem_event x sures)) out) in *.
  assert (NDx : NoDup extras) by (now apply NoDup_filter).
  assert (Pos : Forall (fun tc => 0 <= snd tc) (List.map (fun cl => (ties_of cl, tie_room cl)) cands)).
  { apply Forall_forall. intros tc Htc. apply in_map_iff in Htc. destruct Htc as [[C lim] [<- Hc]]. cbn [snd].
    apply tie_room_nonneg. }
  destruct (assign_sound extras NDx _ Pos Hassign) as [As [F Cov]].
  apply Forall2_map_left in F.
  assert (Sel : forall cl A, In (cl, A) (combine cands As) ->
                  In cl cands /\ NoDup A /\ incl A extras /\ incl A (ties_of cl) /\ zlen A <= tie_room cl /\
                  tie_room cl <= zlen (pool_of cl)).
  { intros cl A Hin. pose proof (in_combine_l _ _ _ _ Hin) as Hc.
    pose proof (Forall2_combine_In _ _ _ _ _ F Hin) as [NA [IA [I L]]]. cbn [fst snd] in *.
    repeat (split; [assumption|]). apply pool_big; [assumption | now apply Hties]. }
  exists (List.map res_of (combine cands As)).
  split; [|split; [|assumption]].
  - apply (Forall2_combine_map _ _ _ _ _ F). intros cl A Hc [NA [IA [I L]]]. cbn [fst snd] in *.
    apply res_of_sel; try assumption. apply pool_big; [assumption | now apply Hties].
  - apply top_sel_must. split; [assumption|]. split; [|split].
    + (* every returned event belongs to the merge *)
      intros x Hx. destruct (mem_event x sures) eqn:M.
      * apply mem_event_In in M. unfold sures in M. apply in_flat_map in M. destruct M as [cl [Hc Hs]].
        destruct (Forall2_In_l _ _ _ _ F Hc) as [A HA].
        exists (res_of (cl, A)). split; [apply in_map_iff; eauto|].
        unfold res_of. cbn [fst snd]. apply in_app_iff. now left.
      * assert (Hx' : In x extras) by (apply filter_In; split; [assumption | now rewrite M]).
        apply Cov, in_concat in Hx'. destruct Hx' as [A [HA HxA]].
        destruct (Forall2_In_r _ _ _ _ F HA) as [cl Hin].
        exists (res_of (cl, A)). split; [apply in_map_iff; eauto|].
        unfold res_of, fill. cbn [fst snd]. rewrite !in_app_iff. right. now left.
    + destruct outer; [now apply Z.leb_le | exact I].
    + (* every member of the merge that must appear does *)
      intros y [res [Hres Hy]] M. apply in_map_iff in Hres. destruct Hres as [[cl A] [<- Hin]].
      destruct (Sel cl A Hin) as [Hc [NA [IAx [IA [LA LP]]]]].
      destruct (cands_ok_In cl Hc) as [N _].
      unfold res_of in Hy. cbn [fst snd] in Hy. apply in_app_iff in Hy. destruct Hy as [Hy|Hy].
      * assert (Hs : In y sures) by (unfold sures; apply in_flat_map; eauto).
        specialize (Hsure y Hs). rewrite M in Hsure. cbn [negb] in Hsure. now apply mem_event_In.
      * destruct (fill_ok cl A N NA IA LA LP) as [_ [IF [_ Src]]].
        destruct (Src y Hy) as [HA|HP].
        -- apply IAx in HA. unfold extras in HA. apply filter_In in HA. tauto.
        -- pose proof (pool_sub cl y HP) as Hty. unfold pool_of in HP.
           destruct (ties_of cl) as [|y0 r] eqn:Ht; [destruct HP|].
           assert (E : ev_ts y0 = ev_ts y).
           { destruct cl as [C lim]. apply (ties_level C lim); rewrite Ht; [now left | assumption]. }
           rewrite (mustb_ts _ _ _ _ E), M in HP. apply filter_In in HP. destruct HP as [_ HP].
           now apply mem_event_In.
Qed.

(** completeness: every merge is accepted *)
Theorem union_topn_ok_complete : union_spec cands outer out -> union_topn_ok cands outer out = true.
Proof.
  intros [ress [F [T S]]]. apply top_sel_must in T. destruct T as [Nd [Sub [Len Must]]].
  set (sures := flat_map sure_of cands).
  (* the choice of a filter that has [cl]'s candidates *)
  assert (Res : forall cl, In cl cands -> exists res, In (cl, res) (combine cands ress) /\ In res ress /\ sel_spec cl res).
  { intros cl Hc. destruct (Forall2_In_l _ _ _ _ F Hc) as [res Hin]. exists res.
    split; [assumption|]. split; [now apply in_combine_r in Hin | exact (Forall2_combine_In _ _ _ _ _ F Hin)]. }
  rewrite union_topn_ok_unfold. fold sures.
  apply land_true. split; [apply land_true; split; [apply land_true; split; [apply land_true; split; [apply land_true; split|]|]|]|].
  - now apply nodupb_spec.
  - now apply desc_sortedb_spec.
  - destruct outer; [now apply Z.leb_le | reflexivity].
  - apply forallb_forall. intros x Hx. apply lor_true.
    destruct (mustb outer out x) eqn:M; [right | now left].
    unfold sures in Hx. apply in_flat_map in Hx. destruct Hx as [cl [Hc Hs]].
    destruct (Res cl Hc) as [res [_ [Hr Sp]]]. destruct (cands_ok_In cl Hc) as [N _].
    apply mem_event_In, Must; [|assumption]. exists res. split; [assumption|].
    destruct cl as [C lim]. now apply (top_sel_sure C lim res Sp).
  - apply forallb_forall. intros cl Hc. destruct (ties_of cl) as [|y r] eqn:Ht; [reflexivity|].
    apply lor_true. destruct (mustb outer out y) eqn:M; [right | now left].
    destruct (Res cl Hc) as [res [_ [Hr Sp]]]. destruct (cands_ok_In cl Hc) as [N _].
    apply Z.leb_le. rewrite <- Ht. destruct cl as [C lim]. cbn [fst] in N.
    rewrite <- (top_sel_room C N lim res Sp).
    apply count_b_le. intros z Hz Mz. apply mem_event_In in Mz. apply mem_event_In, Must; [now exists res|].
    rewrite <- M. apply mustb_ts. apply (ties_level C lim); [assumption | rewrite Ht; now left].
  - set (As := List.map (fun p => filter (fun x => mem_event x (snd p)) (ties_of (fst p))) (combine cands ress)).
    apply (assign_complete _ (NoDup_filter _ _ Nd) _ As).
    + apply Forall2_map_left. unfold As. apply (Forall2_combine_map _ _ _ _ _ F).
      intros cl res Hc Sp. destruct (cands_ok_In cl Hc) as [N _]. split; cbn [fst snd].
      * intros z Hz. apply filter_In in Hz. tauto.
      * destruct cl as [C lim]. cbn [fst] in N. rewrite <- (top_sel_room C N lim res Sp). unfold count_b. lia.
    + intros x Hx. apply filter_In in Hx. destruct Hx as [Hx Ns]. apply negb_true_iff, mem_event_false in Ns.
      destruct (Sub x Hx) as [res [Hr Hxr]].
      destruct (Forall2_In_r _ _ _ _ F Hr) as [cl Hin].
      pose proof (in_combine_l _ _ _ _ Hin) as Hc. destruct (cands_ok_In cl Hc) as [N _].
      pose proof (Forall2_combine_In _ _ _ _ _ F Hin) as Sp.
      apply in_concat. exists (filter (fun z => mem_event z res) (ties_of cl)). split.
      * unfold As. apply in_map_iff. exists (cl, res). auto.
      * apply filter_In. split; [|now apply mem_event_In].
        destruct cl as [C lim]. cbn [fst] in N.
        destruct (top_sel_sub C N lim res Sp x Hxr) as [Hs|Ht]; [|assumption].
        exfalso. apply Ns. unfold sures. apply in_flat_map. exists (C, lim). auto.
Qed.

(** C06 union_topn_ok_spec: the merge test decides the merge statement *)
Theorem union_topn_ok_spec : union_topn_ok cands outer out = true <-> union_spec cands outer out.
Proof. split; [apply union_topn_ok_sound | apply union_topn_ok_complete]. Qed.

End Merge.

(* ------------------------------------------------------------------ *)
(** * the oracle of a query *)

Lemma top_sel_impl (U V : event -> Prop) lim res :
  (forall x, U x <-> V x) -> top_sel U lim res -> top_sel V lim res.
Proof.
  intros E [Nd [Sub T]]. split; [assumption|]. split; [intros x Hx; apply E; auto|].
  destruct lim as [n|].
  - destruct T as [T1 [T2 T3]]. split; [assumption|]. split.
    + intros L x Vx. apply T2; [assumption | now apply E].
    + intros x y Hx Vy. apply T3; [assumption | now apply E].
  - intros x Vx. apply T. now apply E.
Qed.

Lemma top_sel_ext (U V : event -> Prop) lim res :
  (forall x, U x <-> V x) -> (top_sel U lim res <-> top_sel V lim res).
Proof.
  intro E. split; apply top_sel_impl; [assumption|]. intro x. symmetry. apply E.
Qed.

Lemma spec_limit_nonneg limit ml : 0 <= ml -> (forall l, limit = Some l -> 0 <= l) ->
  match spec_limit limit ml with Some n => 0 <= n | None => True end.
Proof.
  intros Hml Hl. unfold spec_limit. destruct limit as [l|].
  - specialize (Hl l eq_refl). lia.
  - destruct (ml =? NoLimit); [exact I | assumption].
Qed.

(** C06 query_specb_spec: the oracle the correspondence run applies to every
    observed answer decides [query_spec], the statement of the property *)
Theorem query_specb_spec es fs ml out :
  0 <= ml -> (forall f l, In f fs -> f_limit f = Some l -> 0 <= l) ->
  (query_specb es fs ml out = true <-> query_spec es fs ml out).
Proof.
  intros Hml Hl. unfold query_specb, query_specb_L.
  set (g := fun f => (filter (fun x => match_specb x f) (live_list es), spec_limit (f_limit f) ml)).
  set (cands := List.map g fs).
  assert (CO : cands_ok cands).
  { apply Forall_forall. intros cl Hcl. apply in_map_iff in Hcl. destruct Hcl as [f [<- Hf]]. cbn [fst snd]. split.
    - apply NoDup_filter, live_list_NoDup.
    - apply spec_limit_nonneg; [assumption|]. intros l E. now apply (Hl f l). }
  rewrite (union_topn_ok_spec cands CO).
  assert (Mem : forall f x, In x (filter (fun x => match_specb x f) (live_list es)) <-> live es x /\ match_spec x f).
  { intros f x. now rewrite filter_In, live_list_spec, match_specb_spec. }
  unfold union_spec, query_spec.
  split; intros [ress [F [T S]]]; exists ress; (split; [|split; assumption]).
  - unfold cands in F. apply (Forall2_map_left g sel_spec fs ress) in F. eapply Forall2_weaken; [|exact F].
    intros f res Sp. unfold sel_spec, g in Sp. cbn [fst snd] in Sp. revert Sp. apply top_sel_impl. apply Mem.
  - unfold cands. apply (Forall2_map_left g sel_spec fs ress). eapply Forall2_weaken; [|exact F].
    intros f res Sp. unfold sel_spec, g. cbn [fst snd]. revert Sp. apply top_sel_impl. intro x. symmetry. apply Mem.
Qed.

(* ------------------------------------------------------------------ *)
(** * the merge test where the outer limit cuts the merged answer *)

(** one filter without limit over {9, 7, 5}, outer limit 2: exactly [9; 7] *)
Example union_outer_cut_exact :
  union_topn_ok [([a9; b7; e5], None)] (Some 2) [a9; b7] = true /\
  union_topn_ok [([a9; b7; e5], None)] (Some 2) [a9; e5] = false /\   (* a newer candidate left out *)
  union_topn_ok [([a9; b7; e5], None)] (Some 2) [b7; e5] = false /\
  union_topn_ok [([a9; b7; e5], None)] (Some 2) [a9] = false.         (* limit not exhausted *)
Proof. vm_compute. repeat split; reflexivity. Qed.

(** the outer limit cuts through a level: any member of that level will do *)
Example union_outer_cut_level :
  forallb (fun out => union_topn_ok [([a9; b7; c7; d7; e5], None)] (Some 2) out) [[a9; b7]; [a9; c7]; [a9; d7]] = true /\
  union_topn_ok [([a9; b7; c7; d7; e5], None)] (Some 2) [b7; c7] = false.
Proof. vm_compute. split; reflexivity. Qed.

(** a filter's own cut level above the outer cut must be complete: limit 1
    over {9a, 9b} and no limit over {7, 5}, outer limit 2 *)
Example union_outer_cut_two_filters :
  let a9' := ue 7 9 in
  union_topn_ok [([a9; a9'], Some 1); ([b7; e5], None)] (Some 2) [a9; b7] = true /\
  union_topn_ok [([a9; a9'], Some 1); ([b7; e5], None)] (Some 2) [a9'; b7] = true /\
  union_topn_ok [([a9; a9'], Some 1); ([b7; e5], None)] (Some 2) [a9; a9'] = false /\  (* two from a limit-1 filter *)
  union_topn_ok [([a9; a9'], Some 1); ([b7; e5], None)] (Some 2) [a9; e5] = false /\
  union_topn_ok [([a9; a9'], Some 1); ([b7; e5], None)] (Some 2) [b7; e5] = false.     (* the 9 is missing *)
Proof. vm_compute. repeat split; reflexivity. Qed.
