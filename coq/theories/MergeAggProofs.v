(* MergeAggProofs.v — C09: the aggregation of OK and COUNT replies by the
   merge handler (model in Merge.v), for every number of children, every
   interleaving, several requests in flight and repeated ids.

   Structure:
     1  lists
     2  the bookkeeping of one id as a small machine ([kstep], generic in the
        kind of request) and its invariant along a history in which every
        child answers the requests of one id in order ([kinv_run])
     3  the instances: EVENT/OK and COUNT; [merge_step] is simulated by the
        machine
     4  the theorems of C09 *)
From Moc Require Import Base Match MatchProofs Merge MergeProofs.
Open Scope Z_scope.

(* ------------------------------------------------------------------ *)
(** * 1. Lists *)

Lemma nth_error_map_seq {B} (f : nat -> B) : forall n a i, (i < n)%nat ->
  nth_error (List.map f (seq a n)) i = Some (f (a + i)%nat).
Proof.
  induction n as [|n IH]; intros a i H; [lia|]. destruct i as [|i]; cbn.
  - now rewrite Nat.add_0_r.
  - rewrite IH by lia. now replace (S a + i)%nat with (a + S i)%nat by lia.
Qed.

Lemma nth_error_map_seq_none {B} (f : nat -> B) n a i : (n <= i)%nat -> nth_error (List.map f (seq a n)) i = None.
Proof. intro H. apply nth_error_None. now rewrite map_length, seq_length. Qed.

Lemma map_seq_const {B} (f : nat -> B) c : forall n a,
  (forall i, (a <= i < a + n)%nat -> f i = c) -> List.map f (seq a n) = repeat c n.
Proof.
  induction n as [|n IH]; intros a H; [reflexivity|]. cbn. rewrite H by lia. f_equal. apply IH. intros i Hi. apply H. lia.
Qed.

Lemma map_seq_ext {B} (f g : nat -> B) n a :
  (forall i, (a <= i < a + n)%nat -> f i = g i) -> List.map f (seq a n) = List.map g (seq a n).
Proof. intro H. apply map_ext_in. intros i Hi. apply in_seq in Hi. now apply H. Qed.

Lemma hd_skipn {B} (l : list B) : forall m, hd_opt (skipn m l) = nth_error l m.
Proof. induction l as [|x l IH]; intros [|m]; cbn; auto. Qed.

Lemma tl_skipn {B} (l : list B) : forall m, tl (skipn m l) = skipn (S m) l.
Proof.
  induction l as [|x l IH]; intros [|m]; try reflexivity.
  change (tl (skipn m l) = skipn (S m) l). apply IH.
Qed.

Lemma is_nil_skipn {B} (l : list B) m : is_nil (skipn m l) = (length l <=? m)%nat.
Proof.
  revert m. induction l as [|x l IH]; intros [|m]; cbn; auto.
Qed.

Lemma skipn_snoc {B} (l : list B) a m : (m <= length l)%nat -> skipn m (l ++ [a]) = skipn m l ++ [a].
Proof. intro H. rewrite skipn_app. replace (m - length l)%nat with 0%nat by lia. reflexivity. Qed.

Lemma existsb_map_seq {B} (p : B -> bool) (f : nat -> B) n a :
  existsb p (List.map f (seq a n)) = existsb (fun i => p (f i)) (seq a n).
Proof. revert a. induction n as [|n IH]; intro a; cbn; [reflexivity | now rewrite IH]. Qed.

Lemma zlen_nat {B} (l : list B) : zlen l = Z.of_nat (length l).
Proof. reflexivity. Qed.

(* ------------------------------------------------------------------ *)
(** * 2. One id *)

Section Agg.
  Context {A : Type}.
  Variable key : A -> str.
  (** the inputs that submit a request with id [k] ... *)
  Variable is_req : str -> input -> bool.
  (** ... and the ones that are a child's reply *)
  Variable reply_of : input -> option (nat * A).
  Hypothesis req_not_reply : forall k x, is_req k x = true -> reply_of x = None.

  Definition kstep (n : nat) (k : str) (e : entry A) (x : input) : entry A * option (list (option A)) :=
    if is_req k x then (w_req n e, None) else
    match reply_of x with
    | Some (i, a) => if str_eqb (key a) k then w_put e i a else (e, None)
    | None => (e, None)
    end.

  Fixpoint krun (n : nat) (k : str) (e : entry A) (t : list input) : entry A * list (option (list (option A))) :=
    match t with
    | [] => (e, [])
    | x :: t' =>
        (fst (krun n k (fst (kstep n k e x)) t'), snd (kstep n k e x) :: snd (krun n k (fst (kstep n k e x)) t'))
    end.

  Lemma krun_app n k e t1 t2 :
    krun n k e (t1 ++ t2) =
    (fst (krun n k (fst (krun n k e t1)) t2), snd (krun n k e t1) ++ snd (krun n k (fst (krun n k e t1)) t2)).
  Proof.
    revert e. induction t1 as [|x t1 IH]; intro e; cbn [app krun fst snd].
    - now destruct (krun n k e t2).
    - rewrite IH. reflexivity.
  Qed.

  Lemma krun_snoc n k e t x :
    krun n k e (t ++ [x]) =
    (fst (kstep n k (fst (krun n k e t)) x), snd (krun n k e t) ++ [snd (kstep n k (fst (krun n k e t)) x)]).
  Proof. rewrite krun_app. reflexivity. Qed.

  (** the replies of child [i] under key [k], oldest first ([Merge.replies_of]); the requests *)
  Local Notation replies_of := (Merge.replies_of key reply_of).
  Local Notation col := (Merge.column key reply_of).

  Definition reqs (k : str) (t : list input) : nat := count_occ_b (is_req k) t.

  Lemma replies_of_app k i t1 t2 : replies_of k i (t1 ++ t2) = replies_of k i t1 ++ replies_of k i t2.
  Proof.
    induction t1 as [|x t1 IH]; cbn [app replies_of]; [reflexivity|].
    destruct (reply_of x) as [[j a]|]; [|exact IH]. destruct (Nat.eqb j i && str_eqb (key a) k); [|exact IH].
    cbn. now rewrite IH.
  Qed.

  Lemma reqs_app k t1 t2 : reqs k (t1 ++ t2) = (reqs k t1 + reqs k t2)%nat.
  Proof. apply count_occ_b_app. Qed.

  (** the vectors of heads that were merged, oldest first *)
  Definition fulls (os : list (option (list (option A)))) : list (list (option A)) :=
    flat_map (fun o => match o with Some l => [l] | None => [] end) os.

  Lemma fulls_app a b : fulls (a ++ b) = fulls a ++ fulls b.
  Proof. unfold fulls. apply flat_map_app. Qed.

  (** every reply answers a request its child has not answered yet *)
  Definition in_order (k : str) (t : list input) : Prop :=
    forall pre x rest i a, t = pre ++ x :: rest -> reply_of x = Some (i, a) -> key a = k ->
      (length (replies_of k i pre) < reqs k pre)%nat.

  Definition bounded (n : nat) (t : list input) : Prop :=
    forall x i a, In x t -> reply_of x = Some (i, a) -> (i < n)%nat.

  Lemma in_order_prefix k t1 t2 : in_order k (t1 ++ t2) -> in_order k t1.
  Proof. intros H pre x rest i a E. apply (H pre x (rest ++ t2)). rewrite E, <- app_assoc. reflexivity. Qed.

  Lemma bounded_prefix n t1 t2 : bounded n (t1 ++ t2) -> bounded n t1.
  Proof. intros H x i a Hx. apply (H x i a). apply in_or_app. now left. Qed.

  (** the invariant after the history [t]: [m] merged replies were produced,
      the [j]-th from the children's [j]-th replies; every child has given
      between [m] and [reqs] replies and some child exactly [m]; the entry
      holds the [reqs - m] submissions still open and the replies beyond the
      [m]-th *)
  Definition kinv (n : nat) (k : str) (t : list input) (e : entry A) (os : list (option (list (option A)))) : Prop :=
    exists m : nat,
      fulls os = List.map (fun j => col n k j t) (seq 0 m) /\
      (forall i, (i < n)%nat -> (m <= length (replies_of k i t) <= reqs k t)%nat) /\
      (exists i, (i < n)%nat /\ length (replies_of k i t) = m) /\
      e = if Nat.eqb (reqs k t) m then None
          else Some (Z.of_nat (reqs k t) - Z.of_nat m,
                     List.map (fun i => skipn m (replies_of k i t)) (seq 0 n)).

  Lemma col_stable n k j t x :
    (forall i, (i < n)%nat -> (j < length (replies_of k i t))%nat) -> col n k j (t ++ [x]) = col n k j t.
  Proof.
    intro H. unfold column. apply map_seq_ext. intros i Hi. rewrite replies_of_app.
    apply nth_error_app1. apply H. lia.
  Qed.

  Lemma cols_stable n k m t x :
    (forall i, (i < n)%nat -> (m <= length (replies_of k i t))%nat) ->
    List.map (fun j => col n k j (t ++ [x])) (seq 0 m) = List.map (fun j => col n k j t) (seq 0 m).
  Proof.
    intro H. apply map_seq_ext. intros j Hj. apply col_stable. intros i Hi. specialize (H i Hi). lia.
  Qed.

  (** an input that is neither a request for [k] nor a reply under [k] *)
  Lemma replies_of_snoc_other k i t x :
    (forall j a, reply_of x = Some (j, a) -> key a <> k) -> replies_of k i (t ++ [x]) = replies_of k i t.
  Proof.
    intro H. rewrite replies_of_app. cbn [replies_of]. destruct (reply_of x) as [[j a]|]; [|apply app_nil_r].
    assert (N : str_eqb (key a) k = false) by (apply str_eqb_neq; now apply (H j a)).
    rewrite N, andb_false_r. apply app_nil_r.
  Qed.

  Lemma kinv_same n k t x e os :
    kinv n k t e os -> is_req k x = false ->
    (forall j a, reply_of x = Some (j, a) -> key a <> k) ->
    kinv n k (t ++ [x]) e (os ++ [None]).
  Proof.
    intros [m [Hf [Hb [Hw He]]]] Hr Ho. exists m.
    assert (ER : forall i, replies_of k i (t ++ [x]) = replies_of k i t) by (intro i; now apply replies_of_snoc_other).
    assert (EQ : reqs k (t ++ [x]) = reqs k t).
    { rewrite reqs_app. unfold reqs at 2. cbn [count_occ_b]. rewrite Hr. lia. }
    rewrite fulls_app. cbn [fulls flat_map]. rewrite app_nil_r. rewrite EQ. split; [|split; [|split]].
    - rewrite Hf. symmetry. apply cols_stable. intros i Hi. apply Hb. exact Hi.
    - intros i Hi. rewrite ER. now apply Hb.
    - destruct Hw as [i [Hi Hm]]. exists i. split; [exact Hi | now rewrite ER].
    - rewrite He. destruct (Nat.eqb (reqs k t) m); [reflexivity|]. do 2 f_equal.
      apply map_ext. intro i. now rewrite ER.
  Qed.

  Theorem kinv_run n k t :
    (1 <= n)%nat -> bounded n t -> in_order k t ->
    kinv n k t (fst (krun n k None t)) (snd (krun n k None t)).
  Proof.
    intro Hn. induction t as [|x t IH] using rev_ind; intros Hbd Hio.
    { exists 0%nat. cbn. repeat split; auto; try lia. exists 0%nat. split; [lia | reflexivity]. }
    specialize (IH (bounded_prefix _ _ _ Hbd) (in_order_prefix _ _ _ Hio)).
    rewrite krun_snoc. cbn [fst snd]. set (e := fst (krun n k None t)) in *. set (os := snd (krun n k None t)) in *.
    unfold kstep. destruct (is_req k x) eqn:Er.
    - (* a request with this id *)
      destruct IH as [m [Hf [Hb [Hw He]]]]. cbn [fst snd]. exists m.
      assert (ER : forall i, replies_of k i (t ++ [x]) = replies_of k i t).
      { intro i. apply replies_of_snoc_other. intros j a E. rewrite (req_not_reply k x Er) in E. discriminate. }
      assert (EQ : reqs k (t ++ [x]) = S (reqs k t)).
      { rewrite reqs_app. unfold reqs at 2. cbn [count_occ_b]. rewrite Er. lia. }
      rewrite fulls_app. cbn [fulls flat_map]. rewrite app_nil_r, EQ. split; [|split; [|split]].
      + rewrite Hf. symmetry. apply cols_stable. intros i Hi. apply Hb. exact Hi.
      + intros i Hi. rewrite ER. specialize (Hb i Hi). lia.
      + destruct Hw as [i [Hi Hm]]. exists i. split; [exact Hi | now rewrite ER].
      + assert (Hle : (m <= reqs k t)%nat).
        { destruct Hw as [i [Hi Hm]]. specialize (Hb i Hi). lia. }
        replace (Nat.eqb (S (reqs k t)) m) with false by (symmetry; apply Nat.eqb_neq; lia).
        rewrite He. destruct (Nat.eqb (reqs k t) m) eqn:Em; cbn [w_req].
        * apply Nat.eqb_eq in Em. f_equal. f_equal; [lia|]. symmetry.
          rewrite (map_seq_ext _ (fun i => skipn m (replies_of k i t))) by (intros i _; now rewrite ER).
          apply map_seq_const. intros i Hi. apply skipn_all2. specialize (Hb i ltac:(lia)). lia.
        * f_equal. f_equal; [lia|]. apply map_ext. intro i. now rewrite ER.
    - destruct (reply_of x) as [[i a]|] eqn:Ep.
      2:{ cbn [fst snd]. apply kinv_same; [exact IH | exact Er | intros j a E; congruence]. }
      destruct (str_eqb (key a) k) eqn:Ek.
      2:{ cbn [fst snd]. apply kinv_same; [exact IH | exact Er |].
          intros j a' E. rewrite Ep in E. inversion E; subst. now apply str_eqb_neq. }
      apply str_eqb_eq in Ek.
      (* a reply under this id *)
      assert (Hi : (i < n)%nat) by (apply (Hbd x i a); [apply in_or_app; right; now left | exact Ep]).
      assert (Hlt : (length (replies_of k i t) < reqs k t)%nat) by (apply (Hio t x [] i a); auto).
      destruct IH as [m [Hf [Hb [Hw He]]]].
      assert (EQ : reqs k (t ++ [x]) = reqs k t).
      { rewrite reqs_app. unfold reqs at 2. cbn [count_occ_b]. rewrite Er. lia. }
      assert (ER : forall j, replies_of k j (t ++ [x]) = replies_of k j t ++ (if Nat.eqb j i then [a] else [])).
      { intro j. rewrite replies_of_app. cbn [replies_of]. rewrite Ep, Ek, str_eqb_refl, andb_true_r, (Nat.eqb_sym i j).
        destruct (Nat.eqb j i); reflexivity. }
      assert (Hmi : (m <= length (replies_of k i t))%nat) by (apply Hb; exact Hi).
      replace (Nat.eqb (reqs k t) m) with false in He by (symmetry; apply Nat.eqb_neq; lia).
      rewrite He. cbn [w_put]. rewrite (nth_error_map_seq _ n 0 i Hi). cbn [Nat.add].
      replace (zlen (skipn m (replies_of k i t)) >=? Z.of_nat (reqs k t) - Z.of_nat m) with false.
      2:{ symmetry. rewrite zlen_nat, skipn_length, Z.geb_leb. apply Z.leb_gt. lia. }
      rewrite (upd_nth_map_seq _ _ n 0 i Hi). cbn [Nat.add].
      set (qs' := List.map (fun j => if Nat.eqb j i then skipn m (replies_of k i t) ++ [a]
                                     else skipn m (replies_of k j t)) (seq 0 n)).
      assert (Eqs : qs' = List.map (fun j => skipn m (replies_of k j (t ++ [x]))) (seq 0 n)).
      { unfold qs'. apply map_seq_ext. intros j Hj. rewrite ER. destruct (Nat.eqb j i) eqn:Eji.
        - apply Nat.eqb_eq in Eji. subst j. symmetry. now apply skipn_snoc.
        - now rewrite app_nil_r. }
      rewrite Eqs. clear qs' Eqs.
      rewrite existsb_map_seq.
      assert (Hb' : forall j, (j < n)%nat -> (m <= length (replies_of k j (t ++ [x])) <= reqs k t)%nat).
      { intros j Hj. rewrite ER, app_length. specialize (Hb j Hj). destruct (Nat.eqb j i) eqn:Eji; cbn [length]; [|lia].
        apply Nat.eqb_eq in Eji. subst j. lia. }
      destruct (existsb (fun j => is_nil (skipn m (replies_of k j (t ++ [x])))) (seq 0 n)) eqn:Ex; cbn [fst snd].
      + (* some child has not yet given its m-th reply *)
        exists m. rewrite fulls_app. cbn [fulls flat_map]. rewrite app_nil_r, EQ. split; [|split; [|split]].
        * rewrite Hf. symmetry. apply cols_stable. intros j Hj. apply Hb. exact Hj.
        * exact Hb'.
        * apply existsb_exists in Ex as [j [Hj Hnil]]. apply in_seq in Hj. rewrite is_nil_skipn in Hnil.
          apply Nat.leb_le in Hnil. exists j. split; [lia|]. specialize (Hb' j ltac:(lia)). lia.
        * replace (Nat.eqb (reqs k t) m) with false by (symmetry; apply Nat.eqb_neq; lia). reflexivity.
      + (* every child has: the m-th replies are merged *)
        assert (Hall : forall j, (j < n)%nat -> (S m <= length (replies_of k j (t ++ [x])))%nat).
        { intros j Hj. destruct (le_lt_dec (S m) (length (replies_of k j (t ++ [x])))) as [H|H]; [exact H|]. exfalso.
          assert (existsb (fun j => is_nil (skipn m (replies_of k j (t ++ [x])))) (seq 0 n) = true); [|congruence].
          apply existsb_exists. exists j. split; [apply in_seq; lia|]. rewrite is_nil_skipn. apply Nat.leb_le. lia. }
        exists (S m). rewrite fulls_app. cbn [fulls flat_map app]. rewrite EQ. split; [|split; [|split]].
        * rewrite seq_S, map_app. cbn [List.map Nat.add]. f_equal.
          -- rewrite Hf. symmetry. apply cols_stable. intros j Hj. apply Hb. exact Hj.
          -- f_equal. unfold column. rewrite map_map. apply map_ext. intro j. apply hd_skipn.
        * intros j Hj. specialize (Hall j Hj). specialize (Hb' j Hj). lia.
        * exists i. split; [exact Hi|]. destruct Hw as [j0 [Hj0 Hm0]].
          destruct (Nat.eq_dec j0 i) as [->|Nj].
          -- rewrite ER, Nat.eqb_refl, app_length. cbn [length]. lia.
          -- exfalso. specialize (Hall j0 Hj0). rewrite ER in Hall.
             replace (Nat.eqb j0 i) with false in Hall by (symmetry; now apply Nat.eqb_neq).
             rewrite app_nil_r in Hall. lia.
        * assert (Hle : (S m <= reqs k t)%nat) by (specialize (Hall i Hi); specialize (Hb' i Hi); lia).
          destruct (Nat.eqb (reqs k t) (S m)) eqn:Em.
          -- apply Nat.eqb_eq in Em. replace (Z.of_nat (reqs k t) - Z.of_nat m - 1 <=? 0) with true; [reflexivity|].
             symmetry. apply Z.leb_le. lia.
          -- apply Nat.eqb_neq in Em. replace (Z.of_nat (reqs k t) - Z.of_nat m - 1 <=? 0) with false.
             2:{ symmetry. apply Z.leb_gt. lia. }
             f_equal. f_equal; [lia|]. rewrite map_map. apply map_ext. intro j. apply tl_skipn.
  Qed.

  (** ** What the invariant says about the merged replies *)

  (** as many merged replies as there are [j] with a [j]-th reply of every child *)
  Lemma kinv_count n k t e os j :
    kinv n k t e os ->
    ((j < length (fulls os))%nat <-> forall i, (i < n)%nat -> (j < length (replies_of k i t))%nat).
  Proof.
    intros [m [Hf [Hb [[i0 [Hi0 Hm0]] _]]]]. rewrite Hf, map_length, seq_length. split.
    - intros Hj i Hi. specialize (Hb i Hi). lia.
    - intro H. specialize (H i0 Hi0). lia.
  Qed.

  (** never more than requests *)
  Lemma kinv_le_reqs n k t e os : kinv n k t e os -> (length (fulls os) <= reqs k t)%nat.
  Proof.
    intros [m [Hf [Hb [[i0 [Hi0 Hm0]] _]]]]. rewrite Hf, map_length, seq_length. specialize (Hb i0 Hi0). lia.
  Qed.

  (** some child has not given its next reply *)
  Lemma kinv_next_missing n k t e os :
    kinv n k t e os -> exists i, (i < n)%nat /\ nth_error (replies_of k i t) (length (fulls os)) = None.
  Proof.
    intros [m [Hf [_ [[i0 [Hi0 Hm0]] _]]]]. rewrite Hf, map_length, seq_length.
    exists i0. split; [exact Hi0|]. apply nth_error_None. lia.
  Qed.

  (** the [j]-th merged reply is made of the children's [j]-th replies *)
  Lemma kinv_nth n k t e os j l :
    kinv n k t e os -> nth_error (fulls os) j = Some l ->
    l = col n k j t /\ forall i, (i < n)%nat -> (j < length (replies_of k i t))%nat.
  Proof.
    intros [m [Hf [Hb _]]] H. rewrite Hf in H.
    assert (Hj : (j < m)%nat).
    { destruct (le_lt_dec m j) as [Hle|Hlt]; [|exact Hlt]. rewrite nth_error_map_seq_none in H by exact Hle. discriminate. }
    rewrite (nth_error_map_seq _ m 0 j Hj) in H. inversion H. split; [reflexivity|].
    intros i Hi. specialize (Hb i Hi). lia.
  Qed.

  (** the entry is gone exactly when every request got its merged reply *)
  Lemma kinv_entry_none n k t e os :
    kinv n k t e os -> (e = None <-> length (fulls os) = reqs k t).
  Proof.
    intros [m [Hf [_ [_ He]]]]. rewrite Hf, map_length, seq_length, He.
    destruct (Nat.eqb (reqs k t) m) eqn:E.
    - apply Nat.eqb_eq in E. split; auto.
    - apply Nat.eqb_neq in E. split; [discriminate | intro; lia].
  Qed.
  (** whatever is merged is a full, non-empty vector of replies *)
  Lemma kstep_full n k e x l :
    snd (kstep n k e x) = Some l -> exists xs, l = List.map Some xs /\ xs <> [].
  Proof.
    unfold kstep. destruct (is_req k x); [discriminate|].
    destruct (reply_of x) as [[i a]|]; [|discriminate].
    destruct (str_eqb (key a) k); [|discriminate]. apply w_put_full_vector.
  Qed.

  Lemma krun_full n k t : forall e l,
    In (Some l) (snd (krun n k e t)) -> exists xs, l = List.map Some xs /\ xs <> [].
  Proof.
    induction t as [|x t IH]; intros e l H; [destruct H|]. cbn [krun snd] in H.
    destruct H as [H|H]; [now apply (kstep_full n k e x) | now apply (IH _ _ H)].
  Qed.
End Agg.

(* ------------------------------------------------------------------ *)
(** * 3. The instances: EVENT/OK and COUNT *)

Lemma ok_req_not_reply k x : is_cevent_of k x = true -> ok_reply x = None.
Proof. destruct x; cbn; try discriminate; reflexivity. Qed.

Lemma cnt_req_not_reply k x : is_ccount_of k x = true -> cnt_reply x = None.
Proof. destruct x; cbn; try discriminate; reflexivity. Qed.

Definition ok_kstep := kstep ok_id is_cevent_of ok_reply.
Definition ok_krun := krun ok_id is_cevent_of ok_reply.
Definition cnt_kstep := kstep c_sub is_ccount_of cnt_reply.
Definition cnt_krun := krun c_sub is_ccount_of cnt_reply.

(** the part of an output that is a merged OK for [k] / a merged COUNT for [k] *)
Definition proj_ok (k : str) (o : option smsg) : option okm :=
  match o with
  | Some (SOk r) => if str_eqb (ok_id r) k then Some r else None
  | _ => None
  end.
Definition proj_cnt (k : str) (o : option smsg) : option cntm :=
  match o with
  | Some (SCount r) => if str_eqb (c_sub r) k then Some r else None
  | _ => None
  end.

Definition merged_ok (o : option (list (option okm))) : option okm :=
  match o with Some l => ok_merge l | None => None end.
Definition merged_cnt (o : option (list (option cntm))) : option cntm :=
  match o with Some l => cnt_merge l | None => None end.

Lemma ok_merge_key k l r :
  ok_merge l = Some r -> (forall a, In (Some a) l -> ok_id a = k) -> ok_id r = k.
Proof.
  unfold ok_merge. intros H Hk.
  assert (P : forall l oks ngs, ok_partition l = Some (oks, ngs) ->
              forall a, In a oks \/ In a ngs -> In (Some a) l).
  { clear. induction l as [|[x|] l IH]; cbn; intros oks ngs H a Ha; try discriminate.
    - inversion H; subst. destruct Ha as [[]|[]].
    - destruct (ok_partition l) as [[oks' ngs']|]; [|discriminate].
      destruct (h_ok_is_accepted (ok_acc x)); inversion H; subst.
      + destruct Ha as [[<-|Ha]|Ha]; [now left | right; eapply IH; eauto | right; eapply IH; eauto].
      + destruct Ha as [Ha|[<-|Ha]]; [right; eapply IH; eauto | now left | right; eapply IH; eauto]. }
  destruct (ok_partition l) as [[oks ngs]|] eqn:Ep; [|discriminate].
  destruct (h_ok_any_rejected (zlen ngs)).
  - destruct ngs as [|m0 ngs]; [discriminate|]. inversion H; subst. cbn. apply Hk.
    apply (P l oks (m0 :: ngs) Ep). right. now left.
  - destruct oks as [|m0 oks]; [discriminate|]. inversion H; subst. cbn. apply Hk.
    apply (P l (m0 :: oks) ngs Ep). left. now left.
Qed.

Lemma filter_first {A} (p : A -> bool) l x rest :
  filter p l = x :: rest ->
  exists before after, l = before ++ x :: after /\ (forall b, In b before -> p b = false) /\ p x = true.
Proof.
  induction l as [|a l IH]; cbn; [discriminate|].
  destruct (p a) eqn:E.
  - intro H. inversion H; subst. exists [], l. repeat split; auto. intros b [].
  - intro H. destruct (IH H) as [before [after [-> [Hb Hx]]]].
    exists (a :: before), after. repeat split; auto. intros b [<-|Hin]; auto.
Qed.

Lemma filter_nil_all {A} (p : A -> bool) l : filter p l = [] -> forall x, In x l -> p x = false.
Proof.
  induction l as [|a l IH]; cbn; [intros _ x []|].
  destruct (p a) eqn:E; [discriminate|]. intros H x [<-|Hin]; auto.
Qed.

(** the merged OK is what the property asks for *)
Lemma ok_merge_verdict id xs r :
  ok_merge (List.map Some xs) = Some r -> (forall a, In a xs -> ok_id a = id) -> ok_verdict_spec id xs r.
Proof.
  unfold ok_merge. rewrite ok_partition_some, g_ok_any_rejected_spec. intros H Hk.
  destruct (filter (fun m => negb (ok_acc m)) xs) as [|ng ngs] eqn:En; cbn [negb] in H.
  - pose proof (filter_nil_all _ _ En) as Hall. rewrite (filter_all_false _ _ En) in H.
    destruct xs as [|m0 xs']; [discriminate|]. cbn in H. inversion H; subst r. clear H.
    assert (Hacc : forall x, In x (m0 :: xs') -> ok_acc x = true).
    { intros x Hx. specialize (Hall x Hx). now apply negb_false_iff in Hall. }
    unfold ok_verdict_spec. cbn [ok_id ok_acc]. split; [apply Hk; now left|]. split.
    + split; [intros _; exact Hacc | intros _; apply Hacc; now left].
    + intro Hf. rewrite (Hacc m0 (or_introl eq_refl)) in Hf. discriminate.
  - cbn in H. inversion H; subst r. clear H.
    destruct (filter_first _ _ _ _ En) as [before [after [Exs [Hb Hng]]]].
    apply negb_true_iff in Hng.
    unfold ok_verdict_spec. cbn [ok_id ok_acc]. split; [apply Hk; rewrite Exs; apply in_or_app; right; now left|].
    split.
    + rewrite Hng. split; [discriminate|]. intro Hall.
      rewrite <- (Hall ng), Hng; [reflexivity|]. rewrite Exs. apply in_or_app. right. now left.
    + intros _. exists before, ng, after, (concat (List.map ok_message ngs)). split; [exact Exs|]. split.
      * intros b Hin. specialize (Hb b Hin). now apply negb_false_iff in Hb.
      * split; [exact Hng | reflexivity].
Qed.
Lemma first_max_spec l : forall m,
  In (first_max m l) (m :: l) /\ forall x, In x (m :: l) -> c_count x <= c_count (first_max m l).
Proof.
  induction l as [|a l IH]; intro m; cbn [first_max].
  - split; [now left | intros x [<-|[]]; lia].
  - destruct (c_count a >? c_count m) eqn:E.
    + apply Z.gtb_lt in E. destruct (IH a) as [H1 H2]. split.
      * right. exact H1.
      * intros x [<-|Hx]; [|now apply H2]. specialize (H2 a (or_introl eq_refl)). lia.
    + assert (c_count a <= c_count m) by (destruct (Z.gtb_spec (c_count a) (c_count m)); [discriminate | lia]).
      destruct (IH m) as [H1 H2]. split.
      * destruct H1 as [H1|H1]; [now left | right; now right].
      * intros x [<-|[<-|Hx]]; [apply H2; now left | specialize (H2 m (or_introl eq_refl)); lia | apply H2; now right].
Qed.

(** ... and it is the first of the maximal ones *)
Lemma first_max_first l : forall m,
  exists before after, m :: l = before ++ first_max m l :: after /\
                       forall b, In b before -> c_count b < c_count (first_max m l).
Proof.
  induction l as [|a l IH]; intro m; cbn [first_max].
  - exists [], []. split; [reflexivity | intros b []].
  - destruct (c_count a >? c_count m) eqn:E.
    + apply Z.gtb_lt in E. destruct (IH a) as [before [after [Eq Hb]]].
      exists (m :: before), after. split; [cbn [app]; now rewrite <- Eq|].
      intros b [<-|Hin]; [|now apply Hb].
      destruct (first_max_spec l a) as [_ H2]. specialize (H2 a (or_introl eq_refl)). lia.
    + assert (Ha : c_count a <= c_count m) by (destruct (Z.gtb_spec (c_count a) (c_count m)); [discriminate | lia]).
      destruct (IH m) as [before [after [Eq Hb]]].
      destruct before as [|b0 before]; cbn [app] in Eq; injection Eq as Em El.
      * exists [], (a :: l). split; [cbn [app]; now rewrite <- Em | intros b []].
      * subst b0. exists (m :: a :: before), after. split; [cbn [app]; now rewrite <- El|].
        intros b [<-|[<-|Hin]].
        -- apply Hb. now left.
        -- specialize (Hb m (or_introl eq_refl)). lia.
        -- apply Hb. now right.
Qed.

Lemma cnt_merge_max sub xs r :
  cnt_merge (List.map Some xs) = Some r -> (forall a, In a xs -> c_sub a = sub) -> count_max_spec sub xs r.
Proof.
  unfold cnt_merge. rewrite all_some_map. destruct xs as [|m l]; [discriminate|]. intros H Hk.
  inversion H; subst r. destruct (first_max_spec l m) as [H1 H2].
  unfold count_max_spec. split; [now apply Hk|]. split; assumption.
Qed.

Lemma cnt_merge_key k l r :
  cnt_merge l = Some r -> (forall a, In (Some a) l -> c_sub a = k) -> c_sub r = k.
Proof.
  unfold cnt_merge. intros H Hk. destruct (all_some l) as [xs|] eqn:Ea; [|discriminate].
  assert (El : l = List.map Some xs).
  { clear - Ea. revert xs Ea. induction l as [|[x|] l IH]; cbn; intros xs Ea; try discriminate.
    - now inversion Ea.
    - destruct (all_some l) as [r'|]; [|discriminate]. inversion Ea; subst. cbn. f_equal. now apply IH. }
  destruct xs as [|m xs']; [discriminate|]. inversion H; subst r.
  apply Hk. rewrite El. apply in_map. apply (proj1 (first_max_spec xs' m)).
Qed.

Lemma cnt_merge_first xs r :
  cnt_merge (List.map Some xs) = Some r ->
  exists before after, xs = before ++ r :: after /\ forall b, In b before -> c_count b < c_count r.
Proof.
  unfold cnt_merge. rewrite all_some_map. destruct xs as [|m l]; [discriminate|]. intro H.
  inversion H; subst r. apply first_max_first.
Qed.

(** ** [merge_step] is simulated by the machine of one id *)

Lemma ok_step_sim n k s x :
  state_ok n s -> input_ok n x ->
  os_ent (st_os (fst (merge_step s x))) k = fst (ok_kstep n k (os_ent (st_os s) k) x) /\
  proj_ok k (snd (merge_step s x)) = merged_ok (snd (ok_kstep n k (os_ent (st_os s) k) x)).
Proof.
  intros [Hd [Hr [Ho Hc]]] Hx. unfold merge_step. rewrite Hd. unfold ok_kstep, kstep.
  destruct x as [sub fs|sub|id|sub|i m]; cbn [fst snd is_cevent_of ok_reply].
  - split; reflexivity.
  - split; reflexivity.
  - cbn [with_os st_os proj_ok]. destruct (os_try_set_spec n (st_os s) id Ho) as [_ [E1 E2]].
    destruct (str_eqb id k) eqn:Ek; cbn [fst snd merged_ok].
    + apply str_eqb_eq in Ek. subst k. split; [exact E1 | reflexivity].
    + apply str_eqb_neq in Ek. split; [apply E2; congruence | reflexivity].
  - split; reflexivity.
  - destruct m as [sub|sub e|m|c|t|sub p t]; cbn [input_ok] in Hx; cbn [fst snd merged_ok].
    + destruct (send_eose_spec n s i sub Hr Hx) as [r' [E _]]. rewrite E. cbn [fst snd with_rs st_os].
      split; [reflexivity|]. destruct (snd (w_eose _ i)); reflexivity.
    + destruct Hx as [Hi Hne].
      destruct (send_event_spec n s i sub e Hr Hi Hne) as [r' [E _]]. rewrite E. cbn [fst snd with_rs st_os].
      split; [reflexivity|]. destruct (snd (w_event _ i e)); reflexivity.
    + destruct (send_ok_spec n s i m Ho Hx) as [o' [E [_ [Hoth [Hsame _]]]]]. cbv zeta in *.
      rewrite E. cbn [fst snd with_os st_os].
      destruct (str_eqb (ok_id m) k) eqn:Ek.
      * apply str_eqb_eq in Ek. subst k. split; [exact Hsame|].
        unfold out_ok, merged_ok. destruct (snd (w_put _ i m)) as [l'|] eqn:Ew; [|reflexivity].
        destruct (ok_merge l') as [r|] eqn:Em; [|reflexivity]. cbn [option_map proj_ok].
        assert (Hk : ok_id r = ok_id m).
        { apply (ok_merge_key _ l' r Em). intros a Ha.
          apply (w_put_full_In ok_id n (os_ent (st_os s) (ok_id m)) i m l' a); [apply (proj2 Ho (ok_id m)) | exact Ew | exact Ha]. }
        now rewrite Hk, str_eqb_refl.
      * cbn [fst snd merged_ok]. split; [apply Hoth; apply str_eqb_neq in Ek; congruence|].
        unfold out_ok. destruct (snd (w_put _ i m)) as [l'|] eqn:Ew; [|reflexivity].
        destruct (ok_merge l') as [r|] eqn:Em; [|reflexivity]. cbn [option_map proj_ok].
        assert (Hk : ok_id r = ok_id m).
        { apply (ok_merge_key _ l' r Em). intros a Ha.
          apply (w_put_full_In ok_id n (os_ent (st_os s) (ok_id m)) i m l' a); [apply (proj2 Ho (ok_id m)) | exact Ew | exact Ha]. }
        now rewrite Hk, Ek.
    + destruct (send_count_spec n s i c Hc Hx) as [c' [E _]]. rewrite E. cbn [fst snd with_cs st_os].
      split; [reflexivity|]. unfold out_cnt. destruct (snd (w_put _ i c)); [|reflexivity].
      destruct (cnt_merge _); reflexivity.
    + split; reflexivity.
    + split; reflexivity.
Qed.

Lemma ok_run_sim n k t : forall s,
  state_ok n s -> trace_ok n t ->
  os_ent (st_os (final s t)) k = fst (ok_krun n k (os_ent (st_os s) k) t) /\
  List.map (proj_ok k) (outs s t) = List.map merged_ok (snd (ok_krun n k (os_ent (st_os s) k) t)).
Proof.
  induction t as [|x t IH]; intros s Hs Ht; [split; reflexivity|].
  inversion Ht as [|? ? Hx Ht']; subst.
  destruct (ok_step_sim n k s x Hs Hx) as [P O].
  destruct (IH (fst (merge_step s x)) (step_ok n s x Hs Hx) Ht') as [P' O'].
  unfold final, outs in *. rewrite exec_cons. unfold ok_krun in *. cbn [fst snd krun List.map].
  unfold ok_kstep in *. rewrite <- P. split; [exact P'|]. rewrite O. f_equal. exact O'.
Qed.



Lemma cnt_step_sim n k s x :
  state_ok n s -> input_ok n x ->
  cs_ent (st_cs (fst (merge_step s x))) k = fst (cnt_kstep n k (cs_ent (st_cs s) k) x) /\
  proj_cnt k (snd (merge_step s x)) = merged_cnt (snd (cnt_kstep n k (cs_ent (st_cs s) k) x)).
Proof.
  intros [Hd [Hr [Ho Hc]]] Hx. unfold merge_step. rewrite Hd. unfold cnt_kstep, kstep.
  destruct x as [sub fs|sub|id|sub|i m]; cbn [fst snd is_ccount_of cnt_reply].
  - split; reflexivity.
  - split; reflexivity.
  - split; reflexivity.
  - cbn [with_cs st_cs proj_cnt]. destruct (cs_set_sub_spec n (st_cs s) sub Hc) as [_ [E1 E2]].
    destruct (str_eqb sub k) eqn:Ek; cbn [fst snd merged_cnt].
    + apply str_eqb_eq in Ek. subst k. split; [exact E1 | reflexivity].
    + apply str_eqb_neq in Ek. split; [apply E2; congruence | reflexivity].
  - destruct m as [sub|sub e|m|c|t|sub p t]; cbn [input_ok] in Hx; cbn [fst snd merged_cnt].
    + destruct (send_eose_spec n s i sub Hr Hx) as [r' [E _]]. rewrite E. cbn [fst snd with_rs st_cs].
      split; [reflexivity|]. destruct (snd (w_eose _ i)); reflexivity.
    + destruct Hx as [Hi Hne].
      destruct (send_event_spec n s i sub e Hr Hi Hne) as [r' [E _]]. rewrite E. cbn [fst snd with_rs st_cs].
      split; [reflexivity|]. destruct (snd (w_event _ i e)); reflexivity.
    + destruct (send_ok_spec n s i m Ho Hx) as [o' [E _]]. rewrite E. cbn [fst snd with_os st_cs].
      split; [reflexivity|]. unfold out_ok. destruct (snd (w_put _ i m)); [|reflexivity].
      destruct (ok_merge _); reflexivity.
    + destruct (send_count_spec n s i c Hc Hx) as [c' [E [_ [Hoth [Hsame _]]]]]. cbv zeta in *.
      rewrite E. cbn [fst snd with_cs st_cs].
      destruct (str_eqb (c_sub c) k) eqn:Ek.
      * apply str_eqb_eq in Ek. subst k. split; [exact Hsame|].
        unfold out_cnt, merged_cnt. destruct (snd (w_put _ i c)) as [l'|] eqn:Ew; [|reflexivity].
        destruct (cnt_merge l') as [r|] eqn:Em; [|reflexivity]. cbn [option_map proj_cnt].
        assert (Hk : c_sub r = c_sub c).
        { apply (cnt_merge_key _ l' r Em). intros a Ha.
          apply (w_put_full_In c_sub n (cs_ent (st_cs s) (c_sub c)) i c l' a); [apply (proj2 Hc (c_sub c)) | exact Ew | exact Ha]. }
        now rewrite Hk, str_eqb_refl.
      * cbn [fst snd merged_cnt]. split; [apply Hoth; apply str_eqb_neq in Ek; congruence|].
        unfold out_cnt. destruct (snd (w_put _ i c)) as [l'|] eqn:Ew; [|reflexivity].
        destruct (cnt_merge l') as [r|] eqn:Em; [|reflexivity]. cbn [option_map proj_cnt].
        assert (Hk : c_sub r = c_sub c).
        { apply (cnt_merge_key _ l' r Em). intros a Ha.
          apply (w_put_full_In c_sub n (cs_ent (st_cs s) (c_sub c)) i c l' a); [apply (proj2 Hc (c_sub c)) | exact Ew | exact Ha]. }
        now rewrite Hk, Ek.
    + split; reflexivity.
    + split; reflexivity.
Qed.

Lemma cnt_run_sim n k t : forall s,
  state_ok n s -> trace_ok n t ->
  cs_ent (st_cs (final s t)) k = fst (cnt_krun n k (cs_ent (st_cs s) k) t) /\
  List.map (proj_cnt k) (outs s t) = List.map merged_cnt (snd (cnt_krun n k (cs_ent (st_cs s) k) t)).
Proof.
  induction t as [|x t IH]; intros s Hs Ht; [split; reflexivity|].
  inversion Ht as [|? ? Hx Ht']; subst.
  destruct (cnt_step_sim n k s x Hs Hx) as [P O].
  destruct (IH (fst (merge_step s x)) (step_ok n s x Hs Hx) Ht') as [P' O'].
  unfold final, outs in *. rewrite exec_cons. unfold cnt_krun in *. cbn [fst snd krun List.map].
  unfold cnt_kstep in *. rewrite <- P. split; [exact P'|]. rewrite O. f_equal. exact O'.
Qed.

(* ------------------------------------------------------------------ *)
(** * 4. C09 *)

Lemma count_merged {A B} (mg : list (option A) -> option B) (kos : list (option (list (option A)))) :
  (forall l, In (Some l) kos -> exists r, mg l = Some r) ->
  count_occ_b isSome (List.map (fun o => match o with Some l => mg l | None => None end) kos) = length (fulls kos).
Proof.
  induction kos as [|[l|] kos IH]; intro H; cbn [List.map count_occ_b fulls flat_map app length]; [reflexivity | |].
  - destruct (H l (or_introl eq_refl)) as [r ->]. cbn [isSome]. f_equal. apply IH. intros l' Hl'. apply H. now right.
  - cbn [isSome]. apply IH. intros l' Hl'. apply H. now right.
Qed.

Lemma replies_of_key {A} (key : A -> str) reply_of k i t a : In a (replies_of key reply_of k i t) -> key a = k.
Proof.
  induction t as [|x t IH]; cbn [replies_of]; [intros []|].
  destruct (reply_of x) as [[j b]|]; [|exact IH].
  destruct (Nat.eqb j i && str_eqb (key b) k) eqn:E; [|exact IH].
  intros [<-|H]; [|now apply IH]. apply andb_true_iff in E as [_ E]. now apply str_eqb_eq.
Qed.

Lemma column_length {A} (key : A -> str) reply_of n k j t : length (column key reply_of n k j t) = n.
Proof. unfold column. now rewrite map_length, seq_length. Qed.

Lemma column_key {A} (key : A -> str) reply_of n k j t a : In (Some a) (column key reply_of n k j t) -> key a = k.
Proof.
  unfold column. intro H. apply in_map_iff in H as [i [E _]]. apply nth_error_In in E.
  now apply replies_of_key in E.
Qed.

Lemma nth_error_outs_mid s w1 x w2 :
  nth_error (outs s (w1 ++ x :: w2)) (length w1) = Some (snd (merge_step (final s w1) x)).
Proof.
  rewrite outs_app, outs_cons. rewrite <- (outs_length s w1). apply nth_error_mid.
Qed.

(** ** EVENT / OK *)

Lemma ok_bounded n t : trace_ok n t -> bounded ok_reply n t.
Proof.
  intros Ht x i a Hx E. unfold trace_ok in Ht. rewrite Forall_forall in Ht. specialize (Ht x Hx).
  destruct x as [| | | |j [| |m| | |]]; try discriminate. cbn in E. inversion E; subst. exact Ht.
Qed.

Lemma ok_in_order t id : answers_in_order_ev t -> in_order ok_id is_cevent_of ok_reply id t.
Proof.
  intros H pre x rest i a Et Er Ek. destruct x as [| | | |j [| |m| | |]]; try discriminate.
  cbn in Er. inversion Er; subst. apply (H pre i a rest eq_refl).
Qed.

Lemma answers_in_order_ev_prefix t1 t2 : answers_in_order_ev (t1 ++ t2) -> answers_in_order_ev t1.
Proof. intros H pre i m rest E. apply (H pre i m (rest ++ t2)). rewrite E, <- app_assoc. reflexivity. Qed.

Lemma ok_kinv n t id :
  (1 <= n)%nat -> trace_ok n t -> answers_in_order_ev t ->
  kinv ok_id is_cevent_of ok_reply n id t (fst (ok_krun n id None t)) (snd (ok_krun n id None t)).
Proof.
  intros Hn Ht Ho. apply kinv_run; [exact ok_req_not_reply | exact Hn | now apply ok_bounded | now apply ok_in_order].
Qed.

Lemma is_ok_out_proj id o : is_ok_out id o = isSome (proj_ok id o).
Proof. destruct o as [[| |r| | |]|]; cbn; try reflexivity. destruct (str_eqb (ok_id r) id); reflexivity. Qed.

(** the OKs for [id] the client has received are the merged vectors of [id]'s machine *)
Lemma ok_count n t id :
  trace_ok n t ->
  count_occ_b (is_ok_out id) (outs (init n) t) = length (fulls (snd (ok_krun n id None t))).
Proof.
  intro Ht. destruct (ok_run_sim n id t (init n) (init_ok n) Ht) as [_ O].
  change (os_ent (st_os (init n)) id) with (@None (Z * list (list okm))) in O.
  rewrite (count_occ_b_ext _ (fun o => isSome (proj_ok id o))) by (intro o; apply is_ok_out_proj).
  rewrite <- (count_occ_b_map (proj_ok id) isSome), O. apply count_merged.
  intros l Hl. destruct (krun_full _ _ _ _ _ _ _ _ Hl) as [xs [-> Hne]]. now apply ok_merge_full.
Qed.

(** as many OKs for [id] as there are [j] such that every child has given its
    [j]-th OK for [id] *)
Theorem ok_replies_count n t id j :
  (1 <= n)%nat -> trace_ok n t -> answers_in_order_ev t ->
  ((j < count_occ_b (is_ok_out id) (outs (init n) t))%nat <->
   forall i, (i < n)%nat -> (j < length (ok_replies_of id i t))%nat).
Proof.
  intros Hn Ht Ho. rewrite (ok_count n t id Ht). apply (kinv_count _ _ _ _ _ _ _ _ _ (ok_kinv n t id Hn Ht Ho)).
Qed.

(** never more OKs than EVENTs *)
Theorem ok_le_events n t id :
  (1 <= n)%nat -> trace_ok n t -> answers_in_order_ev t ->
  (count_occ_b (is_ok_out id) (outs (init n) t) <= count_occ_b (is_cevent_of id) t)%nat.
Proof.
  intros Hn Ht Ho. rewrite (ok_count n t id Ht). apply (kinv_le_reqs _ _ _ _ _ _ _ _ (ok_kinv n t id Hn Ht Ho)).
Qed.

(** every child answered every EVENT [id]: exactly one OK per EVENT *)
Theorem ok_exactly_one n t id :
  (1 <= n)%nat -> trace_ok n t -> answers_in_order_ev t ->
  (forall i, (i < n)%nat -> length (ok_replies_of id i t) = count_occ_b (is_cevent_of id) t) ->
  count_occ_b (is_ok_out id) (outs (init n) t) = count_occ_b (is_cevent_of id) t.
Proof.
  intros Hn Ht Ho Hall. pose proof (ok_le_events n t id Hn Ht Ho) as Hle.
  destruct (Nat.eq_dec (count_occ_b (is_ok_out id) (outs (init n) t)) (count_occ_b (is_cevent_of id) t)) as [E|N]; [exact E|].
  exfalso. assert (Hlt : (count_occ_b (is_ok_out id) (outs (init n) t) < count_occ_b (is_ok_out id) (outs (init n) t))%nat); [|lia].
  apply (ok_replies_count n t id _ Hn Ht Ho). intros i Hi. rewrite (Hall i Hi). lia.
Qed.

(** the OK output at a step is the [j]-th for its id, [j] the number of OKs
    for that id before; it is merged from the children's [j]-th replies, the
    last of which arrived at this step *)
Theorem ok_at n w1 x w2 r :
  (1 <= n)%nat -> trace_ok n (w1 ++ x :: w2) -> answers_in_order_ev (w1 ++ x :: w2) ->
  nth_error (outs (init n) (w1 ++ x :: w2)) (length w1) = Some (Some (SOk r)) ->
  let id := ok_id r in
  let j := count_occ_b (is_ok_out id) (outs (init n) w1) in
  (exists i, (i < n)%nat /\ nth_error (ok_replies_of id i w1) j = None) /\
  exists xs, ok_column n id j (w1 ++ [x]) = List.map Some xs /\ length xs = n /\
             ok_merge (List.map Some xs) = Some r /\ (forall a, In a xs -> ok_id a = id).
Proof.
  intros Hn Ht Ho Hnth id j.
  assert (Ht1 : trace_ok n (w1 ++ [x])) by now apply (trace_ok_mid n w1 x w2).
  assert (Ho1 : answers_in_order_ev (w1 ++ [x])).
  { apply (answers_in_order_ev_prefix _ w2). now rewrite <- app_assoc. }
  assert (Htw : trace_ok n w1) by now apply (trace_ok_prefix n w1 [x]).
  assert (How : answers_in_order_ev w1) by now apply (answers_in_order_ev_prefix w1 [x]).
  rewrite nth_error_outs_mid in Hnth. inversion Hnth as [Hout]. clear Hnth.
  pose proof (reach_ok n w1 Htw) as Hs.
  assert (Hx : input_ok n x) by (apply trace_ok_snoc in Ht1; tauto).
  destruct (ok_run_sim n id w1 (init n) (init_ok n) Htw) as [P _].
  change (os_ent (st_os (init n)) id) with (@None (Z * list (list okm))) in P.
  destruct (ok_step_sim n id (final (init n) w1) x Hs Hx) as [_ O]. rewrite Hout, P in O.
  cbn [proj_ok] in O. unfold id in O at 1. rewrite str_eqb_refl in O. fold id in O.
  pose proof (ok_kinv n (w1 ++ [x]) id Hn Ht1 Ho1) as K1. unfold ok_krun in K1. rewrite krun_snoc in K1. cbn [fst snd] in K1.
  pose proof (ok_kinv n w1 id Hn Htw How) as K0.
  fold (ok_krun n id None w1) in K1. fold (ok_kstep n id (fst (ok_krun n id None w1)) x) in K1.
  destruct (snd (ok_kstep n id (fst (ok_krun n id None w1)) x)) as [l'|] eqn:Es; [|discriminate].
  cbn [merged_ok] in O.
  assert (Ej : j = length (fulls (snd (ok_krun n id None w1)))) by (unfold j; now apply ok_count).
  split.
  - rewrite Ej. apply (kinv_next_missing _ _ _ _ _ _ _ _ K0).
  - assert (Hn1 : nth_error (fulls (snd (ok_krun n id None w1) ++ [Some l'])) j = Some l').
    { rewrite fulls_app. cbn [fulls flat_map app]. rewrite Ej. apply nth_error_mid. }
    destruct (kinv_nth _ _ _ _ _ _ _ _ _ _ K1 Hn1) as [El _].
    destruct (kstep_full _ _ _ _ _ _ _ _ Es) as [xs [Exs _]].
    exists xs. split; [|split; [|split]].
    + unfold ok_column. now rewrite <- El.
    + rewrite <- (map_length Some xs), <- Exs, El. apply column_length.
    + rewrite <- Exs. now symmetry.
    + intros a Ha. apply (column_key ok_id ok_reply n id j (w1 ++ [x]) a). rewrite <- El, Exs. now apply in_map.
Qed.

(** ** COUNT *)

Lemma cnt_bounded n t : trace_ok n t -> bounded cnt_reply n t.
Proof.
  intros Ht x i a Hx E. unfold trace_ok in Ht. rewrite Forall_forall in Ht. specialize (Ht x Hx).
  destruct x as [| | | |j [| | |m| |]]; try discriminate. cbn in E. inversion E; subst. exact Ht.
Qed.

Lemma cnt_in_order t id : answers_in_order_cnt t -> in_order c_sub is_ccount_of cnt_reply id t.
Proof.
  intros H pre x rest i a Et Er Ek. destruct x as [| | | |j [| | |m| |]]; try discriminate.
  cbn in Er. inversion Er; subst. apply (H pre i a rest eq_refl).
Qed.

Lemma answers_in_order_cnt_prefix t1 t2 : answers_in_order_cnt (t1 ++ t2) -> answers_in_order_cnt t1.
Proof. intros H pre i m rest E. apply (H pre i m (rest ++ t2)). rewrite E, <- app_assoc. reflexivity. Qed.

Lemma cnt_kinv n t id :
  (1 <= n)%nat -> trace_ok n t -> answers_in_order_cnt t ->
  kinv c_sub is_ccount_of cnt_reply n id t (fst (cnt_krun n id None t)) (snd (cnt_krun n id None t)).
Proof.
  intros Hn Ht Ho. apply kinv_run; [exact cnt_req_not_reply | exact Hn | now apply cnt_bounded | now apply cnt_in_order].
Qed.

Lemma is_count_out_proj id o : is_count_out id o = isSome (proj_cnt id o).
Proof. destruct o as [[| | |r| |]|]; cbn; try reflexivity. destruct (str_eqb (c_sub r) id); reflexivity. Qed.

(** the COUNT replies for [id] the client has received are the merged vectors of [id]'s machine *)
Lemma cnt_count n t id :
  trace_ok n t ->
  count_occ_b (is_count_out id) (outs (init n) t) = length (fulls (snd (cnt_krun n id None t))).
Proof.
  intro Ht. destruct (cnt_run_sim n id t (init n) (init_ok n) Ht) as [_ O].
  change (cs_ent (st_cs (init n)) id) with (@None (Z * list (list cntm))) in O.
  rewrite (count_occ_b_ext _ (fun o => isSome (proj_cnt id o))) by (intro o; apply is_count_out_proj).
  rewrite <- (count_occ_b_map (proj_cnt id) isSome), O. apply count_merged.
  intros l Hl. destruct (krun_full _ _ _ _ _ _ _ _ Hl) as [xs [-> Hne]]. now apply cnt_merge_full.
Qed.

(** as many COUNT replies for [id] as there are [j] such that every child has given its
    [j]-th COUNT reply for [id] *)
Theorem cnt_replies_count n t id j :
  (1 <= n)%nat -> trace_ok n t -> answers_in_order_cnt t ->
  ((j < count_occ_b (is_count_out id) (outs (init n) t))%nat <->
   forall i, (i < n)%nat -> (j < length (cnt_replies_of id i t))%nat).
Proof.
  intros Hn Ht Ho. rewrite (cnt_count n t id Ht). apply (kinv_count _ _ _ _ _ _ _ _ _ (cnt_kinv n t id Hn Ht Ho)).
Qed.

(** never more COUNT replies than COUNTs *)
Theorem cnt_le_requests n t id :
  (1 <= n)%nat -> trace_ok n t -> answers_in_order_cnt t ->
  (count_occ_b (is_count_out id) (outs (init n) t) <= count_occ_b (is_ccount_of id) t)%nat.
Proof.
  intros Hn Ht Ho. rewrite (cnt_count n t id Ht). apply (kinv_le_reqs _ _ _ _ _ _ _ _ (cnt_kinv n t id Hn Ht Ho)).
Qed.

(** every child answered every COUNT [id]: exactly one COUNT reply per COUNT *)
Theorem count_exactly_one n t id :
  (1 <= n)%nat -> trace_ok n t -> answers_in_order_cnt t ->
  (forall i, (i < n)%nat -> length (cnt_replies_of id i t) = count_occ_b (is_ccount_of id) t) ->
  count_occ_b (is_count_out id) (outs (init n) t) = count_occ_b (is_ccount_of id) t.
Proof.
  intros Hn Ht Ho Hall. pose proof (cnt_le_requests n t id Hn Ht Ho) as Hle.
  destruct (Nat.eq_dec (count_occ_b (is_count_out id) (outs (init n) t)) (count_occ_b (is_ccount_of id) t)) as [E|N]; [exact E|].
  exfalso. assert (Hlt : (count_occ_b (is_count_out id) (outs (init n) t) < count_occ_b (is_count_out id) (outs (init n) t))%nat); [|lia].
  apply (cnt_replies_count n t id _ Hn Ht Ho). intros i Hi. rewrite (Hall i Hi). lia.
Qed.

(** the COUNT reply output at a step is the [j]-th for its id, [j] the number of COUNT replies
    for that id before; it is merged from the children's [j]-th replies, the
    last of which arrived at this step *)
Theorem count_at n w1 x w2 r :
  (1 <= n)%nat -> trace_ok n (w1 ++ x :: w2) -> answers_in_order_cnt (w1 ++ x :: w2) ->
  nth_error (outs (init n) (w1 ++ x :: w2)) (length w1) = Some (Some (SCount r)) ->
  let id := c_sub r in
  let j := count_occ_b (is_count_out id) (outs (init n) w1) in
  (exists i, (i < n)%nat /\ nth_error (cnt_replies_of id i w1) j = None) /\
  exists xs, cnt_column n id j (w1 ++ [x]) = List.map Some xs /\ length xs = n /\
             cnt_merge (List.map Some xs) = Some r /\ (forall a, In a xs -> c_sub a = id).
Proof.
  intros Hn Ht Ho Hnth id j.
  assert (Ht1 : trace_ok n (w1 ++ [x])) by now apply (trace_ok_mid n w1 x w2).
  assert (Ho1 : answers_in_order_cnt (w1 ++ [x])).
  { apply (answers_in_order_cnt_prefix _ w2). now rewrite <- app_assoc. }
  assert (Htw : trace_ok n w1) by now apply (trace_ok_prefix n w1 [x]).
  assert (How : answers_in_order_cnt w1) by now apply (answers_in_order_cnt_prefix w1 [x]).
  rewrite nth_error_outs_mid in Hnth. inversion Hnth as [Hout]. clear Hnth.
  pose proof (reach_ok n w1 Htw) as Hs.
  assert (Hx : input_ok n x) by (apply trace_ok_snoc in Ht1; tauto).
  destruct (cnt_run_sim n id w1 (init n) (init_ok n) Htw) as [P _].
  change (cs_ent (st_cs (init n)) id) with (@None (Z * list (list cntm))) in P.
  destruct (cnt_step_sim n id (final (init n) w1) x Hs Hx) as [_ O]. rewrite Hout, P in O.
  cbn [proj_cnt] in O. unfold id in O at 1. rewrite str_eqb_refl in O. fold id in O.
  pose proof (cnt_kinv n (w1 ++ [x]) id Hn Ht1 Ho1) as K1. unfold cnt_krun in K1. rewrite krun_snoc in K1. cbn [fst snd] in K1.
  pose proof (cnt_kinv n w1 id Hn Htw How) as K0.
  fold (cnt_krun n id None w1) in K1. fold (cnt_kstep n id (fst (cnt_krun n id None w1)) x) in K1.
  destruct (snd (cnt_kstep n id (fst (cnt_krun n id None w1)) x)) as [l'|] eqn:Es; [|discriminate].
  cbn [merged_cnt] in O.
  assert (Ej : j = length (fulls (snd (cnt_krun n id None w1)))) by (unfold j; now apply cnt_count).
  split.
  - rewrite Ej. apply (kinv_next_missing _ _ _ _ _ _ _ _ K0).
  - assert (Hn1 : nth_error (fulls (snd (cnt_krun n id None w1) ++ [Some l'])) j = Some l').
    { rewrite fulls_app. cbn [fulls flat_map app]. rewrite Ej. apply nth_error_mid. }
    destruct (kinv_nth _ _ _ _ _ _ _ _ _ _ K1 Hn1) as [El _].
    destruct (kstep_full _ _ _ _ _ _ _ _ Es) as [xs [Exs _]].
    exists xs. split; [|split; [|split]].
    + unfold cnt_column. now rewrite <- El.
    + rewrite <- (map_length Some xs), <- Exs, El. apply column_length.
    + rewrite <- Exs. now symmetry.
    + intros a Ha. apply (column_key c_sub cnt_reply n id j (w1 ++ [x]) a). rewrite <- El, Exs. now apply in_map.
Qed.

(* ------------------------------------------------------------------ *)
(** * 5. The boolean form of [answers_in_order]; reply ids *)

Lemma in_orderb_sound t : forall pre,
  in_orderb pre t = true ->
  (forall p i m rest, t = p ++ Child i (SOk m) :: rest ->
     (length (ok_replies_of (ok_id m) i (pre ++ p)) < count_occ_b (is_cevent_of (ok_id m)) (pre ++ p))%nat) /\
  (forall p i m rest, t = p ++ Child i (SCount m) :: rest ->
     (length (cnt_replies_of (c_sub m) i (pre ++ p)) < count_occ_b (is_ccount_of (c_sub m)) (pre ++ p))%nat).
Proof.
  induction t as [|x t IH]; intros pre H.
  - split; intros p i m rest E; destruct p; discriminate.
  - cbn [in_orderb] in H. apply andb_true_iff in H as [H1 H2]. destruct (IH _ H2) as [I1 I2]. split.
    + intros p i m rest E. destruct p as [|y p]; cbn [app] in E; inversion E; subst.
      * rewrite app_nil_r. now apply Nat.ltb_lt in H1.
      * specialize (I1 p i m rest eq_refl). now rewrite <- app_assoc in I1.
    + intros p i m rest E. destruct p as [|y p]; cbn [app] in E; inversion E; subst.
      * rewrite app_nil_r. now apply Nat.ltb_lt in H1.
      * specialize (I2 p i m rest eq_refl). now rewrite <- app_assoc in I2.
Qed.

Lemma in_orderb_answers t : in_orderb [] t = true -> answers_in_order t.
Proof.
  intro H. destruct (in_orderb_sound t [] H) as [H1 H2]. split.
  - intros pre i m rest E. apply (H1 pre i m rest E).
  - intros pre i m rest E. apply (H2 pre i m rest E).
Qed.

(** an aggregated reply carries the id of the reply that completed it *)
Theorem reply_id_preserved n s i m o :
  state_ok n s -> (i < n)%nat ->
  (snd (merge_step s (Child i (SOk m))) = Some o -> exists r, o = SOk r /\ ok_id r = ok_id m) /\
  (forall c, snd (merge_step s (Child i (SCount c))) = Some o -> exists r, o = SCount r /\ c_sub r = c_sub c).
Proof.
  intros [Hd [_ [Ho Hc]]] Hi. unfold merge_step. rewrite Hd. split.
  - destruct (send_ok_spec n s i m Ho Hi) as [o' [E _]]. rewrite E. cbn [snd]. unfold out_ok.
    destruct (snd (w_put _ i m)) as [l'|] eqn:Ew; [|discriminate].
    destruct (ok_merge l') as [r|] eqn:Em; [|discriminate]. cbn [option_map]. intro H. inversion H; subst o.
    exists r. split; [reflexivity|]. apply (ok_merge_key _ l' r Em). intros a Ha.
    apply (w_put_full_In ok_id n (os_ent (st_os s) (ok_id m)) i m l' a); [apply (proj2 Ho (ok_id m)) | exact Ew | exact Ha].
  - intro c. destruct (send_count_spec n s i c Hc Hi) as [c' [E _]]. rewrite E. cbn [snd]. unfold out_cnt.
    destruct (snd (w_put _ i c)) as [l'|] eqn:Ew; [|discriminate].
    destruct (cnt_merge l') as [r|] eqn:Em; [|discriminate]. cbn [option_map]. intro H. inversion H; subst o.
    exists r. split; [reflexivity|]. apply (cnt_merge_key _ l' r Em). intros a Ha.
    apply (w_put_full_In c_sub n (cs_ent (st_cs s) (c_sub c)) i c l' a); [apply (proj2 Hc (c_sub c)) | exact Ew | exact Ha].
Qed.
