(* SqlProofs.v — C06 / C14: top of the proof development for the SQLite store.
   - [query_correct_history]: the core theorem over batch histories
   - text pinning: each SQL statement / DDL the relational model was written
     for is compared with the text regenerated from /repo (Gen/GenSql.v); any
     edit of the SQL breaks the corresponding [sql_text_pinned_*] lemma.
   The parts are in SqlLemmas (basics, guard facts), SqlInv (table invariant),
   SqlAbs (tables = stored events of the history), SqlSort, SqlQuery (query
   = specification), SqlC14 (idempotence, faults, reopen), SqlOracle (the
   boolean oracle reflects stored / deleted / live), SqlMerge (the merge test
   of the oracle reflects the merge statement: [query_specb_spec]), SqlHashed /
   SqlHashedProofs (the store keyed by hash values refines the model under
   [no_collision]). *)
From Moc Require Export Base Match MatchProofs Sql SqlSpec SqlLemmas SqlInv SqlAbs SqlSort SqlQuery SqlC14 SqlOracle SqlMerge SqlHashed SqlHashedProofs.
From Moc.Gen Require Import GenMsg GenSql.
Open Scope Z_scope.

(** the admission gate's guarantees for a whole history *)
Definition gate_valid (es : list event) : Prop := Forall (fun e => gate_valid_event e = true) es.

(** C06 query_correct over batch histories, core form.  [no_collision] is the
    condition under which the model (rows keyed by hash pre-images) is
    faithful to the store keyed by hash values: it is not needed for the
    statement about the model itself, and it is what transfers the statement
    to the hashed store ([hashed_store_refines], [hashed_query_correct]). *)
Theorem query_correct_history
  (xx : Z -> str -> Z) (md5 : str -> str) seed (h : list (list event)) fs maxLimit :
  no_collision xx md5 seed (concat h) fs ->
  gate_valid (concat h) -> ids_functional (concat h) ->
  e_refs_canonical (concat h) = true -> a_refs_scoped (concat h) = true ->
  k5_counted (concat h) ->
  fs <> [] -> Forall (fun f => gate_valid_filter f = true) fs -> 0 < maxLimit <= NoLimit ->
  limits_agree fs maxLimit ->
  exists out, query (run seed empty_db h) fs maxLimit = Some out /\ query_spec (concat h) fs maxLimit out.
Proof.
  intros _ G F Ec As Kc Ne Gf Hml La.
  apply (query_correct_core seed (concat h)); auto.
  apply abs_run; assumption.
Qed.

(** with an empty filter list the generated query has no WHERE clause: every
    row is returned, tombstoned or not (the gate never passes an empty list) *)
Lemma query_empty_filter_list s ml :
  query s [] ml = Some (List.map (fun rp => event_of_row (fst rp) (snd rp))
                          (apply_limit (goqu_limit_of (Some (to_int64 ml)) ml)
                             (sort_desc (fun rp => r_ts (fst rp)) (join_payloads s (d_events s))))).
Proof. reflexivity. Qed.

(* ------------------------------------------------------------------ *)
(** * text pinning *)

From Coq Require String.
Import String.StringSyntax.
Local Open Scope string_scope.

Definition pinned_insert_events : str :=
  str_of_string "insert into events ( event_key, id, pubkey, created_at, kind ) values (?, ?, ?, ?, ?) on conflict(event_key) do update set id = excluded.id, pubkey = excluded.pubkey, created_at = excluded.created_at, kind = excluded.kind where events.id <> excluded.id and ( events.kind = 0 or events.kind = 3 or (10000 <= events.kind and events.kind < 20000) or (30000 <= events.kind and events.kind < 40000) ) and events.created_at < excluded.created_at".

Lemma sql_text_pinned_insert_events : g_sql_text_insert_events = pinned_insert_events.
Proof. vm_compute. reflexivity. Qed.

Definition pinned_insert_payloads : str :=
  str_of_string "insert into event_payloads ( event_key, tags, content, sig ) values (?, ?, ?, ?)".

Lemma sql_text_pinned_insert_payloads : g_sql_text_insert_payloads = pinned_insert_payloads.
Proof. vm_compute. reflexivity. Qed.

Definition pinned_insert_tags : str :=
  str_of_string "insert into event_tags ( tag_hash, created_at, event_key ) values (?, ?, ?)".

Lemma sql_text_pinned_insert_tags : g_sql_text_insert_tags = pinned_insert_tags.
Proof. vm_compute. reflexivity. Qed.

Definition pinned_insert_dkeys : str :=
  str_of_string "insert into deleted_event_keys ( event_key, pubkey ) values (?, ?) on conflict(event_key, pubkey) do nothing".

Lemma sql_text_pinned_insert_dkeys : g_sql_text_insert_dkeys = pinned_insert_dkeys.
Proof. vm_compute. reflexivity. Qed.

Definition pinned_insert_dids : str :=
  str_of_string "insert into deleted_event_ids ( id, pubkey ) values (?, ?) on conflict(id, pubkey) do nothing".

Lemma sql_text_pinned_insert_dids : g_sql_text_insert_dids = pinned_insert_dids.
Proof. vm_compute. reflexivity. Qed.

Definition pinned_ddls : list str :=
  [ str_of_string "create table if not exists xxhash_seed ( seed integer not null primary key ) without rowid, strict;";
    str_of_string "create table if not exists events ( event_key integer not null primary key, id blob not null, pubkey blob not null, created_at integer not null, kind integer not null ) strict;";
    str_of_string "create index if not exists idx_events_created_at on events (created_at desc);";
    str_of_string "create index if not exists idx_events_id_created_at on events (id, created_at desc);";
    str_of_string "create index if not exists idx_events_pubkey_created_at on events (pubkey, created_at desc);";
    str_of_string "create index if not exists idx_events_kind_created_at on events (kind, created_at desc);";
    str_of_string "create table if not exists event_payloads ( event_key integer not null primary key, tags blob not null, content text not null, sig blob not null ) strict;";
    str_of_string "create trigger if not exists tr_event_payloads_update after update on events begin delete from event_payloads where event_key = old.event_key; end;";
    str_of_string "create table if not exists event_tags ( tag_hash blob not null, created_at integer not null, event_key integer not null, constraint pk_event_tags primary key (tag_hash, created_at desc, event_key) ) without rowid, strict;";
    str_of_string "create index if not exists idx_event_tags_event_key on event_tags (event_key);";
    str_of_string "create trigger if not exists tr_event_tags_update after update on events begin delete from event_tags where event_key = old.event_key; end;";
    str_of_string "create table if not exists deleted_event_keys ( event_key integer not null, pubkey blob not null, constraint pk_deleted_event_keys primary key (event_key, pubkey) ) without rowid, strict;";
    str_of_string "create table if not exists deleted_event_ids ( id blob not null, pubkey blob not null, constraint pk_deleted_event_ids primary key (id, pubkey) ) without rowid, strict;" ].

Lemma sql_text_pinned_ddls : g_sql_text_ddls = pinned_ddls.
Proof. vm_compute. reflexivity. Qed.

Definition pinned_pragmas : list str :=
  [ str_of_string "pragma recursive_triggers = on;";
    str_of_string "pragma foreign_keys = on;" ].

Lemma sql_text_pinned_pragmas : g_sql_text_pragmas = pinned_pragmas.
Proof. vm_compute. reflexivity. Qed.

Definition pinned_seed : list str :=
  [ str_of_string "select seed from xxhash_seed";
    str_of_string "insert into xxhash_seed (seed) values (?)" ].

Lemma sql_text_pinned_seed : g_sql_text_seed = pinned_seed.
Proof. vm_compute. reflexivity. Qed.
