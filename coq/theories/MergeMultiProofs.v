(* MergeMultiProofs.v — C08/C09 for a handler that serves several sessions
   (MergeMulti.v): an observation that the product of k session models
   reproduces is, projected onto every session, an observation the session
   model reproduces; hence the per-session oracles accept it. *)
From Moc Require Import Base Match MatchProofs Merge MergeProofs MergeAggProofs MergeOracleProofs MergeMulti.
Open Scope Z_scope.

Lemma set_nth_length {A} j (v : A) l : length (set_nth j v l) = length l.
Proof.
  revert j. induction l as [|x l IH]; intros [|j]; cbn; auto.
Qed.

Lemma nth_error_set_nth_same {A} j (v : A) l :
  (j < length l)%nat -> nth_error (set_nth j v l) j = Some v.
Proof.
  revert j. induction l as [|x l IH]; intros [|j] H; cbn in *; try lia; auto.
  apply IH. lia.
Qed.

Lemma nth_error_set_nth_other {A} i j (v : A) l :
  i <> j -> nth_error (set_nth j v l) i = nth_error l i.
Proof.
  revert i j. induction l as [|x l IH]; intros [|i] [|j] H; cbn; auto; try congruence.
Qed.

Lemma project_cons_same j x obs t :
  project j ((j, (x, obs)) :: t) = (x, obs) :: project j t.
Proof. unfold project. cbn. now rewrite Nat.eqb_refl. Qed.

Lemma project_cons_other i j x obs t :
  i <> j -> project j ((i, (x, obs)) :: t) = project j t.
Proof.
  intro H. unfold project. cbn. destruct (Nat.eqb i j) eqn:E; [|reflexivity].
  apply Nat.eqb_eq in E. congruence.
Qed.

(** the product model agrees with a history of several sessions  ->  the
    session model agrees with what each session saw of it *)
Lemma multi_agrees_project t : forall ss,
  multi_agrees ss t = true ->
  forall j s, nth_error ss j = Some s -> model_agrees s (project j t) = true.
Proof.
  induction t as [|[i [x obs]] t IH]; intros ss H j s Hj; [reflexivity|].
  cbn [multi_agrees] in H.
  destruct (nth_error ss i) as [s0|] eqn:Ei; [|discriminate].
  destruct (merge_step s0 x) as [s1 o] eqn:Es.
  apply andb_true_iff in H as [H H3]. apply andb_true_iff in H as [H1 H2].
  assert (Li : (i < length ss)%nat) by (apply nth_error_Some; congruence).
  destruct (Nat.eq_dec i j) as [->|Ne].
  - rewrite project_cons_same. assert (s0 = s) by congruence. subst s0.
    cbn [model_agrees]. rewrite Es, H1, H2. cbn [andb].
    apply (IH _ H3). now apply nth_error_set_nth_same.
  - rewrite project_cons_other by exact Ne.
    apply (IH _ H3). rewrite nth_error_set_nth_other by congruence. exact Hj.
Qed.

Lemma multi_agrees_range t : forall ss,
  multi_agrees ss t = true -> sessions_in_range (length ss) t = true.
Proof.
  induction t as [|[i [x obs]] t IH]; intros ss H; [reflexivity|].
  cbn [multi_agrees] in H.
  destruct (nth_error ss i) as [s0|] eqn:Ei; [|discriminate].
  destruct (merge_step s0 x) as [s1 o] eqn:Es.
  apply andb_true_iff in H as [_ H3].
  unfold sessions_in_range. cbn [forallb fst]. apply andb_true_iff. split.
  - apply Nat.ltb_lt. apply nth_error_Some. congruence.
  - specialize (IH _ H3). now rewrite set_nth_length in IH.
Qed.

Lemma nth_error_repeat {A} (a : A) k j : (j < k)%nat -> nth_error (repeat a k) j = Some a.
Proof.
  revert j. induction k as [|k IH]; intros [|j] H; cbn; try lia; auto. apply IH. lia.
Qed.

Lemma project_inputs_ok n j t :
  (forall p, In p t -> input_ok n (fst (snd p))) -> trace_ok n (List.map fst (project j t)).
Proof.
  intro H. unfold trace_ok, project. apply Forall_forall. intros x Hx.
  apply in_map_iff in Hx as [q [<- Hq]]. apply in_map_iff in Hq as [p [<- Hp]].
  apply filter_In in Hp as [Hp _]. now apply H.
Qed.

Section Lift.
  (** a single-session oracle that accepts whatever the session model reproduces *)
  Variable oracle : nat -> otrace -> bool.
  Variable n : nat.
  Hypothesis Hor : forall t, trace_ok n (List.map fst t) -> model_agrees (init n) t = true -> oracle n t = true.

  Lemma lift_agreement k t :
    (forall p, In p t -> input_ok n (fst (snd p))) ->
    multi_agrees (repeat (init n) k) t = true ->
    sessions_in_range k t && forallb (fun j => oracle n (project j t)) (seq 0 k) = true.
  Proof.
    intros Hok Ha. apply andb_true_iff. split.
    - pose proof (multi_agrees_range t _ Ha) as R. now rewrite repeat_length in R.
    - apply forallb_forall. intros j Hj. apply in_seq in Hj.
      apply Hor; [now apply project_inputs_ok|].
      apply (multi_agrees_project t _ Ha). apply nth_error_repeat. lia.
  Qed.
End Lift.

(** C08 and C09 for every session of a handler with k sessions *)
Theorem multi_agreement_implies_c08_oracle n k t :
  (1 <= n)%nat -> (forall p, In p t -> input_ok n (fst (snd p))) ->
  multi_agrees (repeat (init n) k) t = true -> c08_multi_oracle n k t = true.
Proof.
  intros Hn Hok Ha. unfold c08_multi_oracle.
  apply (lift_agreement c08_oracle n); auto.
  intros t0 H1 H2. now apply agreement_implies_c08_oracle.
Qed.

Theorem multi_agreement_implies_c09_oracle n k t :
  (1 <= n)%nat -> (forall p, In p t -> input_ok n (fst (snd p))) ->
  multi_agrees (repeat (init n) k) t = true -> c09_multi_oracle n k t = true.
Proof.
  intros Hn Hok Ha. unfold c09_multi_oracle.
  apply (lift_agreement c09_oracle n); auto.
  intros t0 H1 H2. now apply agreement_implies_c09_oracle.
Qed.

(** one session: the product model and the per-session oracles are the ones of Merge.v *)
Lemma project_single t : project 0 (List.map (fun p => (O, p)) t) = t.
Proof.
  unfold project. induction t as [|p t IH]; [reflexivity|]. cbn. now rewrite IH.
Qed.

Lemma multi_agrees_single t : forall s,
  multi_agrees [s] (List.map (fun p => (O, p)) t) = model_agrees s t.
Proof.
  induction t as [|[x obs] t IH]; intro s; [reflexivity|].
  cbn [List.map multi_agrees nth_error model_agrees].
  destruct (merge_step s x) as [s1 o]. cbn [set_nth]. now rewrite IH.
Qed.
