(* SqlLemmas.v — basic facts used by the C06 / C14 proofs: boolean equalities,
   decimal rendering (injective, colon-free), strings.Split on ":", hex blobs,
   and one characterising lemma per generated guard of GenSql. *)
From Coq Require Import Ascii DecimalString Decimal DecimalZ DecimalPos DecimalFacts.
From Moc Require Import Base Match Sql SqlSpec.
From Moc.Gen Require Import GenMsg GenSql.
Open Scope Z_scope.

(* ------------------------------------------------------------------ *)
(** * Boolean connectives and equalities *)

Lemma land_andb (a b : bool) : (a &&& b) = (a && b).
Proof. destruct a; reflexivity. Qed.
Lemma lor_orb (a b : bool) : (a ||| b) = (a || b).
Proof. destruct a; reflexivity. Qed.

Lemma land_true (a b : bool) : (a &&& b) = true <-> a = true /\ b = true.
Proof. destruct a, b; simpl; intuition congruence. Qed.
Lemma lor_true (a b : bool) : (a ||| b) = true <-> a = true \/ b = true.
Proof. destruct a, b; simpl; intuition congruence. Qed.

Lemma ekey_eqb_eq a b : ekey_eqb a b = true <-> a = b.
Proof.
  destruct a as [s1 t1 i1|s1 p1 a1], b as [s2 t2 i2|s2 p2 a2]; simpl;
    try (split; [discriminate | intro E; inversion E]).
  - rewrite !land_true, !Z.eqb_eq, str_eqb_eq. split.
    + intros [[-> ->] ->]. reflexivity.
    + intro E; inversion E; subst; auto.
  - rewrite !land_true, Z.eqb_eq, !str_eqb_eq. split.
    + intros [[-> ->] ->]. reflexivity.
    + intro E; inversion E; subst; auto.
Qed.

Lemma ekey_eqb_refl a : ekey_eqb a a = true.
Proof. now apply ekey_eqb_eq. Qed.

Lemma ekey_eqb_neq a b : ekey_eqb a b = false <-> a <> b.
Proof.
  split; intro H.
  - intro E. apply ekey_eqb_eq in E. congruence.
  - destruct (ekey_eqb a b) eqn:E; [apply ekey_eqb_eq in E; contradiction | reflexivity].
Qed.

Lemma ekey_eqb_sym a b : ekey_eqb a b = ekey_eqb b a.
Proof.
  destruct (ekey_eqb a b) eqn:E.
  - apply ekey_eqb_eq in E; subst. now rewrite ekey_eqb_refl.
  - symmetry. apply ekey_eqb_neq. apply ekey_eqb_neq in E. congruence.
Qed.

Definition ekey_dec (a b : ekey) : {a = b} + {a <> b}.
Proof.
  destruct (ekey_eqb a b) eqn:E; [left; now apply ekey_eqb_eq | right; now apply ekey_eqb_neq].
Defined.

Lemma mem_key_In k l : mem_key k l = true <-> In k l.
Proof.
  unfold mem_key. rewrite existsb_exists. split.
  - intros [y [Hy E]]. apply ekey_eqb_eq in E. now subst.
  - intro H. exists k. split; [assumption | apply ekey_eqb_refl].
Qed.

Lemma ev_eqb_event_eqb a b : ev_eqb a b = event_eqb a b.
Proof.
  unfold ev_eqb, event_eqb. rewrite !land_andb.
  destruct (str_eqb (ev_id a) (ev_id b)), (ev_ts a =? ev_ts b), (ev_kind a =? ev_kind b),
    (str_eqb (ev_pk a) (ev_pk b)), (str_eqb (ev_content a) (ev_content b)),
    (list_eqb tag_eqb (ev_tags a) (ev_tags b)), (str_eqb (ev_sig a) (ev_sig b)); reflexivity.
Qed.

Lemma ev_eqb_eq a b : ev_eqb a b = true <-> a = b.
Proof. rewrite ev_eqb_event_eqb. apply event_eqb_eq. Qed.

Lemma ev_eqb_refl a : ev_eqb a a = true.
Proof. now apply ev_eqb_eq. Qed.

Lemma ev_eqb_neq a b : ev_eqb a b = false <-> a <> b.
Proof.
  split; intro H.
  - intro E. apply ev_eqb_eq in E. congruence.
  - destruct (ev_eqb a b) eqn:E; [apply ev_eqb_eq in E; contradiction | reflexivity].
Qed.

Definition event_dec (a b : event) : {a = b} + {a <> b}.
Proof.
  destruct (ev_eqb a b) eqn:E; [left; now apply ev_eqb_eq | right; now apply ev_eqb_neq].
Defined.

Lemma mem_event_In x l : mem_event x l = true <-> In x l.
Proof.
  unfold mem_event. rewrite existsb_exists. split.
  - intros [y [Hy E]]. apply ev_eqb_eq in E. now subst.
  - intro H. exists x. split; [assumption | apply ev_eqb_refl].
Qed.

Lemma mem_event_false x l : mem_event x l = false <-> ~ In x l.
Proof.
  rewrite <- mem_event_In. destruct (mem_event x l); split; intro H.
  - discriminate.
  - exfalso. now apply H.
  - intro; discriminate.
  - reflexivity.
Qed.

Lemma trow_eqb_eq a b : trow_eqb a b = true <-> a = b.
Proof.
  unfold trow_eqb. rewrite !land_true, str_eqb_eq, Z.eqb_eq, ekey_eqb_eq.
  destruct a, b; simpl. split.
  - intros [[-> ->] ->]. reflexivity.
  - intro E; inversion E; subst; auto.
Qed.

Lemma dkey_eqb_eq a b : dkey_eqb a b = true <-> a = b.
Proof.
  unfold dkey_eqb. rewrite land_true, str_eqb_eq, ekey_eqb_eq. destruct a, b; simpl. split.
  - intros [-> ->]. reflexivity.
  - intro E; inversion E; subst; auto.
Qed.

Lemma did_eqb_eq a b : did_eqb a b = true <-> a = b.
Proof.
  unfold did_eqb. rewrite land_true, !str_eqb_eq. destruct a, b; simpl. split.
  - intros [-> ->]. reflexivity.
  - intro E; inversion E; subst; auto.
Qed.

Lemma saddr_eqb_eq a b : saddr_eqb a b = true <-> a = b.
Proof.
  destruct a as [k1 p1|k1 p1 d1], b as [k2 p2|k2 p2 d2]; simpl;
    try (split; [discriminate | intro E; inversion E]).
  - rewrite land_true, Z.eqb_eq, str_eqb_eq. split.
    + intros [-> ->]. reflexivity.
    + intro E; inversion E; subst; auto.
  - rewrite !land_true, Z.eqb_eq, !str_eqb_eq. split.
    + intros [[-> ->] ->]. reflexivity.
    + intro E; inversion E; subst; auto.
Qed.

Lemma has_address_iff a y : has_address a y = true <-> address y = Some a.
Proof.
  unfold has_address. destruct (address y) as [b|].
  - rewrite saddr_eqb_eq. split; [intros ->; reflexivity | intro E; now inversion E].
  - split; discriminate.
Qed.

(* ------------------------------------------------------------------ *)
(** * generic list facts *)

Lemma existsb_eqb_In {A} (eqb : A -> A -> bool) (Heq : forall a b, eqb a b = true <-> a = b) x l :
  existsb (eqb x) l = true <-> In x l.
Proof.
  rewrite existsb_exists. split.
  - intros [y [Hy E]]. apply Heq in E. now subst.
  - intro H. exists x. split; [assumption | now apply Heq].
Qed.

Lemma dedup_In {A} (eqb : A -> A -> bool) (Heq : forall a b, eqb a b = true <-> a = b) l :
  forall seen x, In x (dedup eqb l seen) <-> In x l /\ ~ In x seen.
Proof.
  induction l as [|y l IH]; intros seen x; simpl.
  - tauto.
  - destruct (existsb (eqb y) seen) eqn:E.
    + apply (existsb_eqb_In eqb Heq) in E. rewrite IH. split.
      * intros [H1 H2]. auto.
      * intros [[->|H1] H2]; [contradiction | auto].
    + assert (Hn : ~ In y seen).
      { intro H. apply (existsb_eqb_In eqb Heq) in H. congruence. }
      simpl. rewrite IH. simpl. split.
      * intros [->|[H1 H2]]; [auto | split; [auto | intro; apply H2; auto]].
      * intros [[->|H1] H2]; [now left|].
        destruct (existsb (eqb y) [x]) eqn:E2.
        -- simpl in E2. rewrite orb_false_r in E2. apply Heq in E2. left; auto.
        -- right. split; [assumption|]. intros [->|H3]; [|contradiction].
           simpl in E2. rewrite orb_false_r in E2.
           assert (eqb x x = true) by now apply Heq. congruence.
Qed.

Lemma dedup_NoDup {A} (eqb : A -> A -> bool) (Heq : forall a b, eqb a b = true <-> a = b) l :
  forall seen, NoDup (dedup eqb l seen).
Proof.
  induction l as [|y l IH]; intros seen; simpl.
  - constructor.
  - destruct (existsb (eqb y) seen) eqn:E; [apply IH|].
    constructor; [|apply IH].
    intro H. apply (dedup_In eqb Heq) in H. destruct H as [_ H]. apply H. now left.
Qed.

Lemma filter_map_In {A B} (f : A -> option B) l y :
  In y (filter_map f l) <-> exists x, In x l /\ f x = Some y.
Proof.
  induction l as [|a l IH]; simpl.
  - split; [contradiction | intros [x [[] _]]].
  - destruct (f a) eqn:E; simpl; rewrite IH; split.
    + intros [->|[x [H1 H2]]]; [exists a; auto | exists x; auto].
    + intros [x [[->|H1] H2]]; [left; congruence | right; exists x; auto].
    + intros [x [H1 H2]]. exists x; auto.
    + intros [x [[->|H1] H2]]; [congruence | exists x; auto].
Qed.

Lemma set_add_In {A} (eqb : A -> A -> bool) (Heq : forall a b, eqb a b = true <-> a = b) x l y :
  In y (set_add eqb x l) <-> In y l \/ y = x.
Proof.
  unfold set_add. destruct (existsb (eqb x) l) eqn:E.
  - apply (existsb_eqb_In eqb Heq) in E. split; [auto | intros [H| ->]; auto].
  - rewrite in_app_iff. simpl. split; [intros [H|[H|[]]]; auto | intros [H|H]; auto].
Qed.

Lemma set_add_NoDup {A} (eqb : A -> A -> bool) (Heq : forall a b, eqb a b = true <-> a = b) x l :
  NoDup l -> NoDup (set_add eqb x l).
Proof.
  unfold set_add. destruct (existsb (eqb x) l) eqn:E; [auto|].
  intro ND. assert (Hn : ~ In x l).
  { intro H. apply (existsb_eqb_In eqb Heq) in H. congruence. }
  clear E. induction l as [|a l IH]; simpl.
  - constructor; [intros []|constructor].
  - inversion ND; subst. constructor.
    + rewrite in_app_iff. simpl. intros [H|[H|[]]]; [contradiction|]. subst. apply Hn. now left.
    + apply IH; [assumption|]. intro H. apply Hn. now right.
Qed.

Lemma fold_set_add_In {A} (eqb : A -> A -> bool) (Heq : forall a b, eqb a b = true <-> a = b) xs :
  forall l y, In y (fold_left (fun l x => set_add eqb x l) xs l) <-> In y l \/ In y xs.
Proof.
  induction xs as [|x xs IH]; intros l y; simpl.
  - tauto.
  - rewrite IH, (set_add_In eqb Heq). intuition (subst; auto).
Qed.

Lemma fold_set_add_NoDup {A} (eqb : A -> A -> bool) (Heq : forall a b, eqb a b = true <-> a = b) xs :
  forall l, NoDup l -> NoDup (fold_left (fun l x => set_add eqb x l) xs l).
Proof.
  induction xs as [|x xs IH]; intros l ND; simpl; [assumption|].
  apply IH. now apply set_add_NoDup.
Qed.

(** a list that ends in [e], split at some element *)
Lemma snoc_split {A} (es pre post : list A) (e x : A) :
  es ++ [e] = pre ++ x :: post ->
  (post = [] /\ x = e /\ pre = es) \/ (exists post', post = post' ++ [e] /\ es = pre ++ x :: post').
Proof.
  intro H. destruct post as [|p post] using rev_ind.
  - left. apply app_inj_tail in H. destruct H as [-> ->]. auto.
  - right. clear IHpost. exists post.
    replace (pre ++ x :: post ++ [p]) with ((pre ++ x :: post) ++ [p]) in H
      by (rewrite <- app_assoc; reflexivity).
    apply app_inj_tail in H. destruct H as [-> ->]. auto.
Qed.

(* ------------------------------------------------------------------ *)
(** * Decimal rendering *)

Lemma N_of_ascii_inj a b : N_of_ascii a = N_of_ascii b -> a = b.
Proof. intro H. rewrite <- (ascii_N_embedding a), <- (ascii_N_embedding b). now rewrite H. Qed.

Lemma str_of_string_inj a b : str_of_string a = str_of_string b -> a = b.
Proof.
  unfold str_of_string. intro H.
  assert (E : String.list_ascii_of_string a = String.list_ascii_of_string b).
  { revert H. generalize (String.list_ascii_of_string a) (String.list_ascii_of_string b).
    induction l as [|x l IH]; intros [|y l']; simpl; intro H; try discriminate; [reflexivity|].
    inversion H. f_equal; [now apply N_of_ascii_inj | now apply IH]. }
  rewrite <- (String.string_of_list_ascii_of_string a), <- (String.string_of_list_ascii_of_string b).
  now rewrite E.
Qed.

Lemma to_int_not_nil z : Z.to_int z <> Pos Nil /\ Z.to_int z <> Neg Nil.
Proof.
  destruct z as [|p|p]; simpl; split; try discriminate; intro E; inversion E as [E'];
    now apply Unsigned.to_uint_nonnil in E'.
Qed.

Lemma showZ_inj a b : showZ a = showZ b -> a = b.
Proof.
  unfold showZ. intro H. apply str_of_string_inj in H.
  apply to_int_inj.
  destruct (to_int_not_nil a) as [A1 A2]. destruct (to_int_not_nil b) as [B1 B2].
  pose proof (NilZero.isi _ A1 A2) as Ia. pose proof (NilZero.isi _ B1 B2) as Ib.
  rewrite H in Ia. rewrite Ia in Ib. now inversion Ib.
Qed.

Definition digit_or_minus (c : N) : Prop := (48 <= c <= 57)%N \/ c = 45%N.

Lemma uint_chars d : Forall digit_or_minus (str_of_string (NilEmpty.string_of_uint d)).
Proof.
  unfold str_of_string.
  induction d; simpl; constructor; try assumption; left; compute; split; discriminate.
Qed.

Lemma showZ_chars z : Forall digit_or_minus (showZ z).
Proof.
  unfold showZ, NilZero.string_of_int, NilZero.string_of_uint.
  destruct (Z.to_int z) as [d|d].
  - destruct d; try apply uint_chars.
    unfold str_of_string; simpl. constructor; [left; compute; split; discriminate | constructor].
  - unfold str_of_string. simpl. constructor; [right; reflexivity|].
    destruct d; try apply uint_chars.
    simpl. constructor; [left; compute; split; discriminate | constructor].
Qed.

Lemma showZ_colon_free z : colon_free (showZ z).
Proof.
  unfold colon_free. intro H. pose proof (showZ_chars z) as F.
  rewrite Forall_forall in F. apply F in H. unfold digit_or_minus, colon in H.
  destruct H as [[H1 H2]|H]; [|discriminate]. compute in H2. now apply H2.
Qed.

(** splitting at the first colon is unique *)
Lemma colon_prefix_inj (a a' r r' : str) :
  colon_free a -> colon_free a' -> a ++ colon :: r = a' ++ colon :: r' -> a = a' /\ r = r'.
Proof.
  revert a'. induction a as [|x a IH]; intros [|y a'] Ha Ha' H; simpl in H.
  - inversion H. auto.
  - inversion H; subst. exfalso. apply Ha'. now left.
  - inversion H; subst. exfalso. apply Ha. now left.
  - inversion H; subst. destruct (IH a') as [-> ->]; auto.
    + intro X. apply Ha. now right.
    + intro X. apply Ha'. now right.
Qed.

Lemma addr2_inj k pk k' : addr2 k pk = addr2 k' pk -> k = k'.
Proof.
  unfold addr2. simpl. intro H.
  apply colon_prefix_inj in H; try apply showZ_colon_free. destruct H as [H _]. now apply showZ_inj.
Qed.

Lemma addr3_inj k pk d k' d' : colon_free pk -> addr3 k pk d = addr3 k' pk d' -> k = k' /\ d = d'.
Proof.
  unfold addr3. simpl. intros Hpk H.
  apply colon_prefix_inj in H; try apply showZ_colon_free. destruct H as [H1 H2].
  apply showZ_inj in H1. apply colon_prefix_inj in H2; auto. tauto.
Qed.

Lemma addr2_addr3_neq k pk k' d' : colon_free pk -> addr2 k pk <> addr3 k' pk d'.
Proof.
  unfold addr2, addr3. simpl. intros Hpk H.
  apply colon_prefix_inj in H; try apply showZ_colon_free. destruct H as [_ H].
  assert (L : length pk = length (pk ++ colon :: d')) by now rewrite <- H.
  rewrite app_length in L. simpl in L. lia.
Qed.

(* ------------------------------------------------------------------ *)
(** * strings.Split(s, ":") *)

Lemma split_colon_nonempty s : split_colon s <> [].
Proof.
  induction s as [|c s IH]; simpl; [discriminate|].
  destruct (N.eqb c colon); [discriminate|]. destruct (split_colon s); [contradiction | discriminate].
Qed.

Lemma split_colon_prefix a r : colon_free a -> split_colon (a ++ colon :: r) = a :: split_colon r.
Proof.
  induction a as [|x a IH]; intro Ha; simpl.
  - reflexivity.
  - destruct (N.eqb x colon) eqn:E.
    + apply N.eqb_eq in E. subst. exfalso. apply Ha. now left.
    + rewrite IH; [reflexivity|]. intro X. apply Ha. now right.
Qed.

Lemma split_colon_addr3 k pk d :
  colon_free pk -> exists rest, split_colon (addr3 k pk d) = showZ k :: pk :: rest.
Proof.
  intro Hpk. unfold addr3. simpl.
  rewrite split_colon_prefix by apply showZ_colon_free.
  rewrite split_colon_prefix by assumption.
  eexists. reflexivity.
Qed.

(** the second element of the split is what lies between the first two
    colons; if the text has the form x:y... with colon-free x and y ends at
    a colon or at the end *)
Lemma split_colon_second (a b : str) rest :
  colon_free a -> colon_free b ->
  split_colon (a ++ colon :: b) = [a; b] /\
  split_colon (a ++ colon :: b ++ colon :: rest) = a :: b :: split_colon rest.
Proof.
  intros Ha Hb. split.
  - rewrite split_colon_prefix by assumption. f_equal.
    clear Ha. induction b as [|x b IH]; simpl; [reflexivity|].
    destruct (N.eqb x colon) eqn:E.
    + apply N.eqb_eq in E. subst. exfalso. apply Hb. now left.
    + rewrite IH; [reflexivity|]. intro X. apply Hb. now right.
  - rewrite split_colon_prefix by assumption. now rewrite split_colon_prefix.
Qed.

(* ------------------------------------------------------------------ *)
(** * hex blobs *)

Lemma even_len_even {A} (l : list A) : even_len l = Nat.even (length l).
Proof.
  assert (H : forall n (l : list A), (length l <= n)%nat -> even_len l = Nat.even (length l)).
  { induction n as [|n IH]; intros [|x [|y l']] Hl; simpl in *; try reflexivity; try lia.
    apply IH. lia. }
  now apply (H (length l)).
Qed.

Lemma lower_hex_char_hex c : lower_hex_char c = true -> is_hex_char c = true /\ lower_char c = c /\ c <> colon.
Proof.
  unfold lower_hex_char, is_hex_char, lower_char, colon. intro H.
  apply orb_true_iff in H. rewrite !andb_true_iff, !N.leb_le in H.
  repeat split.
  - destruct H as [[H1 H2]|[H1 H2]].
    + apply orb_true_iff; left. apply orb_true_iff; left. rewrite andb_true_iff, !N.leb_le. lia.
    + apply orb_true_iff; left. apply orb_true_iff; right. rewrite andb_true_iff, !N.leb_le. lia.
  - destruct ((65 <=? c)%N && (c <=? 70)%N) eqn:E; [|reflexivity].
    rewrite andb_true_iff, !N.leb_le in E. lia.
  - lia.
Qed.

Lemma lower_hex_forall s :
  forallb lower_hex_char s = true -> forallb is_hex_char s = true /\ hexl s = s /\ colon_free s.
Proof.
  induction s as [|c s IH]; simpl; intro H.
  - repeat split. intros [].
  - apply andb_true_iff in H. destruct H as [H1 H2].
    apply lower_hex_char_hex in H1. destruct H1 as [A [B C]].
    destruct (IH H2) as [A' [B' C']]. repeat split.
    + now rewrite A, A'.
    + unfold hexl in *. simpl. now rewrite B, B'.
    + intros [X|X]; [congruence | contradiction].
Qed.

Lemma lower_hex_ok n s :
  Nat.even n = true -> lower_hex n s = true -> hex_ok s = true /\ hexl s = s /\ colon_free s /\ length s = n.
Proof.
  unfold lower_hex, hex_ok. intros En H. apply land_true in H. destruct H as [H1 H2].
  apply Nat.eqb_eq in H1. apply lower_hex_forall in H2. destruct H2 as [A [B C]].
  repeat split; auto. apply land_true. split; [|assumption].
  rewrite even_len_even, H1. assumption.
Qed.

(* ------------------------------------------------------------------ *)
(** * tactics for generated guards *)

(** turn boolean comparisons on Z into propositions *)
Ltac zb :=
  repeat match goal with
         | H : negb _ = true |- _ => apply negb_true_iff in H
         | H : negb _ = false |- _ => apply negb_false_iff in H
         | H : (_ && _) = true |- _ => apply andb_true_iff in H; destruct H
         | H : (_ || _) = false |- _ => apply orb_false_iff in H; destruct H
         | H : (_ =? _) = true |- _ => apply Z.eqb_eq in H
         | H : (_ =? _) = false |- _ => apply Z.eqb_neq in H
         | H : (_ <? _) = true |- _ => apply Z.ltb_lt in H
         | H : (_ <? _) = false |- _ => apply Z.ltb_ge in H
         | H : (_ <=? _) = true |- _ => apply Z.leb_le in H
         | H : (_ <=? _) = false |- _ => apply Z.leb_gt in H
         | H : (_ >? _) = true |- _ => apply Z.gtb_lt in H
         | H : (_ >? _) = false |- _ => rewrite Z.gtb_ltb in H; apply Z.ltb_ge in H
         | H : (_ >=? _) = true |- _ => apply Z.geb_le in H
         | H : (_ >=? _) = false |- _ => rewrite Z.geb_leb in H; apply Z.leb_gt in H
         end.

(** decide a goal [g ... = b] about integer guards by case analysis on every
    comparison that occurs *)
Ltac zcases :=
  repeat match goal with
         | |- context [?a =? ?b] => let E := fresh "E" in destruct (a =? b) eqn:E
         | |- context [?a <? ?b] => let E := fresh "E" in destruct (a <? b) eqn:E
         | |- context [?a <=? ?b] => let E := fresh "E" in destruct (a <=? b) eqn:E
         | |- context [?a >? ?b] => let E := fresh "E" in destruct (a >? b) eqn:E
         | |- context [?a >=? ?b] => let E := fresh "E" in destruct (a >=? b) eqn:E
         end; simpl; zb; try reflexivity; try discriminate; try lia.

(* ------------------------------------------------------------------ *)
(** * One characterising lemma per generated guard *)

(** message.go EventType versus the kind ranges of the upsert's WHERE *)
Lemma g_event_type_cases k :
  (g_event_type k = 1 /\ sql_kind_replaceable k = false /\ sp_replaceable k = false /\ sp_ephemeral k = false /\ sp_addressable k = false) \/
  (g_event_type k = 2 /\ sql_kind_replaceable k = true /\ sp_replaceable k = true /\ sp_ephemeral k = false /\ sp_addressable k = false) \/
  (g_event_type k = 3 /\ sql_kind_replaceable k = false /\ sp_replaceable k = false /\ sp_ephemeral k = true /\ sp_addressable k = false) \/
  (g_event_type k = 4 /\ sql_kind_replaceable k = true /\ sp_replaceable k = false /\ sp_ephemeral k = false /\ sp_addressable k = true).
Proof.
  unfold g_event_type, sql_kind_replaceable, sp_replaceable, sp_ephemeral, sp_addressable.
  destruct (k =? 0) eqn:E0; destruct (k =? 3) eqn:E3;
  destruct (10000 <=? k) eqn:E1; destruct (k <? 20000) eqn:E2;
  destruct (20000 <=? k) eqn:E4; destruct (k <? 30000) eqn:E5;
  destruct (30000 <=? k) eqn:E6; destruct (k <? 40000) eqn:E7; simpl; zb; try lia; tauto.
Qed.

Lemma g_sql_unaffected_spec a : g_sql_unaffected a = (a =? 0).
Proof. reflexivity. Qed.

Lemma g_sql_no_params_spec n : g_sql_no_params n = (n =? 0).
Proof. reflexivity. Qed.

Lemma g_sql_no_d_tag_spec i : g_sql_no_d_tag i = (i <? 0).
Proof. reflexivity. Qed.

Lemma g_sql_d_has_value_spec n : g_sql_d_has_value n = (1 <? n).
Proof. unfold g_sql_d_has_value. now rewrite Z.gtb_ltb. Qed.

Lemma g_sql_tag_has_value_spec n : g_sql_tag_has_value n = (1 <? n).
Proof. unfold g_sql_tag_has_value. now rewrite Z.gtb_ltb. Qed.

Lemma g_sql_tag_empty_spec n : g_sql_tag_empty n = (n =? 0).
Proof. reflexivity. Qed.

Lemma g_sql_tag_name_len_bad_spec n : g_sql_tag_name_len_bad n = negb (n =? 1).
Proof. reflexivity. Qed.

Lemma g_sql_tag_name_not_letter_spec c : g_sql_tag_name_not_letter (Z.of_N c) = negb (ascii_letter c).
Proof.
  unfold g_sql_tag_name_not_letter, ascii_letter. f_equal.
  rewrite <- !(N2Z.inj_le) || idtac.
  replace 97 with (Z.of_N 97) by reflexivity. replace 122 with (Z.of_N 122) by reflexivity.
  replace 65 with (Z.of_N 65) by reflexivity. replace 90 with (Z.of_N 90) by reflexivity.
  repeat match goal with
         | |- context [Z.of_N ?a <=? Z.of_N ?b] =>
             replace (Z.of_N a <=? Z.of_N b) with (N.leb a b)
               by (destruct (N.leb_spec a b); symmetry; [apply Z.leb_le | apply Z.leb_gt]; lia)
         end.
  reflexivity.
Qed.

Lemma g_sql_dkey_not_k5_spec k : g_sql_dkey_not_k5 k = negb (k =? 5).
Proof. reflexivity. Qed.
Lemma g_sql_did_not_k5_spec k : g_sql_did_not_k5 k = negb (k =? 5).
Proof. reflexivity. Qed.
Lemma g_sql_dkey_skip_name_spec n : g_sql_dkey_skip_name n = negb (str_eqb n s_a).
Proof. reflexivity. Qed.
Lemma g_sql_did_skip_name_spec n : g_sql_did_skip_name n = negb (str_eqb n s_e).
Proof. reflexivity. Qed.
Lemma g_sql_dkey_elems_short_spec n : g_sql_dkey_elems_short n = (n <? 2).
Proof. reflexivity. Qed.

(** the two length guards of the tombstone builders: what holds both before
    and after the repair of F6 (a counted tag has at least two elements; a
    two-element tag is counted) *)
Lemma g_sql_dkey_skip_len_weak n : g_sql_dkey_skip_len n = false -> 2 <= n.
Proof. unfold g_sql_dkey_skip_len. intro H. zb. lia. Qed.
Lemma g_sql_did_skip_len_weak n : g_sql_did_skip_len n = false -> 2 <= n.
Proof. unfold g_sql_did_skip_len. intro H. zb. lia. Qed.
Lemma g_sql_dkey_skip_len_two : g_sql_dkey_skip_len 2 = false.
Proof. reflexivity. Qed.
Lemma g_sql_did_skip_len_two : g_sql_did_skip_len 2 = false.
Proof. reflexivity. Qed.

Lemma g_sql_limit_present_spec b : g_sql_limit_present b = b.
Proof. reflexivity. Qed.
Lemma g_sql_since_present_spec b : g_sql_since_present b = b.
Proof. reflexivity. Qed.
Lemma g_sql_until_present_spec b : g_sql_until_present b = b.
Proof. reflexivity. Qed.
Lemma g_sql_has_limit_spec l n : g_sql_has_limit l n = negb (l =? n).
Proof. reflexivity. Qed.
Lemma g_sql_since_ok_spec ts b : g_sql_since_ok ts b = (b <=? ts).
Proof. unfold g_sql_since_ok. now rewrite Z.geb_leb. Qed.
Lemma g_sql_until_ok_spec ts b : g_sql_until_ok ts b = (ts <=? b).
Proof. reflexivity. Qed.
Lemma g_sql_seed_generate_spec b : g_sql_seed_generate b = b.
Proof. reflexivity. Qed.
