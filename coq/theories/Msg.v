(* Msg.v — the client and server message types of the relay protocol as the
   Go code holds them (message.go), with boolean equalities.  Definitions and
   small reflection lemmas only; meant to be shared between groups. *)
From Moc Require Import Base.
Open Scope Z_scope.

(** client messages: [ClientEventMsg], [ClientReqMsg], [ClientCloseMsg],
    [ClientAuthMsg], [ClientCountMsg] *)
Inductive cmsg :=
| CEvent (e : event)
| CReq (sub : str) (fs : list rfilter)
| CClose (sub : str)
| CAuth (e : event)
| CCount (sub : str) (fs : list rfilter).

(** server messages: [ServerEOSEMsg], [ServerEventMsg], [ServerNoticeMsg],
    [ServerOKMsg] (id, accepted, machine readable prefix, message),
    [ServerAuthMsg], [ServerCountMsg] (count, [Approximate] pointer),
    [ServerClosedMsg] (subscription id, prefix, message) *)
Inductive smsg :=
| SEose (sub : str)
| SEvent (sub : str) (e : event)
| SNotice (msg : str)
| SOk (id : str) (accepted : bool) (prefix msg : str)
| SAuth (challenge : str)
| SCount (sub : str) (count : Z) (approx : option bool)
| SClosed (sub : str) (prefix msg : str).

(* ------------------------------------------------------------------ *)
(** * boolean equalities *)

Definition opt_eqb {A} (eqb : A -> A -> bool) (a b : option A) : bool :=
  match a, b with
  | None, None => true
  | Some x, Some y => eqb x y
  | _, _ => false
  end.

Lemma opt_eqb_eq {A} (eqb : A -> A -> bool) :
  (forall x y, eqb x y = true <-> x = y) ->
  forall a b, opt_eqb eqb a b = true <-> a = b.
Proof.
  intros H [x|] [y|]; simpl; split; intro E; try reflexivity; try discriminate.
  - apply H in E. now subst.
  - inversion E; subst. now apply H.
Qed.

Definition tagcond_eqb (a b : str * list str) : bool :=
  str_eqb (fst a) (fst b) && list_eqb str_eqb (snd a) (snd b).

Lemma tagcond_eqb_eq a b : tagcond_eqb a b = true <-> a = b.
Proof.
  destruct a as [n v], b as [n' v']; unfold tagcond_eqb; simpl.
  rewrite andb_true_iff, str_eqb_eq, (list_eqb_eq str_eqb str_eqb_eq).
  split; [intros [-> ->]; reflexivity | intro E; inversion E; auto].
Qed.

Definition rfilter_eqb (a b : rfilter) : bool :=
  opt_eqb (list_eqb str_eqb) (f_ids a) (f_ids b) &&
  opt_eqb (list_eqb str_eqb) (f_authors a) (f_authors b) &&
  opt_eqb (list_eqb Z.eqb) (f_kinds a) (f_kinds b) &&
  opt_eqb (list_eqb tagcond_eqb) (f_tags a) (f_tags b) &&
  opt_eqb Z.eqb (f_since a) (f_since b) &&
  opt_eqb Z.eqb (f_until a) (f_until b) &&
  opt_eqb Z.eqb (f_limit a) (f_limit b).

Lemma rfilter_eqb_eq a b : rfilter_eqb a b = true <-> a = b.
Proof.
  unfold rfilter_eqb. destruct a, b; simpl.
  rewrite !andb_true_iff.
  rewrite !(opt_eqb_eq _ (list_eqb_eq str_eqb str_eqb_eq)).
  rewrite (opt_eqb_eq _ (list_eqb_eq Z.eqb Z.eqb_eq)).
  rewrite (opt_eqb_eq _ (list_eqb_eq tagcond_eqb tagcond_eqb_eq)).
  rewrite !(opt_eqb_eq Z.eqb Z.eqb_eq).
  split.
  - intros [[[[[[-> ->] ->] ->] ->] ->] ->]. reflexivity.
  - intro E; inversion E; subst. repeat split.
Qed.

Definition filters_eqb : list rfilter -> list rfilter -> bool := list_eqb rfilter_eqb.

Lemma filters_eqb_eq a b : filters_eqb a b = true <-> a = b.
Proof. apply list_eqb_eq, rfilter_eqb_eq. Qed.

Definition cmsg_eqb (a b : cmsg) : bool :=
  match a, b with
  | CEvent e, CEvent e' => event_eqb e e'
  | CReq s fs, CReq s' fs' => str_eqb s s' && filters_eqb fs fs'
  | CClose s, CClose s' => str_eqb s s'
  | CAuth e, CAuth e' => event_eqb e e'
  | CCount s fs, CCount s' fs' => str_eqb s s' && filters_eqb fs fs'
  | _, _ => false
  end.

Lemma cmsg_eqb_eq a b : cmsg_eqb a b = true <-> a = b.
Proof.
  destruct a, b; simpl; try (split; intro; discriminate);
    rewrite ?andb_true_iff, ?event_eqb_eq, ?str_eqb_eq, ?filters_eqb_eq;
    (split; [intuition congruence | intro E; inversion E; auto]).
Qed.

Definition smsg_eqb (a b : smsg) : bool :=
  match a, b with
  | SEose s, SEose s' => str_eqb s s'
  | SEvent s e, SEvent s' e' => str_eqb s s' && event_eqb e e'
  | SNotice m, SNotice m' => str_eqb m m'
  | SOk i a p m, SOk i' a' p' m' => str_eqb i i' && Bool.eqb a a' && str_eqb p p' && str_eqb m m'
  | SAuth c, SAuth c' => str_eqb c c'
  | SCount s c a, SCount s' c' a' => str_eqb s s' && Z.eqb c c' && opt_eqb Bool.eqb a a'
  | SClosed s p m, SClosed s' p' m' => str_eqb s s' && str_eqb p p' && str_eqb m m'
  | _, _ => false
  end.

Lemma smsg_eqb_eq a b : smsg_eqb a b = true <-> a = b.
Proof.
  destruct a, b; simpl; try (split; intro; discriminate);
    rewrite ?andb_true_iff, ?event_eqb_eq, ?str_eqb_eq, ?Z.eqb_eq, ?Bool.eqb_true_iff,
            ?(opt_eqb_eq Bool.eqb Bool.eqb_true_iff);
    (split; [intuition congruence | intro E; inversion E; auto 6]).
Qed.

(** equality of server messages up to the free text of OK / CLOSED (the
    human readable part after the machine readable prefix) *)
Definition smsg_eqb_modtext (a b : smsg) : bool :=
  match a, b with
  | SOk i a p _, SOk i' a' p' _ => str_eqb i i' && Bool.eqb a a' && str_eqb p p'
  | SClosed s p _, SClosed s' p' _ => str_eqb s s' && str_eqb p p'
  | _, _ => smsg_eqb a b
  end.

(** the label of a message, as [ClientMsgLabel] / [ServerMsgLabel] *)
Definition cmsg_is_event (m : cmsg) : bool := match m with CEvent _ => true | _ => false end.
Definition smsg_is_event (m : smsg) : bool := match m with SEvent _ _ => true | _ => false end.
