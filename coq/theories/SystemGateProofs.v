(* SystemGateProofs.v — SYS: the hypothesis [cache_gated_from] of the system
   theorems (the cache child never answers with an event that carries an
   empty tag, and never panics) is what the admission gate guarantees: ids
   are functional, ids and pubkeys are colon-free, filters are
   decoder-producible, events carry no empty tag.  Uses C03 (the cache
   returns retained events only) and the reachability invariant of the cache. *)
From Coq Require Import List ZArith Lia Bool.
From Moc Require Import Base Match MatchProofs Msg Cache CacheSpec CacheInv CacheHyp CacheFacts CacheInvProofs
     CacheFindFacts CacheFindProofs CacheFindReach Handlers HandlersReach System SystemProofs.
Import ListNotations.
Open Scope Z_scope.

Lemma topn_all_sub R fs rs : Forall2 (topn R) fs rs -> forall r x, In r rs -> In x r -> In x R.
Proof.
  induction 1 as [|f r0 fs0 rs0 Ht F2 IH]; intros r x Hr Hx; [contradiction|].
  destruct Hr as [<-|Hr]; [|now apply (IH r)]. destruct Ht as [_ [Hsub _]]. now apply Hsub.
Qed.

(** everything the cache returns was sent to it *)
Lemma find_returns_sent cap h fs out :
  hist_ok h -> Forall filter_ok fs -> c_find (c_run cap h) fs = Ok out -> forall x, In x out -> In x h.
Proof.
  intros Hh Hfs Hf x Hx.
  destruct (find_correct_decl_reachable cap h fs out Hh Hfs Hf) as [_ [_ [rs [F2 Hin]]]].
  destruct (proj1 (Hin x) Hx) as [r [Hr Hxr]].
  pose proof (topn_all_sub _ _ _ F2 r x Hr Hxr) as HR.
  destruct Hh as [IF _]. destruct (run_inv_sub cap h IF) as [I [Sub _]].
  apply Sub. apply (inv_tree_In _ I). now rewrite <- (listing_is_retained _ I).
Qed.

Lemma run_snoc' cap h e : fst (c_add (c_run cap h) e) = c_run cap (h ++ [e]).
Proof. now rewrite run_snoc. Qed.

Lemma cache_gated_reachable cap : forall msgs h,
  hist_ok (h ++ events_of msgs) -> Forall tags_nonempty h -> Forall msg_ok msgs -> gated msgs ->
  cache_gated_from (c_run cap h) msgs.
Proof.
  induction msgs as [|m rest IH]; intros h Hh Ht Hok Hg; [exact I|].
  inversion Hok as [|? ? Hm Hok']; subst. inversion Hg as [|? ? Gm Hg']; subst.
  cbn [cache_gated_from].
  destruct m as [e|sub fs|sub|e|sub fs]; cbn [cache_base events_of flat_map app] in *.
  - destruct (c_add (c_run cap h) e) as [sa added] eqn:Ha. cbn [chan_items].
    assert (Es : sa = c_run cap (h ++ [e])) by (rewrite <- run_snoc', Ha; reflexivity). subst sa.
    split; [destruct added; repeat constructor|].
    apply IH; auto.
    + now rewrite <- app_assoc.
    + apply Forall_app. split; [exact Ht|]. constructor; [exact Gm | constructor].
  - destruct (c_find (c_run cap h) fs) as [evs|] eqn:Ef; [|exact I]. cbn [chan_items]. split.
    + apply Forall_app. split; [|repeat constructor]. apply Forall_forall. intros z Hz.
      apply in_map_iff in Hz as [x [<- Hx]]. cbn.
      pose proof (find_returns_sent cap h fs evs (hist_ok_prefix _ _ Hh) Hm Ef x Hx) as Hs.
      rewrite Forall_forall in Ht. now apply Ht.
    + now apply IH.
  - split; [constructor | now apply IH].
  - split; [constructor | now apply IH].
  - split; [repeat constructor | now apply IH].
Qed.

(** behind the gate the hypothesis of the system theorems holds ... *)
Theorem cache_gated_of_gate cap msgs :
  hist_ok (events_of msgs) -> Forall msg_ok msgs -> gated msgs -> cache_gated_from (c_empty cap) msgs.
Proof.
  intros Hh Hok Hg. change (c_empty cap) with (c_run cap []). apply cache_gated_reachable; auto.
Qed.

(** ... and the cache child does not panic, so the composed system stays
    alive under every schedule *)
Section Alive.
  Variable db : Type.
  Variable query : db -> list rfilter -> option (list event).
  Variable insert_batch : db -> list event -> db.
  Variable bulk buflen : nat.
  Variable dbok : db -> Prop.

  Lemma cache_total_reachable cap msgs h :
    hist_ok (h ++ events_of msgs) -> Forall msg_ok msgs ->
    forall pre m post, msgs = pre ++ m :: post ->
      forall s R, cache_session (c_run cap h) pre = Ok (s, R) -> cache_base s m <> Panic.
  Proof.
    intros Hh Hok pre m post E s R Hs.
    destruct (cache_session_total_reachable cap msgs h Hh Hok) as [s' [out Et]].
    rewrite E in Et. unfold cache_session in *.
    change (pre ++ m :: post) with (pre ++ [m] ++ post) in Et.
    rewrite simple_session_app, Hs in Et. cbn [app simple_session] in Et.
    intro Hp. rewrite Hp in Et. discriminate.
  Qed.

  Theorem gate_keeps_alive cap d0 msgs l :
    hist_ok (events_of msgs) -> Forall msg_ok msgs -> gated msgs ->
    store_ok db query insert_batch dbok -> dbok d0 ->
    y_dead (a_sys (sys_exec db query insert_batch bulk buflen cap d0 l msgs)) = false.
  Proof.
    intros Hh Hok Hg Hq Hd0. unfold sys_exec.
    pose proof (cache_gated_of_gate cap msgs Hh Hok Hg) as Hc.
    induction l as [|x l IH] using rev_ind; [reflexivity|].
    rewrite exec_snoc.
    pose proof (inv_run db query insert_batch bulk buflen dbok cap d0 msgs Hg Hq Hd0 Hc l IH) as I.
    destruct (sys_exec_from db query insert_batch bulk buflen (sys_init db cap d0 msgs) l) as [[s t] o] eqn:Ex.
    unfold a_sys in *. cbn [fst] in *. unfold sys_step_acc.
    destruct (sys_step db query insert_batch bulk buflen s x) as [[s' t1] o1] eqn:Es. cbn [fst].
    destruct (step_cases _ _ _ _ _ _ _ _ _ _ Es) as [_ _ _ _ _ _ _ _ _ _ Hdd _
                                                     |ord m rest c' ch0 sq' ch2 _ _ _ _ _ _ _ _ _ _ _ _ _ _ _ _ Hdd
                                                     |src m r _ _ _ _ _ _ _ _ _ _ _ _ Hdd
                                                     |ord m rest _ _ Hin Hcb _ _ _].
    - now rewrite Hdd.
    - exact Hdd.
    - exact Hdd.
    - exfalso. destruct (i_cs _ _ _ _ _ I) as [R0 [C1 _]]. unfold a_sys in C1. cbn [fst] in C1.
      pose proof (i_io _ _ _ _ _ I) as Hio. unfold a_sys in Hio. cbn [fst] in Hio. rewrite Hin in Hio.
      change (c_empty cap) with (c_run cap []) in C1.
      exact (cache_total_reachable cap msgs [] Hh Hok (y_done s) m rest (eq_sym Hio) (y_cache s) R0 C1 Hcb).
  Qed.
End Alive.
