(* Joint observations of the merge handler (definitions only; proofs in
   MergeJointProofs.v).  The harness's sentinel is itself a message that
   reaches the client, so a history observed step by step never shows two
   merged replies next to each other.  In a [jtrace] some runs of child
   messages were emitted without a sentinel in between: a group of inputs with
   ONE joint observation.  The model runs a group input by input; when the
   concatenation of its outputs is the observation, that is also how the
   observation is attributed to the steps for the oracle; when it is not, the
   whole observation is attributed to the last step of the group (and the
   model difference is reported). *)
From Moc Require Import Base Match Merge.
Open Scope Z_scope.

Definition jtrace := list (list input * list smsg).

Fixpoint run_group (s : state) (xs : list input) : state * otrace * bool :=
  match xs with
  | [] => (s, [], true)
  | x :: xs' =>
      let '(s1, o) := merge_step s x in
      let '(s2, r, ok) := run_group s1 xs' in
      (s2, (x, out_list o) :: r, negb (st_dead s1) && ok)
  end.

Definition attribute_to_last (xs : list input) (obs : list smsg) : otrace :=
  match rev xs with
  | [] => []
  | l :: r => rev ((l, obs) :: map (fun x => (x, @nil smsg)) r)
  end.

Fixpoint joint_split (s : state) (t : jtrace) : bool * otrace :=
  match t with
  | [] => (true, [])
  | (xs, obs) :: t' =>
      let '(s1, r, ok) := run_group s xs in
      let agree := ok && list_eqb smsg_eqb (concat (map snd r)) obs in
      let '(a', r') := joint_split s1 t' in
      (agree && a', (if agree then r else attribute_to_last xs obs) ++ r')
  end.

