(* GateProofs.v — C12: proofs about the session gate model of Gate.v.

   Layout: (1) the shapes regenerated from relay.go are pinned by reflexivity;
   (2) one characterising lemma per generated guard; (3) the decision chain
   (uses only the lemmas of (2)); (4) the session fold; (5) the write loop;
   (6) non-vacuity examples. *)
From Moc Require Import Base Gate.
From Moc.Gen Require Import GenGate.
Import String.StringSyntax.
Open Scope Z_scope.

(* ------------------------------------------------------------------ *)
(** * 1. The shape of serveRead and of the write arm, as regenerated *)

(** The tests in source order; every rejecting branch builds one text, sends
    one notice and returns nil; only *ClientEventMsg is verified; the message
    is forwarded once, after all tests. *)
Lemma gate_order_pinned :
  g_gate_order =
  [ gtxt "wait";
    gtxt "read";
    gtxt "if read_err { stop }";
    gtxt "if not_text { text; notice; return nil }";
    gtxt "if bad_json { text; notice; return nil }";
    gtxt "parse";
    gtxt "if parse_err { text; notice; return nil }";
    gtxt "if invalid { text(payload); notice; return nil }";
    gtxt "when *ClientEventMsg {";
    gtxt "verify";
    gtxt "if verify_err { text; notice; return nil }";
    gtxt "if not_authentic { text(msg.Event.ID); notice; return nil }";
    gtxt "}";
    gtxt "forward";
    gtxt "return nil" ].
Proof. vm_compute. reflexivity. Qed.

(** Every anchor was translated from the source on this run (none fell back
    to its pinned-tree meaning). *)
Lemma gate_all_translated : g_gate_untranslated = [].
Proof. reflexivity. Qed.

Lemma gate_write_order_pinned :
  g_gate_write_order =
  [ gtxt "marshal"; gtxt "if marshal_err { stop }"; gtxt "write"; gtxt "if write_err { stop }" ].
Proof. vm_compute. reflexivity. Qed.

Lemma gate_write_type_text : g_gate_write_type = 1.
Proof. reflexivity. Qed.

Lemma gate_notice_count : length g_gate_notice_fmts = 6%nat.
Proof. reflexivity. Qed.

(* ------------------------------------------------------------------ *)
(** * 2. One lemma per generated guard *)

Lemma g_gate_not_text_spec f : g_gate_not_text (typ_of f) = negb (fr_text f).
Proof. unfold g_gate_not_text, typ_of. destruct (fr_text f); reflexivity. Qed.

Lemma g_gate_bad_json_spec u j : g_gate_bad_json u j = negb (u && j).
Proof. unfold g_gate_bad_json. destruct u, j; reflexivity. Qed.

Lemma g_gate_parse_err_spec e : g_gate_parse_err e = e.
Proof. unfold g_gate_parse_err. destruct e; reflexivity. Qed.

Lemma g_gate_invalid_spec v : g_gate_invalid v = negb v.
Proof. unfold g_gate_invalid. destruct v; reflexivity. Qed.

Lemma g_gate_verify_err_spec e : g_gate_verify_err e = e.
Proof. unfold g_gate_verify_err. destruct e; reflexivity. Qed.

Lemma g_gate_not_authentic_spec a : g_gate_not_authentic a = negb a.
Proof. unfold g_gate_not_authentic. destruct a; reflexivity. Qed.

(* ------------------------------------------------------------------ *)
(** * 3. The decision chain *)

(** The chain, with the guards replaced by their meaning. *)
Lemma gate_unfold f :
  gate f =
  if negb (fr_text f) then Reject NBinary else
  if negb (fr_utf8 f && fr_json f) then Reject NBadJson else
  match fr_parse f with
  | None => Reject NParse
  | Some k =>
      if negb (fr_valid f) then Reject NInvalid else
      match k with
      | KEvent => match fr_verify f with
                  | VErr => Reject NInternal
                  | VOk false => Reject NNotAuthentic
                  | VOk true => Forward (fr_msg f)
                  end
      | _ => Forward (fr_msg f)
      end
  end.
Proof.
  unfold gate.
  rewrite (g_gate_not_text_spec f), (g_gate_bad_json_spec (fr_utf8 f) (fr_json f)),
    (g_gate_parse_err_spec (parse_err f)), (g_gate_invalid_spec (msg_valid f)),
    (g_gate_verify_err_spec (verify_err f)), (g_gate_not_authentic_spec (verify_ok f)).
  unfold parse_err, msg_valid, is_event, verify_err, verify_ok.
  destruct (fr_text f), (fr_utf8 f), (fr_json f); cbn [negb andb]; try reflexivity.
  destruct (fr_parse f) as [k|]; [|reflexivity].
  destruct (fr_valid f); cbn [negb]; [|reflexivity].
  destruct k; try reflexivity.
  destruct (fr_verify f) as [[|]|]; reflexivity.
Qed.

Lemma gate_forward_spec f : forwardable_spec f = true -> gate f = Forward (fr_msg f).
Proof.
  unfold forwardable_spec, authentic_if_event, is_some. rewrite gate_unfold.
  destruct (fr_text f), (fr_utf8 f), (fr_json f), (fr_parse f) as [k|], (fr_valid f);
    cbn [andb negb]; try discriminate.
  destruct k; try reflexivity.
  destruct (fr_verify f) as [[|]|]; try discriminate. reflexivity.
Qed.

Lemma gate_reject_spec f : forwardable_spec f = false -> exists c, gate f = Reject c.
Proof.
  unfold forwardable_spec, authentic_if_event, is_some. rewrite gate_unfold.
  destruct (fr_text f); cbn [andb negb]; [|eauto].
  destruct (fr_utf8 f); cbn [andb negb]; [|eauto].
  destruct (fr_json f); cbn [andb negb]; [|eauto].
  destruct (fr_parse f) as [k|]; cbn [andb negb]; [|eauto].
  destruct (fr_valid f); cbn [andb negb]; [|eauto].
  destruct k; try discriminate.
  destruct (fr_verify f) as [[|]|]; try discriminate; eauto.
Qed.

Lemma gate_forward_only_own f m : gate f = Forward m -> m = fr_msg f.
Proof.
  rewrite gate_unfold.
  destruct (negb (fr_text f)); [discriminate|].
  destruct (negb (fr_utf8 f && fr_json f)); [discriminate|].
  destruct (fr_parse f) as [k|]; [|discriminate].
  destruct (negb (fr_valid f)); [discriminate|].
  destruct k; try (intros H; inversion H; reflexivity).
  destruct (fr_verify f) as [[|]|]; try discriminate. intros H; inversion H; reflexivity.
Qed.

Lemma forwardable_spec_iff f :
  forwardable_spec f = true <->
  fr_text f = true /\ fr_utf8 f = true /\ fr_json f = true /\ (exists k, fr_parse f = Some k) /\
  fr_valid f = true /\ (fr_parse f = Some KEvent -> fr_verify f = VOk true).
Proof.
  unfold forwardable_spec, authentic_if_event, is_some. split.
  - intros H. repeat (apply andb_prop in H; destruct H as [H ?]).
    repeat split; try assumption.
    + destruct (fr_parse f) as [k|]; [eauto|discriminate].
    + intros E. rewrite E in *. destruct (fr_verify f) as [[|]|]; try discriminate. reflexivity.
  - intros (Ht & Hu & Hj & (k & Hk) & Hv & Ha). rewrite Ht, Hu, Hj, Hk, Hv. cbn [andb].
    destruct k; try reflexivity. rewrite (Ha Hk). reflexivity.
Qed.

Theorem gate_forward_iff f :
  gate f = Forward (fr_msg f) <->
  fr_text f = true /\ fr_utf8 f = true /\ fr_json f = true /\ (exists k, fr_parse f = Some k) /\
  fr_valid f = true /\ (fr_parse f = Some KEvent -> fr_verify f = VOk true).
Proof.
  rewrite <- forwardable_spec_iff. split.
  - intros H. destruct (forwardable_spec f) eqn:E; [reflexivity|].
    destruct (gate_reject_spec f E) as [c Hc]. congruence.
  - apply gate_forward_spec.
Qed.

(** The class of the rejection names the first failing test. *)
Theorem gate_reject_class f c :
  gate f = Reject c ->
  match c with
  | NBinary => fr_text f = false
  | NBadJson => fr_text f = true /\ (fr_utf8 f = false \/ fr_json f = false)
  | NParse => fr_text f = true /\ fr_utf8 f = true /\ fr_json f = true /\ fr_parse f = None
  | NInvalid => fr_text f = true /\ fr_utf8 f = true /\ fr_json f = true /\ fr_parse f <> None /\ fr_valid f = false
  | NInternal => fr_parse f = Some KEvent /\ fr_valid f = true /\ fr_verify f = VErr
  | NNotAuthentic => fr_parse f = Some KEvent /\ fr_valid f = true /\ fr_verify f = VOk false
  end.
Proof.
  rewrite gate_unfold.
  destruct (fr_text f); cbn [negb]; [|intros H; inversion H; reflexivity].
  destruct (fr_utf8 f); cbn [negb andb]; [|intros H; inversion H; auto].
  destruct (fr_json f); cbn [negb andb]; [|intros H; inversion H; auto].
  destruct (fr_parse f) as [k|]; [|intros H; inversion H; auto].
  destruct (fr_valid f); cbn [negb]; [|intros H; inversion H; repeat split; congruence].
  destruct k; try discriminate.
  destruct (fr_verify f) as [[|]|]; try discriminate; intros H; inversion H; auto.
Qed.

(* ------------------------------------------------------------------ *)
(** * 4. The session fold *)

Lemma step_live s f : live s = true -> live (step s f) = true.
Proof. intros L. unfold step, serve_read. rewrite L. destruct (gate f); reflexivity. Qed.

Lemma step_forward s f :
  live s = true -> forwardable_spec f = true ->
  step s f = mkSess (handler_input s ++ [fr_msg f]) (rejections s) true.
Proof. intros L F. unfold step, serve_read. rewrite L, (gate_forward_spec f F). reflexivity. Qed.

Lemma step_reject s f :
  live s = true -> forwardable_spec f = false ->
  exists c, gate f = Reject c /\
  step s f = mkSess (handler_input s) (rejections s ++ [mkRej (fr_msg f) c (notice_text c f)]) true.
Proof.
  intros L F. destruct (gate_reject_spec f F) as [c Hc]. exists c. split; [exact Hc|].
  unfold step, serve_read. rewrite L, Hc. reflexivity.
Qed.

(** Every frame adds exactly one item: to the handler's input if it is
    forwardable, to the rejections otherwise — never both, never two. *)
Theorem step_exactly_one s f :
  live s = true ->
  (forwardable_spec f = true /\
   handler_input (step s f) = handler_input s ++ [fr_msg f] /\ rejections (step s f) = rejections s)
  \/
  (forwardable_spec f = false /\
   handler_input (step s f) = handler_input s /\
   exists r, rejections (step s f) = rejections s ++ [r] /\ rj_msg r = fr_msg f /\ gate f = Reject (rj_class r)
             /\ rj_text r = notice_text (rj_class r) f).
Proof.
  intros L. destruct (forwardable_spec f) eqn:F.
  - left. rewrite (step_forward s f L F). auto.
  - right. destruct (step_reject s f L F) as (c & Hc & E). rewrite E. cbn.
    repeat split. eexists. split; [reflexivity|]. cbn. auto.
Qed.

Lemma fold_step_gen fs : forall s,
  live s = true ->
  let s' := fold_left step fs s in
  live s' = true /\
  handler_input s' = handler_input s ++ filter_map forwardable fs /\
  List.map rj_msg (rejections s') = List.map rj_msg (rejections s) ++ List.map fr_msg (rejected_frames fs) /\
  length (rejections s') = (length (rejections s) + length (rejected_frames fs))%nat.
Proof.
  induction fs as [|f fs IH]; intros s L; cbn [fold_left].
  - cbn. rewrite !app_nil_r, Nat.add_0_r. auto.
  - specialize (IH (step s f) (step_live s f L)). cbn zeta in IH. destruct IH as (IL & IHh & IHr & IHn).
    cbn zeta. split; [exact IL|].
    unfold rejected_frames, forwardable in *. cbn [filter_map filter].
    destruct (step_exactly_one s f L) as [(F & Hh & Hr)|(F & Hh & r & Hr & Hm & _)]; rewrite F; cbn [negb].
    + rewrite IHh, IHr, IHn, Hh, Hr, <- app_assoc. auto.
    + rewrite IHh, IHr, IHn, Hh, Hr, map_app, app_length, <- app_assoc. cbn [List.map app length]. rewrite Hm.
      repeat split; lia.
Qed.

Theorem session_order fs :
  handler_input (session fs) = filter_map forwardable fs /\
  List.map rj_msg (rejections (session fs)) = List.map fr_msg (rejected_frames fs) /\
  length (rejections (session fs)) = count_occ_b (fun f => negb (forwardable_spec f)) fs.
Proof.
  destruct (fold_step_gen fs (mkSess [] [] true) eq_refl) as (_ & Hh & Hr & Hn).
  unfold session. cbn in Hh, Hr, Hn. rewrite Hh, Hr, Hn, count_occ_b_filter. auto.
Qed.

Theorem session_live fs : live (session fs) = true.
Proof. exact (proj1 (fold_step_gen fs (mkSess [] [] true) eq_refl)). Qed.

(** Total and compositional: whatever came before (rejected frames included),
    the frames that follow are treated as on a fresh connection. *)
Lemma fold_step_app_gen fs : forall s,
  live s = true ->
  let s' := fold_left step fs s in
  handler_input s' = handler_input s ++ handler_input (session fs) /\
  rejections s' = rejections s ++ rejections (session fs).
Proof.
  unfold session. induction fs as [|f fs IH]; intros s L; cbn [fold_left].
  - cbn. rewrite !app_nil_r. auto.
  - cbn zeta.
    destruct (IH (step s f) (step_live s f L)) as (A1 & A2).
    destruct (IH (step (mkSess [] [] true) f) (step_live (mkSess [] [] true) f eq_refl)) as (B1 & B2).
    rewrite A1, A2, B1, B2.
    unfold step, serve_read. rewrite L. cbn [live].
    destruct (gate f); cbn [handler_input rejections app]; rewrite <- ?app_assoc; auto.
Qed.

Theorem session_app fs1 fs2 :
  handler_input (session (fs1 ++ fs2)) = handler_input (session fs1) ++ handler_input (session fs2) /\
  rejections (session (fs1 ++ fs2)) = rejections (session fs1) ++ rejections (session fs2).
Proof.
  assert (E : session (fs1 ++ fs2) = fold_left step fs2 (session fs1)) by (unfold session; apply fold_left_app).
  rewrite E. exact (fold_step_app_gen fs2 (session fs1) (session_live fs1)).
Qed.

Theorem connection_stays_usable fs1 f fs2 :
  live (session (fs1 ++ f :: fs2)) = true /\
  (forwardable_spec f = true ->
   handler_input (session (fs1 ++ f :: fs2)) =
   handler_input (session fs1) ++ fr_msg f :: handler_input (session fs2)).
Proof.
  split; [apply session_live|]. intros F.
  destruct (session_app fs1 (f :: fs2)) as (H & _). rewrite H.
  destruct (session_app [f] fs2) as (H2 & _). change (f :: fs2) with ([f] ++ fs2). rewrite H2.
  f_equal. unfold session at 1. cbn [fold_left]. rewrite (step_forward (mkSess [] [] true) f eq_refl F). reflexivity.
Qed.

(** The lock-step stream agrees with the session: its notices are the
    session's rejections and its handler part is the replies to the input. *)
Fixpoint notices_of (l : list out_item) : list rejection :=
  match l with
  | [] => []
  | GateNotice r :: t => r :: notices_of t
  | HandlerOut _ :: t => notices_of t
  end.

Fixpoint handler_part (l : list out_item) : list Z :=
  match l with
  | [] => []
  | GateNotice _ :: t => handler_part t
  | HandlerOut k :: t => k :: handler_part t
  end.

Lemma notices_of_app a b : notices_of (a ++ b) = notices_of a ++ notices_of b.
Proof. induction a as [|[r|k] a IH]; cbn; rewrite ?IH; reflexivity. Qed.

Lemma handler_part_app a b : handler_part (a ++ b) = handler_part a ++ handler_part b.
Proof. induction a as [|[r|k] a IH]; cbn; rewrite ?IH; reflexivity. Qed.

Lemma notices_of_handler ks : notices_of (List.map HandlerOut ks) = [].
Proof. induction ks; cbn; auto. Qed.

Lemma handler_part_handler ks : handler_part (List.map HandlerOut ks) = ks.
Proof. induction ks; cbn; congruence. Qed.

Theorem lockstep_stream_session reply fs :
  notices_of (lockstep_stream reply fs) = rejections (session fs) /\
  handler_part (lockstep_stream reply fs) = flat_map reply (handler_input (session fs)).
Proof.
  induction fs as [|f fs (IH1 & IH2)].
  - split; reflexivity.
  - change (f :: fs) with ([f] ++ fs) at 2 4.
    destruct (session_app [f] fs) as (H1 & H2). rewrite H1, H2, flat_map_app, <- IH1, <- IH2.
    cbn [lockstep_stream flat_map]. rewrite notices_of_app, handler_part_app.
    unfold session. cbn [fold_left]. unfold step, serve_read. cbn [live].
    destruct (gate f) as [m|c]; cbn [handler_input rejections app flat_map].
    + rewrite notices_of_handler, handler_part_handler, app_nil_r. split; reflexivity.
    + split; reflexivity.
Qed.

(* ------------------------------------------------------------------ *)
(** * 5. The write loop *)

Section WriteProofs.
  Variable smsg : Type.
  Variable enc : smsg -> option str.

  Definition encodable (ms : list smsg) : Prop := forall m, In m ms -> enc m <> None.

  Theorem write_order ms :
    encodable ms ->
    List.map (fun w => Some (wf_body w)) (write_loop smsg enc ms) = List.map enc ms /\
    length (write_loop smsg enc ms) = length ms /\
    (forall w, In w (write_loop smsg enc ms) -> wf_type w = 1).
  Proof.
    induction ms as [|m ms IH]; intros E.
    - cbn. repeat split. intros w [].
    - assert (E' : encodable ms) by (intros x Hx; apply E; right; exact Hx).
      destruct (IH E') as (I1 & I2 & I3).
      cbn [write_loop]. unfold write. destruct (enc m) as [b|] eqn:Em.
      + cbn [List.map length wf_body]. rewrite I1, I2, Em. repeat split.
        intros w [<-|Hw]; [reflexivity|auto].
      + exfalso. apply (E m); [left; reflexivity|exact Em].
  Qed.

  (** With any decoder that inverts the encoder on these messages (C10), the
      client decodes exactly the emitted messages, in emission order. *)
  Corollary write_roundtrip (dec : str -> option smsg) ms :
    encodable ms ->
    (forall m b, In m ms -> enc m = Some b -> dec b = Some m) ->
    List.map (fun w => dec (wf_body w)) (write_loop smsg enc ms) = List.map Some ms.
  Proof.
    induction ms as [|m ms IH]; intros E D; [reflexivity|].
    cbn [write_loop]. unfold write. destruct (enc m) as [b|] eqn:Em.
    - cbn [List.map wf_body]. rewrite (D m b (or_introl eq_refl) Em). f_equal.
      apply IH; [intros x Hx; apply E; right; exact Hx|intros x c Hx; apply D; right; exact Hx].
    - exfalso. apply (E m); [left; reflexivity|exact Em].
  Qed.

  (** A marshalling failure ends the loop: what was written is a prefix. *)
  Lemma write_loop_prefix ms : (length (write_loop smsg enc ms) <= length ms)%nat.
  Proof.
    induction ms as [|m ms IH]; cbn [write_loop]; [auto|].
    unfold write. destruct (enc m); cbn [length]; lia.
  Qed.
End WriteProofs.

(* ------------------------------------------------------------------ *)
(** * 6. Non-vacuity *)

Definition ex_frame (i : Z) (text utf8 json : bool) (p : option cmsg_kind) (valid : bool) (v : verify_outcome) : frame :=
  mkFrame i text utf8 json p valid v (gtxt "[payload]") (gtxt "e1").

Definition ex_frames : list frame :=
  [ ex_frame 0 true true true (Some KReq) true (VOk true);          (* REQ: forwarded *)
    ex_frame 1 false true true (Some KReq) true (VOk true);         (* the same bytes in a binary frame *)
    ex_frame 2 true false false None false VErr;                    (* invalid UTF-8 *)
    ex_frame 3 true true false None false VErr;                     (* not JSON *)
    ex_frame 4 true true true None false VErr;                      (* JSON, not a client message *)
    ex_frame 5 true true true (Some KEvent) false (VOk true);       (* invalid field *)
    ex_frame 6 true true true (Some KEvent) true (VOk false);       (* altered event *)
    ex_frame 7 true true true (Some KEvent) true VErr;              (* Verify fails *)
    ex_frame 8 true true true (Some KEvent) true (VOk true);        (* authentic event: forwarded *)
    ex_frame 9 true true true (Some KAuth) true (VOk false);        (* AUTH is not verified: forwarded *)
    ex_frame 10 true true true (Some KClose) true (VOk true) ].     (* still usable *)

Example ex_session_input : handler_input (session ex_frames) = [0; 8; 9; 10].
Proof. vm_compute. reflexivity. Qed.

Example ex_session_rejections :
  List.map (fun r => (rj_msg r, rj_class r)) (rejections (session ex_frames)) =
  [(1, NBinary); (2, NBadJson); (3, NBadJson); (4, NParse); (5, NInvalid); (6, NNotAuthentic); (7, NInternal)].
Proof. vm_compute. reflexivity. Qed.

(** The notice texts themselves are regenerated from relay.go and not pinned
    (rewording a notice is not a change of behaviour the property speaks of);
    the formatter is shown on explicit formats. *)
Example ex_fmt1 :
  fmt1 (gtxt "invalid sig event: %s") (gtxt "e1") = gtxt "invalid sig event: e1" /\
  fmt1 (gtxt "100%% of %s!") (gtxt "it") = gtxt "100% of it!" /\
  fmt1 (gtxt "internal error") (gtxt "unused") = gtxt "internal error".
Proof. vm_compute. auto. Qed.

Example ex_notice_texts :
  List.map rj_text (rejections (session ex_frames)) =
  List.map (fun p => fmt1 (nth (fst p) g_gate_notice_fmts []) (snd p))
    [ (0%nat, []); (1%nat, []); (1%nat, []); (2%nat, []); (3%nat, gtxt "[payload]"); (5%nat, gtxt "e1"); (4%nat, []) ].
Proof. vm_compute. reflexivity. Qed.

Example ex_forward_hypotheses_satisfiable :
  exists f, fr_parse f = Some KEvent /\ forwardable_spec f = true /\ gate f = Forward (fr_msg f).
Proof. exists (ex_frame 8 true true true (Some KEvent) true (VOk true)). repeat split. Qed.

Example ex_write_order :
  write_loop Z (fun z => Some (showZ z)) [3; 1; 2] = [mkW 1 (showZ 3); mkW 1 (showZ 1); mkW 1 (showZ 2)].
Proof. vm_compute. reflexivity. Qed.
