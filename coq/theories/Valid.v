(* Valid.v — C11: model of the admission validators of message.go / utils.go
   (ValidClientMsg, the Valid() methods, validID, validPubkey, validKind,
   validTag, validNaddr, validSig, validHexString) built from the guards that
   the translator regenerates from the source (Gen/GenMsg.v, Gen/GenCodec.v),
   and the NIP-01 well-formedness specification written from the property
   text.  Definitions only; proofs are in ValidProofs*.v. *)
From Moc Require Import Base Json CodecMsg Codec.
From Moc.Gen Require Import GenMsg GenCodec.
Open Scope Z_scope.

(* ================================================================== *)
(** * Model *)

(** ** [for _, r := range s]: Go decodes UTF-8; an invalid or truncated
       sequence yields U+FFFD and advances one byte *)

Definition rune_error : Z := 65533.

Definition cont_byte (b : N) : bool := ((128 <=? b) && (b <=? 191))%N.

Definition decode1 (b0 : N) (rest : str) : Z * nat :=
  let bad := (rune_error, 1%nat) in
  if (b0 <? 128)%N then (Z.of_N b0, 1%nat)
  else if ((194 <=? b0) && (b0 <=? 223))%N then
    match rest with
    | b1 :: _ =>
        if cont_byte b1 then ((Z.of_N b0 - 192) * 64 + (Z.of_N b1 - 128), 2%nat) else bad
    | _ => bad
    end
  else if ((224 <=? b0) && (b0 <=? 239))%N then
    match rest with
    | b1 :: b2 :: _ =>
        let lo := if (b0 =? 224)%N then 160%N else 128%N in
        let hi := if (b0 =? 237)%N then 159%N else 191%N in
        if ((lo <=? b1) && (b1 <=? hi))%N && cont_byte b2
        then ((Z.of_N b0 - 224) * 4096 + (Z.of_N b1 - 128) * 64 + (Z.of_N b2 - 128), 3%nat)
        else bad
    | _ => bad
    end
  else if ((240 <=? b0) && (b0 <=? 244))%N then
    match rest with
    | b1 :: b2 :: b3 :: _ =>
        let lo := if (b0 =? 240)%N then 144%N else 128%N in
        let hi := if (b0 =? 244)%N then 143%N else 191%N in
        if ((lo <=? b1) && (b1 <=? hi))%N && cont_byte b2 && cont_byte b3
        then ((Z.of_N b0 - 240) * 262144 + (Z.of_N b1 - 128) * 4096 + (Z.of_N b2 - 128) * 64
              + (Z.of_N b3 - 128), 4%nat)
        else bad
    | _ => bad
    end
  else bad.

(** [skip]: bytes still belonging to the rune decoded last *)
Fixpoint runes_aux (skip : nat) (s : str) : list Z :=
  match s with
  | [] => []
  | b0 :: s' =>
      match skip with
      | S k => runes_aux k s'
      | O => let rw := decode1 b0 s' in fst rw :: runes_aux (Nat.pred (snd rw)) s'
      end
  end.

Definition runes (s : str) : list Z := runes_aux 0 s.

(** ** the field validators *)

Definition valid_hex (s : str) : bool :=
  if g_hex_empty (zlen s) then false
  else negb (existsb g_hex_char_bad (runes s)).

Definition valid_id (s : str) : bool := g_valid_id (zlen s) (valid_hex s).
Definition valid_pubkey (s : str) : bool := g_valid_pubkey (zlen s) (valid_hex s).
Definition valid_sig (s : str) : bool := g_valid_sig (zlen s) (valid_hex s).
Definition valid_kind (k : Z) : bool := g_valid_kind k.

(** [len(tag) >= 1 && tag[0] != ""]; a nil Tag has length 0 *)
Definition valid_tag (t : gtag) : bool :=
  let l := match t with None => [] | Some l => l end in
  g_valid_tag (zlen l) (hd [] l).

(** ** strconv.ParseInt(s, 10, 64): optional sign, at least one digit, digits
       only, value within int64; anything else is an error *)

Definition digit_val (c : N) : option Z :=
  if ((48 <=? c) && (c <=? 57))%N then Some (Z.of_N c - 48) else None.

Fixpoint digits_val (acc : Z) (s : str) : option Z :=
  match s with
  | [] => Some acc
  | c :: s' => match digit_val c with
               | Some d => digits_val (acc * 10 + d) s'
               | None => None
               end
  end.

Definition magnitude (s : str) : option Z :=
  match s with [] => None | _ => digits_val 0 s end.

Definition parse_int10 (s : str) : option Z :=
  match s with
  | [] => None
  | c :: s' =>
      if (c =? 43)%N then        (* '+' *)
        match magnitude s' with Some m => if m <=? int64_max then Some m else None | None => None end
      else if (c =? 45)%N then   (* '-' *)
        match magnitude s' with Some m => if int64_min <=? - m then Some (- m) else None | None => None end
      else
        match magnitude s with Some m => if m <=? int64_max then Some m else None | None => None end
  end.

(** ** strings.Split / strings.SplitN with a one-byte separator.
       [budget]: cuts still allowed ([None] = unlimited) *)

Definition can_cut (b : option nat) : bool := match b with Some O => false | _ => true end.
Definition after_cut (b : option nat) : option nat :=
  match b with Some (S k) => Some k | _ => b end.

Fixpoint split_aux (budget : option nat) (sep : N) (s : str) : list str :=
  match s with
  | [] => [[]]
  | c :: s' =>
      if N.eqb c sep && can_cut budget then [] :: split_aux (after_cut budget) sep s'
      else match split_aux budget sep s' with
           | h :: t => (c :: h) :: t
           | [] => [[c]]
           end
  end.

(** [n < 0]: all parts (strings.Split); [n = 0]: nil; [n > 0]: at most n parts *)
Definition splitn (n : Z) (sep : N) (s : str) : list str :=
  if n =? 0 then []
  else split_aux (if n <? 0 then None else Some (Z.to_nat (n - 1))) sep s.

(** ** validNaddr *)
Definition valid_naddr (s : str) : bool :=
  let elems := splitn g_naddr_split_n g_naddr_sep s in
  if g_naddr_arity_bad (zlen elems) then false else
  match elems with
  | k :: pk :: _ =>
      match parse_int10 k with
      | None => false
      | Some kind =>
          if negb (valid_kind kind) then false
          else if negb (valid_pubkey pk) then false
          else true
      end
  | _ => false      (* elems[0] / elems[1] out of range: a panic in Go *)
  end.

(** ** Event.Valid (pointer receiver) *)
Definition valid_event_ptr (e : option gevent) : bool :=
  match e with
  | None => g_event_valid false false false false false false false
  | Some e =>
      g_event_valid true (valid_id (ge_id e)) (valid_pubkey (ge_pk e)) (valid_kind (ge_kind e))
        (is_some (ge_tags e))
        (forallb valid_tag (match ge_tags e with None => [] | Some l => l end))
        (valid_sig (ge_sig e))
  end.

(** ** ReqFilter.Valid (pointer receiver) *)
Definition tn_e : str := [101%N].
Definition tn_p : str := [112%N].
Definition tn_a : str := [97%N].

Definition valid_tagcond (kv : str * option (list str)) : bool :=
  let (tag, vals) := kv in
  if g_filter_tagname_bad (zlen tag) (byte_at 0 tag) then false else
  match vals with
  | None => false
  | Some vs =>
      if str_eqb tag tn_e then forallb valid_id vs
      else if str_eqb tag tn_p then forallb valid_pubkey vs
      else if str_eqb tag tn_a then forallb valid_naddr vs
      else true
  end.

Definition valid_filter_ptr (f : option gfilter) : bool :=
  match f with
  | None => false
  | Some f =>
      opt_all (forallb valid_id) (gf_ids f) &&
      opt_all (forallb valid_pubkey) (gf_authors f) &&
      opt_all (forallb valid_kind) (gf_kinds f) &&
      opt_all (forallb valid_tagcond) (gf_tags f) &&
      opt_all (fun s => negb (g_filter_since_neg s)) (gf_since f) &&
      opt_all (fun u => negb (g_filter_until_neg u)) (gf_until f) &&
      (if g_filter_window_checked (is_some (gf_since f)) (is_some (gf_until f))
       then match gf_since f, gf_until f with
            | Some s, Some u => negb (g_filter_window_bad s u)
            | _, _ => true
            end
       else true) &&
      opt_all (fun l => negb (g_filter_limit_neg l)) (gf_limit f)
  end.

(** ** ValidClientMsg on a non-nil message *)
Definition valid_client_msg (m : cmsg) : bool :=
  match m with
  | CEvent e => g_cevent_valid true (valid_event_ptr e)
  | CReq _ fs =>
      if g_creq_nofilters (zlen fs) then false
      else if negb (forallb valid_filter_ptr fs) then false
      else true
  | CClose _ => g_cclose_valid true
  | CAuth e => g_cauth_valid true (valid_event_ptr e)
  | CCount _ fs =>
      if g_ccount_nofilters (zlen fs) then false
      else if negb (forallb valid_filter_ptr fs) then false
      else true
  end.

(** [ValidClientMsg(nil)] is false *)
Definition valid_client_msg_opt (m : option cmsg) : bool :=
  match m with None => false | Some m => valid_client_msg m end.

(** the gate: parse, then validate *)
Definition gate_admits (t : ctext) : bool :=
  match parse_client_msg t with
  | Val m => valid_client_msg m
  | _ => false
  end.

(* ================================================================== *)
(** * Specification: NIP-01 well-formedness, from the property text *)

Definition lower_hex_char (c : N) : bool :=
  ((48 <=? c) && (c <=? 57) || (97 <=? c) && (c <=? 102))%N.

(** lowercase hex of exactly [n] digits *)
Definition lower_hex (n : nat) (s : str) : Prop :=
  length s = n /\ Forall (fun c => lower_hex_char c = true) s.
Definition hexb (n : nat) (s : str) : bool :=
  Nat.eqb (length s) n && forallb lower_hex_char s.

Definition kind_spec (k : Z) : Prop := 0 <= k <= 65535.
Definition kind_specb (k : Z) : bool := (0 <=? k) && (k <=? 65535).

(** a decimal numeral with an optional sign *)
Definition is_digit (c : N) : bool := ((48 <=? c) && (c <=? 57))%N.
Definition digits_value (s : str) : Z :=
  fold_left (fun acc c => acc * 10 + (Z.of_N c - 48)) s 0.
Definition numeral_value (s : str) : option Z :=
  match s with
  | [] => None
  | c :: s' =>
      if (c =? 43)%N then
        (if forallb is_digit s' && negb (Nat.eqb (length s') 0) then Some (digits_value s') else None)
      else if (c =? 45)%N then
        (if forallb is_digit s' && negb (Nat.eqb (length s') 0) then Some (- digits_value s') else None)
      else if forallb is_digit s then Some (digits_value s) else None
  end.

(** an address [kind:pubkey:d]: the first two colons delimit a kind numeral
    in 0..65535 and a pubkey; [d] is whatever follows, colons included *)
Definition naddr_spec (s : str) : Prop :=
  exists ks pk d k,
    s = ks ++ colon :: pk ++ colon :: d /\
    numeral_value ks = Some k /\ kind_spec k /\ lower_hex 64 pk.

(** boolean form, written with its own scanner (no split) *)
Fixpoint cut_at_colon (s : str) : option (str * str) :=
  match s with
  | [] => None
  | c :: s' =>
      if N.eqb c colon then Some ([], s')
      else match cut_at_colon s' with
           | Some (a, b) => Some (c :: a, b)
           | None => None
           end
  end.

(** parametric in the kind predicate (see [cmsg_okb] below); the int64 test
    is what any kind predicate on an int64 presupposes and is implied by
    [kind_specb] *)
Definition naddr_okb (kp : Z -> bool) (s : str) : bool :=
  match cut_at_colon s with
  | None => false
  | Some (ks, rest) =>
      match cut_at_colon rest with
      | None => false
      | Some (pk, _) =>
          match numeral_value ks with
          | Some k => int64_okb k && kp k && hexb 64 pk
          | None => false
          end
      end
  end.

Definition naddr_specb (s : str) : bool := naddr_okb kind_specb s.

(** a tag of an event: at least a name, and the name is not empty *)
Definition tag_okb (t : gtag) : bool :=
  match t with
  | Some (n :: _) => negb (match n with [] => true | _ => false end)
  | _ => false
  end.

(** The constraint lists are parametric in the kind and address predicates so
    that the code can be characterised against its own guards on every tree
    ([cmsg_okb g_valid_kind valid_naddr]); the specification instantiates
    them with [kind_specb] and [naddr_specb]. *)
Definition event_okb (kp : Z -> bool) (e : option gevent) : bool :=
  match e with
  | None => false
  | Some e =>
      hexb 64 (ge_id e) && hexb 64 (ge_pk e) && kp (ge_kind e) &&
      match ge_tags e with None => false | Some l => forallb tag_okb l end &&
      hexb 128 (ge_sig e)
  end.

Definition tagcond_okb (ap : str -> bool) (kv : str * option (list str)) : bool :=
  match fst kv with [c] => is_letter c | _ => false end &&
  match snd kv with
  | None => false
  | Some vs =>
      if str_eqb (fst kv) tn_e then forallb (hexb 64) vs
      else if str_eqb (fst kv) tn_p then forallb (hexb 64) vs
      else if str_eqb (fst kv) tn_a then forallb ap vs
      else true
  end.

Definition nonnegb (z : Z) : bool := 0 <=? z.

(** [window]: also require since <= until when both are present (the code
    rejects such filters; the property's list neither demands nor forbids) *)
Definition filter_okb (kp : Z -> bool) (ap : str -> bool) (window : bool) (f : option gfilter) : bool :=
  match f with
  | None => false
  | Some f =>
      opt_all (forallb (hexb 64)) (gf_ids f) &&
      opt_all (forallb (hexb 64)) (gf_authors f) &&
      opt_all (forallb kp) (gf_kinds f) &&
      opt_all (forallb (tagcond_okb ap)) (gf_tags f) &&
      opt_all nonnegb (gf_since f) && opt_all nonnegb (gf_until f) &&
      (if window then match gf_since f, gf_until f with
                      | Some s, Some u => s <=? u
                      | _, _ => true
                      end
       else true) &&
      opt_all nonnegb (gf_limit f)
  end.

Definition cmsg_okb (kp : Z -> bool) (ap : str -> bool) (window : bool) (m : cmsg) : bool :=
  match m with
  | CEvent e => event_okb kp e
  | CReq _ fs => negb (Nat.eqb (length fs) 0) && forallb (filter_okb kp ap window) fs
  | CClose _ => true
  | CAuth e => event_okb kp e
  | CCount _ fs => negb (Nat.eqb (length fs) 0) && forallb (filter_okb kp ap window) fs
  end.

(** well-formed under NIP-01 (hypothesis of completeness) *)
Definition wf_nip01b (m : cmsg) : bool := cmsg_okb kind_specb naddr_specb true m.
Definition wf_nip01 (m : cmsg) : Prop := wf_nip01b m = true.

(** what components behind the gate may rely on (conclusion of soundness) *)
Definition constraintsb (m : cmsg) : bool := cmsg_okb kind_specb naddr_specb false m.
Definition constraints (m : cmsg) : Prop := constraintsb m = true.

(* ------------------------------------------------------------------ *)
(** ** Well-formedness of the JSON text itself (oracle of the
       correspondence check: decides from the input alone whether the
       property promises acceptance).  Duplicate members, JSON null in place
       of a value, labels spelled with escapes: not claimed. *)

Definition j_hex (n : nat) (j : jv) : bool := match j with JStr s => hexb n s | _ => false end.
Definition j_int (p : Z -> bool) (j : jv) : bool :=
  match j with
  | JNum n => match int64_of n with Some z => p z | None => false end
  | _ => false
  end.
Definition j_str (j : jv) : bool := match j with JStr _ => true | _ => false end.
Definition j_arr (p : jv -> bool) (j : jv) : bool := match j with JArr l => forallb p l | _ => false end.

Definition member_is (m : list (str * jv)) (k : str) (p : jv -> bool) : bool :=
  match assoc k m with Some v => p v | None => false end.

Definition wf_json_event (j : jv) : bool :=
  match j with
  | JObj m =>
      nodup_strb (List.map fst m) && Nat.eqb (length m) 7 &&
      member_is m k_id (j_hex 64) && member_is m k_pubkey (j_hex 64) &&
      member_is m k_created_at (j_int (fun _ => true)) && member_is m k_kind (j_int kind_specb) &&
      member_is m k_tags (j_arr (fun t => match t with
                                          | JArr (JStr n :: rest) =>
                                              negb (match n with [] => true | _ => false end) && forallb j_str rest
                                          | _ => false
                                          end)) &&
      member_is m k_content j_str && member_is m k_sig (j_hex 128)
  | _ => false
  end.

Definition wf_json_member (kv : str * jv) : bool :=
  let (k, v) := kv in
  if str_eqb k k_ids || str_eqb k k_authors then j_arr (j_hex 64) v
  else if str_eqb k k_kinds then j_arr (j_int kind_specb) v
  else if str_eqb k k_since || str_eqb k k_until || str_eqb k k_limit then j_int nonnegb v
  else match k with
       | [h; c] =>
           N.eqb h hash && is_letter c &&
           (if str_eqb [c] tn_e || str_eqb [c] tn_p then j_arr (j_hex 64) v
            else if str_eqb [c] tn_a then j_arr (fun x => match x with JStr s => naddr_specb s | _ => false end) v
            else j_arr j_str v)
       | _ => false
       end.

Definition wf_json_filter (j : jv) : bool :=
  match j with
  | JObj m =>
      nodup_strb (List.map fst m) && forallb wf_json_member m &&
      match assoc k_since m, assoc k_until m with
      | Some (JNum a), Some (JNum b) =>
          match int64_of a, int64_of b with Some s, Some u => s <=? u | _, _ => true end
      | _, _ => true
      end
  | _ => false
  end.

Definition wf_json_cmsg (escaped : bool) (j : jv) : bool :=
  negb escaped &&
  match j with
  | JArr (JStr l :: rest) =>
      if str_eqb l L_EVENT || str_eqb l L_AUTH then
        match rest with [e] => wf_json_event e | _ => false end
      else if str_eqb l L_REQ || str_eqb l L_COUNT then
        match rest with
        | JStr _ :: f :: fs => forallb wf_json_filter (f :: fs)
        | _ => false
        end
      else if str_eqb l L_CLOSE then
        match rest with [JStr _] => true | _ => false end
      else false
  | _ => false
  end.

(* ------------------------------------------------------------------ *)
(** ** Structure that the text of an *accepted* message must have (oracle of
       the correspondence check, soundness side): label, arity, member names
       and JSON types.  Values (hex, ranges, ...) are judged on the decoded
       message by [constraintsb].  Not claimed either way, hence accepted
       here: a JSON null anywhere, an object with a duplicate member. *)

Fixpoint has_null (j : jv) : bool :=
  match j with
  | JNull => true
  | JArr l => (fix go (l : list jv) : bool :=
                 match l with [] => false | x :: l' => has_null x || go l' end) l
  | JObj m => (fix go (m : list (str * jv)) : bool :=
                 match m with [] => false | (_, v) :: m' => has_null v || go m' end) m
  | _ => false
  end.

Definition j_intlit (j : jv) : bool := j_int (fun _ => true) j.

Definition struct_event (j : jv) : bool :=
  match j with
  | JObj m =>
      negb (nodup_strb (List.map fst m)) ||
      Nat.eqb (length m) 7 &&
      member_is m k_id j_str && member_is m k_pubkey j_str &&
      member_is m k_created_at j_intlit && member_is m k_kind j_intlit &&
      member_is m k_tags (j_arr (j_arr j_str)) &&
      member_is m k_content j_str && member_is m k_sig j_str
  | _ => false
  end.

Definition struct_member (kv : str * jv) : bool :=
  let (k, v) := kv in
  if str_eqb k k_ids || str_eqb k k_authors then j_arr j_str v
  else if str_eqb k k_kinds then j_arr j_intlit v
  else if str_eqb k k_since || str_eqb k k_until || str_eqb k k_limit then j_intlit v
  else match k with
       | [h; c] => N.eqb h hash && is_letter c && j_arr j_str v
       | _ => false
       end.

Definition struct_filter (j : jv) : bool :=
  match j with
  | JObj m => negb (nodup_strb (List.map fst m)) || forallb struct_member m
  | _ => false
  end.

Definition struct_cmsg (j : jv) : bool :=
  has_null j ||
  match j with
  | JArr (JStr l :: rest) =>
      if str_eqb l L_EVENT || str_eqb l L_AUTH then
        match rest with [e] => struct_event e | _ => false end
      else if str_eqb l L_REQ || str_eqb l L_COUNT then
        match rest with
        | JStr _ :: f :: fs => forallb struct_filter (f :: fs)
        | _ => false
        end
      else if str_eqb l L_CLOSE then
        match rest with [JStr _] => true | _ => false end
      else false
  | _ => false
  end.
