(* LinProofs.v — C15: the lock discipline implies linearizability (generic,
   proved once), and the transfer of sequential invariants to every response of
   every concurrent history. *)
From Coq Require Import List Arith Lia.
From Moc Require Import Lin.
Import ListNotations.

(* ------------------------------------------------------------------ *)
(** * Lists *)

Lemma before_app_l {A} (l : list A) x a b : before l a b -> before (l ++ [x]) a b.
Proof.
  intros (l1 & l2 & l3 & ->). exists l1, l2, (l3 ++ [x]).
  rewrite <- !app_assoc. simpl. rewrite <- !app_assoc. reflexivity.
Qed.

Lemma before_snoc {A} (l : list A) a b : In a l -> before (l ++ [b]) a b.
Proof.
  intros Hin. apply in_split in Hin. destruct Hin as (l1 & l2 & ->).
  exists l1, l2, []. rewrite <- app_assoc. reflexivity.
Qed.

Lemma before_in_l {A} (l : list A) a b : before l a b -> In a l.
Proof. intros (l1 & l2 & l3 & ->). apply in_or_app. right. left. reflexivity. Qed.

Lemma before_in_r {A} (l : list A) a b : before l a b -> In b l.
Proof.
  intros (l1 & l2 & l3 & ->). apply in_or_app. right. right.
  apply in_or_app. right. left. reflexivity.
Qed.

Lemma snoc_eq_inv {A} (l l' : list A) x y : l ++ [x] = l' ++ [y] -> l = l' /\ x = y.
Proof. intros E. apply app_inj_tail in E. exact E. Qed.

(** a decomposition of [l ++ [x]] around two marked elements is a decomposition
    of [l], unless the second marked element is the new last one *)
Lemma snoc_split2 {A} (l : list A) x h1 a h2 b h3 :
  l ++ [x] = h1 ++ a :: h2 ++ b :: h3 ->
  (exists h3', h3 = h3' ++ [x] /\ l = h1 ++ a :: h2 ++ b :: h3') \/ (h3 = [] /\ b = x /\ l = h1 ++ a :: h2).
Proof.
  intros E.
  destruct h3 as [|z h3] using rev_ind.
  - right. replace (h1 ++ a :: h2 ++ [b]) with ((h1 ++ a :: h2) ++ [b]) in E
      by (rewrite <- app_assoc; reflexivity).
    apply snoc_eq_inv in E. destruct E as [E1 E2]. auto.
  - left. clear IHh3. exists h3.
    replace (h1 ++ a :: h2 ++ b :: h3 ++ [z]) with ((h1 ++ a :: h2 ++ b :: h3) ++ [z]) in E.
    + apply snoc_eq_inv in E. destruct E as [E1 E2]. subst. auto.
    + rewrite <- app_assoc. simpl. rewrite <- app_assoc. reflexivity.
Qed.

Lemma NoDup_app_snoc {A} (l : list A) x : ~ In x l -> NoDup l -> NoDup (l ++ [x]).
Proof.
  intros Hn Hd. induction l as [|y l IH]; simpl.
  - constructor; [intros [] | constructor].
  - inversion Hd; subst. constructor.
    + intros Hin. apply in_app_or in Hin. destruct Hin as [Hin | [E | []]]; [contradiction|].
      subst. apply Hn. left. reflexivity.
    + apply IH; [intros Hin; apply Hn; right; exact Hin | assumption].
Qed.

Section LinProofs.
  Variables (St Op Res : Type).
  Variable sem : St -> Op -> St * Res.
  Variable mode : Op -> lmode.
  Variable wr : Op -> bool.

  Notation pc := (pc St Op Res).
  Notation config := (config St Op Res).
  Notation label := (label Op Res).
  Notation hev := (hev Op Res).
  Notation lent := (lent Op Res).
  Notation step := (step St Op Res sem mode wr).
  Notation steps := (steps St Op Res sem mode wr).
  Notation holds := (holds St Op Res mode).
  Notation pc_id := (pc_id St Op Res).
  Notation l_id := (l_id Op Res).
  Notation seq_legal := (seq_legal St Op Res sem).
  Notation seq_state := (seq_state St Op Res sem).
  Notation precedes := (precedes Op Res).
  Notation hist := (hist Op Res).
  Notation hist_of := (hist_of Op Res).
  Notation linpt_of := (linpt_of Op Res wr).
  Notation linpts := (linpts Op Res wr).
  Notation upd := (upd St Op Res).

  Hypothesis Hdisc : disciplined St Op Res sem mode wr.

  Let D_faithful : forall o, wr o = false -> forall s, fst (sem s o) = s.
  Proof. destruct Hdisc as [F _]. exact F. Qed.

  Let D_wr_excl : forall o, wr o = true -> mode o = Excl.
  Proof.
    destruct Hdisc as [_ D]. intros o Hw.
    destruct (D o) as [E | [[_ W] | [_ [W _]]]]; [exact E | congruence | congruence].
  Qed.

  Let D_nolock : forall o, mode o = NoLock -> forall s s', snd (sem s o) = snd (sem s' o).
  Proof.
    destruct Hdisc as [_ D]. intros o Hm.
    destruct (D o) as [E | [[E _] | [_ [_ SI]]]]; [congruence | congruence | exact SI].
  Qed.

  (* ---------------------------------------------------------------- *)
  (** ** [upd] *)

  Lemma upd_same f t p : upd f t p t = p.
  Proof. unfold Lin.upd. rewrite Nat.eqb_refl. reflexivity. Qed.

  Lemma upd_other f t p t' : t' <> t -> upd f t p t' = f t'.
  Proof. intros Hne. unfold Lin.upd. apply Nat.eqb_neq in Hne. rewrite Hne. reflexivity. Qed.

  (* ---------------------------------------------------------------- *)
  (** ** Sequential runs *)

  Lemma seq_legal_snoc s L i o r :
    seq_legal s L -> snd (sem (seq_state s L) o) = r -> seq_legal s (L ++ [(i, o, r)]).
  Proof.
    revert s. induction L as [|[[j o'] r'] L IH]; intros s HL Hr; simpl in *.
    - split; [exact Hr | exact I].
    - destruct HL as [H1 H2]. split; [exact H1 | apply IH; assumption].
  Qed.

  Lemma seq_state_snoc s L i o r :
    seq_state s (L ++ [(i, o, r)]) = fst (sem (seq_state s L) o).
  Proof.
    revert s. induction L as [|[[j o'] r'] L IH]; intros s; simpl; [reflexivity | apply IH].
  Qed.

  (* ---------------------------------------------------------------- *)
  (** ** The lock invariant: the lock word agrees with the program counters *)

  Record LockInv (c : config) : Prop := mkLockInv {
    li_w : forall t, k_w _ _ _ c = Some t -> holds (k_pc _ _ _ c t) Excl /\ k_r _ _ _ c = [];
    li_r : forall t, In t (k_r _ _ _ c) -> holds (k_pc _ _ _ c t) Shared;
    li_hw : forall t, holds (k_pc _ _ _ c t) Excl -> k_w _ _ _ c = Some t;
    li_hr : forall t, holds (k_pc _ _ _ c t) Shared -> In t (k_r _ _ _ c)
  }.

  Lemma lock_init s0 : LockInv (init St Op Res s0).
  Proof. constructor; simpl; intros; try discriminate; contradiction. Qed.

  Ltac tcase t' t :=
    destruct (Nat.eq_dec t' t) as [->|?];
    [rewrite ?upd_same in * | rewrite ?upd_other in * by assumption].

  Lemma lock_step c l c' : LockInv c -> step c l c' -> LockInv c'.
  Proof.
    intros [Hw Hr Hhw Hhr] Hs. inversion Hs; subst; clear Hs; constructor; simpl; intros t'.
    (* inv *)
    - intros E. tcase t' t.
      + destruct (Hw _ E) as [Hh _]. rewrite H in Hh. contradiction.
      + apply Hw; assumption.
    - intros E. tcase t' t.
      + apply Hr in E. rewrite H in E. contradiction.
      + apply Hr; assumption.
    - tcase t' t; simpl; intros E; [contradiction | apply Hhw; assumption].
    - tcase t' t; simpl; intros E; [contradiction | apply Hhr; assumption].
    (* acq excl *)
    - intros E. injection E as <-. rewrite upd_same. simpl. auto.
    - intros [].
    - tcase t' t; simpl; intros E; [reflexivity|].
      apply Hhw in E. congruence.
    - tcase t' t; simpl; intros E; [congruence|].
      apply Hhr in E. rewrite H2 in E. contradiction.
    (* acq shared *)
    - discriminate.
    - intros [<- | E].
      + rewrite upd_same. simpl. assumption.
      + tcase t' t; simpl; [assumption | apply Hr; assumption].
    - tcase t' t; simpl; intros E; [congruence|]. apply Hhw in E. congruence.
    - tcase t' t; simpl; intros E; [left; reflexivity | right; apply Hhr; assumption].
    (* read locked *)
    - intros E. tcase t' t; simpl.
      + destruct (Hw _ E) as [Hh Hn]. rewrite H in Hh. simpl in Hh. auto.
      + apply Hw; assumption.
    - intros E. tcase t' t; simpl.
      + apply Hr in E. rewrite H in E. exact E.
      + apply Hr; assumption.
    - tcase t' t; simpl; intros E.
      + apply Hhw. rewrite H. exact E.
      + apply Hhw; assumption.
    - tcase t' t; simpl; intros E.
      + apply Hhr. rewrite H. exact E.
      + apply Hhr; assumption.
    (* read nolock *)
    - intros E. tcase t' t; simpl.
      + destruct (Hw _ E) as [Hh _]. rewrite H in Hh. contradiction.
      + apply Hw; assumption.
    - intros E. tcase t' t; simpl.
      + apply Hr in E. rewrite H in E. contradiction.
      + apply Hr; assumption.
    - tcase t' t; simpl; intros E; [congruence | apply Hhw; assumption].
    - tcase t' t; simpl; intros E; [congruence | apply Hhr; assumption].
    (* dirty *)
    - apply Hw.
    - apply Hr.
    - apply Hhw.
    - apply Hhr.
    (* write *)
    - intros E. tcase t' t; simpl.
      + destruct (Hw _ E) as [Hh Hn]. rewrite H in Hh. simpl in Hh. auto.
      + apply Hw; assumption.
    - intros E. tcase t' t; simpl.
      + apply Hr in E. rewrite H in E. exact E.
      + apply Hr; assumption.
    - tcase t' t; simpl; intros E.
      + apply Hhw. rewrite H. exact E.
      + apply Hhw; assumption.
    - tcase t' t; simpl; intros E.
      + apply Hhr. rewrite H. exact E.
      + apply Hhr; assumption.
    (* release *)
    - intros E. tcase t' t; simpl.
      + exfalso. destruct (mode o) eqn:Hm; simpl in E.
        * discriminate.
        * destruct (Hw _ E) as [Hh _]. rewrite H in Hh. simpl in Hh. congruence.
        * destruct (Hw _ E) as [Hh _]. rewrite H in Hh. simpl in Hh. congruence.
      + destruct (mode o) eqn:Hm; simpl in E |- *.
        * discriminate.
        * destruct (Hw _ E) as [Hh Hn]. split; [assumption|]. rewrite Hn. reflexivity.
        * apply Hw; assumption.
    - intros E. tcase t' t; simpl.
      + exfalso. destruct (mode o) eqn:Hm; simpl in E.
        * apply Hr in E. rewrite H in E. simpl in E. congruence.
        * apply remove_In in E. exact E.
        * apply Hr in E. rewrite H in E. simpl in E. congruence.
      + apply Hr. destruct (mode o); simpl in E; try assumption.
        apply in_remove in E. tauto.
    - tcase t' t; simpl; intros E; [contradiction|].
      destruct (mode o) eqn:Hm; simpl.
      + exfalso. apply Hhw in E. assert (E2 : k_w _ _ _ c = Some t) by (apply Hhw; rewrite H; exact Hm).
        congruence.
      + apply Hhw; assumption.
      + apply Hhw; assumption.
    - tcase t' t; simpl; intros E; [contradiction|].
      destruct (mode o) eqn:Hm; simpl.
      + apply Hhr; assumption.
      + apply in_in_remove; [assumption | apply Hhr; assumption].
      + apply Hhr; assumption.
    (* resp *)
    - intros E. tcase t' t; simpl.
      + destruct (Hw _ E) as [Hh _]. rewrite H in Hh. contradiction.
      + apply Hw; assumption.
    - intros E. tcase t' t; simpl.
      + apply Hr in E. rewrite H in E. contradiction.
      + apply Hr; assumption.
    - tcase t' t; simpl; intros E; [contradiction | apply Hhw; assumption].
    - tcase t' t; simpl; intros E; [contradiction | apply Hhr; assumption].
  Qed.

  (** mutual exclusion, as a consequence: a writer excludes every other holder *)
  Lemma lock_exclusive c t t' m :
    LockInv c -> holds (k_pc _ _ _ c t) Excl -> holds (k_pc _ _ _ c t') m -> m = Excl \/ m = Shared -> t' = t.
  Proof.
    intros [Hw Hr Hhw Hhr] He Hm [-> | ->].
    - apply Hhw in He. apply Hhw in Hm. congruence.
    - apply Hhw in He. apply Hhr in Hm. destruct (Hw _ He) as [_ Hn]. rewrite Hn in Hm. contradiction.
  Qed.

  (* ---------------------------------------------------------------- *)
  (** ** The identifier invariant *)

  Definition pc_inv (H : list hev) (t : tid) (p : pc) : Prop :=
    match p with
    | PIdle => True
    | PInv i o | PHold i o | PRead i o _ | PDone i o _ | PRel i o _ => In (HInv i t o) H
    end.

  Record IdInv (c : config) (H : list hev) : Prop := mkIdInv {
    ii_pc : forall t, pc_inv H t (k_pc _ _ _ c t);
    ii_uniq : forall t t' i, pc_id (k_pc _ _ _ c t) = Some i -> pc_id (k_pc _ _ _ c t') = Some i -> t = t';
    ii_next : forall i t o, In (HInv i t o) H -> i < k_next _ _ _ c
  }.

  Lemma id_init s0 : IdInv (init St Op Res s0) [].
  Proof. constructor; simpl; intros; try discriminate; try contradiction; exact I. Qed.

  Lemma pc_inv_mono H H' t p : pc_inv H t p -> pc_inv (H ++ H') t p.
  Proof. destruct p; simpl; auto; intros; apply in_or_app; auto. Qed.

  Lemma pc_inv_id H t p i : pc_inv H t p -> pc_id p = Some i -> exists o, In (HInv i t o) H.
  Proof. destruct p; simpl; intros Hp E; try discriminate; injection E as <-; eauto. Qed.

  (** replacing the program counter of [t] by one with the same (identifier, operation), or by [PIdle] *)
  Lemma id_upd c H t p st' w' r' :
    IdInv c H ->
    pc_inv H t p ->
    (pc_id p = pc_id (k_pc _ _ _ c t) \/ pc_id p = None) ->
    IdInv (mkCfg _ _ _ st' w' r' (upd (k_pc _ _ _ c) t p) (k_next _ _ _ c)) H.
  Proof.
    intros [Hpc Hu Hn] Hp Hid. constructor; simpl.
    - intros t'. tcase t' t; [exact Hp | apply Hpc].
    - intros a b i. tcase a t; tcase b t; intros Ea Eb; try reflexivity.
      + destruct Hid as [Hid | Hid]; rewrite Hid in Ea; [|discriminate]. eapply Hu; eassumption.
      + destruct Hid as [Hid | Hid]; rewrite Hid in Eb; [|discriminate]. eapply Hu; eassumption.
      + eapply Hu; eassumption.
    - exact Hn.
  Qed.

  Lemma id_step c l c' H : IdInv c H -> step c l c' -> IdInv c' (H ++ hist_of l).
  Proof.
    intros HI Hs. pose proof HI as [Hpc Hu Hn].
    inversion Hs; subst; clear Hs; simpl; rewrite ?app_nil_r.
    - (* inv *)
      constructor; simpl.
      + intros t'. tcase t' t; simpl.
        * apply in_or_app. right. left. reflexivity.
        * apply pc_inv_mono. apply Hpc.
      + intros a b i. tcase a t; tcase b t; simpl; intros Ea Eb; try reflexivity.
        * injection Ea as <-. destruct (pc_inv_id _ _ _ _ (Hpc b) Eb) as [o' Ho']. apply Hn in Ho'. lia.
        * injection Eb as <-. destruct (pc_inv_id _ _ _ _ (Hpc a) Ea) as [o' Ho']. apply Hn in Ho'. lia.
        * eapply Hu; eassumption.
      + intros i t' o' Hin. apply in_app_or in Hin. destruct Hin as [Hin | [E | []]].
        * apply Hn in Hin. lia.
        * injection E as <- _ _. lia.
    - apply id_upd; [assumption | | left; rewrite H0; reflexivity].
      specialize (Hpc t). rewrite H0 in Hpc. exact Hpc.
    - apply id_upd; [assumption | | left; rewrite H0; reflexivity].
      specialize (Hpc t). rewrite H0 in Hpc. exact Hpc.
    - apply id_upd; [assumption | | left; rewrite H0; reflexivity].
      specialize (Hpc t). rewrite H0 in Hpc. exact Hpc.
    - apply id_upd; [assumption | | left; rewrite H0; reflexivity].
      specialize (Hpc t). rewrite H0 in Hpc. exact Hpc.
    - constructor; simpl; assumption.
    - apply id_upd; [assumption | | left; rewrite H0; reflexivity].
      specialize (Hpc t). rewrite H0 in Hpc. exact Hpc.
    - apply id_upd; [assumption | | left; rewrite H0; reflexivity].
      specialize (Hpc t). rewrite H0 in Hpc. exact Hpc.
    - (* resp *)
      assert (HI' : IdInv (mkCfg _ _ _ (k_st _ _ _ c) (k_w _ _ _ c) (k_r _ _ _ c) (upd (k_pc _ _ _ c) t PIdle) (k_next _ _ _ c)) H).
      { apply id_upd; [assumption | exact I | right; reflexivity]. }
      destruct HI' as [Hpc' Hu' Hn']. constructor; simpl in *.
      + intros t'. apply pc_inv_mono. apply Hpc'.
      + exact Hu'.
      + intros i' t' o' Hin. apply in_app_or in Hin. destruct Hin as [Hin | [E | []]]; [|discriminate].
        eapply Hn'; eassumption.
  Qed.

  (* ---------------------------------------------------------------- *)
  (** ** The main invariant

      [L] lists the operations whose linearization point has passed, in that
      order.  The shared state equals the sequential state after [L] whenever no
      storing body is in progress; a storing body in progress belongs to the one
      writer, whose snapshot is the sequential state after [L]. *)

  Definition pc_ok (L : list lent) (p : pc) : Prop :=
    match p with
    | PIdle => True
    | PInv i _ | PHold i _ => ~ In i (map l_id L)
    | PRead i o snap => if wr o then ~ In i (map l_id L) else In (i, o, snd (sem snap o)) L
    | PDone i o r | PRel i o r => In (i, o, r) L
    end.

  Definition no_mid_writer (c : config) : Prop :=
    forall t i o snap, k_pc _ _ _ c t = PRead i o snap -> wr o = false.

  Record MainInv (s0 : St) (c : config) (H : list hev) (L : list lent) : Prop := mkMainInv {
    mi_legal : seq_legal s0 L;
    mi_state : no_mid_writer c -> k_st _ _ _ c = seq_state s0 L;
    mi_mid : forall t i o snap, k_pc _ _ _ c t = PRead i o snap -> wr o = true -> snap = seq_state s0 L;
    mi_pc : forall t, pc_ok L (k_pc _ _ _ c t);
    mi_nodup : NoDup (map l_id L);
    mi_Linv : forall i o r, In (i, o, r) L -> exists t, In (HInv i t o) H;
    mi_resp : forall i t r, In (HResp i t r) H -> exists o, In (i, o, r) L;
    mi_rt : forall a b, precedes H a b -> In b (map l_id L) -> before (map l_id L) a b
  }.

  Lemma main_init s0 : MainInv s0 (init St Op Res s0) [] [].
  Proof.
    constructor; simpl; intros; try contradiction; try discriminate; try exact I; try reflexivity.
    constructor.
  Qed.

  Lemma pc_ok_snoc L p i o r : pc_ok L p -> pc_id p <> Some i -> pc_ok (L ++ [(i, o, r)]) p.
  Proof.
    assert (Hneg : forall j, j <> i -> ~ In j (map l_id L) -> ~ In j (map l_id (L ++ [(i, o, r)]))).
    { intros j Hj Hn Hin. rewrite map_app in Hin. apply in_app_or in Hin. simpl in Hin.
      destruct Hin as [Hin | [E | []]]; [tauto | unfold Lin.l_id in E; simpl in E; congruence]. }
    destruct p as [|j o'|j o'|j o' snap|j o' r'|j o' r']; simpl; intros Hp Hid.
    - exact I.
    - apply Hneg; [congruence | assumption].
    - apply Hneg; [congruence | assumption].
    - revert Hp. destruct (wr o'); intros Hp; [apply Hneg; [congruence | assumption] | apply in_or_app; auto].
    - apply in_or_app; auto.
    - apply in_or_app; auto.
  Qed.

  Lemma l_id_in L i o r : In (i, o, r) L -> In i (map l_id L).
  Proof. intros Hin. apply (in_map l_id) in Hin. exact Hin. Qed.

  Lemma l_id_ex L i : In i (map l_id L) -> exists o r, In (i, o, r) L.
  Proof. intros Hin. apply in_map_iff in Hin. destruct Hin as ([[j o] r] & E & Hin). simpl in E. subst. eauto. Qed.

  (** a thread holding the lock (either mode) at [PHold] sees no storing body in progress *)
  Lemma holder_no_mid_writer c t i o :
    LockInv c -> k_pc _ _ _ c t = PHold i o -> mode o <> NoLock -> no_mid_writer c.
  Proof.
    intros HL Ht Hm t' i' o' snap' Ht'. destruct (wr o') eqn:Hw; [exfalso | reflexivity].
    apply D_wr_excl in Hw.
    assert (t = t').
    { eapply (lock_exclusive c t' t (mode o)); try eassumption.
      - rewrite Ht'. exact Hw.
      - rewrite Ht. reflexivity.
      - destruct (mode o); auto; congruence. }
    subst. congruence.
  Qed.

  (** appending the operation of thread [t] to [L] *)
  Lemma rt_snoc H L i :
    (forall a t r, In (HResp a t r) H -> exists o, In (a, o, r) L) ->
    (forall a b, precedes H a b -> In b (map l_id L) -> before (map l_id L) a b) ->
    forall a b, precedes H a b -> In b (map l_id L ++ [i]) -> before (map l_id L ++ [i]) a b.
  Proof.
    intros Hresp Hrt a b Hp Hin. apply in_app_or in Hin. destruct Hin as [Hin | [<- | []]].
    - apply before_app_l. apply Hrt; assumption.
    - apply before_snoc. destruct Hp as (h1 & h2 & h3 & t & r & t' & o & ->).
      destruct (Hresp a t r) as [o' Ho']; [apply in_or_app; right; left; reflexivity|].
      eapply l_id_in; eassumption.
  Qed.

  Lemma main_step s0 c l c' H L :
    LockInv c -> IdInv c H -> MainInv s0 c H L -> step c l c' ->
    exists L', MainInv s0 c' (H ++ hist_of l) L' /\ map l_id L' = map l_id L ++ linpt_of l.
  Proof.
    intros HLk HId HM Hs.
    pose proof HId as [Ipc Iu In_]. pose proof HM as [Mleg Mst Mmid Mpc Mnd MLi Mre Mrt].
    inversion Hs; subst; clear Hs; simpl hist_of; simpl linpt_of; rewrite ?app_nil_r.
    - (* inv *)
      exists L. split; [|reflexivity].
      assert (Hfresh : ~ In (k_next _ _ _ c) (map l_id L)).
      { intros Hin. apply l_id_ex in Hin. destruct Hin as (o' & r' & Hin).
        destruct (MLi _ _ _ Hin) as [t' Ht']. apply In_ in Ht'. lia. }
      constructor; simpl.
      + exact Mleg.
      + intros Hnm. apply Mst. intros t' i' o' snap' E. apply (Hnm t' i' o' snap'). simpl.
        tcase t' t; [congruence | exact E].
      + intros t' i' o' snap'. tcase t' t; [discriminate | apply Mmid].
      + intros t'. tcase t' t; simpl; [exact Hfresh | apply Mpc].
      + exact Mnd.
      + intros i' o' r' Hin. destruct (MLi _ _ _ Hin) as [t' Ht']. exists t'. apply in_or_app; auto.
      + intros i' t' r' Hin. apply in_app_or in Hin. destruct Hin as [Hin | [E | []]]; [|discriminate].
        eapply Mre; eassumption.
      + intros a b (h1 & h2 & h3 & ta & ra & tb & ob & E) Hb.
        apply snoc_split2 in E. destruct E as [(h3' & -> & E) | (-> & E1 & E)].
        * apply Mrt; [|assumption]. exists h1, h2, h3', ta, ra, tb, ob. exact E.
        * injection E1 as -> _ _. contradiction.
    - (* acq excl *)
      exists L. split; [|reflexivity]. constructor; simpl; try assumption.
      + intros Hnm. apply Mst. intros t' i' o' snap' E. apply (Hnm t' i' o' snap'). simpl.
        tcase t' t; [congruence | exact E].
      + intros t' i' o' snap'. tcase t' t; [discriminate | apply Mmid].
      + intros t'. tcase t' t; simpl; [specialize (Mpc t); rewrite H0 in Mpc; exact Mpc | apply Mpc].
    - (* acq shared *)
      exists L. split; [|reflexivity]. constructor; simpl; try assumption.
      + intros Hnm. apply Mst. intros t' i' o' snap' E. apply (Hnm t' i' o' snap'). simpl.
        tcase t' t; [congruence | exact E].
      + intros t' i' o' snap'. tcase t' t; [discriminate | apply Mmid].
      + intros t'. tcase t' t; simpl; [specialize (Mpc t); rewrite H0 in Mpc; exact Mpc | apply Mpc].
    - (* read, lock held *)
      assert (Hst : mode o <> NoLock -> k_st _ _ _ c = seq_state s0 L).
      { intros Hm. apply Mst. eapply holder_no_mid_writer; eassumption. }
      assert (Hni : ~ In i (map l_id L)) by (specialize (Mpc t); rewrite H0 in Mpc; exact Mpc).
      assert (Hinv : In (HInv i t o) H) by (specialize (Ipc t); rewrite H0 in Ipc; exact Ipc).
      destruct (wr o) eqn:Hw.
      + exists L. split; [|rewrite app_nil_r; reflexivity]. constructor; simpl; try assumption.
        * intros Hnm. specialize (Hnm t i o (k_st _ _ _ c)). simpl in Hnm. rewrite upd_same in Hnm.
          specialize (Hnm eq_refl). congruence.
        * intros t' i' o' snap'. tcase t' t.
          -- intros E _. injection E as <- <- <-. apply Hst. rewrite (D_wr_excl _ Hw). discriminate.
          -- apply Mmid.
        * intros t'. tcase t' t; simpl; [rewrite Hw; exact Hni | apply Mpc].
      + set (r := snd (sem (k_st _ _ _ c) o)).
        assert (Hr : snd (sem (seq_state s0 L) o) = r).
        { destruct (mode o) eqn:Hm.
          - rewrite <- Hst by discriminate. reflexivity.
          - rewrite <- Hst by discriminate. reflexivity.
          - apply D_nolock. exact Hm. }
        assert (Hss : seq_state s0 (L ++ [(i, o, r)]) = seq_state s0 L).
        { rewrite seq_state_snoc. apply D_faithful. exact Hw. }
        exists (L ++ [(i, o, r)]). split; [|rewrite map_app; reflexivity].
        constructor; simpl.
        * apply seq_legal_snoc; assumption.
        * intros Hnm. rewrite Hss. apply Mst. intros t' i' o' snap' E.
          destruct (Nat.eq_dec t' t) as [->|Hne]; [congruence|].
          apply (Hnm t' i' o' snap'). simpl. rewrite upd_other by assumption. exact E.
        * intros t' i' o' snap'. rewrite Hss. tcase t' t.
          -- intros E Hw'. injection E as <- <- <-. congruence.
          -- apply Mmid.
        * intros t'. tcase t' t; simpl.
          -- rewrite Hw. apply in_or_app. right. left. reflexivity.
          -- apply pc_ok_snoc; [apply Mpc|]. intros E. apply n. eapply Iu; [exact E | rewrite H0; reflexivity].
        * rewrite map_app. simpl. apply NoDup_app_snoc; assumption.
        * intros i' o' r' Hin. apply in_app_or in Hin. destruct Hin as [Hin | [E | []]].
          -- eapply MLi; eassumption.
          -- injection E as <- <- <-. eauto.
        * intros i' t' r' Hin. destruct (Mre _ _ _ Hin) as [o' Ho']. exists o'. apply in_or_app; auto.
        * rewrite map_app. simpl. apply rt_snoc; assumption.
    - (* read, no lock *)
      assert (Hni : ~ In i (map l_id L)) by (specialize (Mpc t); rewrite H0 in Mpc; exact Mpc).
      assert (Hinv : In (HInv i t o) H) by (specialize (Ipc t); rewrite H0 in Ipc; exact Ipc).
      destruct (wr o) eqn:Hw; [apply D_wr_excl in Hw; congruence|].
      set (r := snd (sem (k_st _ _ _ c) o)).
      assert (Hr : snd (sem (seq_state s0 L) o) = r) by (apply D_nolock; assumption).
      assert (Hss : seq_state s0 (L ++ [(i, o, r)]) = seq_state s0 L).
      { rewrite seq_state_snoc. apply D_faithful. exact Hw. }
      exists (L ++ [(i, o, r)]). split; [|rewrite map_app; reflexivity].
      constructor; simpl.
      + apply seq_legal_snoc; assumption.
      + intros Hnm. rewrite Hss. apply Mst. intros t' i' o' snap' E.
        destruct (Nat.eq_dec t' t) as [->|Hne]; [congruence|].
        apply (Hnm t' i' o' snap'). simpl. rewrite upd_other by assumption. exact E.
      + intros t' i' o' snap'. rewrite Hss. tcase t' t.
        * intros E Hw'. injection E as <- <- <-. congruence.
        * apply Mmid.
      + intros t'. tcase t' t; simpl.
        * rewrite Hw. apply in_or_app. right. left. reflexivity.
        * apply pc_ok_snoc; [apply Mpc|]. intros E. apply n. eapply Iu; [exact E | rewrite H0; reflexivity].
      + rewrite map_app. simpl. apply NoDup_app_snoc; assumption.
      + intros i' o' r' Hin. apply in_app_or in Hin. destruct Hin as [Hin | [E | []]].
        * eapply MLi; eassumption.
        * injection E as <- <- <-. eauto.
      + intros i' t' r' Hin. destruct (Mre _ _ _ Hin) as [o' Ho']. exists o'. apply in_or_app; auto.
      + rewrite map_app. simpl. apply rt_snoc; assumption.
    - (* dirty *)
      exists L. split; [|reflexivity]. constructor; simpl; try assumption.
      intros Hnm. specialize (Hnm _ _ _ _ H0). congruence.
    - (* write *)
      assert (Hinv : In (HInv i t o) H) by (specialize (Ipc t); rewrite H0 in Ipc; exact Ipc).
      destruct (wr o) eqn:Hw.
      + assert (Hsnap : snap = seq_state s0 L) by (eapply Mmid; eassumption).
        assert (Hni : ~ In i (map l_id L)) by (specialize (Mpc t); rewrite H0 in Mpc; simpl in Mpc; rewrite Hw in Mpc; exact Mpc).
        set (r := snd (sem snap o)).
        exists (L ++ [(i, o, r)]). split; [|rewrite map_app; reflexivity].
        constructor; simpl.
        * apply seq_legal_snoc; [assumption | subst snap; reflexivity].
        * intros _. rewrite seq_state_snoc. subst snap. reflexivity.
        * intros t' i' o' snap'. tcase t' t; [discriminate|]. intros E Hw'. exfalso.
          apply n. eapply (lock_exclusive c t t' Excl); try eassumption.
          -- rewrite H0. simpl. apply D_wr_excl. exact Hw.
          -- rewrite E. simpl. apply D_wr_excl. exact Hw'.
          -- auto.
        * intros t'. tcase t' t; simpl.
          -- apply in_or_app. right. left. reflexivity.
          -- apply pc_ok_snoc; [apply Mpc|]. intros E. apply n. eapply Iu; [exact E | rewrite H0; reflexivity].
        * rewrite map_app. simpl. apply NoDup_app_snoc; assumption.
        * intros i' o' r' Hin. apply in_app_or in Hin. destruct Hin as [Hin | [E | []]].
          -- eapply MLi; eassumption.
          -- injection E as <- <- <-. eauto.
        * intros i' t' r' Hin. destruct (Mre _ _ _ Hin) as [o' Ho']. exists o'. apply in_or_app; auto.
        * rewrite map_app. simpl. apply rt_snoc; assumption.
      + exists L. split; [|rewrite app_nil_r; reflexivity]. constructor; simpl; try assumption.
        * intros Hnm. apply Mst. intros t' i' o' snap' E.
          destruct (Nat.eq_dec t' t) as [->|Hne]; [congruence|].
          apply (Hnm t' i' o' snap'). simpl. rewrite upd_other by assumption. exact E.
        * intros t' i' o' snap'. tcase t' t; [discriminate | apply Mmid].
        * intros t'. tcase t' t; simpl; [|apply Mpc].
          specialize (Mpc t). rewrite H0 in Mpc. simpl in Mpc. rewrite Hw in Mpc. exact Mpc.
    - (* release *)
      exists L. split; [|reflexivity]. constructor; simpl; try assumption.
      + intros Hnm. apply Mst. intros t' i' o' snap' E. apply (Hnm t' i' o' snap'). simpl.
        tcase t' t; [congruence | exact E].
      + intros t' i' o' snap'. tcase t' t; [discriminate | apply Mmid].
      + intros t'. tcase t' t; simpl; [specialize (Mpc t); rewrite H0 in Mpc; exact Mpc | apply Mpc].
    - (* resp *)
      exists L. split; [|reflexivity]. constructor; simpl; try assumption.
      + intros Hnm. apply Mst. intros t' i' o' snap' E. apply (Hnm t' i' o' snap'). simpl.
        tcase t' t; [congruence | exact E].
      + intros t' i' o' snap'. tcase t' t; [discriminate | apply Mmid].
      + intros t'. tcase t' t; simpl; [exact I | apply Mpc].
      + intros i' o' r' Hin. destruct (MLi _ _ _ Hin) as [t' Ht']. exists t'. apply in_or_app; auto.
      + intros i' t' r' Hin. apply in_app_or in Hin. destruct Hin as [Hin | [E | []]].
        * eapply Mre; eassumption.
        * injection E as <- _ <-. specialize (Mpc t). rewrite H0 in Mpc. simpl in Mpc. eauto.
      + intros a b (h1 & h2 & h3 & ta & ra & tb & ob & E) Hb.
        apply snoc_split2 in E. destruct E as [(h3' & -> & E) | (-> & E1 & E)]; [|discriminate].
        apply Mrt; [|assumption]. exists h1, h2, h3', ta, ra, tb, ob. exact E.
  Qed.

  (* ---------------------------------------------------------------- *)
  (** ** Every trace keeps the three invariants *)

  Lemma hist_snoc tr l : hist (tr ++ [l]) = hist tr ++ hist_of l.
  Proof. unfold Lin.hist. rewrite flat_map_app. simpl. rewrite app_nil_r. reflexivity. Qed.

  Lemma linpts_snoc tr l : linpts (tr ++ [l]) = linpts tr ++ linpt_of l.
  Proof. unfold Lin.linpts. rewrite flat_map_app. simpl. rewrite app_nil_r. reflexivity. Qed.

  Lemma steps_invariant s0 tr c :
    steps (init St Op Res s0) tr c ->
    LockInv c /\ IdInv c (hist tr) /\ exists L, MainInv s0 c (hist tr) L /\ map l_id L = linpts tr.
  Proof.
    induction 1 as [|tr c l c' Hsteps IH Hstep].
    - split; [apply lock_init|]. split; [apply id_init|]. exists []. split; [apply main_init | reflexivity].
    - destruct IH as (HL & HI & L & HM & HLp).
      split; [eapply lock_step; eassumption|].
      rewrite hist_snoc. split; [eapply id_step; eassumption|].
      destruct (main_step s0 c l c' (hist tr) L HL HI HM Hstep) as (L' & HM' & HL').
      exists L'. split; [exact HM'|]. rewrite linpts_snoc, HL', HLp. reflexivity.
  Qed.

  (** ** The theorem: the lock discipline implies linearizability, and the
      linearization is the order of the linearization points *)
  Theorem rw_lock_linearizable_pts s0 tr c :
    steps (init St Op Res s0) tr c ->
    exists L, linearization St Op Res sem s0 (hist tr) L /\ map l_id L = linpts tr.
  Proof.
    intros Hs. destruct (steps_invariant s0 tr c Hs) as (_ & _ & L & [Mleg _ _ _ Mnd MLi Mre Mrt] & HLp).
    exists L. split; [|exact HLp].
    split; [exact Mnd|]. split; [exact MLi|]. split; [exact Mre|]. split; [exact Mleg|].
    intros a b Hp _ Hb. apply Mrt; assumption.
  Qed.

  Theorem rw_lock_linearizable s0 tr c :
    steps (init St Op Res s0) tr c -> linearizable St Op Res sem s0 (hist tr).
  Proof. intros Hs. destruct (rw_lock_linearizable_pts s0 tr c Hs) as (L & HL & _). exists L. exact HL. Qed.

  (** the linearization point of an operation that takes the lock lies inside
      its critical section: at that step the lock word names the thread *)
  Lemma linpt_inside_critical_section s0 tr c l c' i :
    steps (init St Op Res s0) tr c -> step c l c' -> In i (linpt_of l) ->
    exists t o, pc_id (k_pc _ _ _ c t) = Some i /\ pc_op St Op Res (k_pc _ _ _ c t) = Some o /\
                (mode o = Excl -> k_w _ _ _ c = Some t) /\
                (mode o = Shared -> In t (k_r _ _ _ c)).
  Proof.
    intros Hs Hstep Hin. destruct (steps_invariant s0 tr c Hs) as ([_ _ Hhw Hhr] & _).
    inversion Hstep; subst; simpl in Hin; try contradiction.
    - destruct (wr o); [contradiction|]. destruct Hin as [<- | []].
      exists t, o. rewrite H. simpl. repeat split; auto.
      + intros Hm. apply Hhw. rewrite H. exact Hm.
      + intros Hm. apply Hhr. rewrite H. exact Hm.
    - destruct (wr o); [contradiction|]. destruct Hin as [<- | []].
      exists t, o. rewrite H. simpl. repeat split; auto; intros Hm; congruence.
    - destruct (wr o); [|contradiction]. destruct Hin as [<- | []].
      exists t, o. rewrite H. simpl. repeat split; auto.
      + intros Hm. apply Hhw. rewrite H. exact Hm.
      + intros Hm. apply Hhr. rewrite H. exact Hm.
  Qed.
End LinProofs.

(* ------------------------------------------------------------------ *)
(** * Transfer of sequential facts to the responses of a linearizable history
      (no lock discipline needed here: this is about the definition) *)

Section Transfer.
  Variables (St Op Res : Type).
  Variable sem : St -> Op -> St * Res.

  Notation lent := (lent Op Res).
  Notation seq_legal := (seq_legal St Op Res sem).
  Notation seq_state := (seq_state St Op Res sem).
  Notation seq_run := (seq_run St Op Res sem).

  Definition l_op (x : lent) : Op := snd (fst x).

  Lemma seq_legal_app s L1 L2 :
    seq_legal s (L1 ++ L2) -> seq_legal s L1 /\ seq_legal (seq_state s L1) L2.
  Proof.
    revert s. induction L1 as [|[[i o] r] L1 IH]; intros s HL; simpl in *.
    - split; [exact I | exact HL].
    - destruct HL as [H1 H2]. destruct (IH _ H2) as [H3 H4]. repeat split; assumption.
  Qed.

  Lemma seq_state_run s L : seq_state s L = seq_run s (map l_op L).
  Proof.
    revert s. induction L as [|[[i o] r] L IH]; intros s; simpl; [reflexivity | apply IH].
  Qed.

  (** every response of a linearizable history is the sequential result after
      some sequence of operations that were invoked in the history *)
  Lemma lin_response_sequential s0 H :
    linearizable St Op Res sem s0 H ->
    forall i t r, In (HResp i t r) H ->
    exists ops o, (forall o', In o' (ops ++ [o]) -> exists i' t', In (HInv i' t' o') H) /\
                  (exists t', In (HInv i t' o) H) /\
                  r = snd (sem (seq_run s0 ops) o).
  Proof.
    intros (L & Hnd & HLi & Hre & Hleg & _) i t r Hin.
    destruct (Hre _ _ _ Hin) as [o Ho].
    destruct (in_split _ _ Ho) as (L1 & L2 & ->).
    exists (map l_op L1), o. split; [|split].
    - intros o' Ho'. apply in_app_or in Ho'. destruct Ho' as [Ho' | [<- | []]].
      + apply in_map_iff in Ho'. destruct Ho' as ([[j oj] rj] & E & Hj). simpl in E. subst.
        destruct (HLi j oj rj) as [tj Htj]; [apply in_or_app; left; exact Hj|]. eauto.
      + destruct (HLi i o r Ho) as [ti Hti]. eauto.
    - apply (HLi i o r Ho).
    - apply seq_legal_app in Hleg. destruct Hleg as [_ Hleg]. simpl in Hleg.
      destruct Hleg as [Hr _]. rewrite seq_state_run in Hr. symmetry. exact Hr.
  Qed.

  (** [lin_transfer]: a property of results that holds in every state reachable
      sequentially by operations invoked in the history holds of every response *)
  Theorem lin_transfer s0 H (P : Op -> Res -> Prop) :
    linearizable St Op Res sem s0 H ->
    (forall ops o, (forall o', In o' (ops ++ [o]) -> exists i t, In (HInv i t o') H) ->
                   P o (snd (sem (seq_run s0 ops) o))) ->
    forall i t r, In (HResp i t r) H -> exists o t', In (HInv i t' o) H /\ P o r.
  Proof.
    intros Hlin HP i t r Hin.
    destruct (lin_response_sequential s0 H Hlin i t r Hin) as (ops & o & Hops & [t' Ht'] & ->).
    exists o, t'. split; [exact Ht' | apply HP; exact Hops].
  Qed.
End Transfer.

(* ------------------------------------------------------------------ *)
(** * The discipline is a real hypothesis: a storing operation under the SHARED
      lock yields a trace of the semantics whose history is NOT linearizable
      (two increments, both returning the old value 0: a lost update). *)

(** apply a step constructor to the configuration of the goal *)
Ltac cfg_step k :=
  match goal with |- Lin.step _ _ _ _ _ _ ?c _ _ => k c; reflexivity end.

Section Necessity.
  Lemma steps_cons St Op Res sem mode wr c0 l c1 tr c :
    step St Op Res sem mode wr c0 l c1 -> steps St Op Res sem mode wr c1 tr c ->
    steps St Op Res sem mode wr c0 (l :: tr) c.
  Proof.
    intros Hs Hst. induction Hst as [|tr c l' c' Hst IH Hs'].
    - apply (steps_snoc St Op Res sem mode wr c0 [] c0 l c1); [apply steps_nil | exact Hs].
    - apply (steps_snoc St Op Res sem mode wr c0 (l :: tr) c l' c'); assumption.
  Qed.

  (** a counter; the only operation increments it and returns the old value *)
  Definition cnt_sem (s : nat) (o : unit) : nat * nat := (S s, s).
  Definition cnt_mode (o : unit) : lmode := Shared.
  Definition cnt_wr (o : unit) : bool := true.

  Definition lost_trace : list (label unit nat) :=
    [LInv 0 0 tt; LInv 1 1 tt; LAcq 0 0; LAcq 1 1; LRead 0 0 tt; LRead 1 1 tt;
     LWrite 0 0 tt; LWrite 1 1 tt; LRel 0 0; LRel 1 1; LResp 0 0 0; LResp 1 1 0].

  Lemma lost_trace_is_a_trace :
    exists c, steps nat unit nat cnt_sem cnt_mode cnt_wr (init nat unit nat 0) lost_trace c.
  Proof.
    eexists. unfold lost_trace.
    cbn [k_st k_w k_r k_pc k_next init rel_w rel_r cnt_mode]; eapply steps_cons; [cfg_step ltac:(fun c => eapply (s_inv _ _ _ _ _ _ c 0 tt))|].
    cbn [k_st k_w k_r k_pc k_next init rel_w rel_r cnt_mode]; eapply steps_cons; [cfg_step ltac:(fun c => eapply (s_inv _ _ _ _ _ _ c 1 tt))|].
    cbn [k_st k_w k_r k_pc k_next init rel_w rel_r cnt_mode]; eapply steps_cons; [cfg_step ltac:(fun c => eapply (s_acq_shared _ _ _ _ _ _ c 0))|].
    cbn [k_st k_w k_r k_pc k_next init rel_w rel_r cnt_mode]; eapply steps_cons; [cfg_step ltac:(fun c => eapply (s_acq_shared _ _ _ _ _ _ c 1))|].
    cbn [k_st k_w k_r k_pc k_next init rel_w rel_r cnt_mode]; eapply steps_cons; [cfg_step ltac:(fun c => eapply (s_read_locked _ _ _ _ _ _ c 0))|].
    cbn [k_st k_w k_r k_pc k_next init rel_w rel_r cnt_mode]; eapply steps_cons; [cfg_step ltac:(fun c => eapply (s_read_locked _ _ _ _ _ _ c 1))|].
    cbn [k_st k_w k_r k_pc k_next init rel_w rel_r cnt_mode]; eapply steps_cons; [cfg_step ltac:(fun c => eapply (s_write _ _ _ _ _ _ c 0))|].
    cbn [k_st k_w k_r k_pc k_next init rel_w rel_r cnt_mode]; eapply steps_cons; [cfg_step ltac:(fun c => eapply (s_write _ _ _ _ _ _ c 1))|].
    cbn [k_st k_w k_r k_pc k_next init rel_w rel_r cnt_mode]; eapply steps_cons; [cfg_step ltac:(fun c => eapply (s_rel _ _ _ _ _ _ c 0))|].
    cbn [k_st k_w k_r k_pc k_next init rel_w rel_r cnt_mode]; eapply steps_cons; [cfg_step ltac:(fun c => eapply (s_rel _ _ _ _ _ _ c 1))|].
    cbn [k_st k_w k_r k_pc k_next init rel_w rel_r cnt_mode]; eapply steps_cons; [cfg_step ltac:(fun c => eapply (s_resp _ _ _ _ _ _ c 0))|].
    cbn [k_st k_w k_r k_pc k_next init rel_w rel_r cnt_mode]; eapply steps_cons; [cfg_step ltac:(fun c => eapply (s_resp _ _ _ _ _ _ c 1))|].
    cbn [k_st k_w k_r k_pc k_next init rel_w rel_r cnt_mode]. apply steps_nil.
  Qed.

  Lemma cnt_legal_ge L : forall s, seq_legal nat unit nat cnt_sem s L ->
    forall i o r, In (i, o, r) L -> s <= r.
  Proof.
    induction L as [|[[j o'] r'] L IH]; intros s HL i o r Hin; [contradiction|].
    simpl in HL. destruct HL as [Hr HL]. destruct Hin as [E | Hin].
    - injection E as <- <- <-. simpl in Hr. lia.
    - specialize (IH _ HL _ _ _ Hin). simpl in IH. lia.
  Qed.

  Theorem shared_writers_not_linearizable :
    ~ linearizable nat unit nat cnt_sem 0 (hist unit nat lost_trace).
  Proof.
    intros (L & _ & _ & Hre & Hleg & _).
    destruct (Hre 0 0 0) as [o0 H0]; [simpl; auto|].
    destruct (Hre 1 1 0) as [o1 H1]; [simpl; auto|].
    destruct L as [|[[j o'] r'] L]; [contradiction|].
    simpl in Hleg. destruct Hleg as [_ Hleg].
    destruct H0 as [E0 | H0]; [|apply (cnt_legal_ge _ _ Hleg) in H0; simpl in H0; lia].
    destruct H1 as [E1 | H1]; [|apply (cnt_legal_ge _ _ Hleg) in H1; simpl in H1; lia].
    congruence.
  Qed.
End Necessity.
