(* SqlCheckBase.v — definitions shared by the correspondence evaluators of
   C06 and C14: acceptance of an observed answer by the relational model
   (the order among equal created_at is SQLite's, so where a LIMIT cuts
   through a created_at level the model admits every choice), and equality of
   two answers up to the order inside a created_at level. *)
From Moc Require Import Base Match Sql SqlSpec.
Open Scope Z_scope.

Inductive qres := QOk (out : list event) | QErr.

Fixpoint remove_first (x : event) (l : list event) : option (list event) :=
  match l with
  | [] => None
  | y :: l' => if ev_eqb x y then Some l'
               else match remove_first x l' with Some r => Some (y :: r) | None => None end
  end.

Fixpoint perm_b (a b : list event) : bool :=
  match a with
  | [] => match b with [] => true | _ => false end
  | x :: a' => match remove_first x b with Some b' => perm_b a' b' | None => false end
  end.

(** same created_at sequence, same multiset of 7-tuples *)
Definition level_eq (a b : list event) : bool :=
  list_eqb Z.eqb (List.map ev_ts a) (List.map ev_ts b) &&& perm_b a b.

Definition qres_eq (a b : qres) : bool :=
  match a, b with
  | QOk x, QOk y => level_eq x y
  | QErr, QErr => true
  | _, _ => false
  end.

(** candidate events of one filter in the model: the sub-select's rows before
    ORDER BY / LIMIT, joined with their payload rows *)
Definition model_cands (s : db) (f : rfilter) : option (list event) :=
  match sub_candidates s f with
  | None => None
  | Some rows => Some (List.map (fun rp => event_of_row (fst rp) (snd rp)) (join_payloads s rows))
  end.

Definition all_events_of (s : db) : list event :=
  List.map (fun rp => event_of_row (fst rp) (snd rp)) (join_payloads s (d_events s)).

Definition model_accepts (s : db) (fs : list rfilter) (maxLimit : Z) (obs : qres) : bool :=
  match query s fs maxLimit, obs with
  | None, QErr => true
  | None, QOk _ => false
  | Some _, QErr => false
  | Some q, QOk out =>
      (* fast path: the answer is the model's own up to the order inside a
         created_at level (always a valid choice) *)
      if level_eq q out then true else
      (* an empty filter list has no WHERE clause: one candidate set, every row *)
      let ocs := match fs with
                 | [] => Some [(all_events_of s, @None Z)]
                 | _ => match all_some (List.map (model_cands s) fs) with
                        | Some cs => Some (combine cs (List.map (fun f => sub_limit_of (f_limit f) maxLimit) fs))
                        | None => None
                        end
                 end in
      match ocs with
      | None => false
      | Some cands =>
          let outer := goqu_limit_of (Some (to_int64 maxLimit)) maxLimit in
          if forallb (fun cl => nodupb (fst cl)) cands then
            union_topn_ok cands outer out &&&
            (* where no LIMIT cuts through a created_at level the answer is determined *)
            (if forallb (fun cl => match ties_of cl with [] => true | _ => false end) cands &&&
                match outer with None => true | Some m => zlen q <? m end
             then level_eq q out else true)
          else false
      end
  end.
