(* MatchProofs.v — C02: the model of event_matcher.go decides exactly the
   NIP-01 predicate, for every event and filter; the limit-counting form is
   exhausted exactly when every filter has a limit and has matched that many
   of the events fed. *)
From Moc Require Import Base Match.
From Moc.Gen Require Import GenMatch.
Open Scope Z_scope.

(* ------------------------------------------------------------------ *)
(** * Facts about the generated guards (one lemma per guard; everything
      below uses only these) *)

Lemma g_since_reject_spec ts s : g_since_reject ts s = true <-> ts < s.
Proof. unfold g_since_reject. apply Z.ltb_lt. Qed.

Lemma g_until_reject_spec ts u : g_until_reject ts u = true <-> u < ts.
Proof. unfold g_until_reject. apply Z.ltb_lt. Qed.

Lemma g_ids_reject_spec p m : g_ids_reject p m = p && negb m.
Proof. reflexivity. Qed.

Lemma g_kinds_reject_spec p m : g_kinds_reject p m = p && negb m.
Proof. reflexivity. Qed.

Lemma g_authors_reject_spec p m : g_authors_reject p m = p && negb m.
Proof. reflexivity. Qed.

Lemma g_tags_reject_spec a b : g_tags_reject a b = true <-> a < b.
Proof. unfold g_tags_reject. apply Z.ltb_lt. Qed.

Lemma g_tag_has_value_spec n : g_tag_has_value n = true <-> 2 <= n.
Proof. unfold g_tag_has_value. rewrite Z.geb_le. reflexivity. Qed.

Lemma g_done_spec h l c : g_done h l c = h && (l <=? c).
Proof. reflexivity. Qed.

(* ------------------------------------------------------------------ *)
(** * The boolean oracle is the declarative predicate *)

Lemma has_tagb_spec e n vs : has_tagb e n vs = true <-> has_tag e n vs.
Proof.
  unfold has_tagb, has_tag. rewrite existsb_exists. split.
  - intros [t [Hin H]]. destruct t as [|n' r]; [discriminate|].
    apply andb_true_iff in H as [H1 H2]. apply str_eqb_eq in H1; subst.
    apply mem_str_In in H2. exists (n :: r). auto.
  - intros [t [Hin [Hhd Hv]]]. exists t. split; [assumption|].
    destruct t as [|n' r]; simpl in Hhd; [discriminate|]. inversion Hhd; subst.
    apply andb_true_iff. split; [apply str_eqb_refl | now apply mem_str_In].
Qed.

Lemma match_specb_spec e f : match_specb e f = true <-> match_spec e f.
Proof.
  unfold match_specb, match_spec. rewrite !andb_true_iff.
  assert (H1 : opt_holdsb (f_ids f) (mem_str (ev_id e)) = true <->
               opt_holds (f_ids f) (fun l => In (ev_id e) l)).
  { destruct (f_ids f); simpl; [apply mem_str_In | tauto]. }
  assert (H2 : opt_holdsb (f_authors f) (mem_str (ev_pk e)) = true <->
               opt_holds (f_authors f) (fun l => In (ev_pk e) l)).
  { destruct (f_authors f); simpl; [apply mem_str_In | tauto]. }
  assert (H3 : opt_holdsb (f_kinds f) (mem_Z (ev_kind e)) = true <->
               opt_holds (f_kinds f) (fun l => In (ev_kind e) l)).
  { destruct (f_kinds f); simpl; [apply mem_Z_In | tauto]. }
  assert (H4 : opt_holdsb (f_tags f) (forallb (fun nv => has_tagb e (fst nv) (snd nv))) = true <->
               opt_holds (f_tags f) (fun m => forall n vs, In (n, vs) m -> has_tag e n vs)).
  { destruct (f_tags f) as [m|]; simpl; [|tauto]. rewrite forallb_forall. split.
    - intros H n vs Hin. apply has_tagb_spec. apply (H (n, vs) Hin).
    - intros H [n vs] Hin. simpl. apply has_tagb_spec. now apply H. }
  assert (H5 : opt_holdsb (f_since f) (fun s => s <=? ev_ts e) = true <->
               opt_holds (f_since f) (fun s => s <= ev_ts e)).
  { destruct (f_since f); simpl; [apply Z.leb_le | tauto]. }
  assert (H6 : opt_holdsb (f_until f) (fun u => ev_ts e <=? u) = true <->
               opt_holds (f_until f) (fun u => ev_ts e <= u)).
  { destruct (f_until f); simpl; [apply Z.leb_le | tauto]. }
  tauto.
Qed.

Lemma matches_specb_spec e fs : matches_specb e fs = true <-> matches_spec e fs.
Proof.
  unfold matches_specb, matches_spec. rewrite existsb_exists.
  split; intros [f [Hin H]]; exists f; (split; [assumption|]); now apply match_specb_spec.
Qed.

(* ------------------------------------------------------------------ *)
(** * The [found] loop *)

(** a tag of the event "hits" name [n] of the filter's tag map *)
Definition hits (tags : list tag) (m : list (str * list str)) (n : str) : Prop :=
  exists t vs, In t tags /\ hd_error t = Some n /\ assoc n m = Some vs /\ In (tag_value t) vs.

Lemma tag_value_guard t :
  (if g_tag_has_value (Z.of_nat (length t)) then tag_value t else []) = tag_value t.
Proof.
  destruct (g_tag_has_value (Z.of_nat (length t))) eqn:E; [reflexivity|].
  destruct t as [|a [|b r]]; try reflexivity.
  exfalso. assert (g_tag_has_value (Z.of_nat (length (a :: b :: r))) = true).
  { apply g_tag_has_value_spec. simpl length. lia. }
  congruence.
Qed.

Lemma found_loop_spec tags m :
  Forall (fun t => t <> []) tags ->
  forall found, NoDup found -> (forall n, In n found -> In n (List.map fst m)) ->
  exists found',
    found_loop tags m found = Ok found' /\ NoDup found' /\
    (forall n, In n found' -> In n (List.map fst m)) /\
    (forall n, In n found' <-> In n found \/ hits tags m n).
Proof.
  induction tags as [|t tags IH]; intros Hne found ND Hsub.
  - exists found. simpl. repeat split; auto.
    + intros [H|[t [vs [[] _]]]]; assumption.
  - inversion Hne as [|? ? Ht Hne']; subst.
    destruct t as [|n r]; [contradiction|]. cbn [found_loop].
    destruct (mem_str n found) eqn:Emem.
    + destruct (IH Hne' found ND Hsub) as [f' [E [ND' [Hsub' Hiff]]]].
      exists f'. repeat split; try assumption.
      * intro H. apply Hiff in H as [H|[t [vs [Hin H]]]]; [now left|].
        right. exists t, vs. split; [now right | assumption].
      * intros [H|[t [vs [[Ht0|Hin] [Hhd H]]]]].
        -- apply Hiff. now left.
        -- subst t. simpl in Hhd. inversion Hhd; subst. apply Hiff. left.
           now apply mem_str_In.
        -- apply Hiff. right. exists t, vs. auto.
    + rewrite tag_value_guard.
      destruct (assoc n m) as [vs|] eqn:Eas.
      * destruct (mem_str (tag_value (n :: r)) vs) eqn:Ev.
        -- assert (ND1 : NoDup (n :: found)).
           { constructor; [|assumption]. intro H. apply mem_str_In in H. congruence. }
           assert (Hsub1 : forall x, In x (n :: found) -> In x (List.map fst m)).
           { intros x [<-|H]; [|now apply Hsub]. apply assoc_In in Eas.
             change n with (fst (n, vs)). now apply in_map. }
           destruct (IH Hne' (n :: found) ND1 Hsub1) as [f' [E [ND' [Hsub' Hiff]]]].
           exists f'. repeat split; try assumption.
           ++ intro H. apply Hiff in H as [[<-|H]|[t [vs' [Hin H]]]].
              ** right. exists (n :: r), vs. repeat split; [now left | assumption | now apply mem_str_In].
              ** now left.
              ** right. exists t, vs'. split; [now right | assumption].
           ++ intros [H|[t [vs' [[Ht0|Hin] [Hhd H]]]]].
              ** apply Hiff. left. now right.
              ** subst t. simpl in Hhd. inversion Hhd; subst. apply Hiff. left. now left.
              ** apply Hiff. right. exists t, vs'. auto.
        -- destruct (IH Hne' found ND Hsub) as [f' [E [ND' [Hsub' Hiff]]]].
           exists f'. repeat split; try assumption.
           ++ intro H. apply Hiff in H as [H|[t [vs' [Hin H]]]]; [now left|].
              right. exists t, vs'. split; [now right | assumption].
           ++ intros [H|[t [vs' [[Ht0|Hin] [Hhd [Has Hv]]]]]].
              ** apply Hiff. now left.
              ** subst t. simpl in Hhd. inversion Hhd; subst. rewrite Eas in Has.
                 inversion Has; subst. apply mem_str_In in Hv. congruence.
              ** apply Hiff. right. exists t, vs'. auto.
      * destruct (IH Hne' found ND Hsub) as [f' [E [ND' [Hsub' Hiff]]]].
        exists f'. repeat split; try assumption.
        -- intro H. apply Hiff in H as [H|[t [vs' [Hin H]]]]; [now left|].
           right. exists t, vs'. split; [now right | assumption].
        -- intros [H|[t [vs' [[Ht0|Hin] [Hhd [Has Hv]]]]]].
           ++ apply Hiff. now left.
           ++ subst t. simpl in Hhd. inversion Hhd; subst. congruence.
           ++ apply Hiff. right. exists t, vs'. auto.
Qed.

Lemma hits_has_tag e m n :
  NoDup (List.map fst m) ->
  (hits (ev_tags e) m n <-> exists vs, In (n, vs) m /\ has_tag e n vs).
Proof.
  intro ND. unfold hits, has_tag. split.
  - intros [t [vs [Hin [Hhd [Has Hv]]]]]. exists vs. split; [now apply assoc_In|].
    exists t. auto.
  - intros [vs [Hm [t [Hin [Hhd Hv]]]]]. exists t, vs. repeat split; try assumption.
    now apply In_assoc_NoDup.
Qed.

(** the tag clause of [Match] *)
Lemma tags_clause e m :
  tags_nonempty e -> NoDup (List.map fst m) ->
  exists found,
    found_loop (ev_tags e) m [] = Ok found /\
    (negb (g_tags_reject (Z.of_nat (length found)) (Z.of_nat (length m))) = true <->
     forall n vs, In (n, vs) m -> has_tag e n vs).
Proof.
  intros Hne ND.
  destruct (found_loop_spec (ev_tags e) m Hne [] (NoDup_nil _)) as [f' [E [ND' [Hsub Hiff]]]].
  { intros n []. }
  exists f'. split; [assumption|].
  rewrite negb_true_iff.
  assert (Hlen : (length f' <= length (List.map fst m))%nat).
  { apply NoDup_incl_length; [assumption | exact Hsub]. }
  rewrite map_length in Hlen.
  split.
  - intros Hrej n vs Hin.
    assert (Hge : (length m <= length f')%nat).
    { destruct (g_tags_reject (Z.of_nat (length f')) (Z.of_nat (length m))) eqn:G; [discriminate|].
      destruct (Nat.le_gt_cases (length m) (length f')) as [H|H]; [assumption|].
      exfalso. assert (g_tags_reject (Z.of_nat (length f')) (Z.of_nat (length m)) = true).
      { apply g_tags_reject_spec. lia. }
      congruence. }
    assert (Hincl : incl (List.map fst m) f').
    { apply NoDup_length_incl; [assumption | rewrite map_length; lia | exact Hsub]. }
    assert (Hn : In n f').
    { apply Hincl. change n with (fst (n, vs)). now apply in_map. }
    apply Hiff in Hn as [[]|Hh].
    apply (hits_has_tag e m n ND) in Hh as [vs' [Hin' Ht]].
    assert (vs' = vs).
    { apply (In_assoc_NoDup _ _ _ ND) in Hin. apply (In_assoc_NoDup _ _ _ ND) in Hin'. congruence. }
    now subst.
  - intro Hall.
    destruct (g_tags_reject (Z.of_nat (length f')) (Z.of_nat (length m))) eqn:G; [|reflexivity].
    apply g_tags_reject_spec in G. exfalso.
    assert (Hincl : incl (List.map fst m) f').
    { intros n Hn. apply in_map_iff in Hn as [[n' vs] [<- Hin]]. simpl.
      apply Hiff. right. apply (hits_has_tag e m n' ND). exists vs. split; [assumption|].
      now apply Hall. }
    assert ((length (List.map fst m) <= length f')%nat).
    { apply NoDup_incl_length; assumption. }
    rewrite map_length in H. lia.
Qed.

(* ------------------------------------------------------------------ *)
(** * Main theorem: [Match] decides the NIP-01 predicate *)

Lemma reject_clause {A} (o : option A) (p : A -> bool) :
  isSome o && negb (optb o p) = negb (opt_holdsb o p).
Proof. destruct o; reflexivity. Qed.

Lemma tags_part_correct e f :
  tags_nonempty e -> filter_wf f ->
  tags_part e f = Ok (opt_holdsb (f_tags f) (forallb (fun nv => has_tagb e (fst nv) (snd nv)))).
Proof.
  intros Hne Hwf. unfold tags_part, filter_wf in *.
  destruct (f_tags f) as [m|]; [|reflexivity]. simpl opt_holdsb.
  destruct (tags_clause e m Hne Hwf) as [found [E Hiff]]. rewrite E. f_equal.
  apply eq_true_iff_eq. rewrite Hiff, forallb_forall. split.
  - intros H [n vs] Hin. simpl. apply has_tagb_spec. now apply H.
  - intros H n vs Hin. apply has_tagb_spec. apply (H (n, vs) Hin).
Qed.

Lemma since_clause ts (o : option Z) :
  optb o (g_since_reject ts) = negb (opt_holdsb o (fun s => s <=? ts)).
Proof.
  destruct o as [s|]; [|reflexivity]. simpl.
  destruct (g_since_reject ts s) eqn:G.
  - apply g_since_reject_spec in G. symmetry. apply negb_true_iff, Z.leb_gt. lia.
  - symmetry. apply negb_false_iff, Z.leb_le.
    destruct (Z.lt_ge_cases ts s) as [H|H]; [|lia].
    apply g_since_reject_spec in H. congruence.
Qed.

Lemma until_clause ts (o : option Z) :
  optb o (g_until_reject ts) = negb (opt_holdsb o (fun u => ts <=? u)).
Proof.
  destruct o as [u|]; [|reflexivity]. simpl.
  destruct (g_until_reject ts u) eqn:G.
  - apply g_until_reject_spec in G. symmetry. apply negb_true_iff, Z.leb_gt. lia.
  - symmetry. apply negb_false_iff, Z.leb_le.
    destruct (Z.lt_ge_cases u ts) as [H|H]; [|lia].
    apply g_until_reject_spec in H. congruence.
Qed.

Theorem match_impl_correct e f :
  tags_nonempty e -> filter_wf f -> match_impl e f = Ok (match_specb e f).
Proof.
  intros Hne Hwf. unfold match_impl, match_specb.
  rewrite g_ids_reject_spec, g_kinds_reject_spec, g_authors_reject_spec, !reject_clause.
  rewrite (tags_part_correct e f Hne Hwf), since_clause, until_clause.
  destruct (opt_holdsb (f_ids f) (mem_str (ev_id e))); cbn [negb andb]; [|reflexivity].
  destruct (opt_holdsb (f_kinds f) (mem_Z (ev_kind e))); cbn [negb andb].
  2: { destruct (opt_holdsb (f_authors f) (mem_str (ev_pk e))); reflexivity. }
  destruct (opt_holdsb (f_authors f) (mem_str (ev_pk e))); cbn [negb andb]; [|reflexivity].
  destruct (opt_holdsb (f_tags f) (forallb (fun nv => has_tagb e (fst nv) (snd nv)))); cbn [negb andb]; [|reflexivity].
  destruct (opt_holdsb (f_since f) (fun s => s <=? ev_ts e)); cbn [negb andb]; [|reflexivity].
  destruct (opt_holdsb (f_until f) (fun u => ev_ts e <=? u)); reflexivity.
Qed.

Corollary match_correct e f :
  tags_nonempty e -> filter_wf f -> (match_impl e f = Ok true <-> match_spec e f).
Proof.
  intros Hne Hwf. rewrite (match_impl_correct e f Hne Hwf), <- match_specb_spec.
  split; [intro H; now inversion H | intros ->; reflexivity].
Qed.

Corollary match_correct_neg e f :
  tags_nonempty e -> filter_wf f -> (match_impl e f = Ok false <-> ~ match_spec e f).
Proof.
  intros Hne Hwf. rewrite (match_impl_correct e f Hne Hwf), <- match_specb_spec.
  destruct (match_specb e f); split; intro H.
  - discriminate.
  - exfalso; now apply H.
  - intro; discriminate.
  - reflexivity.
Qed.

(** an empty list matches nothing; absent conditions do not constrain *)
Corollary match_empty_ids_none e f : f_ids f = Some [] -> ~ match_spec e f.
Proof. unfold match_spec. intros -> [H _]. exact H. Qed.

Corollary match_empty_authors_none e f : f_authors f = Some [] -> ~ match_spec e f.
Proof. unfold match_spec. intros -> [_ [H _]]. exact H. Qed.

Corollary match_empty_kinds_none e f : f_kinds f = Some [] -> ~ match_spec e f.
Proof. unfold match_spec. intros -> [_ [_ [H _]]]. exact H. Qed.

Corollary match_empty_tagvalues_none e f m n :
  f_tags f = Some m -> In (n, []) m -> ~ match_spec e f.
Proof.
  unfold match_spec. intros -> Hin [_ [_ [_ [H _]]]]. simpl in H.
  destruct (H n [] Hin) as [t [_ [_ []]]].
Qed.

Corollary match_empty_filter_all e : match_spec e empty_filter.
Proof. unfold match_spec, empty_filter; simpl. tauto. Qed.

(** the only way [Match] panics is an empty tag met by the tag loop *)
Theorem match_panics_only_on_empty_tag e f :
  filter_wf f -> match_impl e f = Panic -> ~ tags_nonempty e.
Proof.
  intros Hwf Hp Hne. rewrite (match_impl_correct e f Hne Hwf) in Hp. discriminate.
Qed.

(* ------------------------------------------------------------------ *)
(** * Filter lists *)

Theorem lms_match_or e ms :
  tags_nonempty e -> Forall (fun m => filter_wf (lm_f m)) ms ->
  lms_match ms e = Ok (matches_specb e (List.map lm_f ms)).
Proof.
  intros Hne. induction ms as [|m ms IH]; intro Hwf; simpl; [reflexivity|].
  inversion Hwf as [|? ? Hm Hms]; subst.
  rewrite (match_impl_correct e (lm_f m) Hne Hm), (IH Hms). reflexivity.
Qed.

Lemma map_lm_f_new fs : List.map lm_f (lms_new fs) = fs.
Proof. unfold lms_new. rewrite map_map. simpl. apply map_id. Qed.

Theorem matchers_or e fs :
  tags_nonempty e -> Forall filter_wf fs ->
  lms_match (lms_new fs) e = Ok (matches_specb e fs).
Proof.
  intros Hne Hwf. rewrite lms_match_or; [now rewrite map_lm_f_new | assumption |].
  unfold lms_new. rewrite Forall_map. simpl. exact Hwf.
Qed.

(** one step of the limit-counting list form: every member is consulted
    (no short-circuit), each counter advances iff its own filter matched *)
Definition lm_step (e : event) (m : lmatcher) : lmatcher :=
  if match_specb e (lm_f m) then mkLM (lm_f m) (lm_cnt m + 1) else m.

Lemma lms_limit_match_step e ms :
  tags_nonempty e -> Forall (fun m => filter_wf (lm_f m)) ms ->
  lms_limit_match ms e = Ok (List.map (lm_step e) ms, matches_specb e (List.map lm_f ms)).
Proof.
  intros Hne. induction ms as [|m ms IH]; intro Hwf; simpl; [reflexivity|].
  inversion Hwf as [|? ? Hm Hms]; subst.
  unfold lm_limit_match, lm_step. rewrite (match_impl_correct e (lm_f m) Hne Hm), (IH Hms).
  destruct (match_specb e (lm_f m)); reflexivity.
Qed.

Lemma lm_step_f e m : lm_f (lm_step e m) = lm_f m.
Proof. unfold lm_step. destruct (match_specb e (lm_f m)); reflexivity. Qed.

Definition lm_after (es : list event) (m : lmatcher) : lmatcher :=
  mkLM (lm_f m) (lm_cnt m + Z.of_nat (count_occ_b (fun e => match_specb e (lm_f m)) es)).

Lemma lms_feed_spec es : forall ms,
  Forall tags_nonempty es -> Forall (fun m => filter_wf (lm_f m)) ms ->
  lms_feed ms es = Ok (List.map (lm_after es) ms).
Proof.
  induction es as [|e es IH]; intros ms Hne Hwf.
  - simpl. f_equal. rewrite <- (map_id ms) at 1. apply map_ext.
    intros [f c]. unfold lm_after. simpl. f_equal. lia.
  - inversion Hne as [|? ? He Hes]; subst. cbn [lms_feed].
    rewrite (lms_limit_match_step e ms He Hwf).
    rewrite IH; [|assumption|].
    + f_equal. rewrite map_map. apply map_ext. intros [f c].
      unfold lm_after, lm_step. simpl.
      destruct (match_specb e f); simpl; f_equal; lia.
    + rewrite Forall_map. eapply Forall_impl; [|exact Hwf].
      intros m Hm. now rewrite lm_step_f.
Qed.

Theorem limit_counter fs es :
  Forall tags_nonempty es -> Forall filter_wf fs ->
  lms_feed (lms_new fs) es =
  Ok (List.map (fun f => mkLM f (Z.of_nat (count_occ_b (fun e => match_specb e f) es))) fs).
Proof.
  intros Hne Hwf. rewrite lms_feed_spec; [|assumption|].
  - unfold lms_new. rewrite map_map. reflexivity.
  - unfold lms_new. rewrite Forall_map. exact Hwf.
Qed.

Lemma exhaustedb_spec fs es : exhaustedb fs es = true <-> exhausted fs es.
Proof.
  unfold exhaustedb, exhausted. rewrite forallb_forall. split.
  - intros H f Hin. specialize (H f Hin). destruct (f_limit f) as [l|]; [|discriminate].
    exists l. split; [reflexivity | now apply Z.leb_le].
  - intros H f Hin. destruct (H f Hin) as [l [-> Hl]]. now apply Z.leb_le.
Qed.

Lemma forallb_map' {A B} (f : A -> B) (p : B -> bool) l :
  forallb p (List.map f l) = forallb (fun x => p (f x)) l.
Proof. induction l as [|x l IH]; simpl; [reflexivity | now rewrite IH]. Qed.

Lemma forallb_ext' {A} (p q : A -> bool) l :
  (forall x, p x = q x) -> forallb p l = forallb q l.
Proof. intro H. induction l as [|x l IH]; simpl; [reflexivity | now rewrite H, IH]. Qed.

Theorem done_iff_exhausted fs es ms :
  Forall tags_nonempty es -> Forall filter_wf fs ->
  lms_feed (lms_new fs) es = Ok ms ->
  (lms_done ms = true <-> exhausted fs es).
Proof.
  intros Hne Hwf E. rewrite (limit_counter fs es Hne Hwf) in E. inversion E; subst; clear E.
  rewrite <- exhaustedb_spec. unfold lms_done, exhaustedb. rewrite forallb_map'.
  apply eq_iff_eq_true.
  apply forallb_ext'. intro f. unfold lm_done. simpl. rewrite g_done_spec.
  destruct (f_limit f); reflexivity.
Qed.

(* ------------------------------------------------------------------ *)
(** * Non-vacuity: concrete events and filters meeting the hypotheses *)

Example ex_event : event :=
  mkEvent [1]%N [2]%N 10 1 [[[101]%N; [7]%N]; [[112]%N]] [] [].
Example ex_filter : rfilter :=
  mkFilter None (Some [[2]%N]) None (Some [([101]%N, [[7]%N; [8]%N]); ([112]%N, [[]])]) (Some 10) (Some 10) (Some 1).

Example ex_hyps : tags_nonempty ex_event /\ filter_wf ex_filter /\ match_impl ex_event ex_filter = Ok true.
Proof.
  repeat split.
  - repeat constructor; discriminate.
  - simpl. repeat constructor; simpl; intuition discriminate.
Qed.
