(* Gate.v — C12: model of the WebSocket session gate of relay.go
   (Relay.serveReadLoop / serveRead, serveWriteLoop / sendMsgWithTimeout) and the
   specification of the property with its boolean form.  Definitions only;
   proofs are in GateProofs.v.

   The gate is a chain of tests over the OUTCOMES of checks that other
   properties model in detail (C10: ParseClientMsg, C11: ValidClientMsg, C01:
   Verify); a frame is therefore a record of those outcomes, plus an abstract
   message id.  Every test of the chain is a guard regenerated from relay.go
   (Gen/GenGate.v); the order of the tests, the number of notices per branch and
   the `return nil` of every branch are regenerated as g_gate_order and pinned
   in GateProofs.v (gate_order_pinned).

   Part 1  model (mirrors the code)
   Part 2  specification (from the property text, no code structure) *)
From Moc Require Import Base.
From Moc.Gen Require Import GenGate.
Import String.StringSyntax.
Open Scope Z_scope.

Definition gtxt (s : String.string) : str := str_of_string s.
Arguments gtxt s%string_scope.

(* ================================================================== *)
(** * Part 1: the model *)

Inductive cmsg_kind := KEvent | KReq | KClose | KAuth | KCount.

(** msg.Event.Verify(): (true, nil) / (false, nil) / (false, err) *)
Inductive verify_outcome := VOk (authentic : bool) | VErr.

Record frame := mkFrame {
  fr_msg : Z;                     (* abstract id of the message carried by the frame *)
  fr_text : bool;                 (* typ == websocket.MessageText *)
  fr_utf8 : bool;                 (* utf8.Valid(payload) *)
  fr_json : bool;                 (* json.Valid(payload) *)
  fr_parse : option cmsg_kind;    (* what ParseClientMsg yields; None = error *)
  fr_valid : bool;                (* ValidClientMsg(msg) *)
  fr_verify : verify_outcome;     (* only looked at for EVENT *)
  fr_payload : str;               (* the bytes of the frame ("invalid client msg: %s") *)
  fr_evid : str                   (* msg.Event.ID ("invalid sig event: %s") *)
}.

(** The six notices of serveRead, in source order. *)
Inductive notice_class := NBinary | NBadJson | NParse | NInvalid | NInternal | NNotAuthentic.

Definition class_index (c : notice_class) : nat :=
  match c with
  | NBinary => 0 | NBadJson => 1 | NParse => 2 | NInvalid => 3 | NInternal => 4 | NNotAuthentic => 5
  end%nat.

Definition class_eqb (a b : notice_class) : bool := Nat.eqb (class_index a) (class_index b).

(** fmt.Sprintf restricted to what the generated formats contain: "%s" takes
    the (single) argument, "%%" is a percent sign. *)
Fixpoint fmt1 (f arg : str) : str :=
  match f with
  | [] => []
  | c :: r =>
      if N.eqb c 37 then
        match r with
        | d :: r' =>
            if N.eqb d 115 then arg ++ fmt1 r' arg
            else if N.eqb d 37 then 37%N :: fmt1 r' arg
            else c :: fmt1 r arg
        | [] => [c]
        end
      else c :: fmt1 r arg
  end.

Definition notice_arg (c : notice_class) (f : frame) : str :=
  match c with
  | NInvalid => fr_payload f
  | NNotAuthentic => fr_evid f
  | _ => []
  end.

Definition notice_text (c : notice_class) (f : frame) : str :=
  fmt1 (nth (class_index c) g_gate_notice_fmts []) (notice_arg c f).

Inductive verdict := Forward (m : Z) | Reject (c : notice_class).

(** websocket.MessageText = 1, websocket.MessageBinary = 2 *)
Definition typ_of (f : frame) : Z := if fr_text f then 1 else 2.
Definition parse_err (f : frame) : bool := match fr_parse f with None => true | Some _ => false end.
(** ValidClientMsg(nil) = false *)
Definition msg_valid (f : frame) : bool := match fr_parse f with None => false | Some _ => fr_valid f end.
Definition is_event (f : frame) : bool := match fr_parse f with Some KEvent => true | _ => false end.
Definition verify_err (f : frame) : bool := match fr_verify f with VErr => true | VOk _ => false end.
Definition verify_ok (f : frame) : bool := match fr_verify f with VOk b => b | VErr => false end.

(** serveRead after conn.Read succeeded, step by step.  AUTH messages carry an
    event too; the code does not verify it (only *ClientEventMsg is). *)
Definition gate (f : frame) : verdict :=
  if g_gate_not_text (typ_of f) then Reject NBinary else
  if g_gate_bad_json (fr_utf8 f) (fr_json f) then Reject NBadJson else
  if g_gate_parse_err (parse_err f) then Reject NParse else
  if g_gate_invalid (msg_valid f) then Reject NInvalid else
  if is_event f then
    if g_gate_verify_err (verify_err f) then Reject NInternal else
    if g_gate_not_authentic (verify_ok f) then Reject NNotAuthentic else
    Forward (fr_msg f)
  else Forward (fr_msg f).

(** serveRead returns nil on every branch after a successful read (pinned by
    gate_order_pinned), so serveReadLoop goes on to the next frame. *)
Definition serve_read (f : frame) : verdict * bool := (gate f, true).

Record rejection := mkRej { rj_msg : Z; rj_class : notice_class; rj_text : str }.

Record sess := mkSess {
  handler_input : list Z;         (* what was sent on recv, in order *)
  rejections : list rejection;    (* the notices sent on send by the gate, in order *)
  live : bool                     (* serveReadLoop still running *)
}.

Definition step (s : sess) (f : frame) : sess :=
  if live s then
    let '(v, cont) := serve_read f in
    match v with
    | Forward m => mkSess (handler_input s ++ [m]) (rejections s) cont
    | Reject c => mkSess (handler_input s) (rejections s ++ [mkRej (fr_msg f) c (notice_text c f)]) cont
    end
  else s.

Definition session (fs : list frame) : sess := fold_left step fs (mkSess [] [] true).

(** What the client sees when the peer works in lock-step (one frame, then
    wait for its effect): per frame either the gate's notice or whatever the
    handler emits on receiving the message. *)
Inductive out_item := GateNotice (r : rejection) | HandlerOut (k : Z).

Definition lockstep_stream (reply : Z -> list Z) (fs : list frame) : list out_item :=
  flat_map (fun f => match gate f with
                     | Forward m => List.map HandlerOut (reply m)
                     | Reject c => [GateNotice (mkRej (fr_msg f) c (notice_text c f))]
                     end) fs.

(** serveWriteLoop, the `case msg := <-send` arm: json.Marshal, then one
    conn.Write of the generated frame type; either error ends the loop. *)
Record wframe := mkW { wf_type : Z; wf_body : str }.

Section Write.
  Variable smsg : Type.
  Variable enc : smsg -> option str.      (* json.Marshal(msg), i.e. the message's MarshalJSON (C10) *)

  Definition write (m : smsg) : option wframe :=
    match enc m with Some b => Some (mkW g_gate_write_type b) | None => None end.

  Fixpoint write_loop (ms : list smsg) : list wframe :=
    match ms with
    | [] => []
    | m :: r => match write m with Some w => w :: write_loop r | None => [] end
    end.
End Write.

(* ================================================================== *)
(** * Part 2: the specification *)

Definition is_some {A} (o : option A) : bool := match o with Some _ => true | None => false end.

Definition authentic_if_event (f : frame) : bool :=
  match fr_parse f with
  | Some KEvent => match fr_verify f with VOk true => true | _ => false end
  | _ => true
  end.

(** "the text frames that are well-formed valid client messages (for EVENT also authentic)" *)
Definition forwardable_spec (f : frame) : bool :=
  fr_text f && fr_utf8 f && fr_json f && is_some (fr_parse f) && fr_valid f && authentic_if_event f.

Definition forwardable (f : frame) : option Z :=
  if forwardable_spec f then Some (fr_msg f) else None.

Fixpoint filter_map {A B} (g : A -> option B) (l : list A) : list B :=
  match l with
  | [] => []
  | x :: r => match g x with Some y => y :: filter_map g r | None => filter_map g r end
  end.

Definition rejected_frames (fs : list frame) : list frame := filter (fun f => negb (forwardable_spec f)) fs.
