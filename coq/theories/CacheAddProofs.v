(* CacheAddProofs.v — the cache model refines the listing-level
   specifications of C04 and C05: [listing_is_tree], the bridge between the
   model's keys and the property text's addresses and references, the
   declarative step specification, and the refinement theorems. *)
From Coq Require Import Permutation Sorted.
From Moc Require Import Base Match MatchProofs Cache CacheSpec CacheInv CacheHyp CacheFacts CacheInvProofs.
From Moc.Gen Require Import GenMsg GenCache.
Open Scope Z_scope.

(* ------------------------------------------------------------------ *)
(** * The match-everything query lists the tree *)

Lemma listing_is_tree_A s : InvA s -> c_listing s = c_tree s.
Proof.
  intro A. unfold c_listing, c_find.
  destruct (c_len s =? 0) eqn:Z0.
  - apply Z.eqb_eq in Z0. rewrite (a_len_tree s A) in Z0.
    destruct (c_tree s); [reflexivity | cbn in Z0; lia].
  - cbn [find_loop]. unfold idx_find.
    assert (g_full_scan (isSome (f_ids empty_filter)) (isSome (f_authors empty_filter))
                        (isSome (f_kinds empty_filter)) (isSome (f_tags empty_filter)) = true) as ->
        by (apply g_full_scan_spec; cbn; auto).
    rewrite (scan_loop_all (c_tree s) (lm_new empty_filter) []); [reflexivity | reflexivity|].
    apply (a_tree_sorted s A).
Qed.

Lemma listing_is_tree s : Inv s -> c_listing s = c_tree s.
Proof. intro I. apply inv_split in I as [A _]. now apply listing_is_tree_A. Qed.

Lemma listing_In s x : Inv s -> (In x (c_listing s) <-> In x (retained s)).
Proof.
  intro I. rewrite (listing_is_tree s I). apply inv_split in I as [A _]. now apply a_tree_In.
Qed.

Lemma listing_perm s : Inv s -> Permutation (c_listing s) (retained s).
Proof. intro I. rewrite (listing_is_tree s I). apply I. Qed.

Lemma listing_length s : Inv s -> Z.of_nat (length (c_listing s)) = c_len s.
Proof.
  intro I. rewrite (Permutation_length (listing_perm s I)). unfold retained, c_len. now rewrite map_length.
Qed.

(* ------------------------------------------------------------------ *)
(** * Keys versus addresses and references *)

Lemma type_not_eph k : g_event_type k <> 3 <-> cls_ephemeral k = false.
Proof.
  destruct (g_event_type_spec k) as [_ [H _]]. split.
  - intro N. destruct (cls_ephemeral k); [|reflexivity]. exfalso. apply N. now apply H.
  - intros E X. apply H in X. congruence.
Qed.

(** membership in the keys a deletion request names *)
Lemma k5_keys_of_In k tags :
  In k (k5_keys_of tags) <->
  exists n r, In (n :: k :: r) tags /\ (n = a_str \/ n = e_str).
Proof.
  induction tags as [|t tags IH]; cbn [k5_keys_of].
  - split; [intros [] | intros [n [r [[] _]]]].
  - destruct (g_k5_tag_short (Z.of_nat (length t))) eqn:Q.
    + apply g_k5_tag_short_spec in Q. rewrite IH. split.
      * intros [n [r [H N]]]. exists n, r. split; [now right | assumption].
      * intros [n [r [[E|H] N]]]; [subst t; cbn in Q; lia|]. exists n, r. auto.
    + destruct t as [|n [|v r]].
      * rewrite IH. split.
        -- intros [n [r [H N]]]. exists n, r. split; [now right | assumption].
        -- intros [n [r [[E|H] N]]]; [discriminate|]. exists n, r. auto.
      * rewrite IH. split.
        -- intros [n' [r [H N]]]. exists n', r. split; [now right | assumption].
        -- intros [n' [r [[E|H] N]]]; [discriminate|]. exists n', r. auto.
      * destruct (g_k5_tag_name n) eqn:Qn.
        -- apply g_k5_tag_name_spec in Qn. cbn [In]. rewrite IH. split.
           ++ intros [<-|[n' [r' [H N]]]]; [exists n, r; split; [now left | assumption]|].
              exists n', r'. split; [now right | assumption].
           ++ intros [n' [r' [[E|H] N]]]; [inversion E; now left|]. right. exists n', r'. auto.
        -- rewrite IH. split.
           ++ intros [n' [r' [H N]]]. exists n', r'. split; [now right | assumption].
           ++ intros [n' [r' [[E|H] N]]]; [|exists n', r'; auto].
              inversion E; subst. apply g_k5_tag_name_spec in N. congruence.
Qed.

Lemma refs_spec d x :
  refs d x = true <->
  exists n v r, In (n :: v :: r) (ev_tags d) /\
    ((n = e_str /\ v = ev_id x) \/
     (n = a_str /\ cls_addressable (ev_kind x) = true /\ v = address_of x)).
Proof.
  unfold refs. rewrite existsb_exists. split.
  - intros [t [Ht H]]. destruct t as [|n [|v r]]; try discriminate.
    exists n, v, r. split; [assumption|].
    apply orb_true_iff in H as [H|H].
    + apply andb_true_iff in H as [H1 H2]. left. split; now apply str_eqb_eq.
    + apply andb_true_iff in H as [H H3]. apply andb_true_iff in H as [H1 H2].
      right. repeat split; try assumption; now apply str_eqb_eq.
  - intros [n [v [r [Ht H]]]]. exists (n :: v :: r). split; [assumption|].
    apply orb_true_iff. destruct H as [[-> ->]|[-> [C ->]]].
    + left. now rewrite !str_eqb_refl.
    + right. now rewrite C, !str_eqb_refl.
Qed.

(** the code's notion of "names" agrees with the property's [refs] on
    well-shaped deletion requests *)
Lemma names_refs d x :
  ev_kind d = 5 -> k5_wf d -> key_wf x -> g_event_type (ev_kind x) <> 3 ->
  ((exists k, In k (k5_keys d) /\ (event_key x = k \/ ev_id x = k)) <-> refs d x = true).
Proof.
  intros K5 W [Wid Wpk] Ht. specialize (W K5). rewrite Forall_forall in W.
  pose proof (event_key_ncolon x (conj Wid Wpk)) as [N1 [N2 N4]].
  apply ncolon_colon_free in Wid.
  rewrite refs_spec. unfold k5_keys. split.
  - intros [k [Hk E]]. apply k5_keys_of_In in Hk as [n [r [Hin Hn]]].
    specialize (W _ Hin). cbn [k5_tag_wf] in W. destruct W as [We Wa].
    exists n, k, r. split; [assumption|].
    destruct Hn as [-> | ->].
    + specialize (Wa eq_refl). right. split; [reflexivity|].
      destruct E as [E|E]; [|rewrite <- E in Wa; lia].
      destruct (g_event_type_cases (ev_kind x)) as [T|[T|[T|T]]]; try contradiction.
      * rewrite <- E, (N1 T) in Wa. lia.
      * rewrite <- E, (N2 T) in Wa. lia.
      * split; [now apply g_event_type_spec|]. rewrite <- E. now apply event_key_addressable.
    + specialize (We eq_refl). apply ncolon_colon_free in We. left. split; [reflexivity|].
      destruct E as [E|E]; [|congruence].
      destruct (g_event_type_cases (ev_kind x)) as [T|[T|[T|T]]]; try contradiction.
      * rewrite <- E. now apply event_key_regular.
      * rewrite <- E, (N2 T) in We. lia.
      * specialize (N4 T). rewrite <- E in We. lia.
  - intros [n [v [r [Hin H]]]]. exists v. split.
    + apply k5_keys_of_In. exists n, r. split; [assumption|]. destruct H as [[-> _]|[-> _]]; auto.
    + destruct H as [[_ ->]|[_ [C ->]]]; [now right|]. left.
      apply event_key_addressable. now apply g_event_type_spec.
Qed.

Lemma suppressed_spec R e :
  suppressed R e = true <->
  exists d, In d R /\ ev_kind d = 5 /\ ev_pk d = ev_pk e /\ refs d e = true.
Proof.
  unfold suppressed, is_k5. rewrite existsb_exists. split.
  - intros [d [Hd H]]. apply andb_true_iff in H as [H H3]. apply andb_true_iff in H as [H1 H2].
    exists d. repeat split; auto; [now apply Z.eqb_eq | now apply str_eqb_eq].
  - intros [d [Hd [K [P F]]]]. exists d. split; [assumption|].
    rewrite K, P, F, str_eqb_refl. reflexivity.
Qed.

Lemma blocked_suppressed s e :
  Inv s -> Forall k5_wf (retained s) -> key_wf e -> g_event_type (ev_kind e) <> 3 ->
  (blockedP s e <-> suppressed (c_listing s) e = true).
Proof.
  intros I W We Ht. rewrite suppressed_spec. rewrite Forall_forall in W. unfold blockedP. split.
  - intros [d [Hd [K [P N]]]]. exists d. split; [now apply listing_In|]. repeat split; auto.
    apply (names_refs d e K (W d Hd) We Ht).
    destruct N as [N|N]; [exists (event_key e) | exists (ev_id e)]; auto.
  - intros [d [Hd [K [P F]]]]. apply (listing_In s d I) in Hd. exists d. repeat split; auto.
    apply (names_refs d e K (W d Hd) We Ht) in F as [k [Hk [E|E]]]; subst k; auto.
Qed.

Lemma removed_by_refs e x :
  k5_wf e -> key_wf x -> g_event_type (ev_kind x) <> 3 ->
  (removed_by e x <-> (is_k5 e = true /\ ev_pk x = ev_pk e /\ refs e x = true)).
Proof.
  intros W Wx Ht. unfold removed_by, is_k5. rewrite Z.eqb_eq. split.
  - intros [K [P N]]. repeat split; auto. now apply (names_refs e x K W Wx Ht).
  - intros [K [P F]]. repeat split; auto. now apply (names_refs e x K W Wx Ht).
Qed.

(** same key = same address, for distinct events *)
Lemma key_same_address x e :
  key_wf x -> key_wf e -> g_event_type (ev_kind x) <> 3 -> g_event_type (ev_kind e) <> 3 ->
  (ev_id x = ev_id e -> x = e) -> x <> e ->
  (event_key x = event_key e <-> same_address x e = true).
Proof.
  intros Wx We Tx Te IF N. split.
  - intro E. destruct (event_key_inj x e Wx We Tx Te E) as [[_ [_ Q]]|Q]; [|assumption].
    exfalso. now apply N, IF.
  - apply same_address_key.
Qed.

(* ------------------------------------------------------------------ *)
(** * Membership in the sets the specification builds *)

Lemma replaced_by_In R e x : In x (replaced_by R e) <-> In x R /\ same_address x e = true.
Proof. unfold replaced_by. now rewrite filter_In. Qed.

Lemma deleted_by_In R e x :
  In x (deleted_by R e) <-> is_k5 e = true /\ In x R /\ ev_pk x = ev_pk e /\ refs e x = true.
Proof.
  unfold deleted_by. destruct (is_k5 e).
  - rewrite filter_In, andb_true_iff, str_eqb_eq. tauto.
  - cbn. split; [intros [] | intros [X _]; discriminate].
Qed.

Definition in_base (R : list event) (e x : event) : Prop :=
  (In x R \/ (x = e /\ cls_ephemeral (ev_kind e) = false)) /\
  ~ (In x R /\ same_address x e = true) /\
  ~ (is_k5 e = true /\ ev_pk x = ev_pk e /\ refs e x = true).

Lemma base_after_In R e x : In x (base_after R e) <-> in_base R e x.
Proof.
  unfold base_after, in_base. rewrite minus_In, in_app_iff, replaced_by_In, deleted_by_In.
  destruct (cls_ephemeral (ev_kind e)).
  - split.
    + intros [H N]. split; [now left|]. split; [tauto|]. intros [K [P F]]. apply N. right. auto.
    + intros [[H|[_ X]] [N1 N2]]; [|discriminate]. split; [assumption|]. intros [X|[K [_ [P F]]]]; tauto.
  - rewrite in_app_iff. cbn [In]. split.
    + intros [[H|[<-|[]]] N]; (split; [auto|]); (split; [tauto|]); intros [K [P F]]; apply N; right;
        repeat split; auto.
    + intros [[H|[-> _]] [N1 N2]]; (split; [auto|]); intros [X|[K [_ [P F]]]]; tauto.
Qed.

(* ------------------------------------------------------------------ *)
(** * The declarative reading of the C04 oracle *)

Definition expected_addedP (R : list event) (e : event) : Prop :=
  ~ (exists y, In y R /\ ev_id y = ev_id e) /\
  ~ (exists x, In x R /\ same_address x e = true /\ ev_ts e <= ev_ts x) /\
  ~ (exists d, In d R /\ ev_kind d = 5 /\ ev_pk d = ev_pk e /\ refs d e = true).

Lemma expected_added_spec R e : expected_added R e = true <-> expected_addedP R e.
Proof.
  unfold expected_added, expected_addedP. rewrite !andb_true_iff, !negb_true_iff. 
  assert (id_in e R = false <-> ~ (exists y, In y R /\ ev_id y = ev_id e)) as ->.
  { split.
    - intros H [y [Hy E]]. assert (id_in e R = true) by (apply id_in_spec; exists y; auto). congruence.
    - intro N. destruct (id_in e R) eqn:Q; [|reflexivity]. apply id_in_spec in Q as [y [Hy E]].
      exfalso. apply N. exists y. auto. }
  assert (existsb (fun x => same_address x e && (ev_ts e <=? ev_ts x)) R = false <->
          ~ (exists x, In x R /\ same_address x e = true /\ ev_ts e <= ev_ts x)) as ->.
  { split.
    - intros H [x [Hx [A L]]].
      assert (existsb (fun x => same_address x e && (ev_ts e <=? ev_ts x)) R = true); [|congruence].
      apply existsb_exists. exists x. split; [assumption|]. rewrite A. now apply Z.leb_le.
    - intro N. destruct (existsb _ R) eqn:Q; [|reflexivity]. apply existsb_exists in Q as [x [Hx Q]].
      apply andb_true_iff in Q as [A L]. apply Z.leb_le in L. exfalso. apply N. exists x. auto. }
  assert (suppressed R e = false <->
          ~ (exists d, In d R /\ ev_kind d = 5 /\ ev_pk d = ev_pk e /\ refs d e = true)) as ->.
  { rewrite <- suppressed_spec. destruct (suppressed R e); split; congruence. }
  tauto.
Qed.

Record step_c04 (cap : Z) (R : list event) (e : event) (added : bool) (R' : list event) : Prop :=
  mkStep04 {
  s4_cap : Z.of_nat (length R') <= cap;
  s4_ids : NoDup (List.map ev_id R');
  s4_addr : forall x y, In x R' -> In y R' -> same_address x y = true -> x = y;
  s4_eph : forall x, In x R' -> cls_ephemeral (ev_kind x) = false;
  s4_added : added = true <-> expected_addedP R e;
  s4_rejected : added = false -> R' = R;
  s4_accepted : added = true ->
     (Z.of_nat (length (base_after R e)) <= cap /\ forall x, In x R' <-> in_base R e x) \/
     (cap < Z.of_nat (length (base_after R e)) /\
      exists v, in_base R e v /\ (forall x, in_base R e x -> ev_ts v <= ev_ts x) /\
                forall x, In x R' <-> in_base R e x /\ x <> v)
}.

Lemma in_two_positions {A} (l : list A) x y :
  In x l -> In y l -> x <> y ->
  (exists l1 l2 l3, l = l1 ++ x :: l2 ++ y :: l3) \/ (exists l1 l2 l3, l = l1 ++ y :: l2 ++ x :: l3).
Proof.
  intros Hx Hy N. apply in_split in Hx as [l1 [r ->]].
  apply in_app_iff in Hy as [Hy|[Hy|Hy]]; [|congruence|].
  - right. apply in_split in Hy as [m1 [m2 ->]]. exists m1, m2, r. now rewrite <- app_assoc.
  - left. apply in_split in Hy as [l2 [l3 ->]]. exists l1, l2, l3. reflexivity.
Qed.

Lemma one_per_address_inj l :
  NoDup l ->
  (one_per_address l = true <->
   forall x y, In x l -> In y l -> same_address x y = true -> x = y).
Proof.
  intro ND. split.
  - intros H x y Hx Hy S. destruct (event_eqb x y) eqn:Q; [now apply event_eqb_eq|].
    assert (x <> y) as N by (intro X; apply event_eqb_eq in X; congruence). exfalso.
    pose proof (proj1 (one_per_address_spec l) H) as P.
    destruct (in_two_positions l x y Hx Hy N) as [[l1 [l2 [l3 E]]]|[l1 [l2 [l3 E]]]].
    + rewrite (P _ _ _ _ _ E) in S. discriminate.
    + rewrite same_address_sym, (P _ _ _ _ _ E) in S. discriminate.
  - intro H. now apply one_per_address_of_inj.
Qed.

Lemma accepted_iff cap base R' :
  (if Z.of_nat (length base) <=? cap then set_eq R' base
   else match min_ts base with
        | None => false
        | Some m => existsb (fun v => (ev_ts v =? m) && set_eq R' (remove1 v base)) base
        end) = true <->
  ((Z.of_nat (length base) <= cap /\ forall x, In x R' <-> In x base) \/
   (cap < Z.of_nat (length base) /\
    exists v, In v base /\ (forall x, In x base -> ev_ts v <= ev_ts x) /\
              forall x, In x R' <-> In x base /\ x <> v)).
Proof.
  destruct (Z.of_nat (length base) <=? cap) eqn:Q.
  - apply Z.leb_le in Q. rewrite set_eq_spec. split; [auto|]. intros [[_ H]|[L _]]; [assumption | lia].
  - apply Z.leb_gt in Q. split.
    + intro H. right. split; [assumption|].
      destruct (min_ts base) as [m|] eqn:Mn; [|discriminate].
      apply existsb_exists in H as [v [Hv H]]. apply andb_true_iff in H as [T S].
      apply Z.eqb_eq in T. rewrite set_eq_spec in S.
      destruct (min_ts_spec base m Mn) as [LB _].
      exists v. split; [assumption|]. split; [intros x Hx; rewrite T; now apply LB|].
      intro x. rewrite S. apply remove1_In.
    + intros [[L _]|[_ [v [Hv [LB S]]]]]; [lia|].
      destruct (min_ts base) as [m|] eqn:Mn.
      * destruct (min_ts_spec base m Mn) as [LB' [w [Hw Ew]]].
        apply existsb_exists. exists v. split; [assumption|]. apply andb_true_iff. split.
        -- apply Z.eqb_eq. specialize (LB w Hw). specialize (LB' v Hv). lia.
        -- apply set_eq_spec. intro x. rewrite S. symmetry. apply remove1_In.
      * destruct base; [destruct Hv | discriminate].
Qed.

Lemma step_ok_c04_iff cap R e added R' :
  step_ok_c04 cap R e added R' = true <-> step_c04 cap R e added R'.
Proof.
  unfold step_ok_c04. rewrite !andb_true_iff. split.
  - intros [[[[[H1 H2] H3] H4] H5] H6].
    apply Z.leb_le in H1. apply nodup_ids_spec in H2.
    pose proof (proj1 (one_per_address_inj R' (NoDup_of_map ev_id R' H2)) H3) as H3'.
    rewrite forallb_forall in H4. apply eqb_prop in H5.
    constructor; try assumption.
    + intros x Hx. now apply negb_true_iff, H4.
    + rewrite H5. apply expected_added_spec.
    + intros ->. now apply (list_eqb_eq event_eqb event_eqb_eq).
    + intros ->. apply accepted_iff in H6.
      destruct H6 as [[L M]|[L [v [Hv [LB M]]]]]; [left | right].
      * split; [assumption|]. intro x. now rewrite M, base_after_In.
      * split; [assumption|]. exists v. split; [now apply base_after_In|].
        split; [intros x Hx; now apply LB, base_after_In|].
        intro x. now rewrite M, base_after_In.
  - intros [H1 H2 H3 H4 H5 H6 H7]. repeat split.
    + now apply Z.leb_le.
    + now apply nodup_ids_spec.
    + exact (proj2 (one_per_address_inj R' (NoDup_of_map ev_id R' H2)) H3).
    + apply forallb_forall. intros x Hx. now apply negb_true_iff, H4.
    + rewrite <- expected_added_spec in H5.
      destruct added, (expected_added R e); try reflexivity; exfalso.
      * destruct H5 as [H5 _]. specialize (H5 eq_refl). discriminate.
      * destruct H5 as [_ H5]. specialize (H5 eq_refl). discriminate.
    + destruct added.
      * apply accepted_iff. destruct (H7 eq_refl) as [[L M]|[L [v [Hv [LB M]]]]]; [left | right].
        -- split; [assumption|]. intro x. now rewrite M, base_after_In.
        -- split; [assumption|]. exists v. split; [now apply base_after_In|].
           split; [intros x Hx; now apply LB, base_after_In|].
           intro x. now rewrite M, base_after_In.
      * rewrite (H6 eq_refl). now apply (list_eqb_eq event_eqb event_eqb_eq).
Qed.

(* ------------------------------------------------------------------ *)
(** * The model satisfies the C04 step specification *)

Lemma filter_len_le {A} (p : A -> bool) l : (length (List.filter p l) <= length l)%nat.
Proof. induction l as [|x l IH]; cbn; [lia|]. destruct (p x); cbn; lia. Qed.

Lemma listing_wf s :
  Inv s -> 1 <= c_cap s ->
  Z.of_nat (length (c_listing s)) <= c_cap s /\
  NoDup (List.map ev_id (c_listing s)) /\
  (forall x y, In x (c_listing s) -> In y (c_listing s) -> same_address x y = true -> x = y) /\
  (forall x, In x (c_listing s) -> cls_ephemeral (ev_kind x) = false).
Proof.
  intros I C. pose proof (proj1 (inv_split s) I) as [A [D [Cp K]]].
  split; [rewrite (listing_length s I); now apply Cp|]. split.
  - eapply Permutation_NoDup; [apply Permutation_map, Permutation_sym, (listing_perm s I)|].
    apply (a_ids_nodup s A).
  - split.
    + intros x y Hx Hy S. apply (listing_In s x I) in Hx. apply (listing_In s y I) in Hy.
      apply (a_key_inj s x y A Hx Hy). now apply same_address_key.
    + intros x Hx. apply (listing_In s x I) in Hx. apply type_not_eph. now apply (a_no_eph s A).
Qed.

Lemma retained_wf s e x :
  Inv s -> key_wf e -> Forall key_wf (retained s) -> g_event_type (ev_kind e) <> 3 ->
  x = e \/ In x (retained s) -> key_wf x /\ g_event_type (ev_kind x) <> 3.
Proof.
  intros I We W Ht [->|Hx]; [auto|]. rewrite Forall_forall in W. split; [now apply W|].
  apply inv_split in I as [A _]. now apply (a_no_eph s A).
Qed.

Lemma base_mem_in_base s e x :
  Inv s -> ids_functional (e :: retained s) -> key_wf e -> Forall key_wf (retained s) ->
  k5_wf e -> g_event_type (ev_kind e) <> 3 -> ~ In e (retained s) ->
  (base_mem s e x <-> in_base (c_listing s) e x).
Proof.
  intros I IF We W W5 Ht Ne. unfold base_mem, in_base. split.
  - intros [H N].
    assert (x = e \/ In x (retained s)) as Hx by tauto.
    destruct (retained_wf s e x I We W Ht Hx) as [Wx Tx].
    split; [|split].
    + destruct H as [->|[H _]]; [right; split; [reflexivity | now apply type_not_eph] | left; now apply listing_In].
    + intros [Hl S]. apply (listing_In s x I) in Hl. apply same_address_key in S.
      destruct H as [->|[_ H]]; contradiction.
    + intro Q. apply N. now apply removed_by_refs.
  - intros [H [N1 N2]].
    assert (x = e \/ In x (retained s)) as Hx.
    { destruct H as [H|[-> _]]; [right; now apply listing_In | now left]. }
    destruct (retained_wf s e x I We W Ht Hx) as [Wx Tx].
    split.
    + destruct H as [H|[-> _]]; [|now left]. right. pose proof H as Hr. apply (listing_In s x I) in Hr.
      split; [assumption|]. intro E. apply N1. split; [assumption|].
      apply key_same_address; try assumption.
      * intro Q. apply IF; [now right | now left | assumption].
      * intro X; subst. contradiction.
    + intro Q. apply N2. now apply removed_by_refs.
Qed.

Theorem add_refines_spec s e :
  Inv s -> ids_functional (e :: retained s) ->
  key_wf e -> Forall key_wf (retained s) ->
  k5_wf e -> Forall k5_wf (retained s) ->
  eph_ok (c_listing s) e -> 1 <= c_cap s ->
  step_c04 (c_cap s) (c_listing s) e (snd (c_add s e)) (c_listing (fst (c_add s e))).
Proof.
  intros I IF We W W5e W5 EO C.
  pose proof (inv_add s e I IF) as I'.
  pose proof (add_cap s e) as C'.
  assert (1 <= c_cap (fst (c_add s e))) as C1 by now rewrite C'.
  destruct (listing_wf _ I' C1) as [F1 [F2 [F3 F4]]]. rewrite C' in F1.
  pose proof (proj1 (inv_split s) I) as [A [D [Cp K]]].
  assert (forall y, In y (c_listing s) -> ev_id y = ev_id e -> y = e) as IdE.
  { intros y Hy E. apply (listing_In s y I) in Hy. apply IF; [now right | now left | assumption]. }
  destruct (c_add_cases s e I IF) as [[T E]|[[T [B E]]|[[T [NB [[old [Ho [Ek Lo]]] E]]]|ACC]]].
  - (* ephemeral: reported new, nothing stored *)
    rewrite E in *. cbn [fst snd] in *.
    assert (cls_ephemeral (ev_kind e) = true) as CE by now apply g_event_type_spec.
    assert (is_k5 e = false) as K5.
    { unfold is_k5. destruct (ev_kind e =? 5) eqn:Q; [|reflexivity]. apply Z.eqb_eq in Q.
      rewrite Q in CE. discriminate. }
    assert (forall x, in_base (c_listing s) e x <-> In x (c_listing s)) as MB.
    { intro x. unfold in_base. rewrite CE, K5. split.
      - intros [[H|[_ X]] _]; [assumption | discriminate].
      - intro H. split; [now left|]. split.
        + intros [_ S]. apply same_address_not_ephemeral in S. congruence.
        + intros [X _]. discriminate. }
    constructor; try assumption.
    + split; [intros _ | reflexivity]. split; [|split].
      * intros [y [Hy Ey]]. rewrite (IdE y Hy Ey) in Hy. apply (listing_In s e I) in Hy.
        now apply (a_no_eph s A e Hy).
      * intros [x [_ [S _]]]. apply same_address_not_ephemeral in S. congruence.
      * intro H. apply suppressed_spec in H. rewrite (EO CE) in H. discriminate.
    + discriminate.
    + intros _. left. split.
      * unfold base_after. rewrite CE. unfold minus.
        pose proof (filter_len_le (fun x => negb (ev_in x (replaced_by (c_listing s) e ++ deleted_by (c_listing s) e))) (c_listing s)).
        lia.
      * intro x. now rewrite MB.
  - (* suppressed *)
    rewrite E in *. cbn [fst snd] in *. constructor; try assumption.
    + split; [discriminate|]. intros [_ [_ N]]. exfalso. apply N, suppressed_spec.
      now apply (blocked_suppressed s e I W5 We T).
    + reflexivity.
    + discriminate.
  - (* not newer than the retained version *)
    rewrite E in *. cbn [fst snd] in *. constructor; try assumption.
    + split; [discriminate|]. intros [N1 [N2 _]]. exfalso.
      destruct (event_eqb old e) eqn:Q.
      * apply event_eqb_eq in Q; subst old. apply N1. exists e. split; [now apply listing_In | reflexivity].
      * assert (old <> e) as Ne by (intro X; apply event_eqb_eq in X; congruence).
        apply N2. exists old. split; [now apply listing_In|]. split; [|assumption].
        destruct (retained_wf s e old I We W T (or_intror Ho)) as [Wo To].
        apply key_same_address; try assumption.
        intro Q'. apply IF; [now right | now left | assumption].
    + reflexivity.
    + discriminate.
  - (* accepted *)
    destruct ACC as [T [NB [Ne [Newer [s2 [Ea [Es [S2 [C2 [L2 [K2 M2]]]]]]]]]]].
    rewrite Ea, Es in *.
    assert (forall x, In x (retained s2) <-> in_base (c_listing s) e x) as MB.
    { intro x. rewrite M2. now apply base_mem_in_base. }
    assert (Z.of_nat (length (base_after (c_listing s) e)) = c_len s2) as LB.
    { unfold c_len. rewrite <- (map_length snd (c_evs s2)). fold (retained s2). f_equal.
      apply NoDup_same_length.
      - unfold base_after, minus. apply NoDup_filter.
        destruct (cls_ephemeral (ev_kind e)).
        + apply (NoDup_of_map ev_id). apply (listing_wf s I C).
        + apply NoDup_snoc; [apply (NoDup_of_map ev_id), (listing_wf s I C)|].
          intro X. apply Ne. now apply listing_In.
      - apply (NoDup_of_map ev_id), (a_ids_nodup s2 (proj1 S2)).
      - intro x. now rewrite base_after_In, MB. }
    constructor; try assumption.
    + split; [intros _ | reflexivity]. split; [|split].
      * intros [y [Hy Ey]]. rewrite (IdE y Hy Ey) in Hy. apply Ne. now apply listing_In.
      * intros [x [Hx [S L]]]. apply (listing_In s x I) in Hx.
        specialize (Newer x Hx (same_address_key x e S)). lia.
      * intro H. apply NB. apply (blocked_suppressed s e I W5 We T). now apply suppressed_spec.
    + discriminate.
    + intros _. rewrite LB.
      destruct (evict_spec s2 S2) as [_ [_ [_ Cases]]]. rewrite C2 in Cases.
      destruct Cases as [[L E]|[[L [Tr E]]|[L [o [Ho [Min [_ Mo]]]]]]].
      * left. split; [assumption|]. intro x. rewrite E, <- MB.
        rewrite E in I'. now apply listing_In.
      * exfalso. rewrite (a_len_tree s2 (proj1 S2)), Tr in L. cbn in L. lia.
      * right. split; [assumption|]. exists o. split; [now apply MB|].
        split; [intros x Hx; apply Min; now apply MB|].
        intro x. rewrite (listing_In _ x I'), Mo, MB. reflexivity.
Qed.

Theorem add_refines_c04 s e :
  Inv s -> ids_functional (e :: retained s) ->
  key_wf e -> Forall key_wf (retained s) ->
  k5_wf e -> Forall k5_wf (retained s) ->
  eph_ok (c_listing s) e -> 1 <= c_cap s ->
  step_ok_c04 (c_cap s) (c_listing s) e (snd (c_add s e)) (c_listing (fst (c_add s e))) = true.
Proof. intros. apply step_ok_c04_iff. now apply add_refines_spec. Qed.

(* ------------------------------------------------------------------ *)
(** * C05 follows from the C04 step specification *)

Lemma minus_self R : minus R R = [].
Proof.
  apply nil_of_no_elements. intros x H. apply minus_In in H as [H N]. contradiction.
Qed.

Lemma all_same_nodup {A} (l : list A) v : NoDup l -> (forall x, In x l -> x = v) -> l = [] \/ l = [v].
Proof.
  intros ND H. destruct l as [|a [|b r]]; [now left | right | exfalso].
  - now rewrite (H a (or_introl eq_refl)).
  - inversion ND as [|? ? Hn _]; subst. apply Hn.
    rewrite (H a (or_introl eq_refl)), (H b (or_intror (or_introl eq_refl))). now left.
Qed.

Lemma victim_min R e v :
  in_base R e v -> (forall x, in_base R e x -> ev_ts v <= ev_ts x) ->
  match min_ts (base_after R e) with Some m => ev_ts v =? m | None => false end = true.
Proof.
  intros Hv LB. apply base_after_In in Hv.
  destruct (min_ts (base_after R e)) as [m|] eqn:Mn.
  - destruct (min_ts_spec _ m Mn) as [LB' [w [Hw Ew]]]. apply Z.eqb_eq.
    specialize (LB' v Hv). apply base_after_In in Hw. specialize (LB w Hw). lia.
  - destruct (base_after R e); [destruct Hv | discriminate].
Qed.

Lemma c04_implies_c05 cap R e added R' :
  step_c04 cap R e added R' ->
  (forall y, In y R -> ev_id y = ev_id e -> y = e) -> NoDup R ->
  step_ok_c05 cap R e added R' = true.
Proof.
  intros [H1 H2 H3 H4 H5 H6 H7] IdE ND. unfold step_ok_c05.
  assert (added = false -> minus R R' = []) as Lost0 by (intro X; rewrite (H6 X); apply minus_self).
  (* membership of R' inside the base, in both accepted cases *)
  assert (added = true -> forall x, In x R' -> in_base R e x) as Sub.
  { intros X x Hx. destruct (H7 X) as [[_ M]|[_ [v [_ [_ M]]]]]; now apply M in Hx. }
  assert (added = true -> forall x, in_base R e x -> ~ In x R' ->
          cap < Z.of_nat (length (base_after R e)) /\
          match min_ts (base_after R e) with Some m => ev_ts x =? m | None => false end = true) as Vic.
  { intros X x Hb Nx. destruct (H7 X) as [[_ M]|[L [v [Hv [LB M]]]]].
    - exfalso. now apply Nx, M.
    - split; [assumption|]. destruct (event_eqb x v) eqn:Q.
      + apply event_eqb_eq in Q; subst x. now apply victim_min.
      + exfalso. apply Nx, M. split; [assumption|]. intro Y. apply event_eqb_eq in Y. congruence. }
  repeat (apply andb_true_iff; split).
  - (* a suppressed event is not reported as new *)
    destruct (suppressed R e) eqn:S; [|reflexivity]. destruct added; [|reflexivity]. exfalso.
    destruct (proj1 H5 eq_refl) as [_ [_ N]]. now apply N, suppressed_spec.
  - (* a rejection is explained by an event of the same author *)
    destruct added; [reflexivity|].
    assert (expected_added R e = false) as X.
    { destruct (expected_added R e) eqn:Q; [|reflexivity]. apply expected_added_spec, H5 in Q. discriminate. }
    unfold expected_added in X. apply existsb_exists.
    destruct (id_in e R) eqn:Q1.
    { apply id_in_spec in Q1 as [y [Hy E]]. exists y. split; [assumption|].
      rewrite (IdE y Hy (eq_sym E)). now rewrite !str_eqb_refl. }
    destruct (existsb (fun x => same_address x e && (ev_ts e <=? ev_ts x)) R) eqn:Q2.
    { apply existsb_exists in Q2 as [x [Hx Q2]]. apply andb_true_iff in Q2 as [S _].
      exists x. split; [assumption|]. destruct (same_address_class x e S) as [_ [_ P]].
      rewrite P, str_eqb_refl, S. cbn. now rewrite orb_true_r. }
    destruct (suppressed R e) eqn:Q3; [|discriminate].
    unfold suppressed in Q3. apply existsb_exists in Q3 as [d [Hd Q3]].
    apply andb_true_iff in Q3 as [Q3 F]. apply andb_true_iff in Q3 as [K P].
    exists d. split; [assumption|]. rewrite P, K, F. cbn. now rewrite !orb_true_r.
  - (* an accepted deletion request removes what it references and is kept *)
    destruct added; [|reflexivity]. destruct (is_k5 e) eqn:K5; [|reflexivity]. cbn [andb].
    apply andb_true_iff. split.
    + apply forallb_forall. intros x Hx. apply negb_true_iff.
      destruct (ev_in x R') eqn:Q; [|reflexivity]. apply ev_in_In in Q. exfalso.
      apply deleted_by_In in Hx as [_ [_ [P F]]].
      destruct (Sub eq_refl x Q) as [_ [_ N]]. apply N. auto.
    + destruct (refs e e) eqn:F; [now rewrite orb_true_r|]. rewrite orb_false_r.
      destruct (cap <? Z.of_nat (length (base_after R e))) eqn:L; [now rewrite orb_true_r|].
      rewrite orb_false_r. apply Z.ltb_ge in L. apply ev_in_In.
      destruct (H7 eq_refl) as [[_ M]|[L' _]]; [|lia]. apply M.
      assert (ev_kind e = 5) as K by (now apply Z.eqb_eq).
      split; [right; split; [reflexivity | rewrite K; reflexivity]|]. split.
      * intros [He _]. destruct (proj1 H5 eq_refl) as [N _]. apply N. exists e. auto.
      * intros [_ [_ X]]. congruence.
  - (* other authors' events stay, except one capacity victim *)
    set (lost := List.filter (fun x => negb (str_eqb (ev_pk x) (ev_pk e))) (minus R R')).
    destruct added.
    + assert (forall x, In x lost -> in_base R e x /\ ~ In x R') as HL.
      { intros x Hx. unfold lost in Hx. apply filter_In in Hx as [Hx P].
        apply negb_true_iff, str_eqb_neq in P. apply minus_In in Hx as [Hx Nx]. split; [|assumption].
        split; [now left|]. split.
        - intros [_ S]. now destruct (same_address_class x e S) as [_ [_ P']].
        - intros [_ [P' _]]. contradiction. }
      assert (NoDup lost) as NDl by (unfold lost, minus; now apply NoDup_filter, NoDup_filter).
      destruct lost as [|v [|w r]] eqn:EL; [reflexivity| |exfalso].
      * destruct (HL v (or_introl eq_refl)) as [Hb Nv].
        destruct (Vic eq_refl v Hb Nv) as [L Mn]. rewrite Mn.
        apply Z.ltb_lt in L. now rewrite L.
      * destruct (H7 eq_refl) as [[_ M]|[_ [u [_ [_ M]]]]].
        -- destruct (HL v (or_introl eq_refl)) as [Hb Nv]. now apply Nv, M.
        -- assert (forall x, In x (v :: w :: r) -> x = u) as AU.
           { intros x Hx. destruct (HL x Hx) as [Hb Nx]. destruct (event_eqb x u) eqn:Q;
               [now apply event_eqb_eq|]. exfalso. apply Nx, M. split; [assumption|].
             intro Y. apply event_eqb_eq in Y. congruence. }
           destruct (all_same_nodup _ u NDl AU); discriminate.
    + unfold lost. now rewrite (Lost0 eq_refl).
  - (* same author: only replaced, referenced or evicted events disappear *)
    apply forallb_forall. intros x Hx. apply filter_In in Hx as [Hx P].
    destruct added; [|rewrite (Lost0 eq_refl) in Hx; destruct Hx]. cbn [andb].
    apply minus_In in Hx as [Hx Nx].
    destruct (same_address x e) eqn:S; [reflexivity|].
    destruct (is_k5 e && refs e x) eqn:F; [reflexivity|]. cbn [orb].
    assert (in_base R e x) as Hb.
    { split; [now left|]. split; [intros [_ X]; congruence|].
      intros [K [_ X]]. rewrite K, X in F. discriminate. }
    destruct (Vic eq_refl x Hb Nx) as [L Mn]. rewrite Mn. apply Z.ltb_lt in L. now rewrite L.
Qed.

Theorem add_refines_c05 s e :
  Inv s -> ids_functional (e :: retained s) ->
  key_wf e -> Forall key_wf (retained s) ->
  k5_wf e -> Forall k5_wf (retained s) ->
  eph_ok (c_listing s) e -> 1 <= c_cap s ->
  step_ok_c05 (c_cap s) (c_listing s) e (snd (c_add s e)) (c_listing (fst (c_add s e))) = true.
Proof.
  intros I IF We W W5e W5 EO C.
  apply c04_implies_c05; [now apply add_refines_spec| |].
  - intros y Hy E. apply (listing_In s y I) in Hy. apply IF; [now right | now left | assumption].
  - apply (NoDup_of_map ev_id). apply (listing_wf s I C).
Qed.

(* ------------------------------------------------------------------ *)
(** * Histories *)

Lemma step_hyps_spec s e : step_hyps s e ->
  step_c04 (c_cap s) (c_listing s) e (snd (c_add s e)) (c_listing (fst (c_add s e))).
Proof. intros [I [IF [We [W [W5e [W5 [EO C]]]]]]]. now apply add_refines_spec. Qed.

Lemma hist_step cap h1 e h2 :
  hist_ok5 (h1 ++ e :: h2) -> 1 <= cap -> step_hyps (c_run cap h1) e /\ c_cap (c_run cap h1) = cap.
Proof.
  intros [[IF KW] [W5 EU]] C.
  assert (forall x, In x h1 -> In x (h1 ++ e :: h2)) as S1 by (intros x Hx; apply in_or_app; now left).
  assert (In e (h1 ++ e :: h2)) as He by (apply in_or_app; right; now left).
  destruct (run_inv_sub cap h1 (ids_functional_sub _ _ S1 IF)) as [I [Sub Cc]].
  rewrite Forall_forall in KW, W5.
  split; [|assumption]. split; [assumption|]. split.
  { eapply ids_functional_sub; [|exact IF]. intros x [<-|Hx]; auto. }
  split; [now apply KW|]. split.
  { apply Forall_forall. intros x Hx. auto. }
  split; [now apply W5|]. split.
  { apply Forall_forall. intros x Hx. auto. }
  split; [|now rewrite Cc].
  intro CE. destruct (suppressed (c_listing (c_run cap h1)) e) eqn:Q; [|reflexivity]. exfalso.
  apply suppressed_spec in Q as [d [Hd [K [P F]]]]. apply (listing_In _ d I) in Hd.
  rewrite (EU d e) in F; auto; [discriminate|]. unfold is_k5. now apply Z.eqb_eq.
Qed.

Theorem history_refines_c04 cap h :
  hist_ok5 h -> 1 <= cap ->
  forall h1 e h2, h = h1 ++ e :: h2 ->
    step_ok_c04 cap (c_listing (c_run cap h1)) e (snd (c_add (c_run cap h1) e))
                (c_listing (c_run cap (h1 ++ [e]))) = true.
Proof.
  intros H C h1 e h2 ->. destruct (hist_step cap h1 e h2 H C) as [[I [IF [We [W [W5e [W5 [EO C']]]]]]] Cc].
  rewrite c_run_snoc. rewrite <- Cc at 1. now apply add_refines_c04.
Qed.

Theorem history_refines_c05 cap h :
  hist_ok5 h -> 1 <= cap ->
  forall h1 e h2, h = h1 ++ e :: h2 ->
    step_ok_c05 cap (c_listing (c_run cap h1)) e (snd (c_add (c_run cap h1) e))
                (c_listing (c_run cap (h1 ++ [e]))) = true.
Proof.
  intros H C h1 e h2 ->. destruct (hist_step cap h1 e h2 H C) as [[I [IF [We [W [W5e [W5 [EO C']]]]]]] Cc].
  rewrite c_run_snoc. rewrite <- Cc at 1. now apply add_refines_c05.
Qed.

(** the same along the whole run, in the form the correspondence check
    evaluates: every consecutive pair of listings is an allowed step *)
Fixpoint run_steps_ok (step_ok : Z -> list event -> event -> bool -> list event -> bool)
         (cap : Z) (s : cstate) (h : list event) : bool :=
  match h with
  | [] => true
  | e :: rest =>
      let '(s', added) := c_add s e in
      step_ok cap (c_listing s) e added (c_listing s') && run_steps_ok step_ok cap s' rest
  end.

Lemma run_steps_from step_ok cap h1 : forall h2,
  (forall h1' e h2', h1 ++ h2 = h1' ++ e :: h2' ->
     step_ok cap (c_listing (c_run cap h1')) e (snd (c_add (c_run cap h1') e))
             (c_listing (c_run cap (h1' ++ [e]))) = true) ->
  run_steps_ok step_ok cap (c_run cap h1) h2 = true.
Proof.
  intro h2. revert h1. induction h2 as [|e rest IH]; intros h1 H; cbn [run_steps_ok]; [reflexivity|].
  destruct (c_add (c_run cap h1) e) as [s' added] eqn:E.
  pose proof (H h1 e rest eq_refl) as H0. rewrite c_run_snoc, E in H0. cbn [fst snd] in H0.
  rewrite H0. cbn [andb].
  assert (s' = c_run cap (h1 ++ [e])) as -> by (rewrite c_run_snoc, E; reflexivity).
  apply IH. intros h1' e' h2' X. apply (H h1' e' h2'). rewrite <- app_assoc in X. exact X.
Qed.

(* ------------------------------------------------------------------ *)
(** * Consequences of the step specification, in the property's words *)

Section Consequences.
  Variables (cap : Z) (R : list event) (e : event) (added : bool) (R' : list event).
  Hypothesis SP : step_c04 cap R e added R'.

  Lemma sp_sub x : added = true -> In x R' -> in_base R e x.
  Proof.
    intros X Hx. destruct (s4_accepted _ _ _ _ _ SP X) as [[_ M]|[_ [v [_ [_ M]]]]]; now apply M in Hx.
  Qed.

  Lemma sp_older_never_displaces x :
    In x R -> same_address x e = true -> ev_ts e <= ev_ts x -> added = false /\ R' = R.
  Proof.
    intros Hx S L. assert (added = false) as X.
    { destruct added eqn:Q; [|reflexivity]. exfalso.
      destruct (proj1 (s4_added _ _ _ _ _ SP) eq_refl) as [_ [N _]]. apply N. exists x. auto. }
    split; [assumption | now apply (s4_rejected _ _ _ _ _ SP)].
  Qed.

  Lemma sp_suppressed_rejected d :
    In d R -> ev_kind d = 5 -> ev_pk d = ev_pk e -> refs d e = true -> added = false /\ R' = R.
  Proof.
    intros Hd K P F. assert (added = false) as X.
    { destruct added eqn:Q; [|reflexivity]. exfalso.
      destruct (proj1 (s4_added _ _ _ _ _ SP) eq_refl) as [_ [_ N]]. apply N. exists d. auto. }
    split; [assumption | now apply (s4_rejected _ _ _ _ _ SP)].
  Qed.

  Lemma sp_leaves_only_by x :
    In x R -> ~ In x R' ->
    added = true /\
    (same_address x e = true \/
     (ev_kind e = 5 /\ ev_pk x = ev_pk e /\ refs e x = true) \/
     (cap < Z.of_nat (length (base_after R e)) /\ in_base R e x /\
      forall y, in_base R e y -> ev_ts x <= ev_ts y)).
  Proof.
    intros Hx Nx. destruct added eqn:Q.
    2:{ exfalso. apply Nx. now rewrite (s4_rejected _ _ _ _ _ SP eq_refl). }
    split; [reflexivity|].
    destruct (same_address x e) eqn:S; [now left|]. right.
    destruct (is_k5 e && str_eqb (ev_pk x) (ev_pk e) && refs e x) eqn:F.
    { left. apply andb_true_iff in F as [F F3]. apply andb_true_iff in F as [F1 F2].
      repeat split; auto; [now apply Z.eqb_eq | now apply str_eqb_eq]. }
    right.
    assert (in_base R e x) as Hb.
    { split; [now left|]. split; [intros [_ X]; congruence|].
      intros [K [P X]]. rewrite K, P, X, str_eqb_refl in F. discriminate. }
    destruct (s4_accepted _ _ _ _ _ SP eq_refl) as [[_ M]|[L [v [Hv [LB M]]]]].
    - exfalso. now apply Nx, M.
    - split; [assumption|]. split; [assumption|].
      destruct (event_eqb x v) eqn:E.
      + apply event_eqb_eq in E; subst x. exact LB.
      + exfalso. apply Nx, M. split; [assumption|]. intro Y. apply event_eqb_eq in Y. congruence.
  Qed.

  (** at most one event is lost to capacity *)
  Lemma sp_single_victim x y :
    in_base R e x -> in_base R e y -> ~ In x R' -> ~ In y R' -> added = true -> x = y.
  Proof.
    intros Hx Hy Nx Ny X.
    destruct (s4_accepted _ _ _ _ _ SP X) as [[_ M]|[_ [v [_ [_ M]]]]].
    - exfalso. now apply Nx, M.
    - assert (forall z, in_base R e z -> ~ In z R' -> z = v) as Z.
      { intros z Hz Nz. destruct (event_eqb z v) eqn:E; [now apply event_eqb_eq|].
        exfalso. apply Nz, M. split; [assumption|]. intro Y. apply event_eqb_eq in Y. congruence. }
      now rewrite (Z x Hx Nx), (Z y Hy Ny).
  Qed.

  Lemma sp_isolation_remove x :
    In x R -> ev_pk x <> ev_pk e ->
    In x R' \/
    (added = true /\ cap < Z.of_nat (length (base_after R e)) /\
     (forall y, in_base R e y -> ev_ts x <= ev_ts y) /\
     forall y, In y R -> ev_pk y <> ev_pk e -> ~ In y R' -> y = x).
  Proof.
    intros Hx P.
    assert (forall y, In y R -> ev_pk y <> ev_pk e -> in_base R e y) as OB.
    { intros y Hy Py. split; [now left|]. split.
      - intros [_ S]. now destruct (same_address_class y e S) as [_ [_ P']].
      - intros [_ [P' _]]. contradiction. }
    destruct (ev_in x R') eqn:Q; [left; now apply ev_in_In|]. right.
    assert (~ In x R') as Nx by (intro X; apply ev_in_In in X; congruence).
    destruct (sp_leaves_only_by x Hx Nx) as [A [S|[[_ [P' _]]|[L [Hb LB]]]]].
    - now destruct (same_address_class x e S) as [_ [_ P']].
    - contradiction.
    - repeat split; try assumption. intros y Hy Py Ny.
      apply (sp_single_victim y x); auto.
  Qed.

  Lemma sp_isolation_block :
    (forall y, In y R -> ev_id y = ev_id e -> y = e) ->
    added = false ->
    exists y, In y R /\ ev_pk y = ev_pk e /\
      (ev_id y = ev_id e \/ (same_address y e = true /\ ev_ts e <= ev_ts y) \/
       (ev_kind y = 5 /\ refs y e = true)).
  Proof.
    intros IdE X.
    assert (expected_added R e = false) as Q.
    { destruct (expected_added R e) eqn:Q; [|reflexivity].
      apply expected_added_spec, (s4_added _ _ _ _ _ SP) in Q. congruence. }
    unfold expected_added in Q.
    destruct (id_in e R) eqn:Q1.
    { apply id_in_spec in Q1 as [y [Hy E]]. exists y. split; [assumption|].
      rewrite (IdE y Hy (eq_sym E)). split; [reflexivity | now left]. }
    destruct (existsb (fun x => same_address x e && (ev_ts e <=? ev_ts x)) R) eqn:Q2.
    { apply existsb_exists in Q2 as [x [Hx Q2]]. apply andb_true_iff in Q2 as [S L].
      apply Z.leb_le in L. exists x. split; [assumption|].
      destruct (same_address_class x e S) as [_ [_ P]]. split; [assumption|]. right. left. now split. }
    destruct (suppressed R e) eqn:Q3; [|discriminate].
    apply suppressed_spec in Q3 as [d [Hd [K [P F]]]]. exists d.
    split; [assumption|]. split; [assumption|]. right. right. now split.
  Qed.

  Lemma sp_newer_displaces x :
    NoDup (List.map ev_id R) ->
    (forall a b, In a R -> In b R -> same_address a e = true -> same_address b e = true -> a = b) ->
    (forall y, In y R -> ev_id y = ev_id e -> y = e) ->
    In x R -> same_address x e = true -> ev_ts x < ev_ts e ->
    ~ (exists d, In d R /\ ev_kind d = 5 /\ ev_pk d = ev_pk e /\ refs d e = true) ->
    added = true /\ ~ In x R'.
  Proof.
    intros ND One IdE Hx S L NS.
    assert (added = true) as X.
    { apply (s4_added _ _ _ _ _ SP). split; [|split; [|assumption]].
      - intros [y [Hy E]]. pose proof (IdE y Hy E) as Y. subst y.
        assert (same_address e e = true) as See.
        { destruct (proj1 (same_address_spec x e) S) as [K [P C]].
          apply same_address_spec. repeat split; auto. rewrite <- K.
          destruct C as [C|[C D]]; [now left | right; split; [assumption | reflexivity]]. }
        rewrite (One x e Hx Hy S See) in L. lia.
      - intros [y [Hy [Sy Ly]]]. rewrite (One y x Hy Hx Sy S) in Ly. lia. }
    split; [assumption|]. intro Hx'. destruct (sp_sub x X Hx') as [_ [N _]]. apply N. auto.
  Qed.
End Consequences.

(* ------------------------------------------------------------------ *)
(** * The named consequences, for the model *)

Lemma step_hyps_inv' s e : step_hyps s e -> Inv (fst (c_add s e)).
Proof. intros [I [IF _]]. now apply inv_add. Qed.

Lemma step_hyps_idE s e : step_hyps s e ->
  forall y, In y (c_listing s) -> ev_id y = ev_id e -> y = e.
Proof.
  intros [I [IF _]] y Hy E. apply (listing_In s y I) in Hy. apply IF; [now right | now left | assumption].
Qed.

(** retention facts that need the invariant only *)
Theorem reach_listing_wf cap h :
  hist_ok h -> 1 <= cap ->
  Z.of_nat (length (c_listing (c_run cap h))) <= cap /\
  NoDup (List.map ev_id (c_listing (c_run cap h))) /\
  (forall x y, In x (c_listing (c_run cap h)) -> In y (c_listing (c_run cap h)) ->
               same_address x y = true -> x = y) /\
  (forall x, In x (c_listing (c_run cap h)) -> cls_ephemeral (ev_kind x) = false).
Proof.
  intros [IF _] C. destruct (run_inv_sub cap h IF) as [I [_ Cc]].
  assert (1 <= c_cap (c_run cap h)) as C' by now rewrite Cc.
  pose proof (listing_wf _ I C') as W. rewrite Cc in W. exact W.
Qed.

Theorem cap_bound cap h : hist_ok h -> 1 <= cap -> Z.of_nat (length (c_listing (c_run cap h))) <= cap.
Proof. intros H C. apply (reach_listing_wf cap h H C). Qed.

Theorem no_dup_ids cap h : hist_ok h -> 1 <= cap -> NoDup (List.map ev_id (c_listing (c_run cap h))).
Proof. intros H C. apply (reach_listing_wf cap h H C). Qed.

Theorem one_per_address_thm cap h : hist_ok h -> 1 <= cap ->
  forall x y, In x (c_listing (c_run cap h)) -> In y (c_listing (c_run cap h)) ->
              same_address x y = true -> x = y.
Proof. intros H C. apply (reach_listing_wf cap h H C). Qed.

Theorem ephemeral_never_served cap h : hist_ok h -> 1 <= cap ->
  forall x, In x (c_listing (c_run cap h)) -> cls_ephemeral (ev_kind x) = false.
Proof. intros H C. apply (reach_listing_wf cap h H C). Qed.

(** an offered version that is not newer leaves everything as it is — this
    needs the invariant and distinct ids only *)
Theorem older_never_displaces s e x :
  Inv s -> ids_functional (e :: retained s) ->
  In x (c_listing s) -> same_address x e = true -> ev_ts e <= ev_ts x ->
  c_add s e = (s, false).
Proof.
  intros I IF Hx S L. apply (listing_In s x I) in Hx.
  destruct (c_add_cases s e I IF) as [[T E]|[[T [B E]]|[[T [NB [_ E]]]|ACC]]]; try assumption.
  - exfalso. apply same_address_not_ephemeral in S. apply g_event_type_spec in T. congruence.
  - exfalso. destruct ACC as [_ [_ [_ [Newer _]]]].
    specialize (Newer x Hx (same_address_key x e S)). lia.
Qed.

Theorem newer_displaces s e x :
  step_hyps s e ->
  In x (c_listing s) -> same_address x e = true -> ev_ts x < ev_ts e ->
  suppressed (c_listing s) e = false ->
  snd (c_add s e) = true /\ ~ In x (c_listing (fst (c_add s e))).
Proof.
  intros H Hx S L NS. pose proof H as [I [IF [_ [_ [_ [_ [_ C]]]]]]].
  destruct (listing_wf s I C) as [_ [ND [One _]]].
  apply (sp_newer_displaces _ _ _ _ _ (step_hyps_spec s e H) x); try assumption.
  - intros a b Ha Hb Sa Sb. apply (listing_In s a I) in Ha. apply (listing_In s b I) in Hb.
    apply inv_split in I as [A _]. apply (a_key_inj s a b A Ha Hb).
    now rewrite (same_address_key a e Sa), (same_address_key b e Sb).
  - now apply step_hyps_idE.
  - intro X. apply suppressed_spec in X. congruence.
Qed.

Theorem reported_new_iff s e :
  step_hyps s e -> (snd (c_add s e) = true <-> expected_addedP (c_listing s) e).
Proof. intro H. apply (s4_added _ _ _ _ _ (step_hyps_spec s e H)). Qed.

Theorem leaves_only_by s e x :
  step_hyps s e -> In x (c_listing s) -> ~ In x (c_listing (fst (c_add s e))) ->
  snd (c_add s e) = true /\
  (same_address x e = true \/
   (ev_kind e = 5 /\ ev_pk x = ev_pk e /\ refs e x = true) \/
   (c_cap s < Z.of_nat (length (base_after (c_listing s) e)) /\ in_base (c_listing s) e x /\
    forall y, in_base (c_listing s) e y -> ev_ts x <= ev_ts y)).
Proof. intro H. apply (sp_leaves_only_by _ _ _ _ _ (step_hyps_spec s e H)). Qed.

(** C05 *)
Lemma same_address_k5 x e : ev_kind e = 5 -> same_address x e = false.
Proof.
  intro K. destruct (same_address x e) eqn:S; [|reflexivity].
  apply same_address_spec in S as [Kx [_ C]]. rewrite Kx, K in C.
  destruct C as [C|[C _]]; discriminate.
Qed.

Lemma in_base_k5 R e x : ev_kind e = 5 ->
  (in_base R e x <-> (In x R \/ x = e) /\ ~ (ev_pk x = ev_pk e /\ refs e x = true)).
Proof.
  intro K. unfold in_base, is_k5. rewrite K, (same_address_k5 x e K). cbn.
  split.
  - intros [[H|[H _]] [_ N]]; (split; [auto|]); intros [P F]; apply N; auto.
  - intros [[H|H] N]; (split; [auto|]); (split; [intros [_ X]; discriminate|]); intros [_ [P F]]; apply N; auto.
Qed.

Theorem k5_removes_exactly s e :
  step_hyps s e -> ev_kind e = 5 -> snd (c_add s e) = true ->
  (forall x, In x (c_listing (fst (c_add s e))) ->
             (In x (c_listing s) \/ x = e) /\ ~ (ev_pk x = ev_pk e /\ refs e x = true)) /\
  (forall x, (In x (c_listing s) \/ x = e) -> ~ (ev_pk x = ev_pk e /\ refs e x = true) ->
             In x (c_listing (fst (c_add s e))) \/
             (c_cap s < Z.of_nat (length (base_after (c_listing s) e)) /\
              forall y, in_base (c_listing s) e y -> ev_ts x <= ev_ts y)).
Proof.
  intros H K X. pose proof (step_hyps_spec s e H) as SP. split.
  - intros x Hx. apply (in_base_k5 _ e x K). now apply (sp_sub _ _ _ _ _ SP).
  - intros x Hx N. assert (in_base (c_listing s) e x) as Hb by (apply in_base_k5; auto).
    destruct (s4_accepted _ _ _ _ _ SP X) as [[_ M]|[L [v [Hv [LB M]]]]]; [left; now apply M|].
    destruct (event_eqb x v) eqn:E.
    + apply event_eqb_eq in E; subst x. right. auto.
    + left. apply M. split; [assumption|]. intro Y. apply event_eqb_eq in Y. congruence.
Qed.

Theorem k5_blocks_while_retained s e d :
  step_hyps s e ->
  In d (c_listing s) -> ev_kind d = 5 -> ev_pk d = ev_pk e -> refs d e = true ->
  snd (c_add s e) = false /\ c_listing (fst (c_add s e)) = c_listing s.
Proof. intro H. apply (sp_suppressed_rejected _ _ _ _ _ (step_hyps_spec s e H)). Qed.

(** the request itself is kept like a regular event *)
Theorem k5_kept s e :
  step_hyps s e -> ev_kind e = 5 -> snd (c_add s e) = true -> refs e e = false ->
  In e (c_listing (fst (c_add s e))) \/
  c_cap s < Z.of_nat (length (base_after (c_listing s) e)).
Proof.
  intros H K X F. destruct (proj2 (k5_removes_exactly s e H K X) e (or_intror eq_refl)) as [Y|[Y _]]; auto.
  intros [_ Q]. congruence.
Qed.

Theorem k5_registry_sound s k a :
  Inv s ->
  match al_get dkey_eqb (k, a) (c_del s) with
  | Some ids => ids <> [] /\ NoDup ids /\
      forall i, In i ids <->
        exists d, In d (retained s) /\ ev_kind d = 5 /\ ev_pk d = a /\ In k (k5_keys d) /\ ev_id d = i
  | None => forall d, In d (retained s) -> ~ (ev_kind d = 5 /\ ev_pk d = a /\ In k (k5_keys d))
  end.
Proof.
  intro I. apply inv_split in I as [_ [D _]]. pose proof (d_ok s D (k, a)) as H.
  destruct (al_get dkey_eqb (k, a) (c_del s)) as [ids|]; cbn [del_ok] in H.
  - destruct H as [NE [ND M]]. split; [assumption|]. split; [assumption|].
    intro i. rewrite M. split; intros [d [H1 H2]]; exists d; (split; [assumption|]).
    + destruct H2 as [H2 H3]. apply refP_true in H2. tauto.
    + destruct H2 as [K [P [Ik Ei]]]. split; [now apply refP_true | assumption].
  - intros d Hd X. apply refP_true in X. rewrite (H d Hd) in X. discriminate.
Qed.

Theorem author_isolation_remove s e x :
  step_hyps s e -> In x (c_listing s) -> ev_pk x <> ev_pk e ->
  In x (c_listing (fst (c_add s e))) \/
  (snd (c_add s e) = true /\
   c_cap s < Z.of_nat (length (base_after (c_listing s) e)) /\
   (forall y, in_base (c_listing s) e y -> ev_ts x <= ev_ts y) /\
   forall y, In y (c_listing s) -> ev_pk y <> ev_pk e ->
             ~ In y (c_listing (fst (c_add s e))) -> y = x).
Proof. intro H. apply (sp_isolation_remove _ _ _ _ _ (step_hyps_spec s e H)). Qed.

Theorem author_isolation_block s e :
  step_hyps s e -> snd (c_add s e) = false ->
  exists y, In y (c_listing s) /\ ev_pk y = ev_pk e /\
    (ev_id y = ev_id e \/ (same_address y e = true /\ ev_ts e <= ev_ts y) \/
     (ev_kind y = 5 /\ refs y e = true)).
Proof.
  intro H. apply (sp_isolation_block _ _ _ _ _ (step_hyps_spec s e H)). now apply step_hyps_idE.
Qed.

(** every prefix of an admissible history gives the step hypotheses *)
Theorem hist_step_hyps cap h1 e h2 :
  hist_ok5 (h1 ++ e :: h2) -> 1 <= cap -> step_hyps (c_run cap h1) e.
Proof. intros H C. apply (hist_step cap h1 e h2 H C). Qed.

Theorem run_refines_c04 cap h : hist_ok5 h -> 1 <= cap -> run_steps_ok step_ok_c04 cap (c_empty cap) h = true.
Proof.
  intros H C. apply (run_steps_from step_ok_c04 cap [] h). intros h1 e h2 E.
  now apply (history_refines_c04 cap h H C h1 e h2).
Qed.

Theorem run_refines_c05 cap h : hist_ok5 h -> 1 <= cap -> run_steps_ok step_ok_c05 cap (c_empty cap) h = true.
Proof.
  intros H C. apply (run_steps_from step_ok_c05 cap [] h). intros h1 e h2 E.
  now apply (history_refines_c05 cap h H C h1 e h2).
Qed.

Theorem k5_registry_sound_reachable cap h k a :
  hist_ok h ->
  match al_get dkey_eqb (k, a) (c_del (c_run cap h)) with
  | Some ids => ids <> [] /\ NoDup ids /\
      forall i, In i ids <->
        exists d, In d (retained (c_run cap h)) /\ ev_kind d = 5 /\ ev_pk d = a /\
                  In k (k5_keys d) /\ ev_id d = i
  | None => forall d, In d (retained (c_run cap h)) ->
                      ~ (ev_kind d = 5 /\ ev_pk d = a /\ In k (k5_keys d))
  end.
Proof. intro H. apply k5_registry_sound. now apply inv_reachable. Qed.

Theorem closed_reachable cap h x d :
  hist_ok h -> In x (retained (c_run cap h)) -> In d (retained (c_run cap h)) ->
  ev_kind d = 5 -> ev_pk x = ev_pk d ->
  ~ In (event_key x) (k5_keys d) /\ ~ In (ev_id x) (k5_keys d).
Proof.
  intros H Hx Hd K P. apply (inv_closed _ (inv_reachable cap h H) x d Hx Hd); [|assumption].
  now apply g_del_is_kind5_spec.
Qed.
