(* Base.v — shared data model for the mocrelay development.
   Strings are byte lists (list N); integers are Z; Go maps are association
   lists; nil versus empty is kept where the Go code distinguishes them
   (option around lists).  Only definitions and small boolean-reflection
   lemmas live here so that every model file can be evaluated even when a
   proof file is broken. *)
From Coq Require Export List NArith ZArith Bool Lia.
From Coq Require Import Ascii DecimalString Decimal DecimalZ.
From Coq Require String.
Export ListNotations.
Open Scope Z_scope.

(* ------------------------------------------------------------------ *)
(** * Strings as byte lists *)

Definition str := list N.

Fixpoint list_eqb {A} (eqb : A -> A -> bool) (a b : list A) : bool :=
  match a, b with
  | [], [] => true
  | x :: a', y :: b' => eqb x y && list_eqb eqb a' b'
  | _, _ => false
  end.

Lemma list_eqb_eq {A} (eqb : A -> A -> bool) :
  (forall x y, eqb x y = true <-> x = y) ->
  forall a b, list_eqb eqb a b = true <-> a = b.
Proof.
  intros H a; induction a as [|x a IH]; intros [|y b]; simpl; split; intro E;
    try reflexivity; try discriminate.
  - apply andb_true_iff in E as [E1 E2]. apply H in E1. apply IH in E2. now subst.
  - inversion E; subst. apply andb_true_iff; split; [now apply H | now apply IH].
Qed.

Definition str_eqb : str -> str -> bool := list_eqb N.eqb.

Lemma str_eqb_eq a b : str_eqb a b = true <-> a = b.
Proof. apply list_eqb_eq. intros; apply N.eqb_eq. Qed.

Lemma str_eqb_refl a : str_eqb a a = true.
Proof. now apply str_eqb_eq. Qed.

Lemma str_eqb_neq a b : str_eqb a b = false <-> a <> b.
Proof.
  split; intro H.
  - intro E. apply str_eqb_eq in E. congruence.
  - destruct (str_eqb a b) eqn:E; [apply str_eqb_eq in E; contradiction | reflexivity].
Qed.

Lemma str_eqb_sym a b : str_eqb a b = str_eqb b a.
Proof.
  destruct (str_eqb a b) eqn:E.
  - apply str_eqb_eq in E; subst. now rewrite str_eqb_refl.
  - symmetry. apply str_eqb_neq. apply str_eqb_neq in E. congruence.
Qed.

Definition str_dec (a b : str) : {a = b} + {a <> b}.
Proof. apply list_eq_dec, N.eq_dec. Defined.

Definition mem_str (x : str) (l : list str) : bool := existsb (str_eqb x) l.

Lemma mem_str_In x l : mem_str x l = true <-> In x l.
Proof.
  unfold mem_str. rewrite existsb_exists. split.
  - intros [y [Hy E]]. apply str_eqb_eq in E. now subst.
  - intro H. exists x. split; [assumption | apply str_eqb_refl].
Qed.

Definition mem_Z (x : Z) (l : list Z) : bool := existsb (Z.eqb x) l.

Lemma mem_Z_In x l : mem_Z x l = true <-> In x l.
Proof.
  unfold mem_Z. rewrite existsb_exists. split.
  - intros [y [Hy E]]. apply Z.eqb_eq in E. now subst.
  - intro H. exists x. split; [assumption | apply Z.eqb_refl].
Qed.

(** lexicographic order on byte strings: Go's [<] on strings *)
Fixpoint str_ltb (a b : str) : bool :=
  match a, b with
  | [], [] => false
  | [], _ :: _ => true
  | _ :: _, [] => false
  | x :: a', y :: b' => if N.ltb x y then true else if N.eqb x y then str_ltb a' b' else false
  end.

(* ------------------------------------------------------------------ *)
(** * Decimal rendering of integers (Go's %d) *)

Definition str_of_string (s : String.string) : str :=
  List.map N_of_ascii (String.list_ascii_of_string s).

Definition showZ (z : Z) : str := str_of_string (NilZero.string_of_int (Z.to_int z)).

Definition colon : N := 58%N.

Definition colon_free (s : str) : Prop := ~ In colon s.
Definition colon_freeb (s : str) : bool := negb (existsb (N.eqb colon) s).

Lemma colon_freeb_spec s : colon_freeb s = true <-> colon_free s.
Proof.
  unfold colon_freeb, colon_free. rewrite negb_true_iff. split.
  - intros H Hin. assert (existsb (N.eqb colon) s = true).
    { apply existsb_exists. exists colon. split; [assumption | apply N.eqb_refl]. }
    congruence.
  - intro H. destruct (existsb (N.eqb colon) s) eqn:E; [|reflexivity].
    apply existsb_exists in E as [x [Hx E]]. apply N.eqb_eq in E. subst. contradiction.
Qed.

(* ------------------------------------------------------------------ *)
(** * Events and filters *)

Definition tag := list str.

Record event := mkEvent {
  ev_id : str;
  ev_pk : str;
  ev_ts : Z;
  ev_kind : Z;
  ev_tags : list tag;
  ev_content : str;
  ev_sig : str
}.

Definition tag_eqb : tag -> tag -> bool := list_eqb str_eqb.

Lemma tag_eqb_eq a b : tag_eqb a b = true <-> a = b.
Proof. apply list_eqb_eq, str_eqb_eq. Qed.

Definition event_eqb (a b : event) : bool :=
  str_eqb (ev_id a) (ev_id b) && str_eqb (ev_pk a) (ev_pk b) &&
  Z.eqb (ev_ts a) (ev_ts b) && Z.eqb (ev_kind a) (ev_kind b) &&
  list_eqb tag_eqb (ev_tags a) (ev_tags b) &&
  str_eqb (ev_content a) (ev_content b) && str_eqb (ev_sig a) (ev_sig b).

Lemma event_eqb_eq a b : event_eqb a b = true <-> a = b.
Proof.
  unfold event_eqb. destruct a, b; simpl.
  rewrite !andb_true_iff, !str_eqb_eq, !Z.eqb_eq.
  rewrite (list_eqb_eq tag_eqb tag_eqb_eq).
  split.
  - intros [[[[[[-> ->] ->] ->] ->] ->] ->]. reflexivity.
  - intro E; inversion E; subst. repeat split.
Qed.

(** A filter as [ReqFilter] holds it.  [None] is Go's nil slice / nil map /
    nil pointer; [Some []] an empty non-nil slice.  [f_tags] is a Go map
    from tag name to value list: an association list whose keys are
    pairwise distinct (hypothesis [NoDup (map fst ..)] where it matters). *)
Record rfilter := mkFilter {
  f_ids : option (list str);
  f_authors : option (list str);
  f_kinds : option (list Z);
  f_tags : option (list (str * list str));
  f_since : option Z;
  f_until : option Z;
  f_limit : option Z
}.

Definition empty_filter : rfilter := mkFilter None None None None None None None.

(** first element / second element of a tag, as the Go code reads them *)
Definition tag_value (t : tag) : str :=
  match t with
  | _ :: v :: _ => v
  | _ => []
  end.

(** lookup in an association list keyed by strings *)
Fixpoint assoc {B} (k : str) (l : list (str * B)) : option B :=
  match l with
  | [] => None
  | (k', v) :: l' => if str_eqb k k' then Some v else assoc k l'
  end.

Lemma assoc_In {B} k (l : list (str * B)) v : assoc k l = Some v -> In (k, v) l.
Proof.
  induction l as [|[k' v'] l IH]; simpl; [discriminate|].
  destruct (str_eqb k k') eqn:E.
  - intro H; inversion H; subst. apply str_eqb_eq in E; subst. now left.
  - intro H. right. now apply IH.
Qed.

Lemma In_assoc_NoDup {B} k (l : list (str * B)) v :
  NoDup (List.map fst l) -> In (k, v) l -> assoc k l = Some v.
Proof.
  induction l as [|[k' v'] l IH]; simpl; [contradiction|].
  intros ND [E|Hin].
  - inversion E; subst. now rewrite str_eqb_refl.
  - inversion ND as [|? ? Hn ND']; subst.
    destruct (str_eqb k k') eqn:E.
    + apply str_eqb_eq in E; subst. exfalso. apply Hn.
      change k' with (fst (k', v)). now apply in_map.
    + now apply IH.
Qed.

Lemma assoc_None {B} k (l : list (str * B)) : assoc k l = None <-> ~ In k (List.map fst l).
Proof.
  induction l as [|[k' v'] l IH]; simpl.
  - split; [auto | reflexivity].
  - destruct (str_eqb k k') eqn:E.
    + apply str_eqb_eq in E; subst. split; [discriminate | intro H; exfalso; apply H; now left].
    + apply str_eqb_neq in E. rewrite IH. split.
      * intros H [H1|H1]; [congruence | contradiction].
      * intros H H1. apply H. now right.
Qed.

(* ------------------------------------------------------------------ *)
(** * Small list utilities *)

Fixpoint count_occ_b {A} (p : A -> bool) (l : list A) : nat :=
  match l with
  | [] => 0%nat
  | x :: l' => if p x then S (count_occ_b p l') else count_occ_b p l'
  end.

Lemma count_occ_b_filter {A} (p : A -> bool) l : count_occ_b p l = length (filter p l).
Proof. induction l as [|x l IH]; simpl; [reflexivity|]. destruct (p x); simpl; now rewrite IH. Qed.

Lemma count_occ_b_app {A} (p : A -> bool) l1 l2 :
  count_occ_b p (l1 ++ l2) = (count_occ_b p l1 + count_occ_b p l2)%nat.
Proof. induction l1 as [|x l1 IH]; simpl; [reflexivity|]. destruct (p x); simpl; now rewrite IH. Qed.

(** bad_cases: used by every correspondence file.  Runs [f] on each case and
    returns the zero-based indices (with the two verdict bits) of the cases
    where the model disagrees with the implementation or the specification
    oracle rejects the implementation's observation. *)
Fixpoint bad_cases {C} (f : C -> bool * bool) (cs : list C) (i : nat) : list (nat * (bool * bool)) :=
  match cs with
  | [] => []
  | c :: cs' =>
      let r := f c in
      if fst r && snd r then bad_cases f cs' (S i) else (i, r) :: bad_cases f cs' (S i)
  end.
