(* C16 — Storage handlers reply completely and in order; dump/restore is
   lossless.  Statements only; each is closed by [exact] of a lemma proved in
   HandlersProofs.v / HandlersReach.v / HandlersExamples.v and followed by
   Print Assumptions. *)
From Coq Require Import Permutation.
From Moc Require Import Base Match Msg Cache CacheSpec CacheInv Handlers
     HandlersProofs HandlersReach HandlersExamples.
Open Scope Z_scope.

(** Cache handler.  For every message sequence over the five client types
    and every store, the reply sequence of [SimpleHandler] over the cache base
    is the concatenation, in request order, of: one OK with the event's id per
    EVENT — accepting iff [Add] reported the event as new, otherwise rejecting,
    with the duplicate prefix when that very event is stored (the code uses it
    for every rejection) —; per REQ the events [Find] returns for its filters,
    labelled with its subscription id, then one EOSE; one COUNT per COUNT;
    nothing for CLOSE and AUTH.  ([Panic]: [Find] on an event with an empty
    tag, which the admission gate excludes.) *)
Theorem C16_cache_session_shape : forall msgs s s' out,
  cache_session s msgs = Ok (s', out) -> cache_session_shape s msgs out.
Proof. exact cache_session_shape_holds. Qed.
Print Assumptions C16_cache_session_shape.

(** behind the admission gate (functional ids, colon-free ids and pubkeys,
    filters the decoder can produce) the session never panics: it exists and
    has the stated shape, from every reachable store *)
Theorem C16_cache_session_reachable : forall cap msgs h,
  hist_ok (h ++ events_of msgs) -> Forall msg_ok msgs ->
  exists s' out, cache_session (c_run cap h) msgs = Ok (s', out) /\
                 cache_session_shape (c_run cap h) msgs out.
Proof. exact cache_session_reachable. Qed.
Print Assumptions C16_cache_session_reachable.

(** exactly one OK per EVENT, one EOSE per REQ, one COUNT per COUNT, and no
    NOTICE / AUTH / CLOSED at all *)
Theorem C16_cache_session_counts : forall msgs s s' out,
  cache_session s msgs = Ok (s', out) ->
  count_occ_b (fun r => match r with SOk _ _ _ _ => true | _ => false end) out =
    count_occ_b (fun m => match m with CEvent _ => true | _ => false end) msgs /\
  count_occ_b (fun r => match r with SEose _ => true | _ => false end) out =
    count_occ_b (fun m => match m with CReq _ _ => true | _ => false end) msgs /\
  count_occ_b (fun r => match r with SCount _ _ _ => true | _ => false end) out =
    count_occ_b (fun m => match m with CCount _ _ => true | _ => false end) msgs /\
  count_occ_b (fun r => match r with SOk _ _ _ _ | SEose _ | SCount _ _ _ | SEvent _ _ => false | _ => true end) out = 0%nat.
Proof. exact cache_session_counts. Qed.
Print Assumptions C16_cache_session_counts.

(** SQLite handler, over any store ([query], [insert_batch]), any batch size
    and EVERY schedule of the background inserter relative to the requests:
    one accepting OK with the event's id per EVENT (the event is queued), per
    REQ the matches the database holds at that moment labelled with the
    subscription id then one EOSE (EOSE alone when the query fails), one COUNT
    per COUNT, nothing for CLOSE and AUTH; and the session never panics. *)
Theorem C16_sqlite_session_shape :
  forall (db : Type) (query : db -> list rfilter -> option (list event))
         (insert_batch : db -> list event -> db) (bulk_num : nat)
         msgs sched s st' out,
  sqlite_session db query insert_batch bulk_num sched s msgs = Ok (st', out) ->
  sqlite_session_shape db query insert_batch bulk_num s msgs out.
Proof. exact sqlite_session_shape_holds. Qed.
Print Assumptions C16_sqlite_session_shape.

Theorem C16_sqlite_session_total :
  forall (db : Type) (query : db -> list rfilter -> option (list event))
         (insert_batch : db -> list event -> db) (bulk_num : nat) msgs sched s,
  exists st' out, sqlite_session db query insert_batch bulk_num sched s msgs = Ok (st', out).
Proof. exact sqlite_session_total. Qed.
Print Assumptions C16_sqlite_session_total.

(** Dump / restore.  For every cache state satisfying the representation
    invariant (CacheInv.v; every reachable state does), restoring its dump into
    an empty cache of the same capacity gives a cache that answers EVERY filter
    list identically (including the same [Panic] where the original panics). *)
Theorem C16_dump_restore : forall s, Inv s -> 1 <= c_cap s ->
  forall fs, c_find (restore (c_empty (c_cap s)) (dump s)) fs = c_find s fs.
Proof. exact dump_restore. Qed.
Print Assumptions C16_dump_restore.

(** the same for every state reachable by an admissible history (functional
    ids, colon-free ids and pubkeys) *)
Theorem C16_dump_restore_reachable : forall cap h, hist_ok h -> 1 <= cap ->
  forall fs, c_find (restore (c_empty cap) (dump (c_run cap h))) fs = c_find (c_run cap h) fs.
Proof. exact dump_restore_reachable. Qed.
Print Assumptions C16_dump_restore_reachable.

(** the dump lists every retained event exactly once; the restored cache
    retains exactly the dumped events; dumping it again gives the same dump *)
Theorem C16_dump_complete : forall s, dump_pre s -> Permutation (dump s) (retained s).
Proof. exact dump_complete. Qed.
Theorem C16_restore_retained : forall s, dump_pre s ->
  retained (restore (c_empty (c_cap s)) (dump s)) = dump s.
Proof. exact restore_retained. Qed.
Theorem C16_dump_restore_dump : forall s, dump_pre s ->
  dump (restore (c_empty (c_cap s)) (dump s)) = dump s.
Proof. exact dump_restore_dump. Qed.
Theorem C16_inv_dump_pre : forall s, Inv s -> 1 <= c_cap s -> dump_pre s.
Proof. exact inv_dump_pre. Qed.
Print Assumptions C16_dump_restore_dump.

(** beyond the statement: the rebuilt deletion registry suppresses exactly
    what the original one does, so later insertions are judged alike *)
Theorem C16_restore_registry : forall s, Inv s -> 1 <= c_cap s ->
  forall k pk, c_is_deleted (restore (c_empty (c_cap s)) (dump s)) k pk = c_is_deleted s k pk.
Proof. exact restore_registry. Qed.
Print Assumptions C16_restore_registry.

(** Non-vacuity.  A history with a replacement, a deletion, an eviction and a
    suppressed re-offer is admissible; the state it reaches satisfies the
    precondition; its dump has three events, its registry is not empty, the
    restored tables differ from the original ones while the answers agree. *)
Example C16_example_hist_ok : hist_ok ex_hist.
Proof. exact ex_hist_ok. Qed.
Example C16_example_pre : dump_pre ex_state.
Proof. exact ex_dump_pre. Qed.
Example C16_example_dump : dump ex_state = [x6; x5; x3].
Proof. exact ex_dump. Qed.
Example C16_example_registry : c_is_deleted ex_state i_r1 xA = true.
Proof. exact ex_registry. Qed.
Example C16_example_answers :
  c_find (restore (c_empty 3) (dump ex_state)) [ex_f1; ex_f2] = Ok [x6; x5; x3] /\
  c_find ex_state [ex_f1; ex_f2] = Ok [x6; x5; x3] /\
  c_find ex_state [ex_f3] = Ok [x5; x3].
Proof. exact ex_restore_answers. Qed.
Example C16_example_tables_differ : c_evs (restore (c_empty 3) (dump ex_state)) <> c_evs ex_state.
Proof. exact ex_tables_differ. Qed.
Example C16_example_cache_session :
  exists s', cache_session (c_empty 3) ex_msgs =
    Ok (s', [SOk i_r1 true [] []; SOk i_r1 false dup_prefix already_have;
             SEvent s_1 x1; SEose s_1; SCount s_1 0 None;
             SOk i_k1 true [] []; SOk i_r1 false dup_prefix already_have;
             SEvent s_1 x5; SEose s_1]).
Proof. exact ex_cache_session. Qed.
Print Assumptions C16_example_pre.
