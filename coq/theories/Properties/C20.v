(* C20 — HTTP front door: routing of requests and the NIP-11 document.
   Statements only.  [route_of u a has_nip11 has_default] and [mux_serve] are
   the model of ServeMux.ServeHTTP built on the guard regenerated from
   server.go; [u], [a] are what r.Header.Get("Upgrade") / ("Accept") return. *)
From Moc Require Import Base Http HttpProofs.
Open Scope Z_scope.
Import Coq.Strings.String.StringSyntax.

(** Upgrade non-empty -> relay; else Accept exactly application/nostr+json ->
    the document (`{}` when none is configured); else the default handler (the
    greeting when none is configured); for all header values and configurations *)
Theorem C20_route_spec : forall u a hn hd,
  (u <> [] -> route_of u a hn hd = Relay) /\
  (u = [] -> a = nostr_json -> route_of u a hn hd = if hn then Nip11Doc else EmptyObj) /\
  (u = [] -> a <> nostr_json -> route_of u a hn hd = if hd then Default else Greeting).
Proof. exact route_spec. Qed.
Print Assumptions C20_route_spec.

(** every request has exactly one destination; the three conditions are
    exhaustive and mutually exclusive *)
Theorem C20_route_total_exclusive : forall u a hn hd,
  route_of u a hn hd <> Broken /\
  (route_of u a hn hd = Relay <-> u <> []) /\
  (route_of u a hn hd = Nip11Doc \/ route_of u a hn hd = EmptyObj <-> u = [] /\ a = nostr_json) /\
  (route_of u a hn hd = Default \/ route_of u a hn hd = Greeting <-> u = [] /\ a <> nostr_json).
Proof. exact route_total_exclusive. Qed.
Print Assumptions C20_route_total_exclusive.

Theorem C20_mux_no_panic : forall upgrade accept cfg, mux_serve upgrade accept cfg <> OPanic.
Proof. exact mux_no_panic. Qed.
Print Assumptions C20_mux_no_panic.

Theorem C20_mux_relay : forall upgrade accept cfg,
  hdr_get upgrade <> [] -> mux_serve upgrade accept cfg = ORelay.
Proof. exact mux_relay. Qed.

Theorem C20_mux_default : forall upgrade accept cfg,
  hdr_get upgrade = [] -> hdr_get accept <> nostr_json ->
  mux_serve upgrade accept cfg =
  if mc_has_default cfg then ODefault else OResp (mkResp 200 [] (BText greeting)).
Proof. exact mux_default. Qed.

(** with no document configured the answer is the text `{}` (DESIGN.md section 9:
    no headers are claimed for this configuration) *)
Theorem C20_mux_empty_obj : forall upgrade accept hd,
  hdr_get upgrade = [] -> hdr_get accept = nostr_json ->
  mux_serve upgrade accept (mkCfg None hd) = OResp (mkResp 200 [] (BText (hs "{}"))).
Proof. exact mux_empty_obj. Qed.

(** kind ranges written as single numbers or pairs round-trip, for all From, To *)
Theorem C20_kind_roundtrip : forall k, dec_kind (enc_kind k) = Some k.
Proof. exact kind_roundtrip. Qed.
Print Assumptions C20_kind_roundtrip.

Theorem C20_kind_readings : forall n a b,
  dec_kind (JInt n) = Some (mkKind n n) /\ dec_kind (JArr [JInt a; JInt b]) = Some (mkKind a b).
Proof. exact kind_readings. Qed.

(** the document round-trips through JSON for every configuration, up to nil
    versus empty slices, which `omitempty` cannot tell apart *)
Theorem C20_nip11_roundtrip : forall d, dec_nip11 (enc_nip11 d) = Some (norm d).
Proof. exact nip11_roundtrip. Qed.
Print Assumptions C20_nip11_roundtrip.

Theorem C20_norm_idempotent : forall d, norm (norm d) = norm d.
Proof. exact norm_idempotent. Qed.

Theorem C20_nip11_roundtrip_exact : forall d, dec_nip11 (enc_nip11 (norm d)) = Some (norm d).
Proof. exact nip11_roundtrip_exact. Qed.

(** the document request is answered 200 with Content-Type application/nostr+json,
    Access-Control-Allow-Origin *, and a body that is the JSON form of the
    configuration and reads back as the configuration *)
Theorem C20_nip11_body_equals_config : forall upgrade accept d hd,
  hdr_get upgrade = [] -> hdr_get accept = nostr_json ->
  mux_serve upgrade accept (mkCfg (Some d) hd) =
    OResp (mkResp 200 [(hs "Content-Type", nostr_json); (hs "Access-Control-Allow-Origin", hs "*")]
                  (BJson (enc_nip11 d))) /\
  dec_nip11 (enc_nip11 d) = Some (norm d).
Proof. exact nip11_body_equals_config. Qed.
Print Assumptions C20_nip11_body_equals_config.

(** a document with every kind of optional block: absent, empty, filled; kinds
    as single numbers, pairs, a reversed pair and a nil pointer *)
Example C20_example : dec_nip11 (enc_nip11 ex_doc) = Some (norm ex_doc) /\ norm ex_doc <> ex_doc.
Proof. exact ex_doc_roundtrip. Qed.
