(* C01 — the obligation that ties the theorems of Properties/C01.v to the tree
   under test: Event.Serialize is the hand-written serializer the theorems
   are about (it does not go through encoding/json), and its tags block is
   the text the model [ser_tags] was written from.  Both facts are read off
   message.go by /verif/gen on every run (Gen/GenSer.v).  This file does not
   compile on a tree whose Serialize calls json.Marshal. *)
From Moc Require Import Base Ser SerProofs.
From Moc.Gen Require Import GenSer.
Open Scope Z_scope.

Theorem C01_tree_uses_canonical_serializer : g_serialize_uses_json_marshal = false.
Proof. reflexivity. Qed.
Print Assumptions C01_tree_uses_canonical_serializer.

Theorem C01_tree_tags_block_is_modelled : g_ser_tags_block_is_reference = true.
Proof. reflexivity. Qed.

(** hence, on this tree, Serialize is canonical and Verify decides authenticity *)
Theorem C01_tree_serialize_canonical : forall e, serialize e = canonical e.
Proof.
  intro e. unfold serialize. rewrite C01_tree_uses_canonical_serializer. apply serialize_canonical.
Qed.
Print Assumptions C01_tree_serialize_canonical.

Theorem C01_tree_authentic_iff : forall H PK SG V e,
  verify_tree H PK SG V e = VOk true <-> authentic_spec H PK SG V e.
Proof.
  intros H PK SG V e. rewrite <- authentic_iff. unfold verify_tree, verify, verify_with, serialize.
  rewrite C01_tree_uses_canonical_serializer. reflexivity.
Qed.
Print Assumptions C01_tree_authentic_iff.
