(* C18 — Stateful middlewares: subscription quota and per-connection
   de-duplication.  Statements only; each is closed by [exact] of a lemma
   proved in MwProofs.v and followed by Print Assumptions.
   [layer_run k now st h] runs one middleware over a history of client
   messages, [server_run] over a history of server messages; in a stack the
   history of a member is what the members outside it forwarded (C17). *)
From Moc Require Import Base Msg Mw MwProofs.
Import String.StringSyntax.
Open Scope Z_scope.

(** [quota_invariant]: for every N and every history, at every point the
    middleware counts at most N distinct ids ... *)
Theorem C18_quota_invariant : forall n now h open,
  q_inv n open -> q_inv n (st_subs (fst (layer_run (MaxSubs n) now (StSubs open) h))).
Proof. exact quota_invariant. Qed.
Print Assumptions C18_quota_invariant.

(** ... the counted set is exactly the set of subscriptions open at the
    wrapped handler (opened by a forwarded REQ, closed by a forwarded CLOSE) ... *)
Theorem C18_quota_open_is_down_open : forall n now h open,
  q_inv n open ->
  st_subs (fst (layer_run (MaxSubs n) now (StSubs open) h)) =
  down_open (forwarded (snd (layer_run (MaxSubs n) now (StSubs open) h))) open.
Proof. exact quota_open_is_down_open. Qed.
Print Assumptions C18_quota_open_is_down_open.

(** ... hence at most N subscriptions are open downstream after every single
    forwarded message *)
Theorem C18_quota_down_bounded : forall n now h open,
  q_inv n open ->
  down_open_bounded n (forwarded (snd (layer_run (MaxSubs n) now (StSubs open) h))) open = true.
Proof. exact quota_down_bounded. Qed.
Print Assumptions C18_quota_down_bounded.

(** [quota_forward_iff]: a REQ is forwarded iff its id is already open or
    fewer than N are open; otherwise it is answered with CLOSED for its id,
    nothing is forwarded and nothing changes *)
Theorem C18_quota_forward_iff : forall n open sub fs,
  q_inv n open ->
  (snd (quota_client n open (CReq sub fs)) = Forward (CReq sub fs) <-> In sub open \/ zlen open < n).
Proof. exact quota_forward_iff. Qed.
Print Assumptions C18_quota_forward_iff.

Theorem C18_quota_req : forall n open sub fs,
  q_inv n open ->
  (In sub open \/ zlen open < n ->
   quota_client n open (CReq sub fs) = (set_add sub open, Forward (CReq sub fs))) /\
  (~ (In sub open \/ zlen open < n) ->
   exists t, quota_client n open (CReq sub fs) = (open, Reject (SClosed sub [] t))).
Proof. exact quota_req. Qed.
Print Assumptions C18_quota_req.

(** [close_frees]: a CLOSE is always forwarded and frees the slot of its id;
    after closing an open subscription any REQ is forwarded *)
Theorem C18_close_frees : forall n open sub,
  quota_client n open (CClose sub) = (set_remove sub open, Forward (CClose sub)) /\
  ~ In sub (set_remove sub open) /\
  (q_inv n open -> In sub open -> zlen (set_remove sub open) = zlen open - 1).
Proof. exact close_frees. Qed.
Print Assumptions C18_close_frees.

Theorem C18_close_then_req_forwarded : forall n open sub sub' fs,
  q_inv n open -> In sub open ->
  snd (quota_client n (fst (quota_client n open (CClose sub))) (CReq sub' fs)) = Forward (CReq sub' fs).
Proof. exact close_then_req_forwarded. Qed.
Print Assumptions C18_close_then_req_forwarded.

(** [lru_is_recent_window]: for every size and history the receive-side
    cache is exactly the last [size] distinct event ids seen, newest first ... *)
Theorem C18_lru_is_recent_window : forall size now h seen,
  1 <= size ->
  fst (layer_run (RecvUnique size) now (StLru (window size seen)) h) = StLru (window size (cev_ids h seen)).
Proof. exact lru_is_recent_window. Qed.
Print Assumptions C18_lru_is_recent_window.

(** ... and so is the send-side one *)
Theorem C18_send_lru_is_recent_window : forall size h seen,
  1 <= size ->
  fst (server_run (SendUnique size) (StLru (window size seen)) h) = StLru (window size (sev_ids h seen)).
Proof. exact send_lru_is_recent_window. Qed.
Print Assumptions C18_send_lru_is_recent_window.

(** [recv_unique_no_repeat]: an EVENT whose id is among the last [size]
    distinct ids seen is never forwarded; it is answered with OK false, its own
    id and the duplicate prefix *)
Theorem C18_recv_unique_no_repeat : forall size now h e,
  1 <= size -> In (ev_id e) (window size (cev_ids h [])) ->
  snd (mw_client_step (RecvUnique size) now (fst (layer_run (RecvUnique size) now (StLru []) h)) (CEvent e)) =
  Reject (SOk (ev_id e) false dup_prefix (txt "the event already found")).
Proof. exact recv_unique_no_repeat. Qed.
Print Assumptions C18_recv_unique_no_repeat.

(** [recv_unique_no_false_reject]: an id that has not been seen is forwarded *)
Theorem C18_recv_unique_no_false_reject : forall size now h e,
  1 <= size -> ~ In (ev_id e) (cev_ids h []) ->
  snd (mw_client_step (RecvUnique size) now (fst (layer_run (RecvUnique size) now (StLru []) h)) (CEvent e)) =
  Forward (CEvent e).
Proof. exact recv_unique_no_false_reject. Qed.
Print Assumptions C18_recv_unique_no_false_reject.

(** the exact decision *)
Theorem C18_recv_unique_decision : forall size now h e,
  1 <= size ->
  snd (mw_client_step (RecvUnique size) now (fst (layer_run (RecvUnique size) now (StLru []) h)) (CEvent e)) =
  if mem_str (ev_id e) (window size (cev_ids h [])) then Reject (recv_reply e) else Forward (CEvent e).
Proof. exact recv_unique_decision. Qed.
Print Assumptions C18_recv_unique_decision.

(** [send_unique_no_repeat]: an EVENT whose id is among the last [size]
    distinct ids that reached the filter is not delivered (silently); an id not
    seen before is delivered unchanged *)
Theorem C18_send_unique_no_repeat : forall size h sub e,
  1 <= size -> In (ev_id e) (window size (sev_ids h [])) ->
  snd (mw_server_step (SendUnique size) (fst (server_run (SendUnique size) (StLru []) h)) (SEvent sub e)) = None.
Proof. exact send_unique_no_repeat. Qed.
Print Assumptions C18_send_unique_no_repeat.

Theorem C18_send_unique_no_false_drop : forall size h sub e,
  1 <= size -> ~ In (ev_id e) (sev_ids h []) ->
  snd (mw_server_step (SendUnique size) (fst (server_run (SendUnique size) (StLru []) h)) (SEvent sub e)) =
  Some (SEvent sub e).
Proof. exact send_unique_no_false_drop. Qed.
Print Assumptions C18_send_unique_no_false_drop.

Theorem C18_send_unique_delivered_outside_window : forall size h sub e,
  1 <= size ->
  snd (mw_server_step (SendUnique size) (fst (server_run (SendUnique size) (StLru []) h)) (SEvent sub e)) <> None ->
  ~ In (ev_id e) (window size (sev_ids h [])).
Proof. exact send_unique_delivered_outside_window. Qed.
Print Assumptions C18_send_unique_delivered_outside_window.

(** [sessions_independent]: with any number of sessions sharing one
    middleware value, in every interleaving, a step of session i leaves every
    other session's state unchanged, and what a session shows (and the state it
    reaches) is what running its own operations alone gives *)
Theorem C18_sys_step_other : forall now sy i j o,
  i <> j -> nth_error (fst (sys_step now sy i o)) j = nth_error sy j.
Proof. exact sys_step_other. Qed.
Print Assumptions C18_sys_step_other.

Theorem C18_sessions_independent : forall now h sy j ls,
  nth_error sy j = Some ls ->
  nth_error (fst (sys_run now sy h)) j = Some (fst (sess_run now ls (proj j h))) /\
  proj j (combine (List.map fst h) (snd (sys_run now sy h))) = snd (sess_run now ls (proj j h)).
Proof. exact sessions_independent. Qed.
Print Assumptions C18_sessions_independent.

(** with any number of sessions and any interleaving, every session's own
    view of the history is accepted by the oracle of the correspondence check
    (quota, both windows, and the limits, in any stack) *)
Theorem C18_model_satisfies_oracle_sys : forall now ks n h j,
  Forall wf_k ks -> (j < n)%nat ->
  sp_run now (sp_stack_init ks) (proj j h)
         (proj j (combine (List.map fst h) (snd (sys_run now (sys_init ks n) h)))) = true.
Proof. exact model_satisfies_oracle_sys. Qed.
Print Assumptions C18_model_satisfies_oracle_sys.

(** connections come and go on one middleware value ([lsys_run]: a slot holds a
    connection from [LStart] to [LEnd] and may be used again afterwards).
    [connection_fresh]: after any history whatsoever in its slot, a connection
    that begins shows exactly what a session run from the initial state shows:
    nothing an earlier connection did or left behind (subscriptions it did not
    close, event ids it saw) is visible to a later one *)
Theorem C18_connection_fresh : forall ks now c before ops,
  snd (slot_run ks now c (before ++ LStart :: List.map LOp ops)) =
  snd (slot_run ks now c before) ++ ([], []) :: snd (sess_run now (stack_init ks) ops).
Proof. exact connection_fresh. Qed.
Print Assumptions C18_connection_fresh.

(** [slots_independent]: with any number of slots and any interleaving of
    connections beginning, talking and ending, what a slot shows is what
    running its own history alone gives *)
Theorem C18_slots_independent : forall ks now h sy j c,
  nth_error sy j = Some c ->
  nth_error (fst (lsys_run ks now sy h)) j = Some (fst (slot_run ks now c (proj j h))) /\
  proj j (combine (List.map fst h) (snd (lsys_run ks now sy h))) = snd (slot_run ks now c (proj j h)).
Proof. exact slots_independent. Qed.
Print Assumptions C18_slots_independent.

(** ... and every slot's view is accepted by the oracle of the correspondence
    check, which judges every connection from the initial state of the text *)
Theorem C18_life_model_satisfies_oracle : forall now ks n h j,
  Forall wf_k ks -> (j < n)%nat ->
  sp_life_run now ks None (proj j h)
              (proj j (combine (List.map fst h) (snd (lsys_run ks now (lsys_init n) h)))) = true.
Proof. exact life_model_satisfies_oracle. Qed.
Print Assumptions C18_life_model_satisfies_oracle.

(** a concrete instance: N = 1; the first connection opens a and ends without
    closing it; the connection that begins afterwards in the same slot opens b *)
Example C18_example_reconnect :
  let a := txt "a" in let b := txt "b" in
  snd (slot_run [MaxSubs 1] 0 None
         [LStart; LOp (OClient (CReq a [])); LOp (OClient (CReq b [])); LEnd; LStart; LOp (OClient (CReq b []))]) =
  [([], []); ([CReq a []], []);
   ([], [SClosed b [] (txt "too many req: max subscriptions is 1")]);
   ([], []); ([], []); ([CReq b []], [])].
Proof. reflexivity. Qed.

(** non-trivial concrete instances: N = 2 with a, b open rejects c, accepts a
    again, and accepts c after CLOSE a; window 2 after x y x z rejects x (LRU:
    x was promoted) but has forgotten y *)
Example C18_example_quota :
  let a := txt "a" in let b := txt "b" in let c := txt "c" in
  q_inv 2 [b; a] /\
  snd (quota_client 2 [b; a] (CReq c [])) = Reject (SClosed c [] (txt "too many req: max subscriptions is 2")) /\
  snd (quota_client 2 [b; a] (CReq a [])) = Forward (CReq a []) /\
  snd (quota_client 2 (fst (quota_client 2 [b; a] (CClose a))) (CReq c [])) = Forward (CReq c []).
Proof. repeat split; repeat constructor; simpl; intuition discriminate. Qed.

Example C18_example_window :
  let ev i := mkEvent i [] 0 1 [] [] [] in
  let x := txt "x" in let y := txt "y" in let z := txt "z" in
  let h := [CEvent (ev x); CEvent (ev y); CEvent (ev x); CEvent (ev z)] in
  window 2 (cev_ids h []) = [txt "z"; txt "x"] /\
  fst (layer_run (RecvUnique 2) 0 (StLru []) h) = StLru [txt "z"; txt "x"] /\
  snd (mw_client_step (RecvUnique 2) 0 (fst (layer_run (RecvUnique 2) 0 (StLru []) h)) (CEvent (ev x))) =
    Reject (recv_reply (ev x)) /\
  snd (mw_client_step (RecvUnique 2) 0 (fst (layer_run (RecvUnique 2) 0 (StLru []) h)) (CEvent (ev y))) =
    Forward (CEvent (ev y)).
Proof. repeat split. Qed.
