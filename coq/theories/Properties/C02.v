(* C02 — Filter matching equals the NIP-01 predicate for every event and
   filter.  Statements only; each is closed by [exact] of a lemma proved in
   MatchProofs.v and followed by Print Assumptions. *)
From Moc Require Import Base Match MatchProofs.
Open Scope Z_scope.

(** For every event whose tags are non-empty (what the admission gate
    guarantees) and every filter the decoder can produce, the code's
    decision is the NIP-01 predicate. *)
Theorem C02_match_correct : forall e f,
  tags_nonempty e -> filter_wf f -> (match_impl e f = Ok true <-> match_spec e f).
Proof. exact match_correct. Qed.
Print Assumptions C02_match_correct.

Theorem C02_match_total : forall e f,
  tags_nonempty e -> filter_wf f -> match_impl e f = Ok (match_specb e f).
Proof. exact match_impl_correct. Qed.
Print Assumptions C02_match_total.

Theorem C02_specb_is_spec : forall e f, match_specb e f = true <-> match_spec e f.
Proof. exact match_specb_spec. Qed.
Print Assumptions C02_specb_is_spec.

(** an empty list matches nothing *)
Theorem C02_empty_ids_none : forall e f, f_ids f = Some [] -> ~ match_spec e f.
Proof. exact match_empty_ids_none. Qed.
Theorem C02_empty_authors_none : forall e f, f_authors f = Some [] -> ~ match_spec e f.
Proof. exact match_empty_authors_none. Qed.
Theorem C02_empty_kinds_none : forall e f, f_kinds f = Some [] -> ~ match_spec e f.
Proof. exact match_empty_kinds_none. Qed.
Theorem C02_empty_tagvalues_none : forall e f m n,
  f_tags f = Some m -> In (n, []) m -> ~ match_spec e f.
Proof. exact match_empty_tagvalues_none. Qed.
(** absent conditions do not constrain *)
Theorem C02_empty_filter_all : forall e, match_spec e empty_filter.
Proof. exact match_empty_filter_all. Qed.

(** a filter list matches when any member matches *)
Theorem C02_matchers_or : forall e fs,
  tags_nonempty e -> Forall filter_wf fs ->
  lms_match (lms_new fs) e = Ok (matches_specb e fs).
Proof. exact matchers_or. Qed.
Print Assumptions C02_matchers_or.

Theorem C02_matches_specb_is_spec : forall e fs, matches_specb e fs = true <-> matches_spec e fs.
Proof. exact matches_specb_spec. Qed.

(** limit counting: after feeding any sequence of events each counter is the
    number of events its own filter matched ... *)
Theorem C02_limit_counter : forall fs es,
  Forall tags_nonempty es -> Forall filter_wf fs ->
  lms_feed (lms_new fs) es =
  Ok (List.map (fun f => mkLM f (Z.of_nat (count_occ_b (fun e => match_specb e f) es))) fs).
Proof. exact limit_counter. Qed.
Print Assumptions C02_limit_counter.

(** ... and the list is exhausted exactly when every filter has a limit and
    has matched at least that many events. *)
Theorem C02_done_iff_exhausted : forall fs es ms,
  Forall tags_nonempty es -> Forall filter_wf fs ->
  lms_feed (lms_new fs) es = Ok ms ->
  (lms_done ms = true <-> exhausted fs es).
Proof. exact done_iff_exhausted. Qed.
Print Assumptions C02_done_iff_exhausted.

(** the model panics only where Go would: an empty tag reaches the tag loop *)
Theorem C02_panics_only_on_empty_tag : forall e f,
  filter_wf f -> match_impl e f = Panic -> ~ tags_nonempty e.
Proof. exact match_panics_only_on_empty_tag. Qed.
Print Assumptions C02_panics_only_on_empty_tag.
