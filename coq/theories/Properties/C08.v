(* C08 — Merged REQ: one EOSE after all children, an ordered de-duplicated
   stream before it, pass-through after it.

   Statements only; each is closed by lemmas proved in MergeProofs.v and
   followed by Print Assumptions.

   Reading guide.
   - [init n] is a fresh session over [n] children; [final (init n) pre] the
     session after the history [pre]; a history is a list of inputs, each
     one critical section of the code (client REQ/CLOSE/EVENT/COUNT, or a
     server message coming out of child [i]).
   - [trace_ok n t]: child indices are below [n], events carry no empty tag,
     filters are decoder-producible — what the gate in front of the handler
     guarantees.  Nothing else is assumed about the interleaving: the
     theorems hold for every history.
   - A *window* of [sub] is a REQ for [sub] together with the inputs [w] that
     follow it up to the next REQ/CLOSE for [sub] ([no_reset sub w]).
     [win_outs s sub fs w] is what the client receives at each step of [w].
   - [eosed sub w i]: child [i] has an EOSE for [sub] among [w];
     [all_eosed n sub w]: every child has.  Under [wf_trace] (the id is not
     re-issued before its merged EOSE; a child sends EOSE for [sub] once, in
     answer to a pending REQ) an EOSE inside the window is the child's own
     answer to the window's REQ. *)
From Moc Require Import Base Match MatchProofs Merge MergeProofs MergeOracleProofs MergeMulti MergeMultiProofs.
Open Scope Z_scope.

(** every history accepted by [wf_trace] is covered by the theorems below *)
Theorem C08_wf_trace_covered : forall n t, wf_trace n t -> trace_ok n t.
Proof. exact wf_trace_ok. Qed.
Print Assumptions C08_wf_trace_covered.

(** the outputs of a window are the tail of the session's outputs *)
Theorem C08_window_outputs : forall n pre sub fs w,
  outs (init n) (pre ++ CReq sub fs :: w) =
  outs (init n) pre ++ None :: win_outs (final (init n) pre) sub fs w.
Proof.
  intros n pre sub fs w. rewrite outs_window. unfold win_outs, merge_step.
  destruct (st_dead (final (init n) pre)); reflexivity.
Qed.
Print Assumptions C08_window_outputs.

(** exactly one merged EOSE in a window in which every child sent EOSE, none
    in any other window (so never two, and none for a window the client cut
    short by CLOSE or by a new REQ) *)
Theorem C08_eose_exactly_once : forall n pre sub fs w,
  (2 <= n)%nat -> trace_ok n (pre ++ CReq sub fs :: w) -> no_reset sub w ->
  count_occ_b (is_eose_out sub) (win_outs (final (init n) pre) sub fs w) =
  if all_eosed n sub w then 1%nat else 0%nat.
Proof.
  intros n pre sub fs w Hn Ht Hnr. destruct (trace_ok_window _ _ _ _ Ht) as [H1 [H2 H3]].
  apply (eose_exactly_once n); auto using ge2_ge1, reach_ok.
Qed.
Print Assumptions C08_eose_exactly_once.

(** the merged EOSE is output exactly at the step at which the last child's
    EOSE arrives: never earlier *)
Theorem C08_eose_not_early : forall n pre sub fs w1 x w2,
  (2 <= n)%nat -> trace_ok n (pre ++ CReq sub fs :: w1 ++ x :: w2) -> no_reset sub (w1 ++ x :: w2) ->
  exists o, nth_error (win_outs (final (init n) pre) sub fs (w1 ++ x :: w2)) (length w1) = Some o /\
            (is_eose_out sub o = true <->
             all_eosed n sub w1 = false /\ forall i, (i < n)%nat -> eosed sub (w1 ++ [x]) i = true).
Proof.
  intros n pre sub fs w1 x w2 Hn Ht Hnr. destruct (trace_ok_window _ _ _ _ Ht) as [H1 [H2 H3]].
  destruct (eose_at n (final (init n) pre) sub fs w1 x w2 (ge2_ge1 n Hn) (reach_ok n pre H1) H2 H3 Hnr) as [o [Ho E]].
  exists o. split; [exact Ho|]. rewrite E, andb_true_iff, negb_true_iff. split.
  - intros [E1 E2]. split; [exact E1|]. intros i Hi.
    unfold all_eosed in E2. rewrite forallb_forall in E2. apply E2. apply in_seq. lia.
  - intros [E1 E2]. split; [exact E1|]. unfold all_eosed. apply forallb_forall. intros i Hi.
    apply in_seq in Hi. apply E2. lia.
Qed.
Print Assumptions C08_eose_not_early.

(** after the client closed the subscription no merged EOSE is output for it,
    whatever the children still send, until the id is used by a new REQ *)
Theorem C08_eose_none_after_close : forall n pre sub w,
  trace_ok n (pre ++ CClose sub :: w) -> (forall x, In x w -> is_req_of sub x = false) ->
  count_occ_b (is_eose_out sub) (outs (fst (merge_step (final (init n) pre) (CClose sub))) w) = 0%nat.
Proof.
  intros n pre sub w Ht Hn. destruct (trace_ok_window _ _ _ _ Ht) as [H1 [H2 H3]].
  apply (eose_none_after_close n); auto using reach_ok.
Qed.
Print Assumptions C08_eose_none_after_close.

(** nor before the first REQ for it *)
Theorem C08_eose_none_before_req : forall n sub w,
  trace_ok n w -> (forall x, In x w -> is_req_of sub x = false) ->
  count_occ_b (is_eose_out sub) (outs (init n) w) = 0%nat.
Proof. exact eose_none_before_req. Qed.
Print Assumptions C08_eose_none_before_req.

(** while some child has not sent EOSE, every forwarded event matches the
    REQ's filters (the NIP-01 predicate of C02) ... *)
Theorem C08_pre_eose_match : forall n pre sub fs w,
  (2 <= n)%nat -> trace_ok n (pre ++ CReq sub fs :: w) -> no_reset sub w -> all_eosed n sub w = false ->
  forall e, In e (forwarded sub (win_outs (final (init n) pre) sub fs w)) -> matches_spec e fs.
Proof.
  intros n pre sub fs w Hn Ht Hnr Ha. destruct (trace_ok_window _ _ _ _ Ht) as [H1 [H2 H3]].
  apply (pre_eose_match n); auto using ge2_ge1, reach_ok.
Qed.
Print Assumptions C08_pre_eose_match.

(** ... the forwarded events are pairwise distinct (as (created_at, id) pairs) ... *)
Theorem C08_pre_eose_distinct : forall n pre sub fs w,
  (2 <= n)%nat -> trace_ok n (pre ++ CReq sub fs :: w) -> no_reset sub w -> all_eosed n sub w = false ->
  NoDup (List.map ev_key (forwarded sub (win_outs (final (init n) pre) sub fs w))).
Proof.
  intros n pre sub fs w Hn Ht Hnr Ha. destruct (trace_ok_window _ _ _ _ Ht) as [H1 [H2 H3]].
  apply (pre_eose_distinct n); auto using ge2_ge1, reach_ok.
Qed.
Print Assumptions C08_pre_eose_distinct.

(** ... in their ids, when an id determines its event ... *)
Theorem C08_pre_eose_distinct_ids : forall n pre sub fs w,
  (2 <= n)%nat -> trace_ok n (pre ++ CReq sub fs :: w) -> no_reset sub w -> all_eosed n sub w = false ->
  (forall e1 e2, In e1 (forwarded sub (win_outs (final (init n) pre) sub fs w)) ->
                 In e2 (forwarded sub (win_outs (final (init n) pre) sub fs w)) ->
                 ev_id e1 = ev_id e2 -> ev_ts e1 = ev_ts e2) ->
  NoDup (List.map ev_id (forwarded sub (win_outs (final (init n) pre) sub fs w))).
Proof.
  intros n pre sub fs w Hn Ht Hnr Ha. destruct (trace_ok_window _ _ _ _ Ht) as [H1 [H2 H3]].
  apply (pre_eose_distinct_ids n); auto using ge2_ge1, reach_ok.
Qed.
Print Assumptions C08_pre_eose_distinct_ids.

(** ... they arrive in non-increasing created_at order ... *)
Theorem C08_pre_eose_sorted : forall n pre sub fs w,
  (2 <= n)%nat -> trace_ok n (pre ++ CReq sub fs :: w) -> no_reset sub w -> all_eosed n sub w = false ->
  ts_noninc (forwarded sub (win_outs (final (init n) pre) sub fs w)).
Proof.
  intros n pre sub fs w Hn Ht Hnr Ha. destruct (trace_ok_window _ _ _ _ Ht) as [H1 [H2 H3]].
  apply (pre_eose_sorted n); auto using ge2_ge1, reach_ok.
Qed.
Print Assumptions C08_pre_eose_sorted.

(** ... and for a single filter with limit [l] they number at most [l] *)
Theorem C08_pre_eose_limit_single : forall n pre sub f l w,
  (2 <= n)%nat -> trace_ok n (pre ++ CReq sub [f] :: w) -> no_reset sub w -> all_eosed n sub w = false ->
  f_limit f = Some l ->
  Z.of_nat (length (forwarded sub (win_outs (final (init n) pre) sub [f] w))) <= Z.max 0 l.
Proof.
  intros n pre sub f l w Hn Ht Hnr Ha Hl. destruct (trace_ok_window _ _ _ _ Ht) as [H1 [H2 H3]].
  apply (pre_eose_limit_single n); auto using ge2_ge1, reach_ok. cbn in H2. now inversion H2.
Qed.
Print Assumptions C08_pre_eose_limit_single.

(** once every child has sent EOSE, every event a child emits for the
    subscription is forwarded unchanged at its own step (so each child's
    order is preserved) *)
Theorem C08_post_eose_passthrough : forall n pre sub fs w1 i e w2,
  (2 <= n)%nat -> trace_ok n (pre ++ CReq sub fs :: w1 ++ Child i (SEvent sub e) :: w2) ->
  no_reset sub (w1 ++ Child i (SEvent sub e) :: w2) -> all_eosed n sub w1 = true ->
  nth_error (win_outs (final (init n) pre) sub fs (w1 ++ Child i (SEvent sub e) :: w2)) (length w1) =
  Some (Some (SEvent sub e)).
Proof.
  intros n pre sub fs w1 i e w2 Hn Ht Hnr Ha. destruct (trace_ok_window _ _ _ _ Ht) as [H1 [H2 H3]].
  apply (post_eose_passthrough n); auto using ge2_ge1, reach_ok.
Qed.
Print Assumptions C08_post_eose_passthrough.

(** whatever the client receives at a step is the message of the child that
    moved at that step — the same subscription id, the same event; client
    messages produce nothing (in any state, for any input) *)
Theorem C08_subid_preserved : forall s x o,
  snd (merge_step s x) = Some o ->
  exists i m, x = Child i m /\
    match m with
    | SOk _ => exists r, o = SOk r
    | SCount _ => exists r, o = SCount r
    | _ => o = m
    end.
Proof. exact subid_preserved. Qed.
Print Assumptions C08_subid_preserved.

(** the session never panics on a gated history *)
Theorem C08_no_panic : forall n t, trace_ok n t -> st_dead (final (init n) t) = false.
Proof. intros n t H. apply (reach_ok n t H). Qed.
Print Assumptions C08_no_panic.

(** All of the above in one statement, over whole histories and without
    windows: the boolean oracle [c08_oracle] — the text of C08 as a judgement
    of an observed history (one merged EOSE exactly when the last child's
    EOSE arrives, none after CLOSE; before it only matching, distinct,
    non-increasing events within the single-filter limit; after it
    pass-through; nothing invented) — accepts what the model does on every
    gated history of every length, for every number of children.  This is
    the oracle the correspondence check applies to the implementation. *)
Theorem C08_model_satisfies_oracle : forall n t,
  (2 <= n)%nat -> trace_ok n t -> c08_oracle n (obs_of (init n) t) = true.
Proof. intros n t Hn. apply model_satisfies_c08_oracle. lia. Qed.
Print Assumptions C08_model_satisfies_oracle.

(** so an observation that the model reproduces step by step is one the
    oracle accepts *)
Theorem C08_agreement_implies_oracle : forall n t,
  (2 <= n)%nat -> trace_ok n (List.map fst t) -> model_agrees (init n) t = true -> c08_oracle n t = true.
Proof. intros n t Hn. apply agreement_implies_c08_oracle. lia. Qed.
Print Assumptions C08_agreement_implies_oracle.

(* ------------------------------------------------------------------ *)
(** One handler value serves every connection; the REQ state is allocated per
    ServeNostr call.  The model of a handler with [k] sessions is the product
    of [k] session models, and C08 is required of every session on its own
    ([c08_multi_oracle] judges what each session saw with [c08_oracle]): what
    the product model reproduces is accepted session by session. *)
Theorem C08_sessions_agreement_implies_oracle : forall n k t,
  (2 <= n)%nat -> (forall p, In p t -> input_ok n (fst (snd p))) ->
  multi_agrees (repeat (init n) k) t = true -> c08_multi_oracle n k t = true.
Proof. intros n k t Hn. apply multi_agreement_implies_c08_oracle. lia. Qed.
Print Assumptions C08_sessions_agreement_implies_oracle.

(* ------------------------------------------------------------------ *)
(** Non-vacuity: a concrete history with two children meeting every
    hypothesis above, and what the model does on it: child 0 and child 1
    both hold event a (created_at 5); child 1 also holds b (created_at 3);
    the filter has limit 2; after the merged EOSE child 0 emits a live event. *)

Example ex_sub : str := [115; 49]%N.
Example ex_a : event := mkEvent [97]%N [1]%N 5 1 [] [] [].
Example ex_b : event := mkEvent [98]%N [1]%N 3 1 [] [] [].
Example ex_c : event := mkEvent [99]%N [1]%N 9 1 [] [] [].
Example ex_f : rfilter := mkFilter None None (Some [1]) None None None (Some 2).
Example ex_w : list input :=
  [Child 0 (SEvent ex_sub ex_a); Child 1 (SEvent ex_sub ex_a); Child 1 (SEvent ex_sub ex_b);
   Child 0 (SEose ex_sub); Child 1 (SEose ex_sub); Child 0 (SEvent ex_sub ex_c)].
Example ex_t : list input := CReq ex_sub [ex_f] :: ex_w.

Example C08_example_hypotheses :
  wf_trace 2 ex_t /\ trace_ok 2 ([] ++ ex_t) /\ no_reset ex_sub ex_w /\ all_eosed 2 ex_sub ex_w = true /\
  all_eosed 2 ex_sub (firstn 3 ex_w) = false.
Proof.
  assert (T : trace_ok 2 ex_t).
  { unfold trace_ok, ex_t, ex_w. repeat constructor; try exact I; cbn; auto; try lia;
      unfold tags_nonempty; cbn; constructor. }
  split; [split; [exact T | reflexivity]|]. split; [exact T|]. split; [|split; reflexivity].
  intros x Hx. unfold ex_w in Hx. cbn in Hx.
  repeat (destruct Hx as [<-|Hx]; [split; reflexivity|]). destruct Hx.
Qed.

Example C08_example_run :
  outs (init 2) ex_t =
  [None; Some (SEvent ex_sub ex_a); None; Some (SEvent ex_sub ex_b); None; Some (SEose ex_sub);
   Some (SEvent ex_sub ex_c)].
Proof. vm_compute. reflexivity. Qed.

(** The set of ids already forwarded for the current timestamp has no bound: an
    event whose id is in it is dropped and nothing is written, however many ids
    the set holds (the code's map[string]bool; a cap or a reset of a full set
    is a model difference on the histories of [c08ManySameTS]). *)
Theorem C08_seen_set_unbounded : forall r3 sub e ids,
  assoc sub (rs_seen r3) = Some ids -> In (ev_id e) ids ->
  rs_dedup_limit r3 sub e = Some (r3, false).
Proof.
  intros r3 sub e ids Hs Hin. unfold rs_dedup_limit. rewrite Hs. cbn.
  apply mem_str_In in Hin.
  with_strategy transparent [h_ev_seen_reject] (unfold h_ev_seen_reject). cbn. rewrite Hin. reflexivity.
Qed.
Print Assumptions C08_seen_set_unbounded.

(** ... and the set only grows while the timestamp stays: a forwarded event's
    id is recorded in front of the ids already there, none is forgotten. *)
Theorem C08_forwarded_id_recorded : forall r3 sub e r',
  rs_dedup_limit r3 sub e = Some (r', true) ->
  exists ids, assoc sub (rs_seen r3) = Some ids /\
              assoc sub (rs_seen r') = Some (ev_id e :: ids).
Proof.
  intros r3 sub e r' H. unfold rs_dedup_limit in H.
  destruct (h_ev_seen_reject _ _); [discriminate|].
  destruct (assoc sub (rs_seen r3)) as [ids|] eqn:Hs; [|discriminate].
  exists ids. split; [reflexivity|].
  cbn [rs_matcher rs_with_seen] in H.
  destruct (assoc sub (rs_matcher r3)) as [ms|]; [|discriminate].
  destruct (h_ev_done _); [discriminate|].
  destruct (lms_limit_match ms e) as [[ms' matched]|]; [|discriminate].
  destruct (h_ev_nomatch matched); [discriminate|].
  injection H as <-. cbn. apply assoc_m_set_same.
Qed.
Print Assumptions C08_forwarded_id_recorded.
