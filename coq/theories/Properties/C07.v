(* C07 — Router: live events reach exactly the open matching subscriptions,
   once.  Statements only. *)
From Moc Require Import Base Match MatchProofs Router RouterProofs.
From Moc.Gen Require Import GenRouter.
Open Scope Z_scope.

Theorem C07_structure : model_applicable = true.
Proof. exact model_applicable_true. Qed.
Print Assumptions C07_structure.

Theorem C07_deliver_must : forall s tr p x sub fs e n,
  established s x sub fs ->
  (exists rest, c_pc (r_cs s p) = IPubBegin e :: rest) -> c_ctr (r_cs s p) = n ->
  Forall (fun l => ends_sub x sub l = false) tr ->
  sub_matches e fs = true ->
  pub_done (run s tr) p n ->
  got_st (r_cs (run s tr) x) sub e (p, n).
Proof. exact deliver_must. Qed.
Print Assumptions C07_deliver_must.
