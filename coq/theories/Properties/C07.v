(* C07 — Router: live events reach exactly the open matching subscriptions,
   once.  Statements only; each is closed by [exact] of a lemma proved in
   Router*.v and followed by Print Assumptions.

   The model (Router.v) is a labelled transition system whose atomic steps are
   the critical sections of safeMap's RWMutex and the channel operations;
   [run s tr] executes an arbitrary list of labels (a schedule), steps that
   would have to wait leave the state unchanged.  Every theorem below
   quantifies over all schedules and any number of connections.

   PARTIAL: that the Go scheduler, sync.RWMutex and channels realise exactly
   these atomic steps is not proved; it is tied to the source by the extracted
   lock table and call shapes (C07_structure, C07_lock_discipline) and
   exercised by the concurrent layer of the correspondence check. *)
From Moc Require Import Base Match MatchProofs Router RouterProofs RouterSpec RouterHist RouterHistBase RouterHistOracle RouterHistDet RouterHistLive.
From Moc.Gen Require Import GenRouter.
From Coq Require Import Sorted.
Open Scope Z_scope.

(** the structure facts the model relies on, as extracted from the source:
    SendIfMatch calls Match (not LimitMatch) and trySendCtx; trySendCtx has a
    default clause; recv subscribes before it answers EOSE and publishes
    before it answers OK; ServeNostr defers UnsubscribeAll; the queue has
    capacity buflen; Publish is a loop in a loop; the lock table *)
Theorem C07_structure : model_applicable = true.
Proof. exact model_applicable_true. Qed.
Print Assumptions C07_structure.

(** every method of safeMap defers the unlock matching the lock it takes at
    entry, and every method that writes the map takes the exclusive lock:
    each step of the model is atomic with respect to the others on that map *)
Theorem C07_lock_discipline :
  forall name excl deferred writes,
    In (name, (excl, deferred, writes)) g_safemap_locks ->
    deferred = true /\ (writes = true -> excl = true).
Proof. exact safemap_lock_discipline. Qed.
Print Assumptions C07_lock_discipline.

Theorem C07_buflen_guard : forall b, g_router_buflen_bad b = true <-> b <= 0.
Proof. exact g_router_buflen_bad_spec. Qed.

(** the model's test is the NIP-01 predicate of C02 *)
Theorem C07_match_is_nip01 : forall e fs,
  tags_nonempty e -> Forall filter_wf fs -> sub_matches e fs = matches_specb e fs.
Proof. exact sub_matches_spec. Qed.
Print Assumptions C07_match_is_nip01.

(* ------------------------------------------------------------------ *)
(** One visit: with room, exactly one copy per matching open subscription of
    the visited connection, labelled with its id, none otherwise. *)
Theorem C07_visit_exact : forall buf e t m q,
  NoDup (List.map fst m) -> (length q + length (matching_subs e m) <= buf)%nat ->
  exists new, visit_loop buf e t m q = q ++ new /\
    (forall sub, count_occ_b (is_copy sub t) new =
       match assoc sub m with Some fs => if sub_matches e fs then 1%nat else 0%nat | None => 0%nat end) /\
    Forall (fun msg => exists sub, msg = MEvent sub e t) new.
Proof. exact visit_exact. Qed.
Print Assumptions C07_visit_exact.

(** [visit_loop] is what the transition system does in an uninterrupted visit *)
Theorem C07_visit_is_model : forall e t x todo s c rest,
  c_pc (r_cs s c) = IVisit e t x todo :: rest ->
  let s' := run s (repeat (LRun c) (length todo)) in
  c_q (r_cs s' x) = visit_loop (r_buf s) e t todo (c_q (r_cs s x)) /\
  c_pc (r_cs s' c) = IVisit e t x [] :: rest.
Proof. exact visit_uninterrupted. Qed.

(* ------------------------------------------------------------------ *)
(** MUST.  If subscription (x, sub, fs) is established (registered, nothing
    pending that touches it, session alive) when publication (p, n) of e
    begins, no CLOSE / REQ with the same id / disconnect of x is accepted
    during the schedule tr, the filters match and the publication is over at
    the end of tr (its OK has been handed over), then x has the copy — in its
    output, in the forwarder's hand or in its queue — or the copy is in x's
    drop log (see C07_drop_only_when_full). *)
Theorem C07_deliver_must : forall s tr p x sub fs e n,
  established s x sub fs ->
  (exists rest, c_pc (r_cs s p) = IPubBegin e :: rest) -> c_ctr (r_cs s p) = n ->
  Forall (fun l => ends_sub x sub l = false) tr ->
  sub_matches e fs = true ->
  pub_done (run s tr) p n ->
  got_st (r_cs (run s tr) x) sub e (p, n).
Proof. exact deliver_must. Qed.
Print Assumptions C07_deliver_must.

(** "the REQ ended": when the EOSE is handed to the client (and the client
    has not disconnected in the meantime) the subscription is established with
    the filters of that REQ *)
Theorem C07_req_end_established : forall buf s x sub,
  reachable buf s -> c_pc (r_cs s x) = [IEose sub] -> ~ In x (r_cancel s) ->
  exists fs ops0,
    c_ops (r_cs s x) = ops0 ++ [OReq sub fs] /\
    established (step s (LRun x)) x sub fs /\
    c_out (r_cs (step s (LRun x)) x) = c_out (r_cs s x) ++ [MEose sub].
Proof. exact req_end_established. Qed.
Print Assumptions C07_req_end_established.

(** it stays established until the client ends it *)
Theorem C07_established_stable : forall s tr x sub fs,
  established s x sub fs -> Forall (fun l => ends_sub x sub l = false) tr -> established (run s tr) x sub fs.
Proof. exact established_run. Qed.

(** a client that reads receives everything that is in its flow *)
Theorem C07_reader_gets_flow : forall s x,
  c_dead (r_cs s x) = false ->
  exists tr, Forall (reader_label x) tr /\ c_out (r_cs (run s tr) x) = flow (r_cs s x).
Proof. exact drain. Qed.
Print Assumptions C07_reader_gets_flow.

(* ------------------------------------------------------------------ *)
(** MUST NOT, four clauses. *)

(** does not match / foreign label: a received live event carries the id of a
    REQ of this very connection whose filters match it *)
Theorem C07_deliver_must_not : forall buf s x sub e t,
  reachable buf s -> In (MEvent sub e t) (c_out (r_cs s x)) ->
  exists fs, In (OReq sub fs) (c_ops (r_cs s x)) /\ sub_matches e fs = true.
Proof. exact must_not_unjustified. Qed.
Print Assumptions C07_deliver_must_not.

(** closed or replaced before / never subscribed: while x has no subscription
    sub and no REQ for it is accepted, no copy labelled sub is produced for x *)
Theorem C07_deliver_must_not_closed : forall buf s tr x sub t,
  reachable buf s -> unsubscribed s x sub ->
  Forall (fun l => is_req_of x sub l = false) tr ->
  (total (r_cs (run s tr) x) sub t <= total (r_cs s x) sub t)%nat /\ unsubscribed (run s tr) x sub.
Proof. exact must_not_unsubscribed. Qed.
Print Assumptions C07_deliver_must_not_closed.

(** created after the OK: once a publication is over no further copy of it is
    produced, for any connection and subscription id, under any schedule *)
Theorem C07_deliver_must_not_after_ok : forall buf s tr p n x sub,
  reachable buf s -> pub_done s p n ->
  (total (r_cs (run s tr) x) sub (p, n) <= total (r_cs s x) sub (p, n))%nat /\ pub_done (run s tr) p n.
Proof. exact must_not_after_ok. Qed.
Print Assumptions C07_deliver_must_not_after_ok.

(** finished connection: after the end of a session nothing is sent to it or
    queued for it, whatever happens afterwards *)
Theorem C07_deliver_must_not_finished : forall buf s tr x,
  reachable buf s -> finished s x ->
  c_out (r_cs (run s tr) x) = c_out (r_cs s x) /\ c_q (r_cs (run s tr) x) = [] /\ c_hand (r_cs (run s tr) x) = None.
Proof. exact must_not_finished. Qed.
Print Assumptions C07_deliver_must_not_finished.

Theorem C07_disconnect_finishes : forall buf s x,
  reachable buf s -> c_pc (r_cs s x) = [IUnsubAll] -> r_pubs s = [] ->
  finished (step s (LRun x)) x /\ reg_get x (r_reg (step s (LRun x))) = None.
Proof. exact disconnect_finishes. Qed.

(* ------------------------------------------------------------------ *)
(** AT MOST ONCE: per connection, subscription id and publication, at most one
    copy is received or dropped (never both), in every reachable state. *)
Theorem C07_deliver_at_most_once : forall buf s x sub t,
  reachable buf s ->
  (count_occ_b (is_copy sub t) (c_out (r_cs s x)) + count_occ_b (is_drop sub t) (c_drops (r_cs s x)) <= 1)%nat.
Proof. exact deliver_at_most_once. Qed.
Print Assumptions C07_deliver_at_most_once.

(** ORDER: what a connection has received from publisher p is sorted by p's
    publication numbers, which are issued in p's program order. *)
Theorem C07_publisher_order_preserved : forall buf s x p,
  reachable buf s -> StronglySorted le (pub_seq p (c_out (r_cs s x))).
Proof. exact publisher_order_preserved. Qed.
Print Assumptions C07_publisher_order_preserved.

Theorem C07_publication_numbers : forall s c e rest,
  c_pc (r_cs s c) = IPubBegin e :: rest ->
  c_pc (r_cs (step s (LRun c)) c) = IPub e (c, c_ctr (r_cs s c)) (List.map fst (r_reg s)) :: rest /\
  c_ctr (r_cs (step s (LRun c)) c) = S (c_ctr (r_cs s c)).
Proof. exact pub_numbers_in_program_order. Qed.

(** DROPS: a copy enters the drop log only in a SendIfMatch step that finds the
    connection's own queue holding exactly buflen messages; the queue never
    holds more. *)
Theorem C07_drop_only_when_full : forall buf s l x d,
  reachable buf s ->
  In d (c_drops (r_cs (step s l) x)) -> ~ In d (c_drops (r_cs s x)) ->
  length (c_q (r_cs s x)) = buf /\ c_q (r_cs (step s l) x) = c_q (r_cs s x) /\
  exists c e t sub fs todo rest,
    l = LRun c /\ c_pc (r_cs s c) = IVisit e t x ((sub, fs) :: todo) :: rest /\ d = (sub, e, t) /\ sub_matches e fs = true.
Proof. exact drop_only_when_full. Qed.
Print Assumptions C07_drop_only_when_full.

Theorem C07_queue_bounded : forall buf s x, reachable buf s -> (length (c_q (r_cs s x)) <= buf)%nat.
Proof. exact queue_bounded. Qed.

(** REPLIES: the replies a connection has received, followed by those still
    pending in its program, are the replies of its accepted operations in
    order: one EOSE per REQ, one OK with the event's id per EVENT, one COUNT
    per COUNT — except that a session whose context was cancelled while an
    operation was in flight may have given up that one (last) reply [sk]. *)
Theorem C07_replies_exact : forall buf s x,
  reachable buf s ->
  exists sk,
    replies (c_out (r_cs s x)) ++ pending_replies (c_pc (r_cs s x)) ++ sk = expected_replies (c_ops (r_cs s x)) /\
    (sk = [] \/ (pending_replies (c_pc (r_cs s x)) = [] /\ (In x (r_cancel s) \/ c_dead (r_cs s x) = true))).
Proof. exact replies_prefix. Qed.
Print Assumptions C07_replies_exact.

(** for a live session nothing is given up *)
Theorem C07_replies_exact_idle : forall buf s x,
  reachable buf s -> c_pc (r_cs s x) = [] -> c_dead (r_cs s x) = false -> ~ In x (r_cancel s) ->
  replies (c_out (r_cs s x)) = expected_replies (c_ops (r_cs s x)).
Proof. exact replies_exact. Qed.

(** NEVER BLOCKED: every step of a publishing connection is enabled in every
    state (no rule has a premise on anybody's queue), it makes progress, other
    connections cannot undo it, and enabledness does not depend on queues,
    forwarder slots or outputs at all. *)
Theorem C07_publisher_never_blocked : forall s c,
  publishing (c_pc (r_cs s c)) = true ->
  enabled s (LRun c) = true /\ c_pc (r_cs (step s (LRun c)) c) <> c_pc (r_cs s c).
Proof. intros s c H. split; [now apply publisher_never_blocked | now apply publisher_step_progress]. Qed.
Print Assumptions C07_publisher_never_blocked.

Theorem C07_publisher_not_interfered : forall s l c,
  label_of_conn c l = false -> c_pc (r_cs (step s l) c) = c_pc (r_cs s c).
Proof. exact publisher_not_interfered. Qed.

Theorem C07_enabled_ignores_queues : forall s1 s2 l,
  r_pubs s1 = r_pubs s2 ->
  (forall c, c_pc (r_cs s1 c) = c_pc (r_cs s2 c) /\ c_rd (r_cs s1 c) = c_rd (r_cs s2 c)) ->
  enabled s1 l = enabled s2 l.
Proof. exact enabled_ignores_queues. Qed.
Print Assumptions C07_enabled_ignores_queues.

(** ... and more: the whole control part of the router (programs, accepted
    operations, registry, lock holders) under a given schedule is the same
    whatever is queued, held or sent anywhere and whatever buflen is.  A
    stalled subscriber therefore cannot delay, reorder or change any step of
    any publisher. *)
Theorem C07_control_independent_of_queues : forall s1 s2 tr c,
  sim s1 s2 ->
  c_pc (r_cs (run s1 tr) c) = c_pc (r_cs (run s2 tr) c) /\
  c_ops (r_cs (run s1 tr) c) = c_ops (r_cs (run s2 tr) c) /\
  r_reg (run s1 tr) = r_reg (run s2 tr).
Proof. exact control_independent_of_queues. Qed.
Print Assumptions C07_control_independent_of_queues.

(* ------------------------------------------------------------------ *)
(** Non-vacuity: concrete schedules on which the hypotheses hold. *)

Definition c0 : conn := 0%nat.
Definition c1 : conn := 1%nat.
Definition c2 : conn := 2%nat.
Definition ex_a : str := [97]%N.
Definition ex_b : str := [98]%N.
Definition ex_e (id : N) : event := mkEvent [id] [112]%N 5 1 [[116; 120]%N :: [[118]%N]] [] [].

(** connection 1 subscribes "a" with the empty filter and "b" with a filter
    on another author; connection 0 gets ready to publish *)
Definition ex_s0 : rstate :=
  run (r_init 1%nat)
      [LOp c1 (OReq ex_a [empty_filter]); LRun c1; LRun c1; LRun c1;
       LOp c1 (OReq ex_b [mkFilter None (Some [[113]%N]) None None None None None]); LRun c1; LRun c1;
       LOp c0 (OEvent (ex_e 49))].

Definition ex_tr : list label := [LRun c0; LVisit c0 c1 [ex_b; ex_a]; LRun c0; LRun c0; LRun c0; LRun c0; LRun c0].

Example C07_ex_must_hypotheses :
  established ex_s0 1%nat ex_a [empty_filter] /\
  (exists rest, c_pc (r_cs ex_s0 0%nat) = IPubBegin (ex_e 49) :: rest) /\
  c_ctr (r_cs ex_s0 0%nat) = 0%nat /\
  Forall (fun l => ends_sub 1%nat ex_a l = false) ex_tr /\
  sub_matches (ex_e 49) [empty_filter] = true /\
  pub_done (run ex_s0 ex_tr) 0%nat 0%nat /\
  reachable 1%nat ex_s0.
Proof.
  split; [|split; [|split; [|split; [|split; [|split]]]]].
  - split; [reflexivity|]. split; [split; [repeat constructor | reflexivity]|]. vm_compute. intros [].
  - eexists. reflexivity.
  - reflexivity.
  - repeat constructor.
  - reflexivity.
  - split; [vm_compute; lia | vm_compute; repeat constructor].
  - unfold ex_s0. apply reachable_run. constructor.
Qed.

(** and the conclusion is the copy in the queue: delivered to "a", not to "b" *)
Example C07_ex_must_result :
  c_q (r_cs (run ex_s0 ex_tr) 1%nat) = [MEvent ex_a (ex_e 49) (0%nat, 0%nat)] /\
  c_out (r_cs (run ex_s0 ex_tr) 0%nat) = [MOk [49]%N] /\
  c_out (r_cs (run ex_s0 ex_tr) 1%nat) = [MEose ex_a; MEose ex_b].
Proof. vm_compute. repeat split. Qed.

(** a stalled subscriber with buflen 1: the forwarder holds the first copy,
    the queue the second, the third is dropped — and the publisher got all
    three OKs *)
Definition ex_pub (id : N) : list label :=
  [LOp c0 (OEvent (ex_e id)); LRun c0; LVisit c0 c1 []; LRun c0; LRun c0; LRun c0; LRun c0; LRun c0].

Definition ex_s1 : rstate :=
  run ex_s0 (ex_tr ++ [LTake c1] ++ ex_pub 50 ++ ex_pub 51).

Example C07_ex_drop :
  c_hand (r_cs ex_s1 1%nat) = Some (MEvent ex_a (ex_e 49) (0%nat, 0%nat)) /\
  c_q (r_cs ex_s1 1%nat) = [MEvent ex_a (ex_e 50) (0%nat, 1%nat)] /\
  c_drops (r_cs ex_s1 1%nat) = [(ex_a, ex_e 51, (0%nat, 2%nat))] /\
  c_out (r_cs ex_s1 0%nat) = [MOk [49]%N; MOk [50]%N; MOk [51]%N] /\
  c_pc (r_cs ex_s1 0%nat) = [].
Proof. vm_compute. repeat split. Qed.

(** disconnect: the queued copy is discarded, the registry entry is gone, and
    a later publication produces nothing for the finished connection *)
Definition ex_s2 : rstate := run ex_s1 ([LDeliver c1; LOp c1 ODisc; LRun c1] ++ ex_pub 52).

Example C07_ex_disconnect :
  finished ex_s2 1%nat /\ reg_get 1%nat (r_reg ex_s2) = None /\
  c_q (r_cs ex_s2 1%nat) = [] /\
  c_out (r_cs ex_s2 1%nat) = [MEose ex_a; MEose ex_b; MEvent ex_a (ex_e 49) (0%nat, 0%nat)] /\
  c_out (r_cs ex_s2 0%nat) = [MOk [49]%N; MOk [50]%N; MOk [51]%N; MOk [52]%N].
Proof. vm_compute. repeat split. Qed.

(** a writer of the outer map waits while a publish holds the read lock: the
    first REQ of a new connection does not get past IRegAdd until the
    publisher has left the loop *)
Example C07_ex_new_connection_waits :
  let s := run ex_s0 [LRun c0; LOp c2 (OReq ex_a [empty_filter]); LRun c2; LRun c2] in
  c_pc (r_cs s 2%nat) = [IRegAdd; ISubAdd ex_a [empty_filter]; IEose ex_a] /\ enabled s (LRun c2) = false /\
  enabled s (LRun c0) = true.
Proof. vm_compute. repeat split. Qed.

(* ------------------------------------------------------------------ *)
(** DISCONNECT AT ANY POINT.  A disconnect label takes effect at once for an
    idle connection (program [IUnsubAll], session dead).  For a connection
    whose recv loop is at work it cancels the session's context
    ([r_cancel]): router.recv is not interruptible, so the program in flight
    runs on — a cancelled publisher still visits every connection, a
    cancelled REQ still subscribes —, only the reply may be given up
    ([LSkip]: sendServerMsgCtx takes the ctx.Done() case); when the program is
    over the loop notices the cancellation and ServeNostr returns: from there
    on it is the disconnect of an idle connection, the deferred
    UnsubscribeAll removes the registry entry and what is still queued is
    dropped.  All theorems above quantify over these schedules as well. *)
Theorem C07_cancel_noticed : forall s c,
  c_pc (r_cs s c) = [] -> In c (r_cancel s) ->
  let s' := step s (LRun c) in
  c_pc (r_cs s' c) = [IUnsubAll] /\ c_dead (r_cs s' c) = true /\ ~ In c (r_cancel s') /\
  c_ops (r_cs s' c) = c_ops (r_cs s c) ++ [ODisc] /\ r_reg s' = r_reg s.
Proof.
  intros s c Hpc Hc s'. unfold s'. rewrite (defer_step _ _ Hpc Hc). cbn [r_cs r_cancel r_reg]. rewrite upd_same. cbn.
  repeat split; auto. intro X. apply remove_conn_In in X. tauto.
Qed.

(** a cancelled session has not returned yet, and accepts nothing more *)
Theorem C07_cancelled_session : forall buf s c o,
  reachable buf s -> In c (r_cancel s) ->
  c_dead (r_cs s c) = false /\ step s (LOp c o) = s.
Proof.
  intros buf s c o R Hc. pose proof (inv_cancel s (Inv_reachable buf s R) c Hc) as Hd. split; [assumption|].
  unfold step. cbn [enabled step_enabled]. apply mem_conn_In in Hc. rewrite Hd, Hc. cbn.
  destruct (c_pc (r_cs s c)); [reflexivity|]. now rewrite andb_false_r.
Qed.

(** the reply of an operation in flight is the only thing a cancelled session
    may give up, and only then *)
Theorem C07_skip_only_when_cancelled : forall s c,
  ~ In c (r_cancel s) -> step s (LSkip c) = s.
Proof.
  intros s c Hc. unfold step. cbn [enabled step_enabled]. apply mem_conn_false in Hc. rewrite Hc.
  now destruct (c_pc (r_cs s c)).
Qed.

(** connection 0 publishes 52 and disconnects while the publish is in flight:
    the copy still reaches connection 1 (whose reader then reads it), the OK
    is given up, the session ends, the registry entry (there is none for a
    pure publisher) stays absent; connection 1 disconnects while its REQ is in
    flight: the REQ still subscribes, then everything of connection 1 is
    released *)
Definition ex_s3 : rstate :=
  run ex_s0 (ex_tr ++ [LTake c1; LDeliver c1] ++
             [LOp c0 (OEvent (ex_e 52)); LOp c0 ODisc;                (* cancelled right away *)
              LRun c0; LVisit c0 c1 []; LRun c0; LRun c0; LRun c0; LRun c0;
              LSkip c0;                                               (* the OK is given up *)
              LRun c0; LRun c0;                                       (* ServeNostr returns; UnsubscribeAll *)
              LTake c1; LDeliver c1]).

Example C07_ex_cancel_in_flight :
  c_out (r_cs ex_s3 1%nat) = [MEose ex_a; MEose ex_b; MEvent ex_a (ex_e 49) (0%nat, 0%nat); MEvent ex_a (ex_e 52) (0%nat, 1%nat)] /\
  c_out (r_cs ex_s3 0%nat) = [MOk [49]%N] /\
  finished ex_s3 0%nat /\ r_cancel ex_s3 = [] /\
  c_ops (r_cs ex_s3 0%nat) = [OEvent (ex_e 49); OEvent (ex_e 52); ODisc].
Proof. vm_compute. repeat split. Qed.

Definition ex_s4 : rstate :=
  run ex_s3 [LOp c1 (OReq [99]%N [empty_filter]); LOp c1 ODisc; LRun c1 (* ISubAdd still runs *)].

Example C07_ex_cancelled_req_still_subscribes :
  sub_of ex_s4 1%nat [99]%N = Some [empty_filter] /\ r_cancel ex_s4 = [1%nat] /\
  let s5 := run ex_s4 [LRun c1 (* EOSE handed over *); LRun c1; LRun c1] in
  reg_get 1%nat (r_reg s5) = None /\ finished s5 1%nat /\ r_cancel s5 = [] /\
  c_out (r_cs s5 1%nat) = c_out (r_cs ex_s3 1%nat) ++ [MEose [99]%N].
Proof. vm_compute. repeat split. Qed.

(* ------------------------------------------------------------------ *)
(** ORACLE SOUNDNESS.  The boolean oracles of RouterSpec.v (the ones the
    correspondence check applies to the histories recorded from the real
    RouterHandler) never raise a false alarm on the model.

    [model_history buf N tr] is the timed history of schedule [tr] over
    connections 0..N-1 (RouterHist.v): the clock is the step index, an
    operation begins when its LOp label is accepted and ends when the
    connection's program is empty again, a message is stamped with the step
    that put it into the connection's output.

    Hypotheses: the schedule mentions only connections below N; events have no
    empty tag and filters no repeated tag key (the C11 / C10 gates, under
    which the model's matcher is the NIP-01 predicate, C02); the schedule
    ends quiescent (every program finished, every open connection has read
    what was queued for it — the harness's final flush); every accepted
    publication carries its own event id (the router does not de-duplicate,
    the oracles identify a publication by its id). *)
Theorem C07_model_satisfies_timed_oracle : forall buf N tr,
  conns_below N tr -> Forall wf_label tr ->
  quiescent (run (r_init buf) tr) ->
  uniq_pub_ids (model_history buf N tr) ->
  timed_oracle (model_history buf N tr) = true.
Proof.
  intros buf N tr HN Hwf Q U. apply model_satisfies_timed_oracle; try assumption.
  now rewrite irun_s.
Qed.
Print Assumptions C07_model_satisfies_timed_oracle.

(** the same, clause by clause *)
Theorem C07_model_satisfies_oracle_clauses : forall buf N tr,
  conns_below N tr -> Forall wf_label tr ->
  quiescent (run (r_init buf) tr) ->
  uniq_pub_ids (model_history buf N tr) ->
  let h := model_history buf N tr in
  replies_ok h = true /\ drained_ok h = true /\ must_not_ok h = true /\ must_ok h = true /\
  once_ok h = true /\ order_ok h = true.
Proof.
  intros buf N tr HN Hwf Q U h.
  pose proof (C07_model_satisfies_timed_oracle buf N tr HN Hwf Q U) as T. fold h in T. unfold timed_oracle in T.
  destruct (replies_ok h); [|discriminate]. destruct (drained_ok h); [|discriminate].
  destruct (must_not_ok h); [|discriminate]. destruct (must_ok h); [|discriminate].
  destruct (once_ok h); [|discriminate]. destruct (order_ok h); [|discriminate]. repeat split.
Qed.

(** DETERMINISTIC LAYER.  For every schedule that runs one client operation
    at a time (an operation is accepted only when no connection's goroutine
    has anything left to do; forwarder timing and map iteration order are
    free) the stricter [det_oracle] — timed clauses plus the exact
    expectation per publication — accepts the model's history as well. *)
Theorem C07_model_satisfies_det_oracle_solo : forall buf N tr,
  conns_below N tr -> Forall wf_label tr ->
  solo_sched (r_init buf) tr ->
  quiescent (run (r_init buf) tr) ->
  uniq_pub_ids (model_history buf N tr) ->
  det_oracle (model_history buf N tr) = true.
Proof.
  intros buf N tr HN Hwf Hs Q U. apply model_satisfies_det_oracle; try assumption.
  now rewrite irun_s.
Qed.
Print Assumptions C07_model_satisfies_det_oracle_solo.

(** ... in particular the canonical schedule of the deterministic layer
    ([det_schedule], RouterHist.v: every script item is run to its end by the
    connection's own goroutine, then every reader that is not paused reads
    what is queued; at the end all readers read).  It always runs to
    completion: one operation at a time, quiescent at the end. *)
Theorem C07_det_schedule_runs : forall buf N script,
  script_ok N script ->
  det_history buf N script = model_history buf N (det_schedule buf N script) /\
  conns_below N (det_schedule buf N script) /\ Forall wf_label (det_schedule buf N script) /\
  (no_cut script -> solo_sched (r_init buf) (det_schedule buf N script)) /\
  quiescent (run (r_init buf) (det_schedule buf N script)).
Proof. exact det_schedule_ok. Qed.
Print Assumptions C07_det_schedule_runs.

(** For every script of client operations, reader pauses and resumes over any
    number of connections (connections below N, inputs past the C10/C11
    gates, every accepted publication with its own id) the observation the
    model produces is accepted by [det_oracle]. *)
Theorem C07_model_satisfies_det_oracle : forall buf N script,
  script_ok N script -> no_cut script ->
  uniq_pub_ids (det_history buf N script) ->
  det_oracle (det_history buf N script) = true.
Proof. exact model_satisfies_det_oracle_script. Qed.
Print Assumptions C07_model_satisfies_det_oracle.

(** scripts in which a client disconnects right after sending an operation,
    without waiting for the reply ([SCut], with the reply handed over or given
    up): the history is not a sequence of non-overlapping operations any
    more; the timed oracle accepts it *)
Theorem C07_model_satisfies_timed_oracle_script : forall buf N script,
  script_ok N script ->
  uniq_pub_ids (det_history buf N script) ->
  timed_oracle (det_history buf N script) = true.
Proof. exact model_satisfies_timed_oracle_script. Qed.
Print Assumptions C07_model_satisfies_timed_oracle_script.

(* ------------------------------------------------------------------ *)
(** Non-vacuity of the oracle theorems, and the converse: tampered
    observations are REJECTED.  A script over three connections, buflen 2:
    connection 1 subscribes "a" (match-all) and "b" (another author),
    connection 2 subscribes "a"; connection 0 publishes 49 and 50; connection
    2 closes "a" (acknowledged by a COUNT, as in the harness); connection 0
    publishes 51. *)
Definition ex_fq : rfilter := mkFilter None (Some [[113]%N]) None None None None None.

Definition ex_script : list sitem :=
  [SOp c1 (OReq ex_a [empty_filter]); SOp c1 (OReq ex_b [ex_fq]); SOp c2 (OReq ex_a [empty_filter]);
   SOp c0 (OEvent (ex_e 49)); SOp c0 (OEvent (ex_e 50)); SOp c2 (OClose ex_a); SOp c2 (OCount ex_a);
   SOp c0 (OEvent (ex_e 51))].

Definition ex_h : history := det_history 2%nat 3%nat ex_script.

Example C07_ex_oracle_hypotheses : script_ok 3%nat ex_script /\ uniq_pub_ids ex_h.
Proof.
  split.
  - unfold script_ok, ex_script. repeat (apply Forall_cons; [|]); try apply Forall_nil; cbn; (split; [unfold c0, c1, c2; lia|]);
      repeat constructor; try discriminate.
  - unfold uniq_pub_ids. vm_compute. repeat constructor; cbn; intuition discriminate.
Qed.

(** what the model produces: connection 1 gets 49, 50, 51 under "a" only,
    connection 2 gets 49 and 50 and, after its CLOSE, not 51 *)
Example C07_ex_oracle_history :
  List.map (List.map (fun ms : xmsg * Z => fst ms)) (hi_outs ex_h) =
  [[XOk [49]%N true true; XOk [50]%N true true; XOk [51]%N true true];
   [XEose ex_a; XEose ex_b; XEvent ex_a (ex_e 49); XEvent ex_a (ex_e 50); XEvent ex_a (ex_e 51)];
   [XEose ex_a; XEvent ex_a (ex_e 49); XEvent ex_a (ex_e 50); XCount ex_a 0]] /\
  sequential ex_h = true /\ det_oracle ex_h = true.
Proof. vm_compute. repeat split. Qed.

(** tampering with the output of one connection *)
Definition map_at {A} (x : nat) (f : A -> A) (l : list A) : list A :=
  List.map (fun ia : nat * A => if Nat.eqb (fst ia) x then f (snd ia) else snd ia) (combine (seq 0 (length l)) l).

Definition tamper (h : history) (x : nat) (f : list (xmsg * Z) -> list (xmsg * Z)) : history :=
  mkHist (hi_buf h) (hi_ops h) (map_at x f (hi_outs h)) (hi_drained h).

(** a removed copy: connection 1 does not get 50 -> MUST fails *)
Definition t_removed := tamper ex_h 1%nat (fun l => firstn 3 l ++ skipn 4 l).
(** a duplicate: connection 1 gets 50 twice -> AT MOST ONCE fails *)
Definition t_duplicate := tamper ex_h 1%nat (fun l => firstn 4 l ++ [(XEvent ex_a (ex_e 50), 39)] ++ skipn 4 l).
(** a reordered pair: connection 1 gets 50 before 49 -> ORDER fails *)
Definition t_reordered :=
  tamper ex_h 1%nat (fun l => firstn 2 l ++ [(XEvent ex_a (ex_e 50), 38); (XEvent ex_a (ex_e 49), 39)] ++ skipn 4 l).
(** a relabelled copy: connection 1 gets 50 under "b", whose filter does not match -> MUST NOT fails *)
Definition t_relabelled := tamper ex_h 1%nat (fun l => firstn 3 l ++ [(XEvent ex_b (ex_e 50), 38)] ++ skipn 4 l).
(** a copy for a closed subscription: connection 2 gets 51 under "a" after its CLOSE -> MUST NOT fails *)
Definition t_closed := tamper ex_h 2%nat (fun l => l ++ [(XEvent ex_a (ex_e 51), 57)]).
(** a missing reply: connection 0 never sees the OK of 51 -> REPLIES fails *)
Definition t_noreply := tamper ex_h 0%nat (fun l => firstn 2 l).

Example C07_ex_oracle_rejects_tampering :
  (must_ok t_removed = false /\ timed_oracle t_removed = false) /\
  (once_ok t_duplicate = false /\ timed_oracle t_duplicate = false) /\
  (order_ok t_reordered = false /\ timed_oracle t_reordered = false) /\
  (must_not_ok t_relabelled = false /\ timed_oracle t_relabelled = false) /\
  (must_not_ok t_closed = false /\ timed_oracle t_closed = false) /\
  (replies_ok t_noreply = false /\ timed_oracle t_noreply = false) /\
  det_oracle t_removed = false /\ det_oracle t_duplicate = false /\ det_oracle t_reordered = false /\
  det_oracle t_relabelled = false /\ det_oracle t_closed = false /\ det_oracle t_noreply = false.
Proof. vm_compute. repeat split. Qed.

(** the exact-expectation clause alone catches what the timed clauses excuse:
    with the CLOSE not acknowledged the timed oracle cannot know that it took
    effect before 51 was published and accepts a copy of 51 for connection 2;
    the deterministic oracle (sequential history) rejects it *)
Definition ex_script2 : list sitem :=
  [SOp c2 (OReq ex_a [empty_filter]); SOp c2 (OClose ex_a); SOp c0 (OEvent (ex_e 51))].
Definition ex_h2 : history := det_history 2%nat 3%nat ex_script2.
Definition t_closed2 := tamper ex_h2 2%nat (fun l => l ++ [(XEvent ex_a (ex_e 51), 30)]).

Example C07_ex_exact_clause :
  det_oracle ex_h2 = true /\ timed_oracle t_closed2 = true /\ det_oracle t_closed2 = false.
Proof. vm_compute. repeat split. Qed.

(** a script with disconnects in flight: connection 1 subscribes, connection 0
    publishes 49; connection 2 sends a REQ and disconnects at once (its EOSE
    given up); connection 0 sends 50 and disconnects at once (its OK handed
    over all the same).  Connection 1 gets both events. *)
Definition ex_script3 : list sitem :=
  [SOp c1 (OReq ex_a [empty_filter]); SOp c0 (OEvent (ex_e 49));
   SCut c2 (OReq ex_a [empty_filter]) true; SCut c0 (OEvent (ex_e 50)) false].
Definition ex_h3 : history := det_history 2%nat 3%nat ex_script3.

Example C07_ex_cut_history :
  script_ok 3%nat ex_script3 /\ uniq_pub_ids ex_h3 /\
  List.map (List.map (fun ms : xmsg * Z => fst ms)) (hi_outs ex_h3) =
  [[XOk [49]%N true true; XOk [50]%N true true];
   [XEose ex_a; XEvent ex_a (ex_e 49); XEvent ex_a (ex_e 50)];
   []] /\
  List.map (fun o => (h_c o, is_some (h_d o))) (hi_ops ex_h3) =
  [(1%nat, true); (0%nat, true); (2%nat, false); (2%nat, true); (0%nat, true); (0%nat, true)] /\
  timed_oracle ex_h3 = true /\
  (* an operation without reply is excused only by a disconnect of that connection *)
  replies_ok (tamper ex_h3 1%nat (fun l => skipn 1 l)) = false.
Proof.
  split; [|split].
  - unfold script_ok, ex_script3. repeat (apply Forall_cons; [|]); try apply Forall_nil; cbn; (split; [unfold c0, c1, c2; lia|]);
      repeat constructor; try discriminate.
  - unfold uniq_pub_ids. vm_compute. repeat constructor; cbn; intuition discriminate.
  - vm_compute. repeat split.
Qed.

(** a subscriber that sends a REQ while it is not reading (buflen 1):
    connection 1's REQ is taken by its session, the subscription is registered,
    and the session's goroutine stands in front of the EOSE, which nobody
    reads.  Connection 0 publishes 49, 50 and 51 and gets every OK at once: 49
    is taken by connection 1's forwarder, 50 waits in the queue, 51 is dropped
    (the queue is full).  Then connection 1 reads again.  The code fixes no
    order between the EOSE (sent by the receive loop) and the waiting events
    (sent by the forwarder); both orders are histories of the model, and the
    oracle accepts both.  It rejects a history in which the publisher is not
    answered while the subscriber does not read. *)
Definition ex_unread_prefix : list label :=
  [LOp c1 (OReq ex_a [empty_filter]); LRun c1; LRun c1] ++ ex_pub 49 ++ [LTake c1] ++ ex_pub 50 ++ ex_pub 51.
Definition ex_h4 : history := model_history 1%nat 2%nat (ex_unread_prefix ++ [LRun c1; LDeliver c1; LTake c1; LDeliver c1]).
Definition ex_h5 : history := model_history 1%nat 2%nat (ex_unread_prefix ++ [LDeliver c1; LRun c1; LTake c1; LDeliver c1]).
Definition unanswer (h : history) (id : N) : history :=
  mkHist (hi_buf h)
         (List.map (fun o => match h_o o with
                             | OEvent e => if str_eqb (ev_id e) [id] then mkHop (h_c o) (h_o o) (h_b o) None else o
                             | _ => o
                             end) (hi_ops h))
         (map_at 0%nat (filter (fun ms : xmsg * Z => match fst ms with XOk i _ _ => negb (str_eqb i [id]) | _ => true end))
                 (hi_outs h))
         (hi_drained h).

Example C07_ex_unread_req_history :
  (* in the middle: the REQ is in flight, its subscription is registered, the publisher is through *)
  (let s := run (r_init 1%nat) ex_unread_prefix in
   c_pc (r_cs s c1) = [IEose ex_a] /\ sub_of s c1 ex_a = Some [empty_filter] /\ c_pc (r_cs s c0) = [] /\
   List.map erase (flow (r_cs s c1)) = [WEvent ex_a (ex_e 49); WEvent ex_a (ex_e 50)] /\
   List.map (fun d => snd (fst d)) (c_drops (r_cs s c1)) = [ex_e 51]) /\
  List.map (List.map (fun ms : xmsg * Z => fst ms)) (hi_outs ex_h4) =
  [[XOk [49]%N true true; XOk [50]%N true true; XOk [51]%N true true];
   [XEose ex_a; XEvent ex_a (ex_e 49); XEvent ex_a (ex_e 50)]] /\
  List.map (List.map (fun ms : xmsg * Z => fst ms)) (hi_outs ex_h5) =
  [[XOk [49]%N true true; XOk [50]%N true true; XOk [51]%N true true];
   [XEvent ex_a (ex_e 49); XEose ex_a; XEvent ex_a (ex_e 50)]] /\
  (* the REQ overlaps the three publications *)
  sequential ex_h4 = false /\
  det_oracle ex_h4 = true /\ det_oracle ex_h5 = true /\
  (* "a subscriber that stops reading never delays publishers" *)
  replies_ok (unanswer ex_h4 50) = false /\ timed_oracle (unanswer ex_h4 50) = false.
Proof. vm_compute. repeat split. Qed.
