(* C07 — Router: live events reach exactly the open matching subscriptions,
   once.  Statements only; each is closed by [exact] of a lemma proved in
   Router*.v and followed by Print Assumptions.

   The model (Router.v) is a labelled transition system whose atomic steps are
   the critical sections of safeMap's RWMutex and the channel operations;
   [run s tr] executes an arbitrary list of labels (a schedule), steps that
   would have to wait leave the state unchanged.  Every theorem below
   quantifies over all schedules and any number of connections.

   PARTIAL: that the Go scheduler, sync.RWMutex and channels realise exactly
   these atomic steps is not proved; it is tied to the source by the extracted
   lock table and call shapes (C07_structure, C07_lock_discipline) and
   exercised by the concurrent layer of the correspondence check. *)
From Moc Require Import Base Match MatchProofs Router RouterProofs.
From Moc.Gen Require Import GenRouter.
From Coq Require Import Sorted.
Open Scope Z_scope.

(** the structure facts the model relies on, as extracted from the source:
    SendIfMatch calls Match (not LimitMatch) and trySendCtx; trySendCtx has a
    default clause; recv subscribes before it answers EOSE and publishes
    before it answers OK; ServeNostr defers UnsubscribeAll; the queue has
    capacity buflen; Publish is a loop in a loop; the lock table *)
Theorem C07_structure : model_applicable = true.
Proof. exact model_applicable_true. Qed.
Print Assumptions C07_structure.

(** every method of safeMap defers the unlock matching the lock it takes at
    entry, and every method that writes the map takes the exclusive lock:
    each step of the model is atomic with respect to the others on that map *)
Theorem C07_lock_discipline :
  forall name excl deferred writes,
    In (name, (excl, deferred, writes)) g_safemap_locks ->
    deferred = true /\ (writes = true -> excl = true).
Proof. exact safemap_lock_discipline. Qed.
Print Assumptions C07_lock_discipline.

Theorem C07_buflen_guard : forall b, g_router_buflen_bad b = true <-> b <= 0.
Proof. exact g_router_buflen_bad_spec. Qed.

(** the model's test is the NIP-01 predicate of C02 *)
Theorem C07_match_is_nip01 : forall e fs,
  tags_nonempty e -> Forall filter_wf fs -> sub_matches e fs = matches_specb e fs.
Proof. exact sub_matches_spec. Qed.
Print Assumptions C07_match_is_nip01.

(* ------------------------------------------------------------------ *)
(** One visit: with room, exactly one copy per matching open subscription of
    the visited connection, labelled with its id, none otherwise. *)
Theorem C07_visit_exact : forall buf e t m q,
  NoDup (List.map fst m) -> (length q + length (matching_subs e m) <= buf)%nat ->
  exists new, visit_loop buf e t m q = q ++ new /\
    (forall sub, count_occ_b (is_copy sub t) new =
       match assoc sub m with Some fs => if sub_matches e fs then 1%nat else 0%nat | None => 0%nat end) /\
    Forall (fun msg => exists sub, msg = MEvent sub e t) new.
Proof. exact visit_exact. Qed.
Print Assumptions C07_visit_exact.

(** [visit_loop] is what the transition system does in an uninterrupted visit *)
Theorem C07_visit_is_model : forall e t x todo s c rest,
  c_pc (r_cs s c) = IVisit e t x todo :: rest ->
  let s' := run s (repeat (LRun c) (length todo)) in
  c_q (r_cs s' x) = visit_loop (r_buf s) e t todo (c_q (r_cs s x)) /\
  c_pc (r_cs s' c) = IVisit e t x [] :: rest.
Proof. exact visit_uninterrupted. Qed.

(* ------------------------------------------------------------------ *)
(** MUST.  If subscription (x, sub, fs) is established (registered, nothing
    pending that touches it, session alive) when publication (p, n) of e
    begins, no CLOSE / REQ with the same id / disconnect of x is accepted
    during the schedule tr, the filters match and the publication is over at
    the end of tr (its OK has been handed over), then x has the copy — in its
    output, in the forwarder's hand or in its queue — or the copy is in x's
    drop log (see C07_drop_only_when_full). *)
Theorem C07_deliver_must : forall s tr p x sub fs e n,
  established s x sub fs ->
  (exists rest, c_pc (r_cs s p) = IPubBegin e :: rest) -> c_ctr (r_cs s p) = n ->
  Forall (fun l => ends_sub x sub l = false) tr ->
  sub_matches e fs = true ->
  pub_done (run s tr) p n ->
  got_st (r_cs (run s tr) x) sub e (p, n).
Proof. exact deliver_must. Qed.
Print Assumptions C07_deliver_must.

(** "the REQ ended": when the EOSE is handed to the client the subscription
    is established with the filters of that REQ *)
Theorem C07_req_end_established : forall buf s x sub,
  reachable buf s -> c_pc (r_cs s x) = [IEose sub] ->
  exists fs ops0,
    c_ops (r_cs s x) = ops0 ++ [OReq sub fs] /\
    established (step s (LRun x)) x sub fs /\
    c_out (r_cs (step s (LRun x)) x) = c_out (r_cs s x) ++ [MEose sub].
Proof. exact req_end_established. Qed.
Print Assumptions C07_req_end_established.

(** it stays established until the client ends it *)
Theorem C07_established_stable : forall s tr x sub fs,
  established s x sub fs -> Forall (fun l => ends_sub x sub l = false) tr -> established (run s tr) x sub fs.
Proof. exact established_run. Qed.

(** a client that reads receives everything that is in its flow *)
Theorem C07_reader_gets_flow : forall s x,
  c_dead (r_cs s x) = false ->
  exists tr, Forall (reader_label x) tr /\ c_out (r_cs (run s tr) x) = flow (r_cs s x).
Proof. exact drain. Qed.
Print Assumptions C07_reader_gets_flow.

(* ------------------------------------------------------------------ *)
(** MUST NOT, four clauses. *)

(** does not match / foreign label: a received live event carries the id of a
    REQ of this very connection whose filters match it *)
Theorem C07_deliver_must_not : forall buf s x sub e t,
  reachable buf s -> In (MEvent sub e t) (c_out (r_cs s x)) ->
  exists fs, In (OReq sub fs) (c_ops (r_cs s x)) /\ sub_matches e fs = true.
Proof. exact must_not_unjustified. Qed.
Print Assumptions C07_deliver_must_not.

(** closed or replaced before / never subscribed: while x has no subscription
    sub and no REQ for it is accepted, no copy labelled sub is produced for x *)
Theorem C07_deliver_must_not_closed : forall buf s tr x sub t,
  reachable buf s -> unsubscribed s x sub ->
  Forall (fun l => is_req_of x sub l = false) tr ->
  (total (r_cs (run s tr) x) sub t <= total (r_cs s x) sub t)%nat /\ unsubscribed (run s tr) x sub.
Proof. exact must_not_unsubscribed. Qed.
Print Assumptions C07_deliver_must_not_closed.

(** created after the OK: once a publication is over no further copy of it is
    produced, for any connection and subscription id, under any schedule *)
Theorem C07_deliver_must_not_after_ok : forall buf s tr p n x sub,
  reachable buf s -> pub_done s p n ->
  (total (r_cs (run s tr) x) sub (p, n) <= total (r_cs s x) sub (p, n))%nat /\ pub_done (run s tr) p n.
Proof. exact must_not_after_ok. Qed.
Print Assumptions C07_deliver_must_not_after_ok.

(** finished connection: after the end of a session nothing is sent to it or
    queued for it, whatever happens afterwards *)
Theorem C07_deliver_must_not_finished : forall buf s tr x,
  reachable buf s -> finished s x ->
  c_out (r_cs (run s tr) x) = c_out (r_cs s x) /\ c_q (r_cs (run s tr) x) = [] /\ c_hand (r_cs (run s tr) x) = None.
Proof. exact must_not_finished. Qed.
Print Assumptions C07_deliver_must_not_finished.

Theorem C07_disconnect_finishes : forall buf s x,
  reachable buf s -> c_pc (r_cs s x) = [IUnsubAll] -> r_pubs s = [] ->
  finished (step s (LRun x)) x /\ reg_get x (r_reg (step s (LRun x))) = None.
Proof. exact disconnect_finishes. Qed.

(* ------------------------------------------------------------------ *)
(** AT MOST ONCE: per connection, subscription id and publication, at most one
    copy is received or dropped (never both), in every reachable state. *)
Theorem C07_deliver_at_most_once : forall buf s x sub t,
  reachable buf s ->
  (count_occ_b (is_copy sub t) (c_out (r_cs s x)) + count_occ_b (is_drop sub t) (c_drops (r_cs s x)) <= 1)%nat.
Proof. exact deliver_at_most_once. Qed.
Print Assumptions C07_deliver_at_most_once.

(** ORDER: what a connection has received from publisher p is sorted by p's
    publication numbers, which are issued in p's program order. *)
Theorem C07_publisher_order_preserved : forall buf s x p,
  reachable buf s -> StronglySorted le (pub_seq p (c_out (r_cs s x))).
Proof. exact publisher_order_preserved. Qed.
Print Assumptions C07_publisher_order_preserved.

Theorem C07_publication_numbers : forall s c e rest,
  c_pc (r_cs s c) = IPubBegin e :: rest ->
  c_pc (r_cs (step s (LRun c)) c) = IPub e (c, c_ctr (r_cs s c)) (List.map fst (r_reg s)) :: rest /\
  c_ctr (r_cs (step s (LRun c)) c) = S (c_ctr (r_cs s c)).
Proof. exact pub_numbers_in_program_order. Qed.

(** DROPS: a copy enters the drop log only in a SendIfMatch step that finds the
    connection's own queue holding exactly buflen messages; the queue never
    holds more. *)
Theorem C07_drop_only_when_full : forall buf s l x d,
  reachable buf s ->
  In d (c_drops (r_cs (step s l) x)) -> ~ In d (c_drops (r_cs s x)) ->
  length (c_q (r_cs s x)) = buf /\ c_q (r_cs (step s l) x) = c_q (r_cs s x) /\
  exists c e t sub fs todo rest,
    l = LRun c /\ c_pc (r_cs s c) = IVisit e t x ((sub, fs) :: todo) :: rest /\ d = (sub, e, t) /\ sub_matches e fs = true.
Proof. exact drop_only_when_full. Qed.
Print Assumptions C07_drop_only_when_full.

Theorem C07_queue_bounded : forall buf s x, reachable buf s -> (length (c_q (r_cs s x)) <= buf)%nat.
Proof. exact queue_bounded. Qed.

(** REPLIES: the replies a connection has received, followed by those still
    pending in its program, are exactly the replies of its accepted
    operations in order: one EOSE per REQ, one OK with the event's id per
    EVENT, one COUNT per COUNT. *)
Theorem C07_replies_exact : forall buf s x,
  reachable buf s ->
  replies (c_out (r_cs s x)) ++ pending_replies (c_pc (r_cs s x)) = expected_replies (c_ops (r_cs s x)).
Proof. exact replies_prefix. Qed.
Print Assumptions C07_replies_exact.

Theorem C07_replies_exact_idle : forall buf s x,
  reachable buf s -> c_pc (r_cs s x) = [] ->
  replies (c_out (r_cs s x)) = expected_replies (c_ops (r_cs s x)).
Proof. exact replies_exact. Qed.

(** NEVER BLOCKED: every step of a publishing connection is enabled in every
    state (no rule has a premise on anybody's queue), it makes progress, other
    connections cannot undo it, and enabledness does not depend on queues,
    forwarder slots or outputs at all. *)
Theorem C07_publisher_never_blocked : forall s c,
  publishing (c_pc (r_cs s c)) = true ->
  enabled s (LRun c) = true /\ c_pc (r_cs (step s (LRun c)) c) <> c_pc (r_cs s c).
Proof. intros s c H. split; [now apply publisher_never_blocked | now apply publisher_step_progress]. Qed.
Print Assumptions C07_publisher_never_blocked.

Theorem C07_publisher_not_interfered : forall s l c,
  label_of_conn c l = false -> c_pc (r_cs (step s l) c) = c_pc (r_cs s c).
Proof. exact publisher_not_interfered. Qed.

Theorem C07_enabled_ignores_queues : forall s1 s2 l,
  r_pubs s1 = r_pubs s2 ->
  (forall c, c_pc (r_cs s1 c) = c_pc (r_cs s2 c) /\ c_rd (r_cs s1 c) = c_rd (r_cs s2 c)) ->
  enabled s1 l = enabled s2 l.
Proof. exact enabled_ignores_queues. Qed.
Print Assumptions C07_enabled_ignores_queues.

(** ... and more: the whole control part of the router (programs, accepted
    operations, registry, lock holders) under a given schedule is the same
    whatever is queued, held or sent anywhere and whatever buflen is.  A
    stalled subscriber therefore cannot delay, reorder or change any step of
    any publisher. *)
Theorem C07_control_independent_of_queues : forall s1 s2 tr c,
  sim s1 s2 ->
  c_pc (r_cs (run s1 tr) c) = c_pc (r_cs (run s2 tr) c) /\
  c_ops (r_cs (run s1 tr) c) = c_ops (r_cs (run s2 tr) c) /\
  r_reg (run s1 tr) = r_reg (run s2 tr).
Proof. exact control_independent_of_queues. Qed.
Print Assumptions C07_control_independent_of_queues.

(* ------------------------------------------------------------------ *)
(** Non-vacuity: concrete schedules on which the hypotheses hold. *)

Definition c0 : conn := 0%nat.
Definition c1 : conn := 1%nat.
Definition c2 : conn := 2%nat.
Definition ex_a : str := [97]%N.
Definition ex_b : str := [98]%N.
Definition ex_e (id : N) : event := mkEvent [id] [112]%N 5 1 [[116; 120]%N :: [[118]%N]] [] [].

(** connection 1 subscribes "a" with the empty filter and "b" with a filter
    on another author; connection 0 gets ready to publish *)
Definition ex_s0 : rstate :=
  run (r_init 1%nat)
      [LOp c1 (OReq ex_a [empty_filter]); LRun c1; LRun c1; LRun c1;
       LOp c1 (OReq ex_b [mkFilter None (Some [[113]%N]) None None None None None]); LRun c1; LRun c1;
       LOp c0 (OEvent (ex_e 49))].

Definition ex_tr : list label := [LRun c0; LVisit c0 c1 [ex_b; ex_a]; LRun c0; LRun c0; LRun c0; LRun c0; LRun c0].

Example C07_ex_must_hypotheses :
  established ex_s0 1%nat ex_a [empty_filter] /\
  (exists rest, c_pc (r_cs ex_s0 0%nat) = IPubBegin (ex_e 49) :: rest) /\
  c_ctr (r_cs ex_s0 0%nat) = 0%nat /\
  Forall (fun l => ends_sub 1%nat ex_a l = false) ex_tr /\
  sub_matches (ex_e 49) [empty_filter] = true /\
  pub_done (run ex_s0 ex_tr) 0%nat 0%nat /\
  reachable 1%nat ex_s0.
Proof.
  repeat split.
  - repeat constructor.
  - eexists. reflexivity.
  - repeat constructor.
  - vm_compute. lia.
  - vm_compute. repeat constructor.
  - unfold ex_s0. apply reachable_run. constructor.
Qed.

(** and the conclusion is the copy in the queue: delivered to "a", not to "b" *)
Example C07_ex_must_result :
  c_q (r_cs (run ex_s0 ex_tr) 1%nat) = [MEvent ex_a (ex_e 49) (0%nat, 0%nat)] /\
  c_out (r_cs (run ex_s0 ex_tr) 0%nat) = [MOk [49]%N] /\
  c_out (r_cs (run ex_s0 ex_tr) 1%nat) = [MEose ex_a; MEose ex_b].
Proof. vm_compute. repeat split. Qed.

(** a stalled subscriber with buflen 1: the forwarder holds the first copy,
    the queue the second, the third is dropped — and the publisher got all
    three OKs *)
Definition ex_pub (id : N) : list label :=
  [LOp c0 (OEvent (ex_e id)); LRun c0; LVisit c0 c1 []; LRun c0; LRun c0; LRun c0; LRun c0; LRun c0].

Definition ex_s1 : rstate :=
  run ex_s0 (ex_tr ++ [LTake c1] ++ ex_pub 50 ++ ex_pub 51).

Example C07_ex_drop :
  c_hand (r_cs ex_s1 1%nat) = Some (MEvent ex_a (ex_e 49) (0%nat, 0%nat)) /\
  c_q (r_cs ex_s1 1%nat) = [MEvent ex_a (ex_e 50) (0%nat, 1%nat)] /\
  c_drops (r_cs ex_s1 1%nat) = [(ex_a, ex_e 51, (0%nat, 2%nat))] /\
  c_out (r_cs ex_s1 0%nat) = [MOk [49]%N; MOk [50]%N; MOk [51]%N] /\
  c_pc (r_cs ex_s1 0%nat) = [].
Proof. vm_compute. repeat split. Qed.

(** disconnect: the queued copy is discarded, the registry entry is gone, and
    a later publication produces nothing for the finished connection *)
Definition ex_s2 : rstate := run ex_s1 ([LDeliver c1; LOp c1 ODisc; LRun c1] ++ ex_pub 52).

Example C07_ex_disconnect :
  finished ex_s2 1%nat /\ reg_get 1%nat (r_reg ex_s2) = None /\
  c_q (r_cs ex_s2 1%nat) = [] /\
  c_out (r_cs ex_s2 1%nat) = [MEose ex_a; MEose ex_b; MEvent ex_a (ex_e 49) (0%nat, 0%nat)] /\
  c_out (r_cs ex_s2 0%nat) = [MOk [49]%N; MOk [50]%N; MOk [51]%N; MOk [52]%N].
Proof. vm_compute. repeat split. Qed.

(** a writer of the outer map waits while a publish holds the read lock: the
    first REQ of a new connection does not get past IRegAdd until the
    publisher has left the loop *)
Example C07_ex_new_connection_waits :
  let s := run ex_s0 [LRun c0; LOp c2 (OReq ex_a [empty_filter]); LRun c2; LRun c2] in
  c_pc (r_cs s 2%nat) = [IRegAdd; ISubAdd ex_a [empty_filter]; IEose ex_a] /\ enabled s (LRun c2) = false /\
  enabled s (LRun c0) = true.
Proof. vm_compute. repeat split. Qed.
