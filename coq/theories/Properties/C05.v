(* C05 — Deletion requests touch only the author's own events; authors are
   isolated.  Statements only; each is closed by [exact] of a lemma proved in
   CacheInvProofs.v / CacheAddProofs.v / CacheExamples.v and followed by
   Print Assumptions.  Notation and hypotheses as in Properties/C04.v:
   [step_hyps s e] = invariant, distinct ids, ':'-free ids and pubkeys,
   well-shaped deletion-request tags ([k5_wf]), no suppressed ephemeral event
   ([eph_ok]), capacity >= 1; every prefix of a history with [hist_ok5]
   satisfies it ([C05_hist_step_hyps]). *)
From Coq Require Import Permutation Sorted.
From Moc Require Import Base Match Cache CacheSpec CacheInv CacheHyp
  CacheFacts CacheInvProofs CacheAddProofs CacheExamples.
Open Scope Z_scope.

(* ------------------------------------------------------------------ *)
(** * Step-by-step refinement against the C05 oracle *)

Theorem C05_add_refines : forall s e,
  Inv s -> ids_functional (e :: retained s) ->
  key_wf e -> Forall key_wf (retained s) ->
  k5_wf e -> Forall k5_wf (retained s) ->
  eph_ok (c_listing s) e -> 1 <= c_cap s ->
  step_ok_c05 (c_cap s) (c_listing s) e (snd (c_add s e)) (c_listing (fst (c_add s e))) = true.
Proof. exact add_refines_c05. Qed.
Print Assumptions C05_add_refines.

Theorem C05_history_refines : forall cap h,
  hist_ok5 h -> 1 <= cap ->
  forall h1 e h2, h = h1 ++ e :: h2 ->
    step_ok_c05 cap (c_listing (c_run cap h1)) e (snd (c_add (c_run cap h1) e))
                (c_listing (c_run cap (h1 ++ [e]))) = true.
Proof. exact history_refines_c05. Qed.
Print Assumptions C05_history_refines.

Theorem C05_run_refines : forall cap h,
  hist_ok5 h -> 1 <= cap -> run_steps_ok step_ok_c05 cap (c_empty cap) h = true.
Proof. exact run_refines_c05. Qed.
Print Assumptions C05_run_refines.

Theorem C05_hist_step_hyps : forall cap h1 e h2,
  hist_ok5 (h1 ++ e :: h2) -> 1 <= cap -> step_hyps (c_run cap h1) e.
Proof. exact hist_step_hyps. Qed.
Print Assumptions C05_hist_step_hyps.

(** the C05 oracle accepts every step that meets the declarative C04 step
    specification: C05 adds no obligation beyond it *)
Theorem C05_oracle_from_step_spec : forall cap R e added R',
  step_c04 cap R e added R' ->
  (forall y, In y R -> ev_id y = ev_id e -> y = e) -> NoDup R ->
  step_ok_c05 cap R e added R' = true.
Proof. exact c04_implies_c05. Qed.
Print Assumptions C05_oracle_from_step_spec.

(** the code's reading of a deletion request's tags ("some a/e tag value is
    the stored key or the id") is the property's [refs] on well-shaped
    requests *)
Theorem C05_names_is_refs : forall d x,
  ev_kind d = 5 -> k5_wf d -> key_wf x -> GenMsg.g_event_type (ev_kind x) <> 3 ->
  ((exists k, In k (k5_keys d) /\ (event_key x = k \/ ev_id x = k)) <-> refs d x = true).
Proof. exact names_refs. Qed.
Print Assumptions C05_names_is_refs.

(* ------------------------------------------------------------------ *)
(** * The clauses of the property *)

(** an accepted deletion request removes exactly the retained events of its
    own author that it references (by id or by address); everything else
    stays, except one event of minimal created_at when capacity is exceeded *)
Theorem C05_k5_removes_exactly : forall s e,
  step_hyps s e -> ev_kind e = 5 -> snd (c_add s e) = true ->
  (forall x, In x (c_listing (fst (c_add s e))) ->
             (In x (c_listing s) \/ x = e) /\ ~ (ev_pk x = ev_pk e /\ refs e x = true)) /\
  (forall x, (In x (c_listing s) \/ x = e) -> ~ (ev_pk x = ev_pk e /\ refs e x = true) ->
             In x (c_listing (fst (c_add s e))) \/
             (c_cap s < Z.of_nat (length (base_after (c_listing s) e)) /\
              forall y, in_base (c_listing s) e y -> ev_ts x <= ev_ts y)).
Proof. exact k5_removes_exactly. Qed.
Print Assumptions C05_k5_removes_exactly.

(** the request itself is kept and served like a regular event (unless it
    references itself or falls victim to capacity) *)
Theorem C05_k5_kept : forall s e,
  step_hyps s e -> ev_kind e = 5 -> snd (c_add s e) = true -> refs e e = false ->
  In e (c_listing (fst (c_add s e))) \/
  c_cap s < Z.of_nat (length (base_after (c_listing s) e)).
Proof. exact k5_kept. Qed.
Print Assumptions C05_k5_kept.

(** as long as the request is retained, the events it references cannot be
    inserted again: the insertion is reported as not new and changes nothing *)
Theorem C05_k5_blocks_while_retained : forall s e d,
  step_hyps s e ->
  In d (c_listing s) -> ev_kind d = 5 -> ev_pk d = ev_pk e -> refs d e = true ->
  snd (c_add s e) = false /\ c_listing (fst (c_add s e)) = c_listing s.
Proof. exact k5_blocks_while_retained. Qed.
Print Assumptions C05_k5_blocks_while_retained.

(** the deletion registry is exactly what the retained deletion requests
    induce: the entry for (key, author) holds the ids of the retained
    requests by that author naming that key, and is absent when there is
    none — in every state satisfying the invariant, hence after requests
    were evicted, deleted by other requests, or referenced themselves *)
Theorem C05_k5_registry_sound : forall s k a,
  Inv s ->
  match al_get dkey_eqb (k, a) (c_del s) with
  | Some ids => ids <> [] /\ NoDup ids /\
      forall i, In i ids <->
        exists d, In d (retained s) /\ ev_kind d = 5 /\ ev_pk d = a /\ In k (k5_keys d) /\ ev_id d = i
  | None => forall d, In d (retained s) -> ~ (ev_kind d = 5 /\ ev_pk d = a /\ In k (k5_keys d))
  end.
Proof. exact k5_registry_sound. Qed.
Print Assumptions C05_k5_registry_sound.

Theorem C05_k5_registry_sound_reachable : forall cap h k a,
  hist_ok h ->
  match al_get dkey_eqb (k, a) (c_del (c_run cap h)) with
  | Some ids => ids <> [] /\ NoDup ids /\
      forall i, In i ids <->
        exists d, In d (retained (c_run cap h)) /\ ev_kind d = 5 /\ ev_pk d = a /\
                  In k (k5_keys d) /\ ev_id d = i
  | None => forall d, In d (retained (c_run cap h)) ->
                      ~ (ev_kind d = 5 /\ ev_pk d = a /\ In k (k5_keys d))
  end.
Proof. exact k5_registry_sound_reachable. Qed.
Print Assumptions C05_k5_registry_sound_reachable.

(** closedness: no retained event is named by a retained deletion request
    of its own author *)
Theorem C05_closed_reachable : forall cap h x d,
  hist_ok h -> In x (retained (c_run cap h)) -> In d (retained (c_run cap h)) ->
  ev_kind d = 5 -> ev_pk x = ev_pk d ->
  ~ In (event_key x) (k5_keys d) /\ ~ In (ev_id x) (k5_keys d).
Proof. exact closed_reachable. Qed.
Print Assumptions C05_closed_reachable.

(** an insertion by one author never removes or replaces an event of a
    different author, except the single capacity victim of minimal created_at *)
Theorem C05_author_isolation_remove : forall s e x,
  step_hyps s e -> In x (c_listing s) -> ev_pk x <> ev_pk e ->
  In x (c_listing (fst (c_add s e))) \/
  (snd (c_add s e) = true /\
   c_cap s < Z.of_nat (length (base_after (c_listing s) e)) /\
   (forall y, in_base (c_listing s) e y -> ev_ts x <= ev_ts y) /\
   forall y, In y (c_listing s) -> ev_pk y <> ev_pk e ->
             ~ In y (c_listing (fst (c_add s e))) -> y = x).
Proof. exact author_isolation_remove. Qed.
Print Assumptions C05_author_isolation_remove.

(** ... and never blocks one: a rejected insertion is explained by a retained
    event of the same author — the same id, the same address and not older,
    or a deletion request referencing it *)
Theorem C05_author_isolation_block : forall s e,
  step_hyps s e -> snd (c_add s e) = false ->
  exists y, In y (c_listing s) /\ ev_pk y = ev_pk e /\
    (ev_id y = ev_id e \/ (same_address y e = true /\ ev_ts e <= ev_ts y) \/
     (ev_kind y = 5 /\ refs y e = true)).
Proof. exact author_isolation_block. Qed.
Print Assumptions C05_author_isolation_block.

(* ------------------------------------------------------------------ *)
(** * Non-vacuity (the history of Properties/C04.v: two authors, a deletion
      request that removes its target and later blocks its re-insertion,
      evictions that hit the other author's events) *)

Example C05_example_hist_ok : hist_ok5 ex_h.
Proof. exact ex_h_ok. Qed.

(** hypotheses of [C05_k5_removes_exactly] / [C05_k5_kept] *)
Example C05_example_k5 :
  step_hyps (c_run 3 [x_e1; x_r1; x_r2; x_r0; x_p1]) x_d1 /\ ev_kind x_d1 = 5 /\
  snd (c_add (c_run 3 [x_e1; x_r1; x_r2; x_r0; x_p1]) x_d1) = true /\ refs x_d1 x_d1 = false /\
  refs x_d1 x_e1 = true /\ In x_e1 (c_listing (c_run 3 [x_e1; x_r1; x_r2; x_r0; x_p1])).
Proof.
  split; [exact ex_step_delete|]. split; [reflexivity|]. split; [vm_compute; reflexivity|].
  split; [vm_compute; reflexivity|]. split; [vm_compute; reflexivity|].
  apply In_by_ev_in. vm_compute. reflexivity.
Qed.

(** hypotheses of [C05_k5_blocks_while_retained] and [C05_author_isolation_block] *)
Example C05_example_blocked :
  step_hyps (c_run 3 [x_e1; x_r1; x_r2; x_r0; x_p1; x_d1]) x_e1 /\
  In x_d1 (c_listing (c_run 3 [x_e1; x_r1; x_r2; x_r0; x_p1; x_d1])) /\
  ev_kind x_d1 = 5 /\ ev_pk x_d1 = ev_pk x_e1 /\ refs x_d1 x_e1 = true /\
  snd (c_add (c_run 3 [x_e1; x_r1; x_r2; x_r0; x_p1; x_d1]) x_e1) = false.
Proof.
  split; [exact ex_step_blocked|]. split; [apply In_by_ev_in; vm_compute; reflexivity|].
  vm_compute. auto.
Qed.

(** hypotheses of [C05_author_isolation_remove]: B's insertion with A's
    events retained; the one lost event is the capacity victim *)
Example C05_example_isolation :
  step_hyps (c_run 3 [x_e1; x_r1; x_r2; x_r0; x_p1; x_d1; x_e1; x_b1]) x_b2 /\
  In x_r2 (c_listing (c_run 3 [x_e1; x_r1; x_r2; x_r0; x_p1; x_d1; x_e1; x_b1])) /\
  ev_pk x_r2 <> ev_pk x_b2 /\
  c_listing (fst (c_add (c_run 3 [x_e1; x_r1; x_r2; x_r0; x_p1; x_d1; x_e1; x_b1]) x_b2)) = [x_b2; x_b1; x_d1].
Proof.
  split; [now apply (ex_step 8 [x_e1; x_r1; x_r2; x_r0; x_p1; x_d1; x_e1; x_b1] x_b2 [x_eph])|].
  split; [apply In_by_ev_in; vm_compute; reflexivity|].
  split; [vm_compute; discriminate | vm_compute; reflexivity].
Qed.

(** the registry along the example: present while [x_d1] is retained *)
Example C05_example_registry :
  al_get dkey_eqb ([1]%N, pkA) (c_del (c_run 3 ex_h)) = Some [[5]%N] /\
  al_get dkey_eqb ([1]%N, pkB) (c_del (c_run 3 ex_h)) = None.
Proof. vm_compute. auto. Qed.

(* ------------------------------------------------------------------ *)
(** * The tag-shape condition is needed: an [a] tag that carries a bare event
      id blocks and removes the event in the code, while the property's
      reference by id is the [e] tag *)

Theorem C05_tag_shape_needed :
  plain_hyps (c_run 5 [w2_d]) w2_x /\ plain_hyps (c_run 5 [w2_x]) w2_d /\
  snd (c_add (c_run 5 [w2_d]) w2_x) = false /\ suppressed (c_listing (c_run 5 [w2_d])) w2_x = false /\
  step_ok_c04 5 (c_listing (c_run 5 [w2_d])) w2_x (snd (c_add (c_run 5 [w2_d]) w2_x))
              (c_listing (fst (c_add (c_run 5 [w2_d]) w2_x))) = false /\
  refs w2_d w2_x = false /\ c_listing (fst (c_add (c_run 5 [w2_x]) w2_d)) = [w2_d] /\
  step_ok_c05 5 (c_listing (c_run 5 [w2_x])) w2_d (snd (c_add (c_run 5 [w2_x]) w2_d))
              (c_listing (fst (c_add (c_run 5 [w2_x]) w2_d))) = false.
Proof. exact w2_refuted. Qed.
Print Assumptions C05_tag_shape_needed.
