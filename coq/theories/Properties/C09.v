(* C09 — Merged EVENT and COUNT: exactly one aggregated reply per request.

   Statements only; each is closed by lemmas proved in MergeAggProofs.v /
   MergeOracleProofs.v and followed by Print Assumptions.

   Reading guide (see also Properties/C08.v).
   - A history is a list of inputs, each one critical section of the code.
     [trace_ok n t]: child indices are below [n] (and the REQ-side gate).
     Every interleaving of the children's replies with each other and with
     client input is a history; the theorems quantify over all of them, with
     any number of requests in flight and repeated ids.
   - [ok_replies_of id i t]: the OKs child [i] sent for event id [id] in [t],
     oldest first; [ok_column n id j t]: the [j]-th of them for every child, in
     child order ([None] where a child has not sent its [j]-th yet).  Same for
     COUNT ([cnt_replies_of], [cnt_column]).
   - [answers_in_order t] is the property's quantifier "children that answer
     each EVENT with one OK and each COUNT with one COUNT": whenever a child
     sends an OK for [id] it has sent fewer OKs for [id] than EVENTs with that
     id were submitted — the reply answers a submission the child had not
     answered, and as a child is a sequential handler it answers the
     submissions of one id in the order it received them, so its [j]-th OK for
     [id] is its answer to the [j]-th EVENT [id].  That every child does
     answer is the extra hypothesis of the "exactly one" theorems.
   - The code this is proved of keeps, per id, the number of submissions
     awaiting their merged reply and one FIFO queue of replies per child
     (repair of finding K1).  For the code before the repair the statement
     was false: [C09_k1_history_old_model_refuted]. *)
From Moc Require Import Base Match MatchProofs Merge MergeProofs MergeAggProofs MergeOracleProofs MergeOld
  MergeMulti MergeMultiProofs MergeJoint MergeJointProofs.
Open Scope Z_scope.

(** every child answered every EVENT [id]: exactly one OK per EVENT [id] *)
Theorem C09_ok_exactly_one : forall n t id,
  (2 <= n)%nat -> trace_ok n t -> answers_in_order t ->
  (forall i, (i < n)%nat -> length (ok_replies_of id i t) = count_occ_b (is_cevent_of id) t) ->
  count_occ_b (is_ok_out id) (outs (init n) t) = count_occ_b (is_cevent_of id) t.
Proof. intros n t id Hn Ht [Ho _]. apply ok_exactly_one; auto. lia. Qed.
Print Assumptions C09_ok_exactly_one.

(** at every moment: as many OKs for [id] as there are submissions of [id]
    that every child has answered (the [j]-th OK exists iff every child has
    sent its [j]-th OK for [id]) — one OK once all children have replied, none
    before; and never more OKs than EVENTs *)
Theorem C09_ok_one_per_answered_event : forall n t id j,
  (2 <= n)%nat -> trace_ok n t -> answers_in_order t ->
  ((j < count_occ_b (is_ok_out id) (outs (init n) t))%nat <->
   forall i, (i < n)%nat -> (j < length (ok_replies_of id i t))%nat).
Proof. intros n t id j Hn Ht [Ho _]. apply ok_replies_count; auto. lia. Qed.
Print Assumptions C09_ok_one_per_answered_event.

Theorem C09_ok_never_exceeds_events : forall n t id,
  (2 <= n)%nat -> trace_ok n t -> answers_in_order t ->
  (count_occ_b (is_ok_out id) (outs (init n) t) <= count_occ_b (is_cevent_of id) t)%nat.
Proof. intros n t id Hn Ht [Ho _]. apply ok_le_events; auto. lia. Qed.
Print Assumptions C09_ok_never_exceeds_events.

(** an OK [r] output at a step is the [j]-th OK for its id ([j] = the number of
    OKs for that id before): some child's [j]-th reply was still missing before
    the step, at the step every child has given its [j]-th reply, and [r] is
    accepting iff all of those accepted *)
Theorem C09_ok_verdict : forall n w1 x w2 r,
  (2 <= n)%nat -> trace_ok n (w1 ++ x :: w2) -> answers_in_order (w1 ++ x :: w2) ->
  nth_error (outs (init n) (w1 ++ x :: w2)) (length w1) = Some (Some (SOk r)) ->
  let id := ok_id r in
  let j := count_occ_b (is_ok_out id) (outs (init n) w1) in
  (exists i, (i < n)%nat /\ nth_error (ok_replies_of id i w1) j = None) /\
  exists replies, ok_column n id j (w1 ++ [x]) = List.map Some replies /\ length replies = n /\
    (ok_acc r = true <-> forall c, In c replies -> ok_acc c = true).
Proof.
  intros n w1 x w2 r Hn Ht [Ho _] Hnth id j.
  destruct (ok_at n w1 x w2 r (ge2_ge1 n Hn) Ht Ho Hnth) as [H1 [xs [H2 [H3 [H4 H5]]]]].
  split; [exact H1|]. exists xs. split; [exact H2|]. split; [exact H3|].
  apply (ok_merge_verdict id xs r H4 H5).
Qed.
Print Assumptions C09_ok_verdict.

(** a rejecting OK begins with the text (prefix + message) of the
    lowest-numbered rejecting child, so its machine-readable prefix survives *)
Theorem C09_ok_prefix_survives : forall n w1 x w2 r,
  (2 <= n)%nat -> trace_ok n (w1 ++ x :: w2) -> answers_in_order (w1 ++ x :: w2) ->
  nth_error (outs (init n) (w1 ++ x :: w2)) (length w1) = Some (Some (SOk r)) ->
  ok_acc r = false ->
  let id := ok_id r in
  let j := count_occ_b (is_ok_out id) (outs (init n) w1) in
  exists replies before c after tail,
    ok_column n id j (w1 ++ [x]) = List.map Some replies /\
    replies = before ++ c :: after /\
    (forall b, In b before -> ok_acc b = true) /\ ok_acc c = false /\
    ok_message r = ok_message c ++ tail.
Proof.
  intros n w1 x w2 r Hn Ht [Ho _] Hnth Hrej id j.
  destruct (ok_at n w1 x w2 r (ge2_ge1 n Hn) Ht Ho Hnth) as [_ [xs [H2 [_ [H4 H5]]]]].
  destruct (ok_merge_verdict id xs r H4 H5) as [_ [_ H6]].
  destruct (H6 Hrej) as [before [c [after [tail [E1 [E2 [E3 E4]]]]]]].
  exists xs, before, c, after, tail. auto.
Qed.
Print Assumptions C09_ok_prefix_survives.

(** every child answered every COUNT [sub]: exactly one COUNT reply per COUNT *)
Theorem C09_count_exactly_one : forall n t sub,
  (2 <= n)%nat -> trace_ok n t -> answers_in_order t ->
  (forall i, (i < n)%nat -> length (cnt_replies_of sub i t) = count_occ_b (is_ccount_of sub) t) ->
  count_occ_b (is_count_out sub) (outs (init n) t) = count_occ_b (is_ccount_of sub) t.
Proof. intros n t sub Hn Ht [_ Ho]. apply count_exactly_one; auto. lia. Qed.
Print Assumptions C09_count_exactly_one.

Theorem C09_count_one_per_answered_request : forall n t sub j,
  (2 <= n)%nat -> trace_ok n t -> answers_in_order t ->
  ((j < count_occ_b (is_count_out sub) (outs (init n) t))%nat <->
   forall i, (i < n)%nat -> (j < length (cnt_replies_of sub i t))%nat).
Proof. intros n t sub j Hn Ht [_ Ho]. apply cnt_replies_count; auto. lia. Qed.
Print Assumptions C09_count_one_per_answered_request.

Theorem C09_count_never_exceeds_requests : forall n t sub,
  (2 <= n)%nat -> trace_ok n t -> answers_in_order t ->
  (count_occ_b (is_count_out sub) (outs (init n) t) <= count_occ_b (is_ccount_of sub) t)%nat.
Proof. intros n t sub Hn Ht [_ Ho]. apply cnt_le_requests; auto. lia. Qed.
Print Assumptions C09_count_never_exceeds_requests.

(** a COUNT reply output at a step is the [j]-th for its id; it is output at
    the step of the last child's [j]-th reply and carries the maximum of the
    children's [j]-th counts (it is one of those replies) *)
Theorem C09_count_is_max : forall n w1 x w2 r,
  (2 <= n)%nat -> trace_ok n (w1 ++ x :: w2) -> answers_in_order (w1 ++ x :: w2) ->
  nth_error (outs (init n) (w1 ++ x :: w2)) (length w1) = Some (Some (SCount r)) ->
  let sub := c_sub r in
  let j := count_occ_b (is_count_out sub) (outs (init n) w1) in
  (exists i, (i < n)%nat /\ nth_error (cnt_replies_of sub i w1) j = None) /\
  exists replies, cnt_column n sub j (w1 ++ [x]) = List.map Some replies /\ length replies = n /\
    In r replies /\ (forall c, In c replies -> c_count c <= c_count r).
Proof.
  intros n w1 x w2 r Hn Ht [_ Ho] Hnth sub j.
  destruct (count_at n w1 x w2 r (ge2_ge1 n Hn) Ht Ho Hnth) as [H1 [xs [H2 [H3 [H4 H5]]]]].
  split; [exact H1|]. exists xs. split; [exact H2|]. split; [exact H3|].
  destruct (cnt_merge_max sub xs r H4 H5) as [_ [H6 H7]]. auto.
Qed.
Print Assumptions C09_count_is_max.

(** more precisely it is the reply of the lowest-numbered child among those
    with the maximal count (what slices.MaxFunc returns) *)
Theorem C09_count_is_first_max : forall n w1 x w2 r,
  (2 <= n)%nat -> trace_ok n (w1 ++ x :: w2) -> answers_in_order (w1 ++ x :: w2) ->
  nth_error (outs (init n) (w1 ++ x :: w2)) (length w1) = Some (Some (SCount r)) ->
  let sub := c_sub r in
  let j := count_occ_b (is_count_out sub) (outs (init n) w1) in
  exists before after,
    cnt_column n sub j (w1 ++ [x]) = List.map Some (before ++ r :: after) /\
    forall b, In b before -> c_count b < c_count r.
Proof.
  intros n w1 x w2 r Hn Ht [_ Ho] Hnth sub j.
  destruct (count_at n w1 x w2 r (ge2_ge1 n Hn) Ht Ho Hnth) as [_ [xs [H2 [_ [H4 _]]]]].
  destruct (cnt_merge_first xs r H4) as [before [after [E Hb]]].
  exists before, after. split; [now rewrite <- E | exact Hb].
Qed.
Print Assumptions C09_count_is_first_max.

(** an aggregated reply carries the id of the request it answers *)
Theorem C09_reply_id_preserved : forall n pre i m o,
  trace_ok n pre -> (i < n)%nat ->
  (snd (merge_step (final (init n) pre) (Child i (SOk m))) = Some o -> exists r, o = SOk r /\ ok_id r = ok_id m) /\
  (forall c, snd (merge_step (final (init n) pre) (Child i (SCount c))) = Some o ->
             exists r, o = SCount r /\ c_sub r = c_sub c).
Proof. intros n pre i m o Ht Hi. apply (reply_id_preserved n); [now apply reach_ok | exact Hi]. Qed.
Print Assumptions C09_reply_id_preserved.

(** All of the above in one statement over whole histories and without any
    hypothesis on the children: the boolean oracle [c09_oracle] — the text of
    C09 as a judgement of an observed history: a child's reply answers the
    oldest request with that id the child has not answered yet; when the last
    child's reply to a request arrives, exactly one aggregated reply comes out
    at that step (an OK with the request's id, accepting iff every child
    accepted, a rejecting one beginning with the lowest-numbered rejecting
    child's text; a COUNT with the maximum of the children's counts), nothing
    comes out at any other step, a reply nobody waits for is dropped, a CLOSE
    or a REQ changes nothing — accepts what the model does on EVERY gated
    history of every length, for every number of children.  This is the oracle
    the correspondence check applies to the implementation. *)
Theorem C09_model_satisfies_oracle : forall n t,
  (2 <= n)%nat -> trace_ok n t -> c09_oracle n (obs_of (init n) t) = true.
Proof. intros n t Hn. apply model_satisfies_c09_oracle. lia. Qed.
Print Assumptions C09_model_satisfies_oracle.

(** so an observation that the model reproduces step by step is one the
    oracle accepts *)
Theorem C09_agreement_implies_oracle : forall n t,
  (2 <= n)%nat -> trace_ok n (List.map fst t) -> model_agrees (init n) t = true -> c09_oracle n t = true.
Proof. intros n t Hn. apply agreement_implies_c09_oracle. lia. Qed.
Print Assumptions C09_agreement_implies_oracle.

(* ------------------------------------------------------------------ *)
(** One handler value serves every connection.  MergeHandler.ServeNostr
    allocates the OK and COUNT tables per call, so the model of a handler with
    [k] sessions is the product of [k] session models ([multi_agrees]), and
    C09 is required of every session on its own: [c09_multi_oracle] judges
    what each session saw with [c09_oracle].  An observation of a k-session
    history that the product model reproduces is accepted, session by session;
    the correspondence check applies both to histories in which several
    sessions have the same id in flight. *)
Theorem C09_sessions_agreement_implies_oracle : forall n k t,
  (2 <= n)%nat -> (forall p, In p t -> input_ok n (fst (snd p))) ->
  multi_agrees (repeat (init n) k) t = true -> c09_multi_oracle n k t = true.
Proof. intros n k t Hn. apply multi_agreement_implies_c09_oracle. lia. Qed.
Print Assumptions C09_sessions_agreement_implies_oracle.

(* ------------------------------------------------------------------ *)
(** Joint observations.  The harness's sentinel is a message that reaches the
    client, so a history observed step by step never shows two merged replies
    next to each other; in a [jtrace] runs of child messages are emitted with
    no sentinel in between and observed jointly.  When the model reproduces
    every joint observation ([joint_split] returns [true]), the attribution of
    the observation to the steps that it returns is accepted by the oracle. *)
Theorem C09_joint_agreement_implies_oracle : forall n t tr,
  (2 <= n)%nat -> trace_ok n (concat (List.map fst t)) ->
  joint_split (init n) t = (true, tr) -> c09_oracle n tr = true.
Proof.
  intros n t tr Hn Hok H. destruct (joint_split_agrees _ _ _ H) as [Ha Hi].
  apply agreement_implies_c09_oracle; [lia | rewrite Hi; exact Hok | exact Ha].
Qed.
Print Assumptions C09_joint_agreement_implies_oracle.

(** teeth: the same EVENT id submitted twice, both children accept both; child
    1 emits its two replies in one go.  Two merged OKs are due; an output loop
    that drops a message equal to the one before it delivers one, and that is
    rejected (and differs from the model). *)
Definition jx_id : str := [113]%N.
Definition jx_ok : okm := mkOk jx_id true [] [].
Definition jx_inputs : list (list input) :=
  [[CEvent jx_id]; [CEvent jx_id]; [Child 0 (SOk jx_ok)]; [Child 0 (SOk jx_ok)];
   [Child 1 (SOk jx_ok); Child 1 (SOk jx_ok)]]%nat.
Definition jx_good : jtrace :=
  combine jx_inputs [[]; []; []; []; [SOk (mkOk jx_id true [] []); SOk (mkOk jx_id true [] [])]].
Definition jx_dropped : jtrace :=
  combine jx_inputs [[]; []; []; []; [SOk (mkOk jx_id true [] [])]].

Theorem C09_joint_example :
  (let '(a, tr) := joint_split (init 2) jx_good in a && c09_oracle 2 tr) = true /\
  (let '(a, tr) := joint_split (init 2) jx_dropped in (a, c09_oracle 2 tr)) = (false, false).
Proof. split; vm_compute; reflexivity. Qed.
Print Assumptions C09_joint_example.

(** the judgement has teeth: two sessions, the same EVENT id in flight on
    both, child 0 rejects on session 0 only.  Replies in the order s0.child0,
    s1.child1, s1.child0, s0.child1.  What independent sessions do is
    accepted; the behaviour of an aggregation table shared by the sessions
    (session 1 receives the rejection made of session 0's reply, before its
    own child 0 has answered; session 0 is told "accepted") is rejected. *)
Definition ms_id : str := [113]%N.
Definition ms_ng : okm := mkOk ms_id false [98; 108; 111; 99; 107; 101; 100; 58; 32]%N [98; 48]%N.
Definition ms_ok : okm := mkOk ms_id true [] [].
Definition ms_independent : mtrace :=
  [(0, (CEvent ms_id, [])); (1, (CEvent ms_id, []));
   (0, (Child 0 (SOk ms_ng), [])); (1, (Child 1 (SOk ms_ok), []));
   (1, (Child 0 (SOk ms_ok), [SOk (mkOk ms_id true [] [])]));
   (0, (Child 1 (SOk ms_ok), [SOk (mkOk ms_id false [] (ok_message ms_ng))]))]%nat.
Definition ms_shared_table : mtrace :=
  [(0, (CEvent ms_id, [])); (1, (CEvent ms_id, []));
   (0, (Child 0 (SOk ms_ng), []));
   (1, (Child 1 (SOk ms_ok), [SOk (mkOk ms_id false [] (ok_message ms_ng))]));
   (1, (Child 0 (SOk ms_ok), []));
   (0, (Child 1 (SOk ms_ok), [SOk (mkOk ms_id true [] [])]))]%nat.

Theorem C09_sessions_example :
  multi_agrees (repeat (init 2) 2) ms_independent = true /\ c09_multi_oracle 2 2 ms_independent = true /\
  multi_agrees (repeat (init 2) 2) ms_shared_table = false /\ c09_multi_oracle 2 2 ms_shared_table = false.
Proof. repeat split; vm_compute; reflexivity. Qed.
Print Assumptions C09_sessions_example.

(* ------------------------------------------------------------------ *)
(** Finding K1 (repaired).  Two EVENTs with one id in flight, two children,
    replies a1 a2 b1 b2 (child 0 accepts the first submission and rejects the
    second, child 1 accepts both).  The history meets every hypothesis above.
    The code BEFORE the repair ([MergeOld.old_step], one slot vector per id)
    emitted ONE OK for the two submissions, mixing child 0's reply to the
    second with child 1's reply to the first; the repaired code emits two,
    the first accepting, the second rejecting with child 0's text. *)
Definition k1_id : str := [120]%N.
Definition k1_a1 : okm := mkOk k1_id true [] [].
Definition k1_a2 : okm := mkOk k1_id false [98; 108; 111; 99; 107; 101; 100; 58; 32]%N [110; 111]%N.
Definition k1_b1 : okm := mkOk k1_id true [] [].
Definition k1_b2 : okm := mkOk k1_id true [] [].
Definition k1_trace : list input :=
  [CEvent k1_id; CEvent k1_id; Child 0 (SOk k1_a1); Child 0 (SOk k1_a2); Child 1 (SOk k1_b1); Child 1 (SOk k1_b2)].
Definition k1_sub : str := [99]%N.
Definition k1_trace_count : list input :=
  [CCount k1_sub; CCount k1_sub; Child 0 (SCount (mkCnt k1_sub 1 None)); Child 0 (SCount (mkCnt k1_sub 5 None));
   Child 1 (SCount (mkCnt k1_sub 2 None)); Child 1 (SCount (mkCnt k1_sub 3 None))].

Theorem C09_k1_history_old_model_refuted :
  trace_ok 2 k1_trace /\ answers_in_order k1_trace /\
  count_occ_b (is_cevent_of k1_id) k1_trace = 2%nat /\
  length (ok_replies_of k1_id 0 k1_trace) = 2%nat /\ length (ok_replies_of k1_id 1 k1_trace) = 2%nat /\
  old_outs (old_init 2) k1_trace =
    [None; None; None; None; Some (SOk (mkOk k1_id false [] (ok_message k1_a2))); None] /\
  trace_ok 2 k1_trace_count /\ answers_in_order k1_trace_count /\
  count_occ_b (is_ccount_of k1_sub) k1_trace_count = 2%nat /\
  count_occ_b (is_count_out k1_sub) (old_outs (old_init 2) k1_trace_count) = 1%nat.
Proof.
  split; [unfold trace_ok, k1_trace; repeat constructor|].
  split; [apply in_orderb_answers; vm_compute; reflexivity|].
  split; [vm_compute; reflexivity|]. split; [vm_compute; reflexivity|]. split; [vm_compute; reflexivity|].
  split; [vm_compute; reflexivity|].
  split; [unfold trace_ok, k1_trace_count; repeat constructor|].
  split; [apply in_orderb_answers; vm_compute; reflexivity|].
  split; vm_compute; reflexivity.
Qed.
Print Assumptions C09_k1_history_old_model_refuted.

Theorem C09_k1_history_repaired :
  outs (init 2) k1_trace =
    [None; None; None; None; Some (SOk (mkOk k1_id true [] [])); Some (SOk (mkOk k1_id false [] (ok_message k1_a2)))] /\
  outs (init 2) k1_trace_count =
    [None; None; None; None; Some (SCount (mkCnt k1_sub 2 None)); Some (SCount (mkCnt k1_sub 5 None))].
Proof. split; vm_compute; reflexivity. Qed.
Print Assumptions C09_k1_history_repaired.

(* ------------------------------------------------------------------ *)
(** Non-vacuity: a history with two children, three EVENTs with the id [x] of
    which two are in flight together, a COUNT [y] and a CLOSE/REQ with the same
    ids in between, the children's replies interleaved; it meets every
    hypothesis (gate, [answers_in_order], every child answered everything),
    and the model answers each request once. *)
Example ex_id : str := [120]%N.
Example ex_sub : str := [121]%N.
Example ex_ok : okm := mkOk ex_id true [] [].
Example ex_ng : okm := mkOk ex_id false [98; 108; 111; 99; 107; 101; 100; 58; 32]%N [110; 111]%N.
Example ex_t : list input :=
  [CEvent ex_id; CEvent ex_id; CCount ex_sub; Child 1 (SOk ex_ng); CClose ex_sub; Child 1 (SOk ex_ok);
   Child 0 (SCount (mkCnt ex_sub 3 None)); Child 0 (SOk ex_ok); CReq ex_id []; CEvent ex_id;
   Child 1 (SCount (mkCnt ex_sub 7 None)); Child 0 (SOk ex_ok); Child 0 (SOk ex_ok); Child 1 (SOk ex_ok)].

Example C09_example_hypotheses :
  trace_ok 2 ex_t /\ answers_in_order ex_t /\
  (forall i, (i < 2)%nat -> length (ok_replies_of ex_id i ex_t) = count_occ_b (is_cevent_of ex_id) ex_t) /\
  (forall i, (i < 2)%nat -> length (cnt_replies_of ex_sub i ex_t) = count_occ_b (is_ccount_of ex_sub) ex_t).
Proof.
  split; [unfold trace_ok, ex_t; repeat constructor|].
  split; [apply in_orderb_answers; vm_compute; reflexivity|].
  split; intros i Hi; destruct i as [|[|i]]; try lia; vm_compute; reflexivity.
Qed.

Example C09_example_run :
  outs (init 2) ex_t =
  [None; None; None; None; None; None; None;
   Some (SOk (mkOk ex_id false [] (ok_message ex_ng))); None; None;
   Some (SCount (mkCnt ex_sub 7 None));
   Some (SOk (mkOk ex_id true [] [])); None; Some (SOk (mkOk ex_id true [] []))].
Proof. vm_compute. reflexivity. Qed.
