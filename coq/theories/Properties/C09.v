(* C09 — Merged EVENT and COUNT: exactly one aggregated reply per request.

   Statements only; each is closed by lemmas proved in MergeProofs.v and
   followed by Print Assumptions.

   Reading guide (see also Properties/C08.v).
   - A history is a list of inputs, each one critical section of the code.
     [trace_ok n t]: child indices are below [n] (and the REQ-side gate).
     Every interleaving of the children's replies with each other and with
     client input is a history; the theorems quantify over all of them.
   - The *window* of an EVENT with id [id]: the inputs [w] after it up to the
     next EVENT with that id ([no_cevent id w]); [evt_outs s id w] is what
     the client receives at each step of [w].  Same for COUNT
     ([no_ccount], [cnt_outs]).
   - [ok_replies n id w] is, per child, the last OK for [id] the child sent
     in [w]; [all_replied n id w] says every child sent one.  When every
     child answers each request once — the property's quantifier — the last
     reply is the reply.
   - Guard [no_overlap n t]: whenever an EVENT (COUNT) with some id is
     submitted, every earlier submission with that id has been answered by
     every child ([idle_ev], [idle_cnt]).  Without the guard the statement
     is false of the code: C09_ok_exactly_one_refuted,
     C09_count_exactly_one_refuted (finding K1). *)
From Moc Require Import Base Match MatchProofs Merge MergeProofs MergeOracleProofs.
Open Scope Z_scope.

(** exactly one OK carrying the event's id once every child has replied, none
    before; so: one OK per EVENT *)
Theorem C09_ok_exactly_one : forall n t pre id w rest,
  (2 <= n)%nat -> trace_ok n t -> no_overlap n t ->
  t = pre ++ CEvent id :: w ++ rest -> no_cevent id w ->
  count_occ_b (is_ok_out id) (evt_outs (final (init n) pre) id w) =
  if all_replied n id w then 1%nat else 0%nat.
Proof. exact ok_exactly_one_reach. Qed.
Print Assumptions C09_ok_exactly_one.

(** it is output at the step of the last child's reply and is accepting iff
    every child accepted *)
Theorem C09_ok_verdict : forall n t pre id w1 x w2 rest r,
  (2 <= n)%nat -> trace_ok n t -> no_overlap n t ->
  t = pre ++ CEvent id :: (w1 ++ x :: w2) ++ rest -> no_cevent id (w1 ++ x :: w2) ->
  nth_error (evt_outs (final (init n) pre) id (w1 ++ x :: w2)) (length w1) = Some (Some (SOk r)) ->
  ok_id r = id ->
  all_replied n id w1 = false /\
  exists replies, ok_replies n id (w1 ++ [x]) = List.map Some replies /\ length replies = n /\
    (ok_acc r = true <-> forall c, In c replies -> ok_acc c = true).
Proof.
  intros n t pre id w1 x w2 rest r Hn Ht Hno Et Hnc Hnth Hid.
  destruct (ok_verdict_reach n t pre id w1 x w2 rest r Hn Ht Hno Et Hnc Hnth Hid) as [H1 [rs [H2 [H3 [_ [H4 _]]]]]].
  split; [exact H1|]. exists rs. auto.
Qed.
Print Assumptions C09_ok_verdict.

(** a rejecting OK begins with the text (prefix + message) of the
    lowest-numbered rejecting child, so its machine-readable prefix survives *)
Theorem C09_ok_prefix_survives : forall n t pre id w1 x w2 rest r,
  (2 <= n)%nat -> trace_ok n t -> no_overlap n t ->
  t = pre ++ CEvent id :: (w1 ++ x :: w2) ++ rest -> no_cevent id (w1 ++ x :: w2) ->
  nth_error (evt_outs (final (init n) pre) id (w1 ++ x :: w2)) (length w1) = Some (Some (SOk r)) ->
  ok_id r = id -> ok_acc r = false ->
  exists replies before c after tail,
    ok_replies n id (w1 ++ [x]) = List.map Some replies /\
    replies = before ++ c :: after /\
    (forall b, In b before -> ok_acc b = true) /\ ok_acc c = false /\
    ok_message r = ok_message c ++ tail.
Proof.
  intros n t pre id w1 x w2 rest r Hn Ht Hno Et Hnc Hnth Hid Hrej.
  destruct (ok_verdict_reach n t pre id w1 x w2 rest r Hn Ht Hno Et Hnc Hnth Hid) as [_ [rs [H2 [_ [_ [_ H5]]]]]].
  destruct (H5 Hrej) as [before [c [after [tail [E1 [E2 [E3 E4]]]]]]].
  exists rs, before, c, after, tail. auto.
Qed.
Print Assumptions C09_ok_prefix_survives.

(** exactly one COUNT reply once every child has replied, none before *)
Theorem C09_count_exactly_one : forall n pre sub w,
  (2 <= n)%nat -> trace_ok n (pre ++ CCount sub :: w) -> no_ccount sub w ->
  count_occ_b (is_count_out sub) (cnt_outs (final (init n) pre) sub w) =
  if all_counted n sub w then 1%nat else 0%nat.
Proof. exact count_exactly_one_reach. Qed.
Print Assumptions C09_count_exactly_one.

(** it is output at the step of the last child's reply and carries the
    maximum of the children's counts (it is one of the children's replies) *)
Theorem C09_count_is_max : forall n pre sub w1 x w2 r,
  (2 <= n)%nat -> trace_ok n (pre ++ CCount sub :: w1 ++ x :: w2) -> no_ccount sub (w1 ++ x :: w2) ->
  nth_error (cnt_outs (final (init n) pre) sub (w1 ++ x :: w2)) (length w1) = Some (Some (SCount r)) ->
  c_sub r = sub ->
  all_counted n sub w1 = false /\
  exists replies, cnt_replies n sub (w1 ++ [x]) = List.map Some replies /\ length replies = n /\
    In r replies /\ (forall c, In c replies -> c_count c <= c_count r).
Proof.
  intros n pre sub w1 x w2 r Hn Ht Hnc Hnth Hid.
  destruct (count_is_max_reach n pre sub w1 x w2 r Hn Ht Hnc Hnth Hid) as [H1 [rs [H2 [H3 [_ [H4 H5]]]]]].
  split; [exact H1|]. exists rs. auto.
Qed.
Print Assumptions C09_count_is_max.

(** more precisely it is the reply of the lowest-numbered child among those
    with the maximal count (what slices.MaxFunc returns) *)
Theorem C09_count_is_first_max : forall n pre sub w1 x w2 r,
  (2 <= n)%nat -> trace_ok n (pre ++ CCount sub :: w1 ++ x :: w2) -> no_ccount sub (w1 ++ x :: w2) ->
  nth_error (cnt_outs (final (init n) pre) sub (w1 ++ x :: w2)) (length w1) = Some (Some (SCount r)) ->
  c_sub r = sub ->
  exists before after,
    cnt_replies n sub (w1 ++ [x]) = List.map Some (before ++ r :: after) /\
    forall b, In b before -> c_count b < c_count r.
Proof. exact count_is_first_max_reach. Qed.
Print Assumptions C09_count_is_first_max.

(** Whole histories.  If, after the history [t], no EVENT with id [id] is in
    flight — every submission was answered by every child before the next
    one with that id came ([idle_ev], the guard along the whole history) —
    the client has received exactly as many OKs for [id] as it submitted
    EVENTs with that id; and likewise for COUNT. *)
Theorem C09_ok_count_equals_event_count : forall n id t,
  (2 <= n)%nat -> trace_ok n t -> idle_ev n id t ->
  count_occ_b (is_ok_out id) (outs (init n) t) = count_occ_b (is_cevent_of id) t.
Proof. intros n id t Hn. apply ok_count_equals_event_count. lia. Qed.
Print Assumptions C09_ok_count_equals_event_count.

Theorem C09_count_count_equals_request_count : forall n sub t,
  (2 <= n)%nat -> trace_ok n t -> idle_cnt n sub t ->
  count_occ_b (is_count_out sub) (outs (init n) t) = count_occ_b (is_ccount_of sub) t.
Proof. intros n sub t Hn. apply count_count_equals_request_count. lia. Qed.
Print Assumptions C09_count_count_equals_request_count.

(** the guard, read off the history, is what the windows need: no slot vector
    is held for an id that is not in flight *)
Theorem C09_idle_means_no_slot : forall n id pre,
  (1 <= n)%nat -> trace_ok n pre -> idle_ev n id pre ->
  assoc id (os_s (st_os (final (init n) pre))) = None.
Proof. exact idle_ev_slot. Qed.
Print Assumptions C09_idle_means_no_slot.

(** an aggregated reply carries the id of the request it answers *)
Theorem C09_reply_id_preserved : forall n pre i m o,
  trace_ok n pre -> (i < n)%nat ->
  (snd (merge_step (final (init n) pre) (Child i (SOk m))) = Some o -> exists r, o = SOk r /\ ok_id r = ok_id m) /\
  (forall c, snd (merge_step (final (init n) pre) (Child i (SCount c))) = Some o ->
             exists r, o = SCount r /\ c_sub r = c_sub c).
Proof. intros n pre i m o Ht Hi. apply (reply_id_preserved n); [now apply reach_ok | exact Hi]. Qed.
Print Assumptions C09_reply_id_preserved.

(** Without the guard: two EVENTs with one id in flight, two children, replies
    a1 a2 b1 b2 — two submissions, each answered by both children, ONE OK, and
    its verdict mixes the reply to the second submission (child 0) with the
    reply to the first (child 1).  The implementation behaves identically
    (corpus/C09, finding K1). *)
Theorem C09_ok_exactly_one_refuted :
  exists t id, trace_ok 2 t /\
    count_occ_b (is_cevent_of id) t = 2%nat /\
    replies_of_child_ev id 0 t = 2%nat /\ replies_of_child_ev id 1 t = 2%nat /\
    count_occ_b (is_ok_out id) (outs (init 2) t) = 1%nat /\
    outs (init 2) t = [None; None; None; None;
                       Some (SOk (mkOk id false [] (ok_message k1_a2))); None].
Proof. exact ok_exactly_one_refuted. Qed.
Print Assumptions C09_ok_exactly_one_refuted.

Theorem C09_count_exactly_one_refuted :
  exists t sub, trace_ok 2 t /\
    count_occ_b (is_ccount_of sub) t = 2%nat /\
    replies_of_child_cnt sub 0 t = 2%nat /\ replies_of_child_cnt sub 1 t = 2%nat /\
    count_occ_b (is_count_out sub) (outs (init 2) t) = 1%nat.
Proof. exact count_exactly_one_refuted. Qed.
Print Assumptions C09_count_exactly_one_refuted.

(** the refuting history is one the guard excludes *)
Theorem C09_refuting_history_overlaps : ~ no_overlap 2 k1_trace.
Proof. exact k1_trace_overlaps. Qed.
Print Assumptions C09_refuting_history_overlaps.

(** All of the above in one statement over whole histories: the boolean oracle
    [c09_oracle] — the text of C09 as a judgement of an observed history: a
    child's reply answers the oldest request with that id the child has not
    answered yet; when the last child's reply to a request arrives, exactly one
    aggregated reply comes out at that step (an OK with the request's id,
    accepting iff every child accepted, a rejecting one beginning with the
    lowest-numbered rejecting child's text; a COUNT with the maximum of the
    children's counts), nothing comes out at any other step, a CLOSE or a REQ
    changes nothing — accepts what the model does on every gated history of
    every length, for every number of children, that keeps the discipline
    [c09_disciplined]: a request is submitted only while no request of that
    kind with the same id is in flight, and a child answers a request in flight
    at most once (replies nobody waits for are allowed).  This is the oracle the
    correspondence check applies to the implementation.  Outside the discipline
    the statement is false of this code (finding K1, below). *)
Theorem C09_model_satisfies_oracle : forall n t,
  (2 <= n)%nat -> trace_ok n t -> c09_disciplined n t -> c09_oracle n (obs_of (init n) t) = true.
Proof. intros n t Hn. apply model_satisfies_c09_oracle. lia. Qed.
Print Assumptions C09_model_satisfies_oracle.

(** so a disciplined observation that the model reproduces step by step is
    one the oracle accepts *)
Theorem C09_agreement_implies_oracle : forall n t,
  (2 <= n)%nat -> trace_ok n (List.map fst t) -> c09_disciplined n (List.map fst t) ->
  model_agrees (init n) t = true -> c09_oracle n t = true.
Proof. intros n t Hn. apply agreement_implies_c09_oracle. lia. Qed.
Print Assumptions C09_agreement_implies_oracle.

(** the discipline cannot be dropped: on the K1 history the oracle rejects what
    the model (and the implementation) does *)
Theorem C09_oracle_rejects_k1 :
  trace_ok 2 k1_trace /\ ~ c09_disciplined 2 k1_trace /\ c09_oracle 2 (obs_of (init 2) k1_trace) = false.
Proof.
  split; [exact k1_trace_ok|]. split; [|vm_compute; reflexivity].
  unfold c09_disciplined. vm_compute. discriminate.
Qed.
Print Assumptions C09_oracle_rejects_k1.

(* ------------------------------------------------------------------ *)
(** Non-vacuity: a history with two children in which the id [x] is
    submitted twice, one after the other; it meets the guard, and the model
    answers each submission once: the first rejected (child 1 said
    "blocked: no"), the second accepted. *)

Example ex_id : str := [120]%N.
Example ex_ok : okm := mkOk ex_id true [] [].
Example ex_ng : okm := mkOk ex_id false [98; 108; 111; 99; 107; 101; 100; 58; 32]%N [110; 111]%N.
Example ex_t : list input :=
  [CEvent ex_id; Child 1 (SOk ex_ng); Child 0 (SOk ex_ok);
   CEvent ex_id; Child 0 (SOk ex_ok); Child 1 (SOk ex_ok)].

Example C09_example_hypotheses : trace_ok 2 ex_t /\ no_overlap 2 ex_t.
Proof.
  split; [unfold trace_ok, ex_t; repeat constructor|].
  split.
  - intros pre id rest E. unfold ex_t in E.
    destruct pre as [|p1 pre]; cbn in E.
    { apply idle_ev_none. intros y []. }
    inversion E as [[E1 E2]]; clear E. subst p1.
    destruct pre as [|p2 pre]; cbn in E2; [discriminate|]. inversion E2 as [[E1 E3]]; clear E2. subst p2.
    destruct pre as [|p3 pre]; cbn in E3; [discriminate|]. inversion E3 as [[E1 E4]]; clear E3. subst p3.
    destruct pre as [|p4 pre]; cbn in E4.
    { inversion E4; subst.
      apply (idle_ev_done 2 ex_id [] [Child 1 (SOk ex_ng); Child 0 (SOk ex_ok)]).
      - apply idle_ev_none. intros y [].
      - intros y [<-|[<-|[]]]; reflexivity.
      - reflexivity. }
    inversion E4 as [[E1 E5]]; clear E4. subst p4.
    destruct pre as [|p5 pre]; cbn in E5; [discriminate|]. inversion E5 as [[E1 E6]]; clear E5. subst p5.
    destruct pre as [|p6 pre]; cbn in E6; [discriminate|]. inversion E6 as [[E1 E7]]; clear E6.
    destruct pre; discriminate.
  - intros pre sub rest E. unfold ex_t in E.
    do 6 (destruct pre as [|? pre]; cbn in E; [discriminate|]; injection E as Eh E; clear Eh).
    destruct pre; discriminate.
Qed.

Example C09_example_run :
  outs (init 2) ex_t =
  [None; None; Some (SOk (mkOk ex_id false [] (ok_message ex_ng)));
   None; None; Some (SOk (mkOk ex_id true [] []))].
Proof. vm_compute. reflexivity. Qed.

(** ... and it keeps the discipline of [C09_model_satisfies_oracle]; so does a
    history with two requests in flight under different ids, a CLOSE and a REQ
    with those ids in between, and a late reply nobody waits for *)
Example ex_id2 : str := [121]%N.
Example ex_t2 : list input :=
  [CEvent ex_id; CCount ex_id2; CEvent ex_id2; Child 1 (SOk ex_ng); CClose ex_id;
   Child 0 (SCount (mkCnt ex_id2 3 None)); CReq ex_id2 []; Child 0 (SOk (mkOk ex_id2 true [] []));
   Child 0 (SOk ex_ok); CClose ex_id2; Child 1 (SCount (mkCnt ex_id2 7 None));
   Child 1 (SOk (mkOk ex_id2 true [] [])); Child 1 (SOk ex_ok)].

Example C09_example_discipline :
  c09_disciplined 2 ex_t /\ trace_ok 2 ex_t2 /\ c09_disciplined 2 ex_t2 /\
  outs (init 2) ex_t2 =
  [None; None; None; None; None; None; None; None;
   Some (SOk (mkOk ex_id false [] (ok_message ex_ng))); None;
   Some (SCount (mkCnt ex_id2 7 None)); Some (SOk (mkOk ex_id2 true [] [])); None].
Proof.
  split; [vm_compute; reflexivity|]. split; [unfold trace_ok, ex_t2; repeat constructor|].
  split; vm_compute; reflexivity.
Qed.
