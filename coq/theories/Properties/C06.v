(* C06 — SQLite store: each query equals the filter spec over stored, live
   events.  Statements only; proofs are in SqlInv / SqlAbs / SqlQuery /
   SqlProofs / SqlProofsFixed.  After the repairs of F6 and F7 the full
   statement is proved (C06_query_correct). *)
From Moc Require Import SqlProofs SqlProofsFixed SqlCheckBase SqlCheckProofs.
From Moc.Gen Require Import GenSql.
Open Scope Z_scope.

(** the tables stay consistent under every batch: primary keys hold, one
    payload row per events row, tag rows = those of the current versions *)
Theorem C06_insert_inv : forall seed s b, Inv s -> Inv (insert_batch seed s b).
Proof. exact insert_inv. Qed.
Print Assumptions C06_insert_inv.

Theorem C06_inv_reachable : forall seed h, Inv (run seed empty_db h).
Proof. intros seed h. apply run_inv, inv_empty. Qed.
Print Assumptions C06_inv_reachable.

(** after a history of gate-valid events with functional ids, the rows are
    exactly the stored events of the specification and the tombstones exactly
    those of the history's deletion requests *)
Theorem C06_tables_are_stored : forall seed h,
  Forall gv (concat h) -> ids_functional (concat h) -> Abs seed (concat h) (run seed empty_db h).
Proof. exact abs_run. Qed.
Print Assumptions C06_tables_are_stored.

(** the rows passing the two `not exists` tests are the stored, not deleted events *)
Theorem C06_live_rows_are_stored_not_deleted : forall seed es s,
  Abs seed es s -> Forall gv es -> e_refs_canonical es = true -> a_refs_scoped es = true -> k5_counted es ->
  (forall r, In r (d_events s) -> tomb_free s r = true ->
     exists x, live es x /\ get_event_key seed x = Some (r_key r) /\ r = row_of (r_key r) x) /\
  (forall x, live es x ->
     exists k, get_event_key seed x = Some k /\ In (row_of k x) (d_events s) /\ tomb_free s (row_of k x) = true).
Proof. exact live_rows_are_stored_not_deleted. Qed.
Print Assumptions C06_live_rows_are_stored_not_deleted.

(** one sub-select returns a choice of the newest live events matching its filter *)
Theorem C06_subquery_topn : forall seed es s,
  Abs seed es s -> Forall gv es -> ids_functional es ->
  e_refs_canonical es = true -> a_refs_scoped es = true -> k5_counted es ->
  forall maxLimit f, gate_valid_filter f = true ->
  match sub_limit_of (f_limit f) maxLimit with Some n => 0 <= n | None => True end ->
  sub_select s maxLimit f = Some (List.map r_key (resrows s maxLimit f)) /\
  (forall r, In r (resrows s maxLimit f) -> In r (d_events s)) /\
  top_sel (fun x => live es x /\ match_spec x f) (sub_limit_of (f_limit f) maxLimit)
          (List.map (evr s) (resrows s maxLimit f)).
Proof. exact subquery_topn. Qed.
Print Assumptions C06_subquery_topn.

(** the query theorem in the form that is the same before and after the
    repairs: F6 / F7 enter only through [k5_counted] and [limits_agree] *)
Theorem C06_query_correct_core :
  forall (xx : Z -> str -> Z) (md5 : str -> str) seed (h : list (list event)) fs maxLimit,
  no_collision xx md5 seed (concat h) fs ->
  gate_valid (concat h) -> ids_functional (concat h) ->
  e_refs_canonical (concat h) = true -> a_refs_scoped (concat h) = true ->
  k5_counted (concat h) ->
  fs <> [] -> Forall (fun f => gate_valid_filter f = true) fs -> 0 < maxLimit <= NoLimit ->
  limits_agree fs maxLimit ->
  exists out, query (run seed empty_db h) fs maxLimit = Some out /\ query_spec (concat h) fs maxLimit out.
Proof. exact query_correct_history. Qed.
Print Assumptions C06_query_correct_core.

(** the property: every batch history of gate-valid events with functional
    ids, every non-empty list of gate-valid filters (limit 0, extra tag
    elements in deletion requests included) *)
Theorem C06_query_correct :
  forall (xx : Z -> str -> Z) (md5 : str -> str) seed (h : list (list event)) fs maxLimit,
  no_collision xx md5 seed (concat h) fs ->
  gate_valid (concat h) -> ids_functional (concat h) ->
  e_refs_canonical (concat h) = true -> a_refs_scoped (concat h) = true ->
  fs <> [] -> Forall (fun f => gate_valid_filter f = true) fs -> 0 < maxLimit <= NoLimit ->
  exists out, query (run seed empty_db h) fs maxLimit = Some out /\ query_spec (concat h) fs maxLimit out.
Proof. exact query_correct. Qed.
Print Assumptions C06_query_correct.

Theorem C06_k5_counted_always : forall es, k5_counted es.
Proof. exact k5_counted_always. Qed.

Theorem C06_limits_agree_always : forall fs maxLimit,
  Forall (fun f => gate_valid_filter f = true) fs -> 0 < maxLimit <= NoLimit -> limits_agree fs maxLimit.
Proof. exact limits_agree_always. Qed.

(** the hypotheses are satisfiable; the former witnesses of F6 / F7 behave as specified *)
Example C06_query_correct_example :
  let h := [[w_meta1; w_note]; [w_del3]] in
  gate_valid (concat h) /\ ids_functional (concat h) /\
  e_refs_canonical (concat h) = true /\ a_refs_scoped (concat h) = true /\
  query (run 0 empty_db h) [f_all; f_limit0] NoLimit = Some [w_del3; w_meta1].
Proof. exact query_correct_example. Qed.

Example C06_limit0_selects_nothing : query (run 0 empty_db [[w_note]]) [f_limit0] NoLimit = Some [].
Proof. exact limit0_selects_nothing. Qed.

Example C06_three_element_tag_deletes :
  query (run 0 empty_db [[w_note; w_del3]]) [f_all] NoLimit = Some [w_del3].
Proof. exact three_element_tag_deletes. Qed.

(** the boolean oracle used by the correspondence run reflects the specification *)
Theorem C06_storedb_is_stored : forall es x, storedb es x = true <-> stored es x.
Proof. exact storedb_spec. Qed.
Theorem C06_deletedb_is_deleted : forall es x, deletedb es x = true <-> deleted es x.
Proof. exact deletedb_spec. Qed.
Theorem C06_live_list_is_live : forall es x, In x (live_list es) <-> live es x.
Proof. exact live_list_spec. Qed.
Print Assumptions C06_live_list_is_live.

(** the merge test of the oracle decides the merge statement of [query_spec]
    (duplicate-free candidate lists, non-negative limits), whether or not the
    outer limit cuts the merged answer *)
Theorem C06_union_topn_ok_spec : forall cands, cands_ok cands -> forall outer out,
  (union_topn_ok cands outer out = true <-> union_spec cands outer out).
Proof. exact union_topn_ok_spec. Qed.
Print Assumptions C06_union_topn_ok_spec.

(** hence the oracle applied to every observed answer decides the property's
    statement: it never accepts an answer the property forbids and never
    rejects one it allows *)
Theorem C06_oracle_exact : forall es fs maxLimit out,
  Forall (fun f => gate_valid_filter f = true) fs -> 0 <= maxLimit ->
  (query_specb es fs maxLimit out = true <-> query_spec es fs maxLimit out).
Proof. exact oracle_exact. Qed.
Print Assumptions C06_oracle_exact.

(** and it accepts the model's answer under the hypotheses of
    [C06_query_correct], for every history and every filter list *)
Theorem C06_model_satisfies_oracle :
  forall (xx : Z -> str -> Z) (md5 : str -> str) seed (h : list (list event)) fs maxLimit,
  no_collision xx md5 seed (concat h) fs ->
  gate_valid (concat h) -> ids_functional (concat h) ->
  e_refs_canonical (concat h) = true -> a_refs_scoped (concat h) = true ->
  fs <> [] -> Forall (fun f => gate_valid_filter f = true) fs -> 0 < maxLimit <= NoLimit ->
  exists out, query (run seed empty_db h) fs maxLimit = Some out /\
              query_specb (concat h) fs maxLimit out = true.
Proof. exact model_satisfies_oracle. Qed.
Print Assumptions C06_model_satisfies_oracle.

(** the model side of the correspondence run accepts the model's own answer:
    an implementation that answers as the model shows no model difference *)
Theorem C06_model_accepts_own_answer : forall s fs ml,
  model_accepts s fs ml (match query s fs ml with Some q => QOk q | None => QErr end) = true.
Proof. exact model_accepts_own_answer. Qed.

(** the store as the implementation keeps it (64-bit keys [key64 xx k], tag
    hashes [md5 s]; SqlHashed.v): if [xx] and [md5] do not collide on what the
    history and the filter list mention, its tables are the image of the
    model's tables and every query has the same answer on both *)
Theorem C06_hashed_store_refines :
  forall (xx : Z -> str -> Z) (md5 : str -> str) seed (h : list (list event)) fs maxLimit,
  no_collision xx md5 seed (concat h) fs ->
  run_h xx md5 seed empty_db h = hash_db xx md5 (run seed empty_db h) /\
  query_h md5 (run_h xx md5 seed empty_db h) fs maxLimit = query (run seed empty_db h) fs maxLimit.
Proof. exact hashed_store_refines. Qed.
Print Assumptions C06_hashed_store_refines.

(** hence the property holds of the hashed store; [no_collision] is used here *)
Theorem C06_hashed_query_correct :
  forall (xx : Z -> str -> Z) (md5 : str -> str) seed (h : list (list event)) fs maxLimit,
  no_collision xx md5 seed (concat h) fs ->
  gate_valid (concat h) -> ids_functional (concat h) ->
  e_refs_canonical (concat h) = true -> a_refs_scoped (concat h) = true ->
  fs <> [] -> Forall (fun f => gate_valid_filter f = true) fs -> 0 < maxLimit <= NoLimit ->
  exists out, query_h md5 (run_h xx md5 seed empty_db h) fs maxLimit = Some out /\
              query_spec (concat h) fs maxLimit out.
Proof. exact hashed_query_correct. Qed.
Print Assumptions C06_hashed_query_correct.

(** [no_collision] is satisfiable (an injective encoding in place of xxHash32,
    the identity in place of MD5), and the hashed store then answers as the model *)
Example C06_no_collision_example :
  no_collision ex_xx (fun s => s) 0 (concat [[w_meta1; w_note]; [w_del3]]) [f_all; f_limit0].
Proof. exact no_collision_example. Qed.

Example C06_hashed_query_example :
  query_h (fun s => s) (run_h ex_xx (fun s => s) 0 empty_db [[w_meta1; w_note]; [w_del3]]) [f_all; f_limit0] NoLimit
  = Some [w_del3; w_meta1].
Proof. exact hashed_query_example. Qed.

(** text pinning: the SQL the model was written for is the SQL in /repo *)
Theorem C06_sql_text_insert_events : g_sql_text_insert_events = pinned_insert_events.
Proof. exact sql_text_pinned_insert_events. Qed.
Theorem C06_sql_text_insert_payloads : g_sql_text_insert_payloads = pinned_insert_payloads.
Proof. exact sql_text_pinned_insert_payloads. Qed.
Theorem C06_sql_text_insert_tags : g_sql_text_insert_tags = pinned_insert_tags.
Proof. exact sql_text_pinned_insert_tags. Qed.
Theorem C06_sql_text_insert_dkeys : g_sql_text_insert_dkeys = pinned_insert_dkeys.
Proof. exact sql_text_pinned_insert_dkeys. Qed.
Theorem C06_sql_text_insert_dids : g_sql_text_insert_dids = pinned_insert_dids.
Proof. exact sql_text_pinned_insert_dids. Qed.
Theorem C06_sql_text_ddls : g_sql_text_ddls = pinned_ddls.
Proof. exact sql_text_pinned_ddls. Qed.
