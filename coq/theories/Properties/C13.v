(* C13 — Sessions always terminate and release everything when the peer goes away.
   Statements only; each is closed by [exact] of a lemma proved in ProcProofs.v /
   SessionProofs.v and followed by Print Assumptions.

   PARTIAL: what is proved is about the process-network model of Proc.v / Session.v, tied to the
   source by C13_blocking_points_covered.  Not proved: that a [select] which keeps preferring other
   ready cases over ctx.Done() terminates (Go's select is fair), promptness, the Go runtime, timers,
   database/sql and the WebSocket library. *)
From Moc Require Import Base Proc ProcProofs Session SessionProofs.
From Coq Require String.
From Moc Require Import LockOrder LockOrderProofs.
From Moc.Gen Require Import GenSession GenLockOrder.
Import ListNotations.
Import String.StringSyntax.
Open Scope nat_scope.

(** ** Generic: guarded networks after cancellation *)

(** In every reachable state in which the root context is cancelled, a live process is never stuck:
    it has an enabled step of its own, or it waits in a join for a live process of smaller rank, or
    it waits for a token whose holder sits at the put and can complete it. *)
Theorem C13_no_stuck_after_cancel : forall root N st pr,
  guarded root N -> reachable N st -> st_fl st root = true ->
  In pr N -> live st pr -> waits_ok N st pr.
Proof. exact no_stuck_after_cancel. Qed.
Print Assumptions C13_no_stuck_after_cancel.

(** Solo exit path: once the processes of smaller rank have exited and nobody else holds a token,
    a process reaches Exit by steps of its own only, at most pr_meas of them. *)
Theorem C13_solo_exit_path : forall root N, guarded root N ->
  forall m pr st, pr_meas pr (st_pc st (pr_id pr)) <= m -> In pr N ->
  reachable N st -> st_fl st root = true ->
  lower_exited N st pr -> no_foreign_holder N st pr ->
  exists k st', solo_run N pr k st st' /\ k <= pr_meas pr (st_pc st (pr_id pr)) /\ at_instr st' pr = Exit.
Proof. exact solo_exit_path. Qed.
Print Assumptions C13_solo_exit_path.

(** The whole network can finish, within total_meas steps ... *)
Theorem C13_all_can_finish : forall root N, guarded root N ->
  forall m st, total_meas N st <= m -> reachable N st -> st_fl st root = true ->
  exists k st', steps N k st st' /\ k <= total_meas N st /\ all_exited N st' /\ reachable N st'.
Proof. exact can_finish_after_cancel. Qed.
Print Assumptions C13_all_can_finish.

(** ... which is linear in the number of processes. *)
Theorem C13_finish_linear : forall N st M,
  (forall pr k, In pr N -> pr_meas pr k <= M) -> total_meas N st <= length N * M.
Proof. exact total_meas_linear. Qed.
Print Assumptions C13_finish_linear.

(** ** Every provided composition is guarded *)
(** default, cache, router, SQLite, merge of any n >= 2 sessions, any stack of middlewares, together
    with any environment (peer reading or not, whoever cancels, at any moment) *)
Theorem C13_session_guarded : forall root c E,
  wf_comp c -> env_ok root E -> guarded root (session root c ++ E).
Proof. exact session_env_guarded. Qed.
Print Assumptions C13_session_guarded.

Theorem C13_relay_conn_guarded : forall root r sock c,
  is_prefix root r -> wf_comp c -> guarded root (relay_conn r sock c).
Proof. exact relay_conn_guarded. Qed.
Print Assumptions C13_relay_conn_guarded.

(** the concrete peers: a client sending any m messages (then closing the inbound channel or not),
    a canceller acting at any moment, a draining peer or none (stalled) *)
Theorem C13_peers_are_environment : forall root m closes (draining : bool),
  env_ok root (feeder root m closes :: canceller root :: (if draining then [drainer root] else [])).
Proof. exact peers_env_ok. Qed.
Print Assumptions C13_peers_are_environment.

Theorem C13_session_exits_on_cancel : forall root c E st,
  wf_comp c -> env_ok root E ->
  reachable (session root c ++ E) st -> st_fl st root = true ->
  exists k st', steps (session root c ++ E) k st st'
    /\ k <= total_meas (session root c ++ E) st
    /\ all_exited (session root c ++ E) st'.
Proof. exact session_exits_on_cancel. Qed.
Print Assumptions C13_session_exits_on_cancel.

Theorem C13_session_not_stuck : forall root c E st pr,
  wf_comp c -> env_ok root E ->
  reachable (session root c ++ E) st -> st_fl st root = true ->
  In pr (session root c ++ E) -> live st pr -> waits_ok (session root c ++ E) st pr.
Proof. exact session_not_stuck. Qed.
Print Assumptions C13_session_not_stuck.

(** ** Inbound channel closed *)
(** whichever goroutine of the outermost component returns first cancels the component's own
    context (root ++ [0]); from then on the session can finish whatever the peer does *)
Theorem C13_derived_cancel_finishes : forall root c E st,
  wf_comp c -> derives c -> env_ok root E ->
  reachable (session root c ++ E) st -> st_fl st (root ++ [0]) = true ->
  exists k st', steps (session root c ++ E) k st st'
    /\ k <= total_meas (session root c ++ E) st
    /\ forall pr, In pr (session root c) -> at_instr st' pr = Exit.
Proof. exact derived_cancel_finishes. Qed.
Print Assumptions C13_derived_cancel_finishes.

(** closing the inbound channel while the outermost reader is at its loop head leads to exit *)
Theorem C13_recv_close_terminates : forall root c E st,
  wf_comp c -> env_ok root E ->
  reachable (session root c ++ E) st -> recv_closed st ->
  st_pc st (pr_id (top_reader root c)) = 0 ->
  exists k st', steps (session root c ++ E) k st st'
    /\ forall pr, In pr (session root c) -> at_instr st' pr = Exit.
Proof. exact recv_close_terminates. Qed.
Print Assumptions C13_recv_close_terminates.

(** ** Nothing of the session remains *)
Theorem C13_router_registry_released : forall g r ops,
  Forall (fun o => rop_conn o <> r) ops ->
  reg_get r (reg_run (reg_step g (RUnsubscribeAll r)) ops) = None.
Proof. exact router_registry_released. Qed.
Print Assumptions C13_router_registry_released.

Theorem C13_router_registry_isolated : forall g r r' ops,
  r' <> r -> Forall (fun o => rop_conn o = r) ops -> reg_get r' (reg_run g ops) = reg_get r' g.
Proof. exact router_registry_isolated. Qed.

Theorem C13_router_exit_unsubscribes : forall p ctx snd rcv b k n,
  In n (succs (router_main_code p ctx snd rcv b k)) ->
  router_main_code p ctx snd rcv b n = Exit -> k = 4.
Proof. exact router_exit_unsubscribes. Qed.

Theorem C13_gauges_restored : forall st0 r body,
  reg_get r (g_map st0) = None -> Forall (g_body_op r) body ->
  g_run st0 (GStart r :: body ++ [GEnd r]) = st0.
Proof. exact gauges_restored. Qed.
Print Assumptions C13_gauges_restored.

Theorem C13_gauges_entry_released : forall st r ops,
  Forall (fun o => gop_conn o <> r) ops ->
  reg_get r (g_map st) <> None ->
  reg_get r (g_map (g_run (g_step st (GEnd r)) ops)) = None.
Proof. exact gauges_entry_released. Qed.

Theorem C13_middleware_exit_runs_end : forall p ctx inner k n,
  In n (succs (mw_main_code p ctx inner k)) -> mw_main_code p ctx inner n = Exit -> k = 4.
Proof. exact mw_exit_runs_end. Qed.

(** ** The tie to the source *)
Theorem C13_blocking_points_covered : covers = true.
Proof. exact covers_ok. Qed.
Print Assumptions C13_blocking_points_covered.

(** ** Example: the composition of cmd/mocrelay/main.go meets the hypotheses *)
Example C13_example_production :
  wf_comp prod_comp
  /\ guarded [5] (session [5] prod_comp ++ [feeder [5] 3 true; canceller [5]; drainer [5]])
  /\ length (session [5] prod_comp) = 15.
Proof. exact (conj prod_wf (conj prod_guarded prod_size)). Qed.

(** The write and ping deadlines are applied whenever a send timeout is configured, whatever the
    other relay options are (the guards are regenerated from relay.go on every run; before the
    repair of F5 they tested PingDuration > 0 and this theorem was refuted by ping = 0). *)
Lemma g_write_deadline_guard_spec ping st : g_write_deadline_guard ping st = (st >? 0)%Z.
Proof. reflexivity. Qed.

Lemma g_ping_deadline_guard_spec ping st : g_ping_deadline_guard ping st = (st >? 0)%Z.
Proof. reflexivity. Qed.

Theorem C13_write_deadline_always : forall ping st, (st > 0)%Z -> g_write_deadline_guard ping st = true.
Proof. intros ping st H. rewrite g_write_deadline_guard_spec. apply Z.gtb_lt. lia. Qed.
Print Assumptions C13_write_deadline_always.

Theorem C13_ping_deadline_always : forall ping st, (st > 0)%Z -> g_ping_deadline_guard ping st = true.
Proof. intros ping st H. rewrite g_ping_deadline_guard_spec. apply Z.gtb_lt. lia. Qed.
Print Assumptions C13_ping_deadline_always.

(** ** No deadlock among the locks of the shared stores (LockOrder.v) *)
(** The process-network theorems above treat a critical section as one step; this section is about
    the waits for the locks themselves: the router registry subs.subs (a safeMap of safeMaps),
    EventCache.mu and the per-session mutex of the max-subscriptions middleware.  The model has any
    number of threads and locks and the writer preference of sync.RWMutex (a queued writer blocks
    later readers).  Not proved: that the Go code acquires locks only where the syntactic
    translator (gen/anchors_lockorder.go) sees an acquisition. *)

(** the tie to the source: every place where a lock is acquired while another one is held goes
    strictly upward in the level order with known levels, and no blocking operation (channel
    send/receive, select without default, sendCtx-style helper, ...) happens with a lock held *)
Theorem C13_lock_order_table_ok : lock_order_ok g_lock_nest = true.
Proof. exact lock_order_table_ok. Qed.
Print Assumptions C13_lock_order_table_ok.

Theorem C13_no_blocking_under_lock_table : g_lock_blocking_under_lock = [].
Proof. exact lock_blocking_table_empty. Qed.
Print Assumptions C13_no_blocking_under_lock_table.

(** a program that, with locks held, requests only what a table satisfying the obligation lists
    reaches only disciplined states (whoever waits, waits strictly above everything it holds) ... *)
Theorem C13_lock_discipline_invariant : forall lv tbl blk s s',
  lock_order_ok tbl = true -> lo_disciplined lv s -> lo_steps lv tbl blk s s' -> lo_disciplined lv s'.
Proof. exact lo_steps_disciplined. Qed.
Print Assumptions C13_lock_discipline_invariant.

(** ... in particular with the tables extracted from the source, from the initial state; and nobody
    is blocked outside the locks while it holds one *)
Theorem C13_lock_discipline_of_source : forall lv s,
  lo_steps lv g_lock_nest g_lock_blocking_under_lock lo_init s ->
  lo_disciplined lv s /\ lo_no_block_under_lock s.
Proof. exact lo_program_invariant. Qed.
Print Assumptions C13_lock_discipline_of_source.

(** the general theorem: a disciplined state has no wait-for cycle (t1 waits for a lock held by -
    or, the mutex preferring writers, queued for in write mode before it by - t2, ..., tk waits for
    t1), by the strict increase of (level, arrival) along the chain *)
Theorem C13_no_lock_cycle : forall lv s, lo_disciplined lv s -> ~ lo_wait_cycle s.
Proof. exact lo_no_wait_cycle. Qed.
Print Assumptions C13_no_lock_cycle.

(** the same for the exact relation of sync.RWMutex (readers do not block readers) *)
Theorem C13_no_lock_cycle_rwmutex : forall lv s, lo_disciplined lv s -> ~ lo_wait_cycle_rw s.
Proof. exact lo_no_wait_cycle_rw. Qed.
Print Assumptions C13_no_lock_cycle_rwmutex.

(** no deadlocked set: in every non-empty set of threads somebody is not blocked by a member *)
Theorem C13_no_deadlocked_set : forall lv s S, lo_disciplined lv s -> ~ lo_deadlocked_set s S.
Proof. exact lo_no_deadlocked_set. Qed.
Print Assumptions C13_no_deadlocked_set.

(** progress: if S lists the threads that wait for a lock, one of them is blocked only by threads
    that run (they neither wait for a lock nor sit in a blocking operation) *)
Theorem C13_lock_wait_progress : forall lv s S,
  lo_disciplined lv s -> lo_no_block_under_lock s -> S <> [] ->
  (forall t, In t S <-> exists w, lot_wait (s t) = Some w) ->
  exists t, In t S /\ forall u, lo_blocked_by s t u -> lot_wait (s u) = None /\ lot_ext (s u) = false.
Proof. exact lo_wait_progress. Qed.
Print Assumptions C13_lock_wait_progress.

Theorem C13_registry_never_deadlocks : forall lv s,
  lo_steps lv g_lock_nest g_lock_blocking_under_lock lo_init s ->
  ~ lo_wait_cycle s /\ ~ lo_wait_cycle_rw s /\ forall S, ~ lo_deadlocked_set s S.
Proof. exact lo_program_no_deadlock. Qed.
Print Assumptions C13_registry_never_deadlocks.

(** the theorem has teeth.  The inversion "Unsubscribe holds a connection's map and asks for the
    registry while Publish holds the registry and asks for the map" is a cycle of the exact mutex
    relation, no assignment of levels makes it disciplined, and its table entry is rejected *)
Example C13_example_lock_inversion :
  lo_wait_cycle_rw lo_ex_inversion /\
  (forall lv, ~ lo_disciplined lv lo_ex_inversion) /\
  lock_order_ok [(lo_name "subscribers.Unsubscribe", (1, 0, 2))%Z] = false.
Proof. exact (conj lo_ex_inversion_cycle (conj lo_ex_inversion_undisciplined lo_ex_inversion_table)). Qed.

(** a reader that asks for its read lock again (findNeedLock calling Len) behind a queued writer:
    a cycle; without the writer nobody blocks it - the writer preference is what makes it deadly *)
Example C13_example_reentrant_read_lock :
  lo_wait_cycle_rw lo_ex_reentrant /\
  (forall lv, ~ lo_disciplined lv lo_ex_reentrant) /\
  lock_order_ok [(lo_name "EventCache.findNeedLock", (10, 10, 1))%Z] = false /\
  (forall u, ~ lo_blocked_by_rw lo_ex_reentrant_alone 0 u).
Proof.
  exact (conj lo_ex_reentrant_cycle (conj lo_ex_reentrant_undisciplined
          (conj lo_ex_reentrant_table lo_ex_reentrant_alone_free))).
Qed.

(** a nesting whose level the translator cannot derive is rejected, not accepted *)
Example C13_example_unknown_level_rejected :
  lock_order_ok [(lo_name "f", (0, -1, 2))%Z] = false /\ lock_order_ok [(lo_name "f", (-1, 1, 1))%Z] = false.
Proof. exact lo_ex_unknown_table. Qed.

(** the hypotheses are satisfiable: with the nesting of Publish a publisher reaches the state in
    which it holds the registry and waits for a connection's map while an UnsubscribeAll is queued
    for the registry in write mode; that state is disciplined *)
Example C13_example_publish_nesting_reachable :
  lock_order_ok lo_ex_publish_table = true /\
  exists s, lo_steps lo_ex_lv lo_ex_publish_table [] lo_init s /\
            lot_held (s 0) = [(0, LoRd)] /\
            lot_wait (s 0) = Some (mkLoWait 1 LoRd 3) /\
            lot_wait (s 1) = Some (mkLoWait 0 LoWr 2) /\
            lo_disciplined lo_ex_lv s.
Proof. exact lo_ex_publish_reachable. Qed.
