(* C13 — Sessions always terminate and release everything when the peer goes away.
   Statements only; each is closed by [exact] of a lemma proved in ProcProofs.v /
   SessionProofs.v and followed by Print Assumptions.

   PARTIAL: what is proved is about the process-network model of Proc.v / Session.v, tied to the
   source by C13_blocking_points_covered.  Not proved: that a [select] which keeps preferring other
   ready cases over ctx.Done() terminates (Go's select is fair), promptness, the Go runtime, timers,
   database/sql and the WebSocket library. *)
From Moc Require Import Base Proc ProcProofs Session SessionProofs.
From Moc.Gen Require Import GenSession.
Import ListNotations.
Open Scope nat_scope.

(** ** Generic: guarded networks after cancellation *)

(** In every reachable state in which the root context is cancelled, a live process is never stuck:
    it has an enabled step of its own, or it waits in a join for a live process of smaller rank, or
    it waits for a token whose holder sits at the put and can complete it. *)
Theorem C13_no_stuck_after_cancel : forall root N st pr,
  guarded root N -> reachable N st -> st_fl st root = true ->
  In pr N -> live st pr -> waits_ok N st pr.
Proof. exact no_stuck_after_cancel. Qed.
Print Assumptions C13_no_stuck_after_cancel.

(** Solo exit path: once the processes of smaller rank have exited and nobody else holds a token,
    a process reaches Exit by steps of its own only, at most pr_meas of them. *)
Theorem C13_solo_exit_path : forall root N, guarded root N ->
  forall m pr st, pr_meas pr (st_pc st (pr_id pr)) <= m -> In pr N ->
  reachable N st -> st_fl st root = true ->
  lower_exited N st pr -> no_foreign_holder N st pr ->
  exists k st', solo_run N pr k st st' /\ k <= pr_meas pr (st_pc st (pr_id pr)) /\ at_instr st' pr = Exit.
Proof. exact solo_exit_path. Qed.
Print Assumptions C13_solo_exit_path.

(** The whole network can finish, within total_meas steps ... *)
Theorem C13_all_can_finish : forall root N, guarded root N ->
  forall m st, total_meas N st <= m -> reachable N st -> st_fl st root = true ->
  exists k st', steps N k st st' /\ k <= total_meas N st /\ all_exited N st' /\ reachable N st'.
Proof. exact can_finish_after_cancel. Qed.
Print Assumptions C13_all_can_finish.

(** ... which is linear in the number of processes. *)
Theorem C13_finish_linear : forall N st M,
  (forall pr k, In pr N -> pr_meas pr k <= M) -> total_meas N st <= length N * M.
Proof. exact total_meas_linear. Qed.
Print Assumptions C13_finish_linear.

(** ** Every provided composition is guarded *)
(** default, cache, router, SQLite, merge of any n >= 2 sessions, any stack of middlewares, together
    with any environment (peer reading or not, whoever cancels, at any moment) *)
Theorem C13_session_guarded : forall root c E,
  wf_comp c -> env_ok root E -> guarded root (session root c ++ E).
Proof. exact session_env_guarded. Qed.
Print Assumptions C13_session_guarded.

Theorem C13_relay_conn_guarded : forall root r sock c,
  is_prefix root r -> wf_comp c -> guarded root (relay_conn r sock c).
Proof. exact relay_conn_guarded. Qed.
Print Assumptions C13_relay_conn_guarded.

(** the concrete peers: a client sending any m messages (then closing the inbound channel or not),
    a canceller acting at any moment, a draining peer or none (stalled) *)
Theorem C13_peers_are_environment : forall root m closes (draining : bool),
  env_ok root (feeder root m closes :: canceller root :: (if draining then [drainer root] else [])).
Proof. exact peers_env_ok. Qed.
Print Assumptions C13_peers_are_environment.

Theorem C13_session_exits_on_cancel : forall root c E st,
  wf_comp c -> env_ok root E ->
  reachable (session root c ++ E) st -> st_fl st root = true ->
  exists k st', steps (session root c ++ E) k st st'
    /\ k <= total_meas (session root c ++ E) st
    /\ all_exited (session root c ++ E) st'.
Proof. exact session_exits_on_cancel. Qed.
Print Assumptions C13_session_exits_on_cancel.

Theorem C13_session_not_stuck : forall root c E st pr,
  wf_comp c -> env_ok root E ->
  reachable (session root c ++ E) st -> st_fl st root = true ->
  In pr (session root c ++ E) -> live st pr -> waits_ok (session root c ++ E) st pr.
Proof. exact session_not_stuck. Qed.
Print Assumptions C13_session_not_stuck.

(** ** Inbound channel closed *)
(** whichever goroutine of the outermost component returns first cancels the component's own
    context (root ++ [0]); from then on the session can finish whatever the peer does *)
Theorem C13_derived_cancel_finishes : forall root c E st,
  wf_comp c -> derives c -> env_ok root E ->
  reachable (session root c ++ E) st -> st_fl st (root ++ [0]) = true ->
  exists k st', steps (session root c ++ E) k st st'
    /\ k <= total_meas (session root c ++ E) st
    /\ forall pr, In pr (session root c) -> at_instr st' pr = Exit.
Proof. exact derived_cancel_finishes. Qed.
Print Assumptions C13_derived_cancel_finishes.

(** closing the inbound channel while the outermost reader is at its loop head leads to exit *)
Theorem C13_recv_close_terminates : forall root c E st,
  wf_comp c -> env_ok root E ->
  reachable (session root c ++ E) st -> recv_closed st ->
  st_pc st (pr_id (top_reader root c)) = 0 ->
  exists k st', steps (session root c ++ E) k st st'
    /\ forall pr, In pr (session root c) -> at_instr st' pr = Exit.
Proof. exact recv_close_terminates. Qed.
Print Assumptions C13_recv_close_terminates.

(** ** Nothing of the session remains *)
Theorem C13_router_registry_released : forall g r ops,
  Forall (fun o => rop_conn o <> r) ops ->
  reg_get r (reg_run (reg_step g (RUnsubscribeAll r)) ops) = None.
Proof. exact router_registry_released. Qed.
Print Assumptions C13_router_registry_released.

Theorem C13_router_registry_isolated : forall g r r' ops,
  r' <> r -> Forall (fun o => rop_conn o = r) ops -> reg_get r' (reg_run g ops) = reg_get r' g.
Proof. exact router_registry_isolated. Qed.

Theorem C13_router_exit_unsubscribes : forall p ctx snd rcv b k n,
  In n (succs (router_main_code p ctx snd rcv b k)) ->
  router_main_code p ctx snd rcv b n = Exit -> k = 4.
Proof. exact router_exit_unsubscribes. Qed.

Theorem C13_gauges_restored : forall st0 r body,
  reg_get r (g_map st0) = None -> Forall (g_body_op r) body ->
  g_run st0 (GStart r :: body ++ [GEnd r]) = st0.
Proof. exact gauges_restored. Qed.
Print Assumptions C13_gauges_restored.

Theorem C13_gauges_entry_released : forall st r ops,
  Forall (fun o => gop_conn o <> r) ops ->
  reg_get r (g_map st) <> None ->
  reg_get r (g_map (g_run (g_step st (GEnd r)) ops)) = None.
Proof. exact gauges_entry_released. Qed.

Theorem C13_middleware_exit_runs_end : forall p ctx inner k n,
  In n (succs (mw_main_code p ctx inner k)) -> mw_main_code p ctx inner n = Exit -> k = 4.
Proof. exact mw_exit_runs_end. Qed.

(** ** The tie to the source *)
Theorem C13_blocking_points_covered : covers = true.
Proof. exact covers_ok. Qed.
Print Assumptions C13_blocking_points_covered.

(** ** Example: the composition of cmd/mocrelay/main.go meets the hypotheses *)
Example C13_example_production :
  wf_comp prod_comp
  /\ guarded [5] (session [5] prod_comp ++ [feeder [5] 3 true; canceller [5]; drainer [5]])
  /\ length (session [5] prod_comp) = 15.
Proof. exact (conj prod_wf (conj prod_guarded prod_size)). Qed.

(** The write and ping deadlines are applied whenever a send timeout is configured, whatever the
    other relay options are (the guards are regenerated from relay.go on every run; before the
    repair of F5 they tested PingDuration > 0 and this theorem was refuted by ping = 0). *)
Lemma g_write_deadline_guard_spec ping st : g_write_deadline_guard ping st = (st >? 0)%Z.
Proof. reflexivity. Qed.

Lemma g_ping_deadline_guard_spec ping st : g_ping_deadline_guard ping st = (st >? 0)%Z.
Proof. reflexivity. Qed.

Theorem C13_write_deadline_always : forall ping st, (st > 0)%Z -> g_write_deadline_guard ping st = true.
Proof. intros ping st H. rewrite g_write_deadline_guard_spec. apply Z.gtb_lt. lia. Qed.
Print Assumptions C13_write_deadline_always.

Theorem C13_ping_deadline_always : forall ping st, (st > 0)%Z -> g_ping_deadline_guard ping st = true.
Proof. intros ping st H. rewrite g_ping_deadline_guard_spec. apply Z.gtb_lt. lia. Qed.
Print Assumptions C13_ping_deadline_always.

