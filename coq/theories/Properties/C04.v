(* C04 — In-memory store retention: capacity, no duplicates, newest version
   wins.  Statements only; each is closed by [exact] of a lemma proved in
   CacheInvProofs.v / CacheAddProofs.v / CacheExamples.v and followed by
   Print Assumptions.

   Reading guide.  [c_add s e] is the model of [EventCache.Add]; [c_listing s]
   is what [Find([{}])] returns; [c_run cap h] is the store after the
   insertion history [h]; [Inv] is the representation invariant (CacheInv.v);
   [step_ok_c04] is the oracle the correspondence check applies to the real
   cache's consecutive listings (CacheSpec.v).

   Hypotheses.  [hist_ok h]: events of the history with equal ids are equal,
   ids and pubkeys contain no ':'.  [hist_ok5 h] adds (CacheHyp.v): the tags
   of deletion requests are well-shaped ([k5_wf]: an e tag carries an id, an
   a tag carries kind:pubkey:d) and no ephemeral event is referenced by a
   deletion request of its own author ([eph_unref]).  The two additions are
   necessary: [C04_side_conditions_needed].  [step_hyps s e] is the same for
   one step from an arbitrary state satisfying the invariant. *)
From Coq Require Import Permutation Sorted.
From Moc Require Import Base Match Cache CacheSpec CacheInv CacheHyp
  CacheFacts CacheInvProofs CacheAddProofs CacheExamples.
Open Scope Z_scope.

(* ------------------------------------------------------------------ *)
(** * The invariant holds in every reachable state *)

Theorem C04_inv_empty : forall cap, Inv (c_empty cap).
Proof. exact inv_empty. Qed.
Print Assumptions C04_inv_empty.

Theorem C04_inv_delete : forall s k, Inv s -> Inv (c_delete s k).
Proof. exact inv_delete. Qed.
Print Assumptions C04_inv_delete.

Theorem C04_inv_add : forall s e,
  Inv s -> ids_functional (e :: retained s) -> Inv (fst (c_add s e)).
Proof. exact inv_add. Qed.
Print Assumptions C04_inv_add.

Theorem C04_inv_reachable : forall cap h, hist_ok h -> Inv (c_run cap h).
Proof. exact inv_reachable. Qed.
Print Assumptions C04_inv_reachable.

(** the match-everything query is a scan of the created_at tree, which the
    invariant ties to the primary table *)
Theorem C04_listing_is_tree : forall s, Inv s -> c_listing s = c_tree s.
Proof. exact listing_is_tree. Qed.
Print Assumptions C04_listing_is_tree.

Theorem C04_listing_is_retained : forall s, Inv s -> Permutation (c_listing s) (retained s).
Proof. exact listing_perm. Qed.
Print Assumptions C04_listing_is_retained.

(* ------------------------------------------------------------------ *)
(** * Step-by-step refinement *)

(** every insertion, from any state satisfying the invariant, is a step the
    specification allows *)
Theorem C04_add_refines : forall s e,
  Inv s -> ids_functional (e :: retained s) ->
  key_wf e -> Forall key_wf (retained s) ->
  k5_wf e -> Forall k5_wf (retained s) ->
  eph_ok (c_listing s) e -> 1 <= c_cap s ->
  step_ok_c04 (c_cap s) (c_listing s) e (snd (c_add s e)) (c_listing (fst (c_add s e))) = true.
Proof. exact add_refines_c04. Qed.
Print Assumptions C04_add_refines.

(** along every admissible history, every consecutive pair of listings *)
Theorem C04_history_refines : forall cap h,
  hist_ok5 h -> 1 <= cap ->
  forall h1 e h2, h = h1 ++ e :: h2 ->
    step_ok_c04 cap (c_listing (c_run cap h1)) e (snd (c_add (c_run cap h1) e))
                (c_listing (c_run cap (h1 ++ [e]))) = true.
Proof. exact history_refines_c04. Qed.
Print Assumptions C04_history_refines.

(** the same in the form the correspondence check evaluates on the real cache *)
Theorem C04_run_refines : forall cap h,
  hist_ok5 h -> 1 <= cap -> run_steps_ok step_ok_c04 cap (c_empty cap) h = true.
Proof. exact run_refines_c04. Qed.
Print Assumptions C04_run_refines.

(** the prefixes of an admissible history satisfy the step hypotheses *)
Theorem C04_hist_step_hyps : forall cap h1 e h2,
  hist_ok5 (h1 ++ e :: h2) -> 1 <= cap -> step_hyps (c_run cap h1) e.
Proof. exact hist_step_hyps. Qed.
Print Assumptions C04_hist_step_hyps.

(* ------------------------------------------------------------------ *)
(** * What the oracle says, declaratively *)

(** [step_ok_c04 cap R e added R' = true] means exactly [step_c04 …]:
    at most [cap] events, no id twice, one event per address, nothing
    ephemeral; [added] iff not a duplicate, not older-or-equal than the
    retained version of its address, not suppressed; a rejected insertion
    changes nothing; an accepted one leaves the base set [in_base] (old
    listing plus the event, minus the replaced version, minus what the event
    deletes), less one event of minimal created_at when the base set exceeds
    the capacity. *)
Theorem C04_oracle_reading : forall cap R e added R',
  step_ok_c04 cap R e added R' = true <-> step_c04 cap R e added R'.
Proof. exact step_ok_c04_iff. Qed.
Print Assumptions C04_oracle_reading.

Theorem C04_oracle_base : forall R e x,
  In x (base_after R e) <->
  (In x R \/ (x = e /\ cls_ephemeral (ev_kind e) = false)) /\
  ~ (In x R /\ same_address x e = true) /\
  ~ (is_k5 e = true /\ ev_pk x = ev_pk e /\ refs e x = true).
Proof. exact base_after_In. Qed.
Print Assumptions C04_oracle_base.

Theorem C04_oracle_expected : forall R e,
  expected_added R e = true <->
  ~ (exists y, In y R /\ ev_id y = ev_id e) /\
  ~ (exists x, In x R /\ same_address x e = true /\ ev_ts e <= ev_ts x) /\
  ~ (exists d, In d R /\ ev_kind d = 5 /\ ev_pk d = ev_pk e /\ refs d e = true).
Proof. exact expected_added_spec. Qed.
Print Assumptions C04_oracle_expected.

(** the model's keys are the property's addresses: equal keys mean both
    regular with the same id, or the same address *)
Theorem C04_key_is_address : forall x y,
  key_wf x -> key_wf y ->
  GenMsg.g_event_type (ev_kind x) <> 3 -> GenMsg.g_event_type (ev_kind y) <> 3 ->
  event_key x = event_key y ->
  (GenMsg.g_event_type (ev_kind x) = 1 /\ GenMsg.g_event_type (ev_kind y) = 1 /\ ev_id x = ev_id y) \/
  same_address x y = true.
Proof. exact event_key_inj. Qed.
Print Assumptions C04_key_is_address.

Theorem C04_address_is_key : forall x y, same_address x y = true -> event_key x = event_key y.
Proof. exact same_address_key. Qed.
Print Assumptions C04_address_is_key.

(* ------------------------------------------------------------------ *)
(** * The clauses of the property *)

(** at most capacity events *)
Theorem C04_cap_bound : forall cap h,
  hist_ok h -> 1 <= cap -> Z.of_nat (length (c_listing (c_run cap h))) <= cap.
Proof. exact cap_bound. Qed.
Print Assumptions C04_cap_bound.

(** no id twice *)
Theorem C04_no_dup_ids : forall cap h,
  hist_ok h -> 1 <= cap -> NoDup (List.map ev_id (c_listing (c_run cap h))).
Proof. exact no_dup_ids. Qed.
Print Assumptions C04_no_dup_ids.

(** at most one event per replaceable / addressable address *)
Theorem C04_one_per_address : forall cap h,
  hist_ok h -> 1 <= cap ->
  forall x y, In x (c_listing (c_run cap h)) -> In y (c_listing (c_run cap h)) ->
              same_address x y = true -> x = y.
Proof. exact one_per_address_thm. Qed.
Print Assumptions C04_one_per_address.

(** ephemeral events are never served from storage *)
Theorem C04_ephemeral_never_served : forall cap h,
  hist_ok h -> 1 <= cap ->
  forall x, In x (c_listing (c_run cap h)) -> cls_ephemeral (ev_kind x) = false.
Proof. exact ephemeral_never_served. Qed.
Print Assumptions C04_ephemeral_never_served.

(** offering a newer version displaces the retained one *)
Theorem C04_newer_displaces : forall s e x,
  step_hyps s e ->
  In x (c_listing s) -> same_address x e = true -> ev_ts x < ev_ts e ->
  suppressed (c_listing s) e = false ->
  snd (c_add s e) = true /\ ~ In x (c_listing (fst (c_add s e))).
Proof. exact newer_displaces. Qed.
Print Assumptions C04_newer_displaces.

(** offering a version that is not newer never does: the store is unchanged
    and the insertion is reported as not new (needs the invariant and
    distinct ids only) *)
Theorem C04_older_never_displaces : forall s e x,
  Inv s -> ids_functional (e :: retained s) ->
  In x (c_listing s) -> same_address x e = true -> ev_ts e <= ev_ts x ->
  c_add s e = (s, false).
Proof. exact older_never_displaces. Qed.
Print Assumptions C04_older_never_displaces.

(** reported as new iff neither a duplicate, nor older than the retained
    version of its address, nor suppressed by a deletion request *)
Theorem C04_reported_new_iff : forall s e,
  step_hyps s e ->
  (snd (c_add s e) = true <->
   ~ (exists y, In y (c_listing s) /\ ev_id y = ev_id e) /\
   ~ (exists x, In x (c_listing s) /\ same_address x e = true /\ ev_ts e <= ev_ts x) /\
   ~ (exists d, In d (c_listing s) /\ ev_kind d = 5 /\ ev_pk d = ev_pk e /\ refs d e = true)).
Proof. exact reported_new_iff. Qed.
Print Assumptions C04_reported_new_iff.

(** an event leaves the store only as the replaced older version of the new
    event's address, as a target of the new deletion request of its own
    author, or as an event of minimal created_at when capacity is exceeded *)
Theorem C04_leaves_only_by : forall s e x,
  step_hyps s e -> In x (c_listing s) -> ~ In x (c_listing (fst (c_add s e))) ->
  snd (c_add s e) = true /\
  (same_address x e = true \/
   (ev_kind e = 5 /\ ev_pk x = ev_pk e /\ refs e x = true) \/
   (c_cap s < Z.of_nat (length (base_after (c_listing s) e)) /\ in_base (c_listing s) e x /\
    forall y, in_base (c_listing s) e y -> ev_ts x <= ev_ts y)).
Proof. exact leaves_only_by. Qed.
Print Assumptions C04_leaves_only_by.

(** nothing enters except the inserted event *)
Theorem C04_enters_only_e : forall s e x,
  Inv s -> ids_functional (e :: retained s) ->
  In x (retained (fst (c_add s e))) -> x = e \/ In x (retained s).
Proof. exact add_retained_sub. Qed.
Print Assumptions C04_enters_only_e.

(* ------------------------------------------------------------------ *)
(** * Non-vacuity: a history with a replacement, a rejected older version, a
      deletion, a blocked re-insertion, two evictions and an ephemeral event
      meets the hypotheses *)

Example C04_example_hist_ok : hist_ok5 ex_h /\ hist_ok ex_h.
Proof. exact (conj ex_h_ok ex_h_ok'). Qed.

Example C04_example_run :
  verdicts (c_empty 3) ex_h = [true; true; true; false; true; true; false; true; true; true] /\
  c_listing (c_run 3 [x_e1; x_r1; x_r2]) = [x_r2; x_e1] /\
  c_listing (c_run 3 [x_e1; x_r1; x_r2; x_r0; x_p1; x_d1]) = [x_d1; x_r2; x_p1] /\
  c_listing (c_run 3 [x_e1; x_r1; x_r2; x_r0; x_p1; x_d1; x_e1; x_b1]) = [x_b1; x_d1; x_r2] /\
  c_listing (c_run 3 ex_h) = [x_b2; x_b1; x_d1].
Proof. exact (conj ex_h_verdicts ex_h_listings). Qed.

(** hypotheses of [C04_add_refines] and of the step corollaries *)
Example C04_example_step_replace : step_hyps (c_run 3 [x_e1; x_r1]) x_r2.
Proof. exact ex_step_replace. Qed.
Example C04_example_step_delete : step_hyps (c_run 3 [x_e1; x_r1; x_r2; x_r0; x_p1]) x_d1.
Proof. exact ex_step_delete. Qed.
Example C04_example_step_evict : step_hyps (c_run 3 [x_e1; x_r1; x_r2; x_r0; x_p1; x_d1; x_e1]) x_b1.
Proof. exact ex_step_evict. Qed.

(** hypotheses of [C04_newer_displaces] *)
Example C04_example_newer :
  step_hyps (c_run 3 [x_e1; x_r1]) x_r2 /\ In x_r1 (c_listing (c_run 3 [x_e1; x_r1])) /\
  same_address x_r1 x_r2 = true /\ ev_ts x_r1 < ev_ts x_r2 /\
  suppressed (c_listing (c_run 3 [x_e1; x_r1])) x_r2 = false.
Proof.
  split; [exact ex_step_replace|]. split; [apply In_by_ev_in; vm_compute; reflexivity|].
  vm_compute. auto.
Qed.

(** hypotheses of [C04_older_never_displaces] *)
Example C04_example_older :
  step_hyps (c_run 3 [x_e1; x_r1; x_r2]) x_r0 /\ In x_r2 (c_listing (c_run 3 [x_e1; x_r1; x_r2])) /\
  same_address x_r2 x_r0 = true /\ ev_ts x_r0 <= ev_ts x_r2.
Proof.
  split; [exact ex_step_older|]. split; [apply In_by_ev_in; vm_compute; reflexivity|].
  split; [vm_compute; reflexivity | vm_compute; discriminate].
Qed.

(** hypotheses of [C04_leaves_only_by]: the eviction of [x_p1] *)
Example C04_example_leaves :
  step_hyps (c_run 3 [x_e1; x_r1; x_r2; x_r0; x_p1; x_d1; x_e1]) x_b1 /\
  In x_p1 (c_listing (c_run 3 [x_e1; x_r1; x_r2; x_r0; x_p1; x_d1; x_e1])) /\
  ~ In x_p1 (c_listing (fst (c_add (c_run 3 [x_e1; x_r1; x_r2; x_r0; x_p1; x_d1; x_e1]) x_b1))).
Proof.
  split; [exact ex_step_evict|]. split; [apply In_by_ev_in; vm_compute; reflexivity|].
  intro H. apply ev_in_In in H. vm_compute in H. discriminate.
Qed.

(* ------------------------------------------------------------------ *)
(** * The side conditions are needed

    Without [eph_ok] / [k5_wf] the refinement statement is false of the
    faithful model (and of the code): (1) the code accepts an ephemeral event
    before it looks at the deletion registry; (2)-(4) the code treats a and e
    tags alike and compares the value with the stored key and with the id. *)

Theorem C04_side_conditions_needed :
  (* (1) an ephemeral event named by a retained deletion request of its author *)
  (plain_hyps (c_run 5 [w1_d]) w1_x /\ k5_wf w1_x /\ Forall k5_wf (retained (c_run 5 [w1_d])) /\
   c_add (c_run 5 [w1_d]) w1_x = (c_run 5 [w1_d], true) /\
   suppressed (c_listing (c_run 5 [w1_d])) w1_x = true /\
   step_ok_c04 5 (c_listing (c_run 5 [w1_d])) w1_x true (c_listing (c_run 5 [w1_d])) = false /\
   step_ok_c05 5 (c_listing (c_run 5 [w1_d])) w1_x true (c_listing (c_run 5 [w1_d])) = false) /\
  (* (3) an e tag that carries an address *)
  (plain_hyps (c_run 5 [w3_d]) w3_x /\
   snd (c_add (c_run 5 [w3_d]) w3_x) = false /\ suppressed (c_listing (c_run 5 [w3_d])) w3_x = false /\
   step_ok_c04 5 (c_listing (c_run 5 [w3_d])) w3_x (snd (c_add (c_run 5 [w3_d]) w3_x))
               (c_listing (fst (c_add (c_run 5 [w3_d]) w3_x))) = false) /\
  (* (4) an a tag kind:pubkey (no trailing colon) against a replaceable event *)
  (plain_hyps (c_run 5 [w4_d]) w4_x /\
   snd (c_add (c_run 5 [w4_d]) w4_x) = false /\ suppressed (c_listing (c_run 5 [w4_d])) w4_x = false /\
   step_ok_c04 5 (c_listing (c_run 5 [w4_d])) w4_x (snd (c_add (c_run 5 [w4_d]) w4_x))
               (c_listing (fst (c_add (c_run 5 [w4_d]) w4_x))) = false).
Proof. exact (conj w1_refuted (conj w3_refuted w4_refuted)). Qed.
Print Assumptions C04_side_conditions_needed.
