(* C17 — Limit middlewares reject exactly the offending message and pass the
   rest as is; stacks; BuildMiddlewareFromNIP11.  Statements only; each is
   closed by [exact] of a lemma proved in MwProofs.v and followed by
   Print Assumptions.  Time is in whole seconds (the harness keeps created_at
   away from the moving boundary); created_at limits are assumed below
   2^63/10^9 s, where time.Duration(x)*time.Second does not wrap. *)
From Moc Require Import Base Msg Mw MwProofs.
Import String.StringSyntax.
Open Scope Z_scope.

(** the boolean form of "respects the limit" used by the oracle is the
    declarative one *)
Theorem C17_respectsb_is_spec : forall k now m, respectsb k now m = true <-> respects k now m.
Proof. exact respectsb_spec. Qed.
Print Assumptions C17_respectsb_is_spec.

(** [mw_iff]: each of the ten limit middlewares forwards a client message —
    the message itself — exactly when it respects the configured limit ... *)
Theorem C17_mw_iff : forall k now m,
  stateless k = true -> (mw_client k now m = Forward m <-> respects k now m).
Proof. exact mw_iff. Qed.
Print Assumptions C17_mw_iff.

Theorem C17_mw_forward_unchanged : forall k now m m', mw_client k now m = Forward m' -> m' = m.
Proof. exact mw_forward_unchanged. Qed.
Print Assumptions C17_mw_forward_unchanged.

(** ... and otherwise answers it, forwarding nothing (the result is a reply) *)
Theorem C17_mw_reject_iff : forall k now m,
  stateless k = true -> ((exists r, mw_client k now m = Reject r) <-> ~ respects k now m).
Proof. exact mw_reject_iff. Qed.
Print Assumptions C17_mw_reject_iff.

(** [mw_reject_shape]: the answer is the protocol's rejection for the type of
    the message: OK false with the event's id for EVENT, CLOSED with the
    subscription id for REQ and COUNT; no other type is ever answered *)
Theorem C17_mw_reject_shape : forall k now m r,
  mw_client k now m = Reject r ->
  match m with
  | CEvent e => exists p t, r = SOk (ev_id e) false p t
  | CReq sub _ | CCount sub _ => exists p t, r = SClosed sub p t
  | _ => False
  end.
Proof. exact mw_reject_shape. Qed.
Print Assumptions C17_mw_reject_shape.

(** the same for a step of any middleware in any state (quota and
    receive-side unique filter included) *)
Theorem C17_step_forward_or_reject : forall k now st m,
  (exists st', mw_client_step k now st m = (st', Forward m)) \/
  (exists st' r, mw_client_step k now st m = (st', Reject r) /\ reject_shape m r).
Proof. exact step_cases. Qed.
Print Assumptions C17_step_forward_or_reject.

(** [mw_other_pass]: client messages of the types a middleware is not about
    (CLOSE and AUTH for every limit; EVENT for the filter limits; REQ/COUNT for
    the event limits) pass unchanged and leave its state alone *)
Theorem C17_mw_other_pass : forall k now st m,
  concerns k m = false -> mw_client_step k now st m = (st, Forward m).
Proof. exact mw_other_pass. Qed.
Print Assumptions C17_mw_other_pass.

(** [mw_server_identity]: server messages pass every middleware unchanged
    (the send-side unique filter: everything but EVENT) *)
Theorem C17_mw_server_identity : forall k st s,
  (forall n, k <> SendUnique n) \/ smsg_is_event s = false -> mw_server_step k st s = (st, Some s).
Proof. exact mw_server_identity. Qed.
Print Assumptions C17_mw_server_identity.

(** [stack_conj], general form (any members, any states): a stack forwards a
    message iff every member in its current state would; it forwards the
    message itself and sends nothing to the client; otherwise the client gets
    exactly the reply of the outermost member that does not forward, the
    members inside it never see the message and nothing is forwarded *)
Theorem C17_stack_client_spec : forall now ls m,
  match stack_client now ls m with
  | (ls', Some m', rs) =>
      m' = m /\ rs = [] /\ Forall (fw now m) ls /\ ls' = List.map (adv now m) ls
  | (ls', None, rs) =>
      exists pre l post r,
        ls = pre ++ l :: post /\ Forall (fw now m) pre /\
        snd (mw_client_step (fst l) now (snd l) m) = Reject r /\ reject_shape m r /\
        rs = [r] /\ ls' = List.map (adv now m) pre ++ adv now m l :: post
  end.
Proof. exact stack_client_spec. Qed.
Print Assumptions C17_stack_client_spec.

(** [stack_conj] for stacks of limit middlewares, in terms of the limits *)
Theorem C17_stack_conj : forall now ks m,
  Forall (fun k => stateless k = true) ks ->
  (stack_client now (stack_init ks) m = (stack_init ks, Some m, []) <->
   Forall (fun k => respects k now m) ks) /\
  (~ Forall (fun k => respects k now m) ks ->
   exists pre k post r,
     ks = pre ++ k :: post /\ Forall (fun k => respects k now m) pre /\ ~ respects k now m /\
     mw_client k now m = Reject r /\ reject_shape m r /\
     stack_client now (stack_init ks) m = (stack_init ks, None, [r])).
Proof. exact stack_conj. Qed.
Print Assumptions C17_stack_conj.

(** over every history of client and server messages: what reaches the
    wrapped handler is the sequence of respected client messages, unchanged and
    in order; every other client message is answered exactly once by the
    outermost violated limit; server messages pass unchanged and in order *)
Theorem C17_stack_run : forall now ks h,
  Forall (fun k => stateless k = true) ks ->
  sess_run now (stack_init ks) h = (stack_init ks, List.map (stateless_obs ks now) h).
Proof. exact stack_stateless_run. Qed.
Print Assumptions C17_stack_run.

Theorem C17_stack_forwarded_in_order : forall now ks ms,
  Forall (fun k => stateless k = true) ks ->
  List.concat (List.map fst (snd (sess_run now (stack_init ks) (List.map OClient ms)))) =
  filter (all_respectb ks now) ms.
Proof. exact stack_forwarded_in_order. Qed.
Print Assumptions C17_stack_forwarded_in_order.

(** [nip11_chain_equiv]: the chain built from a limitation block is the stack
    of exactly its non-zero limits (max_subscriptions, max_filters, max_limit,
    max_event_tags, max_content_length, both created_at limits); with the
    theorems above it therefore enforces each as the individual middleware does *)
Theorem C17_nip11_chain_equiv : forall l, lim_nonneg l -> build_nip11 (DocLim l) = BStack (nip11_limits l).
Proof. exact nip11_chain_equiv. Qed.
Print Assumptions C17_nip11_chain_equiv.

(** the identity cases that do hold: nil document, and a limitation block
    that sets nothing; the empty stack is the identity on every history *)
Theorem C17_nip11_nil_identity : build_nip11 DocNil = BStack [].
Proof. exact nip11_nil_identity. Qed.
Theorem C17_nip11_all_zero_identity : build_nip11 (DocLim zero_lim) = BStack [].
Proof. exact nip11_all_zero_identity. Qed.
Theorem C17_empty_stack_identity : forall now h,
  sess_run now (stack_init []) h =
  (stack_init [], List.map (fun o => match o with OClient m => ([m], []) | OServer s => ([], [s]) end) h).
Proof. exact empty_stack_identity. Qed.
Print Assumptions C17_empty_stack_identity.

(** a document without limitation block is the identity as soon as a nil
    guard (as regenerated from the source) covers it ... *)
Theorem C17_nip11_no_limitation_identity_guarded :
  GenMw.g_nip11_outer_identity false true || GenMw.g_nip11_inner_identity false true = true ->
  build_nip11 DocNoLim = BStack [].
Proof. exact nip11_no_limitation_identity_guarded. Qed.
Print Assumptions C17_nip11_no_limitation_identity_guarded.

(** ... which it is since the repair of F4: [nip11_no_limitation_identity] *)
Theorem C17_nip11_no_limitation_identity :
  forall d, no_limitation_block d -> build_nip11 d = BStack [].
Proof. exact nip11_no_limitation_identity. Qed.
Print Assumptions C17_nip11_no_limitation_identity.

(** the model satisfies the oracle used by the correspondence check — the
    layered reading of the property text over observations — for every stack
    of middlewares (stateful ones included) and every history of client and
    server messages *)
Theorem C17_model_satisfies_oracle : forall now ks h,
  Forall wf_k ks -> sp_run now (sp_stack_init ks) h (snd (sess_run now (stack_init ks) h)) = true.
Proof. exact model_satisfies_oracle. Qed.
Print Assumptions C17_model_satisfies_oracle.

(** the same when the middleware value serves connection after connection
    (slots in which connections begin, talk and end, in any interleaving): every
    connection is judged from the initial state, so each limit — the quota of
    the NIP-11 chain included — is enforced on a connection exactly as on the
    only connection of a fresh middleware value *)
Theorem C17_life_model_satisfies_oracle : forall now ks n h j,
  Forall wf_k ks -> (j < n)%nat ->
  sp_life_run now ks None (proj j h)
              (proj j (combine (List.map fst h) (snd (lsys_run ks now (lsys_init n) h)))) = true.
Proof. exact life_model_satisfies_oracle. Qed.
Print Assumptions C17_life_model_satisfies_oracle.

(** the hypotheses are satisfiable on non-trivial concrete data: a stack of
    three limits, one message that respects all and one that violates the
    second and the third (the second answers) *)
Example C17_example :
  let ks := [MaxSubIDLen 3; MaxFilters 1; MaxLimit 2] in
  let f := mkFilter None None None None None None (Some 5) in
  Forall (fun k => stateless k = true) ks /\
  stack_client 0 (stack_init ks) (CReq (txt "abc") [empty_filter]) =
    (stack_init ks, Some (CReq (txt "abc") [empty_filter]), []) /\
  stack_client 0 (stack_init ks) (CReq (txt "abc") [f; f]) =
    (stack_init ks, None, [SClosed (txt "abc") [] (txt "too many req filters: max filters is 1")]).
Proof. repeat split; repeat constructor. Qed.
