(* C11, defect F10 — white space before the opening bracket.  The property
   quantifies over "any insignificant whitespace"; by the JSON grammar that
   includes white space before the first token.  On the tree as it stands the
   label pattern is anchored at the bracket and such texts are rejected.
   Compiles only against the anchored pattern; replaced by C11WsFixed.v after
   the repair. *)
From Moc Require Import Base Json CodecMsg Codec CodecProofs Valid ValidProofs ValidWsRefuted.
Open Scope Z_scope.

Theorem C11_leading_ws_rejected : forall esc j, gate_admits (mkCText true esc j) = false.
Proof. exact admit_leading_ws_rejected. Qed.
Print Assumptions C11_leading_ws_rejected.

(** a well-formed text that is admitted without, and rejected with, one leading space *)
Theorem C11_leading_ws_refuted :
  exists t, ct_lead_ws t = true /\ wf_json_cmsg (ct_label_escaped t) (ct_json t) = true /\
            gate_admits (mkCText false (ct_label_escaped t) (ct_json t)) = true /\ gate_admits t = false.
Proof. exact admit_leading_ws_refuted. Qed.
Print Assumptions C11_leading_ws_refuted.
