(* C15 — Shared stores are race-free and linearizable under concurrent sessions.

   PARTIAL.  What is proved: in the model of Lin.v (threads over one
   readers-writer lock, non-atomic bodies, arbitrary interleavings, any number of
   threads) the lock discipline implies that every concurrent history is
   linearizable with respect to the sequential model of the cache, with
   linearization points inside the critical sections; the lock discipline itself
   is read off the source on every run (Gen/GenLocks.v) and checked by
   computation; sequential invariants of query answers transfer to every
   response of every concurrent history.
   What is not proved: that the Go code executes a critical section as the
   model says (Go memory model, sync.RWMutex), and that nothing outside the
   methods touches the maps — the race detector runs of the harness are
   supporting evidence for that, not proof. *)
From Coq Require Import List ZArith.
From Moc Require Import Base Match Cache CacheSpec CacheInv CacheHyp Lin LinProofs LinCache LinCacheProofs LinCacheDischarge.
From Moc Require CacheFacts.
From Moc Require Import LinCheckProofs.
From Moc.Check Require C15Check.
From Coq Require Import Permutation.
From Moc Require Import LockOrder LockOrderProofs.
From Moc.Gen Require Import GenLocks GenLockOrder.
Import ListNotations.
Open Scope Z_scope.

(* ------------------------------------------------------------------ *)
(** * Generic: lock discipline => linearizable *)

Theorem C15_rw_lock_linearizable :
  forall (St Op Res : Type) (sem : St -> Op -> St * Res) (mode : Op -> lmode) (wr : Op -> bool),
    disciplined St Op Res sem mode wr ->
    forall s0 tr c,
      steps St Op Res sem mode wr (init St Op Res s0) tr c ->
      linearizable St Op Res sem s0 (hist Op Res tr).
Proof. exact rw_lock_linearizable. Qed.
Print Assumptions C15_rw_lock_linearizable.

(** the linearization is the order of the linearization points of the trace
    (snapshot of an operation without stores, publication of one with stores) *)
Theorem C15_linearization_points :
  forall (St Op Res : Type) (sem : St -> Op -> St * Res) (mode : Op -> lmode) (wr : Op -> bool),
    disciplined St Op Res sem mode wr ->
    forall s0 tr c,
      steps St Op Res sem mode wr (init St Op Res s0) tr c ->
      exists L, linearization St Op Res sem s0 (hist Op Res tr) L /\
                map (l_id Op Res) L = linpts Op Res wr tr.
Proof. exact rw_lock_linearizable_pts. Qed.
Print Assumptions C15_linearization_points.

(** ... and such a point lies inside the critical section of its operation *)
Theorem C15_linearization_point_inside_critical_section :
  forall (St Op Res : Type) (sem : St -> Op -> St * Res) (mode : Op -> lmode) (wr : Op -> bool),
    disciplined St Op Res sem mode wr ->
    forall s0 tr c l c' i,
      steps St Op Res sem mode wr (init St Op Res s0) tr c ->
      step St Op Res sem mode wr c l c' -> In i (linpt_of Op Res wr l) ->
      exists t o, pc_id St Op Res (k_pc _ _ _ c t) = Some i /\ pc_op St Op Res (k_pc _ _ _ c t) = Some o /\
                  (mode o = Excl -> k_w _ _ _ c = Some t) /\
                  (mode o = Shared -> In t (k_r _ _ _ c)).
Proof. exact linpt_inside_critical_section. Qed.
Print Assumptions C15_linearization_point_inside_critical_section.

(** the discipline is a real hypothesis: storing under the shared lock loses an update *)
Theorem C15_lock_discipline_needed :
  (exists c, steps nat unit nat cnt_sem cnt_mode cnt_wr (init nat unit nat 0%nat) lost_trace c) /\
  ~ linearizable nat unit nat cnt_sem 0%nat (hist unit nat lost_trace).
Proof. split; [exact lost_trace_is_a_trace | exact shared_writers_not_linearizable]. Qed.
Print Assumptions C15_lock_discipline_needed.

(** sequential facts transfer to every response of a linearizable history *)
Theorem C15_lin_transfer :
  forall (St Op Res : Type) (sem : St -> Op -> St * Res) s0 (H : list (hev Op Res)) (P : Op -> Res -> Prop),
    linearizable St Op Res sem s0 H ->
    (forall ops o, (forall o', In o' (ops ++ [o]) -> exists i t, In (HInv i t o') H) ->
                   P o (snd (sem (seq_run St Op Res sem s0 ops) o))) ->
    forall i t r, In (HResp i t r) H -> exists o t', In (HInv i t' o) H /\ P o r.
Proof. exact lin_transfer. Qed.
Print Assumptions C15_lin_transfer.

(* ------------------------------------------------------------------ *)
(** * The cache *)

(** the lock table extracted from event_cache.go / data_structure.go satisfies the discipline *)
Theorem C15_cache_lock_discipline : lock_discipline_ok = true.
Proof. exact cache_lock_discipline. Qed.
Print Assumptions C15_cache_lock_discipline.

(** EventCache.mu in the lock order of the package (LockOrder.v, Gen/GenLockOrder.v, regenerated on
    every run): the lock is never held while another lock is taken and never taken while another
    one is held - in particular a method that holds it does not take it again, which behind a
    queued writer is a deadlock (C13_example_reentrant_read_lock) - and no blocking operation
    happens with a lock held; hence in every reachable state of the lock model whoever holds
    EventCache.mu waits for no lock and sits in no blocking operation: the critical sections of the
    store, which Lin.v treats as running to their end, are never stuck on another lock *)
Theorem C15_cache_lock_never_nested :
  0 <= lo_cache_lock_level /\ lo_never_nested g_lock_nest lo_cache_lock_level = true /\
  g_lock_blocking_under_lock = [].
Proof. exact (conj (proj1 lock_classes_found) (conj lock_cache_never_nested lock_blocking_table_empty)). Qed.
Print Assumptions C15_cache_lock_never_nested.

Theorem C15_cache_lock_isolated : forall lv s,
  lo_steps lv g_lock_nest g_lock_blocking_under_lock lo_init s ->
  lo_leaf_level lv lo_cache_lock_level s /\ lo_no_block_under_lock s.
Proof.
  exact (fun lv s St => conj (lo_program_cache_lock_isolated lv s St) (proj2 (lo_program_invariant lv s St))).
Qed.
Print Assumptions C15_cache_lock_isolated.

Theorem C15_cache_disciplined : disciplined cstate cop cres cache_sem cache_mode cache_wr.
Proof. exact cache_disciplined. Qed.
Print Assumptions C15_cache_disciplined.

Theorem C15_cache_linearizable :
  forall cap tr c,
    steps cstate cop cres cache_sem cache_mode cache_wr (init cstate cop cres (c_empty cap)) tr c ->
    linearizable cstate cop cres cache_sem (c_empty cap) (hist cop cres tr).
Proof. exact cache_linearizable. Qed.
Print Assumptions C15_cache_linearizable.

(** the three "in particular" claims — no query shows more than capacity events,
    two versions of one address, or an event together with a retained deletion
    request of its author that references it — for every Find response of every
    concurrent history whose inserted events are admissible (functional ids,
    colon-free ids and pubkeys, NIP-09 shaped deletion tags: [hist_ok5]) and
    whose filters are ones the decoder can produce ([filter_ok]) *)
Theorem C15_find_invariants :
  forall cap tr c,
    1 <= cap ->
    steps cstate cop cres cache_sem cache_mode cache_wr (init cstate cop cres (c_empty cap)) tr c ->
    hist_ok5 (hist_adds (hist cop cres tr)) ->
    (forall i t fs, In (HInv i t (OFind fs)) (hist cop cres tr) -> Forall filter_ok fs) ->
    forall i t out, In (HResp i t (RFound (Ok out))) (hist cop cres tr) ->
      Z.of_nat (length out) <= cap /\
      one_per_address out = true /\
      (forall x d, In x out -> In d out -> is_k5 d = true -> ev_pk d = ev_pk x -> refs d x = false).
Proof. exact cache_find_invariants_closed. Qed.
Print Assumptions C15_find_invariants.

(** the same transfer with the sequential facts as premises (any hypothesis on
    the inserted events that is inherited by sub-collections, any condition on
    filters): this is the part that belongs to C15 alone *)
Theorem C15_find_invariants_transfer :
  forall (hyp : list event -> Prop) (fok : rfilter -> Prop),
    (forall h h', hyp h -> incl h' h -> hyp h') ->
    (forall cap h fs out, hyp h -> 1 <= cap -> Forall fok fs -> c_find (c_run cap h) fs = Ok out -> Z.of_nat (length out) <= cap) ->
    (forall cap h fs out, hyp h -> 1 <= cap -> Forall fok fs -> c_find (c_run cap h) fs = Ok out -> one_per_address out = true) ->
    (forall cap h fs out, hyp h -> 1 <= cap -> Forall fok fs -> c_find (c_run cap h) fs = Ok out -> no_deleted_pair out) ->
    forall cap tr c,
      1 <= cap ->
      steps cstate cop cres cache_sem cache_mode cache_wr (init cstate cop cres (c_empty cap)) tr c ->
      hyp (hist_adds (hist cop cres tr)) ->
      (forall i t fs, In (HInv i t (OFind fs)) (hist cop cres tr) -> Forall fok fs) ->
      forall i t out, In (HResp i t (RFound (Ok out))) (hist cop cres tr) -> find_answer_ok cap out.
Proof. intros hyp fok Hincl. exact (cache_find_invariants hyp Hincl fok). Qed.
Print Assumptions C15_find_invariants_transfer.

Theorem C15_safemap_linearizable :
  forall m0 tr c,
    steps sm_state sm_op sm_res sm_sem sm_mode sm_wr (init sm_state sm_op sm_res m0) tr c ->
    linearizable sm_state sm_op sm_res sm_sem m0 (hist sm_op sm_res tr).
Proof. exact safemap_linearizable. Qed.
Print Assumptions C15_safemap_linearizable.

(* ------------------------------------------------------------------ *)
(** * The oracle of the correspondence check *)

(** when the checker accepts a recorded history, a linearization of it exists:
    a permutation of the recorded operations that respects the real-time order of
    the stamps and along which the sequential model gives the recorded results *)
Theorem C15_lin_check_sound :
  forall cap ops,
    C15Check.lin_check cap ops = true ->
    exists l, Permutation l ops /\ legal_sem (c_empty cap) l /\ rt_ok l.
Proof. exact lin_check_sound. Qed.
Print Assumptions C15_lin_check_sound.

(* ------------------------------------------------------------------ *)
(** * The hypotheses are satisfiable: a trace of the cache semantics in which an
      insertion and a query overlap (the query is invoked first and answers last) *)

Definition ex_e : event := mkEvent [1]%N [9]%N 3 1 [] [] [].

Definition ex_trace : list (label cop cres) :=
  [LInv 0 1 OLen; LInv 1 0 (OAdd ex_e); LAcq 1 0; LRead 1 0 (OAdd ex_e); LDirty 1 0;
   LWrite 1 0 (OAdd ex_e); LRel 1 0; LAcq 0 1; LRead 0 1 OLen; LWrite 0 1 OLen; LRel 0 1;
   LResp 1 0 (RAdded true); LResp 0 1 (RLen 1)]%nat.

Example C15_example_trace :
  exists c, steps cstate cop cres cache_sem cache_mode cache_wr (init cstate cop cres (c_empty 2)) ex_trace c.
Proof.
  eexists. unfold ex_trace.
  cbn [k_st k_w k_r k_pc k_next init]; eapply steps_cons; [cfg_step ltac:(fun c => eapply (s_inv _ _ _ _ _ _ c 1%nat OLen))|].
  cbn [k_st k_w k_r k_pc k_next init]; eapply steps_cons; [cfg_step ltac:(fun c => eapply (s_inv _ _ _ _ _ _ c 0%nat (OAdd ex_e)))|].
  cbn [k_st k_w k_r k_pc k_next init]; eapply steps_cons; [cfg_step ltac:(fun c => eapply (s_acq_excl _ _ _ _ _ _ c 0%nat))|].
  cbn [k_st k_w k_r k_pc k_next init]; eapply steps_cons; [cfg_step ltac:(fun c => eapply (s_read_locked _ _ _ _ _ _ c 0%nat))|].
  cbn [k_st k_w k_r k_pc k_next init]; eapply steps_cons; [cfg_step ltac:(fun c => eapply (s_dirty _ _ _ _ _ _ c 0%nat 1%nat (OAdd ex_e) _ (c_empty 7)))|].
  cbn [k_st k_w k_r k_pc k_next init]; eapply steps_cons; [cfg_step ltac:(fun c => eapply (s_write _ _ _ _ _ _ c 0%nat))|].
  cbn [k_st k_w k_r k_pc k_next init]; eapply steps_cons; [cfg_step ltac:(fun c => eapply (s_rel _ _ _ _ _ _ c 0%nat))|].
  cbn [k_st k_w k_r k_pc k_next init rel_w rel_r]; eapply steps_cons; [cfg_step ltac:(fun c => eapply (s_acq_shared _ _ _ _ _ _ c 1%nat))|].
  cbn [k_st k_w k_r k_pc k_next init]; eapply steps_cons; [cfg_step ltac:(fun c => eapply (s_read_locked _ _ _ _ _ _ c 1%nat))|].
  cbn [k_st k_w k_r k_pc k_next init]; eapply steps_cons; [cfg_step ltac:(fun c => eapply (s_write _ _ _ _ _ _ c 1%nat))|].
  cbn [k_st k_w k_r k_pc k_next init]; eapply steps_cons; [cfg_step ltac:(fun c => eapply (s_rel _ _ _ _ _ _ c 1%nat))|].
  cbn [k_st k_w k_r k_pc k_next init rel_w rel_r]; eapply steps_cons; [cfg_step ltac:(fun c => eapply (s_resp _ _ _ _ _ _ c 0%nat))|].
  cbn [k_st k_w k_r k_pc k_next init]; eapply steps_cons; [cfg_step ltac:(fun c => eapply (s_resp _ _ _ _ _ _ c 1%nat))|].
  apply steps_nil.
Qed.

(** ... and its inserted events and filters meet the hypotheses of [C15_find_invariants] *)
Example C15_example_hypotheses :
  hist_ok5 (hist_adds (hist cop cres ex_trace)) /\
  (forall i t fs, In (HInv i t (OFind fs)) (hist cop cres ex_trace) -> Forall filter_ok fs).
Proof.
  split.
  - apply CacheFacts.hist_ok5b_spec. vm_compute. reflexivity.
  - intros i t fs Hin. simpl in Hin. destruct Hin as [E | [E | [E | [E | []]]]]; discriminate.
Qed.
