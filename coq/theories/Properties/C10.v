(* C10 — Wire codec: decoding never panics; encode/decode round-trips every
   value.  Statements only; each is closed by [exact] of a lemma proved in
   CodecProofs.v and followed by Print Assumptions.

   Scope: the model starts from the generic JSON value that encoding/json
   hands to the repository's code (Json.v); text <-> value (tokenising,
   escapes, UTF-8 coercion, white space, depth limit) is Go's library and is
   exercised by the correspondence run only.  [Val]/[Err]/[Panic] are the
   three outcomes of the model; arity tests, label tests, the member count of
   an event, the key dispatch of a filter, every label and machine-readable
   prefix come from the current source (Gen/GenCodec.v). *)
From Moc Require Import Base Json CodecMsg Codec CodecProofs.
Open Scope Z_scope.

(** Decoding never panics: no JSON value drives any of the fourteen decoders,
    or ParseClientMsg, into a slice index or sub-slice out of range. *)
Theorem C10_dec_never_panics : forall t j, dec_as t j <> Panic.
Proof. exact dec_never_panics. Qed.
Print Assumptions C10_dec_never_panics.

Theorem C10_parse_never_panics : forall t, parse_client_msg t <> Panic.
Proof. exact parse_never_panics. Qed.
Print Assumptions C10_parse_never_panics.

(** ... and either fails or yields a completely filled value of the type
    named (the bare text null, a no-op by Go's Unmarshaler convention, is the
    one excluded input). *)
Theorem C10_dec_filled : forall t j v,
  dec_as t j = Val v -> j <> JNull -> wf_wval v /\ ty_of v = t.
Proof. exact dec_filled. Qed.
Print Assumptions C10_dec_filled.

(** encode then decode is the identity on well-formed values, per type *)
Theorem C10_enc_dec_event : forall e, wf_event e -> dec_event (enc_event e) = Val e.
Proof. exact enc_dec_event. Qed.
Print Assumptions C10_enc_dec_event.

Theorem C10_enc_dec_filter : forall f, wf_filter f -> dec_filter (enc_filter f) = Val f.
Proof. exact enc_dec_filter. Qed.
Print Assumptions C10_enc_dec_filter.

Theorem C10_enc_dec_client_event : forall e,
  wf_event e -> dec_client_event (enc_cmsg (CEvent (Some e))) = Val (CEvent (Some e)).
Proof. exact enc_dec_client_event. Qed.
Theorem C10_enc_dec_client_req : forall sub fs,
  wf_filtersb fs = true -> dec_client_req (enc_cmsg (CReq sub fs)) = Val (CReq sub fs).
Proof. exact enc_dec_client_req. Qed.
Theorem C10_enc_dec_client_close : forall sub, dec_client_close (enc_cmsg (CClose sub)) = Val (CClose sub).
Proof. exact enc_dec_client_close. Qed.
Theorem C10_enc_dec_client_auth : forall e,
  wf_event e -> dec_client_auth (enc_cmsg (CAuth (Some e))) = Val (CAuth (Some e)).
Proof. exact enc_dec_client_auth. Qed.
Theorem C10_enc_dec_client_count : forall sub fs,
  wf_filtersb fs = true -> dec_client_count (enc_cmsg (CCount sub fs)) = Val (CCount sub fs).
Proof. exact enc_dec_client_count. Qed.
Print Assumptions C10_enc_dec_client_req.

Theorem C10_enc_dec_server_eose : forall sub, dec_server_eose (enc_smsg (SEose sub)) = Val (SEose sub).
Proof. exact enc_dec_server_eose. Qed.
Theorem C10_enc_dec_server_event : forall sub e,
  wf_event e -> dec_server_event (enc_smsg (SEvent sub (Some e))) = Val (SEvent sub (Some e)).
Proof. exact enc_dec_server_event. Qed.
Theorem C10_enc_dec_server_notice : forall s, dec_server_notice (enc_smsg (SNotice s)) = Val (SNotice s).
Proof. exact enc_dec_server_notice. Qed.
(** OK / CLOSED: the (prefix, message) pair must be normalised — the prefix
    is one of the six machine-readable prefixes, or is empty and the message
    does not itself start with one *)
Theorem C10_enc_dec_server_ok : forall id acc msg pfx,
  reason_normalb pfx msg = true -> dec_server_ok (enc_smsg (SOk id acc msg pfx)) = Val (SOk id acc msg pfx).
Proof. exact enc_dec_server_ok. Qed.
Theorem C10_enc_dec_server_auth : forall s, dec_server_auth (enc_smsg (SAuth s)) = Val (SAuth s).
Proof. exact enc_dec_server_auth. Qed.
Theorem C10_enc_dec_server_count : forall sub n ap,
  uint64_okb n = true -> dec_server_count (enc_smsg (SCount sub n ap)) = Val (SCount sub n ap).
Proof. exact enc_dec_server_count. Qed.
Theorem C10_enc_dec_server_closed : forall sub msg pfx,
  reason_normalb pfx msg = true -> dec_server_closed (enc_smsg (SClosed sub msg pfx)) = Val (SClosed sub msg pfx).
Proof. exact enc_dec_server_closed. Qed.
Print Assumptions C10_enc_dec_server_ok.

(** all fourteen at once, through the dispatcher used by the correspondence check *)
Theorem C10_enc_dec : forall v, wf_wval v -> dec_as (ty_of v) (enc_wval v) = Val v.
Proof. exact enc_dec_wval. Qed.
Print Assumptions C10_enc_dec.

(** for every accepted text, decode-encode-decode yields the same value as decode *)
Theorem C10_dec_enc_dec : forall t j v,
  dec_as t j = Val v -> j <> JNull -> dec_as t (enc_wval v) = Val v.
Proof. exact dec_enc_dec. Qed.
Print Assumptions C10_dec_enc_dec.

Theorem C10_dec_enc_dec_event : forall j e, dec_event j = Val e -> dec_event (enc_event e) = Val e.
Proof. exact dec_enc_dec_event. Qed.
Theorem C10_dec_enc_dec_filter : forall j f, dec_filter j = Val f -> dec_filter (enc_filter f) = Val f.
Proof. exact dec_enc_dec_filter. Qed.

(** the stored (prefix, message) of OK / CLOSED is normalised and loses nothing *)
Theorem C10_prefix_split_normal : forall raw p m,
  parse_prefix raw = (p, m) -> reason_normalb p m = true /\ p ++ m = raw.
Proof. exact parse_prefix_normal. Qed.
Print Assumptions C10_prefix_split_normal.

(** ParseClientMsg: the value has the label the text starts with and is filled *)
Theorem C10_parse_label_sound : forall t m,
  parse_client_msg t = Val m ->
  first_label (ct_json t) = Some (label_of_cmsg m) /\ wf_cmsg m.
Proof. exact parse_label_sound. Qed.
Print Assumptions C10_parse_label_sound.

Theorem C10_parse_enc : forall m, wf_cmsg m -> parse_client_msg (plain_text (enc_cmsg m)) = Val m.
Proof. exact parse_enc_cmsg. Qed.
Print Assumptions C10_parse_enc.

(** the label pattern read from the source is one the model interprets *)
Theorem C10_regexp_pinned : regexp_known = true.
Proof. exact client_msg_regexp_pinned. Qed.

(* ------------------------------------------------------------------ *)
(** The hypotheses are satisfiable on non-trivial values. *)

Definition ex_event : gevent :=
  mkGEvent [97]%N [98]%N 1700000000 30023
    (Some [Some [[101]%N; [120; 121]%N]; Some [[100]%N; []]; Some []]) [104; 105]%N [115]%N.

Definition ex_filter : gfilter :=
  mkGFilter (Some [[97]%N]) None (Some [1; 30023])
    (Some [([101]%N, Some [[120]%N]); ([90]%N, Some [])]) (Some 5) None (Some 0).

Example C10_example_event_wf : wf_event ex_event /\ dec_event (enc_event ex_event) = Val ex_event.
Proof. split; reflexivity. Qed.

Example C10_example_filter_wf : wf_filter ex_filter /\ dec_filter (enc_filter ex_filter) = Val ex_filter.
Proof. split; reflexivity. Qed.

Example C10_example_req :
  wf_cmsg (CReq [115]%N [Some ex_filter; Some empty_gfilter]) /\
  parse_client_msg (plain_text (enc_cmsg (CReq [115]%N [Some ex_filter; Some empty_gfilter])))
  = Val (CReq [115]%N [Some ex_filter; Some empty_gfilter]).
Proof. split; reflexivity. Qed.

(** "pow: x" is stored as prefix "pow: " and message "x" and comes back *)
Example C10_example_ok :
  wf_smsg (SOk [105]%N false [120]%N [112; 111; 119; 58; 32]%N) /\
  dec_server_ok (JArr [JStr L_OK; JStr [105]%N; JBool false; JStr [112; 111; 119; 58; 32; 120]%N])
  = Val (SOk [105]%N false [120]%N [112; 111; 119; 58; 32]%N).
Proof. split; reflexivity. Qed.

(** the limits of the statement: an un-normalised reason does not round-trip
    (prefix "" with message "pow: x" comes back as prefix "pow: ", message "x"),
    and neither do nil Tags *)
Example C10_example_unnormalised :
  dec_server_ok (enc_smsg (SOk [] true [112; 111; 119; 58; 32; 120]%N []))
  = Val (SOk [] true [120]%N [112; 111; 119; 58; 32]%N).
Proof. reflexivity. Qed.

Example C10_example_nil_tags :
  dec_event (enc_event (mkGEvent [] [] 0 0 None [] [])) = Err.
Proof. reflexivity. Qed.
